#!/bin/bash
# MANIFEST.setup_cmd: build the harness binaries offline from files on disk.
set -eu
cd "$(dirname "$0")"
export GOFLAGS=-mod=mod GOPROXY=off GOSUMDB=off GOTOOLCHAIN=local
mkdir -p bin logs evidence replays
cd harness
go build -o ../bin/gofail go.etcd.io/gofail
go build -race -tags verif -o ../bin/verif-race ./cmd/verif &
go build -tags verif -gcflags=all=-d=checkptr -o ../bin/verif-fast ./cmd/verif &
wait
ls -la ../bin
