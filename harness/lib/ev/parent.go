package ev

import (
	"bufio"
	"encoding/json"
	"fmt"
	"os"
	"os/exec"
	"path/filepath"
	"regexp"
	"sort"
	"strings"
	"sync"
	"syscall"
	"time"
)

// VerifDir is the root of the verification tree.
var VerifDir = func() string {
	if d := os.Getenv("VERIF_OUT"); d != "" {
		return d
	}
	return "/verif"
}()

type knownFinding struct {
	prop, key, text string
}

func loadKnown() []knownFinding {
	var out []knownFinding
	f, err := os.Open(filepath.Join(VerifDir, "KNOWN_FINDINGS.txt"))
	if err != nil {
		return nil
	}
	defer f.Close()
	sc := bufio.NewScanner(f)
	re := regexp.MustCompile(`^known:\s+property=(\S+)\s+key=(\S+)\s*(.*)$`)
	for sc.Scan() {
		m := re.FindStringSubmatch(strings.TrimSpace(sc.Text()))
		if m != nil {
			out = append(out, knownFinding{m[1], m[2], m[3]})
		}
	}
	return out
}

type childOutcome struct {
	batch    int
	res      *BatchResult
	crashed  bool
	timedOut bool
	exitCode int
	crashKey string
	lastCase string
	outFile  string
}

var reRaceTop = regexp.MustCompile(`(?m)^\s+([A-Za-z0-9_./()*\-]+)\(`)

func classifyCrash(out string, exit int) string {
	switch {
	case strings.Contains(out, "WARNING: DATA RACE"):
		// key by the first function of the first stack so that different races differ
		idx := strings.Index(out, "WARNING: DATA RACE")
		m := reRaceTop.FindStringSubmatch(out[idx:])
		if m != nil {
			return "crash.race." + sanitizeKey(m[1])
		}
		return "crash.race"
	case strings.Contains(out, "fatal error: checkptr"):
		return "crash.checkptr"
	case strings.Contains(out, "fatal error:"):
		i := strings.Index(out, "fatal error:")
		line := out[i:]
		if j := strings.IndexByte(line, '\n'); j >= 0 {
			line = line[:j]
		}
		return "crash.fatal." + sanitizeKey(strings.TrimPrefix(line, "fatal error:"))
	case strings.Contains(out, "panic:"):
		i := strings.Index(out, "panic:")
		line := out[i:]
		if j := strings.IndexByte(line, '\n'); j >= 0 {
			line = line[:j]
		}
		if strings.Contains(line, "logrus.Entry") {
			// log.Panicf: the panic value is a pointer; key by the first frame outside the logging packages
			for _, fl := range strings.Split(out[i:], "\n") {
				if !strings.Contains(fl, "(") || strings.HasPrefix(fl, "\t") || strings.HasPrefix(fl, "panic") || strings.HasPrefix(fl, "goroutine") {
					continue
				}
				if strings.Contains(fl, "logrus") || strings.Contains(fl, "common/log.") || strings.HasPrefix(fl, "runtime") {
					continue
				}
				if k := strings.LastIndex(fl, "("); k > 0 {
					fn := fl[:k]
					if m := strings.LastIndex(fn, "/"); m >= 0 {
						fn = fn[m+1:]
					}
					return "crash.panic.log-panic." + sanitizeKey(fn)
				}
			}
			return "crash.panic.log-panic"
		}
		return "crash.panic." + sanitizeKey(strings.TrimPrefix(line, "panic:"))
	}
	return fmt.Sprintf("crash.exit%d", exit)
}

func sanitizeKey(s string) string {
	s = strings.TrimSpace(s)
	var b strings.Builder
	for _, r := range s {
		switch {
		case r >= 'a' && r <= 'z', r >= 'A' && r <= 'Z', r >= '0' && r <= '9', r == '.', r == '_', r == '-':
			b.WriteRune(r)
		default:
			b.WriteByte('_')
		}
		if b.Len() > 80 {
			break
		}
	}
	return b.String()
}

func tailOf(path string, n int) string {
	b, err := os.ReadFile(path)
	if err != nil {
		return ""
	}
	if len(b) > n {
		b = b[len(b)-n:]
	}
	return string(b)
}

func headAround(path, marker string, n int) string {
	b, err := os.ReadFile(path)
	if err != nil {
		return ""
	}
	s := string(b)
	i := strings.Index(s, marker)
	if i < 0 {
		return tailOf(path, n)
	}
	s = s[i:]
	if len(s) > n {
		s = s[:n]
	}
	return s
}

func lastCaseOf(journal string) string {
	b, err := os.ReadFile(journal)
	if err != nil {
		return ""
	}
	lines := strings.Split(string(b), "\n")
	last := ""
	for i, l := range lines {
		if strings.HasPrefix(l, "case ") {
			last = l
			// include following notes
			for j := i + 1; j < len(lines) && strings.HasPrefix(lines[j], "  note "); j++ {
				last += "\n" + lines[j]
			}
		}
	}
	if len(last) > 20000 {
		last = last[:20000]
	}
	return last
}

// RunParent runs all batches of a property as child processes and merges
// the result. It returns the process exit code.
func RunParent(id, tier string, seed int64, onlyBatch, onlyCase int) int {
	p := Lookup(id)
	if p == nil {
		fmt.Fprintf(os.Stderr, "unknown property %s\n", id)
		return 3
	}
	start := time.Now()
	exe, err := os.Executable()
	if err != nil {
		fmt.Fprintln(os.Stderr, err)
		return 3
	}
	outDir := filepath.Join(VerifDir, "logs", fmt.Sprintf("%s-%s", id, tier))
	os.RemoveAll(outDir)
	if err := os.MkdirAll(outDir, 0755); err != nil {
		fmt.Fprintln(os.Stderr, err)
		return 3
	}
	replayDir := filepath.Join(VerifDir, "replays", id)
	os.MkdirAll(replayDir, 0755)

	nb := 1
	if p.Batches != nil {
		nb = p.Batches(tier)
	}
	if nb < 1 {
		nb = 1
	}
	par := p.Parallel
	if par <= 0 {
		par = 16
	}
	if par > nb {
		par = nb
	}
	timeout := 600
	if p.TimeoutSec != nil {
		timeout = p.TimeoutSec(tier)
	}
	if onlyCase >= 0 && onlyBatch < 0 {
		onlyBatch = onlyCase % nb
	}
	batches := make([]int, 0, nb)
	for b := 0; b < nb; b++ {
		if onlyBatch >= 0 && b != onlyBatch {
			continue
		}
		batches = append(batches, b)
	}
	outcomes := make([]*childOutcome, len(batches))
	sem := make(chan struct{}, par)
	var wg sync.WaitGroup
	for i, b := range batches {
		wg.Add(1)
		go func(i, b int) {
			defer wg.Done()
			sem <- struct{}{}
			defer func() { <-sem }()
			outcomes[i] = runChild(exe, p, id, tier, seed, b, nb, onlyCase, outDir, timeout)
		}(i, b)
	}
	wg.Wait()

	// merge
	merged := BatchResult{Counters: map[string]int64{}}
	nontriv := map[uint64]struct{}{}
	sets := map[string]map[uint64]struct{}{}
	var violations []ViolationRec
	inconclusive := []string{}
	for _, o := range outcomes {
		if o.timedOut {
			inconclusive = append(inconclusive, fmt.Sprintf("batch %d: watchdog (%ds) fired; see %s", o.batch, timeout, o.outFile))
			// violations journalled before the watchdog fired are still violations
			jb, _ := os.ReadFile(filepath.Join(outDir, fmt.Sprintf("batch-%03d.journal", o.batch)))
			for _, l := range strings.Split(string(jb), "\n") {
				if strings.HasPrefix(l, "VIOLATION case=") {
					var cs int
					var key string
					if n, _ := fmt.Sscanf(l, "VIOLATION case=%d key=%s", &cs, &key); n == 2 {
						violations = append(violations, ViolationRec{Key: key, Case: cs, Detail: map[string]interface{}{"batch": o.batch, "witness": "batch timed out after journalling this violation; re-run the case for the witness"}})
					}
				}
			}
			continue
		}
		if o.crashed {
			detail := map[string]interface{}{
				"exit_code": o.exitCode,
				"last_case": o.lastCase,
				"output":    headAround(o.outFile, crashMarker(o.crashKey), 12000),
			}
			violations = append(violations, ViolationRec{Key: o.crashKey, Case: -1, Detail: detail,
				Replay: ""})
			violations[len(violations)-1].Detail.(map[string]interface{})["batch"] = o.batch
			continue
		}
		r := o.res
		merged.Evaluations += r.Evaluations
		for _, h := range r.NonTrivial {
			nontriv[h] = struct{}{}
		}
		for k, v := range r.Counters {
			merged.Counters[k] += v
		}
		for name, l := range r.Sets {
			s := sets[name]
			if s == nil {
				s = map[uint64]struct{}{}
				sets[name] = s
			}
			for _, h := range l {
				s[h] = struct{}{}
			}
		}
		if len(merged.Samples) < 5 {
			for _, s := range r.Samples {
				if len(merged.Samples) < 5 {
					merged.Samples = append(merged.Samples, s)
				}
			}
		}
		merged.Notes = append(merged.Notes, r.Notes...)
		if len(r.Violations) == 0 && os.Getenv("VERIF_KEEP_LOGS") == "" {
			// a batch that ended cleanly: its journal (every case, written before it ran) is only
			// needed when the child dies; keep small ones, drop the big ones (disk is limited)
			jf := filepath.Join(outDir, fmt.Sprintf("batch-%03d.journal", o.batch))
			if fi, err := os.Stat(jf); err == nil && fi.Size() > 1<<20 {
				os.Remove(jf)
			}
		}
		for _, v := range r.Violations {
			if v.Detail == nil {
				v.Detail = map[string]interface{}{}
			}
			violations = append(violations, ViolationRec{Key: v.Key, Case: v.Case, Detail: map[string]interface{}{"batch": o.batch, "witness": v.Detail}})
		}
	}

	// known findings
	known := loadKnown()
	isKnown := func(key string) *knownFinding {
		for i := range known {
			if known[i].prop == id && known[i].key == key {
				return &known[i]
			}
		}
		return nil
	}
	seenKnown := map[string]bool{}
	seenViol := map[string]bool{}
	nViol := 0
	for _, v := range violations {
		if k := isKnown(v.Key); k != nil {
			if !seenKnown[v.Key] {
				seenKnown[v.Key] = true
				fmt.Printf("KNOWN-FINDING: property=%s key=%s %s\n", id, v.Key, k.text)
			}
			continue
		}
		if seenViol[v.Key] {
			continue
		}
		seenViol[v.Key] = true
		nViol++
		rp := filepath.Join(replayDir, fmt.Sprintf("%s-seed%d-%s.json", tier, seed, sanitizeKey(v.Key)))
		rec := map[string]interface{}{
			"property": id, "tier": tier, "seed": seed, "nbatches": nb,
			"case": v.Case, "key": v.Key, "detail": v.Detail,
			"replay_cmd": fmt.Sprintf("./check %s --replay %s", id, rp),
		}
		b, _ := json.MarshalIndent(rec, "", " ")
		os.WriteFile(rp, b, 0644)
		fmt.Printf("VIOLATION property=%s replay=%s\n", id, rp)
		fmt.Printf("  key=%s case=%d\n", v.Key, v.Case)
	}

	// inconclusive conditions
	minNT := 2
	if p.MinNonTrivial != nil {
		if m := p.MinNonTrivial(tier); m > minNT {
			minNT = m
		}
	}
	partial := onlyBatch >= 0 || onlyCase >= 0
	if !partial && nViol == 0 {
		if len(nontriv) < minNT {
			inconclusive = append(inconclusive, fmt.Sprintf("distinct_nontrivial=%d below floor %d", len(nontriv), minNT))
		}
		for _, name := range p.Required {
			if merged.Counters[name] <= 0 {
				inconclusive = append(inconclusive, fmt.Sprintf("required counter %q is zero: the monitor observed no such event", name))
			}
		}
	}

	// evidence
	wall := time.Since(start).Seconds()
	if !partial {
		cov := map[string]interface{}{
			"evaluations":         merged.Evaluations,
			"distinct_nontrivial": len(nontriv),
			"rule":                p.Rule,
			"samples":             merged.Samples,
			"batches":             nb,
			"cases":               p.Cases(tier),
		}
		if merged.Samples == nil {
			cov["samples"] = []interface{}{}
		}
		if p.Exhaustive {
			cov["exhaustive"] = true
		}
		obs := map[string]interface{}{}
		keys := make([]string, 0, len(merged.Counters))
		for k := range merged.Counters {
			keys = append(keys, k)
		}
		sort.Strings(keys)
		for _, k := range keys {
			obs[k] = merged.Counters[k]
		}
		for name, s := range sets {
			obs["distinct_"+name] = len(s)
		}
		cov["observed"] = obs
		if len(merged.Notes) > 0 {
			if len(merged.Notes) > 10 {
				merged.Notes = merged.Notes[:10]
			}
			cov["notes"] = merged.Notes
		}
		if len(inconclusive) > 0 {
			cov["inconclusive"] = inconclusive
		}
		if len(seenKnown) > 0 {
			kl := []string{}
			for k := range seenKnown {
				kl = append(kl, k)
			}
			sort.Strings(kl)
			cov["known_findings_reproduced"] = kl
		}
		evd := map[string]interface{}{
			"property_id": id,
			"tier":        tier,
			"seed":        seed,
			"level":       p.Level,
			"coverage":    cov,
			"assumptions": p.Assumptions,
			"wall_s":      wall,
			"violations":  nViol,
		}
		b, _ := json.MarshalIndent(evd, "", " ")
		os.MkdirAll(filepath.Join(VerifDir, "evidence"), 0755)
		os.WriteFile(filepath.Join(VerifDir, "evidence", id+".json"), b, 0644)
	}

	if nViol > 0 {
		return 1
	}
	if len(inconclusive) > 0 {
		for _, r := range inconclusive {
			fmt.Printf("INCONCLUSIVE property=%s reason=%s\n", id, r)
		}
		return 2
	}
	fmt.Printf("HELD property=%s tier=%s seed=%d evaluations=%d distinct_nontrivial=%d wall=%.1fs\n",
		id, tier, seed, merged.Evaluations, len(nontriv), wall)
	return 0
}

func crashMarker(key string) string {
	switch {
	case strings.HasPrefix(key, "crash.race"):
		return "WARNING: DATA RACE"
	case strings.HasPrefix(key, "crash.fatal"), key == "crash.checkptr":
		return "fatal error:"
	case strings.HasPrefix(key, "crash.panic"):
		return "panic:"
	}
	return "\x00"
}

func runChild(exe string, p *Prop, id, tier string, seed int64, b, nb, onlyCase int, outDir string, timeout int) *childOutcome {
	o := &childOutcome{batch: b}
	o.outFile = filepath.Join(outDir, fmt.Sprintf("batch-%03d.out", b))
	of, err := os.Create(o.outFile)
	if err != nil {
		o.crashed = true
		o.crashKey = "harness.cannot_create_output"
		return o
	}
	defer of.Close()
	args := []string{"child", "--id", id, "--tier", tier, "--seed", fmt.Sprint(seed),
		"--batch", fmt.Sprint(b), "--nbatches", fmt.Sprint(nb), "--out", outDir,
		"--case", fmt.Sprint(onlyCase)}
	cmd := exec.Command(exe, args...)
	cmd.Stdout = of
	cmd.Stderr = of
	// every temp file of the child lands in a scratch dir removed after it exits
	scratch, serr := os.MkdirTemp("", fmt.Sprintf("verif-%s-b%d-", id, b))
	env := os.Environ()
	if serr == nil {
		defer os.RemoveAll(scratch)
		env = append(env, "TMPDIR="+scratch)
	}
	env = append(env, "GORACE=halt_on_error=1 exitcode=66", "GOTRACEBACK=all")
	if p.Env != nil {
		env = append(env, p.Env(tier, b)...)
	}
	cmd.Env = env
	cmd.SysProcAttr = &syscall.SysProcAttr{Setpgid: true}
	if err := cmd.Start(); err != nil {
		o.crashed = true
		o.crashKey = "harness.cannot_start_child"
		return o
	}
	done := make(chan error, 1)
	go func() { done <- cmd.Wait() }()
	select {
	case err = <-done:
	case <-time.After(time.Duration(timeout) * time.Second):
		cmd.Process.Signal(syscall.SIGQUIT)
		select {
		case <-done:
		case <-time.After(10 * time.Second):
			syscall.Kill(-cmd.Process.Pid, syscall.SIGKILL)
			<-done
		}
		o.timedOut = true
		return o
	}
	resFile := filepath.Join(outDir, fmt.Sprintf("batch-%03d.result.json", b))
	rb, rerr := os.ReadFile(resFile)
	if err == nil && rerr == nil {
		var r BatchResult
		if json.Unmarshal(rb, &r) == nil {
			o.res = &r
			return o
		}
	}
	o.crashed = true
	if ee, ok := err.(*exec.ExitError); ok {
		o.exitCode = ee.ExitCode()
	}
	out := tailOf(o.outFile, 4<<20)
	o.crashKey = classifyCrash(out, o.exitCode)
	o.lastCase = lastCaseOf(filepath.Join(outDir, fmt.Sprintf("batch-%03d.journal", b)))
	return o
}

// RunChild executes one batch in this process.
func RunChild(id, tier string, seed int64, batch, nbatches, onlyCase int, outDir string) int {
	p := Lookup(id)
	if p == nil {
		fmt.Fprintf(os.Stderr, "unknown property %s\n", id)
		return 3
	}
	c, err := NewCtx(p, tier, seed, batch, nbatches, onlyCase, outDir)
	if err != nil {
		fmt.Fprintln(os.Stderr, err)
		return 3
	}
	p.Run(c)
	if err := c.Finish(); err != nil {
		fmt.Fprintln(os.Stderr, err)
		return 3
	}
	return 0
}
