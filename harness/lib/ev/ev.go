// Package ev is the core of the /verif runtime-monitoring harness: property
// registry, case scheduling, journal, violation/replay files and evidence.
//
// A property package registers one Prop. Its Run function is executed in a
// child process per batch; it iterates over the cases that belong to the
// batch (ctx.Cases), journals each case before executing it, reports what
// the monitor observed (Count, NonTrivial, Sample) and reports violations
// (Violation). The parent process merges the batch results, applies
// KNOWN_FINDINGS.txt, writes /verif/evidence/<id>.json and sets the exit code.
package ev

import (
	"encoding/json"
	"fmt"
	"hash/fnv"
	"math/rand"
	"os"
	"path/filepath"
	"runtime/debug"
	"sort"
	"sync"
	"time"
)

// Tier names.
const (
	Quick    = "quick"
	Thorough = "thorough"
)

// Prop describes one property check.
type Prop struct {
	ID    string
	Level string // exploration | fault_enumeration
	// Cases returns the number of logical cases for a tier. Cases are
	// distributed round-robin over batches; each case has its own PRNG
	// derived from (seed, id, case index) so that it can be replayed alone.
	Cases func(tier string) int
	// Batches is the number of child processes the cases are split over.
	Batches func(tier string) int
	// Parallel is how many children run at once (0 = min(batches, 16)).
	Parallel int
	// Run executes the cases of one batch.
	Run func(c *Ctx)
	// Rule explains how cases are generated and what makes one non-trivial.
	Rule string
	// MinNonTrivial is the floor below which a run is inconclusive.
	MinNonTrivial func(tier string) int
	// Required lists counters that must be > 0 in the merged result; a
	// monitor that observed none of a required event kind is inconclusive.
	Required []string
	// Assumptions is the trusted base.
	Assumptions []string
	// TimeoutSec is the per-child wall-clock watchdog (inconclusive when it fires).
	TimeoutSec func(tier string) int
	// MemLimitMB is a soft memory limit applied through debug.SetMemoryLimit; 0 = 8192.
	MemLimitMB int
	// Exhaustive is set when the case list enumerates a finite space completely.
	Exhaustive bool
	// Env holds extra environment variables for the children (e.g. GOMAXPROCS).
	Env func(tier string, batch int) []string
}

var registry = map[string]*Prop{}

// Register adds a property to the registry.
func Register(p *Prop) {
	if _, ok := registry[p.ID]; ok {
		panic("duplicate property " + p.ID)
	}
	registry[p.ID] = p
}

// Lookup returns a registered property.
func Lookup(id string) *Prop { return registry[id] }

// IDs returns all registered ids, sorted.
func IDs() []string {
	var ids []string
	for k := range registry {
		ids = append(ids, k)
	}
	sort.Strings(ids)
	return ids
}

// ViolationRec is one violation reported by a child.
type ViolationRec struct {
	Key    string      `json:"key"`
	Case   int         `json:"case"`
	Detail interface{} `json:"detail"`
	Replay string      `json:"replay,omitempty"`
}

// BatchResult is what a child writes when its batch completed.
type BatchResult struct {
	Batch       int              `json:"batch"`
	Evaluations int              `json:"evaluations"`
	NonTrivial  []uint64         `json:"nontrivial"`
	Counters    map[string]int64 `json:"counters"`
	Sets        map[string][]uint64 `json:"sets"`
	Samples     []interface{}    `json:"samples"`
	Violations  []ViolationRec   `json:"violations"`
	Notes       []string         `json:"notes,omitempty"`
}

// Ctx is handed to Prop.Run in the child.
type Ctx struct {
	Prop     *Prop
	Tier     string
	Seed     int64
	Batch    int
	NBatches int
	OnlyCase int // >=0: replay a single case
	OutDir   string

	mu       sync.Mutex
	journal  *os.File
	res      BatchResult
	nontriv  map[uint64]struct{}
	sets     map[string]map[uint64]struct{}
	curCase  int
	maxViol  int
	stopped  bool
}

// NewCtx creates the child context.
func NewCtx(p *Prop, tier string, seed int64, batch, nbatches, onlyCase int, outDir string) (*Ctx, error) {
	c := &Ctx{Prop: p, Tier: tier, Seed: seed, Batch: batch, NBatches: nbatches, OnlyCase: onlyCase, OutDir: outDir}
	c.nontriv = map[uint64]struct{}{}
	c.sets = map[string]map[uint64]struct{}{}
	c.res.Batch = batch
	c.res.Counters = map[string]int64{}
	c.maxViol = 5
	c.curCase = -1
	f, err := os.Create(filepath.Join(outDir, fmt.Sprintf("batch-%03d.journal", batch)))
	if err != nil {
		return nil, err
	}
	c.journal = f
	limit := p.MemLimitMB
	if limit == 0 {
		limit = 8192
	}
	debug.SetMemoryLimit(int64(limit) << 20)
	return c, nil
}

// IsQuick reports whether the tier is quick.
func (c *Ctx) IsQuick() bool { return c.Tier != Thorough }

// Pick returns q for the quick tier and t for thorough.
func (c *Ctx) Pick(q, t int) int {
	if c.IsQuick() {
		return q
	}
	return t
}

// Hash64 hashes a string (FNV-1a).
func Hash64(s string) uint64 {
	h := fnv.New64a()
	h.Write([]byte(s))
	return h.Sum64()
}

// CaseSeed is the PRNG seed of case i.
func (c *Ctx) CaseSeed(i int) int64 {
	return int64(Hash64(fmt.Sprintf("%s/%d/%d", c.Prop.ID, c.Seed, i)) & 0x7fffffffffffffff)
}

// Cases calls f for every case index of this batch with the case's PRNG.
// The journal records the case before f runs. It stops early once too many
// violations have been reported.
func (c *Ctx) Cases(f func(i int, r *rand.Rand)) {
	total := c.Prop.Cases(c.Tier)
	for i := 0; i < total; i++ {
		if c.OnlyCase >= 0 {
			if i != c.OnlyCase {
				continue
			}
		} else if i%c.NBatches != c.Batch {
			continue
		}
		if c.Stopped() {
			return
		}
		c.Begin(i, "")
		f(i, rand.New(rand.NewSource(c.CaseSeed(i))))
	}
}

// Begin journals the start of case i (desc is a compact description of the
// input, written before the case executes so that a process-fatal failure
// leaves a witness).
func (c *Ctx) Begin(i int, desc string) {
	c.mu.Lock()
	defer c.mu.Unlock()
	c.curCase = i
	c.res.Evaluations++
	fmt.Fprintf(c.journal, "case %d %s\n", i, desc)
}

// Note appends a line to the journal for the current case (input details).
func (c *Ctx) Note(format string, args ...interface{}) {
	c.mu.Lock()
	defer c.mu.Unlock()
	fmt.Fprintf(c.journal, "  note "+format+"\n", args...)
}

// Eval counts additional evaluations inside a case (sub-cases).
func (c *Ctx) Eval(n int) {
	c.mu.Lock()
	c.res.Evaluations += n
	c.mu.Unlock()
}

// NonTrivial records a distinct non-trivial case by its canonical encoding.
func (c *Ctx) NonTrivial(canonical string) {
	h := Hash64(canonical)
	c.mu.Lock()
	c.nontriv[h] = struct{}{}
	c.mu.Unlock()
}

// Count adds n to a named counter (what the monitor observed).
func (c *Ctx) Count(name string, n int) {
	c.mu.Lock()
	c.res.Counters[name] += int64(n)
	c.mu.Unlock()
}

// Distinct records a member of a named set; the merged evidence reports
// the set's cardinality as distinct_<name>.
func (c *Ctx) Distinct(name, member string) {
	h := Hash64(member)
	c.mu.Lock()
	s := c.sets[name]
	if s == nil {
		s = map[uint64]struct{}{}
		c.sets[name] = s
	}
	if len(s) < 2000000 {
		s[h] = struct{}{}
	}
	c.mu.Unlock()
}

// Sample keeps up to 3 samples per batch.
func (c *Ctx) Sample(v interface{}) {
	c.mu.Lock()
	if len(c.res.Samples) < 3 {
		c.res.Samples = append(c.res.Samples, v)
	}
	c.mu.Unlock()
}

// WantSample tells whether another sample would be kept (to avoid building
// expensive sample values).
func (c *Ctx) WantSample() bool {
	c.mu.Lock()
	defer c.mu.Unlock()
	return len(c.res.Samples) < 3
}

// Stopped is true once the batch should stop (too many violations).
func (c *Ctx) Stopped() bool {
	c.mu.Lock()
	defer c.mu.Unlock()
	return c.stopped
}

// Violation records a violation. key is a stable witness key (used for
// KNOWN_FINDINGS matching and deduplication); detail is the witness
// (input, history, expectation).
func (c *Ctx) Violation(key string, detail interface{}) {
	c.mu.Lock()
	defer c.mu.Unlock()
	for _, v := range c.res.Violations {
		if v.Key == key {
			c.res.Counters["violations_duplicate_key"]++
			return
		}
	}
	rec := ViolationRec{Key: key, Case: c.curCase, Detail: detail}
	c.res.Violations = append(c.res.Violations, rec)
	fmt.Fprintf(c.journal, "VIOLATION case=%d key=%s\n", c.curCase, key)
	c.journal.Sync()
	if len(c.res.Violations) >= c.maxViol {
		c.stopped = true
	}
}

// Notef adds a note to the batch result (shown in evidence).
func (c *Ctx) Notef(format string, args ...interface{}) {
	c.mu.Lock()
	if len(c.res.Notes) < 20 {
		c.res.Notes = append(c.res.Notes, fmt.Sprintf(format, args...))
	}
	c.mu.Unlock()
}

// Finish writes the batch result file.
func (c *Ctx) Finish() error {
	c.mu.Lock()
	defer c.mu.Unlock()
	for h := range c.nontriv {
		c.res.NonTrivial = append(c.res.NonTrivial, h)
	}
	c.res.Sets = map[string][]uint64{}
	for name, s := range c.sets {
		l := make([]uint64, 0, len(s))
		for h := range s {
			l = append(l, h)
		}
		c.res.Sets[name] = l
	}
	fmt.Fprintf(c.journal, "done\n")
	c.journal.Close()
	b, err := json.Marshal(&c.res)
	if err != nil {
		// a sample or detail that cannot be marshalled must not hide results
		c.res.Samples = nil
		for i := range c.res.Violations {
			c.res.Violations[i].Detail = fmt.Sprint(c.res.Violations[i].Detail)
		}
		b, err = json.Marshal(&c.res)
		if err != nil {
			return err
		}
	}
	tmp := filepath.Join(c.OutDir, fmt.Sprintf("batch-%03d.result.json.tmp", c.Batch))
	if err := os.WriteFile(tmp, b, 0644); err != nil {
		return err
	}
	return os.Rename(tmp, filepath.Join(c.OutDir, fmt.Sprintf("batch-%03d.result.json", c.Batch)))
}

// Watchdog runs f and reports false if it did not finish within d. It is a
// generous wall-clock guard; its firing is inconclusive, never a violation.
func Watchdog(d time.Duration, f func()) bool {
	done := make(chan struct{})
	go func() { defer close(done); f() }()
	select {
	case <-done:
		return true
	case <-time.After(d):
		return false
	}
}
