package icon

import (
	"fmt"
	"testing"

	"github.com/icon-project/goloop/icon/icmodule"
	"github.com/icon-project/goloop/icon/icsim"
	"github.com/icon-project/goloop/icon/iiss"
)

func TestProbeReward(t *testing.T) {
	Quiet()
	for _, rev := range []int{13, 28} {
		cfg := icsim.NewSimConfig()
		cfg.TermPeriod = 10
		cfg.MainPRepCount = 4
		cfg.SubPRepCount = 3
		cfg.Rrep = 1200
		env, err := icsim.NewEnv(cfg, icmodule.ValueToRevision(rev))
		if err != nil {
			t.Fatal(err)
		}
		_, users, bonders := icsim.VerifEnvActors(env)
		sim := env.Simulator()
		for k := 0; k < 3; k++ {
			wss := icsim.VerifWorldSnapshot(sim)
			es := wss.GetExtensionSnapshot().NewState(true).(*iiss.ExtensionStateImpl)
			d, _ := es.Reward.GetDelegating(users[9])
			b, _ := es.Reward.GetBonding(bonders[0])
			fmt.Printf("rev=%d h=%d iissver=%d D=%+v B=%+v\n", rev, sim.BlockHeight(), es.State.GetIISSVersion(), d, b)
			sim.GoToTermEnd(nil)
			sim.Go(nil, 1)
		}
	}
}
