// Package icon drives goloop's ICON staking simulator (icon/icsim) with random
// operation programs and takes full observations of the resulting state after
// every block. It is shared by the C34 (conservation) and C35 (reward budget)
// monitors. The simulator executes the real icon/iiss extension code.
package icon

import (
	"fmt"
	"math/big"
	"math/rand"
	"sort"

	"github.com/icon-project/goloop/common"
	"github.com/icon-project/goloop/common/intconv"
	"github.com/icon-project/goloop/common/log"
	"github.com/icon-project/goloop/common/trie/trie_manager"
	"github.com/icon-project/goloop/icon/icmodule"
	"github.com/icon-project/goloop/icon/icsim"
	"github.com/icon-project/goloop/icon/iiss"
	"github.com/icon-project/goloop/icon/iiss/icstate"
	"github.com/icon-project/goloop/module"
	"github.com/icon-project/goloop/service/state"
)

// ICX is 10^18 loop.
var ICX = new(big.Int).Exp(big.NewInt(10), big.NewInt(18), nil)

// Quiet silences goloop's global logger.
func Quiet() {
	log.GlobalLogger().SetLevel(log.FatalLevel)
	log.GlobalLogger().SetConsoleLevel(log.FatalLevel)
}

// Params are the PRNG-chosen configuration values of one history.
type Params struct {
	TermPeriod      int64 `json:"term_period"`
	MainPReps       int64 `json:"main_preps"`
	SubPReps        int64 `json:"sub_preps"`
	ExtraMainPReps  int64 `json:"extra_main_preps"`
	LockMinMult     int64 `json:"lock_min_mult"`
	LockMaxMult     int64 `json:"lock_max_mult"`
	UnbondMult      int64 `json:"unbond_mult"`
	UnstakeSlotMax  int64 `json:"unstake_slot_max"`
	UnbondingMax    int64 `json:"unbonding_max"`
	BondRequirement int64 `json:"bond_requirement_pct"`
	Iglobal         int64 `json:"iglobal"`
	PenaltyCond     int64 `json:"validation_penalty_condition"`
	Penalties       bool  `json:"penalties"`
	SlashPct        int64 `json:"slash_pct"`
}

// RandomParams draws a small configuration.
func RandomParams(r *rand.Rand) Params {
	p := Params{
		TermPeriod:      int64(8 + r.Intn(17)),
		MainPReps:       4,
		SubPReps:        3,
		ExtraMainPReps:  int64(r.Intn(2)),
		LockMinMult:     1,
		LockMaxMult:     int64(1 + r.Intn(3)),
		UnbondMult:      int64(1 + r.Intn(2)),
		UnstakeSlotMax:  int64(2 + r.Intn(3)),
		UnbondingMax:    int64(2 + r.Intn(4)),
		BondRequirement: []int64{0, 1, 5, 5, 10, 50, 100}[r.Intn(7)],
		PenaltyCond:     int64(2 + r.Intn(3)),
		Penalties:       r.Intn(2) == 0,
		SlashPct:        []int64{1, 5, 10, 33, 50}[r.Intn(5)],
	}
	switch r.Intn(4) {
	case 0:
		p.Iglobal = 1 + r.Int63n(1000000)
	case 1:
		p.Iglobal = icmodule.DefaultIglobal
	default:
		p.Iglobal = 1 + r.Int63n(9000000000000000000)
	}
	return p
}

// World is one simulator instance plus the addresses the harness drives.
type World struct {
	P        Params
	Env      *icsim.Env
	Sim      icsim.Simulator
	Preps    []module.Address // initial P-Reps of the environment
	Users    []module.Address // the users the harness drives
	Idle     []module.Address // users of the environment the harness never drives (they keep stake and delegation)
	Script   []module.Address // users reserved for scripted scenarios (never picked by the random generator)
	Bonders  []module.Address
	Fresh    []module.Address // addresses without any initial balance
	Treasury module.Address
	Gov      module.Address
	Actors   []module.Address // every address that sends transactions
	Known    []module.Address // every address the harness knows about (superset of Actors)
	names    map[string]string
}

// Name gives a short role name for an address (used in witnesses).
func (w *World) Name(a module.Address) string {
	if n, ok := w.names[string(a.Bytes())]; ok {
		return n
	}
	return a.String()
}

func freshAddress(i int) module.Address {
	bs := make([]byte, common.AddressBytes)
	bs[1] = 0xfe
	bs[common.AddressBytes-1] = byte(i)
	return common.MustNewAddress(bs)
}

// NewWorld builds a simulator at the latest revision.
func NewWorld(p Params) (*World, error) {
	cfg := icsim.NewSimConfig()
	cfg.TermPeriod = p.TermPeriod
	cfg.MainPRepCount = p.MainPReps
	cfg.SubPRepCount = p.SubPReps
	cfg.ExtraMainPRepCount = p.ExtraMainPReps
	cfg.LockMinMultiplier = p.LockMinMult
	cfg.LockMaxMultiplier = p.LockMaxMult
	cfg.UnbondingPeriodMultiplier = p.UnbondMult
	cfg.UnstakeSlotMax = p.UnstakeSlotMax
	cfg.UnbondingMax = p.UnbondingMax
	cfg.BondRequirement = icmodule.ToRate(p.BondRequirement)
	cfg.ValidationPenaltyCondition = p.PenaltyCond
	cfg.ConsistentValidationPenaltyCondition = 2
	cfg.ConsistentValidationPenaltySlashRate = icmodule.ToRate(p.SlashPct)
	cfg.RewardFund.Iglobal = p.Iglobal
	// the simulator's default Rrep of 0 makes the IISS2 calculator of the genesis term skip its vote
	// bookkeeping (reward multiplier 0), which a real network never had; use the network default.
	cfg.Rrep = icmodule.DefaultRRep
	env, err := icsim.NewEnv(cfg, icmodule.ValueToRevision(icmodule.MaxRevision))
	if err != nil {
		return nil, err
	}
	w := &World{P: p, Env: env, Sim: env.Simulator(), names: map[string]string{}}
	preps, users, bonders := icsim.VerifEnvActors(env)
	w.Preps = preps
	w.Users = users[:12]
	w.Script = users[12:16]
	w.Idle = users[16:]
	w.Bonders = bonders
	for i := 0; i < 4; i++ {
		w.Fresh = append(w.Fresh, freshAddress(i+1))
	}
	w.Treasury = icsim.VerifTreasury()
	w.Gov = env.Governance()
	add := func(l []module.Address, role string, actor bool) {
		for i, a := range l {
			w.names[string(a.Bytes())] = fmt.Sprintf("%s%d", role, i)
			w.Known = append(w.Known, a)
			if actor {
				w.Actors = append(w.Actors, a)
			}
		}
	}
	add(w.Preps, "prep", true)
	add(w.Users, "user", true)
	add(w.Bonders, "bonder", true)
	add(w.Fresh, "fresh", true)
	add(w.Script, "script", false)
	add(w.Idle, "idle", false)
	add([]module.Address{w.Treasury}, "treasury", false)
	add([]module.Address{state.SystemAddress}, "system", false)
	return w, nil
}

// ---------------------------------------------------------------------------
// Observation

// Slot is an unstake slot.
type Slot struct {
	Value  *big.Int
	Expire int64
}

// Vote is a delegation / bond / unbond entry.
type Vote struct {
	To     string // address key (21 bytes as string)
	Value  *big.Int
	Expire int64 // unbonds only
}

// Acct is the observed state of one account.
type Acct struct {
	Addr        module.Address
	Balance     *big.Int
	Stake       *big.Int
	Unstakes    []Slot
	Delegations []Vote
	Bonds       []Vote
	Unbonds     []Vote
	// cached totals kept by the account object itself
	CDelegating, CBond, CUnbond *big.Int
	IScore                      *big.Int
}

// Unstaking is the sum of the unstake slots.
func (a *Acct) Unstaking() *big.Int {
	s := new(big.Int)
	for _, u := range a.Unstakes {
		s.Add(s, u.Value)
	}
	return s
}

func sumVotes(l []Vote) *big.Int {
	s := new(big.Int)
	for _, v := range l {
		s.Add(s, v.Value)
	}
	return s
}

// Delegated is the sum of the delegation list.
func (a *Acct) Delegated() *big.Int { return sumVotes(a.Delegations) }

// Bonded is the sum of the bond list.
func (a *Acct) Bonded() *big.Int { return sumVotes(a.Bonds) }

// Unbonding is the sum of the unbond list.
func (a *Acct) Unbonding() *big.Int { return sumVotes(a.Unbonds) }

// Holdings is balance + stake + unstaking.
func (a *Acct) Holdings() *big.Int {
	s := new(big.Int).Add(a.Balance, a.Stake)
	return s.Add(s, a.Unstaking())
}

// PRepObs is the observed state of one registered P-Rep.
type PRepObs struct {
	Owner     module.Address
	Active    bool
	InJail    bool
	CanUnjail bool
	Delegated *big.Int
	Bonded    *big.Int
	Bonders   []string
}

// Obs is a full observation of the state after a block.
type Obs struct {
	Height          int64
	Supply          *big.Int
	TotalStake      *big.Int
	TotalDelegation *big.Int
	TotalBond       *big.Int
	SumBalancesAll  *big.Int // over the whole account trie
	NTrieAccounts   int
	SumBalancesKnow *big.Int // over the addresses the harness knows
	Accts           map[string]*Acct
	PReps           map[string]*PRepObs
	TermStart       int64
	TermEnd         int64
	TermSeq         int
}

// Observe reads the complete state of the simulator's last finalized block.
func (w *World) Observe(withIScore bool) (*Obs, error) {
	sim := w.Sim
	wss := icsim.VerifWorldSnapshot(sim)
	if wss == nil {
		return nil, fmt.Errorf("no world snapshot")
	}
	o := &Obs{Height: sim.BlockHeight(), Accts: map[string]*Acct{}, PReps: map[string]*PRepObs{}}
	o.Supply = new(big.Int).Set(sim.TotalSupply())

	// all balances: iterate the world's account trie of the snapshot
	tr := trie_manager.NewImmutableForObject(wss.Database(), wss.StateHash(), state.AccountType)
	o.SumBalancesAll = new(big.Int)
	for it := tr.Iterator(); it.Has(); {
		obj, _, err := it.Get()
		if err != nil {
			return nil, err
		}
		as, ok := obj.(state.AccountSnapshot)
		if !ok {
			return nil, fmt.Errorf("unexpected object %T in account trie", obj)
		}
		o.SumBalancesAll.Add(o.SumBalancesAll, as.GetBalance())
		o.NTrieAccounts++
		if err := it.Next(); err != nil {
			return nil, err
		}
	}

	ess := wss.GetExtensionSnapshot()
	es, ok := ess.NewState(true).(*iiss.ExtensionStateImpl)
	if !ok {
		return nil, fmt.Errorf("unexpected extension state")
	}
	st := es.State
	o.TotalStake = new(big.Int).Set(st.GetTotalStake())
	o.TotalDelegation = new(big.Int).Set(st.GetTotalDelegation())
	o.TotalBond = new(big.Int).Set(st.GetTotalBond())
	if t := st.GetTermSnapshot(); t != nil {
		o.TermStart, o.TermEnd, o.TermSeq = t.StartHeight(), t.GetEndHeight(), t.Sequence()
	}

	o.SumBalancesKnow = new(big.Int)
	for _, a := range w.Known {
		ac := &Acct{Addr: a, Balance: new(big.Int).Set(sim.GetBalance(a)), Stake: new(big.Int),
			CDelegating: new(big.Int), CBond: new(big.Int), CUnbond: new(big.Int)}
		o.SumBalancesKnow.Add(o.SumBalancesKnow, ac.Balance)
		if ia := st.GetAccountSnapshot(a); ia != nil {
			ac.Stake = new(big.Int).Set(ia.Stake())
			for _, u := range ia.UnStakes() {
				ac.Unstakes = append(ac.Unstakes, Slot{new(big.Int).Set(u.GetValue()), u.GetExpire()})
			}
			for _, d := range ia.Delegations() {
				ac.Delegations = append(ac.Delegations, Vote{To: string(d.To().Bytes()), Value: new(big.Int).Set(d.Amount())})
			}
			for _, b := range ia.Bonds() {
				ac.Bonds = append(ac.Bonds, Vote{To: string(b.To().Bytes()), Value: new(big.Int).Set(b.Amount())})
			}
			for _, u := range ia.Unbonds() {
				ac.Unbonds = append(ac.Unbonds, Vote{To: string(u.Address().Bytes()), Value: new(big.Int).Set(u.Value()), Expire: u.Expire()})
			}
			ac.CDelegating = new(big.Int).Set(ia.Delegating())
			ac.CBond = new(big.Int).Set(ia.Bond())
			ac.CUnbond = new(big.Int).Set(ia.Unbond())
		}
		if withIScore {
			if is := sim.QueryIScore(a); is != nil {
				ac.IScore = new(big.Int).Set(is)
			} else {
				ac.IScore = new(big.Int)
			}
		}
		o.Accts[string(a.Bytes())] = ac
	}
	for _, p := range st.GetPReps(false) {
		po := &PRepObs{Owner: p.Owner(), Active: p.IsActive(), InJail: p.IsInJail(), CanUnjail: p.IsUnjailable(),
			Delegated: new(big.Int).Set(p.Delegated()), Bonded: new(big.Int).Set(p.Bonded())}
		if pb := st.GetPRepBaseByOwner(p.Owner(), false); pb != nil {
			for _, b := range pb.BonderList() {
				po.Bonders = append(po.Bonders, string(b.Bytes()))
			}
		}
		o.PReps[string(p.Owner().Bytes())] = po
	}
	return o, nil
}

// ---------------------------------------------------------------------------
// Operations

// Op is one generated transaction.
type Op struct {
	Kind   string `json:"kind"`
	From   string `json:"from"`
	Arg    string `json:"arg,omitempty"`
	Intent string `json:"intent,omitempty"`
	OK     bool   `json:"ok"`
	Err    string `json:"err,omitempty"`
	from   module.Address
	to     module.Address
	amount *big.Int
	tx     icsim.Transaction
}

// FromAddr returns the sender.
func (o *Op) FromAddr() module.Address { return o.from }

// ToAddr returns the transfer recipient (transfers only).
func (o *Op) ToAddr() module.Address { return o.to }

// Amount returns the amount of a transfer / setStake.
func (o *Op) Amount() *big.Int { return o.amount }

func (w *World) pick(r *rand.Rand, l []module.Address) module.Address { return l[r.Intn(len(l))] }

func randBelow(r *rand.Rand, n *big.Int) *big.Int {
	if n.Sign() <= 0 {
		return new(big.Int)
	}
	return new(big.Int).Rand(r, n)
}

// fraction returns about v*k/8 for random k, sometimes rounded to whole ICX.
func fraction(r *rand.Rand, v *big.Int) *big.Int {
	if v.Sign() <= 0 {
		return new(big.Int)
	}
	x := new(big.Int).Mul(v, big.NewInt(int64(1+r.Intn(8))))
	x.Div(x, big.NewInt(8))
	switch r.Intn(3) {
	case 0:
		x.Div(x, ICX).Mul(x, ICX)
	case 1:
		x = randBelow(r, new(big.Int).Add(v, big.NewInt(1)))
	}
	return x
}

func votingTargets(w *World, o *Obs, r *rand.Rand) []module.Address {
	// registered P-Reps first, sometimes a plain address
	var l []module.Address
	keys := make([]string, 0, len(o.PReps))
	for k := range o.PReps {
		keys = append(keys, k)
	}
	sort.Strings(keys)
	for _, k := range keys {
		l = append(l, o.PReps[k].Owner)
	}
	l = append(l, w.Users[len(w.Users)-1], w.Fresh[0])
	return l
}

func splitAmount(r *rand.Rand, total *big.Int, n int) []*big.Int {
	out := make([]*big.Int, n)
	rest := new(big.Int).Set(total)
	for i := 0; i < n-1; i++ {
		x := randBelow(r, new(big.Int).Add(rest, big.NewInt(1)))
		if r.Intn(2) == 0 {
			x.Div(x, ICX).Mul(x, ICX)
		}
		out[i] = x
		rest = new(big.Int).Sub(rest, x)
	}
	out[n-1] = rest
	return out
}

func votesParam(targets []module.Address, amounts []*big.Int) []interface{} {
	var p []interface{}
	for i, t := range targets {
		p = append(p, map[string]interface{}{
			"address": t.String(),
			"value":   "0x" + amounts[i].Text(16),
		})
	}
	return p
}

func describeVotes(w *World, targets []module.Address, amounts []*big.Int) string {
	s := ""
	for i, t := range targets {
		if i > 0 {
			s += ","
		}
		s += w.Name(t) + ":" + amounts[i].String()
	}
	return s
}

// GenOp generates one operation against the state observed in o (the state
// before the block; earlier operations of the same block are not reflected,
// which makes some operations fail — failures must leave everything intact).
func (w *World) GenOp(r *rand.Rand, o *Obs) *Op {
	sim := w.Sim
	from := w.pick(r, w.Actors)
	// bias towards accounts with stake or balance
	if r.Intn(3) > 0 {
		from = w.pick(r, append(append([]module.Address{}, w.Users...), w.Bonders...))
	}
	ac := o.Accts[string(from.Bytes())]
	op := &Op{From: w.Name(from), from: from}
	using := new(big.Int).Add(ac.Delegated(), ac.Bonded())
	using.Add(using, ac.Unbonding())
	total := ac.Holdings() // the most that can be staked
	one := big.NewInt(1)

	switch k := r.Intn(100); {
	case k < 30: // setStake
		var v *big.Int
		sel := r.Intn(12)
		if r.Intn(2) == 0 {
			// a few hot accounts unstake in small steps again and again (fills the unstake slots up to the slot max)
			from = w.Users[r.Intn(3)]
			ac = o.Accts[string(from.Bytes())]
			op.From, op.from = w.Name(from), from
			using = new(big.Int).Add(ac.Delegated(), ac.Bonded())
			using.Add(using, ac.Unbonding())
			total = ac.Holdings()
			if ac.Stake.Cmp(using) > 0 && r.Intn(3) > 0 {
				sel = 6
			} else if ac.Stake.Cmp(using) == 0 && r.Intn(2) == 0 {
				sel = 11
			}
		}
		switch sel {
		case 0:
			v, op.Intent = new(big.Int).Set(total), "stake-max"
		case 1:
			v, op.Intent = new(big.Int).Add(total, one), "stake-max+1"
		case 2:
			v, op.Intent = new(big.Int).Set(using), "stake-min(using)"
		case 3:
			v, op.Intent = new(big.Int).Sub(using, one), "stake-using-1"
		case 4:
			v, op.Intent = new(big.Int), "stake-zero"
		case 5:
			// cancel (part of) the last unstake slot exactly
			v = new(big.Int).Set(ac.Stake)
			if n := len(ac.Unstakes); n > 0 {
				d := ac.Unstakes[n-1].Value
				switch r.Intn(3) {
				case 0:
					v.Add(v, d)
				case 1:
					v.Add(v, d).Add(v, one)
				default:
					v.Add(v, randBelow(r, d))
				}
			}
			op.Intent = "stake-cancel-unstake"
		case 6, 7, 8:
			// small decrease: creates another unstake slot
			d := fraction(r, new(big.Int).Sub(ac.Stake, using))
			d.Div(d, big.NewInt(int64(2+r.Intn(6))))
			v, op.Intent = new(big.Int).Sub(ac.Stake, d), "stake-down"
		case 9:
			if r.Intn(2) == 0 {
				v, op.Intent = big.NewInt(-1), "stake-negative"
			} else {
				v, op.Intent = new(big.Int).Add(ac.Delegated(), ac.Bonded()), "stake-ignoring-unbond"
			}
		default:
			v, op.Intent = new(big.Int).Add(ac.Stake, fraction(r, ac.Balance)), "stake-up"
		}
		op.Kind, op.Arg, op.amount = "setStake", v.String(), v
		op.tx = sim.SetStake(from, v)

	case k < 50: // setDelegation
		power := new(big.Int).Sub(ac.Stake, new(big.Int).Add(ac.Bonded(), ac.Unbonding()))
		var tot *big.Int
		switch r.Intn(8) {
		case 0:
			tot, op.Intent = new(big.Int).Set(power), "delegate-all"
		case 1:
			tot, op.Intent = new(big.Int).Add(power, one), "delegate-all+1"
		case 2:
			tot, op.Intent = new(big.Int), "delegate-none"
		case 3:
			tot, op.Intent = new(big.Int).Sub(ac.Stake, ac.Bonded()), "delegate-ignoring-unbond"
		default:
			tot, op.Intent = fraction(r, power), "delegate-part"
		}
		if tot.Sign() < 0 {
			tot = new(big.Int)
		}
		tl := votingTargets(w, o, r)
		r.Shuffle(len(tl), func(i, j int) { tl[i], tl[j] = tl[j], tl[i] })
		n := 1 + r.Intn(4)
		if n > len(tl) {
			n = len(tl)
		}
		tl = tl[:n]
		am := splitAmount(r, tot, n)
		es := w.extState()
		ds, err := icstate.NewDelegations(votesParam(tl, am), int(es.GetDelegationSlotMax()))
		op.Kind, op.Arg = "setDelegation", describeVotes(w, tl, am)
		if err != nil {
			op.Err = "rejected-by-validator: " + err.Error()
			return op
		}
		op.tx = sim.SetDelegation(from, ds)

	case k < 66: // setBond
		// targets: P-Reps that list the sender as bonder (mostly), sometimes others
		var can, other []module.Address
		for _, k := range sortedKeys(o.PReps) {
			p := o.PReps[k]
			listed := false
			for _, b := range p.Bonders {
				if b == string(from.Bytes()) {
					listed = true
				}
			}
			if listed {
				can = append(can, p.Owner)
			} else {
				other = append(other, p.Owner)
			}
		}
		tl := can
		if (len(tl) == 0 || r.Intn(10) == 0) && len(other) > 0 {
			tl = append(append([]module.Address{}, can...), other[r.Intn(len(other))])
		}
		if len(tl) == 0 {
			tl = []module.Address{w.Preps[0]}
		}
		r.Shuffle(len(tl), func(i, j int) { tl[i], tl[j] = tl[j], tl[i] })
		n := 1 + r.Intn(3)
		if n > len(tl) {
			n = len(tl)
		}
		tl = tl[:n]
		power := new(big.Int).Sub(ac.Stake, new(big.Int).Add(ac.Delegated(), ac.Unbonding()))
		var tot *big.Int
		switch r.Intn(8) {
		case 0:
			tot, op.Intent = new(big.Int).Set(power), "bond-all"
		case 1:
			tot, op.Intent = new(big.Int).Add(power, one), "bond-all+1"
		case 2:
			tot, op.Intent = new(big.Int), "bond-none"
		case 3:
			// keep the current total: moves bond between P-Reps (unbond + bond)
			tot, op.Intent = ac.Bonded(), "bond-move"
		case 4:
			tot, op.Intent = new(big.Int).Sub(ac.Stake, ac.Delegated()), "bond-ignoring-unbond"
		default:
			tot, op.Intent = fraction(r, power), "bond-part"
		}
		if tot.Sign() < 0 {
			tot = new(big.Int)
		}
		am := splitAmount(r, tot, n)
		bonds, err := icstate.NewBonds(votesParam(tl, am), sim.Revision().Value())
		op.Kind, op.Arg = "setBond", describeVotes(w, tl, am)
		if err != nil {
			op.Err = "rejected-by-validator: " + err.Error()
			return op
		}
		op.tx = sim.SetBond(from, bonds)

	case k < 72: // setBonderList (by a P-Rep)
		var owners []module.Address
		for _, k := range sortedKeys(o.PReps) {
			owners = append(owners, o.PReps[k].Owner)
		}
		from = w.pick(r, owners)
		op.From, op.from = w.Name(from), from
		cand := append(append(append([]module.Address{}, w.Bonders...), w.Users[:6]...), from)
		r.Shuffle(len(cand), func(i, j int) { cand[i], cand[j] = cand[j], cand[i] })
		n := r.Intn(7)
		var param []interface{}
		s := ""
		// mostly keep the current bonders
		if r.Intn(4) > 0 {
			for _, b := range o.PReps[string(from.Bytes())].Bonders {
				a := common.MustNewAddress([]byte(b))
				param = append(param, a.String())
				s += w.Name(a) + ","
			}
		}
		for _, a := range cand[:n] {
			dup := false
			for _, q := range param {
				if q.(string) == a.String() {
					dup = true
				}
			}
			if !dup && len(param) < 10 {
				param = append(param, a.String())
				s += w.Name(a) + ","
			}
		}
		bl, err := icstate.NewBonderList(param)
		op.Kind, op.Arg = "setBonderList", s
		if err != nil {
			op.Err = "rejected-by-validator: " + err.Error()
			return op
		}
		op.tx = sim.SetBonderList(from, bl)

	case k < 86: // transfer
		to := w.pick(r, w.Actors)
		if r.Intn(12) == 0 {
			to = w.Treasury
		}
		var v *big.Int
		switch r.Intn(8) {
		case 0:
			v, op.Intent = new(big.Int).Set(ac.Balance), "transfer-all"
		case 1:
			v, op.Intent = new(big.Int).Add(ac.Balance, one), "transfer-all+1"
		case 2:
			v, op.Intent = new(big.Int), "transfer-zero"
		default:
			v, op.Intent = fraction(r, ac.Balance), "transfer-part"
			if r.Intn(2) == 0 {
				v.Div(v, big.NewInt(int64(1+r.Intn(20))))
			}
		}
		op.Kind, op.Arg, op.to, op.amount = "transfer", w.Name(to)+":"+v.String(), to, v
		op.tx = sim.Transfer(from, to, v)

	case k < 90: // claimIScore
		op.Kind = "claimIScore"
		op.tx = sim.ClaimIScore(from)

	case k < 94: // registerPRep / unregisterPRep
		key := string(from.Bytes())
		if p, ok := o.PReps[key]; ok && p.Active && r.Intn(3) > 0 {
			op.Kind = "unregisterPRep"
			op.tx = sim.UnregisterPRep(from)
		} else {
			if r.Intn(4) > 0 {
				// mostly addresses that may already have received delegations as plain accounts
				cand := []module.Address{w.Users[len(w.Users)-1], w.Users[len(w.Users)-2], w.Fresh[0], w.Bonders[len(w.Bonders)-1]}
				from = w.pick(r, cand)
				op.From, op.from = w.Name(from), from
			}
			op.Kind = "registerPRep"
			op.tx = sim.RegisterPRep(from, prepInfo(from))
		}

	default: // commission rate
		var owners []module.Address
		for _, k := range sortedKeys(o.PReps) {
			owners = append(owners, o.PReps[k].Owner)
		}
		from = w.pick(r, owners)
		var jailed []module.Address
		for _, k := range sortedKeys(o.PReps) {
			if o.PReps[k].CanUnjail {
				jailed = append(jailed, o.PReps[k].Owner)
			}
		}
		if len(jailed) > 0 && r.Intn(3) > 0 {
			from = w.pick(r, jailed)
			op.From, op.from = w.Name(from), from
			op.Kind = "requestUnjail"
			op.tx = icsim.NewTransaction(icsim.TypeRequestUnjail, from)
			return op
		}
		op.From, op.from = w.Name(from), from
		if r.Intn(2) == 0 {
			rate := icmodule.Rate(r.Intn(10001))
			maxRate := icmodule.Rate(r.Intn(10001))
			chg := icmodule.Rate(1 + r.Intn(10000))
			op.Kind, op.Arg = "initCommissionRate", fmt.Sprintf("%d/%d/%d", rate, maxRate, chg)
			op.tx = sim.InitCommissionRate(from, rate, maxRate, chg)
		} else {
			rate := icmodule.Rate(r.Intn(10001))
			op.Kind, op.Arg = "setCommissionRate", fmt.Sprint(rate)
			op.tx = sim.SetCommissionRate(from, rate)
		}
	}
	return op
}

// OpSetStake builds a setStake operation outside the random generator (scripted scenarios).
func (w *World) OpSetStake(from module.Address, v *big.Int, intent string) *Op {
	return &Op{Kind: "setStake", From: w.Name(from), from: from, Arg: v.String(), Intent: intent, amount: v,
		tx: w.Sim.SetStake(from, v)}
}

// OpSetDelegation builds a setDelegation operation outside the random generator; the arguments go
// through goloop's own validator like the generated ones.
func (w *World) OpSetDelegation(from module.Address, targets []module.Address, amounts []*big.Int, intent string) *Op {
	op := &Op{Kind: "setDelegation", From: w.Name(from), from: from, Arg: describeVotes(w, targets, amounts), Intent: intent}
	ds, err := icstate.NewDelegations(votesParam(targets, amounts), int(w.extState().GetDelegationSlotMax()))
	if err != nil {
		op.Err = "rejected-by-validator: " + err.Error()
		return op
	}
	op.tx = w.Sim.SetDelegation(from, ds)
	return op
}

func sortedKeys(m map[string]*PRepObs) []string {
	keys := make([]string, 0, len(m))
	for k := range m {
		keys = append(keys, k)
	}
	sort.Strings(keys)
	return keys
}

func prepInfo(a module.Address) *icstate.PRepInfo {
	id := fmt.Sprintf("%x", a.ID()[16:])
	city, country, name := "Seoul", "KOR", "n"+id
	email := name + "@email.com"
	website := "https://" + name + ".example.com/"
	details := website + "details/"
	endpoint := name + ".example.com:9080"
	return &icstate.PRepInfo{City: &city, Country: &country, Name: &name, Email: &email,
		WebSite: &website, Details: &details, P2PEndpoint: &endpoint}
}

func (w *World) extState() *icstate.State {
	wss := icsim.VerifWorldSnapshot(w.Sim)
	return wss.GetExtensionSnapshot().NewState(true).(*iiss.ExtensionStateImpl).State
}

// ---------------------------------------------------------------------------
// Block execution

// Flow is what the receipts of a block say about value moved by operations:
// net ICX received by each account from transfers and claims, registration
// fees paid (burned), stake slashed (burned).
type Flow struct {
	Net       map[string]*big.Int // transfers in - out + claimed - fees, per account key
	Slashed   map[string]*big.Int // stake burned by slashing, per bonder key
	Burned    *big.Int            // total ICX burned (ICXBurnedV2 events)
	Touched   map[string]bool     // accounts whose state a successful operation may have changed
	SetStake  map[string]bool     // accounts with a successful setStake
	Claimed   map[string]*big.Int // ICX paid out by claims
	NSuccess  int
	NFail     int
	Penalties int
}

func newFlow() *Flow {
	return &Flow{Net: map[string]*big.Int{}, Slashed: map[string]*big.Int{}, Burned: new(big.Int),
		Touched: map[string]bool{}, SetStake: map[string]bool{}, Claimed: map[string]*big.Int{}}
}

func (f *Flow) add(m map[string]*big.Int, a module.Address, v *big.Int) {
	k := string(a.Bytes())
	if m[k] == nil {
		m[k] = new(big.Int)
	}
	m[k].Add(m[k], v)
}

// Block is one executed block.
type Block struct {
	Height int64
	Ops    []*Op
	Voted  []bool
	Flow   *Flow
}

// RunBlock executes the operations as one block and derives the value flow
// from the receipts.
func (w *World) RunBlock(ops []*Op, voted []bool) (*Block, error) {
	sim := w.Sim
	blk := icsim.NewBlock()
	var sent []*Op
	for _, op := range ops {
		if op.tx != nil {
			blk.AddTransaction(op.tx)
			sent = append(sent, op)
		}
	}
	var csi module.ConsensusInfo
	if voted != nil {
		vl := sim.ValidatorList()
		if len(vl) == len(voted) {
			csi = icsim.NewConsensusInfo(sim.Database(), vl, voted)
		}
	}
	rcpts, err := sim.GoByBlock(csi, blk)
	b := &Block{Height: sim.BlockHeight(), Ops: ops, Voted: voted, Flow: newFlow()}
	if err != nil {
		return b, err
	}
	f := b.Flow
	scan := func(rc icsim.Receipt, claimer module.Address) {
		for _, e := range rc.Events() {
			if len(e.Indexed) == 0 {
				continue
			}
			switch string(e.Indexed[0]) {
			case iiss.EventSlashed:
				if len(e.Data) == 2 {
					if bonder, err := common.NewAddress(e.Data[0]); err == nil {
						f.add(f.Slashed, bonder, intconv.BigIntSetBytes(new(big.Int), e.Data[1]))
						f.Touched[string(bonder.Bytes())] = true
					}
				}
			case iiss.EventICXBurnedV2:
				if len(e.Data) == 2 {
					f.Burned.Add(f.Burned, intconv.BigIntSetBytes(new(big.Int), e.Data[0]))
				}
			case iiss.EventPenaltyImposed:
				f.Penalties++
			case iiss.EventIScoreClaimedV2:
				if claimer != nil && len(e.Data) == 2 {
					v := intconv.BigIntSetBytes(new(big.Int), e.Data[1])
					f.add(f.Net, claimer, v)
					f.add(f.Net, w.Treasury, new(big.Int).Neg(v))
					f.add(f.Claimed, claimer, v)
				}
			}
		}
	}
	if len(rcpts) > 0 {
		scan(rcpts[0], nil)
	}
	for i, op := range sent {
		rc := rcpts[i+1]
		op.OK = rc.Status() == icsim.Success
		if !op.OK {
			f.NFail++
			if rc.Error() != nil {
				op.Err = rc.Error().Error()
				if len(op.Err) > 160 {
					op.Err = op.Err[:160]
				}
			}
			continue
		}
		f.NSuccess++
		f.Touched[string(op.from.Bytes())] = true
		switch op.Kind {
		case "transfer":
			if op.amount.Sign() > 0 && !op.from.Equal(op.to) {
				f.add(f.Net, op.from, new(big.Int).Neg(op.amount))
				f.add(f.Net, op.to, op.amount)
				f.Touched[string(op.to.Bytes())] = true
			}
		case "registerPRep":
			f.add(f.Net, op.from, new(big.Int).Neg(icmodule.BigIntRegPRepFee))
		case "setStake":
			f.SetStake[string(op.from.Bytes())] = true
		case "claimIScore":
			scan(rc, op.from)
			continue
		}
		scan(rc, nil)
	}
	return b, nil
}

// FundTreasury moves ICX from idle users to the treasury so that claims can be paid.
func (w *World) FundTreasury(amount *big.Int) error {
	rc, err := w.Sim.GoByTransfer(nil, w.Idle[0], w.Treasury, amount)
	if err != nil {
		return err
	}
	if !icsim.CheckReceiptSuccess(rc[1]) {
		return fmt.Errorf("funding the treasury failed: %v", rc[1].Error())
	}
	return nil
}

// Governance runs one governance transaction built by f in its own block.
func (w *World) Governance(tx icsim.Transaction) error {
	rc, err := w.Sim.GoByTransaction(nil, tx)
	if err != nil {
		return err
	}
	if !icsim.CheckReceiptSuccess(rc[1]) {
		return fmt.Errorf("governance transaction failed: %v", rc[1].Error())
	}
	return nil
}
