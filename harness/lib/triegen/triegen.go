// Package triegen holds the key/value generators and the thin adapters over
// goloop's trie API that the trie-group properties (C17, C18) share.
package triegen

import (
	"bytes"
	"math/rand"
	"reflect"
	"sort"

	"github.com/icon-project/goloop/common/db"
	"github.com/icon-project/goloop/common/merkle"
	"github.com/icon-project/goloop/common/trie"
	"github.com/icon-project/goloop/common/trie/trie_manager"
)

// byte alphabet: few distinct nibbles so that shared prefixes, keys that are
// prefixes of other keys and branch/extension splits and merges are constant.
var alphabet = []byte{0x00, 0x01, 0x10, 0x11, 0x1f, 0xf1, 0xff, 0x80}

func alpha(r *rand.Rand, n int) []byte {
	b := make([]byte, n)
	for i := range b {
		b[i] = alphabet[r.Intn(len(alphabet))]
	}
	return b
}

// KeyGen produces related keys.
type KeyGen struct {
	r    *rand.Rand
	long []byte // shared long prefix of the long keys
	keys [][]byte
	seen map[string]bool
}

func NewKeyGen(r *rand.Rand) *KeyGen {
	g := &KeyGen{r: r, seen: map[string]bool{}}
	g.long = alpha(r, 29+r.Intn(4))
	return g
}

// Candidate returns a key related to the keys produced so far (it may repeat one).
func (g *KeyGen) Candidate() []byte {
	r := g.r
	pick := func() []byte {
		if len(g.keys) == 0 {
			return alpha(r, r.Intn(3))
		}
		return g.keys[r.Intn(len(g.keys))]
	}
	var k []byte
	switch x := r.Intn(100); {
	case x < 25:
		k = alpha(r, r.Intn(5))
	case x < 50: // extension of an existing key
		k = append(append([]byte{}, pick()...), alpha(r, 1+r.Intn(3))...)
	case x < 63: // strict prefix of an existing key
		p := pick()
		if len(p) > 0 {
			k = append([]byte{}, p[:r.Intn(len(p))]...)
		} else {
			k = alpha(r, 1)
		}
	case x < 80: // sibling: one nibble of the last byte differs
		p := append([]byte{}, pick()...)
		if len(p) == 0 {
			p = []byte{0}
		}
		if r.Intn(2) == 0 {
			p[len(p)-1] ^= byte(1 + r.Intn(15))
		} else {
			p[len(p)-1] ^= byte(1+r.Intn(15)) << 4
		}
		k = p
	case x < 92: // long keys sharing a long prefix (up to 40 bytes)
		n := 40 - len(g.long)
		k = append(append([]byte{}, g.long...), alpha(r, r.Intn(n+1))...)
	case x < 96: // hash-like 32-byte key
		k = make([]byte, 32)
		r.Read(k)
	default:
		k = make([]byte, 1+r.Intn(40))
		r.Read(k)
	}
	if len(k) > 40 {
		k = k[:40]
	}
	return k
}

// New returns a key not produced by New before.
func (g *KeyGen) New() []byte {
	for {
		k := g.Candidate()
		if !g.seen[string(k)] {
			g.seen[string(k)] = true
			g.keys = append(g.keys, k)
			return k
		}
	}
}

// Known returns a key produced before (nil if none).
func (g *KeyGen) Known() []byte {
	if len(g.keys) == 0 {
		return nil
	}
	return g.keys[g.r.Intn(len(g.keys))]
}

// Value returns a value of 1..100 bytes, biased around the 32-byte node
// embedding boundary and to bytes with special RLP forms.
func Value(r *rand.Rand) []byte {
	var n int
	switch x := r.Intn(10); {
	case x < 4:
		n = 1 + r.Intn(8)
	case x < 7:
		n = 20 + r.Intn(21)
	default:
		n = 1 + r.Intn(100)
	}
	v := make([]byte, n)
	switch r.Intn(6) {
	case 0:
		for i := range v {
			v[i] = byte(r.Intn(0x80))
		}
	case 1:
		for i := range v {
			v[i] = 0x80
		}
	case 2: // zeros
	default:
		r.Read(v)
	}
	return v
}

// AbsentKeys returns keys not in the model that are close to stored keys:
// strict prefixes, extensions, sibling nibbles, plus random ones.
func AbsentKeys(r *rand.Rand, model map[string][]byte, n int) [][]byte {
	keys := SortedKeys(model)
	var out [][]byte
	add := func(k []byte) {
		if _, ok := model[string(k)]; !ok && len(k) <= 48 {
			out = append(out, k)
		}
	}
	for tries := 0; len(out) < n && tries < 8*n+8; tries++ {
		if len(keys) == 0 {
			add(alpha(r, r.Intn(4)))
			continue
		}
		p := []byte(keys[r.Intn(len(keys))])
		switch r.Intn(5) {
		case 0:
			if len(p) > 0 {
				add(append([]byte{}, p[:r.Intn(len(p))]...))
			}
		case 1:
			add(append(append([]byte{}, p...), alpha(r, 1+r.Intn(2))...))
		case 2:
			q := append([]byte{}, p...)
			if len(q) > 0 {
				q[len(q)-1] ^= byte(1 + r.Intn(15))
				add(q)
			}
		case 3:
			q := append([]byte{}, p...)
			if len(q) > 0 {
				q[r.Intn(len(q))] ^= byte(1+r.Intn(15)) << 4
				add(q)
			}
		default:
			add(alpha(r, r.Intn(5)))
		}
	}
	return out
}

func SortedKeys(model map[string][]byte) []string {
	keys := make([]string, 0, len(model))
	for k := range model {
		keys = append(keys, k)
	}
	sort.Strings(keys) // byte-lexicographic
	return keys
}

func CopyModel(m map[string][]byte) map[string][]byte {
	o := make(map[string][]byte, len(m))
	for k, v := range m {
		o[k] = v
	}
	return o
}

// ---- adapters: the bytes API and the object API behind one interface -------

type KV struct{ K, V []byte }

// Snap is an immutable snapshot.
type Snap interface {
	Get(k []byte) ([]byte, error)
	Hash() []byte
	Empty() bool
	Iterate(prefix []byte, filter bool) ([]KV, error)
	GetProof(k []byte) [][]byte
	// Prove returns (value, value!=nil, error)
	Prove(k []byte, p [][]byte) ([]byte, error)
	Flush() error
	ClearCache()
	Raw() interface{}
}

// Mut is a mutable trie.
type Mut interface {
	Get(k []byte) ([]byte, error)
	Set(k, v []byte) ([]byte, error)
	Delete(k []byte) ([]byte, error)
	Snapshot() Snap
	Reset(s Snap)
	ClearCache()
}

// Factory creates tries of one API kind over a database.
type Factory interface {
	Kind() string
	NewMutable(d db.Database, h []byte) Mut
	NewImmutable(d db.Database, h []byte) Snap
	MutableFrom(s Snap) Mut
}

// ---------------- bytes API

type BytesFactory struct{}

func (BytesFactory) Kind() string { return "bytes" }
func (BytesFactory) NewMutable(d db.Database, h []byte) Mut {
	return bytesMut{trie_manager.NewMutable(d, h)}
}
func (BytesFactory) NewImmutable(d db.Database, h []byte) Snap {
	return bytesSnap{trie_manager.NewImmutable(d, h), nil}
}
func (BytesFactory) MutableFrom(s Snap) Mut {
	return bytesMut{trie_manager.NewMutableFromImmutable(s.(bytesSnap).Immutable)}
}

type bytesMut struct{ trie.Mutable }

func (m bytesMut) Snapshot() Snap {
	s := m.Mutable.GetSnapshot()
	return bytesSnap{s, s}
}
func (m bytesMut) Reset(s Snap) { m.Mutable.Reset(s.(bytesSnap).Immutable) }

type bytesSnap struct {
	trie.Immutable
	s trie.Snapshot
}

func (s bytesSnap) Raw() interface{} { return s.Immutable }
func (s bytesSnap) Flush() error {
	if s.s == nil {
		return nil
	}
	return s.s.Flush()
}
func (s bytesSnap) Iterate(prefix []byte, filter bool) ([]KV, error) {
	var it trie.Iterator
	if filter {
		it = s.Immutable.Filter(prefix)
	} else {
		it = s.Immutable.Iterator()
	}
	var out []KV
	for ; it.Has(); it.Next() {
		v, k, err := it.Get()
		if err != nil {
			return out, err
		}
		out = append(out, KV{append([]byte{}, k...), append([]byte{}, v...)})
		if len(out) > 100000 {
			break
		}
	}
	return out, nil
}

// ---------------- object API

// Obj is the harness object type stored in object tries.
type Obj struct {
	data []byte
}

func NewObj(b []byte) *Obj   { return &Obj{data: append([]byte{}, b...)} }
func (o *Obj) Bytes() []byte { return o.data }
func (o *Obj) Reset(s db.Database, k []byte) error {
	o.data = append([]byte{}, k...)
	return nil
}
func (o *Obj) Flush() error { return nil }
func (o *Obj) Equal(x trie.Object) bool {
	if x == nil {
		return false
	}
	if o2, ok := x.(*Obj); ok {
		if o2 == nil {
			return false
		}
		return bytes.Equal(o.data, o2.data)
	}
	return bytes.Equal(o.data, x.Bytes())
}
func (o *Obj) Resolve(merkle.Builder) error { return nil }
func (o *Obj) ClearCache()                  {}

var objType = reflect.TypeOf((*Obj)(nil))

type ObjectFactory struct{}

func (ObjectFactory) Kind() string { return "object" }
func (ObjectFactory) NewMutable(d db.Database, h []byte) Mut {
	return objMut{trie_manager.NewMutableForObject(d, h, objType)}
}
func (ObjectFactory) NewImmutable(d db.Database, h []byte) Snap {
	return objSnap{trie_manager.NewImmutableForObject(d, h, objType), nil}
}
func (ObjectFactory) MutableFrom(s Snap) Mut {
	return objMut{trie_manager.NewMutableFromImmutableForObject(s.(objSnap).ImmutableForObject)}
}

type objMut struct{ m trie.MutableForObject }

func ob(o trie.Object, err error) ([]byte, error) {
	if o == nil || err != nil {
		return nil, err
	}
	if oo, ok := o.(*Obj); ok && oo == nil {
		return nil, nil
	}
	return o.Bytes(), nil
}

func (m objMut) Get(k []byte) ([]byte, error)    { return ob(m.m.Get(k)) }
func (m objMut) Set(k, v []byte) ([]byte, error) { return ob(m.m.Set(k, NewObj(v))) }
func (m objMut) Delete(k []byte) ([]byte, error) { return ob(m.m.Delete(k)) }
func (m objMut) Snapshot() Snap {
	s := m.m.GetSnapshot()
	return objSnap{s, s}
}
func (m objMut) Reset(s Snap) { m.m.Reset(s.(objSnap).ImmutableForObject) }
func (m objMut) ClearCache()  { m.m.ClearCache() }

type objSnap struct {
	trie.ImmutableForObject
	s trie.SnapshotForObject
}

func (s objSnap) Raw() interface{}             { return s.ImmutableForObject }
func (s objSnap) Get(k []byte) ([]byte, error) { return ob(s.ImmutableForObject.Get(k)) }
func (s objSnap) Prove(k []byte, p [][]byte) ([]byte, error) {
	return ob(s.ImmutableForObject.Prove(k, p))
}
func (s objSnap) Flush() error {
	if s.s == nil {
		return nil
	}
	return s.s.Flush()
}
func (s objSnap) Iterate(prefix []byte, filter bool) ([]KV, error) {
	var it trie.IteratorForObject
	if filter {
		it = s.ImmutableForObject.Filter(prefix)
	} else {
		it = s.ImmutableForObject.Iterator()
	}
	var out []KV
	for ; it.Has(); it.Next() {
		o, k, err := it.Get()
		if err != nil {
			return out, err
		}
		var v []byte
		if o != nil {
			v = o.Bytes()
		}
		out = append(out, KV{append([]byte{}, k...), append([]byte{}, v...)})
		if len(out) > 100000 {
			break
		}
	}
	return out, nil
}

// Factories lists both API kinds.
var Factories = []Factory{BytesFactory{}, ObjectFactory{}}

// BuildRandom builds a trie of n distinct related keys with random values
// under a random snapshot/flush/clear-cache/reload regime, with a few
// overwrites and delete+reinsert steps on the way. It returns the final
// mutable, the model and the database (nothing is flushed at the end).
func BuildRandom(r *rand.Rand, f Factory, n int) (Mut, map[string][]byte, db.Database) {
	d := db.NewMapDB()
	mut := f.NewMutable(d, nil)
	model := map[string][]byte{}
	kg := NewKeyGen(r)
	regime := r.Intn(4)
	for len(model) < n {
		k := kg.New()
		v := Value(r)
		mut.Set(append([]byte{}, k...), append([]byte{}, v...))
		model[string(k)] = v
		if r.Intn(8) == 0 { // overwrite or delete+reinsert an older key
			k2 := kg.Known()
			if _, ok := model[string(k2)]; ok {
				if r.Intn(2) == 0 {
					mut.Delete(append([]byte{}, k2...))
				}
				v2 := Value(r)
				mut.Set(append([]byte{}, k2...), append([]byte{}, v2...))
				model[string(k2)] = v2
			}
		}
		if regime == 0 || r.Intn(6) != 0 {
			continue
		}
		switch r.Intn(regime + 1) {
		case 1:
			mut.Snapshot().Hash()
		case 2:
			mut.Snapshot().Flush()
			if r.Intn(2) == 0 {
				mut.ClearCache()
			}
		case 3:
			s := mut.Snapshot()
			s.Flush()
			mut = f.NewMutable(d, s.Hash())
		}
	}
	return mut, model, d
}
