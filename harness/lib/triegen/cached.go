package triegen

import (
	"github.com/icon-project/goloop/common/db"
	"github.com/icon-project/goloop/common/trie/cache"
	"github.com/icon-project/goloop/common/trie/trie_manager"
)

// WithNodeCache returns a factory whose tries consult the given node cache
// when they realize nodes (as account stores do with the chain option
// node_cache "large": memory levels + file levels). Immutables are made the
// way goloop makes cached immutables: a snapshot of a mutable that carries
// the cache.
func WithNodeCache(f Factory, nc *cache.NodeCache) Factory {
	return cachedFactory{f, nc}
}

type cachedFactory struct {
	inner Factory
	nc    *cache.NodeCache
}

func (c cachedFactory) attach(m Mut) Mut {
	switch mm := m.(type) {
	case bytesMut:
		trie_manager.SetCacheOfMutable(mm.Mutable, c.nc)
	case objMut:
		trie_manager.SetCacheOfMutableForObject(mm.m, c.nc)
	}
	return m
}

func (c cachedFactory) Kind() string { return c.inner.Kind() + "+file-node-cache" }
func (c cachedFactory) NewMutable(d db.Database, h []byte) Mut {
	return c.attach(c.inner.NewMutable(d, h))
}
func (c cachedFactory) NewImmutable(d db.Database, h []byte) Snap {
	return c.NewMutable(d, h).Snapshot()
}
func (c cachedFactory) MutableFrom(s Snap) Mut { return c.attach(c.inner.MutableFrom(s)) }

// FlushVerifier flushes a trie obtained from NewImmutable (a verifier that
// accumulated nodes from proofs, or a trie opened from the database): the
// objects goloop returns for immutables also implement Flush.
func FlushVerifier(s Snap) (bool, error) {
	type flusher interface{ Flush() error }
	if f, ok := s.Raw().(flusher); ok {
		return true, f.Flush()
	}
	return false, nil
}
