// Package gen holds boundary-biased generators shared by the property packages.
package gen

import (
	"math/big"
	"math/rand"
)

// LenBoundaries are lengths at which length encodings change shape.
var LenBoundaries = []int{0, 1, 2, 7, 8, 9, 31, 32, 33, 54, 55, 56, 57, 127, 128, 129, 255, 256, 257, 1023, 1024, 1025}

// Len returns a length, biased to encoding boundaries, at most max.
func Len(r *rand.Rand, max int) int {
	if max <= 0 {
		return 0
	}
	if r.Intn(3) == 0 {
		l := LenBoundaries[r.Intn(len(LenBoundaries))]
		if l <= max {
			return l
		}
	}
	if r.Intn(2) == 0 {
		m := max
		if m > 40 {
			m = 40
		}
		return r.Intn(m + 1)
	}
	return r.Intn(max + 1)
}

// Bytes returns n random bytes.
func Bytes(r *rand.Rand, n int) []byte {
	b := make([]byte, n)
	r.Read(b)
	return b
}

// BytesBiased returns a byte string of biased length and content classes.
func BytesBiased(r *rand.Rand, max int) []byte {
	n := Len(r, max)
	b := make([]byte, n)
	switch r.Intn(5) {
	case 0: // zeros
	case 1:
		for i := range b {
			b[i] = 0xff
		}
	case 2: // low bytes (<0x80)
		for i := range b {
			b[i] = byte(r.Intn(0x80))
		}
	default:
		r.Read(b)
	}
	return b
}

// Int64 returns a boundary-biased int64.
func Int64(r *rand.Rand) int64 {
	switch r.Intn(4) {
	case 0:
		k := uint(r.Intn(64))
		v := int64(1) << k
		switch r.Intn(6) {
		case 0:
			return v
		case 1:
			return v - 1
		case 2:
			return v + 1
		case 3:
			return -v
		case 4:
			return -v - 1
		default:
			return -v + 1
		}
	case 1:
		return int64(r.Intn(300)) - 150
	default:
		return int64(r.Uint64())
	}
}

// Uint64 returns a boundary-biased uint64.
func Uint64(r *rand.Rand) uint64 {
	switch r.Intn(4) {
	case 0:
		k := uint(r.Intn(64))
		v := uint64(1) << k
		switch r.Intn(3) {
		case 0:
			return v
		case 1:
			return v - 1
		default:
			return v + 1
		}
	case 1:
		return uint64(r.Intn(300))
	default:
		return r.Uint64()
	}
}

// BigInt returns a boundary-biased big integer of up to bits bits, both signs.
func BigInt(r *rand.Rand, bits int) *big.Int {
	v := new(big.Int)
	switch r.Intn(3) {
	case 0:
		k := uint(r.Intn(bits + 1))
		v.Lsh(big.NewInt(1), k)
		v.Add(v, big.NewInt(int64(r.Intn(3)-1)))
	default:
		n := r.Intn(bits/8 + 1)
		v.SetBytes(Bytes(r, n))
	}
	if r.Intn(2) == 0 {
		v.Neg(v)
	}
	return v
}

// Pick returns one of the items.
func Pick[T any](r *rand.Rand, items ...T) T {
	return items[r.Intn(len(items))]
}

// Shuffle returns a shuffled copy.
func Shuffle[T any](r *rand.Rand, in []T) []T {
	out := append([]T(nil), in...)
	r.Shuffle(len(out), func(i, j int) { out[i], out[j] = out[j], out[i] })
	return out
}

// FlipBit returns a copy of b with one bit flipped.
func FlipBit(b []byte, bit int) []byte {
	o := append([]byte(nil), b...)
	o[bit/8] ^= 1 << uint(bit%8)
	return o
}
