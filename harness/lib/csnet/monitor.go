package csnet

import (
	"encoding/binary"
	"encoding/hex"
	"fmt"
	"sync"

	"github.com/icon-project/goloop/consensus"
	"github.com/icon-project/goloop/module"
	"github.com/icon-project/goloop/test"
)

// VoteRec is one signed vote seen on the wire.
type VoteRec struct {
	Seq     int64  `json:"seq"`
	Sender  int    `json:"sender"` // validator whose node put it on the wire
	Signer  int    `json:"signer"` // validator index that signed it (-1: not a validator)
	H       int64  `json:"h"`
	R       int32  `json:"r"`
	Type    int    `json:"type"` // 0 prevote 1 precommit
	BlockID string `json:"block_id"`
	PSID    string `json:"psid"`
	Hash    string `json:"hash"`
	Forged  bool   `json:"forged,omitempty"` // produced by the Byzantine strategy
}

// PropRec is one signed proposal seen on the wire.
type PropRec struct {
	Seq    int64  `json:"seq"`
	Signer int    `json:"signer"`
	H      int64  `json:"h"`
	R      int32  `json:"r"`
	PSID   string `json:"psid"`
	POL    int32  `json:"pol_round"`
	Hash   string `json:"hash"`
	Forged bool   `json:"forged,omitempty"`
}

// FinRec is one Finalize call.
type FinRec struct {
	Own  []VoteRec `json:"own_durable_precommits,omitempty"` // the finalizer's own precommits in its WAL at that moment
	Seq  int64  `json:"seq"`
	Node int    `json:"node"`
	Gen  int    `json:"incarnation"`
	H    int64  `json:"h"`
	ID   string `json:"block_id"`
}

// Violation found by the monitor.
type Violation struct {
	Key    string      `json:"key"`
	Detail interface{} `json:"detail"`
}

type voteKey struct {
	signer int
	h      int64
	r      int32
	typ    int
}

type propKey struct {
	signer int
	h      int64
	r      int32
}

// Monitor is the online checker. All state is behind mu.
type Monitor struct {
	c   *Cluster
	byz map[int]bool

	mu         sync.Mutex
	votes      []VoteRec
	voteSeen   map[string]bool      // dedup by signer/h/r/type/hash
	firstVote  map[voteKey]VoteRec  // first signed bytes per slot
	firstProp  map[propKey]PropRec
	props      []PropRec
	fins       []FinRec
	finByH     map[int64][]FinRec
	maxFin     int64
	lastFinOf  map[int]int64
	crashes    []CrashDesc
	restarts   int
	violations []Violation
	notes      []string
	// counters
	Equivocations      int // conflicting signed pairs by Byzantine validators seen on the wire
	EquivDelivered     int
	DurableChecks      int
	DSReports          int
	DSReportsAgainstCorrect int
	RestartFailed      int
	SentAfterRestartSameHeight int
	maxRound           int32
	crashInfo          map[int]crashState
	// own signed messages each validator put on the wire: validator -> height -> WAL payloads
	sentOwn     map[int]map[int64][][]byte
	RememberChecks int
	ImportDelays   int
}

type crashState struct {
	h          int64 // height the victim was in when it crashed
	signedInH  bool  // it had signed a vote/proposal in that height before crashing
	gen        int
}

func newMonitor(c *Cluster, byz map[int]bool) *Monitor {
	return &Monitor{c: c, byz: byz,
		voteSeen: map[string]bool{}, firstVote: map[voteKey]VoteRec{}, firstProp: map[propKey]PropRec{},
		finByH: map[int64][]FinRec{}, lastFinOf: map[int]int64{}, crashInfo: map[int]crashState{}, sentOwn: map[int]map[int64][][]byte{}}
}

func (m *Monitor) isByz(i int) bool { return m.byz[i] }

func (m *Monitor) note(format string, args ...interface{}) {
	m.mu.Lock()
	if len(m.notes) < 50 {
		m.notes = append(m.notes, fmt.Sprintf(format, args...))
	}
	m.mu.Unlock()
}

func (m *Monitor) violate(key string, detail interface{}) {
	// caller holds mu
	for _, v := range m.violations {
		if v.Key == key {
			return
		}
	}
	m.violations = append(m.violations, Violation{key, detail})
}

// MaxFinalized is the highest height finalized by any node.
func (m *Monitor) MaxFinalized() int64 {
	m.mu.Lock()
	defer m.mu.Unlock()
	return m.maxFin
}

// LastFinalizedOf returns the last height validator idx finalized.
func (m *Monitor) LastFinalizedOf(idx int) int64 {
	m.mu.Lock()
	defer m.mu.Unlock()
	return m.lastFinOf[idx]
}

func short(b []byte) string {
	if len(b) > 8 {
		b = b[:8]
	}
	return hex.EncodeToString(b)
}

func (m *Monitor) voteRec(sender int, v *consensus.VoteMessage, seq int64, forged bool) (VoteRec, bool) {
	addr := consensus.VerifVoteSigner(v)
	if addr == nil {
		return VoteRec{}, false
	}
	rec := VoteRec{Seq: seq, Sender: sender, Signer: m.c.idxOf(addr), H: v.Height, R: v.Round, Type: int(v.Type),
		BlockID: hex.EncodeToString(v.BlockID), Hash: hex.EncodeToString(consensus.VerifVoteHash(v)), Forged: forged}
	if v.BlockPartSetIDAndNTSVoteCount != nil {
		id := v.BlockPartSetIDAndNTSVoteCount.ID()
		rec.PSID = fmt.Sprintf("%d:%x", id.Count, id.Hash)
	}
	return rec, true
}

// onWire observes one (packet, destination) at send time, on the sender's goroutine.
func (m *Monitor) onWire(from *Inc, to int, pk *test.Packet, pm *parsed, seq int64, forged bool) {
	if pm == nil {
		return
	}
	// durable-before-send (C02 b): own votes/proposals handed to the network
	// must already be covered by a completed Sync of the round WAL
	if !forged && !m.byz[from.Idx] && (pm.Kind == "vote" || pm.Kind == "proposal") {
		payload := make([]byte, 2+len(pk.Data))
		binary.BigEndian.PutUint16(payload, pk.PI.Uint16())
		copy(payload[2:], pk.Data)
		ok := from.Wal.IsDurable("round", payload)
		m.mu.Lock()
		m.DurableChecks++
		if m.sentOwn[from.Idx] == nil {
			m.sentOwn[from.Idx] = map[int64][][]byte{}
		}
		dup := false
		for _, q := range m.sentOwn[from.Idx][pm.Height] {
			if string(q) == string(payload) {
				dup = true
			}
		}
		if !dup {
			m.sentOwn[from.Idx][pm.Height] = append(m.sentOwn[from.Idx][pm.Height], payload)
		}
		if !ok {
			m.violate("send-before-durable."+pm.Kind, map[string]interface{}{
				"validator": from.Idx, "incarnation": from.Gen, "kind": pm.Kind, "height": pm.Height, "round": pm.Round,
				"message": hex.EncodeToString(pk.Data), "seq": seq,
				"explanation": "the signed message was handed to the network but no completed Sync of the round WAL covers a record with these bytes",
				"wal_ops":     from.Wal.opsTail(30),
			})
		}
		m.mu.Unlock()
	}
	var vs []*consensus.VoteMessage
	switch pm.Kind {
	case "vote":
		vs = []*consensus.VoteMessage{pm.Vote}
	case "votelist":
		vs = pm.Votes
	case "proposal":
		p := pm.Proposal
		addr := consensus.VerifProposalSigner(p)
		if addr == nil {
			return
		}
		rec := PropRec{Seq: seq, Signer: m.c.idxOf(addr), H: p.Height, R: p.Round, POL: p.POLRound,
			Hash: hex.EncodeToString(consensus.VerifProposalHash(p)), Forged: forged}
		if p.BlockPartSetID != nil {
			rec.PSID = fmt.Sprintf("%d:%x", p.BlockPartSetID.Count, p.BlockPartSetID.Hash)
		}
		m.mu.Lock()
		k := propKey{rec.Signer, rec.H, rec.R}
		if first, ok := m.firstProp[k]; !ok {
			m.firstProp[k] = rec
			m.props = append(m.props, rec)
			m.markSigned(rec.Signer, rec.H)
		} else if first.Hash != rec.Hash {
			m.props = append(m.props, rec)
			if m.byz[rec.Signer] {
				m.Equivocations++
			} else if rec.Signer >= 0 {
				m.violate(fmt.Sprintf("equivocation.proposal"), map[string]interface{}{
					"validator": rec.Signer, "height": rec.H, "round": rec.R, "first": first, "second": rec,
					"crashes": m.crashes,
				})
			}
		}
		m.mu.Unlock()
		return
	default:
		return
	}
	for _, v := range vs {
		rec, ok := m.voteRec(from.Idx, v, seq, forged)
		if !ok {
			continue
		}
		dk := fmt.Sprintf("%d/%d/%d/%d/%s", rec.Signer, rec.H, rec.R, rec.Type, rec.Hash)
		m.mu.Lock()
		if m.voteSeen[dk] {
			m.mu.Unlock()
			continue
		}
		m.voteSeen[dk] = true
		m.votes = append(m.votes, rec)
		if rec.R > m.maxRound {
			m.maxRound = rec.R
		}
		k := voteKey{rec.Signer, rec.H, rec.R, rec.Type}
		if first, ok := m.firstVote[k]; !ok {
			m.firstVote[k] = rec
			if rec.Signer == from.Idx {
				m.markSigned(rec.Signer, rec.H)
			}
		} else if first.Hash != rec.Hash {
			if m.byz[rec.Signer] {
				m.Equivocations++
			} else if rec.Signer >= 0 {
				m.violate("equivocation.vote", map[string]interface{}{
					"validator": rec.Signer, "height": rec.H, "round": rec.R, "type": rec.Type,
					"first": first, "second": rec, "crashes": m.crashes,
					"explanation": "two different signed votes of the same type for the same height and round by a correct validator were seen on the wire",
				})
			}
		}
		// own vote inside own vote list must be durable as well
		m.mu.Unlock()
	}
}

// markSigned remembers that a validator put an own signed message on the wire at height h (caller holds mu).
func (m *Monitor) markSigned(signer int, h int64) {
	if signer < 0 {
		return
	}
	cs := m.crashInfo[signer]
	if cs.gen > 0 && cs.h == h && cs.signedInH {
		m.SentAfterRestartSameHeight++
		cs.signedInH = false
		m.crashInfo[signer] = cs
	}
}

func (m *Monitor) onFinalize(inc *Inc, h int64, id []byte) {
	seq := m.c.NextSeq()
	rec := FinRec{Seq: seq, Node: inc.Idx, Gen: inc.Gen, H: h, ID: hex.EncodeToString(id)}
	m.mu.Lock()
	defer m.mu.Unlock()
	m.fins = append(m.fins, rec)
	defer m.c.Router.byz.onFinalized(inc.Idx, h)
	if m.byz[inc.Idx] {
		// a Byzantine validator's own node is still an honest engine in this
		// harness (only its outbound traffic is rewritten); its finalizations are
		// recorded but agreement is only required among correct validators
		m.finByH[h] = append(m.finByH[h], rec)
		return
	}
	for _, o := range m.finByH[h] {
		if m.byz[o.Node] {
			continue
		}
		if o.ID != rec.ID {
			m.violate("agreement.different-blocks", map[string]interface{}{
				"height": h, "first": o, "second": rec,
				"precommits_at_height": m.votesAt(h, 1), "proposals_at_height": m.propsAt(h),
				"crashes": m.crashes,
				"explanation": "two correct validators finalized different blocks at the same height",
			})
		}
	}
	m.finByH[h] = append(m.finByH[h], rec)
	defer m.c.armCrashes(inc, h+1)
	if h > m.maxFin {
		m.maxFin = h
	}
	if h > m.lastFinOf[inc.Idx] {
		m.lastFinOf[inc.Idx] = h
	}
	// quorum-before-finalize: > 2n/3 distinct validators precommitted exactly
	// this block (id and part set) in one round, among signed precommits that
	// were on the wire before this call
	// the finalizing validator's own precommit counts once it is signed and in
	// its WAL, even if a crash kept it from ever reaching the wire
	own := m.ownDurablePrecommits(inc, h)
	for i := range m.fins {
		if m.fins[i].Seq == seq {
			m.fins[i].Own = own
		}
	}
	if !m.quorumFor(h, rec.ID, seq, own) {
		m.violate("finalize-without-quorum", map[string]interface{}{
			"finalize": rec, "n": m.c.N, "precommits_at_height": m.votesAt(h, 1),
			"explanation": "no round has precommits for this block from more than 2n/3 distinct validators among the signed precommits seen on the wire before the Finalize call",
		})
	}
}

// ownDurablePrecommits parses the validator's round WAL records (written by
// this incarnation or inherited from the crash image) for its own precommits
// at height h. Caller holds m.mu; WalX has its own lock.
func (m *Monitor) ownDurablePrecommits(inc *Inc, h int64) []VoteRec {
	var out []VoteRec
	inc.Wal.WrittenPayloads("round", func(p []byte) {
		if len(p) < 2 || binary.BigEndian.Uint16(p) != uint16(consensus.ProtoVote) {
			return
		}
		msg, err := consensus.UnmarshalMessage(uint16(consensus.ProtoVote), p[2:])
		if err != nil {
			return
		}
		v, ok := msg.(*consensus.VoteMessage)
		if !ok || v.Height != h || v.Type != consensus.VoteTypePrecommit {
			return
		}
		if rec, ok := m.voteRec(inc.Idx, v, 0, false); ok && rec.Signer == inc.Idx {
			out = append(out, rec)
		}
	})
	return out
}

func (m *Monitor) quorumFor(h int64, id string, before int64, extra []VoteRec) bool {
	type grp struct {
		r    int32
		psid string
	}
	cnt := map[grp]map[int]bool{}
	all := append(append([]VoteRec(nil), m.votes...), extra...)
	for _, v := range all {
		if v.H != h || v.Type != 1 || v.BlockID != id || v.Seq >= before || v.Signer < 0 {
			continue
		}
		g := grp{v.R, v.PSID}
		if cnt[g] == nil {
			cnt[g] = map[int]bool{}
		}
		cnt[g][v.Signer] = true
	}
	for _, s := range cnt {
		if 3*len(s) > 2*m.c.N {
			return true
		}
	}
	return false
}

func (m *Monitor) votesAt(h int64, typ int) []VoteRec {
	var out []VoteRec
	for _, v := range m.votes {
		if v.H == h && (typ < 0 || v.Type == typ) {
			out = append(out, v)
		}
	}
	return out
}

func (m *Monitor) propsAt(h int64) []PropRec {
	var out []PropRec
	for _, p := range m.props {
		if p.H == h {
			out = append(out, p)
		}
	}
	return out
}

func (m *Monitor) onDoubleSignReport(inc *Inc, data []module.DoubleSignData) {
	m.mu.Lock()
	m.DSReports++
	if len(data) > 0 {
		signer := -1
		for i, w := range m.c.Wallets {
			if string(w.Address().ID()) == string(data[0].Signer()) {
				signer = i
			}
		}
		if signer >= 0 && !m.byz[signer] {
			m.DSReportsAgainstCorrect++
		}
	}
	m.mu.Unlock()
}

func (m *Monitor) onCrash(inc *Inc, d CrashDesc) {
	d.Seq = m.c.NextSeq()
	m.mu.Lock()
	defer m.mu.Unlock()
	d.H = m.lastFinOf[inc.Idx] + 1
	signed := false
	for k := range m.firstVote {
		if k.signer == inc.Idx && k.h == d.H {
			signed = true
		}
	}
	for k := range m.firstProp {
		if k.signer == inc.Idx && k.h == d.H {
			signed = true
		}
	}
	m.crashInfo[inc.Idx] = crashState{h: d.H, signedInH: signed, gen: inc.Gen + 1}
	d.Ops = tailStrings(d.Ops, 12)
	m.crashes = append(m.crashes, d)
}

func tailStrings(s []string, n int) []string {
	if len(s) > n {
		return s[len(s)-n:]
	}
	return s
}

// checkRemembered runs after a restarted incarnation finished recovery
// (Start returned): every own vote/proposal the validator put on the wire in
// the height it restarts in must still be in its round WAL (C02: "durably
// remembered"), whatever torn records earlier crashes left behind.
func (m *Monitor) checkRemembered(inc *Inc, walDir string) {
	h := m.LastFinalizedOf(inc.Idx) + 1
	m.mu.Lock()
	want := append([][]byte(nil), m.sentOwn[inc.Idx][h]...)
	crashes := append([]CrashDesc(nil), m.crashes...)
	m.mu.Unlock()
	if len(want) == 0 {
		return
	}
	have := map[string]bool{}
	rd, err := consensus.OpenWALForRead(walDir + "/round")
	if err == nil {
		for {
			bs, err := rd.ReadBytes()
			if err != nil {
				break
			}
			have[string(bs)] = true
		}
		rd.Close()
	}
	m.mu.Lock()
	defer m.mu.Unlock()
	for _, w := range want {
		m.RememberChecks++
		if !have[string(w)] {
			m.violate("sent-message-forgotten-after-recovery", map[string]interface{}{
				"validator": inc.Idx, "incarnation": inc.Gen, "height": h,
				"message": hex.EncodeToString(w), "records_readable_after_recovery": len(have), "crashes": crashes,
				"explanation": "a vote/proposal this validator had put on the wire in the height it restarted in is no longer readable from its round WAL after recovery",
			})
			return
		}
	}
}

func (m *Monitor) countImportDelay() {
	m.mu.Lock()
	m.ImportDelays++
	m.mu.Unlock()
}

func (m *Monitor) onRestart(inc *Inc) {
	m.mu.Lock()
	m.restarts++
	m.mu.Unlock()
}

func (m *Monitor) restartFailed(inc *Inc, err error) {
	m.mu.Lock()
	m.RestartFailed++
	if len(m.notes) < 50 {
		m.notes = append(m.notes, fmt.Sprintf("restart of validator %d gen %d failed: %v", inc.Idx, inc.Gen, err))
	}
	m.mu.Unlock()
}

// Summary is what a run reports.
type Summary struct {
	Violations   []Violation
	Fins         []FinRec
	Crashes      []CrashDesc
	Notes        []string
	MaxFinalized int64
	MinFinalized int64 // over live correct validators
	MaxRound     int32
	Votes        int
	Precommits   int
	DSReports    int
	DSReportsAgainstCorrect int
	Proposals    int
	Restarts     int
	RestartFailed int
	Equivocations int
	DurableChecks int
	RememberChecks int
	ImportDelays int
	SentAfterRestartSameHeight int
	HeightsAgreedBy2 int
	VoteOrderSig string
	TearClasses  map[string]int
	FramingOK    bool
}

// Summary returns the monitor's findings and re-checks the whole log
// offline with independent code.
func (m *Monitor) Summary() *Summary {
	m.mu.Lock()
	defer m.mu.Unlock()
	s := &Summary{Violations: append([]Violation(nil), m.violations...), Fins: append([]FinRec(nil), m.fins...),
		Crashes: append([]CrashDesc(nil), m.crashes...), Notes: append([]string(nil), m.notes...),
		MaxFinalized: m.maxFin, MaxRound: m.maxRound, Votes: len(m.votes), Proposals: len(m.props),
		Restarts: m.restarts, RestartFailed: m.RestartFailed, Equivocations: m.Equivocations, DurableChecks: m.DurableChecks,
		SentAfterRestartSameHeight: m.SentAfterRestartSameHeight, RememberChecks: m.RememberChecks, ImportDelays: m.ImportDelays, TearClasses: map[string]int{}, FramingOK: true}
	for _, v := range m.votes {
		if v.Type == 1 {
			s.Precommits++
		}
	}
	s.DSReports = m.DSReports
	s.DSReportsAgainstCorrect = m.DSReportsAgainstCorrect
	s.MinFinalized = -1
	for i := 0; i < m.c.N; i++ {
		if m.byz[i] {
			continue
		}
		l := m.lastFinOf[i]
		if s.MinFinalized < 0 || l < s.MinFinalized {
			s.MinFinalized = l
		}
	}
	// offline re-check of agreement and quorum (independent of the online state)
	byH := map[int64]map[string][]FinRec{}
	for _, f := range m.fins {
		if m.byz[f.Node] {
			continue
		}
		if byH[f.H] == nil {
			byH[f.H] = map[string][]FinRec{}
		}
		byH[f.H][f.ID] = append(byH[f.H][f.ID], f)
	}
	for h, ids := range byH {
		if len(ids) > 1 {
			found := false
			for _, v := range s.Violations {
				if v.Key == "agreement.different-blocks" {
					found = true
				}
			}
			if !found {
				s.Violations = append(s.Violations, Violation{"agreement.different-blocks", map[string]interface{}{"height": h, "finalized": ids, "source": "offline re-check"}})
			}
		}
		nodes := map[int]bool{}
		for _, l := range ids {
			for _, f := range l {
				nodes[f.Node] = true
			}
		}
		if len(nodes) >= 2 {
			s.HeightsAgreedBy2++
		}
	}
	for _, f := range m.fins {
		// offline quorum: recount with a different grouping (per round, signer set intersected with block id + psid)
		best := 0
		rounds := map[int32]map[string]map[int]bool{}
		for _, v := range append(append([]VoteRec(nil), m.votes...), f.Own...) {
			if v.H == f.H && v.Type == 1 && v.Seq < f.Seq && v.BlockID == f.ID && v.Signer >= 0 {
				if rounds[v.R] == nil {
					rounds[v.R] = map[string]map[int]bool{}
				}
				if rounds[v.R][v.PSID] == nil {
					rounds[v.R][v.PSID] = map[int]bool{}
				}
				rounds[v.R][v.PSID][v.Signer] = true
			}
		}
		for _, ps := range rounds {
			for _, set := range ps {
				if len(set) > best {
					best = len(set)
				}
			}
		}
		if best*3 <= 2*m.c.N {
			found := false
			for _, v := range s.Violations {
				if v.Key == "finalize-without-quorum" {
					found = true
				}
			}
			if !found {
				s.Violations = append(s.Violations, Violation{"finalize-without-quorum", map[string]interface{}{"finalize": f, "best_precommit_count": best, "n": m.c.N, "source": "offline re-check"}})
			}
		}
	}
	// signature of the order in which precommits appeared (interleaving diversity)
	sig := ""
	for _, v := range m.votes {
		if len(sig) < 400 {
			sig += fmt.Sprintf("%d%d%d.", v.Signer, v.R, v.Type)
		}
	}
	s.VoteOrderSig = sig
	for _, cr := range m.crashes {
		for _, f := range cr.Files {
			s.TearClasses[f.TearClass]++
		}
	}
	m.c.mu.Lock()
	incs := append([]*Inc(nil), m.c.allIncs...)
	m.c.mu.Unlock()
	for _, inc := range incs {
		inc.Wal.mu.Lock()
		if !inc.Wal.framingOK {
			s.FramingOK = false
		}
		inc.Wal.mu.Unlock()
	}
	return s
}
