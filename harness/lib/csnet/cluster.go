// Package csnet runs real goloop consensus engines (consensus.New, real
// block.Manager, real service manager, real file WALs) as n validators in one
// process with a hostile network owned by the harness: every packet is
// observed at send time through test.HookPeer and delivered (or not) by the
// Router according to a seed-determined fault plan and Byzantine strategy.
// A Monitor records finalizations and every signed vote/proposal seen on the
// wire and decides agreement, quorum-before-finalize, no-equivocation and
// durable-before-send.
package csnet

import (
	"fmt"
	"math/rand"
	"os"
	"path/filepath"
	"sync"
	"sync/atomic"
	"time"

	"github.com/icon-project/goloop/block"
	"github.com/icon-project/goloop/common/db"
	"github.com/icon-project/goloop/common/log"
	"github.com/icon-project/goloop/common/wallet"
	"github.com/icon-project/goloop/consensus"
	"github.com/icon-project/goloop/module"
	"github.com/icon-project/goloop/network"
	"github.com/icon-project/goloop/test"
)

// QuietT satisfies test.T and records fixture assertion failures.
type QuietT struct {
	mu   sync.Mutex
	Errs []string
}

func (t *QuietT) Errorf(format string, args ...interface{}) {
	t.mu.Lock()
	if len(t.Errs) < 20 {
		t.Errs = append(t.Errs, fmt.Sprintf(format, args...))
	}
	t.mu.Unlock()
}
func (t *QuietT) Logf(format string, args ...any) {}
func (t *QuietT) Errors() []string {
	t.mu.Lock()
	defer t.mu.Unlock()
	return append([]string(nil), t.Errs...)
}

// Inc is one incarnation of a validator (a process lifetime between crashes).
type Inc struct {
	Idx   int
	Gen   int
	Node  *test.Node
	Wal   *WalX
	alive atomic.Bool
	c     *Cluster
	hooks []*test.HookPeer
}

func (i *Inc) Alive() bool { return i.alive.Load() }

// Options configures a cluster run.
type Options struct {
	N              int
	Rand           *rand.Rand
	TimeoutPropose time.Duration
	Plan           *Plan
	Byz            []int // indices of Byzantine validators
}

// Cluster is a set of validators with the hostile network between them.
type Cluster struct {
	N       int
	T       *QuietT
	Opt     Options
	Wallets []module.Wallet
	PeerIDs []module.PeerID
	Genesis string
	Dir     string
	DBs     []db.Database

	mu      sync.Mutex
	incs    []*Inc
	allIncs []*Inc
	seq     atomic.Int64
	closed  atomic.Bool

	Mon    *Monitor
	Router *Router

	restartCh chan restartReq
	wg        sync.WaitGroup
}

type restartReq struct {
	idx      int
	imageDir string
}

func init() {
	log.GlobalLogger().SetLevel(log.PanicLevel)
}

// NewCluster creates n validators (not started).
func NewCluster(opt Options) (*Cluster, error) {
	dir, err := os.MkdirTemp("", "verif-csnet")
	if err != nil {
		return nil, err
	}
	c := &Cluster{N: opt.N, T: &QuietT{}, Opt: opt, Dir: dir}
	c.restartCh = make(chan restartReq, 16)
	c.Wallets = make([]module.Wallet, opt.N)
	c.PeerIDs = make([]module.PeerID, opt.N)
	c.DBs = make([]db.Database, opt.N)
	validators := ""
	for i := range c.Wallets {
		c.Wallets[i] = wallet.New()
		c.PeerIDs[i] = network.NewPeerIDFromAddress(c.Wallets[i].Address())
		c.DBs[i] = db.NewMapDB()
		if i > 0 {
			validators += ", "
		}
		validators += fmt.Sprintf(`"%s"`, c.Wallets[i].Address())
	}
	c.Genesis = fmt.Sprintf(`{
		"accounts": [
			{"name":"treasury","address":"hx1000000000000000000000000000000000000000","balance":"0x0"},
			{"name":"god","address":"hx0000000000000000000000000000000000000000","balance":"0x0"}
		],
		"message": "",
		"nid" : "0x1",
		"chain" : { "validatorList" : [ %s ] }
	}`, validators)
	byz := map[int]bool{}
	for _, b := range opt.Byz {
		byz[b] = true
	}
	c.Mon = newMonitor(c, byz)
	c.Router = newRouter(c, opt.Plan, opt.Rand)
	c.incs = make([]*Inc, opt.N)
	for i := 0; i < opt.N; i++ {
		walDir := filepath.Join(dir, fmt.Sprintf("wal-%d-0", i))
		inc, err := c.newInc(i, 0, walDir)
		if err != nil {
			return nil, err
		}
		c.incs[i] = inc
	}
	return c, nil
}

func (c *Cluster) idxOf(addr module.Address) int {
	for i, w := range c.Wallets {
		if w.Address().Equal(addr) {
			return i
		}
	}
	return -1
}

// NextSeq returns the next global event sequence number.
func (c *Cluster) NextSeq() int64 { return c.seq.Add(1) }

func (c *Cluster) newInc(idx, gen int, walDir string) (*Inc, error) {
	inc := &Inc{Idx: idx, Gen: gen, c: c}
	inc.Wal = newWalX(c, inc)
	tmo := c.Opt.TimeoutPropose
	if tmo == 0 {
		tmo = 300 * time.Millisecond
	}
	node := test.NewNode(c.T,
		test.UseGenesis(c.Genesis),
		test.UseWallet(c.Wallets[idx]),
		test.UseDB(c.DBs[idx]),
		test.UseSMFactory(func(ctx *test.NodeContext) module.ServiceManager {
			return &smWrap{ServiceManager: test.NewServiceManager(ctx.C, ctx.Platform, ctx.CM, ctx.EM), inc: inc}
		}),
		test.UseBMFactory(func(ctx *test.NodeContext) module.BlockManager {
			bm, err := block.NewManager(ctx.C, nil, nil)
			if err != nil {
				c.T.Errorf("block.NewManager: %v", err)
				return nil
			}
			return &bmWrap{BlockManager: bm, inc: inc}
		}),
		test.UseConfig(&test.FixtureConfig{
			NewCS: func(ctx *test.NodeContext) module.Consensus {
				return consensus.New(ctx.C, walDir, inc.Wal, nil, nil, nil, tmo)
			},
		}),
	)
	node.Chain.Logger().SetLevel(log.PanicLevel)
	inc.Node = node
	// one hook peer per other validator: the router owns all traffic
	for j := 0; j < c.N; j++ {
		if j == idx {
			continue
		}
		j := j
		hp := &test.HookPeer{PeerID: c.PeerIDs[j]}
		hp.OnPacket = func(pk *test.Packet) {
			c.Router.onSend(inc, j, pk)
		}
		inc.hooks = append(inc.hooks, hp)
	}
	c.mu.Lock()
	c.allIncs = append(c.allIncs, inc)
	c.mu.Unlock()
	return inc, nil
}

func (c *Cluster) startInc(inc *Inc) error {
	inc.alive.Store(true)
	for _, hp := range inc.hooks {
		inc.Node.NM.VerifAttach(hp)
	}
	if err := inc.Node.CS.Start(); err != nil {
		inc.alive.Store(false)
		return err
	}
	return nil
}

// Start starts all validators and the restart manager.
func (c *Cluster) Start() error {
	for _, inc := range c.incs {
		if err := c.startInc(inc); err != nil {
			return err
		}
	}
	c.wg.Add(1)
	go c.restartLoop()
	return nil
}

// Cur returns the current incarnation of validator idx.
func (c *Cluster) Cur(idx int) *Inc {
	c.mu.Lock()
	defer c.mu.Unlock()
	return c.incs[idx]
}

func (c *Cluster) restartLoop() {
	defer c.wg.Done()
	for req := range c.restartCh {
		if c.closed.Load() {
			continue
		}
		c.mu.Lock()
		old := c.incs[req.idx]
		c.mu.Unlock()
		inc, err := c.newInc(req.idx, old.Gen+1, req.imageDir)
		if err != nil {
			c.Mon.note("restart newInc failed: %v", err)
			continue
		}
		// carry over what is durable in the crash image
		inc.Wal.inheritDurable(old.Wal)
		c.mu.Lock()
		c.incs[req.idx] = inc
		c.mu.Unlock()
		c.Mon.onRestart(inc)
		// further crash points planned for this validator at the height it is in
		c.armCrashes(inc, c.Mon.LastFinalizedOf(req.idx)+1)
		// Start replays the WAL and may itself reach an armed crash point, which
		// freezes the calling goroutine: never run it on this loop's goroutine
		go func(inc *Inc, dir string) {
			if err := c.startInc(inc); err != nil {
				c.Mon.restartFailed(inc, err)
			} else {
				c.Mon.checkRemembered(inc, dir)
			}
		}(inc, req.imageDir)
	}
}

// Close stops everything that can be stopped and removes scratch dirs.
func (c *Cluster) Close() {
	if c.closed.Swap(true) {
		return
	}
	c.Router.stop()
	close(c.restartCh)
	c.wg.Wait()
	c.mu.Lock()
	incs := append([]*Inc(nil), c.allIncs...)
	c.mu.Unlock()
	clean := true
	for _, inc := range incs {
		crashed := inc.Wal.Crashed()
		inc.alive.Store(false)
		if crashed {
			// frozen incarnation: its engine mutex is held forever; only stop its WAL writers
			if !waitFor(5*time.Second, inc.Wal.CloseAll) {
				clean = false
			}
			continue
		}
		if !waitFor(10*time.Second, func() {
			defer func() { recover() }()
			inc.Node.Close()
		}) {
			c.Mon.note("node close timed out idx=%d gen=%d", inc.Idx, inc.Gen)
			clean = false
		}
		if !waitFor(5*time.Second, inc.Wal.CloseAll) {
			clean = false
		}
	}
	// WAL housekeeping goroutines panic when their directory disappears: only
	// remove the scratch dir when every writer is known to be closed (the
	// driver removes the child's whole TMPDIR after the process exits)
	if clean {
		os.RemoveAll(c.Dir)
	}
}

func waitFor(d time.Duration, f func()) bool {
	done := make(chan struct{})
	go func() { defer close(done); f() }()
	select {
	case <-done:
		return true
	case <-time.After(d):
		return false
	}
}

// bmWrap observes Finalize calls of the consensus engine.
type bmWrap struct {
	module.BlockManager
	inc *Inc
}

// ImportBlock optionally delays the completion callback (plan.ImportCbDelayMs):
// the engine then sees import results of a round after it moved on to later
// rounds - an interleaving that the synchronous fixtures never produce.
func (b *bmWrap) ImportBlock(blk module.BlockData, flags int, cb func(module.BlockCandidate, error)) (module.Canceler, error) {
	c := b.inc.c
	p := c.Opt.Plan
	if p == nil || p.ImportCbDelayMs <= 0 || flags&module.ImportByForce != 0 || c.Router.float() >= p.ImportCbDelayP {
		return b.BlockManager.ImportBlock(blk, flags, cb)
	}
	d := time.Duration(1+c.Router.intn(p.ImportCbDelayMs)) * time.Millisecond
	c.Mon.countImportDelay()
	return b.BlockManager.ImportBlock(blk, flags, func(bc module.BlockCandidate, err error) {
		go func() {
			time.Sleep(d)
			cb(bc, err)
		}()
	})
}

func (b *bmWrap) Finalize(bc module.BlockCandidate) error {
	b.inc.c.Mon.onFinalize(b.inc, bc.Height(), bc.ID())
	return b.BlockManager.Finalize(bc)
}

// smWrap completes the test fixture's service manager: the fixture does not
// implement SendDoubleSignReport (nil embedded interface), which the engine
// calls when it detects conflicting votes. Reports are counted.
type smWrap struct {
	*test.ServiceManager
	inc *Inc

	mu      sync.Mutex
	pending [][]byte // ids of finalized normal transactions whose locators may not be flushed yet
}

// Finalize and ProposeTransition keep the fixture's transaction pool honest: the fixture drops
// pooled transactions by looking them up in the locator bucket, which common/txlocator fills
// asynchronously after Finalize. Before the next proposal is built the ids finalized so far must
// be there, otherwise the same transaction can be proposed (and committed) twice on a loaded
// machine, which no real pool would do. Fixture synchronisation only.
func (s *smWrap) Finalize(tr module.Transition, opt int) error {
	err := s.ServiceManager.Finalize(tr, opt)
	if err == nil && opt&module.FinalizeNormalTransaction != 0 {
		if l := tr.NormalTransactions(); l != nil {
			s.mu.Lock()
			for it := l.Iterator(); it.Has(); _ = it.Next() {
				if tx, _, e := it.Get(); e == nil {
					s.pending = append(s.pending, tx.ID())
				}
			}
			s.mu.Unlock()
		}
	}
	return err
}

func (s *smWrap) ProposeTransition(parent module.Transition, bi module.BlockInfo, csi module.ConsensusInfo) (module.Transition, error) {
	s.mu.Lock()
	ids := s.pending
	s.pending = nil
	s.mu.Unlock()
	if len(ids) > 0 {
		if bk, err := s.inc.c.DBs[s.inc.Idx].GetBucket(db.TransactionLocatorByHash); err == nil {
			for _, id := range ids {
				for i := 0; i < 5000; i++ {
					if bs, err := bk.Get(id); err == nil && bs != nil {
						break
					}
					time.Sleep(time.Millisecond)
				}
			}
		}
	}
	return s.ServiceManager.ProposeTransition(parent, bi, csi)
}

func (s *smWrap) SendDoubleSignReport(result []byte, vh []byte, data []module.DoubleSignData) error {
	s.inc.c.Mon.onDoubleSignReport(s.inc, data)
	return nil
}
