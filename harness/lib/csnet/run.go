package csnet

import (
	"time"
)

// armCrashes arms the crash points planned for validator inc at height h.
// It may run on the engine goroutine (from Finalize).
func (c *Cluster) armCrashes(inc *Inc, h int64) {
	p := c.Opt.Plan
	if p == nil {
		return
	}
	c.mu.Lock()
	defer c.mu.Unlock()
	if c.incs[inc.Idx] != inc {
		return
	}
	for i := range p.Crashes {
		cs := &p.Crashes[i]
		if cs.armed || cs.OnSend != "" || cs.Victim != inc.Idx || cs.AtHeight != h {
			continue
		}
		cs.armed = true
		cp := cs.Point
		inc.Wal.Arm(&cp)
		return
	}
}

// Result of a run.
type Result struct {
	*Summary
	Capped    bool
	StartErr  error
	TErrors   []string
	Router    RouterStats
	WallMs    int64
	LockAttackUnfolded, LockAttackAborted bool
}

type RouterStats struct {
	Sent, Delivered, Dropped, Delayed, Duplicated, QueueFull int64
}

// Run executes one scenario: start the cluster, let it run until every live
// correct validator finalized plan.Target (or the wall-clock cap, a watchdog
// whose firing only marks the run as capped), then stop and summarize.
func Run(opt Options, capDur time.Duration) *Result {
	start := time.Now()
	c, err := NewCluster(opt)
	if err != nil {
		return &Result{StartErr: err, Summary: &Summary{}}
	}
	defer c.Close()
	// crashes planned for height 1 are armed before start
	for i := 0; i < c.N; i++ {
		c.armCrashes(c.incs[i], 1)
	}
	if err := c.Start(); err != nil {
		return &Result{StartErr: err, Summary: c.Mon.Summary()}
	}
	target := int64(4)
	if opt.Plan != nil && opt.Plan.Target > 0 {
		target = opt.Plan.Target
	}
	capped := true
	deadline := time.Now().Add(capDur)
	for time.Now().Before(deadline) {
		time.Sleep(20 * time.Millisecond)
		done := true
		for i := 0; i < c.N; i++ {
			if c.Mon.isByz(i) {
				continue
			}
			if c.Mon.LastFinalizedOf(i) < target {
				done = false
				break
			}
		}
		if done {
			capped = false
			break
		}
		c.Mon.mu.Lock()
		nv := len(c.Mon.violations)
		c.Mon.mu.Unlock()
		if nv > 0 {
			capped = false
			break
		}
	}
	c.Router.stop()
	res := &Result{Summary: c.Mon.Summary(), Capped: capped, TErrors: c.T.Errors()}
	r := c.Router
	r.mu.Lock()
	res.Router = RouterStats{r.Sent, r.Delivered, r.Dropped, r.Delayed, r.Duplicated, r.QueueFull}
	r.mu.Unlock()
	_, res.LockAttackUnfolded, res.LockAttackAborted = c.Router.byz.LockAttackState()
	res.WallMs = time.Since(start).Milliseconds()
	return res
}
