package csnet

import (
	"fmt"
	"math/rand"
	"sync"
	"time"

	"github.com/icon-project/goloop/consensus"
	"github.com/icon-project/goloop/module"
	"github.com/icon-project/goloop/test"
)

// Plan is the seed-determined fault plan of one run.
type Plan struct {
	DropP      float64 `json:"drop_p"`
	DupP       float64 `json:"dup_p"`
	DelayP     float64 `json:"delay_p"`
	MaxDelayMs int     `json:"max_delay_ms"`
	// faults are applied while the highest finalized height is below FaultUntil
	FaultUntil int64 `json:"fault_until"`
	// Partitions: while height (of the sender's message, or the highest
	// finalized height + 1 when unknown) is in [From,To], nodes in Group are cut
	// off from the others (both directions)
	Partitions []Partition `json:"partitions,omitempty"`
	// Byzantine strategy for the validators listed in Options.Byz
	Strategy string `json:"strategy,omitempty"`
	// AttackHeight is the height the scripted strategies aim at
	AttackHeight int64 `json:"attack_height,omitempty"`
	// Crashes of correct validators
	Crashes []CrashSpec `json:"crashes,omitempty"`
	// ImportCbDelayMs/P: completion callbacks of block imports requested by the engines are
	// delayed by up to this many milliseconds with this probability
	ImportCbDelayMs int     `json:"import_cb_delay_ms,omitempty"`
	ImportCbDelayP  float64 `json:"import_cb_delay_p,omitempty"`
	// DropRound0At: at these heights every round-0 proposal and block part is
	// dropped, so that the height needs at least one more round
	DropRound0At []int64 `json:"drop_round0_at,omitempty"`
	// Target height: the run stops when every live correct validator finalized it
	Target int64 `json:"target"`
}

// Partition isolates a group of validators for a range of heights.
type Partition struct {
	From  int64 `json:"from"`
	To    int64 `json:"to"`
	Group []int `json:"group"`
}

// CrashSpec arms a crash point on a validator when it reaches a height.
type CrashSpec struct {
	Victim   int        `json:"victim"`
	AtHeight int64      `json:"at_height"` // armed when the victim finalized AtHeight-1
	Point    CrashPoint `json:"point"`
	// OnSend (optional): instead of arming when the height is reached, arm at the
	// moment the victim hands an own vote of this kind to the network at AtHeight
	// ("prevote" / "precommit" / "proposal"), in a round >= MinRound; the validator
	// then dies at its next WAL operation.
	OnSend   string `json:"on_send,omitempty"`
	MinRound int32  `json:"min_round,omitempty"`
	armed    bool
}

// Router owns delivery of every packet.
type Router struct {
	c    *Cluster
	plan *Plan

	mu      sync.Mutex
	rnd     *rand.Rand
	stopped bool
	timers  map[*time.Timer]struct{}
	byz     *byzState

	// statistics
	Sent, Delivered, Dropped, Delayed, Duplicated, QueueFull int64
}

func newRouter(c *Cluster, plan *Plan, rnd *rand.Rand) *Router {
	if plan == nil {
		plan = &Plan{}
	}
	r := &Router{c: c, plan: plan, rnd: rnd, timers: map[*time.Timer]struct{}{}}
	r.byz = newByzState(r)
	return r
}

func (r *Router) stop() {
	r.mu.Lock()
	r.stopped = true
	for t := range r.timers {
		t.Stop()
	}
	r.timers = nil
	r.mu.Unlock()
}

func (r *Router) float() float64 {
	r.mu.Lock()
	defer r.mu.Unlock()
	return r.rnd.Float64()
}

func (r *Router) intn(n int) int {
	if n <= 0 {
		return 0
	}
	r.mu.Lock()
	defer r.mu.Unlock()
	return r.rnd.Intn(n)
}

// tearChoice picks how many bytes of an unsynced tail survive a crash.
func (r *Router) tearChoice(unsynced int64, cp *CrashPoint) int64 {
	if unsynced <= 0 {
		return 0
	}
	if cp.TearBytes >= 0 {
		if int64(cp.TearBytes) > unsynced {
			return unsynced
		}
		return int64(cp.TearBytes)
	}
	k := int64(cp.TearFrac * float64(unsynced))
	if k > unsynced {
		k = unsynced
	}
	return k
}

func (r *Router) faultsActive() bool {
	return r.c.Mon.MaxFinalized() < r.plan.FaultUntil
}

func (r *Router) partitioned(a, b int, h int64) bool {
	for _, p := range r.plan.Partitions {
		if h < p.From || h > p.To {
			continue
		}
		ina, inb := false, false
		for _, g := range p.Group {
			if g == a {
				ina = true
			}
			if g == b {
				inb = true
			}
		}
		if ina != inb {
			return true
		}
	}
	return false
}

// Trace prints one line per routed packet to stdout (development aid).
var Trace bool

func (r *Router) trace(what string, from, to int, pm *parsed) {
	if !Trace || pm == nil || pm.Kind == "roundstate" || pm.Kind == "blockpart" {
		return
	}
	d := ""
	if pm.Vote != nil {
		d = fmt.Sprintf("type=%d bid=%s", pm.Vote.Type, short(pm.Vote.BlockID))
	}
	if pm.Kind == "votelist" {
		for _, v := range pm.Votes {
			d += fmt.Sprintf("[s? h%d r%d t%d %s]", v.Height, v.Round, v.Type, short(v.BlockID))
		}
	}
	r.byz.mu.Lock()
	ph := r.byz.la.phase
	r.byz.mu.Unlock()
	fmt.Printf("%-7s %d->%d %-9s h=%d r=%d %s phase=%d\n", what, from, to, pm.Kind, pm.Height, pm.Round, d, ph)
}

// onSend is called synchronously on the sender's goroutine for every
// (packet, destination) pair.
func (r *Router) onSend(from *Inc, to int, pk *test.Packet) {
	c := r.c
	if c.closed.Load() || !from.Alive() {
		return
	}
	seq := c.NextSeq()
	r.mu.Lock()
	r.Sent++
	r.mu.Unlock()
	var pm *parsed
	if pk.MPI == module.ProtoConsensus || pk.MPI == module.ProtoConsensusSync {
		pm = parsePacket(pk)
		c.Mon.onWire(from, to, pk, pm, seq, false)
		r.byz.observe(from, pm)
		r.byz.laObserve(from, pm)
		r.byz.spObserve(from, pm)
		if r.byz.spFilter(from, to, pk, pm) {
			r.trace("FILTER", from.Idx, to, pm)
			r.count(&r.Dropped)
			return
		}
		if r.byz.filter(from, to, pk, pm) {
			r.trace("FILTER", from.Idx, to, pm)
			r.count(&r.Dropped)
			return
		}
	}
	if pm != nil && !c.Mon.isByz(from.Idx) {
		r.armOnSend(from, pm)
		if (pm.Kind == "proposal" || pm.Kind == "blockpart") && pm.Round == 0 {
			for _, h := range r.plan.DropRound0At {
				if h == pm.Height {
					r.count(&r.Dropped)
					return
				}
			}
		}
	}
	if c.Mon.isByz(from.Idx) && pm != nil {
		if r.byz.handle(from, to, pk, pm, seq) {
			return
		}
	}
	r.trace("send", from.Idx, to, pm)
	r.route(from.Idx, to, pk, pm)
}

// armOnSend arms crash specs that are triggered by the victim's own send.
func (r *Router) armOnSend(from *Inc, pm *parsed) {
	kind := ""
	switch {
	case pm.Kind == "proposal":
		kind = "proposal"
	case pm.Vote != nil && pm.Vote.Type == consensus.VoteTypePrevote:
		kind = "prevote"
	case pm.Vote != nil && pm.Vote.Type == consensus.VoteTypePrecommit:
		kind = "precommit"
	default:
		return
	}
	c := r.c
	c.mu.Lock()
	defer c.mu.Unlock()
	if c.incs[from.Idx] != from {
		return
	}
	for i := range r.plan.Crashes {
		cs := &r.plan.Crashes[i]
		if cs.armed || cs.OnSend != kind || cs.Victim != from.Idx || cs.AtHeight != pm.Height || pm.Round < cs.MinRound {
			continue
		}
		cs.armed = true
		cp := cs.Point
		from.Wal.Arm(&cp)
		return
	}
}

// route applies the fault plan to one (packet, destination).
func (r *Router) route(from, to int, pk *test.Packet, pm *parsed) {
	h := r.c.Mon.MaxFinalized() + 1
	if pm != nil && pm.Height > 0 {
		h = pm.Height
	}
	if r.partitioned(from, to, h) {
		r.count(&r.Dropped)
		return
	}
	if !r.faultsActive() {
		r.deliver(to, pk, 0)
		return
	}
	p := r.plan
	if p.DropP > 0 && r.float() < p.DropP {
		r.count(&r.Dropped)
		return
	}
	delay := 0
	if p.DelayP > 0 && r.float() < p.DelayP {
		delay = 1 + r.intn(p.MaxDelayMs)
		r.count(&r.Delayed)
	}
	r.deliver(to, pk, delay)
	if p.DupP > 0 && r.float() < p.DupP {
		r.count(&r.Duplicated)
		r.deliver(to, pk, 1+r.intn(p.MaxDelayMs+1))
	}
}

func (r *Router) count(p *int64) {
	r.mu.Lock()
	*p++
	r.mu.Unlock()
}

func (r *Router) deliver(to int, pk *test.Packet, delayMs int) {
	cp := *pk
	if delayMs <= 0 {
		r.inject(to, &cp)
		return
	}
	r.mu.Lock()
	if r.stopped {
		r.mu.Unlock()
		return
	}
	var t *time.Timer
	t = time.AfterFunc(time.Duration(delayMs)*time.Millisecond, func() {
		r.mu.Lock()
		if r.timers != nil {
			delete(r.timers, t)
		}
		stopped := r.stopped
		r.mu.Unlock()
		if !stopped {
			r.inject(to, &cp)
		}
	})
	r.timers[t] = struct{}{}
	r.mu.Unlock()
}

func (r *Router) inject(to int, pk *test.Packet) {
	if r.c.closed.Load() {
		return
	}
	dst := r.c.Cur(to)
	if dst == nil || !dst.Alive() {
		r.count(&r.Dropped)
		return
	}
	if dst.Node.NM.VerifTryInject(pk) {
		r.count(&r.Delivered)
	} else {
		r.count(&r.QueueFull)
	}
}

// sendForged sends a packet built by the Byzantine strategy as if validator
// `from` had sent it.
func (r *Router) sendForged(from *Inc, to int, pi module.ProtocolInfo, data []byte, delayMs int) {
	pk := &test.Packet{
		SendType: test.SendTypeUnicast,
		Src:      r.c.PeerIDs[from.Idx],
		DstSpec:  r.c.PeerIDs[to],
		MPI:      module.ProtoConsensus,
		PI:       pi,
		Data:     data,
	}
	seq := r.c.NextSeq()
	pm := parsePacket(pk)
	r.c.Mon.onWire(from, to, pk, pm, seq, true)
	r.trace("FORGED", from.Idx, to, pm)
	r.deliver(to, pk, delayMs)
}

// sendForgedPI is sendForged with a raw sub-protocol number.
func (r *Router) sendForgedPI(from *Inc, to int, pi uint16, data []byte) {
	r.sendForged(from, to, module.ProtocolInfo(pi), data, 0)
}

// parsed is a decoded consensus packet.
type parsed struct {
	Kind     string // proposal | blockpart | vote | votelist | roundstate | other
	Height   int64
	Round    int32
	Vote     *consensus.VoteMessage
	Votes    []*consensus.VoteMessage
	Proposal *consensus.ProposalMessage
	Part     *consensus.BlockPartMessage
}

func parsePacket(pk *test.Packet) *parsed {
	msg, err := consensus.UnmarshalMessage(pk.PI.Uint16(), pk.Data)
	if err != nil {
		return &parsed{Kind: "other"}
	}
	switch m := msg.(type) {
	case *consensus.ProposalMessage:
		return &parsed{Kind: "proposal", Height: m.Height, Round: m.Round, Proposal: m}
	case *consensus.BlockPartMessage:
		return &parsed{Kind: "blockpart", Height: m.Height, Round: m.Nonce, Part: m}
	case *consensus.VoteMessage:
		return &parsed{Kind: "vote", Height: m.Height, Round: m.Round, Vote: m}
	case *consensus.VoteListMessage:
		p := &parsed{Kind: "votelist"}
		if m.VoteList != nil {
			for i := 0; i < m.VoteList.Len(); i++ {
				v := m.VoteList.Get(i)
				p.Votes = append(p.Votes, v)
				if v.Height > p.Height {
					p.Height = v.Height
				}
			}
		}
		return p
	case *consensus.RoundStateMessage:
		return &parsed{Kind: "roundstate", Height: m.Height, Round: m.Round}
	}
	return &parsed{Kind: "other"}
}
