package csnet

import (
	"fmt"

	"github.com/icon-project/goloop/common/codec"
	"github.com/icon-project/goloop/consensus"
	"github.com/icon-project/goloop/test"
)

// stalePolka is a scripted attack on the unlock rule ("a lock is released
// only by a polka of a LATER round"), n=4, one Byzantine validator Z:
//
//	round 0: P proposes A; every correct validator prevotes A but each sees only
//	         one other A-prevote plus Z's nil prevote, so nobody sees the polka;
//	         all precommit nil.
//	round 1: X proposes B; polka for B, X/P/Q lock B and precommit B; only X gets
//	         all precommits and finalizes B; P and Q time out into round 2.
//	round 2: the withheld round-0 prevotes reach P and Q (a polka of an OLDER
//	         round than their lock); Z re-proposes A with POLRound 0 and prevotes /
//	         precommits A. Correct validators stay locked on B; a validator that
//	         unlocks on the stale polka helps A to a quorum and finalizes A.
type stalePolka struct {
	active     bool
	h          int64
	p, x, z, q int
	phase      int // 1: rounds 0-1, 3: round 2 attack, 4: healed/aborted
	aborted    bool
	unfolded   bool

	propA     *test.Packet   // P's round-0 proposal
	partsA    []*test.Packet // its block parts
	decA      *decision
	nidA      uint32
	withheld  map[int][]*test.Packet // node -> round-0 prevotes kept back from it
	r0votes   map[int]*test.Packet   // signer -> its round-0 prevote for A
	forged    map[string]bool
	delivered map[int]bool
}

// StalePolkaByz returns the validator that must be Byzantine for a stale
// polka attack at height h with 4 validators.
func StalePolkaByz(h int64) int { return int((h + 2) % 4) }

func (b *byzState) initStalePolka() {
	p := b.r.plan
	if p.Strategy != "stale-polka" || b.r.c.N != 4 {
		return
	}
	h := p.AttackHeight
	b.sp = stalePolka{active: true, h: h, p: int(h % 4), x: int((h + 1) % 4), z: int((h + 2) % 4), q: int((h + 3) % 4),
		phase: 1, withheld: map[int][]*test.Packet{}, r0votes: map[int]*test.Packet{}, forged: map[string]bool{}, delivered: map[int]bool{}}
}

// spFilter decides about every (packet, destination) of every sender while
// the attack is active. It returns true when the packet must not be
// delivered by the normal route.
func (b *byzState) spFilter(from *Inc, to int, pk *test.Packet, pm *parsed) bool {
	sp := &b.sp
	if !sp.active || pm == nil {
		return false
	}
	b.mu.Lock()
	defer b.mu.Unlock()
	if sp.phase == 4 {
		return false
	}
	h := pm.Height
	if sp.phase == 3 && h >= sp.h && (from.Idx == sp.x || to == sp.x) {
		return true // the validator that finalized B is cut off
	}
	if h != sp.h {
		if from.Idx == sp.z && h > sp.h {
			return true
		}
		return false
	}
	if pm.Kind == "votelist" {
		return true // gossip would complete the withheld polka early
	}
	if from.Idx == sp.z {
		return true // only forged messages of Z flow at the attack height
	}
	if to == sp.z {
		return false
	}
	switch pm.Kind {
	case "proposal":
		if pm.Round == 0 && from.Idx == sp.p && sp.propA == nil {
			cp := *pk
			sp.propA = &cp
			sp.nidA = pm.Proposal.NID
		}
	case "blockpart":
		if from.Idx == sp.p && pm.Round == 0 && to == sp.x {
			cp := *pk
			sp.partsA = append(sp.partsA, &cp)
		}
	case "vote":
		v := pm.Vote
		if v.Round >= 3 {
			sp.phase = 4 // attack window over
			return false
		}
		if sp.phase == 1 && v.Round >= 2 && !sp.unfolded {
			// round 1 did not commit at X (timing): give up
			sp.phase = 4
			sp.aborted = true
			return false
		}
		if v.Type == consensus.VoteTypePrevote && v.Round == 0 {
			if v.BlockPartSetIDAndNTSVoteCount == nil {
				// somebody prevoted nil in round 0 (proposal late): the script does not apply
				sp.phase = 4
				sp.aborted = true
				return false
			}
			if sp.decA == nil {
				sp.decA = &decision{v.BlockID, v.BlockPartSetIDAndNTSVoteCount}
			}
			if sp.r0votes[from.Idx] == nil {
				cp := *pk
				sp.r0votes[from.Idx] = &cp
			}
			// each correct validator sees exactly one other A-prevote: p->x, q->p, x->q
			allowed := (from.Idx == sp.p && to == sp.x) || (from.Idx == sp.q && to == sp.p) || (from.Idx == sp.x && to == sp.q)
			if !allowed {
				cp := *pk
				sp.withheld[to] = append(sp.withheld[to], &cp)
				return true
			}
		}
		if v.Type == consensus.VoteTypePrecommit && v.Round == 1 && from.Idx == sp.x {
			return true // x's precommit for B reaches nobody but x itself
		}
	}
	return false
}

// spObserve forges Z's messages in reaction to what the correct validators send.
func (b *byzState) spObserve(from *Inc, pm *parsed) {
	sp := &b.sp
	if !sp.active || pm == nil || pm.Height != sp.h || from.Idx == sp.z {
		return
	}
	type send struct {
		to   []int
		pi   uint16
		data []byte
	}
	var out []send
	b.mu.Lock()
	if sp.phase == 4 {
		b.mu.Unlock()
		return
	}
	w := b.r.c.Wallets[sp.z]
	once := func(k string) bool {
		if sp.forged[k] {
			return false
		}
		sp.forged[k] = true
		return true
	}
	switch pm.Kind {
	case "vote":
		v := pm.Vote
		switch {
		case v.Round == 0 && v.Type == consensus.VoteTypePrevote && once("pv0"):
			out = append(out, send{[]int{sp.p, sp.x, sp.q}, uint16(consensus.ProtoVote), b.forgeVote(w, sp.h, 0, consensus.VoteTypePrevote, nil, v.Timestamp)})
		case v.Round == 0 && v.Type == consensus.VoteTypePrecommit && once("pc0"):
			out = append(out, send{[]int{sp.p, sp.x, sp.q}, uint16(consensus.ProtoVote), b.forgeVote(w, sp.h, 0, consensus.VoteTypePrecommit, nil, v.Timestamp)})
		case v.Round == 1 && v.Type == consensus.VoteTypePrecommit && once("pc1"):
			out = append(out, send{[]int{sp.p, sp.q}, uint16(consensus.ProtoVote), b.forgeVote(w, sp.h, 1, consensus.VoteTypePrecommit, nil, v.Timestamp)})
		case sp.phase == 3 && v.Round == 2 && v.Type == consensus.VoteTypePrecommit && once("pc2"):
			var d *decision
			if v.BlockPartSetIDAndNTSVoteCount != nil {
				d = &decision{v.BlockID, v.BlockPartSetIDAndNTSVoteCount}
			}
			out = append(out, send{[]int{sp.p, sp.q}, uint16(consensus.ProtoVote), b.forgeVote(w, sp.h, 2, consensus.VoteTypePrecommit, d, v.Timestamp)})
		}
	case "roundstate":
		// a locked validator announces round 2: time for the stale polka and Z's re-proposal of A
		if sp.phase == 3 && pm.Round == 2 && (from.Idx == sp.p || from.Idx == sp.q) && !sp.delivered[from.Idx] && sp.propA != nil && sp.decA != nil {
			sp.delivered[from.Idx] = true
			to := from.Idx
			// the vote sets of rounds below the lock round were discarded when the
			// validator entered round 2: the whole round-0 polka arrives now
			for _, signer := range []int{sp.x, sp.p, sp.q} {
				if pk := sp.r0votes[signer]; pk != nil {
					out = append(out, send{[]int{to}, pk.PI.Uint16(), pk.Data})
				}
			}
			orig, err := consensus.UnmarshalMessage(sp.propA.PI.Uint16(), sp.propA.Data)
			if err == nil {
				op := orig.(*consensus.ProposalMessage)
				msg := consensus.NewProposalMessage()
				msg.Height = sp.h
				msg.Round = 2
				msg.BlockPartSetID = op.BlockPartSetID
				msg.POLRound = 0
				msg.NID = op.NID
				if msg.Sign(w) == nil {
					out = append(out, send{[]int{to}, uint16(consensus.ProtoProposal), codec.BC.MustMarshalToBytes(msg)})
				}
			}
			for _, pk := range sp.partsA {
				out = append(out, send{[]int{to}, pk.PI.Uint16(), pk.Data})
			}
			out = append(out, send{[]int{to}, uint16(consensus.ProtoVote), b.forgeVote(w, sp.h, 2, consensus.VoteTypePrevote, sp.decA, 0)})
			sp.unfolded = true
		}
	}
	zInc := b.r.c.Cur(sp.z)
	b.mu.Unlock()
	for _, s := range out {
		if s.data == nil {
			continue
		}
		for _, t := range s.to {
			b.r.sendForgedPI(zInc, t, s.pi, s.data)
		}
	}
}

func (b *byzState) spOnFinalized(node int, h int64) {
	sp := &b.sp
	if !sp.active {
		return
	}
	b.mu.Lock()
	defer b.mu.Unlock()
	if h != sp.h {
		return
	}
	if node == sp.x && sp.phase == 1 {
		sp.phase = 3
	} else if (node == sp.p || node == sp.q) && sp.phase != 4 {
		sp.phase = 4
	}
}

func (sp *stalePolka) String() string {
	return fmt.Sprintf("stale-polka h=%d p=%d x=%d z=%d q=%d phase=%d", sp.h, sp.p, sp.x, sp.z, sp.q, sp.phase)
}
