package csnet

import (
	"bytes"
	"fmt"
	"sync"

	"github.com/icon-project/goloop/common/codec"
	"github.com/icon-project/goloop/consensus"
	"github.com/icon-project/goloop/module"
	"github.com/icon-project/goloop/test"
)

// decision is what a vote votes for.
type decision struct {
	bid  []byte
	psid *consensus.PartSetIDAndAppData
}

type slot struct {
	h   int64
	r   int32
	typ consensus.VoteType
}

type split struct {
	orig map[int]bool // destinations that get the original vote
	alt  []byte       // encoded conflicting vote (nil: none could be built yet)
}

// byzState implements the Byzantine strategies. A Byzantine validator is a
// real node; its outbound traffic is rewritten / forged with its own key.
type byzState struct {
	r  *Router
	mu sync.Mutex

	// block decisions seen on the wire per height (from any sender)
	seen map[int64][]decision
	// vote-equiv: per byz validator and slot
	splits map[string]*split
	// prop-equiv
	propSplit map[string]map[int]bool // (b,h,r) -> destinations of the original proposal
	propBusy  map[string]bool

	// lock-attack
	la lockAttack
	// stale-polka
	sp stalePolka
}

type lockAttack struct {
	active  bool
	h       int64
	a, c, d int // locked victim, early committer, next proposer
	b       int
	phase   int // 0: not started, 1: isolate d, 2: isolate c and forge, 3: healed
	forged  map[string]bool
	maxRoundSeen int32
	aborted      bool
	crashLocked  bool // crash the locked validator right after it broadcast its round-0 block precommit
	crashArmed   bool
	unfolded     bool // b's forged prevote for the second block was sent to the locked validator
}

func newByzState(r *Router) *byzState {
	b := &byzState{r: r, seen: map[int64][]decision{}, splits: map[string]*split{}, propSplit: map[string]map[int]bool{}, propBusy: map[string]bool{}}
	p := r.plan
	if (p.Strategy == "lock-attack" || p.Strategy == "lock-attack-crash") && r.c.N == 4 && len(r.c.Opt.Byz) == 1 {
		h := p.AttackHeight
		la := &b.la
		la.active = true
		la.h = h
		la.a = int(h % 4)
		la.d = int((h + 1) % 4)
		la.b = int((h + 2) % 4)
		la.c = int((h + 3) % 4)
		la.forged = map[string]bool{}
		la.phase = 1
		la.crashLocked = p.Strategy == "lock-attack-crash"
	}
	b.initStalePolka()
	return b
}

// LockAttackByz returns the validator index that must be Byzantine for a
// lock attack at height h with 4 validators.
func LockAttackByz(h int64) int { return int((h + 2) % 4) }

func (b *byzState) correctDests(from int) []int {
	var out []int
	for i := 0; i < b.r.c.N; i++ {
		if i != from && !b.r.c.Mon.isByz(i) {
			out = append(out, i)
		}
	}
	return out
}

// observe sees every consensus packet of every sender.
func (b *byzState) observe(from *Inc, pm *parsed) {
	if pm == nil {
		return
	}
	var vs []*consensus.VoteMessage
	if pm.Vote != nil {
		vs = append(vs, pm.Vote)
	}
	vs = append(vs, pm.Votes...)
	b.mu.Lock()
	defer b.mu.Unlock()
	for _, v := range vs {
		if v.BlockPartSetIDAndNTSVoteCount == nil {
			continue
		}
		known := false
		for _, d := range b.seen[v.Height] {
			if bytes.Equal(d.bid, v.BlockID) {
				known = true
			}
		}
		if !known {
			b.seen[v.Height] = append(b.seen[v.Height], decision{v.BlockID, v.BlockPartSetIDAndNTSVoteCount})
		}
	}
}

func (b *byzState) forgeVote(w module.Wallet, h int64, r int32, typ consensus.VoteType, d *decision, ts int64) []byte {
	nv := consensus.VerifNewVoteMessage()
	nv.Height = h
	nv.Round = r
	nv.Type = typ
	if d != nil {
		// same app data as honest block votes; precommits here carry no NTS votes
		nv.SetRoundDecision(d.bid, d.psid, nil)
	} else {
		nv.SetRoundDecision(codec.MustMarshalToBytes(b.r.c.Cur(0).Node.Chain.NID()), nil, nil)
	}
	nv.Timestamp = ts
	if err := nv.Sign(w); err != nil {
		return nil
	}
	return codec.BC.MustMarshalToBytes(nv)
}

// filter implements scripted strategies that act on every sender's traffic.
// It returns true when the packet must be dropped.
func (b *byzState) filter(from *Inc, to int, pk *test.Packet, pm *parsed) bool {
	la := &b.la
	if !la.active || pm == nil {
		return false
	}
	b.mu.Lock()
	defer b.mu.Unlock()
	if la.phase == 3 || la.phase == 0 {
		return false
	}
	h := pm.Height
	if h != la.h && !(pm.Kind == "votelist" || pm.Kind == "roundstate") {
		if la.phase == 2 && (from.Idx == la.c || to == la.c || from.Idx == la.b) && h >= la.h {
			return true
		}
		return false
	}
	switch la.phase {
	case 1:
		if h != la.h {
			return false
		}
		// isolate d (inbound)
		if to == la.d {
			return true
		}
		// vote lists would reveal b's equivocation or let a node that is
		// ahead (b's honest engine, the early committer) push its commit
		if pm.Kind == "votelist" {
			return true
		}
	case 2:
		if h < la.h {
			return false
		}
		if from.Idx == la.c || to == la.c {
			return true
		}
		if from.Idx == la.b {
			return true // only forged messages of b flow now
		}
	}
	return false
}

// onFinalized advances scripted strategies (called by the monitor, any goroutine).
func (b *byzState) onFinalized(node int, h int64) {
	b.spOnFinalized(node, h)
	la := &b.la
	if !la.active {
		return
	}
	b.mu.Lock()
	defer b.mu.Unlock()
	if h == la.h && node == la.c && la.phase == 1 {
		la.phase = 2
	}
	if h == la.h && (node == la.a || node == la.d) && la.phase == 2 {
		la.phase = 3
	}
}

// laObserve lets the lock attack forge b's votes following d's votes in rounds >= 1.
func (b *byzState) laObserve(from *Inc, pm *parsed) {
	la := &b.la
	if !la.active || pm == nil {
		return
	}
	if pm.Kind == "roundstate" {
		// after the locked validator restarted (or the isolated one was let back in) they sit
		// in round 0 with too few precommits to time out: b's nil precommit is sent again
		b.mu.Lock()
		resend := la.crashLocked && la.phase == 2 && pm.Height == la.h && pm.Round == 0 && (from.Idx == la.a || from.Idx == la.d)
		bInc := b.r.c.Cur(la.b)
		b.mu.Unlock()
		if resend {
			if data := b.forgeVote(b.r.c.Wallets[la.b], la.h, 0, consensus.VoteTypePrecommit, nil, 0); data != nil {
				b.r.sendForged(bInc, from.Idx, consensus.ProtoVote, data, 0)
			}
		}
		return
	}
	if pm.Vote == nil {
		return
	}
	v := pm.Vote
	b.mu.Lock()
	if la.crashLocked && !la.crashArmed && la.phase == 1 && from.Idx == la.a && v.Height == la.h && v.Round == 0 &&
		v.Type == consensus.VoteTypePrecommit && v.BlockPartSetIDAndNTSVoteCount != nil {
		// the precommit is on its way to the others; the validator dies at its next WAL operation
		// and every byte that was not yet covered by a Sync is lost
		la.crashArmed = true
		from.Wal.Arm(&CrashPoint{OpIndex: 0, Mode: "before", TearBytes: 0})
	}
	if la.phase == 1 && v.Height == la.h && v.Round >= 1 {
		// round 0 did not commit (timing): the script does not apply, give up
		la.phase = 3
		la.aborted = true
	}
	if la.phase != 2 || v.Height != la.h {
		b.mu.Unlock()
		return
	}
	if v.Round > la.maxRoundSeen {
		la.maxRoundSeen = v.Round
	}
	if la.maxRoundSeen >= 2 {
		// attack window over: heal the network
		la.phase = 3
		b.mu.Unlock()
		return
	}
	if from.Idx != la.d || v.Round < 1 {
		b.mu.Unlock()
		return
	}
	key := fmt.Sprintf("%d/%d", v.Round, v.Type)
	if la.forged[key] {
		b.mu.Unlock()
		return
	}
	la.forged[key] = true
	var d *decision
	if v.BlockPartSetIDAndNTSVoteCount != nil {
		d = &decision{v.BlockID, v.BlockPartSetIDAndNTSVoteCount}
		if v.Type == consensus.VoteTypePrevote {
			la.unfolded = true
		}
	}
	bInc := b.r.c.Cur(la.b)
	data := b.forgeVote(b.r.c.Wallets[la.b], v.Height, v.Round, v.Type, d, v.Timestamp)
	targets := []int{la.a, la.d}
	b.mu.Unlock()
	if data == nil {
		return
	}
	for _, t := range targets {
		b.r.sendForged(bInc, t, consensus.ProtoVote, data, 0)
	}
}

// handle lets the Byzantine strategy take over delivery of one packet of a
// Byzantine validator; it returns false to fall through to normal routing.
func (b *byzState) handle(from *Inc, to int, pk *test.Packet, pm *parsed, seq int64) bool {
	switch b.r.plan.Strategy {
	case "vote-equiv":
		return b.voteEquiv(from, to, pk, pm)
	case "prop-equiv":
		if b.propEquiv(from, to, pk, pm) {
			return true
		}
		return b.voteEquiv(from, to, pk, pm)
	case "lock-attack", "lock-attack-crash":
		return b.lockAttackSend(from, to, pk, pm)
	}
	return false
}

func (b *byzState) lockAttackSend(from *Inc, to int, pk *test.Packet, pm *parsed) bool {
	la := &b.la
	if !la.active || pm.Vote == nil {
		return false
	}
	v := pm.Vote
	b.mu.Lock()
	if la.phase != 1 || v.Height != la.h || v.Type != consensus.VoteTypePrecommit || v.BlockPartSetIDAndNTSVoteCount == nil {
		b.mu.Unlock()
		return false
	}
	// b's block precommit goes to the early committer only; everybody else gets a nil precommit
	if to == la.c {
		b.mu.Unlock()
		return false
	}
	key := fmt.Sprintf("p1/%d/%d", v.Round, to)
	done := la.forged[key]
	la.forged[key] = true
	b.mu.Unlock()
	if !done {
		data := b.forgeVote(b.r.c.Wallets[from.Idx], v.Height, v.Round, v.Type, nil, v.Timestamp)
		if data != nil {
			b.r.sendForged(from, to, consensus.ProtoVote, data, 0)
		}
	}
	return true
}

// voteEquiv: for every vote the Byzantine validator emits, also sign the
// conflicting vote and give each version to a different subset.
func (b *byzState) voteEquiv(from *Inc, to int, pk *test.Packet, pm *parsed) bool {
	if pm.Vote == nil {
		return false
	}
	v := pm.Vote
	key := fmt.Sprintf("%d/%d/%d/%d", from.Idx, v.Height, v.Round, v.Type)
	b.mu.Lock()
	sp := b.splits[key]
	if sp == nil {
		sp = &split{orig: map[int]bool{}}
		dests := b.correctDests(from.Idx)
		// random non-empty proper subset gets the original
		for {
			cnt := 0
			for _, d := range dests {
				if b.r.intn(2) == 0 {
					sp.orig[d] = true
					cnt++
				} else {
					delete(sp.orig, d)
				}
			}
			if (cnt > 0 && cnt < len(dests)) || len(dests) < 2 {
				break
			}
		}
		var alt *decision
		isBlock := v.BlockPartSetIDAndNTSVoteCount != nil
		if isBlock {
			// conflicting: another block seen at this height, else nil
			for _, d := range b.seen[v.Height] {
				if !bytes.Equal(d.bid, v.BlockID) {
					dd := d
					alt = &dd
				}
			}
			sp.alt = b.forgeVote(b.r.c.Wallets[from.Idx], v.Height, v.Round, v.Type, alt, v.Timestamp)
		} else if ds := b.seen[v.Height]; len(ds) > 0 {
			dd := ds[len(ds)-1]
			sp.alt = b.forgeVote(b.r.c.Wallets[from.Idx], v.Height, v.Round, v.Type, &dd, v.Timestamp)
		}
		b.splits[key] = sp
	}
	alt := sp.alt
	orig := sp.orig[to]
	b.mu.Unlock()
	if orig || alt == nil || b.r.c.Mon.isByz(to) {
		return false
	}
	b.r.sendForged(from, to, consensus.ProtoVote, alt, 0)
	return true
}

// propEquiv: when the Byzantine validator proposes a new block, build a
// second valid block for the same height and round from its own block
// manager and give each proposal (with its parts) to a different subset.
func (b *byzState) propEquiv(from *Inc, to int, pk *test.Packet, pm *parsed) bool {
	if pm.Kind != "proposal" && pm.Kind != "blockpart" {
		return false
	}
	h, r := pm.Height, pm.Round
	if h < 2 {
		return false
	}
	key := fmt.Sprintf("%d/%d/%d", from.Idx, h, r)
	b.mu.Lock()
	dst := b.propSplit[key]
	if dst == nil {
		if pm.Kind != "proposal" || pm.Proposal.POLRound >= 0 {
			b.mu.Unlock()
			return false
		}
		dst = map[int]bool{}
		dests := b.correctDests(from.Idx)
		for i, d := range dests {
			// first half gets the original
			if i < (len(dests)+1)/2 {
				dst[d] = true
			}
		}
		b.propSplit[key] = dst
		if !b.propBusy[key] {
			b.propBusy[key] = true
			var others []int
			for _, d := range dests {
				if !dst[d] {
					others = append(others, d)
				}
			}
			go b.secondProposal(from, h, r, others)
		}
	}
	orig := dst[to]
	b.mu.Unlock()
	if orig || b.r.c.Mon.isByz(to) {
		return false
	}
	return true // withheld from this destination; it gets the second proposal
}

func (b *byzState) secondProposal(from *Inc, h int64, r int32, dests []int) {
	defer func() {
		if e := recover(); e != nil {
			b.r.c.Mon.note("secondProposal panic: %v", e)
		}
	}()
	node := from.Node
	last, err := node.BM.GetBlockByHeight(h - 1)
	if err != nil {
		return
	}
	votes, err := node.CS.GetVotesByHeight(h - 1)
	if err != nil {
		b.r.c.Mon.note("secondProposal: no votes for %d: %v", h-1, err)
		return
	}
	// an extra transaction makes the second block differ from the first
	tx := test.NewTx().SetTimestamp(last.Timestamp())
	_, _ = node.SM.SendTransaction(nil, 0, tx.String())
	bc, err, cbErr := test.ProposeBlock(node.BM, last.ID(), votes)
	if err != nil || cbErr != nil || bc == nil {
		b.r.c.Mon.note("secondProposal: propose failed: %v %v", err, cbErr)
		return
	}
	defer bc.Dispose()
	psb := consensus.NewPartSetBuffer(consensus.ConfigBlockPartSize)
	if bc.MarshalHeader(psb) != nil || bc.MarshalBody(psb) != nil {
		return
	}
	bps := psb.PartSet()
	msg := consensus.NewProposalMessage()
	msg.Height = h
	msg.Round = r
	msg.BlockPartSetID = bps.ID()
	msg.POLRound = -1
	if err := msg.Sign(b.r.c.Wallets[from.Idx]); err != nil {
		return
	}
	pbs := codec.BC.MustMarshalToBytes(msg)
	for _, d := range dests {
		b.r.sendForged(from, d, consensus.ProtoProposal, pbs, 0)
		for i := 0; i < bps.Parts(); i++ {
			bpm := consensus.BlockPartMessage{Height: h, Index: uint16(i), BlockPart: bps.GetPart(i).Bytes(), Nonce: r}
			b.r.sendForged(from, d, consensus.ProtoBlockPart, codec.BC.MustMarshalToBytes(&bpm), 0)
		}
	}
}

// LockAttackState reports how far the scripted lock attack got.
func (b *byzState) LockAttackState() (active, unfolded, aborted bool) {
	b.mu.Lock()
	defer b.mu.Unlock()
	if b.sp.active {
		return true, b.sp.unfolded, b.sp.aborted
	}
	return b.la.active, b.la.unfolded, b.la.aborted
}
