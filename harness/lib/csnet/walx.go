package csnet

import (
	"bytes"
	"fmt"
	"io"
	"os"
	"path/filepath"
	"strconv"
	"strings"
	"sync"

	"github.com/icon-project/goloop/consensus"
)

// CrashPoint selects where a validator is frozen ("crashes").
type CrashPoint struct {
	// OpIndex is the index (0-based) of the WAL operation, counted over all WALs
	// of the incarnation from the moment the plan armed the crash.
	OpIndex int
	// Mode: "before" (before the op does anything), "torn" (Sync only: data is
	// flushed, then the tail is cut back to a prefix of the unsynced bytes, the
	// Sync never returns), "after" (the op completed; nothing after it ran).
	Mode string
	// TearFrac in [0,1]: which prefix of the unsynced tail survives for mode
	// "torn" (and for the other WAL files of the incarnation in any mode).
	TearBytes int // >=0: keep exactly min(TearBytes, unsynced) bytes; <0: use TearFrac
	TearFrac  float64
	// ZeroFill: when the cut falls strictly inside a record, the rest of THAT
	// record is present but zero-filled (the file length was extended, the
	// data blocks of the torn write never reached the disk): a full-length
	// record with a wrong checksum at the tail.
	ZeroFill bool
}

type walRec struct {
	payload []byte
	end     int64 // logical end offset in the tail file
	synced  bool
}

type walFile struct {
	id      string
	w       consensus.WALWriter
	base    int64 // size of the tail file when opened
	offset  int64 // logical end offset (base + framed bytes written)
	synced  int64 // offset covered by the last completed Sync
	recs    []walRec
	tailIdx uint64
	closeOnce sync.Once
}

func (f *walFile) closeInner() (err error) {
	f.closeOnce.Do(func() {
		defer func() { recover() }()
		err = f.w.Close()
	})
	return
}

// CloseAll closes every writer of the incarnation (idempotent).
func (x *WalX) CloseAll() {
	x.mu.Lock()
	var fs []*walFile
	for _, f := range x.files {
		fs = append(fs, f)
	}
	x.mu.Unlock()
	for _, f := range fs {
		f.closeInner()
	}
}

// WalX implements consensus.WALManager over the real file WAL, tracks which
// records are durable (covered by a completed Sync) and injects crashes.
type WalX struct {
	c   *Cluster
	inc *Inc

	mu      sync.Mutex
	files   map[string]*walFile
	armed   *CrashPoint
	opCount int
	crashed bool
	// durable payloads inherited from previous incarnations (present in the crash image)
	inherited map[string]bool
	ops       []string // journal of WAL operations (for witnesses)
	survived  map[string]bool
	framingOK bool
}

func newWalX(c *Cluster, inc *Inc) *WalX {
	return &WalX{c: c, inc: inc, files: map[string]*walFile{}, inherited: map[string]bool{}, framingOK: true}
}

// Arm arms a crash point; operation counting starts now.
func (x *WalX) Arm(cp *CrashPoint) {
	x.mu.Lock()
	x.armed = cp
	x.opCount = 0
	x.mu.Unlock()
}

func (x *WalX) Crashed() bool {
	x.mu.Lock()
	defer x.mu.Unlock()
	return x.crashed
}

// OpCount returns the number of WAL operations seen since arming.
func (x *WalX) OpCount() int {
	x.mu.Lock()
	defer x.mu.Unlock()
	return x.opCount
}

func tailFileOf(id string) (string, uint64, int64) {
	dir := filepath.Dir(id)
	prefix := filepath.Base(id) + "_"
	ents, err := os.ReadDir(dir)
	if err != nil {
		return "", 0, 0
	}
	best := ""
	var bestIdx uint64
	found := false
	for _, e := range ents {
		if !strings.HasPrefix(e.Name(), prefix) {
			continue
		}
		idx, err := strconv.ParseUint(e.Name()[len(prefix):], 10, 64)
		if err != nil {
			continue
		}
		if !found || idx > bestIdx {
			found = true
			bestIdx = idx
			best = filepath.Join(dir, e.Name())
		}
	}
	if !found {
		return "", 0, 0
	}
	st, err := os.Stat(best)
	if err != nil {
		return best, bestIdx, 0
	}
	return best, bestIdx, st.Size()
}

func (x *WalX) OpenForRead(id string) (consensus.WALReader, error) {
	return consensus.OpenWALForRead(id)
}

func (x *WalX) OpenForWrite(id string, cfg *consensus.WALConfig) (consensus.WALWriter, error) {
	w, err := consensus.OpenWALForWrite(id, cfg)
	if err != nil {
		return nil, err
	}
	_, idx, size := tailFileOf(id)
	f := &walFile{id: id, w: w, base: size, offset: size, synced: size, tailIdx: idx}
	x.mu.Lock()
	x.files[id] = f
	x.mu.Unlock()
	return &walWriterX{x: x, f: f}, nil
}

type walWriterX struct {
	x *WalX
	f *walFile
}

const frameHeader = 8 // crc32 + length, see DESIGN.md C02: verified at every Sync against the file size

func (w *walWriterX) WriteBytes(p []byte) (int, error) {
	x := w.x
	x.mu.Lock()
	k := x.opCount
	x.opCount++
	cp := x.armed
	x.ops = append(x.ops, fmt.Sprintf("%d:write:%s:%d", k, filepath.Base(w.f.id), len(p)))
	x.mu.Unlock()
	if cp != nil && cp.OpIndex == k && cp.Mode == "before" {
		x.crash(w.f, cp, "before-write")
	}
	n, err := w.f.w.WriteBytes(p)
	x.mu.Lock()
	if err == nil {
		w.f.offset += int64(frameHeader + len(p))
		w.f.recs = append(w.f.recs, walRec{payload: append([]byte(nil), p...), end: w.f.offset})
	}
	x.mu.Unlock()
	if cp != nil && cp.OpIndex == k && cp.Mode == "torn" {
		// a tear needs flushed-but-unsynced bytes: move the point to the next operation (the Sync)
		x.mu.Lock()
		if x.armed == cp {
			ncp := *cp
			ncp.OpIndex = k + 1
			x.armed = &ncp
		}
		x.mu.Unlock()
	} else if cp != nil && cp.OpIndex == k && cp.Mode != "before" {
		x.crash(w.f, cp, "after-write")
	}
	return n, err
}

func (w *walWriterX) Sync() error {
	x := w.x
	x.mu.Lock()
	k := x.opCount
	x.opCount++
	cp := x.armed
	x.ops = append(x.ops, fmt.Sprintf("%d:sync:%s", k, filepath.Base(w.f.id)))
	x.mu.Unlock()
	hit := cp != nil && cp.OpIndex == k
	if hit && cp.Mode == "before" {
		x.crash(w.f, cp, "before-sync")
	}
	err := w.f.w.Sync()
	if hit && cp.Mode == "torn" {
		// the data reached the file but the Sync never completed: any prefix of
		// the unsynced bytes may be what survives
		x.crash(w.f, cp, "torn-sync")
	}
	x.mu.Lock()
	if err == nil {
		_, idx, size := tailFileOf(w.f.id)
		if idx != w.f.tailIdx || size != w.f.offset {
			// rotation or a framing change: the harness's offset model no longer holds
			x.framingOK = false
		}
		w.f.synced = w.f.offset
		for i := range w.f.recs {
			w.f.recs[i].synced = true
		}
	}
	x.mu.Unlock()
	if hit && cp.Mode == "after" {
		x.crash(w.f, cp, "after-sync")
	}
	return err
}

func (w *walWriterX) Close() error {
	return w.f.closeInner()
}

func (x *WalX) opsTail(n int) []string {
	x.mu.Lock()
	defer x.mu.Unlock()
	return tailStrings(append([]string(nil), x.ops...), n)
}

// IsDurable reports whether payload was written and covered by a completed
// Sync in this incarnation, or survived in the crash image it started from.
func (x *WalX) IsDurable(id string, payload []byte) bool {
	x.mu.Lock()
	defer x.mu.Unlock()
	if x.inherited[string(payload)] {
		return true
	}
	for _, f := range x.files {
		if filepath.Base(f.id) != id {
			continue
		}
		for i := range f.recs {
			if f.recs[i].synced && bytes.Equal(f.recs[i].payload, payload) {
				return true
			}
		}
	}
	return false
}

// DurablePayloads calls fn for each durable payload of WAL id.
func (x *WalX) DurablePayloads(id string, fn func(p []byte)) {
	x.mu.Lock()
	defer x.mu.Unlock()
	for p := range x.inherited {
		fn([]byte(p))
	}
	for _, f := range x.files {
		if filepath.Base(f.id) != id {
			continue
		}
		for i := range f.recs {
			if f.recs[i].synced {
				fn(f.recs[i].payload)
			}
		}
	}
}

// WrittenPayloads calls fn for each payload written to WAL id by this
// incarnation (synced or not) and for the payloads inherited from the crash image.
func (x *WalX) WrittenPayloads(id string, fn func(p []byte)) {
	x.mu.Lock()
	var ps [][]byte
	for p := range x.inherited {
		ps = append(ps, []byte(p))
	}
	for _, f := range x.files {
		if filepath.Base(f.id) != id {
			continue
		}
		for i := range f.recs {
			ps = append(ps, f.recs[i].payload)
		}
	}
	x.mu.Unlock()
	for _, p := range ps {
		fn(p)
	}
}

func (x *WalX) inheritDurable(old *WalX) {
	old.mu.Lock()
	defer old.mu.Unlock()
	for p := range old.inherited {
		x.inherited[p] = true
	}
	for _, f := range old.files {
		if filepath.Base(f.id) != "round" {
			continue
		}
		for _, r := range f.recs {
			if r.synced || r.end <= f.synced {
				x.inherited[string(r.payload)] = true
			}
		}
	}
	// records that survived in the image (end <= kept length) were marked by crash()
	for p := range old.survived {
		x.inherited[p] = true
	}
}

func copyFile(dst, src string, limit int64) error {
	in, err := os.Open(src)
	if err != nil {
		return err
	}
	defer in.Close()
	out, err := os.OpenFile(dst, os.O_CREATE|os.O_WRONLY|os.O_TRUNC, 0600)
	if err != nil {
		return err
	}
	defer out.Close()
	if limit >= 0 {
		_, err = io.CopyN(out, in, limit)
		if err == io.EOF {
			err = nil
		}
	} else {
		_, err = io.Copy(out, in)
	}
	return err
}

// crash freezes the calling goroutine forever after producing the crash image
// and asking the cluster to restart the validator from it.
func (x *WalX) crash(at *walFile, cp *CrashPoint, where string) {
	c := x.c
	x.mu.Lock()
	if x.crashed {
		x.mu.Unlock()
		select {}
	}
	x.crashed = true
	x.inc.alive.Store(false)
	x.survived = map[string]bool{}
	srcDir := filepath.Dir(at.id)
	image := filepath.Join(c.Dir, fmt.Sprintf("wal-%d-%d", x.inc.Idx, x.inc.Gen+1))
	os.MkdirAll(image, 0700)
	desc := CrashDesc{Idx: x.inc.Idx, Gen: x.inc.Gen, Where: where, Op: cp.OpIndex, Mode: cp.Mode, Wal: filepath.Base(at.id), Ops: append([]string(nil), x.ops...)}
	tracked := map[string]*walFile{}
	for _, f := range x.files {
		p, _, _ := tailFileOf(f.id)
		tracked[filepath.Base(p)] = f
	}
	ents, _ := os.ReadDir(srcDir)
	for _, e := range ents {
		src := filepath.Join(srcDir, e.Name())
		dst := filepath.Join(image, e.Name())
		f := tracked[e.Name()]
		if f == nil {
			copyFile(dst, src, -1)
			continue
		}
		st, err := os.Stat(src)
		if err != nil {
			continue
		}
		onDisk := st.Size()
		unsynced := onDisk - f.synced
		if unsynced < 0 {
			unsynced = 0
		}
		var keepTail int64
		switch {
		case f == at && where == "after-sync":
			keepTail = unsynced
		case f == at && cp.Mode == "before":
			keepTail = c.Router.tearChoice(unsynced, cp)
		default:
			keepTail = c.Router.tearChoice(unsynced, cp)
		}
		keep := f.synced + keepTail
		copyFile(dst, src, keep)
		tc := tearClass(f, keep)
		if cp.ZeroFill && (tc == "in-header" || tc == "in-payload" || tc == "header-complete-payload-empty") {
			// zero-fill up to the end of the record that contains the cut
			for _, r := range f.recs {
				if r.end > keep {
					if r.end <= onDisk {
						if fh, err := os.OpenFile(dst, os.O_WRONLY|os.O_APPEND, 0600); err == nil {
							fh.Write(make([]byte, r.end-keep))
							fh.Close()
							tc += "-zero-filled"
						}
					}
					break
				}
			}
		}
		for _, r := range f.recs {
			if r.end <= keep && filepath.Base(f.id) == "round" {
				x.survived[string(r.payload)] = true
			}
		}
		desc.Files = append(desc.Files, CrashFile{Name: e.Name(), Synced: f.synced, OnDisk: onDisk, Kept: keep, TearClass: tc})
	}
	// stop the housekeeping goroutines of the dead incarnation's writers (the
	// image is already taken; flushing into the old directory is harmless)
	for _, f := range x.files {
		go f.closeInner()
	}
	x.mu.Unlock()
	c.Mon.onCrash(x.inc, desc)
	if !c.closed.Load() {
		func() {
			defer func() { recover() }()
			c.restartCh <- restartReq{idx: x.inc.Idx, imageDir: image}
		}()
	}
	select {}
}

// CrashFile describes what was kept of one WAL file in a crash image.
type CrashFile struct {
	Name      string `json:"name"`
	Synced    int64  `json:"synced"`
	OnDisk    int64  `json:"on_disk"`
	Kept      int64  `json:"kept"`
	TearClass string `json:"tear_class"`
}

// CrashDesc describes one crash.
type CrashDesc struct {
	Idx   int         `json:"validator"`
	Gen   int         `json:"incarnation"`
	Where string      `json:"where"`
	Op    int         `json:"op_index"`
	Mode  string      `json:"mode"`
	Wal   string      `json:"wal"`
	Files []CrashFile `json:"files"`
	Ops   []string    `json:"wal_ops,omitempty"`
	Seq   int64       `json:"seq"`
	H     int64       `json:"height"`
}

func tearClass(f *walFile, keep int64) string {
	if keep == f.synced {
		return "frame-aligned-synced"
	}
	// find the record containing offset keep
	prev := f.base
	for _, r := range f.recs {
		if keep == r.end {
			return "frame-aligned-unsynced"
		}
		if keep > prev && keep < r.end {
			into := keep - prev
			switch {
			case into < frameHeader:
				return "in-header"
			case into == frameHeader:
				return "header-complete-payload-empty"
			default:
				return "in-payload"
			}
		}
		prev = r.end
	}
	return "other"
}
