package feefix

import (
	"math/big"
	"testing"

	"github.com/icon-project/goloop/module"
)

func TestSmoke(t *testing.T) {
	s, err := New(Config{
		StepPrice:   big.NewInt(10),
		StepCosts:   map[string]int64{"default": 1000, "input": 10},
		StepLimits:  map[string]int64{"invoke": 1000000, "query": 1000000},
		ThresholdMS: 5,
		Balances:    []*big.Int{big.NewInt(1000000000), big.NewInt(5)},
	})
	if err != nil {
		t.Fatal(err)
	}
	defer s.Close()
	ws0, err := s.Base.Snapshot()
	if err != nil {
		t.Fatal(err)
	}
	a0, _ := s.Accounts(ws0)
	t.Logf("accounts=%d sum=%s th=%d", len(a0), SumBalances(a0), 0)
	tx, err := SignedTx(TxSpec{From: s.Wallets[0], To: s.Wallets[1].Address(), Value: big.NewInt(77), StepLimit: big.NewInt(5000), Timestamp: 1000000})
	if err != nil {
		t.Fatal(err)
	}
	b := s.Exec(s.Base, []module.Transaction{tx}, 1000100, false)
	if !b.OK() {
		t.Fatalf("block failed %v %v", b.ValidateErr, b.ExecErr)
	}
	rs, err := b.Receipts()
	if err != nil {
		t.Fatal(err)
	}
	t.Logf("status=%d used=%s price=%s", rs[0].Status(), rs[0].StepUsed(), rs[0].StepPrice())
	ws1, err := b.Snapshot()
	if err != nil {
		t.Fatal(err)
	}
	a1, _ := s.Accounts(ws1)
	t.Logf("sum=%s b0=%s b1=%s tr=%s", SumBalances(a1), Balance(ws1, s.Wallets[0].Address()), Balance(ws1, s.Wallets[1].Address()), Balance(ws1, s.Treasury))
	// replay of the same tx must be refused
	b2 := s.Exec(b, []module.Transaction{tx}, 1000200, false)
	t.Logf("replay: %v", b2.ValidateErr)
	if b2.ValidateErr == nil {
		t.Fatal("replay accepted")
	}
}
