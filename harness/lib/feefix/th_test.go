package feefix

import (
	"math/big"
	"testing"

	"github.com/icon-project/goloop/common"
	"github.com/icon-project/goloop/module"
	"github.com/icon-project/goloop/service/state"
)

func TestThreshold(t *testing.T) {
	s, err := New(Config{ThresholdMS: 2, Balances: []*big.Int{big.NewInt(1000000000)}})
	if err != nil {
		t.Fatal(err)
	}
	defer s.Close()
	chain := common.MustNewAddressFromString("cx0000000000000000000000000000000000000000")
	p := s.Base
	ts := int64(1000000)
	for i, v := range []string{"0x5", "0x3", "0x1"} {
		tx, err := SignedTx(TxSpec{From: s.Gov, To: chain, StepLimit: big.NewInt(10000000), Timestamp: ts, Nonce: big.NewInt(int64(i)), DataType: "call",
			Data: map[string]interface{}{"method": "setTimestampThreshold", "params": map[string]interface{}{"threshold": v}}})
		if err != nil {
			t.Fatal(err)
		}
		b := s.Exec(p, []module.Transaction{tx}, ts, false)
		if !b.OK() {
			t.Fatalf("%v %v", b.ValidateErr, b.ExecErr)
		}
		rs, _ := b.Receipts()
		ws, _ := b.Snapshot()
		wc := state.NewWorldContext(mustWS(ws), common.NewBlockInfo(b.Height+1, ts+1), nil, s.Platform)
		js, _ := rs[0].ToJSON(module.JSONVersionLast)
		t.Logf("set %s: status=%d th=%d receipt=%v", v, rs[0].Status(), wc.TransactionTimestampThreshold(), js)
		p = b
		ts += 500
	}
}

func mustWS(ws state.WorldSnapshot) state.WorldState {
	w, err := state.WorldStateFromSnapshot(ws)
	if err != nil {
		panic(err)
	}
	return w
}
