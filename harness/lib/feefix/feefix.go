// Package feefix (group "fee") builds a real goloop service stack on the
// basic platform with a harness genesis (funded EOAs with harness wallets,
// step price / step costs / step limits, treasury, governance EOA) and runs
// blocks of signed v3 transactions through service.NewTransition.
package feefix

import (
	"encoding/base64"
	"encoding/json"
	"fmt"
	"math/big"
	"os"
	"path"
	"sort"
	"sync"
	"time"

	"github.com/icon-project/goloop/chain/base"
	"github.com/icon-project/goloop/common"
	"github.com/icon-project/goloop/common/crypto"
	"github.com/icon-project/goloop/common/db"
	"github.com/icon-project/goloop/common/log"
	"github.com/icon-project/goloop/common/trie/trie_manager"
	"github.com/icon-project/goloop/common/wallet"
	"github.com/icon-project/goloop/module"
	"github.com/icon-project/goloop/service"
	"github.com/icon-project/goloop/service/contract"
	"github.com/icon-project/goloop/service/eeproxy"
	"github.com/icon-project/goloop/service/platform/basic"
	"github.com/icon-project/goloop/service/state"
	"github.com/icon-project/goloop/service/transaction"
	"github.com/icon-project/goloop/service/txresult"
	"github.com/icon-project/goloop/test"
)

// TreasuryAddr is the treasury of the harness genesis.
const TreasuryAddr = "hx1000000000000000000000000000000000000000"

// Config of the harness genesis.
type Config struct {
	StepPrice   *big.Int
	StepCosts   map[string]int64 // nil: all zero
	StepLimits  map[string]int64 // nil: invoke/query = 0 (unlimited semantics are the platform's)
	ThresholdMS int64            // timestampThreshold in ms, 0 = not set (5 min default)
	Balances    []*big.Int       // one funded EOA per entry
	GovBalance  *big.Int         // balance of the governance EOA
	Revision    int              // 0 = basic.MaxRevision
	Concurrency int              // ConcurrencyLevel of the chain (0/1 = sequential)
	// ExtraAccounts are further genesis accounts (address string -> balance),
	// e.g. the address a harness system SCORE will be installed at.
	ExtraAccounts map[string]*big.Int
	// TxEndHook, if set, is called from Platform.OnTransactionEnd (after a
	// transaction was executed, before its result is committed) with the
	// transaction's index and id; a returned error is handed to the executor
	// (errors.ExecutionFailError makes it reset and re-run the transaction).
	// Used for schedule perturbation and executor-failure injection.
	TxEndHook func(index int32, txID []byte) error
	// Setup, if set, is executed as block 1 by a harness transaction (for
	// installing harness system SCOREs).
	Setup func(cc contract.CallContext, txID []byte) error
}

type quietT struct{}

func (quietT) Errorf(format string, args ...interface{}) {}
func (quietT) Logf(format string, args ...any)           {}

type hookPlatform struct {
	base.Platform
	hook func(index int32, txID []byte) error
}

func (p *hookPlatform) OnTransactionEnd(wc state.WorldContext, logger log.Logger, rct txresult.Receipt) error {
	if ti := wc.TransactionInfo(); ti != nil {
		if err := p.hook(ti.Index, ti.Hash); err != nil {
			return err
		}
	}
	return p.Platform.OnTransactionEnd(wc, logger, rct)
}

type chainWrapper struct {
	*test.Chain
	level int
}

func (c *chainWrapper) ConcurrencyLevel() int {
	if c.level < 1 {
		return 1
	}
	return c.level
}

// Stack is one real service stack.
type Stack struct {
	DB       db.Database
	Chain    module.Chain
	CM       contract.ContractManager
	EM       eeproxy.Manager
	Platform base.Platform
	TSC      *service.TxTimestampChecker
	Log      log.Logger
	Wallets  []module.Wallet // funded EOAs
	Gov      module.Wallet   // governance EOA (funded)
	Treasury module.Address
	Genesis  *Block
	Base     *Block // last setup block (genesis, or the Setup block): build on this
	dir      string
	tchain   *test.Chain
	cfg      Config
}

// Block is one executed (or rejected) transition.
type Block struct {
	S           *Stack
	Parent      *Block
	Tr          module.Transition
	Height      int64
	TS          int64
	Txs         []module.Transaction
	ValidateErr error
	ExecErr     error
	flushed     bool
	txFinal     bool
	mu          sync.Mutex
}

func hexBig(v *big.Int) string {
	if v == nil {
		return "0x0"
	}
	return "0x" + v.Text(16)
}

// GenesisJSON renders the genesis transaction of a configuration.
func genesisJSON(cfg *Config, gov module.Wallet, ws []module.Wallet) ([]byte, error) {
	type acct struct {
		Name    string `json:"name"`
		Address string `json:"address"`
		Balance string `json:"balance"`
	}
	god := wallet.New()
	accts := []acct{
		{"god", god.Address().String(), "0x0"},
		{"treasury", TreasuryAddr, "0x0"},
		{"governance", gov.Address().String(), hexBig(cfg.GovBalance)},
	}
	for i, w := range ws {
		accts = append(accts, acct{fmt.Sprintf("eoa%d", i), w.Address().String(), hexBig(cfg.Balances[i])})
	}
	{
		var addrs []string
		for a := range cfg.ExtraAccounts {
			addrs = append(addrs, a)
		}
		sort.Strings(addrs)
		for i, a := range addrs {
			accts = append(accts, acct{fmt.Sprintf("extra%d", i), a, hexBig(cfg.ExtraAccounts[a])})
		}
	}
	rev := cfg.Revision
	if rev == 0 {
		rev = basic.MaxRevision
	}
	fee := map[string]interface{}{"stepPrice": hexBig(cfg.StepPrice)}
	if cfg.StepLimits != nil {
		m := map[string]string{}
		for k, v := range cfg.StepLimits {
			m[k] = fmt.Sprintf("0x%x", v)
		}
		fee["stepLimit"] = m
	}
	if cfg.StepCosts != nil {
		m := map[string]string{}
		for k, v := range cfg.StepCosts {
			m[k] = fmt.Sprintf("0x%x", v)
		}
		fee["stepCosts"] = m
	}
	chain := map[string]interface{}{
		"revision": fmt.Sprintf("0x%x", rev),
		"fee":      fee,
	}
	if cfg.ThresholdMS > 0 {
		chain["timestampThreshold"] = fmt.Sprintf("0x%x", cfg.ThresholdMS)
	}
	g := map[string]interface{}{
		"accounts": accts,
		"message":  "verif harness genesis",
		"nid":      "0x1",
		"chain":    chain,
	}
	return json.Marshal(g)
}

// New builds the stack and executes + finalizes the genesis block (and the
// Setup block if configured).
func New(cfg Config) (*Stack, error) {
	log.GlobalLogger().SetLevel(log.FatalLevel)
	logger := log.New()
	logger.SetLevel(log.FatalLevel)
	s := &Stack{cfg: cfg, Log: logger}
	s.Gov = wallet.New()
	for range cfg.Balances {
		s.Wallets = append(s.Wallets, wallet.New())
	}
	if cfg.GovBalance == nil {
		cfg.GovBalance = new(big.Int).Lsh(big.NewInt(1), 100)
	}
	if cfg.StepPrice == nil {
		cfg.StepPrice = new(big.Int)
	}
	gj, err := genesisJSON(&cfg, s.Gov, s.Wallets)
	if err != nil {
		return nil, err
	}
	dir, err := os.MkdirTemp("", "verif-feefix")
	if err != nil {
		return nil, err
	}
	s.dir = dir
	s.DB = db.NewMapDB()
	tc, err := test.NewChain(quietT{}, wallet.New(), s.DB, logger, nil, string(gj))
	if err != nil {
		s.Close()
		return nil, err
	}
	tc.Logger().SetLevel(log.FatalLevel)
	s.tchain = tc
	s.Chain = &chainWrapper{Chain: tc, level: cfg.Concurrency}
	s.Platform = basic.Platform
	if cfg.TxEndHook != nil {
		s.Platform = &hookPlatform{Platform: basic.Platform, hook: cfg.TxEndHook}
	}
	test.RegisterTransactionFactory()
	registerSetupTx()
	s.CM, err = s.Platform.NewContractManager(s.DB, path.Join(dir, "contract"), tc.Logger())
	if err != nil {
		s.Close()
		return nil, err
	}
	ee, err := eeproxy.AllocEngines(tc.Logger(), "none")
	if err != nil {
		s.Close()
		return nil, err
	}
	s.EM, err = eeproxy.NewManager("unix", path.Join(dir, "ee.sock"), tc.Logger(), ee...)
	if err != nil {
		s.Close()
		return nil, err
	}
	go func() { _ = s.EM.Loop() }()
	_ = s.EM.SetInstances(0, 0, 0)
	s.TSC = service.NewTimestampChecker()
	s.Treasury = common.MustNewAddressFromString(TreasuryAddr)

	init, err := service.NewInitTransition(s.DB, nil, nil, s.CM, s.EM, s.Chain, tc.Logger(), s.Platform, s.TSC)
	if err != nil {
		s.Close()
		return nil, err
	}
	gtx, err := transaction.NewGenesisTransaction(gj)
	if err != nil {
		s.Close()
		return nil, err
	}
	root := &Block{S: s, Tr: init, Height: -1}
	g := s.exec(root, []module.Transaction{gtx}, 0, 0, true)
	if g.ValidateErr != nil || g.ExecErr != nil {
		s.Close()
		return nil, fmt.Errorf("genesis failed: %v %v", g.ValidateErr, g.ExecErr)
	}
	if err := g.Finalize(); err != nil {
		s.Close()
		return nil, err
	}
	s.Genesis = g
	s.Base = g
	if cfg.Setup != nil {
		stx := newSetupTx(cfg.Setup)
		b := s.exec(g, []module.Transaction{stx}, 1, 1, true)
		if b.ValidateErr != nil || b.ExecErr != nil {
			s.Close()
			return nil, fmt.Errorf("setup block failed: %v %v", b.ValidateErr, b.ExecErr)
		}
		if ran, serr := stx.result(); !ran || serr != nil {
			s.Close()
			return nil, fmt.Errorf("setup failed: ran=%v err=%v", ran, serr)
		}
		if err := b.Finalize(); err != nil {
			s.Close()
			return nil, err
		}
		s.Base = b
	}
	return s, nil
}

// Close releases the stack.
func (s *Stack) Close() {
	if s.EM != nil {
		_ = s.EM.Close()
	}
	if s.tchain != nil {
		s.tchain.Close()
	}
	if s.dir != "" {
		_ = os.RemoveAll(s.dir)
	}
}

type cbResult struct {
	validate bool
	err      error
}

type trCallback struct {
	ch chan cbResult
}

func (c *trCallback) OnValidate(tr module.Transition, err error) { c.ch <- cbResult{true, err} }
func (c *trCallback) OnExecute(tr module.Transition, err error)  { c.ch <- cbResult{false, err} }

// ErrWatchdog is reported when a transition does not call back in time.
var ErrWatchdog = fmt.Errorf("feefix: transition watchdog fired")

// Exec validates (unless validated) and executes a block of normal
// transactions on parent. The block time is ts.
func (s *Stack) Exec(parent *Block, txs []module.Transaction, ts int64, validated bool) *Block {
	return s.exec(parent, txs, parent.Height+1, ts, validated)
}

func (s *Stack) exec(parent *Block, txs []module.Transaction, height, ts int64, validated bool) *Block {
	b := &Block{S: s, Parent: parent, Height: height, TS: ts, Txs: txs}
	txl := transaction.NewTransactionListFromSlice(s.DB, txs)
	b.Tr = service.NewTransition(parent.Tr, nil, txl, common.NewBlockInfo(height, ts), nil, validated)
	cb := &trCallback{ch: make(chan cbResult, 2)}
	if _, err := b.Tr.Execute(cb); err != nil {
		b.ValidateErr = err
		return b
	}
	timeout := time.After(120 * time.Second)
	for {
		select {
		case r := <-cb.ch:
			if r.validate {
				if r.err != nil {
					b.ValidateErr = r.err
					return b
				}
			} else {
				b.ExecErr = r.err
				return b
			}
		case <-timeout:
			b.ExecErr = ErrWatchdog
			return b
		}
	}
}

// OK tells whether the block was validated and executed.
func (b *Block) OK() bool { return b.ValidateErr == nil && b.ExecErr == nil }

// Flush writes the world state and the receipts of the block to the
// database (FinalizeResult), so that Snapshot works. Idempotent.
func (b *Block) Flush() error {
	b.mu.Lock()
	defer b.mu.Unlock()
	if b.flushed {
		return nil
	}
	if err := service.FinalizeTransition(b.Tr, module.FinalizeResult|module.KeepingParent, false); err != nil {
		return err
	}
	b.flushed = true
	return nil
}

// FinalizeTxs commits the transaction ids of the block (and of its
// unfinalized ancestors) as block finalization does.
func (b *Block) FinalizeTxs() error {
	b.mu.Lock()
	defer b.mu.Unlock()
	if b.txFinal {
		return nil
	}
	if err := service.FinalizeTransition(b.Tr, module.FinalizeNormalTransaction|module.FinalizePatchTransaction, false); err != nil {
		return err
	}
	b.txFinal = true
	return nil
}

// Finalize = FinalizeTxs + Flush.
func (b *Block) Finalize() error {
	if err := b.FinalizeTxs(); err != nil {
		return err
	}
	return b.Flush()
}

// Snapshot returns the world snapshot after the block.
func (b *Block) Snapshot() (state.WorldSnapshot, error) {
	if err := b.Flush(); err != nil {
		return nil, err
	}
	return service.NewWorldSnapshot(b.S.DB, b.S.Platform, b.Tr.Result(), b.Tr.NextValidators())
}

// Receipts returns the normal receipts of an executed block.
func (b *Block) Receipts() ([]txresult.Receipt, error) {
	var rs []txresult.Receipt
	rl := b.Tr.NormalReceipts()
	if rl == nil {
		return nil, fmt.Errorf("no receipts")
	}
	for it := rl.Iterator(); it.Has(); {
		r, err := it.Get()
		if err != nil {
			return nil, err
		}
		rs = append(rs, r.(txresult.Receipt))
		if err := it.Next(); err != nil {
			return nil, err
		}
	}
	return rs, nil
}

// Account is one entry of the account trie.
type Account struct {
	Key        string // hex of the trie key (sha3 of the address id)
	Balance    *big.Int
	IsContract bool
	Bytes      []byte // canonical encoding (includes the storage root)
}

// AccountKey returns the account trie key of an address.
func AccountKey(a module.Address) string {
	return fmt.Sprintf("%x", crypto.SHA3Sum256(a.ID()))
}

// Accounts iterates the WHOLE account trie of a snapshot.
func (s *Stack) Accounts(ws state.WorldSnapshot) (map[string]*Account, error) {
	tr := trie_manager.NewImmutableForObject(s.DB, ws.StateHash(), state.AccountType)
	m := map[string]*Account{}
	for it := tr.Iterator(); it.Has(); {
		obj, key, err := it.Get()
		if err != nil {
			return nil, err
		}
		as, ok := obj.(state.AccountSnapshot)
		if !ok {
			return nil, fmt.Errorf("unexpected object %T", obj)
		}
		m[fmt.Sprintf("%x", key)] = &Account{
			Key:        fmt.Sprintf("%x", key),
			Balance:    new(big.Int).Set(as.GetBalance()),
			IsContract: as.IsContract(),
			Bytes:      append([]byte(nil), as.Bytes()...),
		}
		if err := it.Next(); err != nil {
			return nil, err
		}
	}
	return m, nil
}

// SumBalances adds up every balance of the account trie.
func SumBalances(m map[string]*Account) *big.Int {
	sum := new(big.Int)
	for _, a := range m {
		sum.Add(sum, a.Balance)
	}
	return sum
}

// Balance reads one balance from a snapshot.
func Balance(ws state.WorldSnapshot, a module.Address) *big.Int {
	as := ws.GetAccountSnapshot(a.ID())
	if as == nil {
		return new(big.Int)
	}
	return new(big.Int).Set(as.GetBalance())
}

// TxSpec describes a v3 transaction to sign.
type TxSpec struct {
	From      module.Wallet
	To        module.Address
	Value     *big.Int // nil: no value field
	StepLimit *big.Int
	Timestamp int64
	Nonce     *big.Int // nil: none
	DataType  string   // "", "message", "call", ...
	Data      interface{}
	NoNID     bool
}

// SignedTx builds and signs a v3 transaction (nid 1).
func SignedTx(sp TxSpec) (transaction.Transaction, error) {
	m := map[string]interface{}{
		"version":   "0x3",
		"from":      sp.From.Address().String(),
		"to":        sp.To.String(),
		"stepLimit": hexBig(sp.StepLimit),
		"timestamp": fmt.Sprintf("0x%x", sp.Timestamp),
	}
	if !sp.NoNID {
		m["nid"] = "0x1"
	}
	if sp.Value != nil {
		m["value"] = hexBig(sp.Value)
	}
	if sp.Nonce != nil {
		m["nonce"] = hexBig(sp.Nonce)
	}
	if sp.DataType != "" {
		m["dataType"] = sp.DataType
		if sp.Data != nil {
			m["data"] = sp.Data
		}
	}
	// round trip through JSON so that the hash is computed over what a
	// receiver would parse
	raw, err := json.Marshal(m)
	if err != nil {
		return nil, err
	}
	var jm map[string]interface{}
	if err := json.Unmarshal(raw, &jm); err != nil {
		return nil, err
	}
	bs, err := transaction.SerializeMap(jm, nil, map[string]bool{"signature": true, "txHash": true})
	if err != nil {
		return nil, err
	}
	h := crypto.SHA3Sum256(append([]byte("icx_sendTransaction."), bs...))
	sig, err := sp.From.Sign(h)
	if err != nil {
		return nil, err
	}
	jm["signature"] = base64.StdEncoding.EncodeToString(sig)
	raw, err = json.Marshal(jm)
	if err != nil {
		return nil, err
	}
	tx, err := transaction.NewTransactionFromJSON(raw)
	if err != nil {
		return nil, err
	}
	return tx, nil
}

// CompactJSONLen is the number of bytes of the compact JSON form of v (what
// input step costing counts for a data field built from v).
func CompactJSONLen(v interface{}) (int, error) {
	b, err := json.Marshal(v)
	if err != nil {
		return 0, err
	}
	return len(b), nil
}

// JSONString renders v as JSON for witnesses and journals.
func JSONString(v interface{}) string {
	b, err := json.Marshal(v)
	if err != nil {
		return fmt.Sprint(v)
	}
	return string(b)
}
