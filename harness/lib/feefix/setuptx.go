package feefix

import (
	"bytes"
	"encoding/json"
	"math/big"
	"sync"
	"sync/atomic"

	"github.com/icon-project/goloop/common/crypto"
	"github.com/icon-project/goloop/common/db"
	"github.com/icon-project/goloop/common/merkle"
	"github.com/icon-project/goloop/common/trie"
	"github.com/icon-project/goloop/module"
	"github.com/icon-project/goloop/service/contract"
	"github.com/icon-project/goloop/service/state"
	"github.com/icon-project/goloop/service/transaction"
	"github.com/icon-project/goloop/service/txresult"
)

// setupTx is a harness transaction type: its handler runs a Go function
// inside a call context of the real contract package (used to install
// harness system SCOREs at fixed addresses in block 1).
type setupTx struct {
	Type   string `json:"type"`
	Serial int64  `json:"serial"`
}

var (
	setupSerial int64
	setupOnce   sync.Once
)

// the transaction list may re-create the object from its bytes, so the
// function and its result live in a registry keyed by the serial number
type setupEntry struct {
	f   func(cc contract.CallContext, txID []byte) error
	err error
	ran bool
}

var (
	setupMu      sync.Mutex
	setupEntries = map[int64]*setupEntry{}
)

func newSetupTx(f func(cc contract.CallContext, txID []byte) error) *setupTx {
	t := &setupTx{Type: "verif-setup", Serial: atomic.AddInt64(&setupSerial, 1)}
	setupMu.Lock()
	setupEntries[t.Serial] = &setupEntry{f: f}
	setupMu.Unlock()
	return t
}

// result removes the registry entry and tells whether the function ran and its error.
func (t *setupTx) result() (bool, error) {
	setupMu.Lock()
	defer setupMu.Unlock()
	e := setupEntries[t.Serial]
	delete(setupEntries, t.Serial)
	if e == nil {
		return false, nil
	}
	return e.ran, e.err
}

func registerSetupTx() {
	setupOnce.Do(func() {
		transaction.RegisterFactory(&transaction.Factory{
			Priority: 4,
			CheckJSON: func(jso map[string]interface{}) bool {
				v, ok := jso["type"]
				return ok && v == "verif-setup"
			},
			ParseJSON: func(js []byte, jsm map[string]interface{}, raw bool) (transaction.Transaction, error) {
				t := &setupTx{}
				if err := json.Unmarshal(js, t); err != nil {
					return nil, err
				}
				return t, nil
			},
		})
	})
}

func (t *setupTx) Prepare(ctx contract.Context) (state.WorldContext, error) {
	return ctx.GetFuture([]state.LockRequest{{Lock: state.AccountWriteLock, ID: state.WorldIDStr}}), nil
}

func (t *setupTx) Execute(ctx contract.Context, wcs state.WorldSnapshot, estimate bool) (txresult.Receipt, error) {
	r := txresult.NewReceipt(ctx.Database(), ctx.Revision(), t.To())
	cc := contract.NewCallContext(ctx, big.NewInt(1<<62), false)
	defer cc.Dispose()
	setupMu.Lock()
	e := setupEntries[t.Serial]
	setupMu.Unlock()
	if e != nil && e.f != nil {
		err := e.f(cc, t.ID())
		setupMu.Lock()
		e.err, e.ran = err, true
		setupMu.Unlock()
	}
	cc.UpdateSystemInfo()
	r.SetResult(module.StatusSuccess, big.NewInt(0), big.NewInt(0), nil)
	return r, nil
}

func (t *setupTx) Dispose()                       {}
func (t *setupTx) Group() module.TransactionGroup { return module.TransactionGroupNormal }
func (t *setupTx) ID() []byte                     { return crypto.SHA3Sum256(t.Bytes()) }
func (t *setupTx) From() module.Address           { return state.SystemAddress }
func (t *setupTx) Bytes() []byte                  { b, _ := json.Marshal(t); return b }
func (t *setupTx) Hash() []byte                   { return t.ID() }
func (t *setupTx) Verify() error                  { return nil }
func (t *setupTx) Version() int                   { return module.TransactionVersion3 }
func (t *setupTx) ToJSON(version module.JSONVersion) (interface{}, error) {
	return map[string]interface{}{"type": t.Type, "serial": t.Serial}, nil
}
func (t *setupTx) ValidateNetwork(nid int) bool                         { return true }
func (t *setupTx) PreValidate(wc state.WorldContext, update bool) error { return nil }
func (t *setupTx) GetHandler(cm contract.ContractManager) (transaction.Handler, error) {
	return t, nil
}
func (t *setupTx) Timestamp() int64   { return 0 }
func (t *setupTx) Nonce() *big.Int    { return nil }
func (t *setupTx) To() module.Address { return state.SystemAddress }
func (t *setupTx) IsSkippable() bool  { return false }

func (t *setupTx) Reset(s db.Database, k []byte) error { return json.Unmarshal(k, t) }
func (t *setupTx) Flush() error                        { return nil }
func (t *setupTx) Equal(o trie.Object) bool {
	if x, ok := o.(*setupTx); ok {
		return bytes.Equal(x.ID(), t.ID())
	}
	return false
}
func (t *setupTx) Resolve(builder merkle.Builder) error { return nil }
func (t *setupTx) ClearCache()                          {}
