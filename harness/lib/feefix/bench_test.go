package feefix

import (
	"math/big"
	"testing"
	"time"

	"github.com/icon-project/goloop/module"
)

func TestCosts(t *testing.T) {
	s, err := New(Config{ThresholdMS: 2, Balances: []*big.Int{big.NewInt(1000000000), big.NewInt(1), big.NewInt(1), big.NewInt(1)}})
	if err != nil {
		t.Fatal(err)
	}
	defer s.Close()
	t0 := time.Now()
	var txs []module.Transaction
	for i := 0; i < 20; i++ {
		tx, _ := SignedTx(TxSpec{From: s.Wallets[0], To: s.Wallets[1].Address(), Value: big.NewInt(1), StepLimit: big.NewInt(5000), Timestamp: 1000000, Nonce: big.NewInt(int64(i))})
		txs = append(txs, tx)
	}
	t.Logf("sign: %v per tx", time.Since(t0)/20)
	t0 = time.Now()
	for _, tx := range txs {
		tx.Verify()
	}
	t.Logf("verify: %v per tx", time.Since(t0)/20)
	p := s.Base
	t0 = time.Now()
	for i := 0; i < 20; i++ {
		b := s.Exec(p, nil, int64(1000000+i), false)
		if !b.OK() {
			t.Fatal(b.ValidateErr, b.ExecErr)
		}
		p = b
	}
	t.Logf("empty block: %v per block", time.Since(t0)/20)
	t0 = time.Now()
	for i := 0; i < 20; i++ {
		b := s.Exec(p, txs[i:i+1], int64(1000100+i), false)
		if !b.OK() {
			t.Fatal(b.ValidateErr, b.ExecErr)
		}
		p = b
	}
	t.Logf("1-tx block: %v per block", time.Since(t0)/20)
}
