package netgrp

import (
	"bytes"
	"io"
	"math/rand"
	"net"
	"sync"
	"time"
)

type addr struct{}

func (addr) Network() string { return "verif" }
func (addr) String() string  { return "verif" }

// queue is one direction of a BufPipe: unbounded, never blocks the writer,
// hands the reader PRNG-sized pieces (like a TCP stream would).
type queue struct {
	mu     sync.Mutex
	cond   *sync.Cond
	buf    []byte
	wclose bool // writer finished: EOF once drained
	rclose bool
	r      *rand.Rand
}

func newQueue(seed int64) *queue {
	q := &queue{r: rand.New(rand.NewSource(seed))}
	q.cond = sync.NewCond(&q.mu)
	return q
}

func (q *queue) read(p []byte) (int, error) {
	q.mu.Lock()
	defer q.mu.Unlock()
	for len(q.buf) == 0 {
		if q.rclose {
			return 0, io.ErrClosedPipe
		}
		if q.wclose {
			return 0, io.EOF
		}
		q.cond.Wait()
	}
	if len(p) == 0 {
		return 0, nil
	}
	n := len(p)
	switch q.r.Intn(4) {
	case 0:
		n = 1
	case 1:
		n = 1 + q.r.Intn(40)
	case 2:
		n = 1 + q.r.Intn(2000)
	}
	if n > len(p) {
		n = len(p)
	}
	if n > len(q.buf) {
		n = len(q.buf)
	}
	copy(p, q.buf[:n])
	q.buf = q.buf[n:]
	return n, nil
}

func (q *queue) write(p []byte) (int, error) {
	q.mu.Lock()
	defer q.mu.Unlock()
	if q.wclose || q.rclose {
		return 0, io.ErrClosedPipe
	}
	q.buf = append(q.buf, p...)
	q.cond.Broadcast()
	return len(p), nil
}

func (q *queue) closeWrite() {
	q.mu.Lock()
	q.wclose = true
	q.cond.Broadcast()
	q.mu.Unlock()
}

func (q *queue) closeRead() {
	q.mu.Lock()
	q.rclose = true
	q.cond.Broadcast()
	q.mu.Unlock()
}

// BufConn is one end of a BufPipe.
type BufConn struct {
	in, out *queue
}

// BufPipe returns a buffered, asynchronous in-memory duplex connection.
func BufPipe(seed int64) (*BufConn, *BufConn) {
	a, b := newQueue(seed), newQueue(seed+1)
	return &BufConn{in: a, out: b}, &BufConn{in: b, out: a}
}

func (c *BufConn) Read(p []byte) (int, error)  { return c.in.read(p) }
func (c *BufConn) Write(p []byte) (int, error) { return c.out.write(p) }

// CloseWrite half-closes: the peer reads EOF after draining.
func (c *BufConn) CloseWrite() error { c.out.closeWrite(); return nil }
func (c *BufConn) Close() error {
	c.out.closeWrite()
	c.in.closeRead()
	return nil
}
func (c *BufConn) LocalAddr() net.Addr                { return addr{} }
func (c *BufConn) RemoteAddr() net.Addr               { return addr{} }
func (c *BufConn) SetDeadline(t time.Time) error      { return nil }
func (c *BufConn) SetReadDeadline(t time.Time) error  { return nil }
func (c *BufConn) SetWriteDeadline(t time.Time) error { return nil }

// RecConn records everything written to it (the wire image of one direction).
type RecConn struct {
	mu  sync.Mutex
	Buf bytes.Buffer
	// Writes holds the length of every Write call (frame boundaries as written).
	Writes []int
}

func (c *RecConn) Read(p []byte) (int, error) { return 0, io.EOF }
func (c *RecConn) Write(p []byte) (int, error) {
	c.mu.Lock()
	defer c.mu.Unlock()
	c.Writes = append(c.Writes, len(p))
	return c.Buf.Write(p)
}
func (c *RecConn) Close() error                       { return nil }
func (c *RecConn) LocalAddr() net.Addr                { return addr{} }
func (c *RecConn) RemoteAddr() net.Addr               { return addr{} }
func (c *RecConn) SetDeadline(t time.Time) error      { return nil }
func (c *RecConn) SetReadDeadline(t time.Time) error  { return nil }
func (c *RecConn) SetWriteDeadline(t time.Time) error { return nil }

// FeedConn replays a byte string to its reader in PRNG-sized pieces, then EOF.
type FeedConn struct {
	CR *ChunkReader
}

func NewFeedConn(data []byte, r *rand.Rand) *FeedConn {
	return &FeedConn{CR: &ChunkReader{Data: data, R: r, Mode: 4}}
}
func (c *FeedConn) Read(p []byte) (int, error)         { return c.CR.Read(p) }
func (c *FeedConn) Write(p []byte) (int, error)        { return len(p), nil }
func (c *FeedConn) Close() error                       { return nil }
func (c *FeedConn) LocalAddr() net.Addr                { return addr{} }
func (c *FeedConn) RemoteAddr() net.Addr               { return addr{} }
func (c *FeedConn) SetDeadline(t time.Time) error      { return nil }
func (c *FeedConn) SetReadDeadline(t time.Time) error  { return nil }
func (c *FeedConn) SetWriteDeadline(t time.Time) error { return nil }

var tcpOnce sync.Once
var tcpLn net.Listener

// TCPPair returns a connected loopback TCP pair, or nil,nil when the sandbox
// does not allow listening.
func TCPPair() (net.Conn, net.Conn) {
	tcpOnce.Do(func() {
		ln, err := net.Listen("tcp4", "127.0.0.1:0")
		if err == nil {
			tcpLn = ln
		}
	})
	if tcpLn == nil {
		return nil, nil
	}
	type res struct {
		c   net.Conn
		err error
	}
	ch := make(chan res, 1)
	go func() {
		c, err := tcpLn.Accept()
		ch <- res{c, err}
	}()
	d, err := net.Dial("tcp4", tcpLn.Addr().String())
	if err != nil {
		return nil, nil
	}
	a := <-ch
	if a.err != nil {
		d.Close()
		return nil, nil
	}
	return d, a.c
}
