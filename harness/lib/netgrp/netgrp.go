// Package netgrp holds helpers shared by the network property checks C30-C33.
package netgrp

import (
	"encoding/binary"
	"hash/fnv"
	"io"
	"math/rand"
	"sync"

	"github.com/icon-project/goloop/common/crypto"
	"github.com/icon-project/goloop/common/log"
	"github.com/icon-project/goloop/common/wallet"
	"github.com/icon-project/goloop/module"
)

var quietOnce sync.Once
var quiet log.Logger

// QuietLogger returns a logger that prints nothing below fatal and silences
// the global logger as well.
func QuietLogger() log.Logger {
	quietOnce.Do(func() {
		log.GlobalLogger().SetLevel(log.FatalLevel)
		log.GlobalLogger().SetConsoleLevel(log.FatalLevel)
		l := log.New()
		l.SetLevel(log.FatalLevel)
		l.SetConsoleLevel(log.FatalLevel)
		quiet = l
	})
	return quiet
}

// WalletFrom derives a wallet deterministically from the PRNG.
func WalletFrom(r *rand.Rand) (module.Wallet, []byte) {
	for {
		b := make([]byte, 32)
		r.Read(b)
		b[0] &= 0x7f // below the group order
		sk, err := crypto.ParsePrivateKey(b)
		if err != nil {
			continue
		}
		w, err := wallet.NewFromPrivateKey(sk)
		if err != nil {
			continue
		}
		return w, b
	}
}

// ChunkReader returns the bytes of Data in PRNG-sized chunks, with occasional
// (0, nil) reads. It is the "any stream chunking" of C30.
type ChunkReader struct {
	Data  []byte
	R     *rand.Rand
	Mode  int // 0: 1 byte, 1: small (1..16), 2: random up to 5000, 3: whole, 4: mixed
	Zero  bool
	Reads int
	Zeros int
	off   int
}

func (c *ChunkReader) Read(p []byte) (int, error) {
	c.Reads++
	if c.off >= len(c.Data) {
		return 0, io.EOF
	}
	if len(p) == 0 {
		return 0, nil
	}
	if c.Zero && c.R.Intn(7) == 0 {
		c.Zeros++
		return 0, nil
	}
	var n int
	mode := c.Mode
	if mode == 4 {
		mode = c.R.Intn(4)
	}
	switch mode {
	case 0:
		n = 1
	case 1:
		n = 1 + c.R.Intn(16)
	case 2:
		n = 1 + c.R.Intn(5000)
	default:
		n = len(p)
	}
	if n > len(p) {
		n = len(p)
	}
	if n > len(c.Data)-c.off {
		n = len(c.Data) - c.off
	}
	copy(p, c.Data[c.off:c.off+n])
	c.off += n
	return n, nil
}

// Offset is the number of bytes handed out so far.
func (c *ChunkReader) Offset() int { return c.off }

// WirePacket is the harness's own statement of the packet wire format, used
// to produce byte streams independently of Packet.WriteTo (C32/C33 feed
// real readers with it; C30 uses it only to locate regions).
type WirePacket struct {
	Protocol, SubProtocol uint16
	Src                   []byte // 20 bytes
	Dest, TTL             byte
	Payload               []byte
	ExtHint               byte
	Ext                   []byte
}

// Hash is FNV-1a 64 over header+payload.
func (w *WirePacket) Hash() uint64 {
	h := fnv.New64a()
	h.Write(w.header())
	h.Write(w.Payload)
	return h.Sum64()
}

func (w *WirePacket) header() []byte {
	b := make([]byte, 30)
	binary.BigEndian.PutUint16(b[0:], w.Protocol)
	binary.BigEndian.PutUint16(b[2:], w.SubProtocol)
	copy(b[4:24], w.Src)
	b[24] = w.Dest
	b[25] = w.TTL
	binary.BigEndian.PutUint32(b[26:], uint32(len(w.Payload)))
	return b
}

// Bytes serializes the packet.
func (w *WirePacket) Bytes() []byte {
	b := w.header()
	b = append(b, w.Payload...)
	var f [10]byte
	binary.BigEndian.PutUint64(f[:8], w.Hash())
	binary.BigEndian.PutUint16(f[8:], uint16(w.ExtHint&0x3f)<<10|uint16(len(w.Ext)&0x3ff))
	b = append(b, f[:]...)
	b = append(b, w.Ext...)
	return b
}
