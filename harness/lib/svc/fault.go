package svc

import (
	"encoding/binary"
	"math/big"
	"sync"

	"github.com/icon-project/goloop/common"
	"github.com/icon-project/goloop/common/codec"
	"github.com/icon-project/goloop/common/errors"
	"github.com/icon-project/goloop/module"
	"github.com/icon-project/goloop/service/contract"
	"github.com/icon-project/goloop/service/scoredb"
	"github.com/icon-project/goloop/service/scoreresult"
	"github.com/icon-project/goloop/service/state"
	"github.com/icon-project/goloop/service/transaction"
	"github.com/icon-project/goloop/service/txresult"
)

// This file lets a check run transactions through goloop's REGULAR transaction
// handler (transaction.NewHandler, the one V3 transactions use: balance check,
// step accounting, contract call, status classification in DoExecute, fee
// charging, receipt) while the CONTRACT handler of chosen destination addresses
// ends with a scripted status (fault injection inside the contract call).

// Contract-call endings.
const (
	CallOK          = 0 // nil status
	CallRevert      = 1 // scoreresult.RevertedError: ordinary failure -> failure receipt, block goes on
	CallCriticalIO  = 2 // errors.CriticalIOError (contract store / DB fault): non-retryable system failure
	CallCriticalUnk = 3 // errors.CriticalUnknownError
	CallCriticalFmt = 4 // errors.CriticalFormatError
	CallExecFail    = 5 // errors.ExecutionFailError (EE crashed): retryable; Retry says how many calls end so (255 = forever)
)

// CallKindNames names the endings.
var CallKindNames = []string{"ok", "revert", "critical-io", "critical-unknown", "critical-format", "exec-fail"}

const faultMarker = 0xfa

// FaultAddr is the destination address whose contract handler ends the way
// (kind, retry, then) says: the first `retry` calls end with `kind`, later calls
// with `then`. run and idx make the address unique per executed block and position.
func FaultAddr(run uint32, idx int, kind, retry, then byte) module.Address {
	b := make([]byte, 20)
	b[0] = faultMarker
	b[1], b[2], b[3] = kind, retry, then
	binary.BigEndian.PutUint32(b[8:], run)
	binary.BigEndian.PutUint32(b[16:], uint32(idx))
	return common.NewAccountAddress(b)
}

// PlainAddr is an ordinary destination (real transfer handler), unique per run and position.
func PlainAddr(run uint32, idx int) module.Address {
	b := make([]byte, 20)
	b[0] = 0x7d
	binary.BigEndian.PutUint32(b[8:], run)
	binary.BigEndian.PutUint32(b[16:], uint32(idx))
	return common.NewAccountAddress(b)
}

// SenderAddr is the i-th sender funded by SetupTx.
func SenderAddr(i int) module.Address {
	b := make([]byte, 20)
	b[0] = 0x5e
	binary.BigEndian.PutUint32(b[16:], uint32(i))
	return common.NewAccountAddress(b)
}

// NSenders is how many senders SetupTx funds.
const NSenders = 32

// CallRec is what the contract handlers of one fault address did.
type CallRec struct {
	Calls    int      `json:"calls"`
	Statuses []string `json:"statuses"` // ending of each call, in order
	LastKind int      `json:"last_kind"`
}

// FaultCM wraps the platform's contract manager; only FaultAddr destinations are intercepted.
type FaultCM struct {
	contract.ContractManager
	mu   sync.Mutex
	recs map[string]*CallRec
}

// NewFaultCM wraps cm.
func NewFaultCM(cm contract.ContractManager) *FaultCM {
	return &FaultCM{ContractManager: cm, recs: map[string]*CallRec{}}
}

// Calls returns (a copy of) what happened at a fault address and forgets it.
func (cm *FaultCM) Calls(to module.Address) *CallRec {
	cm.mu.Lock()
	defer cm.mu.Unlock()
	r := cm.recs[string(to.ID())]
	delete(cm.recs, string(to.ID()))
	if r == nil {
		return &CallRec{LastKind: -1}
	}
	c := *r
	c.Statuses = append([]string(nil), r.Statuses...)
	return &c
}

type faultHandler struct {
	*contract.CommonHandler
	cm *FaultCM
	to module.Address
}

func (h *faultHandler) ExecuteSync(cc contract.CallContext) (error, *codec.TypedObj, module.Address) {
	body := h.to.ID()
	b := body
	kind, retry, then := int(body[1]), int(body[2]), int(body[3])
	h.cm.mu.Lock()
	r := h.cm.recs[string(b)]
	if r == nil {
		r = &CallRec{}
		h.cm.recs[string(b)] = r
	}
	k := kind
	if retry != 255 && r.Calls >= retry && retry > 0 {
		k = then
	}
	r.Calls++
	r.LastKind = k
	r.Statuses = append(r.Statuses, CallKindNames[k])
	h.cm.mu.Unlock()
	switch k {
	case CallRevert:
		return scoreresult.RevertedError.New("scripted revert"), nil, nil
	case CallCriticalIO:
		return errors.CriticalIOError.New("FAIL to prepare contract (scripted disk fault)"), nil, nil
	case CallCriticalUnk:
		return errors.CriticalUnknownError.New("scripted unknown critical fault"), nil, nil
	case CallCriticalFmt:
		return errors.CriticalFormatError.New("scripted format fault"), nil, nil
	case CallExecFail:
		return errors.ExecutionFailError.New("scripted execution engine crash"), nil, nil
	}
	return nil, nil, nil
}

// GetHandler intercepts fault addresses.
func (cm *FaultCM) GetHandler(from, to module.Address, value *big.Int, ctype int, data []byte) (contract.ContractHandler, error) {
	if to != nil {
		if id := to.ID(); len(id) == 20 && id[0] == faultMarker && !to.IsContract() {
			return &faultHandler{
				CommonHandler: contract.NewCommonHandler(from, to, value, false, cm.Logger()),
				cm:            cm, to: to,
			}, nil
		}
	}
	return cm.ContractManager.GetHandler(from, to, value, ctype, data)
}

// CallTx is a pre-validated transaction executed by the regular transaction
// handler (transaction.NewHandler), as V3 transactions are.
type CallTx struct {
	*ScriptTx
	from, to module.Address
	dataType *string
	data     []byte
}

// NewCallTx makes the idx-th transaction of a block: a zero-value transfer from -> to.
func NewCallTx(salt string, idx int, ts int64, from, to module.Address) transaction.Transaction {
	RegisterScriptFactory()
	st := &ScriptTx{}
	st.js.Type = ScriptTxType
	st.js.Timestamp = common.HexInt64{Value: ts}
	st.js.Script = Script{Salt: salt + "/call/" + to.String(), Index: idx}
	st.seal()
	return transaction.Wrap(&CallTx{ScriptTx: st, from: from, to: to})
}

func (t *CallTx) From() module.Address { return t.from }
func (t *CallTx) To() module.Address   { return t.to }
func (t *CallTx) GetHandler(cm contract.ContractManager) (transaction.Handler, error) {
	return transaction.NewHandler(cm, module.TransactionGroupNormal, t.from, t.to, big.NewInt(0), big.NewInt(1000000), t.dataType, t.data)
}

// SetupTx plays the role of a genesis: it configures the fee system (step
// price 10, default step cost 100, invoke limit 1e6) and funds SenderAddr(0..NSenders-1).
type SetupTx struct {
	*ScriptTx
}

// NewSetupTx creates the setup transaction.
func NewSetupTx(salt string, ts int64) transaction.Transaction {
	RegisterScriptFactory()
	st := &ScriptTx{}
	st.js.Type = ScriptTxType
	st.js.Timestamp = common.HexInt64{Value: ts}
	st.js.Script = Script{Salt: salt + "/fee-setup", Index: -2}
	st.seal()
	return transaction.Wrap(&SetupTx{st})
}

func (t *SetupTx) GetHandler(cm contract.ContractManager) (transaction.Handler, error) {
	return t, nil
}

func (t *SetupTx) Prepare(ctx contract.Context) (state.WorldContext, error) {
	return ctx.GetFuture([]state.LockRequest{{ID: state.WorldIDStr, Lock: state.AccountWriteLock}}), nil
}

func (t *SetupTx) Execute(ctx contract.Context, wcs state.WorldSnapshot, estimate bool) (txresult.Receipt, error) {
	as := ctx.GetAccountState(state.SystemID)
	if err := scoredb.NewVarDB(as, state.VarStepPrice).Set(big.NewInt(10)); err != nil {
		return nil, err
	}
	if err := scoredb.NewArrayDB(as, state.VarStepTypes).Put(state.StepTypeDefault); err != nil {
		return nil, err
	}
	if err := scoredb.NewDictDB(as, state.VarStepCosts, 1).Set(state.StepTypeDefault, 100); err != nil {
		return nil, err
	}
	if err := scoredb.NewArrayDB(as, state.VarStepLimitTypes).Put(state.StepLimitTypeInvoke); err != nil {
		return nil, err
	}
	if err := scoredb.NewDictDB(as, state.VarStepLimit, 1).Set(state.StepLimitTypeInvoke, 1000000); err != nil {
		return nil, err
	}
	for i := 0; i < NSenders; i++ {
		ctx.GetAccountState(SenderAddr(i).ID()).SetBalance(big.NewInt(1_000_000_000_000_000))
	}
	// the harness system SCORE (content type "system") at ExecScoreAddr
	RegisterExecScore()
	cc := contract.NewCallContext(ctx, big.NewInt(1<<62), false)
	defer cc.Dispose()
	if err := contract.DeployAndInstallSystemSCORE(cc, ExecScoreCID, SenderAddr(0), ExecScoreAddr, nil, t.ID()); err != nil {
		return nil, err
	}
	cc.UpdateSystemInfo()
	r := txresult.NewReceipt(ctx.Database(), ctx.Revision(), t.To())
	r.SetResult(module.StatusSuccess, new(big.Int), new(big.Int), nil)
	return r, nil
}
