// Package svc is the reusable service-transition fixture of the harness:
// a quiet logger, a module.Chain wrapper with a settable ConcurrencyLevel,
// an environment holding database / contract manager / platform, and a
// runner that drives service.NewInitTransition -> service.NewTransition ->
// Execute on real goloop code and collects what the transition callback and
// the receipt list report. The scripted transaction type lives in tx.go, the
// sequential map reference of scripted programs in model.go.
package svc

import (
	"fmt"
	"io"
	"os"
	"sync"
	"sync/atomic"
	"time"

	"github.com/icon-project/goloop/chain/base"
	"github.com/icon-project/goloop/common"
	"github.com/icon-project/goloop/common/db"
	"github.com/icon-project/goloop/common/log"
	"github.com/icon-project/goloop/common/wallet"
	"github.com/icon-project/goloop/consensus"
	"github.com/icon-project/goloop/module"
	"github.com/icon-project/goloop/service"
	"github.com/icon-project/goloop/service/contract"
	"github.com/icon-project/goloop/service/eeproxy"
	"github.com/icon-project/goloop/service/platform/basic"
	"github.com/icon-project/goloop/service/transaction"
	"github.com/icon-project/goloop/test"
)

var quietOnce sync.Once

// Quiet silences goloop's global logger (idempotent).
func Quiet() {
	quietOnce.Do(func() {
		l := log.GlobalLogger()
		l.SetLevel(log.FatalLevel)
		l.SetConsoleLevel(log.FatalLevel)
		l.SetOutput(io.Discard)
	})
}

// QuietLogger returns a fresh logger that prints nothing below Fatal.
func QuietLogger() log.Logger {
	Quiet()
	l := log.New()
	l.SetLevel(log.FatalLevel)
	l.SetConsoleLevel(log.FatalLevel)
	l.SetOutput(io.Discard)
	return l
}

// QuietT implements test.T; Errorf calls are collected instead of printed.
type QuietT struct {
	mu   sync.Mutex
	errs []string
}

func (t *QuietT) Errorf(format string, args ...interface{}) {
	t.mu.Lock()
	if len(t.errs) < 20 {
		t.errs = append(t.errs, fmt.Sprintf(format, args...))
	}
	t.mu.Unlock()
}
func (t *QuietT) Logf(format string, args ...any) {}

// Errors returns what the fixtures complained about.
func (t *QuietT) Errors() []string {
	t.mu.Lock()
	defer t.mu.Unlock()
	return append([]string(nil), t.errs...)
}

// Chain wraps goloop's test.Chain and overrides ConcurrencyLevel.
type Chain struct {
	*test.Chain
	level int32
}

// ConcurrencyLevel is what service.transition.executeTxs consults.
func (c *Chain) ConcurrencyLevel() int { return int(atomic.LoadInt32(&c.level)) }

// SetConcurrencyLevel changes the level for transitions executed afterwards.
func (c *Chain) SetConcurrencyLevel(n int) { atomic.StoreInt32(&c.level, int32(n)) }

// Env is everything a service transition needs.
type Env struct {
	T        *QuietT
	DB       db.Database
	Chain    *Chain
	CM       contract.ContractManager
	Faults   *FaultCM        // == CM: the platform's contract manager with scripted endings for FaultAddr destinations
	EM       eeproxy.Manager // nil: scripted and transfer transactions do not need an execution engine
	Platform base.Platform
	TSC      *service.TxTimestampChecker
	Log      log.Logger
	dir      string
}

// NewEnv builds an environment over a fresh MapDB with the basic platform.
// The contract manager's store directory is removed again right away (nothing
// is left under /tmp even if the process later dies): scripted and transfer
// transactions never store contract code. Use NewEnvKeepDir for deployments.
func NewEnv() (*Env, error) {
	e, err := NewEnvKeepDir()
	if err == nil {
		os.RemoveAll(e.dir)
		e.dir = ""
	}
	return e, err
}

// NewEnvKeepDir is NewEnv with a contract store directory that lives until Close.
func NewEnvKeepDir() (*Env, error) {
	Quiet()
	RegisterScriptFactory()
	e := &Env{T: &QuietT{}, DB: db.NewMapDB(), Platform: basic.Platform, Log: QuietLogger()}
	dir, err := os.MkdirTemp("", "verif-svc-")
	if err != nil {
		return nil, err
	}
	e.dir = dir
	tc, err := test.NewChain(e.T, wallet.New(), e.DB, e.Log, consensus.NewCommitVoteSetFromBytes, defaultGenesis)
	if err != nil {
		os.RemoveAll(dir)
		return nil, err
	}
	e.Chain = &Chain{Chain: tc, level: 1}
	cm, err := e.Platform.NewContractManager(e.DB, dir+"/contract", e.Log)
	if err != nil {
		tc.Close()
		os.RemoveAll(dir)
		return nil, err
	}
	e.Faults = NewFaultCM(cm)
	e.CM = e.Faults
	e.TSC = service.NewTimestampChecker()
	return e, nil
}

const defaultGenesis = `{"accounts":[{"name":"god","address":"hx54f7853dc6481b670caf69c5a27c7c8fe5be8269","balance":"0x2961fff8ca4a62327800000"},{"name":"treasury","address":"hx1000000000000000000000000000000000000000","balance":"0x0"}],"message":"verif"}`

// Close releases the environment (temp dir, fixture goroutine).
func (e *Env) Close() {
	if e.Chain != nil {
		e.Chain.Chain.Close()
	}
	if e.dir != "" {
		os.RemoveAll(e.dir)
	}
}

// Init creates the initial transition (empty world state).
func (e *Env) Init() (module.Transition, error) {
	return service.NewInitTransition(e.DB, nil, nil, e.CM, e.EM, e.Chain, e.Log, e.Platform, e.TSC)
}

// Outcome is what one executed transition reported.
type Outcome struct {
	Tr            module.Transition
	StartErr      error // Execute() itself refused
	ValidateCalls int
	ExecuteCalls  int
	ValidateErr   error
	ExecuteErr    error
	TimedOut      bool // callbacks did not arrive within the watchdog (inconclusive, never a violation)
	Result        []byte
	Receipts      []module.Receipt // NormalReceipts in list order (only when execution succeeded)
	ReceiptErr    error            // error while iterating the receipt list
}

// Succeeded tells whether the transition reported successful execution.
func (o *Outcome) Succeeded() bool {
	return o.StartErr == nil && !o.TimedOut && o.ExecuteCalls > 0 && o.ExecuteErr == nil && o.ValidateErr == nil
}

// Failed tells whether the transition reported an error.
func (o *Outcome) Failed() bool {
	return o.StartErr != nil || o.ValidateErr != nil || (o.ExecuteCalls > 0 && o.ExecuteErr != nil)
}

type trCallback struct {
	mu  sync.Mutex
	o   Outcome
	end chan struct{}
}

func (cb *trCallback) OnValidate(tr module.Transition, err error) {
	cb.mu.Lock()
	cb.o.ValidateCalls++
	cb.o.ValidateErr = err
	cb.mu.Unlock()
	if err != nil {
		cb.finish()
	}
}

func (cb *trCallback) OnExecute(tr module.Transition, err error) {
	cb.mu.Lock()
	cb.o.ExecuteCalls++
	cb.o.ExecuteErr = err
	cb.mu.Unlock()
	cb.finish()
}

func (cb *trCallback) finish() {
	select {
	case cb.end <- struct{}{}:
	default:
	}
}

func (cb *trCallback) snapshot() *Outcome {
	cb.mu.Lock()
	defer cb.mu.Unlock()
	o := cb.o
	return &o
}

// TxList builds a transaction list the way the service manager does.
func (e *Env) TxList(txs []module.Transaction) module.TransactionList {
	return transaction.NewTransactionListFromSlice(e.DB, txs)
}

// Run executes txs as the normal transactions of a child transition of parent
// with the given concurrency level and waits for the callback. A panic inside
// goloop's execution goroutine is process-fatal by design (the child-process
// isolation of the harness reports it).
func (e *Env) Run(parent module.Transition, txs []module.Transaction, height, ts int64, level int, validated bool, watchdog time.Duration) *Outcome {
	e.Chain.SetConcurrencyLevel(level)
	tr := service.NewTransition(parent, nil, e.TxList(txs), common.NewBlockInfo(height, ts), nil, validated)
	cb := &trCallback{end: make(chan struct{}, 4)}
	cb.o.Tr = tr
	if _, err := tr.Execute(cb); err != nil {
		o := cb.snapshot()
		o.StartErr = err
		return o
	}
	select {
	case <-cb.end:
	case <-time.After(watchdog):
		o := cb.snapshot()
		o.TimedOut = true
		return o
	}
	o := cb.snapshot()
	if o.ExecuteCalls > 0 && o.ExecuteErr == nil {
		o.Result = tr.Result()
		rl := tr.NormalReceipts()
		if rl != nil {
			for it := rl.Iterator(); it.Has(); it.Next() {
				r, err := it.Get()
				if err != nil {
					o.ReceiptErr = err
					break
				}
				o.Receipts = append(o.Receipts, r)
			}
		}
	}
	return o
}
