package svc

import (
	"fmt"
	"math/big"
	"regexp"
	"runtime"
	"strings"
	"sync"

	"github.com/icon-project/goloop/common"
	"github.com/icon-project/goloop/module"
	"github.com/icon-project/goloop/service/contract"
	"github.com/icon-project/goloop/service/scoreapi"
	"github.com/icon-project/goloop/service/scoredb"
	"github.com/icon-project/goloop/service/transaction"
)

// A minimal harness system SCORE (content type "system", like the chain
// SCORE), installed by SetupTx at ExecScoreAddr. Calls to it go through the
// REAL contract manager (CallHandler.Prepare -> PrepareContractStore in the
// concurrent executor).

// ExecScoreCID is the content id of the harness system SCORE.
const ExecScoreCID = "verif-exec"

// ExecScoreAddr is where SetupTx installs it.
var ExecScoreAddr = common.MustNewAddressFromString("cx00000000000000000000000000000000000c0010")

type execScore struct {
	cc   contract.CallContext
	from module.Address
}

var execScoreOnce sync.Once

// RegisterExecScore registers the SCORE module (idempotent).
func RegisterExecScore() {
	execScoreOnce.Do(func() {
		contract.RegisterSystemScore(ExecScoreCID, &contract.SystemScoreModule{
			New: func(cid string, cc contract.CallContext, from module.Address, value *big.Int) (contract.SystemScore, error) {
				return &execScore{cc: cc, from: from}, nil
			},
		})
	})
}

func (s *execScore) Install(param []byte) error { return nil }
func (s *execScore) Update(param []byte) error  { return nil }
func (s *execScore) GetAPI() *scoreapi.Info {
	return scoreapi.NewInfo([]*scoreapi.Method{
		{Type: scoreapi.Function, Name: "ping", Flags: scoreapi.FlagExternal, Indexed: 1,
			Inputs: []scoreapi.Parameter{{Name: "v", Type: scoreapi.String}}},
	})
}

// Ex_ping stores v under the caller's key in the SCORE's storage.
func (s *execScore) Ex_ping(v string) error {
	as := s.cc.GetAccountState(ExecScoreAddr.ID())
	return scoredb.NewVarDB(as, "ping."+s.from.String()).Set(v)
}

// NewScoreCallTx makes a transaction that calls ping(v) of the harness system
// SCORE through the regular transaction handler (data type "call").
func NewScoreCallTx(salt string, idx int, ts int64, from module.Address, v string) transaction.Transaction {
	tx := NewCallTx(salt+"/ping/"+v, idx, ts, from, ExecScoreAddr)
	ct := transaction.Unwrap(tx).(*CallTx)
	dt := contract.DataTypeCall
	ct.dataType = &dt
	ct.data = []byte(fmt.Sprintf(`{"method":"ping","params":{"v":%q}}`, v))
	return tx
}

var reGoroutine = regexp.MustCompile(`^goroutine (\d+) \[([^\]]*)\]:`)

// ContractStoreDeadlock inspects all goroutine stacks. It returns the ids and
// stacks of goroutines parked in state "chan send" inside
// contractStoreImpl.Dispose or contractStoreImpl.notify, and whether any
// goroutine is still inside contractManager.storeContract (then the state is
// not yet final). The store channel has no other receiver on the system SCORE
// path, so a parked sender with no storeContract in flight stays parked.
func ContractStoreDeadlock() (parked map[string]string, storing bool) {
	buf := make([]byte, 1<<20)
	for {
		n := runtime.Stack(buf, true)
		if n < len(buf) {
			buf = buf[:n]
			break
		}
		buf = make([]byte, 2*len(buf))
	}
	parked = map[string]string{}
	for _, g := range strings.Split(string(buf), "\n\n") {
		m := reGoroutine.FindStringSubmatch(g)
		if m == nil {
			continue
		}
		if strings.Contains(g, "contractManager).storeContract") {
			storing = true
		}
		if !strings.HasPrefix(m[2], "chan send") {
			continue
		}
		if strings.Contains(g, "contractStoreImpl).Dispose") || strings.Contains(g, "contractStoreImpl).notify") {
			if len(g) > 3000 {
				g = g[:3000]
			}
			parked[m[1]] = g
		}
	}
	return parked, storing
}
