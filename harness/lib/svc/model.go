package svc

import "fmt"

// ModelWorld is the plain-map reference state: "acc/key" -> value.
type ModelWorld map[string]string

func mkey(a, k int) string { return fmt.Sprintf("%d/%d", a, k) }

// Get returns the value of (account, key).
func (w ModelWorld) Get(a, k int) (string, bool) { v, ok := w[mkey(a, k)]; return v, ok }

func (w ModelWorld) clone() ModelWorld {
	c := make(ModelWorld, len(w))
	for k, v := range w {
		c[k] = v
	}
	return c
}

// ModelAttempt is what the reference expects of one attempt.
type ModelAttempt struct {
	Kind     string // ok | retryable | fatal
	Reads    []Read
	Reverted bool
}

// ModelTx is the expectation for one transaction.
type ModelTx struct {
	Attempts []ModelAttempt
}

// ModelResult is the sequential reference execution of a block.
type ModelResult struct {
	Final      ModelWorld
	Txs        []ModelTx
	BlockFails bool // a transaction ended fatally or exhausted its retries
	FailAt     int  // index of the first such transaction (-1 if none)
}

// runAttempt interprets one attempt on a copy of base (same semantics as Script.ExecOps).
func runAttempt(base ModelWorld, s *Script, attempt int) (ModelWorld, ModelAttempt) {
	w := base.clone()
	ma := ModelAttempt{Kind: s.AttemptKind(attempt)}
	var digest uint64
	done := 0
	for opi, op := range s.Ops {
		if op.Only != 0 && op.Only-1 != attempt {
			continue
		}
		if ma.Kind != "ok" && done >= s.Fail.After {
			break
		}
		done++
		switch op.K {
		case OpReset:
			w = base.clone()
			ma.Reverted = true
		case OpRead:
			v, ok := w.Get(op.A, op.Key)
			ma.Reads = append(ma.Reads, Read{Op: opi, A: op.A, Key: op.Key, Present: ok, Val: v})
			var vb []byte
			if ok {
				vb = []byte(v)
			}
			digest = Digest(digest, opi, ok, vb)
		case OpWrite:
			w[mkey(op.A, op.Key)] = string(WrittenValue(s.Index, opi, attempt, digest))
		case OpDelete:
			delete(w, mkey(op.A, op.Key))
		}
	}
	return w, ma
}

// Interpret executes the block one transaction after the other, in order,
// with the executor's retry rule: attempt a+1 follows a retryable failure of
// attempt a while a < retryCount; a retryable failure of attempt retryCount
// or any fatal failure fails the block.
func Interpret(init ModelWorld, block []*Script, retryCount int) *ModelResult {
	res := &ModelResult{FailAt: -1}
	w := init.clone()
	for i, s := range block {
		var mt ModelTx
		for attempt := 0; ; attempt++ {
			nw, ma := runAttempt(w, s, attempt)
			mt.Attempts = append(mt.Attempts, ma)
			if ma.Kind == "ok" {
				w = nw
				break
			}
			if ma.Kind == "fatal" || attempt >= retryCount {
				res.BlockFails = true
				res.FailAt = i
				break
			}
		}
		res.Txs = append(res.Txs, mt)
		if res.BlockFails {
			break
		}
	}
	res.Final = w
	return res
}
