package svc

import (
	"bytes"
	"encoding/binary"
	"encoding/hex"
	"encoding/json"
	"fmt"
	"hash/fnv"
	"math/big"
	"sync"
	"sync/atomic"

	"github.com/sirupsen/logrus"

	"github.com/icon-project/goloop/common"
	"github.com/icon-project/goloop/common/crypto"
	"github.com/icon-project/goloop/common/db"
	"github.com/icon-project/goloop/common/errors"
	"github.com/icon-project/goloop/common/merkle"
	"github.com/icon-project/goloop/common/trie"
	"github.com/icon-project/goloop/module"
	"github.com/icon-project/goloop/service/contract"
	"github.com/icon-project/goloop/service/state"
	"github.com/icon-project/goloop/service/transaction"
	"github.com/icon-project/goloop/service/txresult"
)

// ScriptTxType is the "type" member of the JSON form of a scripted transaction.
const ScriptTxType = "verif-script"

// World is the pseudo account index of the world lock.
const World = -1

// Lock is a declared lock request of a scripted transaction.
type Lock struct {
	A int  `json:"a"` // account index, World (-1) = whole world
	W bool `json:"w"` // write lock (else read lock)
}

// Op kinds.
const (
	OpRead   = "r" // read value (A, Key)
	OpWrite  = "w" // write a unique value derived from (tx, op, attempt, reads so far)
	OpDelete = "d" // delete value
	OpReset  = "x" // ctx.Reset(snapshot at transaction start): the transaction reverts itself; receipt status becomes failure
)

// Op is one step of a scripted transaction.
type Op struct {
	K    string `json:"k"`
	A    int    `json:"a"`
	Key  int    `json:"key,omitempty"`
	Only int    `json:"only,omitempty"` // 0: in every attempt; n>0: only in attempt n-1
}

// Fail scripts what the handler returns.
//
// Attempt a (0-based) returns a retryable error if Retry<0 or a<Retry;
// otherwise, if Fatal, a non-retryable error; otherwise it succeeds. A
// failing attempt executes the first After applicable ops, then returns.
type Fail struct {
	Retry     int    `json:"retry,omitempty"`
	RetryCode string `json:"retryCode,omitempty"` // "exec" (ExecutionFailError, default) | "rerun" (CriticalRerunError)
	Fatal     bool   `json:"fatal,omitempty"`
	FatalCode string `json:"fatalCode,omitempty"` // "invalid" (InvalidStateError, default) | "critical" (CriticalUnknownError) | "plain" (errors.New)
	After     int    `json:"after,omitempty"`
}

// Script is the body of a scripted transaction.
type Script struct {
	Salt  string `json:"salt"`  // makes ids unique across blocks / cases
	Index int    `json:"index"` // position in its block
	Locks []Lock `json:"locks"`
	Ops   []Op   `json:"ops"`
	Fail  Fail   `json:"fail"`
}

type scriptTxJSON struct {
	Type      string          `json:"type"`
	Timestamp common.HexInt64 `json:"timestamp"`
	Script    Script          `json:"script"`
}

// AttemptKind says how an attempt of Script s ends.
func (s *Script) AttemptKind(attempt int) string {
	if s.Fail.Retry < 0 || attempt < s.Fail.Retry {
		return "retryable"
	}
	if s.Fail.Fatal {
		return "fatal"
	}
	return "ok"
}

// AccID is the account id (20 bytes, EOA style) of account index i.
func AccID(i int) []byte {
	b := make([]byte, 20)
	b[0] = 0xac
	binary.BigEndian.PutUint16(b[18:], uint16(i+1))
	return b
}

// TxAddr is the receipt's "to" address of transaction index i (so that the
// receipt at slot i can be attributed to transaction i).
func TxAddr(i int) module.Address {
	b := make([]byte, 20)
	b[0] = 0x7c
	binary.BigEndian.PutUint32(b[16:], uint32(i))
	return common.NewAccountAddress(b)
}

// StepsOf is the stepUsed value of transaction index i.
func StepsOf(i int) int64 { return int64(1000 + i) }

// ValKey is the storage key of slot k.
func ValKey(k int) []byte { return []byte(fmt.Sprintf("slot%d", k)) }

// Read is one observed read.
type Read struct {
	Op      int    `json:"op"`
	A       int    `json:"a"`
	Key     int    `json:"key"`
	Present bool   `json:"present"`
	Val     string `json:"val"` // the bytes as a string (values written by scripts are printable)
}

// WrittenValue is the unique value written by op opi of transaction index tx
// in the given attempt after having observed reads (digest).
func WrittenValue(tx, opi, attempt int, digest uint64) []byte {
	return []byte(fmt.Sprintf("T%d.%d.%d:%016x", tx, opi, attempt, digest))
}

// Digest folds the reads made so far.
func Digest(prev uint64, opi int, present bool, val []byte) uint64 {
	h := fnv.New64a()
	var b [17]byte
	binary.BigEndian.PutUint64(b[:8], prev)
	binary.BigEndian.PutUint64(b[8:16], uint64(opi))
	if present {
		b[16] = 1
	}
	h.Write(b[:])
	h.Write(val)
	return h.Sum64()
}

// AttemptRec is what one handler invocation did.
type AttemptRec struct {
	Attempt  int    `json:"attempt"`
	Reads    []Read `json:"reads"`
	Reverted bool   `json:"reverted"`
	Kind     string `json:"kind"` // ok | retryable | fatal | op-error
	Err      string `json:"err,omitempty"`
	BeginSeq uint64 `json:"begin"`
	EndSeq   uint64 `json:"end"`
	receipt  txresult.Receipt
}

// Receipt is the receipt object the attempt returned (nil if it failed).
func (a *AttemptRec) Receipt() txresult.Receipt { return a.receipt }

// TxRec is the harness-side trace of one scripted transaction in one run.
type TxRec struct {
	Prepares int
	Attempts []*AttemptRec
}

// Recorder collects the trace of one run (one block). Safe for concurrent use.
type Recorder struct {
	mu  sync.Mutex
	seq uint64
	txs map[int]*TxRec
	// Sched, if set, is called before each op of each attempt (op == len(ops)
	// means "just before the handler returns"): the place where a check
	// injects sleeps / Gosched for interleaving diversity.
	Sched func(tx, attempt, op int)
}

// NewRecorder returns an empty recorder.
func NewRecorder() *Recorder { return &Recorder{txs: map[int]*TxRec{}} }

func (r *Recorder) rec(i int) *TxRec {
	t := r.txs[i]
	if t == nil {
		t = &TxRec{}
		r.txs[i] = t
	}
	return t
}

func (r *Recorder) next() uint64 { r.seq++; return r.seq }

// Tx returns a copy of the trace of transaction index i (nil if never touched).
func (r *Recorder) Tx(i int) *TxRec {
	r.mu.Lock()
	defer r.mu.Unlock()
	t := r.txs[i]
	if t == nil {
		return nil
	}
	c := &TxRec{Prepares: t.Prepares}
	for _, a := range t.Attempts {
		ac := *a
		ac.Reads = append([]Read(nil), a.Reads...)
		c.Attempts = append(c.Attempts, &ac)
	}
	return c
}

// CompletionOrder returns the transaction indices in the order in which their
// last attempts ended.
func (r *Recorder) CompletionOrder() []int {
	r.mu.Lock()
	defer r.mu.Unlock()
	type e struct {
		tx  int
		seq uint64
	}
	var l []e
	for i, t := range r.txs {
		if n := len(t.Attempts); n > 0 && t.Attempts[n-1].EndSeq > 0 {
			l = append(l, e{i, t.Attempts[n-1].EndSeq})
		}
	}
	for i := 1; i < len(l); i++ {
		for j := i; j > 0 && l[j].seq < l[j-1].seq; j-- {
			l[j], l[j-1] = l[j-1], l[j]
		}
	}
	out := make([]int, len(l))
	for i := range l {
		out[i] = l[i].tx
	}
	return out
}

// Overlaps counts pairs of transactions whose executions overlapped in time
// (by the recorder's logical clock).
func (r *Recorder) Overlaps() int {
	r.mu.Lock()
	defer r.mu.Unlock()
	type iv struct{ b, e uint64 }
	var l []iv
	for _, t := range r.txs {
		if len(t.Attempts) == 0 {
			continue
		}
		b := t.Attempts[0].BeginSeq
		e := t.Attempts[len(t.Attempts)-1].EndSeq
		if e == 0 {
			continue
		}
		l = append(l, iv{b, e})
	}
	n := 0
	for i := range l {
		for j := i + 1; j < len(l); j++ {
			if l[i].b < l[j].e && l[j].b < l[i].e {
				n++
			}
		}
	}
	return n
}

// ScriptTx is a transaction whose handler interprets a Script. It implements
// module.Transaction, transaction.Transaction, trie.Object and
// transaction.Handler; use NewScriptTx to get it wrapped for transaction lists.
type ScriptTx struct {
	js    scriptTxJSON
	bytes []byte
	id    []byte
	rec   *Recorder
	execs int32
}

// NewScriptTx creates a scripted transaction reporting to rec (may be nil) and
// returns it wrapped the way goloop's transaction lists expect.
func NewScriptTx(s *Script, ts int64, rec *Recorder) transaction.Transaction {
	RegisterScriptFactory()
	t := &ScriptTx{rec: rec}
	t.js.Type = ScriptTxType
	t.js.Timestamp = common.HexInt64{Value: ts}
	t.js.Script = *s
	t.seal()
	return transaction.Wrap(t)
}

func (t *ScriptTx) seal() {
	b, err := json.Marshal(&t.js)
	if err != nil {
		panic(err)
	}
	t.bytes = b
	t.id = crypto.SHA3Sum256(b)
}

// ScriptOf returns the script of a (wrapped) scripted transaction, or nil.
func ScriptOf(tx module.Transaction) *Script {
	if st, ok := transaction.Unwrap(tx).(*ScriptTx); ok {
		return &st.js.Script
	}
	return nil
}

func (t *ScriptTx) Group() module.TransactionGroup { return module.TransactionGroupNormal }
func (t *ScriptTx) ID() []byte                     { return t.id }
func (t *ScriptTx) From() module.Address           { return TxAddr(t.js.Script.Index) }
func (t *ScriptTx) Bytes() []byte                  { return t.bytes }
func (t *ScriptTx) Hash() []byte                   { return t.id }
func (t *ScriptTx) Verify() error                  { return nil }
func (t *ScriptTx) Version() int                   { return module.TransactionVersion3 }
func (t *ScriptTx) ToJSON(version module.JSONVersion) (interface{}, error) {
	var m map[string]interface{}
	err := json.Unmarshal(t.bytes, &m)
	return m, err
}
func (t *ScriptTx) ValidateNetwork(nid int) bool                         { return true }
func (t *ScriptTx) PreValidate(wc state.WorldContext, update bool) error { return nil }
func (t *ScriptTx) GetHandler(cm contract.ContractManager) (transaction.Handler, error) {
	return t, nil
}
func (t *ScriptTx) Timestamp() int64   { return t.js.Timestamp.Value }
func (t *ScriptTx) Nonce() *big.Int    { return nil }
func (t *ScriptTx) To() module.Address { return TxAddr(t.js.Script.Index) }
func (t *ScriptTx) IsSkippable() bool  { return false }

// trie.Object
func (t *ScriptTx) Reset(s db.Database, k []byte) error {
	if err := json.Unmarshal(k, &t.js); err != nil {
		return err
	}
	t.seal()
	return nil
}
func (t *ScriptTx) Flush() error { return nil }
func (t *ScriptTx) Equal(o trie.Object) bool {
	if x, ok := o.(*ScriptTx); ok {
		return bytes.Equal(x.id, t.id)
	}
	return false
}
func (t *ScriptTx) Resolve(builder merkle.Builder) error { return nil }
func (t *ScriptTx) ClearCache()                          {}

// LockRequests translates the declared locks.
func (s *Script) LockRequests() []state.LockRequest {
	lq := make([]state.LockRequest, 0, len(s.Locks))
	for _, l := range s.Locks {
		id := state.WorldIDStr
		if l.A != World {
			id = string(AccID(l.A))
		}
		lk := state.AccountReadLock
		if l.W {
			lk = state.AccountWriteLock
		}
		lq = append(lq, state.LockRequest{ID: id, Lock: lk})
	}
	return lq
}

// Prepare declares the locks exactly like goloop's own handlers do.
func (t *ScriptTx) Prepare(ctx contract.Context) (state.WorldContext, error) {
	if t.rec != nil {
		t.rec.mu.Lock()
		t.rec.rec(t.js.Script.Index).Prepares++
		t.rec.mu.Unlock()
	}
	return ctx.GetFuture(t.js.Script.LockRequests()), nil
}

func retryableErr(code string, tx, attempt int) error {
	if code == "rerun" {
		return errors.CriticalRerunError.Errorf("scripted rerun tx=%d attempt=%d", tx, attempt)
	}
	return errors.ExecutionFailError.Errorf("scripted execution failure tx=%d attempt=%d", tx, attempt)
}

func fatalErr(code string, tx, attempt int) error {
	switch code {
	case "critical":
		return errors.CriticalUnknownError.Errorf("scripted critical failure tx=%d attempt=%d", tx, attempt)
	case "plain":
		return fmt.Errorf("scripted plain failure tx=%d attempt=%d", tx, attempt)
	}
	return errors.InvalidStateError.Errorf("scripted non-retryable failure tx=%d attempt=%d", tx, attempt)
}

// SafeReset calls ws.Reset(wcs) and turns a panic inside it into an error
// (so that a check can report it under a stable key with the program as witness).
func SafeReset(ws state.WorldState, wcs state.WorldSnapshot) (err error) {
	defer func() {
		if p := recover(); p != nil {
			err = fmt.Errorf("Reset panicked: %v", panicText(p))
		}
	}()
	return ws.Reset(wcs)
}

func panicText(p interface{}) string {
	if e, ok := p.(*logrus.Entry); ok { // goloop's log.Panicf panics with the log entry
		return e.Message
	}
	return fmt.Sprint(p)
}

// ExecOps interprets the ops of attempt `attempt` of script s on ws (the
// world state handed to the handler); wcs is the snapshot taken at
// transaction start. It is shared by the transaction handler and by checks
// that drive state.WorldVirtualState directly. It returns the reads, whether
// the transaction reverted itself, and an op error (account not reachable,
// store error) which indicates a broken lock discipline of the state under test.
func (s *Script) ExecOps(ws state.WorldState, wcs state.WorldSnapshot, attempt int, sched func(op int)) (reads []Read, reverted bool, opErr error) {
	kind := s.AttemptKind(attempt)
	var digest uint64
	done := 0
	for opi, op := range s.Ops {
		if op.Only != 0 && op.Only-1 != attempt {
			continue
		}
		if kind != "ok" && done >= s.Fail.After {
			break
		}
		done++
		if sched != nil {
			sched(opi)
		}
		switch op.K {
		case OpReset:
			if err := SafeReset(ws, wcs); err != nil {
				return reads, reverted, fmt.Errorf("op %d reset: %v", opi, err)
			}
			reverted = true
			continue
		}
		as := ws.GetAccountState(AccID(op.A))
		if as == nil {
			return reads, reverted, fmt.Errorf("op %d: account %d not reachable (nil account state)", opi, op.A)
		}
		switch op.K {
		case OpRead:
			v, err := as.GetValue(ValKey(op.Key))
			if err != nil {
				return reads, reverted, fmt.Errorf("op %d read: %v", opi, err)
			}
			reads = append(reads, Read{Op: opi, A: op.A, Key: op.Key, Present: v != nil, Val: string(v)})
			digest = Digest(digest, opi, v != nil, v)
		case OpWrite:
			if _, err := as.SetValue(ValKey(op.Key), WrittenValue(s.Index, opi, attempt, digest)); err != nil {
				return reads, reverted, fmt.Errorf("op %d write: %v", opi, err)
			}
		case OpDelete:
			if _, err := as.DeleteValue(ValKey(op.Key)); err != nil {
				return reads, reverted, fmt.Errorf("op %d delete: %v", opi, err)
			}
		default:
			return reads, reverted, fmt.Errorf("op %d: unknown kind %q", opi, op.K)
		}
	}
	if sched != nil {
		sched(len(s.Ops))
	}
	return reads, reverted, nil
}

// MakeReceipt builds the receipt of a successful attempt: "to" and stepUsed
// identify the transaction, one event log per read carries what it observed.
func (s *Script) MakeReceipt(database db.Database, rev module.Revision, reads []Read, reverted bool) txresult.Receipt {
	to := TxAddr(s.Index)
	r := txresult.NewReceipt(database, rev, to)
	status := module.StatusSuccess
	if reverted {
		status = module.StatusReverted
	} else {
		for _, rd := range reads {
			flag := []byte{0}
			if rd.Present {
				flag[0] = 1
			}
			r.AddLog(to, [][]byte{[]byte("Read(int,int,int)"), {byte(rd.Op)}, {byte(rd.A)}, {byte(rd.Key)}}, [][]byte{flag, []byte(rd.Val)})
		}
	}
	r.SetResult(status, big.NewInt(StepsOf(s.Index)), new(big.Int), nil)
	return r
}

// Execute is the scripted handler.
func (t *ScriptTx) Execute(ctx contract.Context, wcs state.WorldSnapshot, estimate bool) (txresult.Receipt, error) {
	s := &t.js.Script
	attempt := int(atomic.AddInt32(&t.execs, 1)) - 1
	var ar *AttemptRec
	var sched func(int)
	if t.rec != nil {
		t.rec.mu.Lock()
		ar = &AttemptRec{Attempt: attempt, BeginSeq: t.rec.next()}
		tr := t.rec.rec(s.Index)
		tr.Attempts = append(tr.Attempts, ar)
		f := t.rec.Sched
		t.rec.mu.Unlock()
		if f != nil {
			sched = func(op int) { f(s.Index, attempt, op) }
		}
	}
	reads, reverted, opErr := s.ExecOps(ctx, wcs, attempt, sched)
	kind := s.AttemptKind(attempt)
	var rct txresult.Receipt
	var err error
	switch {
	case opErr != nil:
		kind = "op-error"
		err = errors.InvalidStateError.Wrapf(opErr, "scripted tx=%d attempt=%d", s.Index, attempt)
	case kind == "retryable":
		err = retryableErr(s.Fail.RetryCode, s.Index, attempt)
	case kind == "fatal":
		err = fatalErr(s.Fail.FatalCode, s.Index, attempt)
	default:
		rct = s.MakeReceipt(ctx.Database(), ctx.Revision(), reads, reverted)
	}
	if ar != nil {
		t.rec.mu.Lock()
		ar.Reads = reads
		ar.Reverted = reverted
		ar.Kind = kind
		if err != nil {
			ar.Err = err.Error()
		}
		ar.receipt = rct
		ar.EndSeq = t.rec.next()
		t.rec.mu.Unlock()
	}
	return rct, err
}

func (t *ScriptTx) Dispose() {}

func (t *ScriptTx) String() string { return "ScriptTx{" + hex.EncodeToString(t.id[:4]) + "}" }

var factoryOnce sync.Once

// RegisterScriptFactory registers the scripted transaction type with goloop's
// transaction factory registry (idempotent).
func RegisterScriptFactory() {
	factoryOnce.Do(func() {
		transaction.RegisterFactory(&transaction.Factory{
			Priority: 4,
			CheckJSON: func(m map[string]interface{}) bool {
				v, ok := m["type"]
				return ok && v == ScriptTxType
			},
			ParseJSON: func(js []byte, jsm map[string]interface{}, raw bool) (transaction.Transaction, error) {
				t := &ScriptTx{}
				if err := json.Unmarshal(js, &t.js); err != nil {
					return nil, err
				}
				t.seal()
				return t, nil
			},
		})
	})
}
