// Package block holds the helpers of the `block` group (C07, C08): a quiet
// substitute for *testing.T accepted by goloop's exported fixtures, quiet
// nodes, synchronous wrappers around the asynchronous block.Manager API and a
// tiny independent RLP splitter used by the oracles.
package block

import (
	"fmt"
	"io"
	"sync"
	"time"

	"github.com/icon-project/goloop/chain/base"
	"github.com/icon-project/goloop/common/db"
	"github.com/icon-project/goloop/common/log"
	"github.com/icon-project/goloop/module"
	"github.com/icon-project/goloop/service/platform/basic"
	"github.com/icon-project/goloop/test"
)

// QuietT satisfies test.T (Errorf/Logf). Assertion failures of the fixture
// are collected instead of printed.
type QuietT struct {
	mu   sync.Mutex
	errs []string
}

func (t *QuietT) Errorf(format string, args ...interface{}) {
	t.mu.Lock()
	if len(t.errs) < 20 {
		t.errs = append(t.errs, fmt.Sprintf(format, args...))
	}
	t.mu.Unlock()
}

func (t *QuietT) Logf(format string, args ...any) {}

// Errors returns and clears the collected fixture assertion failures.
func (t *QuietT) Errors() []string {
	t.mu.Lock()
	defer t.mu.Unlock()
	e := t.errs
	t.errs = nil
	return e
}

// Silence turns goloop's global logger down to fatal.
func Silence() {
	log.GlobalLogger().SetLevel(log.FatalLevel)
}

// Quiet is a fixture option that turns the node's logger down as early as the
// fixture allows (the platform factory is the first factory that runs after
// test.NewNode forces the logger to trace level).
func Quiet() test.FixtureOption {
	return test.UseConfig(&test.FixtureConfig{
		NewPlatform: func(ctx *test.NodeContext) base.Platform {
			ctx.C.Logger().SetLevel(log.FatalLevel)
			return basic.Platform
		},
	})
}

// NewNode creates a quiet node.
func NewNode(t test.T, o ...test.FixtureOption) *test.Node {
	Silence()
	opts := append([]test.FixtureOption{}, o...)
	opts = append(opts, Quiet())
	return test.NewNode(t, opts...)
}

// ImportOutcome is the result of one import attempt.
type ImportOutcome struct {
	BC       module.BlockCandidate
	SyncErr  error // returned by Import/ImportBlock itself
	CbErr    error // delivered to the callback
	TimedOut bool  // callback never arrived (inconclusive, not a verdict)
}

// Accepted tells whether the import produced a candidate.
func (o *ImportOutcome) Accepted() bool {
	return !o.TimedOut && o.SyncErr == nil && o.CbErr == nil && o.BC != nil
}

// Err returns whichever error rejected the import.
func (o *ImportOutcome) Err() error {
	if o.SyncErr != nil {
		return o.SyncErr
	}
	return o.CbErr
}

type cbRes struct {
	bc  module.BlockCandidate
	err error
}

func wait(ch chan cbRes, d time.Duration) (cbRes, bool) {
	select {
	case r := <-ch:
		return r, true
	case <-time.After(d):
		return cbRes{}, false
	}
}

// ImportReader runs bm.Import synchronously.
func ImportReader(bm module.BlockManager, r io.Reader, flags int, d time.Duration) *ImportOutcome {
	ch := make(chan cbRes, 1)
	_, err := bm.Import(r, flags, func(bc module.BlockCandidate, err error) {
		ch <- cbRes{bc, err}
	})
	if err != nil {
		return &ImportOutcome{SyncErr: err}
	}
	res, ok := wait(ch, d)
	if !ok {
		return &ImportOutcome{TimedOut: true}
	}
	return &ImportOutcome{BC: res.bc, CbErr: res.err}
}

// ImportData runs bm.ImportBlock synchronously.
func ImportData(bm module.BlockManager, bd module.BlockData, flags int, d time.Duration) *ImportOutcome {
	ch := make(chan cbRes, 1)
	_, err := bm.ImportBlock(bd, flags, func(bc module.BlockCandidate, err error) {
		ch <- cbRes{bc, err}
	})
	if err != nil {
		return &ImportOutcome{SyncErr: err}
	}
	res, ok := wait(ch, d)
	if !ok {
		return &ImportOutcome{TimedOut: true}
	}
	return &ImportOutcome{BC: res.bc, CbErr: res.err}
}

// Propose runs bm.Propose synchronously.
func Propose(bm module.BlockManager, parentID []byte, votes module.CommitVoteSet, d time.Duration) (module.BlockCandidate, error, bool) {
	ch := make(chan cbRes, 1)
	_, err := bm.Propose(parentID, votes, func(bc module.BlockCandidate, err error) {
		ch <- cbRes{bc, err}
	})
	if err != nil {
		return nil, err, true
	}
	res, ok := wait(ch, d)
	if !ok {
		return nil, nil, false
	}
	return res.bc, res.err, true
}

// WaitLocators waits until the transaction ids of the node's last finalized block have reached the
// locator bucket of its database. The repository's test ServiceManager drops pooled transactions by
// looking them up in that bucket, which common/txlocator fills asynchronously after Finalize: without
// this wait a loaded machine can see the same transaction proposed (and committed) in two blocks,
// which no real transaction pool would do. Pure fixture synchronisation, no verdict depends on it.
func WaitLocators(n *test.Node) {
	blk, err := n.BM.GetLastBlock()
	if err != nil || blk == nil {
		return
	}
	bk, err := n.Chain.Database().GetBucket(db.TransactionLocatorByHash)
	if err != nil {
		return
	}
	for it := blk.NormalTransactions().Iterator(); it.Has(); _ = it.Next() {
		tx, _, err := it.Get()
		if err != nil {
			return
		}
		for i := 0; i < 10000; i++ {
			if bs, err := bk.Get(tx.ID()); err == nil && bs != nil {
				break
			}
			time.Sleep(time.Millisecond)
		}
	}
}
