package block

import (
	"errors"
)

// Item is one node of an RLP item tree, produced by an independent splitter
// (written for the oracles; it shares no code with goloop's codec).
type Item struct {
	List  bool
	Nil   bool    // the goloop null marker f8 00
	Str   []byte  // payload when !List
	Items []*Item // children when List
	Raw   []byte  // the complete encoding of this item
}

var ErrRLP = errors.New("rlp: malformed")

// Split parses one item from the front of b and returns it with the rest.
func Split(b []byte) (*Item, []byte, error) {
	return split(b, 0)
}

func beSize(b []byte) (int, bool) {
	if len(b) == 0 || len(b) > 8 {
		return 0, false
	}
	var v uint64
	for _, c := range b {
		v = v<<8 | uint64(c)
	}
	if v > 1<<31 {
		return 0, false
	}
	return int(v), true
}

func split(b []byte, depth int) (*Item, []byte, error) {
	if len(b) == 0 || depth > 64 {
		return nil, nil, ErrRLP
	}
	tag := int(b[0])
	var hdr, size int
	list := false
	switch {
	case tag < 0x80:
		return &Item{Str: b[:1], Raw: b[:1]}, b[1:], nil
	case tag <= 0xb7:
		hdr, size = 1, tag-0x80
	case tag < 0xc0:
		n := tag - 0xb7
		if len(b) < 1+n {
			return nil, nil, ErrRLP
		}
		s, ok := beSize(b[1 : 1+n])
		if !ok {
			return nil, nil, ErrRLP
		}
		hdr, size = 1+n, s
	case tag <= 0xf7:
		hdr, size, list = 1, tag-0xc0, true
	default:
		n := tag - 0xf7
		if len(b) < 1+n {
			return nil, nil, ErrRLP
		}
		s, ok := beSize(b[1 : 1+n])
		if !ok {
			return nil, nil, ErrRLP
		}
		if n == 1 && s == 0 {
			return &Item{Nil: true, Raw: b[:2]}, b[2:], nil
		}
		hdr, size, list = 1+n, s, true
	}
	if len(b) < hdr+size {
		return nil, nil, ErrRLP
	}
	it := &Item{List: list, Raw: b[:hdr+size]}
	payload := b[hdr : hdr+size]
	if !list {
		it.Str = payload
		return it, b[hdr+size:], nil
	}
	for len(payload) > 0 {
		ch, rest, err := split(payload, depth+1)
		if err != nil {
			return nil, nil, err
		}
		it.Items = append(it.Items, ch)
		payload = rest
	}
	return it, b[hdr+size:], nil
}

// Bytes returns the byte-string payload of a string item (nil for the null
// marker and for lists).
func (it *Item) Bytes() []byte {
	if it == nil || it.List || it.Nil {
		return nil
	}
	return it.Str
}

// Int decodes a big-endian two's-complement integer payload as goloop's
// codec writes it (minimal length, sign bit in the top byte).
func (it *Item) Int() (int64, bool) {
	if it == nil || it.List || it.Nil || len(it.Str) > 8 {
		return 0, false
	}
	if len(it.Str) == 0 {
		return 0, true
	}
	var v int64
	if it.Str[0]&0x80 != 0 {
		v = -1
	}
	for _, c := range it.Str {
		v = v<<8 | int64(c)
	}
	return v, true
}

// ---- encoder side (generators only) ----

func encLen(base byte, n int) []byte {
	if n <= 55 {
		return []byte{base + byte(n)}
	}
	var l []byte
	for v := n; v > 0; v >>= 8 {
		l = append([]byte{byte(v)}, l...)
	}
	return append([]byte{base + 55 + byte(len(l))}, l...)
}

// EncStr encodes a byte string.
func EncStr(b []byte) []byte {
	if len(b) == 1 && b[0] < 0x80 {
		return []byte{b[0]}
	}
	return append(encLen(0x80, len(b)), b...)
}

// EncNil is goloop's null marker.
func EncNil() []byte { return []byte{0xf8, 0x00} }

// EncBytes encodes nil as the null marker and anything else as a string.
func EncBytes(b []byte) []byte {
	if b == nil {
		return EncNil()
	}
	return EncStr(b)
}

// EncList wraps already encoded items into a list.
func EncList(items ...[]byte) []byte {
	n := 0
	for _, it := range items {
		n += len(it)
	}
	out := encLen(0xc0, n)
	for _, it := range items {
		out = append(out, it...)
	}
	return out
}

// EncInt encodes a signed integer the way goloop's codec does (minimal
// two's-complement big-endian, zero as one 0x00 byte).
func EncInt(v int64) []byte {
	if v == 0 {
		return []byte{0x00}
	}
	var b []byte
	for i := 7; i >= 0; i-- {
		b = append(b, byte(v>>(8*uint(i))))
	}
	for len(b) > 1 {
		if (b[0] == 0x00 && b[1]&0x80 == 0) || (b[0] == 0xff && b[1]&0x80 != 0) {
			b = b[1:]
		} else {
			break
		}
	}
	return EncStr(b)
}
