// Package state (group "state") holds the reference model of goloop's world
// state used by C14 and C20: a small account universe, an operation type that
// can be applied both to the real state.WorldState and to the model, and an
// observer that compares every getter of a real account with the model.
package state

import (
	"bytes"
	"encoding/hex"
	"fmt"
	"math/big"
	"math/rand"
	"sort"
	"strings"

	"golang.org/x/crypto/sha3"

	"github.com/icon-project/goloop/common"
	"github.com/icon-project/goloop/common/intconv"
	"github.com/icon-project/goloop/module"
	ss "github.com/icon-project/goloop/service/state"
)

// NAcc is the size of the account universe: 0..2 EOA-typed, 3..5 contract-typed.
const NAcc = 6

// Addrs are the addresses of the universe; IDs their account ids.
var (
	Addrs  [NAcc]*common.Address
	IDs    [NAcc][]byte
	Owners []*common.Address
	Keys   [][]byte
)

func init() {
	for i := 0; i < NAcc; i++ {
		body := make([]byte, 20)
		for j := range body {
			body[j] = byte(0x10*(i+1) + j)
		}
		if i >= 3 {
			Addrs[i] = common.NewContractAddress(body)
		} else {
			Addrs[i] = common.NewAccountAddress(body)
		}
		IDs[i] = Addrs[i].ID()
	}
	for i := 0; i < 3; i++ {
		body := bytes.Repeat([]byte{byte(0xa0 + i)}, 20)
		Owners = append(Owners, common.NewAccountAddress(body))
	}
	// storage keys with shared prefixes (nibble level and byte level)
	Keys = [][]byte{
		[]byte("a"), []byte("ab"), []byte("abc"), []byte("abd"), []byte("b"),
		{0x61, 0x70}, {0x00}, {0x00, 0x00}, {0xff},
		bytes.Repeat([]byte{0x33}, 32),
		append(bytes.Repeat([]byte{0x33}, 31), 0x34),
		append(bytes.Repeat([]byte{0x33}, 16), bytes.Repeat([]byte{0x44}, 16)...),
	}
}

// Contract is the model of one contract slot.
type Contract struct {
	Status      int
	ContentType string
	EEType      string
	DeployTx    []byte
	AuditTx     []byte
	CodeHash    []byte
	Params      []byte
	Code        []byte
}

func (c *Contract) clone() *Contract {
	if c == nil {
		return nil
	}
	n := *c
	return &n
}

func (c *Contract) enc(sb *strings.Builder) {
	if c == nil {
		sb.WriteString("-")
		return
	}
	fmt.Fprintf(sb, "{%d,%q,%q,%x,%x,%x,%x}", c.Status, c.ContentType, c.EEType, c.DeployTx, c.AuditTx, c.CodeHash, c.Params)
}

// Account is the model of one account's logical contents.
type Account struct {
	Balance    *big.Int
	Storage    map[string]string
	IsContract bool
	Owner      *common.Address
	State      int
	Cur, Next  *Contract
	// Deposit is the remaining amount of the account's (term-less, "V2")
	// fee-sharing deposit; nil = no deposit (a deposit of 0 is a deposit).
	Deposit *big.Int
	// Recipe is the sequence of contract-related operations that produced
	// IsContract/Owner(initial)/Cur/Next; replaying it on a fresh account
	// reproduces these fields (used to reach the same content another way).
	Recipe []Op
}

// NewAccount returns the never-touched account.
func NewAccount() *Account {
	return &Account{Balance: new(big.Int), Storage: map[string]string{}}
}

// Clone deep-copies the account.
func (a *Account) Clone() *Account {
	n := &Account{Balance: new(big.Int).Set(a.Balance), Storage: make(map[string]string, len(a.Storage)),
		IsContract: a.IsContract, Owner: a.Owner, State: a.State, Cur: a.Cur.clone(), Next: a.Next.clone()}
	for k, v := range a.Storage {
		n.Storage[k] = v
	}
	n.Recipe = append([]Op(nil), a.Recipe...)
	if a.Deposit != nil {
		n.Deposit = new(big.Int).Set(a.Deposit)
	}
	return n
}

// IsEmpty is the statement's notion of an empty account: zero balance, no
// storage entry, not a contract, no state flag.
func (a *Account) IsEmpty() bool {
	return a.Balance.Sign() == 0 && len(a.Storage) == 0 && !a.IsContract && a.State == 0
}

// Enc is the canonical encoding of the logical contents.
func (a *Account) Enc(sb *strings.Builder) {
	if a.IsEmpty() {
		sb.WriteString("E;")
		return
	}
	fmt.Fprintf(sb, "b=%s,c=%v,s=%d,o=", a.Balance.String(), a.IsContract, a.State)
	if a.Owner != nil {
		sb.WriteString(a.Owner.String())
	}
	sb.WriteString(",st=[")
	ks := make([]string, 0, len(a.Storage))
	for k := range a.Storage {
		ks = append(ks, k)
	}
	sort.Strings(ks)
	for _, k := range ks {
		fmt.Fprintf(sb, "%x:%x,", k, a.Storage[k])
	}
	sb.WriteString("],cur=")
	a.Cur.enc(sb)
	sb.WriteString(",next=")
	a.Next.enc(sb)
	if a.Deposit != nil {
		sb.WriteString(",dep=" + a.Deposit.String())
	}
	sb.WriteString(";")
}

// World is the model of the whole account universe.
type World struct {
	Acc [NAcc]*Account
}

// NewWorld returns the never-touched world.
func NewWorld() *World {
	w := &World{}
	for i := range w.Acc {
		w.Acc[i] = NewAccount()
	}
	return w
}

// Clone deep-copies the world.
func (w *World) Clone() *World {
	n := &World{}
	for i := range w.Acc {
		n.Acc[i] = w.Acc[i].Clone()
	}
	return n
}

// Key is the canonical encoding of the logical contents of the world.
func (w *World) Key() string {
	var sb strings.Builder
	for i := range w.Acc {
		w.Acc[i].Enc(&sb)
	}
	return sb.String()
}

// NonEmpty counts the accounts with contents.
func (w *World) NonEmpty() int {
	n := 0
	for _, a := range w.Acc {
		if !a.IsEmpty() {
			n++
		}
	}
	return n
}

// Operation kinds.
const (
	OpSetBalance = iota
	OpSetValue
	OpDeleteValue
	OpInitContract
	OpSetOwner
	OpSetBlock
	OpSetDisable
	OpSetSysDeposit
	OpDeploy
	OpAccept
	OpReject
	OpActivate
	OpSetCode
	OpAddDeposit // AddDeposit(Bal)
	OpWithdraw   // WithdrawDeposit(all if B, else Bal)
	OpPaySteps   // PaySteps(Bal steps)
	OpSnapshot   // take a world snapshot
	OpReset      // reset to snapshot number Snap
	opKinds
)

var opNames = []string{"SetBalance", "SetValue", "DeleteValue", "InitContract", "SetOwner", "SetBlock", "SetDisable",
	"SetSysDeposit", "Deploy", "Accept", "Reject", "Activate", "SetCode", "AddDeposit", "Withdraw", "PaySteps", "Snapshot", "Reset"}

// Op is one operation with concrete arguments.
type Op struct {
	Kind   int
	Acc    int
	K, V   []byte
	Bal    *big.Int
	Owner  int
	B      bool
	Code   []byte
	Params []byte
	Tx     []byte
	Audit  []byte
	EE     string
	CT     string
	Snap   int
}

func (o Op) String() string {
	switch o.Kind {
	case OpSetBalance:
		return fmt.Sprintf("SetBalance(a%d,%s)", o.Acc, o.Bal)
	case OpSetValue:
		return fmt.Sprintf("SetValue(a%d,%x,%x)", o.Acc, o.K, o.V)
	case OpDeleteValue:
		return fmt.Sprintf("DeleteValue(a%d,%x)", o.Acc, o.K)
	case OpInitContract, OpSetOwner:
		return fmt.Sprintf("%s(a%d,owner%d)", opNames[o.Kind], o.Acc, o.Owner)
	case OpSetBlock, OpSetDisable, OpSetSysDeposit:
		return fmt.Sprintf("%s(a%d,%v)", opNames[o.Kind], o.Acc, o.B)
	case OpDeploy:
		return fmt.Sprintf("Deploy(a%d,code=%x,ee=%s,ct=%s,params=%x,tx=%x)", o.Acc, o.Code, o.EE, o.CT, o.Params, o.Tx)
	case OpAccept, OpReject:
		return fmt.Sprintf("%s(a%d,tx=%x,audit=%x)", opNames[o.Kind], o.Acc, o.Tx, o.Audit)
	case OpActivate:
		return fmt.Sprintf("Activate(a%d)", o.Acc)
	case OpSetCode:
		return fmt.Sprintf("SetCode(a%d,%x)", o.Acc, o.Code)
	case OpAddDeposit, OpPaySteps:
		return fmt.Sprintf("%s(a%d,%s)", opNames[o.Kind], o.Acc, o.Bal)
	case OpWithdraw:
		if o.B {
			return fmt.Sprintf("Withdraw(a%d,all)", o.Acc)
		}
		return fmt.Sprintf("Withdraw(a%d,%s)", o.Acc, o.Bal)
	case OpSnapshot:
		return "Snapshot"
	case OpReset:
		return fmt.Sprintf("Reset(#%d)", o.Snap)
	}
	return "?"
}

// Result is the observable outcome of an operation (return value / error).
type Result struct {
	Old []byte // returned previous value (SetValue/DeleteValue/Deploy)
	OK  bool   // InitContract result
	Err bool   // the call returned an error
	Num string // numeric return values (WithdrawDeposit amount/fee, PaySteps paid/byDeposit)
}

func (r Result) String() string {
	return fmt.Sprintf("{old=%x ok=%v err=%v num=%s}", r.Old, r.OK, r.Err, r.Num)
}

// Equal compares results (nil and empty byte strings are the same).
func (r Result) Equal(o Result) bool {
	return bytes.Equal(r.Old, o.Old) && r.OK == o.OK && r.Err == o.Err && r.Num == o.Num
}

func sum256(b []byte) []byte {
	h := sha3.Sum256(b)
	return h[:]
}

func isContractOp(k int) bool {
	switch k {
	case OpInitContract, OpDeploy, OpAccept, OpReject, OpActivate, OpSetCode:
		return true
	}
	return false
}

// Apply applies an account operation to the model (the semantics are those
// of the AccountState interface as documented by its implementation).
func (w *World) Apply(o Op) Result {
	a := w.Acc[o.Acc]
	var res Result
	changed := false
	switch o.Kind {
	case OpSetBalance:
		a.Balance = new(big.Int).Set(o.Bal)
	case OpSetValue:
		if len(o.V) == 0 {
			if old, ok := a.Storage[string(o.K)]; ok {
				res.Old = []byte(old)
				delete(a.Storage, string(o.K))
			}
		} else {
			if old, ok := a.Storage[string(o.K)]; ok {
				res.Old = []byte(old)
			}
			a.Storage[string(o.K)] = string(o.V)
		}
	case OpDeleteValue:
		if old, ok := a.Storage[string(o.K)]; ok {
			res.Old = []byte(old)
			delete(a.Storage, string(o.K))
		}
	case OpInitContract:
		if !a.IsContract {
			a.IsContract = true
			a.Owner = Owners[o.Owner]
			res.OK = true
			changed = true
		}
	case OpSetOwner:
		if !a.IsContract {
			res.Err = true
		} else {
			a.Owner = Owners[o.Owner]
		}
	case OpSetBlock:
		if o.B {
			a.State |= ss.ASBlocked
		} else {
			a.State &^= ss.ASBlocked
		}
	case OpSetDisable:
		if a.IsContract {
			if o.B {
				a.State |= ss.ASDisabled
			} else {
				a.State &^= ss.ASDisabled
			}
		}
	case OpSetSysDeposit:
		if !a.IsContract {
			res.Err = true
		} else if o.B {
			a.State |= ss.ASUseSystemDeposit
		} else {
			a.State &^= ss.ASUseSystemDeposit
		}
	case OpDeploy:
		if !a.IsContract {
			break
		}
		if a.Next != nil {
			if a.Next.Status == int(ss.CSActive) {
				res.Err = true
				break
			}
			res.Old = a.Next.DeployTx
		}
		a.Next = &Contract{Status: int(ss.CSPending), ContentType: o.CT, EEType: o.EE, DeployTx: o.Tx,
			CodeHash: sum256(o.Code), Params: o.Params, Code: o.Code}
		changed = true
	case OpActivate:
		if a.Next == nil || a.Next.Status != int(ss.CSPending) {
			res.Err = true
			break
		}
		if a.Cur != nil {
			a.Cur.Status = int(ss.CSInactive)
		}
		a.Next.Status = int(ss.CSActive)
		changed = true
	case OpAccept:
		if !a.IsContract || a.Next == nil || !bytes.Equal(o.Tx, a.Next.DeployTx) || a.Next.Status == int(ss.CSRejected) {
			res.Err = true
			break
		}
		a.Cur = a.Next
		a.Cur.Status = int(ss.CSActive)
		a.Cur.AuditTx = o.Audit
		a.Next = nil
		changed = true
	case OpReject:
		if !a.IsContract || a.Next == nil || !bytes.Equal(o.Tx, a.Next.DeployTx) || a.Next.Status != int(ss.CSPending) {
			res.Err = true
			break
		}
		a.Next.Status = int(ss.CSRejected)
		a.Next.AuditTx = o.Audit
		changed = true
	case OpSetCode:
		// only generated when Cur != nil and code is non-empty
		if a.Cur == nil {
			res.Err = true
			break
		}
		a.Cur.Code = o.Code
		a.Cur.CodeHash = sum256(o.Code)
		changed = true
	case OpAddDeposit:
		if a.Deposit == nil {
			a.Deposit = new(big.Int).Set(o.Bal)
		} else {
			a.Deposit = new(big.Int).Add(a.Deposit, o.Bal)
		}
	case OpWithdraw:
		switch {
		case a.Deposit == nil:
			res.Err = true
		case o.B:
			res.Num = a.Deposit.String() + "/0"
			a.Deposit = nil
		case a.Deposit.Cmp(o.Bal) < 0:
			res.Err = true
		default:
			res.Num = o.Bal.String() + "/0"
			a.Deposit = new(big.Int).Sub(a.Deposit, o.Bal)
		}
	case OpPaySteps:
		if a.Deposit == nil {
			res.Num = "nil/nil"
			break
		}
		payable := new(big.Int).Div(a.Deposit, StepPrice)
		by := o.Bal
		if payable.Cmp(o.Bal) < 0 {
			by = payable
		}
		res.Num = by.String() + "/" + by.String()
		a.Deposit = new(big.Int).Sub(a.Deposit, new(big.Int).Mul(by, StepPrice))
	default:
		panic("not an account op")
	}
	if changed && isContractOp(o.Kind) {
		a.Recipe = append(a.Recipe, o)
	}
	return res
}

// ApplyReal applies the operation to the real world state (the account
// state is looked up freshly, as clients do after ClearCache).
func ApplyReal(ws ss.WorldState, o Op) Result {
	as := ws.GetAccountState(IDs[o.Acc])
	var res Result
	switch o.Kind {
	case OpSetBalance:
		as.SetBalance(new(big.Int).Set(o.Bal))
	case OpSetValue:
		old, err := as.SetValue(o.K, o.V)
		res.Old, res.Err = old, err != nil
	case OpDeleteValue:
		old, err := as.DeleteValue(o.K)
		res.Old, res.Err = old, err != nil
	case OpInitContract:
		res.OK = as.InitContractAccount(Owners[o.Owner])
	case OpSetOwner:
		res.Err = as.SetContractOwner(Owners[o.Owner]) != nil
	case OpSetBlock:
		as.SetBlock(o.B)
	case OpSetDisable:
		as.SetDisable(o.B)
	case OpSetSysDeposit:
		res.Err = as.SetUseSystemDeposit(o.B) != nil
	case OpDeploy:
		old, err := as.DeployContract(o.Code, ss.EEType(o.EE), o.CT, o.Params, o.Tx)
		res.Old, res.Err = old, err != nil
	case OpActivate:
		res.Err = as.ActivateNextContract() != nil
	case OpAccept:
		res.Err = as.AcceptContract(o.Tx, o.Audit) != nil
	case OpReject:
		res.Err = as.RejectContract(o.Tx, o.Audit) != nil
	case OpSetCode:
		if c := as.Contract(); c == nil {
			res.Err = true
		} else {
			res.Err = c.SetCode(o.Code) != nil
		}
	case OpAddDeposit:
		res.Err = as.AddDeposit(Ctx{}, new(big.Int).Set(o.Bal)) != nil
	case OpWithdraw:
		var v *big.Int
		if !o.B {
			v = new(big.Int).Set(o.Bal)
		}
		amount, fee, err := as.WithdrawDeposit(Ctx{}, nil, v)
		if res.Err = err != nil; !res.Err {
			res.Num = fmt.Sprint(amount) + "/" + fmt.Sprint(fee)
		}
	case OpPaySteps:
		paid, by, err := as.PaySteps(Ctx{}, new(big.Int).Set(o.Bal))
		res.Err = err != nil
		res.Num = numOrNil(paid) + "/" + numOrNil(by)
	default:
		panic("not an account op")
	}
	return res
}

func numOrNil(v *big.Int) string {
	if v == nil {
		return "nil"
	}
	return v.String()
}

// StepPrice is the step price of the harness's deposit/pay context.
var StepPrice = big.NewInt(100)

// Ctx implements state.DepositContext (term 0 = "V2" deposits) and
// state.PayContext (fee sharing enabled) with fixed parameters.
type Ctx struct{ Limit *big.Int }

func (Ctx) StepPrice() *big.Int        { return StepPrice }
func (Ctx) BlockHeight() int64         { return 10 }
func (Ctx) DepositTerm() int64         { return 0 }
func (Ctx) DepositIssueRate() *big.Int { return big.NewInt(8) }
func (Ctx) TransactionID() []byte      { return []byte{1} }
func (Ctx) FeeSharingEnabled() bool    { return true }
func (c Ctx) FeeLimit() *big.Int {
	if c.Limit == nil {
		return new(big.Int)
	}
	return c.Limit
}

var feeLimits = []*big.Int{big.NewInt(0), big.NewInt(1), big.NewInt(2500), big.NewInt(100000)}
var depositAmounts = []*big.Int{big.NewInt(0), big.NewInt(99), big.NewInt(100), big.NewInt(2500), big.NewInt(50000), big.NewInt(100000)}

var balances = []*big.Int{
	big.NewInt(0), big.NewInt(0), big.NewInt(1), big.NewInt(2), big.NewInt(127), big.NewInt(128), big.NewInt(255), big.NewInt(256),
	new(big.Int).Lsh(big.NewInt(1), 63), new(big.Int).Lsh(big.NewInt(1), 64),
	new(big.Int).Sub(new(big.Int).Lsh(big.NewInt(1), 64), big.NewInt(1)),
	new(big.Int).Lsh(big.NewInt(1), 255), new(big.Int).Exp(big.NewInt(10), big.NewInt(24), nil),
}

var values [][]byte

func init() {
	values = [][]byte{
		{1}, {0}, {0x7f}, {0x80}, []byte("v"), []byte("value"), []byte("value2"),
		bytes.Repeat([]byte{0xee}, 31), bytes.Repeat([]byte{0xee}, 32), bytes.Repeat([]byte{0xee}, 33),
		bytes.Repeat([]byte{0x55}, 56), bytes.Repeat([]byte{0x11}, 120),
	}
}

var (
	codes  = [][]byte{[]byte("code-A"), []byte("code-B"), bytes.Repeat([]byte("C"), 100)}
	txs    = [][]byte{sum256([]byte("tx1")), sum256([]byte("tx2")), []byte("shorttx"), sum256([]byte("tx4")), sum256([]byte("tx5"))}
	audits = [][]byte{sum256([]byte("audit1")), []byte("au2"), nil}
	params = [][]byte{nil, []byte("{}"), []byte("params-x")}
	ees    = []string{"python", "java", "system"}
	ctypes = []string{ss.CTAppZip, ss.CTAppJava}
)

// GenOp generates one account operation, biased by the current model state
// so that contract life-cycle operations are mostly applicable and deletes
// mostly hit existing keys.
func GenOp(r *rand.Rand, w *World) Op {
	acc := r.Intn(NAcc)
	a := w.Acc[acc]
	o := Op{Acc: acc}
	pick := r.Intn(100)
	if acc >= 3 && pick < 72 && r.Intn(2) == 0 {
		pick = 99 // contract-typed accounts: half of the operations are contract operations
	}
	switch {
	case pick < 18:
		o.Kind = OpSetBalance
		o.Bal = balances[r.Intn(len(balances))]
		if r.Intn(4) == 0 {
			o.Bal = big.NewInt(0) // back to zero
		}
	case pick < 45:
		o.Kind = OpSetValue
		o.K = Keys[r.Intn(len(Keys))]
		o.V = values[r.Intn(len(values))]
		if r.Intn(10) == 0 {
			o.V = nil // SetValue with empty value deletes
		}
	case pick < 65:
		o.Kind = OpDeleteValue
		o.K = Keys[r.Intn(len(Keys))]
		if len(a.Storage) > 0 && r.Intn(4) != 0 {
			// an existing key (deterministic pick)
			ks := make([]string, 0, len(a.Storage))
			for k := range a.Storage {
				ks = append(ks, k)
			}
			sort.Strings(ks)
			o.K = []byte(ks[r.Intn(len(ks))])
		}
	case pick < 72:
		o.Kind = OpSetBlock
		o.B = r.Intn(2) == 0
	default:
		if acc < 3 {
			// EOA-typed accounts: contract operations only rarely (they must fail or be no-ops)
			switch r.Intn(6) {
			case 0:
				o.Kind, o.Owner = OpSetOwner, r.Intn(len(Owners))
			case 1:
				o.Kind, o.B = OpSetSysDeposit, r.Intn(2) == 0
			case 2:
				o.Kind, o.B = OpSetDisable, r.Intn(2) == 0
			case 3:
				o.Kind, o.Tx, o.Audit = OpAccept, txs[r.Intn(len(txs))], audits[r.Intn(len(audits))]
			default:
				o.Kind = OpSetBalance
				o.Bal = balances[r.Intn(len(balances))]
			}
			return o
		}
		if !a.IsContract && r.Intn(5) != 0 {
			o.Kind, o.Owner = OpInitContract, r.Intn(len(Owners))
			return o
		}
		deploy := func() {
			// The deploying transaction determines code, EE type, content type
			// and parameters (contract.Equal identifies a contract by deploy tx
			// hash, audit tx hash, code hash and status), so one tx hash never
			// comes with two different deployments.
			t := r.Intn(len(txs))
			o.Kind = OpDeploy
			o.Tx = txs[t]
			o.Code = codes[t%len(codes)]
			o.EE = ees[(t/2)%len(ees)]
			o.CT = ctypes[t%len(ctypes)]
			o.Params = params[t%len(params)]
		}
		audit := func(kind int) {
			o.Kind = kind
			o.Tx = txs[r.Intn(len(txs))]
			if a.Next != nil && r.Intn(6) != 0 {
				o.Tx = a.Next.DeployTx
			}
			o.Audit = audits[r.Intn(len(audits))]
		}
		k := r.Intn(28)
		switch {
		case k >= 20 && !a.IsContract:
			// deposits only on contract accounts (IsEmpty ignores deposits, and
			// goloop only ever deposits to contracts)
			o.Kind, o.Owner = OpInitContract, r.Intn(len(Owners))
		case k >= 20 && (a.Deposit == nil || k <= 21):
			o.Kind, o.Bal = OpAddDeposit, depositAmounts[r.Intn(len(depositAmounts))]
		case k >= 20 && k <= 24:
			o.Kind, o.Bal = OpPaySteps, big.NewInt(int64(1+r.Intn(40)))
			if r.Intn(4) == 0 {
				o.Bal = big.NewInt(int64(1 + r.Intn(2000)))
			}
		case k == 25:
			o.Kind, o.B = OpWithdraw, true
		case k >= 26:
			o.Kind, o.Bal = OpWithdraw, depositAmounts[r.Intn(len(depositAmounts))]
			if r.Intn(3) == 0 {
				o.Bal = new(big.Int).Set(a.Deposit) // exactly the rest: leaves a deposit of 0
			}
		case k == 0:
			o.Kind, o.Owner = OpInitContract, r.Intn(len(Owners))
		case k <= 2:
			o.Kind, o.Owner = OpSetOwner, r.Intn(len(Owners))
		case k <= 4:
			o.Kind, o.B = OpSetDisable, r.Intn(2) == 0
		case k <= 6:
			o.Kind, o.B = OpSetSysDeposit, r.Intn(2) == 0
		case a.Next == nil:
			if a.Cur != nil && k <= 10 {
				o.Kind = OpSetCode
				o.Code = codes[r.Intn(len(codes))]
			} else if k == 11 {
				audit(OpAccept) // must fail
			} else if k == 12 {
				o.Kind = OpActivate // must fail
			} else {
				deploy()
			}
		case k <= 12:
			audit(OpAccept)
		case k <= 14:
			audit(OpReject)
		case k <= 16:
			o.Kind = OpActivate
		case k == 17 && a.Cur != nil:
			o.Kind = OpSetCode
			o.Code = codes[r.Intn(len(codes))]
		default:
			deploy()
		}
	}
	return o
}

// AcctView is the part of AccountSnapshot/AccountState both have.
type AcctView interface {
	ss.AccountData
}

type contractView interface {
	CodeHash() []byte
	Code() ([]byte, error)
	EEType() ss.EEType
	ContentType() string
	DeployTxHash() []byte
	AuditTxHash() []byte
	Params() []byte
	Status() ss.ContractStatus
}

// Diff is one observed difference between a real account and the model.
type Diff struct {
	Field string `json:"field"`
	Acc   int    `json:"acc"`
	Want  string `json:"want"`
	Got   string `json:"got"`
}

func cmpContract(acc int, slot string, c contractView, m *Contract, withCode bool, out []Diff) []Diff {
	if (c == nil) != (m == nil) {
		return append(out, Diff{slot + ".presence", acc, fmt.Sprint(m != nil), fmt.Sprint(c != nil)})
	}
	if c == nil {
		return out
	}
	chk := func(f string, want, got []byte) {
		if !bytes.Equal(want, got) {
			out = append(out, Diff{slot + "." + f, acc, hex.EncodeToString(want), hex.EncodeToString(got)})
		}
	}
	if int(c.Status()) != m.Status {
		out = append(out, Diff{slot + ".status", acc, fmt.Sprint(m.Status), fmt.Sprint(int(c.Status()))})
	}
	if c.ContentType() != m.ContentType {
		out = append(out, Diff{slot + ".contentType", acc, m.ContentType, c.ContentType()})
	}
	if string(c.EEType()) != m.EEType {
		out = append(out, Diff{slot + ".eeType", acc, m.EEType, string(c.EEType())})
	}
	chk("deployTx", m.DeployTx, c.DeployTxHash())
	chk("auditTx", m.AuditTx, c.AuditTxHash())
	chk("codeHash", m.CodeHash, c.CodeHash())
	chk("params", m.Params, c.Params())
	if withCode {
		code, err := c.Code()
		if err != nil {
			out = append(out, Diff{slot + ".code", acc, hex.EncodeToString(m.Code), "error:" + err.Error()})
		} else {
			chk("code", m.Code, code)
		}
	}
	return out
}

// Observe compares every getter of the real account (nil = account absent)
// with the model account. cur/next are the contract slots of the real
// account (nil interfaces when absent).
func Observe(acc int, v AcctView, cur, next contractView, m *Account, withCode bool, out []Diff) []Diff {
	if v == nil {
		if !m.IsEmpty() {
			out = append(out, Diff{"presence", acc, "present", "absent"})
		}
		return out
	}
	if v.GetBalance().Cmp(m.Balance) != 0 {
		out = append(out, Diff{"balance", acc, m.Balance.String(), v.GetBalance().String()})
	}
	if v.IsContract() != m.IsContract {
		out = append(out, Diff{"isContract", acc, fmt.Sprint(m.IsContract), fmt.Sprint(v.IsContract())})
	}
	var wantOwner, gotOwner string
	if m.Owner != nil {
		wantOwner = m.Owner.String()
	}
	if o := v.ContractOwner(); o != nil {
		gotOwner = o.String()
	}
	if wantOwner != gotOwner {
		out = append(out, Diff{"owner", acc, wantOwner, gotOwner})
	}
	for _, ow := range Owners {
		want := m.IsContract && m.Owner != nil && m.Owner.Equal(ow)
		if v.IsContractOwner(ow) != want {
			out = append(out, Diff{"isContractOwner", acc, fmt.Sprint(want), fmt.Sprint(!want)})
		}
	}
	if v.IsBlocked() != (m.State&ss.ASBlocked != 0) {
		out = append(out, Diff{"blocked", acc, fmt.Sprint(m.State&ss.ASBlocked != 0), fmt.Sprint(v.IsBlocked())})
	}
	if v.IsDisabled() != (m.State&ss.ASDisabled != 0) {
		out = append(out, Diff{"disabled", acc, fmt.Sprint(m.State&ss.ASDisabled != 0), fmt.Sprint(v.IsDisabled())})
	}
	if v.UseSystemDeposit() != (m.State&ss.ASUseSystemDeposit != 0) {
		out = append(out, Diff{"useSystemDeposit", acc, fmt.Sprint(m.State&ss.ASUseSystemDeposit != 0), fmt.Sprint(v.UseSystemDeposit())})
	}
	for _, k := range Keys {
		got, err := v.GetValue(k)
		want := m.Storage[string(k)]
		if err != nil {
			out = append(out, Diff{"storage.error", acc, hex.EncodeToString([]byte(want)), fmt.Sprintf("key %x: %v", k, err)})
		} else if !bytes.Equal(got, []byte(want)) {
			out = append(out, Diff{"storage", acc, fmt.Sprintf("%x=%x", k, want), fmt.Sprintf("%x=%x", k, got)})
		}
	}
	// deposits: GetDepositInfo, CheckDeposit, CanAcceptTx
	info, err := v.GetDepositInfo(Ctx{}, module.JSONVersion3)
	switch {
	case err != nil:
		out = append(out, Diff{"deposit.error", acc, "", err.Error()})
	case (info == nil) != (m.Deposit == nil):
		out = append(out, Diff{"deposit.presence", acc, fmt.Sprint(m.Deposit != nil), fmt.Sprint(info != nil)})
	case info != nil:
		var got big.Int
		as, _ := info["availableDeposit"].(string)
		if e := intconv.ParseBigInt(&got, as); e != nil || got.Cmp(m.Deposit) != 0 {
			out = append(out, Diff{"deposit.available", acc, m.Deposit.String(), as})
		}
		if l, _ := info["deposits"].([]interface{}); len(l) != 1 {
			out = append(out, Diff{"deposit.count", acc, "1", fmt.Sprint(len(l))})
		} else if dm, _ := l[0].(map[string]interface{}); dm != nil {
			rs, _ := dm["depositRemain"].(string)
			if e := intconv.ParseBigInt(&got, rs); e != nil || got.Cmp(m.Deposit) != 0 {
				out = append(out, Diff{"deposit.remain", acc, m.Deposit.String(), rs})
			}
		}
	}
	for _, lim := range feeLimits {
		wantPay := m.Deposit == nil || m.Deposit.Cmp(lim) >= 0
		if got := v.CheckDeposit(Ctx{Limit: lim}); got != wantPay {
			out = append(out, Diff{"deposit.checkDeposit", acc, fmt.Sprintf("limit %s: %v", lim, wantPay), fmt.Sprint(got)})
		}
		wantAccept := wantPay && !(m.IsContract && m.State&(ss.ASDisabled|ss.ASBlocked) != 0)
		if got := v.CanAcceptTx(Ctx{Limit: lim}); got != wantAccept {
			out = append(out, Diff{"deposit.canAcceptTx", acc, fmt.Sprintf("limit %s: %v", lim, wantAccept), fmt.Sprint(got)})
		}
	}
	out = cmpContract(acc, "cur", cur, m.Cur, withCode, out)
	out = cmpContract(acc, "next", next, m.Next, withCode, out)
	return out
}

// ObserveSnapshot observes an AccountSnapshot (may be nil).
func ObserveSnapshot(acc int, s ss.AccountSnapshot, m *Account, withCode bool, out []Diff) []Diff {
	if s == nil {
		return Observe(acc, nil, nil, nil, m, withCode, out)
	}
	var cur, next contractView
	if c := s.Contract(); c != nil {
		cur = c
	}
	if c := s.NextContract(); c != nil {
		next = c
	}
	out = Observe(acc, s, cur, next, m, withCode, out)
	if s.IsEmpty() != m.IsEmpty() {
		out = append(out, Diff{"isEmpty", acc, fmt.Sprint(m.IsEmpty()), fmt.Sprint(s.IsEmpty())})
	}
	wantActive := m.State&(ss.ASDisabled|ss.ASBlocked) == 0 && m.Cur != nil && m.Cur.Status == int(ss.CSActive)
	if (s.ActiveContract() != nil) != wantActive {
		out = append(out, Diff{"activeContract", acc, fmt.Sprint(wantActive), fmt.Sprint(!wantActive)})
	}
	return out
}

// ObserveState observes a mutable AccountState.
func ObserveState(acc int, s ss.AccountState, m *Account, withCode bool, out []Diff) []Diff {
	var cur, next contractView
	if c := s.Contract(); c != nil {
		cur = c
	}
	if c := s.NextContract(); c != nil {
		next = c
	}
	return Observe(acc, s, cur, next, m, withCode, out)
}

// ObserveWorldSnapshot observes all accounts of a world snapshot. An empty
// model account must be absent (indistinguishable from never touched).
func ObserveWorldSnapshot(wss ss.WorldSnapshot, w *World, withCode bool) []Diff {
	var out []Diff
	for i := 0; i < NAcc; i++ {
		as := wss.GetAccountSnapshot(IDs[i])
		if as != nil && w.Acc[i].IsEmpty() {
			out = append(out, Diff{"presence", i, "absent(empty)", "present"})
			continue
		}
		out = ObserveSnapshot(i, as, w.Acc[i], withCode, out)
	}
	return out
}

var _ module.Address = (*common.Address)(nil)

// OwnerIndex returns the index of an owner address in Owners.
func OwnerIndex(a *common.Address) int {
	for i, o := range Owners {
		if o.Equal(a) {
			return i
		}
	}
	panic("unknown owner")
}
