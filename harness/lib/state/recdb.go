package state

import (
	"errors"
	"sort"
	"sync"

	"github.com/icon-project/goloop/common/db"
)

// RecDB is a db.Database over goloop's MapDB that additionally keeps an
// enumerable record of everything written to it, so that a check can compare
// the complete contents of two stores.
type RecDB struct {
	real db.Database
	mu   sync.Mutex
	ent  map[string][]byte // bucket id + "\x00|" + key -> value
	sets int
	// fault injection: the failAt-th Set call from now on fails once (0 = off)
	failAt int
	faults int
}

// ErrInjected is the transient write fault.
var ErrInjected = errors.New("injected transient write fault")

// FailSetAfter arms a one-shot write fault: the n-th Set call from now
// (n >= 1) returns ErrInjected without writing.
func (d *RecDB) FailSetAfter(n int) {
	d.mu.Lock()
	d.failAt = n
	d.mu.Unlock()
}

// Faults is the number of injected faults that fired.
func (d *RecDB) Faults() int {
	d.mu.Lock()
	defer d.mu.Unlock()
	return d.faults
}

// NewRecDB returns an empty recording database.
func NewRecDB() *RecDB {
	return &RecDB{real: db.NewMapDB(), ent: map[string][]byte{}}
}

// EntryKey is the enumeration key of (bucket, key).
func EntryKey(id db.BucketID, key []byte) string { return string(id) + "\x00|" + string(key) }

// SplitEntryKey is the inverse of EntryKey.
func SplitEntryKey(ek string) (db.BucketID, []byte) {
	for i := 0; i+1 < len(ek); i++ {
		if ek[i] == 0 && ek[i+1] == '|' {
			return db.BucketID(ek[:i]), []byte(ek[i+2:])
		}
	}
	return "", nil
}

type recBucket struct {
	d    *RecDB
	id   db.BucketID
	real db.Bucket
}

func (b *recBucket) Get(key []byte) ([]byte, error) { return b.real.Get(key) }
func (b *recBucket) Has(key []byte) (bool, error)   { return b.real.Has(key) }
func (b *recBucket) Set(key, value []byte) error {
	b.d.mu.Lock()
	if b.d.failAt > 0 {
		if b.d.failAt--; b.d.failAt == 0 {
			b.d.faults++
			b.d.mu.Unlock()
			return ErrInjected
		}
	}
	b.d.ent[EntryKey(b.id, key)] = append([]byte(nil), value...)
	b.d.sets++
	b.d.mu.Unlock()
	return b.real.Set(key, value)
}
func (b *recBucket) Delete(key []byte) error {
	b.d.mu.Lock()
	delete(b.d.ent, EntryKey(b.id, key))
	b.d.mu.Unlock()
	return b.real.Delete(key)
}

// GetBucket implements db.Database.
func (d *RecDB) GetBucket(id db.BucketID) (db.Bucket, error) {
	bk, err := d.real.GetBucket(id)
	if err != nil {
		return nil, err
	}
	return &recBucket{d, id, bk}, nil
}

// Close implements db.Database.
func (d *RecDB) Close() error { return nil }

// Entries returns a copy of everything stored.
func (d *RecDB) Entries() map[string][]byte {
	d.mu.Lock()
	defer d.mu.Unlock()
	m := make(map[string][]byte, len(d.ent))
	for k, v := range d.ent {
		m[k] = v
	}
	return m
}

// Len is the number of stored entries.
func (d *RecDB) Len() int {
	d.mu.Lock()
	defer d.mu.Unlock()
	return len(d.ent)
}

// Writes is the number of Set calls seen.
func (d *RecDB) Writes() int {
	d.mu.Lock()
	defer d.mu.Unlock()
	return d.sets
}

// SortedKeys returns the entry keys in a deterministic order.
func SortedKeys(m map[string][]byte) []string {
	ks := make([]string, 0, len(m))
	for k := range m {
		ks = append(ks, k)
	}
	sort.Strings(ks)
	return ks
}
