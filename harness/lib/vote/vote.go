// Package vote holds helpers shared by the vote-group property checks (C04, C06):
// deterministic wallets and independently written encodings of the fields the
// consensus messages carry (the harness does not ask goloop how to encode them).
package vote

import (
	"math/rand"

	"github.com/icon-project/goloop/common/codec"
	"github.com/icon-project/goloop/common/crypto"
	"github.com/icon-project/goloop/common/log"
	"github.com/icon-project/goloop/common/wallet"
	"github.com/icon-project/goloop/consensus"
	"github.com/icon-project/goloop/module"
)

// Quiet silences goloop's global logger.
func Quiet() {
	log.GlobalLogger().SetLevel(log.FatalLevel)
}

// Wallet derives a wallet from the PRNG (replayable).
func Wallet(r *rand.Rand) module.Wallet {
	for {
		var b [32]byte
		r.Read(b[:])
		sk, err := crypto.ParsePrivateKey(b[:])
		if err != nil {
			continue
		}
		w, err := wallet.NewFromPrivateKey(sk)
		if err != nil {
			continue
		}
		return w
	}
}

// AppData is the app-data word a block vote carries in its part-set id:
// network id in bits 16.., NTS vote count in bits 0..15 (consensus.go: "NID(32) NTSVoteCount(16)").
func AppData(nid uint32, ntsVoteCount uint16) uint64 {
	return uint64(nid)*65536 + uint64(ntsVoteCount)
}

// PSID builds a part-set id with app data.
func PSID(count uint16, hash []byte, nid uint32) *consensus.PartSetIDAndAppData {
	return (&consensus.PartSetID{Count: count, Hash: hash}).WithAppData(AppData(nid, 0))
}

// NilVoteBlockID is what a nil vote carries in its block-id field: the
// codec encoding of the chain's network id (consensus.go: nid = codec.MustMarshalToBytes(c.NID())).
func NilVoteBlockID(nid uint32) []byte {
	return codec.BC.MustMarshalToBytes(int(nid))
}

// AppendEmptyListElement re-encodes an RLP list (goloop codec.BC framing) with one more
// element, an empty list (0xc0), appended. For a VoteMessage this is the optional 8th
// element (NTS votes) present-but-empty; goloop's own encoder omits it.
func AppendEmptyListElement(bs []byte) ([]byte, bool) {
	if len(bs) == 0 {
		return nil, false
	}
	var payload []byte
	b := bs[0]
	switch {
	case b >= 0xc0 && b <= 0xf7:
		l := int(b - 0xc0)
		if len(bs) != 1+l {
			return nil, false
		}
		payload = bs[1:]
	case b >= 0xf8:
		ll := int(b - 0xf7)
		if len(bs) < 1+ll {
			return nil, false
		}
		l := 0
		for _, x := range bs[1 : 1+ll] {
			l = l<<8 | int(x)
		}
		if len(bs) != 1+ll+l {
			return nil, false
		}
		payload = bs[1+ll:]
	default:
		return nil, false
	}
	np := append(append([]byte(nil), payload...), 0xc0)
	var hdr []byte
	if len(np) <= 55 {
		hdr = []byte{0xc0 + byte(len(np))}
	} else {
		var lb []byte
		for l := len(np); l > 0; l >>= 8 {
			lb = append([]byte{byte(l)}, lb...)
		}
		hdr = append([]byte{0xf7 + byte(len(lb))}, lb...)
	}
	return append(hdr, np...), true
}

// DecodeVote decodes vote bytes the way the engine does for a received message.
func DecodeVote(bs []byte) (*consensus.VoteMessage, error) {
	m, err := consensus.UnmarshalMessage(uint16(consensus.ProtoVote), bs)
	if err != nil {
		return nil, err
	}
	vm, ok := m.(*consensus.VoteMessage)
	if !ok {
		return nil, errNotVote
	}
	return vm, nil
}

var errNotVote = errorString("not a vote message")

type errorString string

func (e errorString) Error() string { return string(e) }
