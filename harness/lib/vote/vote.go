// Package vote holds helpers shared by the vote-group property checks (C04, C06):
// deterministic wallets and independently written encodings of the fields the
// consensus messages carry (the harness does not ask goloop how to encode them).
package vote

import (
	"math/rand"

	"github.com/icon-project/goloop/common/codec"
	"github.com/icon-project/goloop/common/crypto"
	"github.com/icon-project/goloop/common/log"
	"github.com/icon-project/goloop/common/wallet"
	"github.com/icon-project/goloop/consensus"
	"github.com/icon-project/goloop/module"
)

// Quiet silences goloop's global logger.
func Quiet() {
	log.GlobalLogger().SetLevel(log.FatalLevel)
}

// Wallet derives a wallet from the PRNG (replayable).
func Wallet(r *rand.Rand) module.Wallet {
	for {
		var b [32]byte
		r.Read(b[:])
		sk, err := crypto.ParsePrivateKey(b[:])
		if err != nil {
			continue
		}
		w, err := wallet.NewFromPrivateKey(sk)
		if err != nil {
			continue
		}
		return w
	}
}

// AppData is the app-data word a block vote carries in its part-set id:
// network id in bits 16.., NTS vote count in bits 0..15 (consensus.go: "NID(32) NTSVoteCount(16)").
func AppData(nid uint32, ntsVoteCount uint16) uint64 {
	return uint64(nid)*65536 + uint64(ntsVoteCount)
}

// PSID builds a part-set id with app data.
func PSID(count uint16, hash []byte, nid uint32) *consensus.PartSetIDAndAppData {
	return (&consensus.PartSetID{Count: count, Hash: hash}).WithAppData(AppData(nid, 0))
}

// NilVoteBlockID is what a nil vote carries in its block-id field: the
// codec encoding of the chain's network id (consensus.go: nid = codec.MustMarshalToBytes(c.NID())).
func NilVoteBlockID(nid uint32) []byte {
	return codec.BC.MustMarshalToBytes(int(nid))
}
