package sig

// A minimal encoder for goloop's RLP dialect, written here so that the bytes
// a vote / BTP decision signs can be re-serialized without goloop's codec:
//
//	byte string: single byte < 0x80 -> itself; len <= 55 -> 0x80+len | bytes;
//	             longer -> 0xb7+len(size) | size | bytes;  nil -> f8 00 (null)
//	list:        0xc0+len | items (len <= 55), else 0xf7+len(size) | size | items
//	signed int:  minimal big-endian two's complement, 0 -> 00
//	unsigned:    minimal big-endian with a leading 00 when the top bit is set, 0 -> 00

// RNull is the null sequence.
var RNull = []byte{0xf8, 0x00}

func sizeBytes(n int) []byte {
	var b []byte
	for n > 0 {
		b = append([]byte{byte(n)}, b...)
		n >>= 8
	}
	return b
}

// RBytes encodes a byte string (nil -> null).
func RBytes(b []byte) []byte {
	if b == nil {
		return append([]byte(nil), RNull...)
	}
	switch l := len(b); {
	case l == 1 && b[0] < 0x80:
		return []byte{b[0]}
	case l <= 55:
		return append([]byte{byte(0x80 + l)}, b...)
	default:
		sz := sizeBytes(l)
		out := append([]byte{byte(0xb7 + len(sz))}, sz...)
		return append(out, b...)
	}
}

// RList encodes a list of already encoded items.
func RList(items ...[]byte) []byte {
	var body []byte
	for _, it := range items {
		body = append(body, it...)
	}
	if l := len(body); l <= 55 {
		return append([]byte{byte(0xc0 + l)}, body...)
	}
	sz := sizeBytes(len(body))
	out := append([]byte{byte(0xf7 + len(sz))}, sz...)
	return append(out, body...)
}

// RInt encodes a signed integer.
func RInt(v int64) []byte {
	if v == 0 {
		return []byte{0}
	}
	var b []byte
	for i := 0; i < 8; i++ {
		b = append([]byte{byte(v)}, b...)
		rest := v >> 8
		// done when the remaining bits are pure sign extension of the byte just written
		if (rest == 0 && b[0]&0x80 == 0) || (rest == -1 && b[0]&0x80 != 0) {
			break
		}
		v = rest
	}
	return RBytes(b)
}

// RUint encodes an unsigned integer.
func RUint(v uint64) []byte {
	if v == 0 {
		return []byte{0}
	}
	var b []byte
	for v > 0 {
		b = append([]byte{byte(v)}, b...)
		v >>= 8
	}
	if b[0]&0x80 != 0 {
		b = append([]byte{0}, b...)
	}
	return RBytes(b)
}
