// Package sig holds the helpers of the "sig" property group (C05 C12 C13
// C29): reference signature recovery through decred's secp256k1 called
// directly (not through goloop's wrappers), own address derivation and
// deterministic key generation from the case PRNG.
package sig

import (
	"encoding/hex"
	"math/big"
	"math/rand"

	"github.com/decred/dcrd/dcrec/secp256k1/v4"
	"github.com/decred/dcrd/dcrec/secp256k1/v4/ecdsa"
	"golang.org/x/crypto/sha3"
)

// N is the order of the secp256k1 group (written out here, not taken from a library).
var N, _ = new(big.Int).SetString("fffffffffffffffffffffffffffffffebaaedce6af48a03bbfd25e8cd0364141", 16)

// Key is a harness-side key pair.
type Key struct {
	Priv *secp256k1.PrivateKey
	// Addr is the 20-byte account id derived by the harness.
	Addr [20]byte
}

// Sha3 is SHA3-256.
func Sha3(b []byte) []byte {
	h := sha3.Sum256(b)
	return h[:]
}

// AddrOfPub derives the 20-byte ICON account id: last 20 bytes of
// sha3-256 over the uncompressed public key without its 0x04 prefix.
func AddrOfPub(pk *secp256k1.PublicKey) [20]byte {
	u := pk.SerializeUncompressed()
	h := sha3.Sum256(u[1:])
	var a [20]byte
	copy(a[:], h[12:])
	return a
}

// KeyFromBytes makes a key from a 32-byte scalar (reduced mod N by decred; zero is avoided by the callers).
func KeyFromBytes(b []byte) *Key {
	p := secp256k1.PrivKeyFromBytes(b)
	return &Key{Priv: p, Addr: AddrOfPub(p.PubKey())}
}

// NewKey derives a key from the PRNG; now and then a boundary scalar.
func NewKey(r *rand.Rand) *Key {
	var b [32]byte
	switch r.Intn(40) {
	case 0: // small scalar
		b[31] = byte(1 + r.Intn(255))
	case 1: // N - small
		v := new(big.Int).Sub(N, big.NewInt(int64(1+r.Intn(255))))
		v.FillBytes(b[:])
	case 2: // leading zero bytes
		r.Read(b[:])
		for i := 0; i < 1+r.Intn(8); i++ {
			b[i] = 0
		}
		b[31] |= 1
	default:
		r.Read(b[:])
		// keep it inside [1, N-1] without reduction
		b[0] &= 0x7f
		b[31] |= 1
	}
	return KeyFromBytes(b[:])
}

// HxString is the canonical EOA text of the key's address.
func (k *Key) HxString() string { return "hx" + hex.EncodeToString(k.Addr[:]) }

// Addr21 is the 21-byte form (type byte 0).
func (k *Key) Addr21() []byte { return append([]byte{0}, k.Addr[:]...) }

// PrivBytes is the 32-byte scalar.
func (k *Key) PrivBytes() []byte { return k.Priv.Serialize() }

// SignRSV signs a hash (1..32 bytes) with decred directly and returns the
// 65-byte [R|S|V] form used on the ICON wire (V = 0..3).
func (k *Key) SignRSV(hash []byte) []byte {
	c := ecdsa.SignCompact(k.Priv, hash, false)
	out := make([]byte, 65)
	copy(out, c[1:])
	out[64] = c[0] - 27
	return out
}

// RefRecoverRSV is the reference: who signed `hash` according to the
// 65-byte [R|S|V] signature? ok=false when the signature does not recover
// at all (bad V, r/s out of range, no curve point, wrong length).
func RefRecoverRSV(rsv, hash []byte) (addr [20]byte, ok bool) {
	if len(rsv) != 65 {
		return addr, false
	}
	return RefRecoverVRS(append([]byte{rsv[64]}, rsv[:64]...), hash)
}

// RefRecoverVRS is the same for the [V|R|S] layout (V = 0..7; 4..7 only set
// the "compressed" presentation flag of the compact format).
func RefRecoverVRS(vrs, hash []byte) (addr [20]byte, ok bool) {
	if len(vrs) != 65 || len(hash) == 0 || len(hash) > 32 {
		return addr, false
	}
	v := vrs[0]
	if v > 7 {
		return addr, false
	}
	c := make([]byte, 65)
	copy(c, vrs)
	c[0] = 27 + v
	pk, _, err := ecdsa.RecoverCompact(c, hash)
	if err != nil || pk == nil {
		return addr, false
	}
	return AddrOfPub(pk), true
}

// RefVerifyRS tells whether the 64-byte [R|S] pair verifies under the key
// (used only where a V-less signature is accepted by the code under test).
func RefVerifyRS(rs, hash []byte, pk *secp256k1.PublicKey) bool {
	if len(rs) != 64 {
		return false
	}
	var r, s secp256k1.ModNScalar
	if r.SetByteSlice(rs[:32]) || s.SetByteSlice(rs[32:]) {
		return false
	}
	if r.IsZero() || s.IsZero() {
		return false
	}
	return ecdsa.NewSignature(&r, &s).Verify(hash, pk)
}

// RefRecoverPubVRS recovers the public key of a [V|R|S] signature (V = 0..7)
// with decred directly; ok=false when it does not recover.
func RefRecoverPubVRS(vrs, hash []byte) (*secp256k1.PublicKey, bool) {
	if len(vrs) != 65 || len(hash) == 0 || len(hash) > 32 || vrs[0] > 7 {
		return nil, false
	}
	c := make([]byte, 65)
	copy(c, vrs)
	c[0] = 27 + vrs[0]
	pk, _, err := ecdsa.RecoverCompact(c, hash)
	if err != nil || pk == nil {
		return nil, false
	}
	return pk, true
}

// ForgeForZeroMessage builds, from a PUBLIC key alone, a 65-byte [R|S|V]
// signature whose recovery over the zero message scalar (e = 0) yields that
// key: R = k*P, r = R.x, s = r/k  =>  r^-1 * (s*R - 0*G) = P. It is what an
// attacker can present if a verifier ever recovers over an empty hash.
func ForgeForZeroMessage(pub *secp256k1.PublicKey, k uint32) []byte {
	var p, rp secp256k1.JacobianPoint
	pub.AsJacobian(&p)
	for i := k; ; i++ {
		if i < 2 {
			i = 2
		}
		var ks secp256k1.ModNScalar
		ks.SetInt(i)
		secp256k1.ScalarMultNonConst(&ks, &p, &rp)
		rp.ToAffine()
		xb := rp.X.Bytes()
		var r secp256k1.ModNScalar
		if overflow := r.SetByteSlice(xb[:]); overflow || r.IsZero() {
			continue
		}
		var s secp256k1.ModNScalar
		s.Set(&ks).InverseNonConst().Mul(&r)
		out := make([]byte, 65)
		rb, sb := r.Bytes(), s.Bytes()
		copy(out[0:32], rb[:])
		copy(out[32:64], sb[:])
		if rp.Y.IsOdd() {
			out[64] = 1
		}
		return out
	}
}
