package sig

import (
	"fmt"
	"math/rand"
	"sort"
	"strings"
	"unicode/utf8"
)

// Independent reference for the ICON v3 transaction serialization ("how the
// transaction hash is generated"), written from the format rules and not from
// goloop's serialize.go:
//
//	tx_hash = sha3_256("icx_sendTransaction." + items(params without "signature" and "txHash"))
//	items(dict) = k1 "." v1 "." k2 "." v2 ...      keys in ascending order
//	value: string -> the string with each of  \ { } [ ] .  preceded by a backslash
//	       null   -> \0
//	       dict   -> "{" items(dict) "}"
//	       list   -> "[" v1 "." v2 ... "]"
//
// The rules say nothing definite about JSON numbers/booleans (every VALUE of
// the v3 API is a string) and about
// the sort order of non-ASCII keys (byte / UTF-16 / code point order differ),
// so the reference refuses those (Ambiguous()) and the generators keep the
// reference-checked inputs inside the unambiguous part.

// Kind of a JSON value in the generator's tree.
type Kind int

const (
	KStr Kind = iota
	KNull
	KDict
	KList
	KNum // JSON number literal (outside the unambiguous part of the format)
)

// Val is a JSON value as the generator built it (no JSON parser involved).
type Val struct {
	Kind Kind
	S    string // KStr: the string; KNum: the literal
	Keys []string
	Vals []*Val // dict values (parallel to Keys) or list items
}

func Str(s string) *Val { return &Val{Kind: KStr, S: s} }
func Null() *Val        { return &Val{Kind: KNull} }
func Num(lit string) *Val {
	return &Val{Kind: KNum, S: lit}
}
func List(items ...*Val) *Val { return &Val{Kind: KList, Vals: items} }
func Dict() *Val              { return &Val{Kind: KDict} }

// Set adds or replaces a key of a dict.
func (v *Val) Set(k string, x *Val) *Val {
	for i, kk := range v.Keys {
		if kk == k {
			v.Vals[i] = x
			return v
		}
	}
	v.Keys = append(v.Keys, k)
	v.Vals = append(v.Vals, x)
	return v
}

// Get returns the value of a key or nil.
func (v *Val) Get(k string) *Val {
	for i, kk := range v.Keys {
		if kk == k {
			return v.Vals[i]
		}
	}
	return nil
}

// Del removes a key.
func (v *Val) Del(k string) {
	for i, kk := range v.Keys {
		if kk == k {
			v.Keys = append(append([]string{}, v.Keys[:i]...), v.Keys[i+1:]...)
			v.Vals = append(append([]*Val{}, v.Vals[:i]...), v.Vals[i+1:]...)
			return
		}
	}
}

// Clone deep-copies a value.
func (v *Val) Clone() *Val {
	if v == nil {
		return nil
	}
	c := &Val{Kind: v.Kind, S: v.S}
	c.Keys = append([]string(nil), v.Keys...)
	for _, x := range v.Vals {
		c.Vals = append(c.Vals, x.Clone())
	}
	return c
}

// plainKey: keys the reference is sure about. ASCII keys only (the sort order of
// non-ASCII keys differs between byte / UTF-16 / code point order). Keys may be
// empty or contain the characters the format escapes: they are written escaped
// exactly like string values - without that two different dictionaries
// ({"a":"b","c":"d"} and {"a.b.c":"d"}) would share one phrase, which the
// format's purpose (an id that binds the signed content) rules out.
func plainKey(k string) bool {
	for i := 0; i < len(k); i++ {
		if c := k[i]; c < 0x20 || c > 0x7e {
			return false
		}
	}
	return true
}

// RefEscape is the escaping of the format (strings and keys).
func RefEscape(s string) string { return refEscape(s) }

// Ambiguous reports whether the value leaves the part of the format the
// reference is sure about (numbers, keys that are empty / non-ASCII / contain
// characters the format escapes).
func (v *Val) Ambiguous() bool {
	switch v.Kind {
	case KNum:
		return true
	case KDict:
		for i, k := range v.Keys {
			if !plainKey(k) || v.Vals[i].Ambiguous() {
				return true
			}
		}
	case KList:
		for _, x := range v.Vals {
			if x.Ambiguous() {
				return true
			}
		}
	}
	return false
}

func refEscape(s string) string {
	var b strings.Builder
	for _, c := range s { // by code point; the escaped characters are all ASCII
		switch c {
		case '\\', '{', '}', '[', ']', '.':
			b.WriteByte('\\')
		}
		b.WriteRune(c)
	}
	return b.String()
}

func refItems(v *Val, skip map[string]bool) string {
	idx := make([]int, 0, len(v.Keys))
	for i, k := range v.Keys {
		if !skip[k] {
			idx = append(idx, i)
		}
	}
	sort.Slice(idx, func(a, b int) bool { return v.Keys[idx[a]] < v.Keys[idx[b]] })
	parts := make([]string, 0, 2*len(idx))
	for _, i := range idx {
		parts = append(parts, refEscape(v.Keys[i]), RefValue(v.Vals[i]))
	}
	return strings.Join(parts, ".")
}

// RefValue serializes one value by the format rules.
func RefValue(v *Val) string {
	switch v.Kind {
	case KStr:
		return refEscape(v.S)
	case KNull:
		return `\0`
	case KDict:
		return "{" + refItems(v, nil) + "}"
	case KList:
		parts := make([]string, len(v.Vals))
		for i, x := range v.Vals {
			parts[i] = RefValue(x)
		}
		return "[" + strings.Join(parts, ".") + "]"
	}
	panic("sig: reference serializer asked for a value outside the unambiguous format")
}

var txSkip = map[string]bool{"signature": true, "txHash": true}

// RefTxPhrase is the string that is hashed for a v3 transaction object.
func RefTxPhrase(tx *Val) string {
	return "icx_sendTransaction." + refItems(tx, txSkip)
}

// RefTxID is the reference transaction id.
func RefTxID(tx *Val) []byte { return Sha3([]byte(RefTxPhrase(tx))) }

// ---------------------------------------------------------------------------
// JSON text rendering with representation variants.

// Style selects representation variants that must not matter.
type Style struct {
	Shuffle  bool // random key order
	Space    bool // random whitespace between tokens
	UEscape  int  // per-mille of string characters written as \uXXXX
	ShortEsc bool // use \/ and the short escapes where allowed
	R        *rand.Rand
}

var spaces = []string{" ", "\n", "\t", "\r", "  ", " \n "}

func (st *Style) ws(b *strings.Builder) {
	if st.Space && st.R.Intn(3) == 0 {
		b.WriteString(spaces[st.R.Intn(len(spaces))])
	}
}

func (st *Style) str(b *strings.Builder, s string) {
	b.WriteByte('"')
	for _, c := range s {
		if c == utf8.RuneError {
			panic("sig: generator produced invalid UTF-8")
		}
		forceU := st.UEscape > 0 && st.R.Intn(1000) < st.UEscape
		switch {
		case forceU || c < 0x20 && !(st.ShortEsc && strings.ContainsRune("\n\t\r\b\f", c)):
			if c >= 0x10000 {
				c -= 0x10000
				fmt.Fprintf(b, `\u%04x\u%04X`, 0xd800+(c>>10), 0xdc00+(c&0x3ff))
			} else if st.R != nil && st.R.Intn(2) == 0 {
				fmt.Fprintf(b, `\u%04X`, c)
			} else {
				fmt.Fprintf(b, `\u%04x`, c)
			}
		case c == '"':
			b.WriteString(`\"`)
		case c == '\\':
			b.WriteString(`\\`)
		case c == '\n':
			b.WriteString(`\n`)
		case c == '\t':
			b.WriteString(`\t`)
		case c == '\r':
			b.WriteString(`\r`)
		case c == '\b':
			b.WriteString(`\b`)
		case c == '\f':
			b.WriteString(`\f`)
		case c == '/' && st.ShortEsc && st.R.Intn(2) == 0:
			b.WriteString(`\/`)
		default:
			b.WriteRune(c)
		}
	}
	b.WriteByte('"')
}

func (st *Style) val(b *strings.Builder, v *Val) {
	switch v.Kind {
	case KStr:
		st.str(b, v.S)
	case KNull:
		b.WriteString("null")
	case KNum:
		b.WriteString(v.S)
	case KList:
		b.WriteByte('[')
		for i, x := range v.Vals {
			if i > 0 {
				b.WriteByte(',')
			}
			st.ws(b)
			st.val(b, x)
			st.ws(b)
		}
		if len(v.Vals) == 0 {
			st.ws(b)
		}
		b.WriteByte(']')
	case KDict:
		idx := make([]int, len(v.Keys))
		for i := range idx {
			idx[i] = i
		}
		if st.Shuffle {
			st.R.Shuffle(len(idx), func(a, c int) { idx[a], idx[c] = idx[c], idx[a] })
		}
		b.WriteByte('{')
		for n, i := range idx {
			if n > 0 {
				b.WriteByte(',')
			}
			st.ws(b)
			st.str(b, v.Keys[i])
			st.ws(b)
			b.WriteByte(':')
			st.ws(b)
			st.val(b, v.Vals[i])
			st.ws(b)
		}
		if len(idx) == 0 {
			st.ws(b)
		}
		b.WriteByte('}')
	}
}

// Render writes the value as JSON text in the given style.
func (st *Style) Render(v *Val) string {
	var b strings.Builder
	st.ws(&b)
	st.val(&b, v)
	st.ws(&b)
	return b.String()
}

// Plain renders compactly in insertion order with minimal escaping.
func Plain(v *Val) string {
	st := &Style{}
	return st.Render(v)
}

// Hex renders a non-negative integer the canonical T_INT way.
func HexU(v uint64) string { return fmt.Sprintf("0x%x", v) }
