package main

import (
	_ "verif/props/c07"
	_ "verif/props/c08"
)
