// Command verif is the single harness binary: `verif parent <id> <tier>`
// runs a property check (spawning `verif child ...` per batch).
package main

import (
	"encoding/json"
	"flag"
	"fmt"
	"os"
	"strconv"

	"verif/lib/ev"
)

func seedFromEnv() int64 {
	if s := os.Getenv("VERIF_SEED"); s != "" {
		if v, err := strconv.ParseInt(s, 10, 64); err == nil {
			return v
		}
	}
	return 1
}

func main() {
	if len(os.Args) < 2 {
		fmt.Fprintln(os.Stderr, "usage: verif parent <id> <tier> | verif child ... | verif list")
		os.Exit(3)
	}
	switch os.Args[1] {
	case "list":
		for _, id := range ev.IDs() {
			fmt.Println(id)
		}
	case "parent":
		fs := flag.NewFlagSet("parent", flag.ExitOnError)
		replay := fs.String("replay", "", "replay file")
		batch := fs.Int("batch", -1, "only this batch")
		cs := fs.Int("case", -1, "only this case")
		id := os.Args[2]
		rest := os.Args[3:]
		tier := ""
		if len(rest) > 0 && rest[0] != "" && rest[0][0] != '-' {
			tier = rest[0]
			rest = rest[1:]
		}
		fs.Parse(rest)
		seed := seedFromEnv()
		if *replay != "" {
			b, err := os.ReadFile(*replay)
			if err != nil {
				fmt.Fprintln(os.Stderr, err)
				os.Exit(3)
			}
			var rec struct {
				Tier     string `json:"tier"`
				Seed     int64  `json:"seed"`
				Case     int    `json:"case"`
				NBatches int    `json:"nbatches"`
				Detail   struct {
					Batch int `json:"batch"`
				} `json:"detail"`
			}
			if err := json.Unmarshal(b, &rec); err != nil {
				fmt.Fprintln(os.Stderr, err)
				os.Exit(3)
			}
			tier, seed = rec.Tier, rec.Seed
			if rec.Case >= 0 {
				*cs = rec.Case
				*batch = rec.Case % rec.NBatches
			} else {
				*batch = rec.Detail.Batch
			}
		}
		if tier == "" {
			tier = os.Getenv("VERIF_TIER")
		}
		if tier == "" {
			tier = ev.Quick
		}
		os.Exit(ev.RunParent(id, tier, seed, *batch, *cs))
	case "child":
		fs := flag.NewFlagSet("child", flag.ExitOnError)
		id := fs.String("id", "", "")
		tier := fs.String("tier", "quick", "")
		seed := fs.Int64("seed", 1, "")
		batch := fs.Int("batch", 0, "")
		nb := fs.Int("nbatches", 1, "")
		out := fs.String("out", "", "")
		cs := fs.Int("case", -1, "")
		fs.Parse(os.Args[2:])
		os.Exit(ev.RunChild(*id, *tier, *seed, *batch, *nb, *cs, *out))
	default:
		fmt.Fprintln(os.Stderr, "unknown command")
		os.Exit(3)
	}
}
