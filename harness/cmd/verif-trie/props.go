package main

import (
	_ "verif/props/c17"
	_ "verif/props/c18"
	_ "verif/props/c19"
	_ "verif/props/c21"
)
