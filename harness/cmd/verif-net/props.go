package main

import (
	_ "verif/props/c30"
	_ "verif/props/c31"
	_ "verif/props/c32"
	_ "verif/props/c33"
)
