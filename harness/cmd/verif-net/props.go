package main

import (
	_ "verif/props/c30"
	_ "verif/props/c31"
)
