package main

import (
	_ "verif/props/c05"
	_ "verif/props/c12"
	_ "verif/props/c13"
	_ "verif/props/c29"
)
