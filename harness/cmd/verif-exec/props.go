package main

import (
	_ "verif/props/c09"
	_ "verif/props/c10"
)
