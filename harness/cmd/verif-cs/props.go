package main

import (
	_ "verif/props/c01"
	_ "verif/props/c02"
)
