package main

import (
	_ "verif/props/c01"
)
