// Command csprobe runs one csnet scenario with a trace (development aid).
package main

import (
	"encoding/json"
	"flag"
	"fmt"
	"math/rand"
	"os"
	"time"

	"verif/lib/csnet"
	"verif/props/c01"
)

func main() {
	cs := flag.Int("case", 5, "case index (class = case % 8)")
	seed := flag.Int64("seed", 1, "seed")
	thorough := flag.Bool("thorough", false, "")
	flag.Parse()
	r := rand.New(rand.NewSource(*seed))
	opt, class := c01.MakePlan(*cs, r, *thorough)
	csnet.Trace = os.Getenv("CSNET_TRACE") != ""
	fmt.Printf("class=%s n=%d byz=%v plan=%+v\n", class, opt.N, opt.Byz, *opt.Plan)
	res := csnet.Run(opt, 45*time.Second)
	for _, f := range res.Fins {
		fmt.Printf("fin seq=%d node=%d gen=%d h=%d id=%s\n", f.Seq, f.Node, f.Gen, f.H, f.ID[:8])
	}
	b, _ := json.MarshalIndent(res.Violations, "", " ")
	fmt.Printf("violations=%s\ncapped=%v maxround=%d equiv=%d notes=%v terrs=%v router=%+v wall=%dms\n", b, res.Capped, res.MaxRound, res.Equivocations, res.Notes, res.TErrors, res.Router, res.WallMs)
}
