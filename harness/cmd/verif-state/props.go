package main

import (
	_ "verif/props/c14"
	_ "verif/props/c20"
)
