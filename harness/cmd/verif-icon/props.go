package main

import (
	_ "verif/props/c34"
	_ "verif/props/c35"
)
