package main

import (
	"fmt"

	"github.com/icon-project/goloop/common/codec"
)

type Inner struct {
	A int
	B string
}

func main() {
	// 1. hostile input accepted: list of 5 payload bytes, first field is the null sequence
	var p *Inner
	rest, err := codec.BC.UnmarshalFromBytes([]byte{0xc5, 0xf8, 0x00, 0x01, 0x02, 0x03}, &p)
	fmt.Printf("hostile: p=%v rest=%x err=%v\n", p, rest, err)
	// 2. a valid encoding of "abc" decoded next
	enc, _ := codec.BC.MarshalToBytes("abc")
	var s string
	rest, err = codec.BC.UnmarshalFromBytes(enc, &s)
	fmt.Printf("valid %x -> %q rest=%x err=%v\n", enc, s, rest, err)
	rest, err = codec.BC.UnmarshalFromBytes(enc, &s)
	fmt.Printf("again %x -> %q rest=%x err=%v\n", enc, s, rest, err)
	// truncated top-level list accepted
	rest, err = codec.BC.UnmarshalFromBytes([]byte{0xf8, 0xf8, 0x0b, 0xf8, 0x00, 0x00, 0x00}, &p)
	fmt.Printf("truncated: p=%v rest=%x err=%v\n", p, rest, err)
	var n uint8
	rest, err = codec.BC.UnmarshalFromBytes([]byte{0x05}, &n)
	fmt.Printf("after truncated: 05 -> %d rest=%x err=%v\n", n, rest, err)
}
