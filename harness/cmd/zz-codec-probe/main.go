package main

import (
	"fmt"
	"os"
	"strconv"
	"time"

	"github.com/icon-project/goloop/common/codec"
	"github.com/icon-project/goloop/common/intconv"
)

type Node struct {
	Next *Node
}

func wrap(inner []byte) []byte {
	l := len(inner)
	if l <= 55 {
		return append([]byte{byte(0xc0 + l)}, inner...)
	}
	sz := intconv.SizeToBytes(uint64(l))
	h := append([]byte{byte(0xf7 + len(sz))}, sz...)
	return append(h, inner...)
}

func main() {
	depth, _ := strconv.Atoi(os.Args[1])
	// build from inside out cheaply: compute sizes
	b := []byte{0xc0}
	// prepend headers: do it by building reversed
	sizes := make([]int, depth)
	cur := 1
	for i := 0; i < depth; i++ {
		sizes[i] = cur
		if cur <= 55 {
			cur += 1
		} else {
			cur += 1 + len(intconv.SizeToBytes(uint64(cur)))
		}
	}
	out := make([]byte, 0, cur)
	for i := depth - 1; i >= 0; i-- {
		l := sizes[i]
		if l <= 55 {
			out = append(out, byte(0xc0+l))
		} else {
			sz := intconv.SizeToBytes(uint64(l))
			out = append(out, byte(0xf7+len(sz)))
			out = append(out, sz...)
		}
	}
	out = append(out, b...)
	fmt.Println("input bytes", len(out))
	t0 := time.Now()
	var n Node
	_, err := codec.BC.UnmarshalFromBytes(out, &n)
	d := 0
	for p := &n; p != nil; p = p.Next {
		d++
	}
	fmt.Println("err", err, "depth", d, time.Since(t0))
	if len(os.Args) > 2 {
		var sl [][][][][][][][]int
		_ = sl
		var to codec.TypedObj
		_, err = codec.BC.UnmarshalFromBytes(out, &to)
		fmt.Println("typed err", err)
	}
}
