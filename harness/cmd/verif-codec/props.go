package main

import (
	_ "verif/props/c22"
	_ "verif/props/c23"
	_ "verif/props/c24"
	_ "verif/props/c25"
	_ "verif/props/c26"
)
