package main

import (
	_ "verif/props/c04"
	_ "verif/props/c06"
)
