package main

import (
	_ "verif/props/c11"
	_ "verif/props/c15"
	_ "verif/props/c16"
	_ "verif/props/c37"
)
