package main

import (
	_ "verif/props/c01"
	_ "verif/props/c02"
	_ "verif/props/c03"
	_ "verif/props/c04"
	_ "verif/props/c05"
	_ "verif/props/c06"
	_ "verif/props/c07"
	_ "verif/props/c08"
	_ "verif/props/c09"
	_ "verif/props/c10"
	_ "verif/props/c12"
	_ "verif/props/c13"
	_ "verif/props/c14"
	_ "verif/props/c20"
	_ "verif/props/c27"
	_ "verif/props/c28"
	_ "verif/props/c29"
	_ "verif/props/c36"
)
