package main

import (
	_ "verif/props/c01"
	_ "verif/props/c02"
	_ "verif/props/c03"
	_ "verif/props/c09"
	_ "verif/props/c10"
	_ "verif/props/c14"
	_ "verif/props/c20"
	_ "verif/props/c27"
	_ "verif/props/c28"
	_ "verif/props/c36"
)
