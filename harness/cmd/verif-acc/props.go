package main

import (
	_ "verif/props/c03"
	_ "verif/props/c27"
	_ "verif/props/c28"
)
