// Package c16: a failed transaction changes nothing but the fee.
package c16

import (
	"bytes"
	"encoding/hex"
	"encoding/json"
	"fmt"
	"math/big"
	"math/rand"
	"sort"

	"github.com/icon-project/goloop/common/wallet"
	"github.com/icon-project/goloop/module"
	"github.com/icon-project/goloop/service/state"

	"verif/lib/ev"
	"verif/lib/feefix"
)

func init() {
	ev.Register(&ev.Prop{
		ID:    "C16",
		Level: "exploration",
		Cases: func(t string) int {
			if t == ev.Thorough {
				return 4000
			}
			return 80
		},
		Batches: func(t string) int {
			if t == ev.Thorough {
				return 32
			}
			return 16
		},
		Rule: "each case = one real service stack with the harness system SCORE 'verif' (contract.RegisterSystemScore, installed at a fixed funded address by the setup block) and 6 programs. A program is a JSON op list interpreted by the SCORE against the real call context: set/delete storage, transfer ICX to EOAs (ICXTransfer event), emit event, queue BTP message, add validator, move the sender's balance ('drain'), nested inter-calls to itself up to depth 3 whose failure is caught or propagated, consume steps, revert(code), burn all steps. The transaction fails by revert / out of step (program or a step limit cut at a chosen count) / unknown method or bad parameter / non-payable method with value / transfer of more than the SCORE owns / out of balance at fee time (after 'drain'), after 0..k mutations at every nesting depth; it carries value in a third of the cases. It is executed alone or between two succeeding transfers, and the SAME block without it is executed on the same parent as control. Oracle: every account of the account trie (encoding incl. storage root), validator list, BTP data and extension data of the two results are identical except payer balance -fee and treasury +fee (fee = stepUsed x stepPrice of the receipt), and the receipt has no event logs and no BTP messages. Non-trivial = distinct failing program that executed at least one mutation before failing.",
		MinNonTrivial: func(t string) int {
			if t == ev.Thorough {
				return 10000
			}
			return 180
		},
		Required: []string{"programs", "failed_tx_judged", "failed_after_mutations", "status_Reverted", "status_OutOfStep", "status_OutOfBalance",
			"status_MethodNotFound", "failed_with_value", "failed_depth_ge_3", "failed_with_caught_inner_failure", "failed_after_event", "failed_after_btp",
			"failed_after_xfer", "failed_after_addval", "failed_after_storage", "success_changes_state", "with_neighbours", "accounts_compared"},
		Assumptions: []string{
			"the control block (same parent, same height/time, same neighbours, without the failing transaction) captures every block-level effect that is not the transaction's",
			"the harness SCORE runs inside the real call context (frames, snapshots, steps); its own trace of executed mutations is observability only",
			"payer = sender (no fee sharing configured)",
		},
		TimeoutSec: func(t string) int {
			if t == ev.Thorough {
				return 3000
			}
			return 900
		},
		Run: run,
	})
}

type env struct {
	st      *feefix.Stack
	price   *big.Int
	defCost int64
	inCost  int64
	callC   int64
	targets []module.Address
	nonce   int64
	keys    []string
}

type genState struct {
	r        *rand.Rand
	e        *env
	feat     map[string]bool
	scoreBal *big.Int
	sender   module.Address
	maxDepth int
}

func (g *genState) mutation(depth int) op {
	r := g.r
	switch r.Intn(9) {
	case 0, 1:
		g.feat["storage"] = true
		return op{Op: "set", K: g.e.keys[r.Intn(len(g.e.keys))], V: hex.EncodeToString([]byte{byte(1 + r.Intn(200)), byte(r.Intn(256))})}
	case 2:
		g.feat["storage"] = true
		return op{Op: "del", K: g.e.keys[r.Intn(len(g.e.keys))]}
	case 3, 4:
		g.feat["xfer"] = true
		return op{Op: "xfer", To: g.e.targets[r.Intn(len(g.e.targets))].String(), V: fmt.Sprint(1 + r.Intn(1000))}
	case 5:
		g.feat["event"] = true
		return op{Op: "event", N: int64(r.Intn(100))}
	case 6:
		g.feat["btp"] = true
		return op{Op: "btp", N: int64(1 + r.Intn(3)), V: "m" + fmt.Sprint(r.Intn(100))}
	case 7:
		g.feat["addval"] = true
		return op{Op: "addval", To: wallet.New().Address().String()}
	default:
		return op{Op: "steps", N: int64(r.Intn(500))}
	}
}

// seq generates an op sequence; if mustFail it ends in an op that fails the frame.
func (g *genState) seq(depth int, mustFail bool, allowBTPSuccess bool) []op {
	r := g.r
	if depth > g.maxDepth {
		g.maxDepth = depth
	}
	var ops []op
	n := r.Intn(4)
	for i := 0; i < n; i++ {
		switch k := r.Intn(10); {
		case k < 6:
			ops = append(ops, g.mutation(depth))
		case k < 8 && depth < 3:
			// inner call that fails and is caught: its changes must vanish, ours stay (until we fail too)
			g.feat["caught"] = true
			ops = append(ops, op{Op: "call", Prog: g.seq(depth+1, true, true), Catch: true, V: g.callValue()})
		case depth < 3:
			ops = append(ops, op{Op: "call", Prog: g.seq(depth+1, false, true), Catch: r.Intn(2) == 0, V: g.callValue()})
		default:
			ops = append(ops, g.mutation(depth))
		}
	}
	if !mustFail {
		return ops
	}
	switch k := r.Intn(12); {
	case k < 4:
		ops = append(ops, op{Op: "revert", N: int64(r.Intn(100))})
	case k < 5:
		ops = append(ops, op{Op: "burnsteps"})
	case k < 8 && depth < 3:
		ops = append(ops, op{Op: "call", Prog: g.seq(depth+1, true, true), V: g.callValue()}) // propagated
	case k < 9:
		ops = append(ops, op{Op: "call", M: "noSuchMethod", Prog: nil})
	case k < 10:
		ops = append(ops, op{Op: "call", M: "plain", V: "7", Prog: []op{{Op: "set", K: "np", V: "01"}}}) // not payable + value
	case k < 11:
		g.feat["xfer-too-much"] = true
		ops = append(ops, op{Op: "xfer", To: g.e.targets[0].String(), V: new(big.Int).Lsh(big.NewInt(1), 120).String()})
	default:
		ops = append(ops, op{Op: "revert", N: int64(r.Intn(100))})
	}
	return ops
}

func (g *genState) callValue() string {
	if g.r.Intn(4) == 0 {
		return fmt.Sprint(1 + g.r.Intn(500))
	}
	return ""
}

func countOps(ops []op) int {
	n := 0
	for _, o := range ops {
		n++
		n += countOps(o.Prog)
	}
	return n
}

func run(c *ev.Ctx) {
	registerScore()
	c.Cases(func(ci int, r *rand.Rand) {
		e := &env{}
		e.price = []*big.Int{big.NewInt(0), big.NewInt(1), big.NewInt(12500000000), big.NewInt(12500000000)}[r.Intn(4)]
		e.defCost = []int64{100000, 1000}[r.Intn(2)]
		e.inCost = []int64{200, 0, 10}[r.Intn(3)]
		e.callC = []int64{25000, 300}[r.Intn(2)]
		unit := new(big.Int).Mul(big.NewInt(10000000), e.price)
		unit.Add(unit, big.NewInt(1000000))
		rich := new(big.Int).Mul(unit, big.NewInt(1000000))
		bal := []*big.Int{rich, rich, rich, rich,
			new(big.Int).Mul(unit, big.NewInt(int64(1+r.Intn(3)))), // the sender whose balance gets drained
			big.NewInt(0), rich, rich}
		cfg := feefix.Config{StepPrice: e.price,
			StepCosts:     map[string]int64{"default": e.defCost, "input": e.inCost, "contractCall": e.callC},
			StepLimits:    map[string]int64{"invoke": 2500000000, "query": 50000000},
			Balances:      bal,
			ExtraAccounts: map[string]*big.Int{scoreAddr.String(): big.NewInt(int64(100000 + r.Intn(1000000)))},
		}
		owner := wallet.New().Address()
		cfg.Setup = install(owner)
		st, err := feefix.New(cfg)
		if err != nil {
			c.Violation("harness.setup", err.Error())
			return
		}
		defer st.Close()
		e.st = st
		e.targets = []module.Address{st.Wallets[5].Address(), wallet.New().Address(), wallet.New().Address()}
		e.keys = []string{"a", "b", "c", "np"}
		c.Note("env price=%s default=%d input=%d call=%d", e.price, e.defCost, e.inCost, e.callC)

		// give the SCORE some storage first so that delete/replace have something to act on
		ts := int64(1000000)
		pre := e.scoreTx(st.Wallets[0], "run", []op{{Op: "set", K: "a", V: "aa"}, {Op: "set", K: "b", V: "bb"}}, nil, big.NewInt(100000000), ts)
		b1 := st.Exec(st.Base, []module.Transaction{pre}, ts, false)
		if !b1.OK() {
			c.Violation("harness.prepare-block", fmt.Sprint(b1.ValidateErr, b1.ExecErr))
			return
		}
		if rs, err := b1.Receipts(); err != nil || rs[0].Status() != module.StatusSuccess {
			c.Violation("harness.prepare-tx", fmt.Sprint(err))
			return
		}
		takeTrace(pre.ID())
		var emptyControl *result
		for pi := 0; pi < 6 && !c.Stopped(); pi++ {
			e.program(c, r, b1, ts+1000, &emptyControl)
		}
	})
}

func (e *env) scoreTx(from module.Wallet, method string, prog []op, value *big.Int, limit *big.Int, ts int64) module.Transaction {
	e.nonce++
	params := map[string]interface{}{}
	if prog != nil {
		bs, _ := json.Marshal(prog)
		params["prog"] = string(bs)
	}
	data := map[string]interface{}{"method": method, "params": params}
	tx, err := feefix.SignedTx(feefix.TxSpec{From: from, To: scoreAddr, Value: value, StepLimit: limit, Timestamp: ts,
		Nonce: big.NewInt(e.nonce), DataType: "call", Data: data})
	if err != nil {
		panic(err)
	}
	return tx
}

type result struct {
	blk      *feefix.Block
	accounts map[string]*feefix.Account
	ws       state.WorldSnapshot
	valHash  []byte
}

func (e *env) execute(parent *feefix.Block, txs []module.Transaction, ts int64) (*result, error) {
	blk := e.st.Exec(parent, txs, ts, false)
	if blk.ValidateErr != nil {
		return nil, fmt.Errorf("validation: %v", blk.ValidateErr)
	}
	if blk.ExecErr != nil {
		return &result{blk: blk}, nil
	}
	ws, err := blk.Snapshot()
	if err != nil {
		return nil, err
	}
	acc, err := e.st.Accounts(ws)
	if err != nil {
		return nil, err
	}
	var vh []byte
	if vl := blk.Tr.NextValidators(); vl != nil {
		vh = vl.Hash()
	}
	return &result{blk: blk, accounts: acc, ws: ws, valHash: vh}, nil
}

func (e *env) program(c *ev.Ctx, r *rand.Rand, parent *feefix.Block, ts int64, emptyControl **result) {
	g := &genState{r: r, e: e, feat: map[string]bool{}}
	kind := r.Intn(100)
	sender := e.st.Wallets[r.Intn(4)]
	method := "run"
	var prog []op
	var value *big.Int
	wantFail := true
	kindName := ""
	switch {
	case kind < 55:
		kindName = "program-fails"
		prog = g.seq(1, true, true)
	case kind < 68:
		kindName = "step-limit-cut"
		prog = g.seq(1, false, true)
		for len(prog) < 3 {
			prog = append(prog, g.mutation(1))
		}
	case kind < 76:
		kindName = "invalid-call"
		prog = g.seq(1, false, true)
		switch r.Intn(3) {
		case 0:
			method = "noSuchMethod"
		case 1:
			method = "plain" // with value below: not payable
			value = big.NewInt(int64(1 + r.Intn(1000)))
		default:
			prog = nil // missing parameter
		}
	case kind < 90:
		kindName = "drained-at-fee-time"
		sender = e.st.Wallets[4]
		prog = append(g.seq(1, false, false), op{Op: "drain", To: sender.Address().String(), V: new(big.Int).Lsh(big.NewInt(1), 100).String()})
	default:
		kindName = "succeeds"
		wantFail = false
		prog = g.seq(1, false, false)
		for i := range prog {
			if prog[i].Op == "btp" { // a successful BTP message needs an open network
				prog[i] = op{Op: "event", N: 1}
			}
		}
		prog = append(prog, op{Op: "set", K: "c", V: hex.EncodeToString([]byte{byte(1 + r.Intn(250)), 7})})
	}
	if !wantFail || kindName == "drained-at-fee-time" || kindName == "step-limit-cut" {
		// these programs are meant to complete: no BTP message may survive (no network is open)
		prog = stripBTP(prog, kindName != "succeeds")
	}
	if value == nil && r.Intn(3) == 0 && method != "noSuchMethod" {
		value = big.NewInt(int64(1 + r.Intn(100000)))
	}
	dataLen, _ := feefix.CompactJSONLen(map[string]interface{}{"method": method, "params": progParams(prog)})
	min := e.defCost + e.inCost*int64(dataLen)
	limit := big.NewInt(min + e.callC*int64(2+countOps(prog)) + int64(countOps(prog))*opCost + 100000)
	if kindName == "step-limit-cut" {
		limit = big.NewInt(min + e.callC + int64(r.Intn(countOps(prog)*opCost+int(e.callC)+1)))
	}
	tx := e.scoreTx(sender, method, prog, value, limit, ts)

	var n1, n2 module.Transaction
	neighbours := r.Intn(5) < 2
	if neighbours {
		mk := func(a, b int, v int64) module.Transaction {
			e.nonce++
			t, err := feefix.SignedTx(feefix.TxSpec{From: e.st.Wallets[a], To: e.st.Wallets[b].Address(), Value: big.NewInt(v),
				StepLimit: big.NewInt(e.defCost + 1000), Timestamp: ts, Nonce: big.NewInt(e.nonce)})
			if err != nil {
				panic(err)
			}
			return t
		}
		n1, n2 = mk(6, 7, int64(1+r.Intn(1000))), mk(7, 6, int64(1+r.Intn(1000)))
	}
	progJSON := feefix.JSONString(prog)
	txJSON, _ := tx.ToJSON(module.JSONVersionLast)
	c.Note("program kind=%s neighbours=%v value=%v limit=%s tx=%s", kindName, neighbours, value, limit, feefix.JSONString(txJSON))
	c.Eval(1)
	c.Count("programs", 1)

	// control
	var control *result
	var err error
	if neighbours {
		control, err = e.execute(parent, []module.Transaction{n1, n2}, ts)
		c.Count("with_neighbours", 1)
	} else {
		if *emptyControl == nil {
			*emptyControl, err = e.execute(parent, nil, ts)
		}
		control = *emptyControl
	}
	if err != nil || control == nil || control.accounts == nil {
		c.Violation("harness.control-block", fmt.Sprint(err))
		return
	}
	// test
	txs := []module.Transaction{tx}
	idx := 0
	if neighbours {
		txs = []module.Transaction{n1, tx, n2}
		idx = 1
	}
	test, err := e.execute(parent, txs, ts)
	tr := takeTrace(tx.ID())
	wit := map[string]interface{}{"kind": kindName, "program": json.RawMessage(progJSON), "method": method, "value": fmt.Sprint(value), "step_limit": limit.String(),
		"price": e.price.String(), "default_step": e.defCost, "input_step": e.inCost, "call_step": e.callC, "neighbours": neighbours,
		"tx": txJSON, "trace": tr}
	if err != nil {
		c.Count("test_block_refused", 1)
		c.Notef("test block refused: %v", err)
		return
	}
	if test.accounts == nil {
		wit["block_error"] = test.blk.ExecErr.Error()
		c.Violation("failed-tx.block-execution-error", wit)
		return
	}
	rs, err := test.blk.Receipts()
	if err != nil || len(rs) != len(txs) {
		c.Violation("harness.receipts", fmt.Sprint(err))
		return
	}
	rc := rs[idx]
	st := rc.Status()
	wit["status"] = st.String()
	wit["stepUsed"] = rc.StepUsed().String()
	wit["stepPrice"] = rc.StepPrice().String()
	c.Count("status_"+st.String(), 1)
	if st >= module.StatusReverted {
		c.Count("status_Reverted", 1)
	}
	if st == module.StatusSuccess {
		c.Count("tx_succeeded", 1)
		// the monitor is not vacuous: a successful program's effects are visible in the same comparison
		sk := feefix.AccountKey(scoreAddr)
		if a, b := test.accounts[sk], control.accounts[sk]; a != nil && b != nil && !bytes.Equal(a.Bytes, b.Bytes) {
			c.Count("success_changes_state", 1)
		}
		return
	}
	c.Count("failed_tx_judged", 1)
	fee := new(big.Int).Mul(rc.StepUsed(), rc.StepPrice())
	wit["fee"] = fee.String()
	suffix := "." + st.String()

	// receipt: no event logs, no BTP messages
	if it := rc.EventLogIterator(); it != nil && it.Has() {
		c.Violation("failed-tx.receipt-has-event-logs"+suffix, wit)
	}
	if l := rc.BTPMessages(); l != nil && l.Len() > 0 {
		c.Violation("failed-tx.receipt-has-btp-messages"+suffix, wit)
	}

	// state: identical to the control except the fee
	payerK, treasK, scoreK := feefix.AccountKey(sender.Address()), feefix.AccountKey(e.st.Treasury), feefix.AccountKey(scoreAddr)
	names := map[string]string{payerK: "payer", treasK: "treasury", scoreK: "score"}
	for i, t := range e.targets {
		names[feefix.AccountKey(t)] = fmt.Sprintf("transfer-target-%d", i)
	}
	keys := map[string]bool{}
	for k := range test.accounts {
		keys[k] = true
	}
	for k := range control.accounts {
		keys[k] = true
	}
	sorted := make([]string, 0, len(keys))
	for k := range keys {
		sorted = append(sorted, k)
	}
	sort.Strings(sorted)
	balOf := func(m map[string]*feefix.Account, k string) *big.Int {
		if a := m[k]; a != nil {
			return a.Balance
		}
		return new(big.Int)
	}
	for _, k := range sorted {
		c.Count("accounts_compared", 1)
		a, b := test.accounts[k], control.accounts[k]
		switch k {
		case payerK:
			want := new(big.Int).Sub(balOf(control.accounts, k), fee)
			if balOf(test.accounts, k).Cmp(want) != 0 {
				wit["payer_balance"], wit["payer_expected"] = balOf(test.accounts, k).String(), want.String()
				c.Violation("failed-tx.payer-delta-is-not-the-fee"+suffix, wit)
			}
		case treasK:
			want := new(big.Int).Add(balOf(control.accounts, k), fee)
			if balOf(test.accounts, k).Cmp(want) != 0 {
				wit["treasury_balance"], wit["treasury_expected"] = balOf(test.accounts, k).String(), want.String()
				c.Violation("failed-tx.treasury-delta-is-not-the-fee"+suffix, wit)
			}
		default:
			same := a != nil && b != nil && bytes.Equal(a.Bytes, b.Bytes)
			if !same {
				role := names[k]
				if role == "" {
					role = "other-account"
				}
				what := "state"
				if a != nil && b != nil && a.Balance.Cmp(b.Balance) != 0 {
					what = "balance"
				} else if a == nil || b == nil {
					what = "existence"
				}
				wit["account"], wit["account_key"] = role, k
				wit["balance_with_tx"], wit["balance_control"] = balOf(test.accounts, k).String(), balOf(control.accounts, k).String()
				c.Violation("failed-tx.state-changed."+role+"."+what+suffix, wit)
			}
		}
	}
	if !bytes.Equal(test.valHash, control.valHash) {
		c.Violation("failed-tx.state-changed.validators"+suffix, wit)
	}
	if !bytes.Equal(test.ws.BTPData(), control.ws.BTPData()) {
		c.Violation("failed-tx.state-changed.btp-data"+suffix, wit)
	}
	if !bytes.Equal(test.ws.ExtensionData(), control.ws.ExtensionData()) {
		c.Violation("failed-tx.state-changed.extension-data"+suffix, wit)
	}

	// what kind of failure did the monitor see
	if tr.Mutations > 0 {
		c.Count("failed_after_mutations", 1)
		c.NonTrivial(kindName + "|" + method + "|" + st.String() + "|" + progJSON)
		for f := range g.feat {
			switch f {
			case "event", "btp", "xfer", "addval", "storage":
				c.Count("failed_after_"+f, 1)
			}
		}
	} else {
		c.Count("failed_before_any_mutation", 1)
	}
	if value != nil && value.Sign() > 0 {
		c.Count("failed_with_value", 1)
	}
	if tr.MaxDepth >= 3 {
		c.Count("failed_depth_ge_3", 1)
	}
	if tr.Caught > 0 {
		c.Count("failed_with_caught_inner_failure", 1)
	}
	c.Count("failure_kind_"+kindName, 1)
	if c.WantSample() && tr.Mutations > 1 && countOps(prog) < 8 {
		c.Sample(wit)
	}
}

func progParams(prog []op) map[string]interface{} {
	params := map[string]interface{}{}
	if prog != nil {
		bs, _ := json.Marshal(prog)
		params["prog"] = string(bs)
	}
	return params
}

// stripBTP replaces BTP ops in frames that may complete; keepInFailing keeps
// them inside frames that are known to fail (mustFail sub-programs end in a
// failing op, so anything they queued is dropped by the frame).
func stripBTP(prog []op, keepInFailing bool) []op {
	out := make([]op, len(prog))
	for i, o := range prog {
		if o.Op == "btp" {
			o = op{Op: "event", N: o.N}
		}
		if len(o.Prog) > 0 {
			o.Prog = stripBTP(o.Prog, keepInFailing)
		}
		out[i] = o
	}
	return out
}
