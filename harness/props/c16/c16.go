// Package c16: a failed transaction changes nothing but the fee.
package c16

import (
	"bytes"
	"encoding/hex"
	"encoding/json"
	"fmt"
	"math/big"
	"math/rand"
	"sort"

	"github.com/icon-project/goloop/common/wallet"
	"github.com/icon-project/goloop/module"
	"github.com/icon-project/goloop/service/state"

	"verif/lib/ev"
	"verif/lib/feefix"
)

func init() {
	ev.Register(&ev.Prop{
		ID:    "C16",
		Level: "exploration",
		Cases: func(t string) int {
			if t == ev.Thorough {
				return 4000
			}
			return 80
		},
		Batches: func(t string) int {
			if t == ev.Thorough {
				return 32
			}
			return 16
		},
		Rule: "each case = one real service stack with the harness system SCORE 'verif' (contract.RegisterSystemScore, installed at a fixed funded address by the setup block) and 6 programs. A program is a JSON op list interpreted by the SCORE against the real call context: set/delete storage, transfer ICX to EOAs (ICXTransfer event), emit event, send a BTP message on the open network (BTPState.HandleMessage + OnBTPMessage, as ChainScore.sendBTPMessage), add validator, move the sender's balance ('drain'), nested inter-calls to itself up to depth 3 whose failure is caught or propagated, consume steps, revert(code), burn all steps. The transaction fails by revert / out of step (program or a step limit cut at a chosen count) / unknown method or bad parameter / non-payable method with value / transfer of more than the SCORE owns / out of balance at fee time (after 'drain'), after 0..k mutations at every nesting depth; it carries value in a third of the cases. It is executed alone, or as one of 2-3 failing transactions of different senders in one block (most of them send on the open BTP network 1 before failing: repeated roll-backs of the BTP state), alone or between two succeeding transfers, in a third of the comparisons followed by a SUCCEEDING call that dirties the SCORE account again (value, or a storage write of its own; in half of the stacks the SCORE has no storage at all before the failing writes), and the SAME block without it is executed on the same parent as control. Oracle: every account of the account trie (encoding incl. storage root), validator list, BTP data and extension data of the two results are identical except payer balance -fee and treasury +fee (fee = stepUsed x stepPrice of the receipt), and the receipt has no event logs and no BTP messages. Non-trivial = distinct failing program that executed at least one mutation before failing.",
		MinNonTrivial: func(t string) int {
			if t == ev.Thorough {
				return 10000
			}
			return 180
		},
		Required: []string{"programs", "failed_tx_judged", "failed_after_mutations", "status_Reverted", "status_OutOfStep", "status_OutOfBalance",
			"status_MethodNotFound", "failed_with_value", "failed_depth_ge_3", "failed_with_caught_inner_failure", "failed_after_event", "failed_after_btp",
			"failed_after_xfer", "failed_after_addval", "failed_after_storage", "success_changes_state", "with_neighbours", "accounts_compared",
			"stacks_score_without_storage", "score_touched_by_later_success_after_failed_tx", "storage_less_score_written_by_failed_tx_then_touched",
			"multi_blocks_all_failed", "multi_blocks_two_failed_btp_senders", "failed_tx_with_btp_send_and_caught_failure"},
		Assumptions: []string{
			"the control block (same parent, same height/time, same neighbours, without the failing transaction) captures every block-level effect that is not the transaction's",
			"the harness SCORE runs inside the real call context (frames, snapshots, steps); its own trace of executed mutations is observability only",
			"payer = sender (no fee sharing configured)",
		},
		TimeoutSec: func(t string) int {
			if t == ev.Thorough {
				return 3000
			}
			return 900
		},
		Run: run,
	})
}

type env struct {
	st           *feefix.Stack
	price        *big.Int
	defCost      int64
	inCost       int64
	callC        int64
	targets      []module.Address
	nonce        int64
	keys         []string
	emptyStorage bool
}

type genState struct {
	r        *rand.Rand
	e        *env
	feat     map[string]bool
	scoreBal *big.Int
	sender   module.Address
	maxDepth int
}

func (g *genState) mutation(depth int) op {
	r := g.r
	switch r.Intn(9) {
	case 0, 1:
		g.feat["storage"] = true
		return op{Op: "set", K: g.e.keys[r.Intn(len(g.e.keys))], V: hex.EncodeToString([]byte{byte(1 + r.Intn(200)), byte(r.Intn(256))})}
	case 2:
		g.feat["storage"] = true
		return op{Op: "del", K: g.e.keys[r.Intn(len(g.e.keys))]}
	case 3, 4:
		g.feat["xfer"] = true
		return op{Op: "xfer", To: g.e.targets[r.Intn(len(g.e.targets))].String(), V: fmt.Sprint(1 + r.Intn(1000))}
	case 5:
		g.feat["event"] = true
		return op{Op: "event", N: int64(r.Intn(100))}
	case 6:
		g.feat["btp"] = true
		return op{Op: "btp", N: int64(1 + r.Intn(3)), V: "m" + fmt.Sprint(r.Intn(100))}
	case 7:
		g.feat["addval"] = true
		return op{Op: "addval", To: wallet.New().Address().String()}
	default:
		return op{Op: "steps", N: int64(r.Intn(500))}
	}
}

// seq generates an op sequence; if mustFail it ends in an op that fails the frame.
func (g *genState) seq(depth int, mustFail bool, allowBTPSuccess bool) []op {
	r := g.r
	if depth > g.maxDepth {
		g.maxDepth = depth
	}
	var ops []op
	n := r.Intn(4)
	for i := 0; i < n; i++ {
		switch k := r.Intn(10); {
		case k < 6:
			ops = append(ops, g.mutation(depth))
		case k < 8 && depth < 3:
			// inner call that fails and is caught: its changes must vanish, ours stay (until we fail too)
			g.feat["caught"] = true
			ops = append(ops, op{Op: "call", Prog: g.seq(depth+1, true, true), Catch: true, V: g.callValue()})
		case depth < 3:
			ops = append(ops, op{Op: "call", Prog: g.seq(depth+1, false, true), Catch: r.Intn(2) == 0, V: g.callValue()})
		default:
			ops = append(ops, g.mutation(depth))
		}
	}
	if !mustFail {
		return ops
	}
	switch k := r.Intn(12); {
	case k < 4:
		ops = append(ops, op{Op: "revert", N: int64(r.Intn(100))})
	case k < 5:
		ops = append(ops, op{Op: "burnsteps"})
	case k < 8 && depth < 3:
		ops = append(ops, op{Op: "call", Prog: g.seq(depth+1, true, true), V: g.callValue()}) // propagated
	case k < 9:
		ops = append(ops, op{Op: "call", M: "noSuchMethod", Prog: nil})
	case k < 10:
		ops = append(ops, op{Op: "call", M: "plain", V: "7", Prog: []op{{Op: "set", K: "np", V: "01"}}}) // not payable + value
	case k < 11:
		g.feat["xfer-too-much"] = true
		ops = append(ops, op{Op: "xfer", To: g.e.targets[0].String(), V: new(big.Int).Lsh(big.NewInt(1), 120).String()})
	default:
		ops = append(ops, op{Op: "revert", N: int64(r.Intn(100))})
	}
	return ops
}

func (g *genState) callValue() string {
	if g.r.Intn(4) == 0 {
		return fmt.Sprint(1 + g.r.Intn(500))
	}
	return ""
}

func countOps(ops []op) int {
	n := 0
	for _, o := range ops {
		n++
		n += countOps(o.Prog)
	}
	return n
}

func run(c *ev.Ctx) {
	registerScore()
	c.Cases(func(ci int, r *rand.Rand) {
		e := &env{}
		e.price = []*big.Int{big.NewInt(0), big.NewInt(1), big.NewInt(12500000000), big.NewInt(12500000000)}[r.Intn(4)]
		e.defCost = []int64{100000, 1000}[r.Intn(2)]
		e.inCost = []int64{200, 0, 10}[r.Intn(3)]
		e.callC = []int64{25000, 300}[r.Intn(2)]
		unit := new(big.Int).Mul(big.NewInt(10000000), e.price)
		unit.Add(unit, big.NewInt(1000000))
		rich := new(big.Int).Mul(unit, big.NewInt(1000000))
		bal := []*big.Int{rich, rich, rich, rich,
			new(big.Int).Mul(unit, big.NewInt(int64(1+r.Intn(3)))), // the sender whose balance gets drained
			big.NewInt(0), rich, rich}
		cfg := feefix.Config{StepPrice: e.price,
			StepCosts:     map[string]int64{"default": e.defCost, "input": e.inCost, "contractCall": e.callC},
			StepLimits:    map[string]int64{"invoke": 2500000000, "query": 50000000},
			Balances:      bal,
			ExtraAccounts: map[string]*big.Int{scoreAddr.String(): big.NewInt(int64(100000 + r.Intn(1000000)))},
		}
		owner := wallet.New().Address()
		cfg.Setup = install(owner, wallet.New())
		st, err := feefix.New(cfg)
		if err != nil {
			c.Violation("harness.setup", err.Error())
			return
		}
		defer st.Close()
		e.st = st
		e.targets = []module.Address{st.Wallets[5].Address(), wallet.New().Address(), wallet.New().Address()}
		e.keys = []string{"a", "b", "c", "np"}
		c.Note("env price=%s default=%d input=%d call=%d", e.price, e.defCost, e.inCost, e.callC)

		// give the SCORE some storage first so that delete/replace have something to act on
		ts := int64(1000000)
		// half of the stacks: give the SCORE some storage first so that delete/replace have
		// something to act on; the other half: the SCORE account has NO storage at all when
		// the failing transactions write to it (roll-back to a storage-less snapshot)
		e.emptyStorage = r.Intn(2) == 0
		preProg := []op{{Op: "set", K: "a", V: "aa"}, {Op: "set", K: "b", V: "bb"}}
		if e.emptyStorage {
			preProg = []op{{Op: "event", N: 1}}
			c.Count("stacks_score_without_storage", 1)
		}
		pre := e.scoreTx(st.Wallets[0], "run", preProg, nil, big.NewInt(100000000), ts)
		settle := st.Exec(st.Base, nil, ts-1000, false) // settles the first section of the opened BTP network
		if !settle.OK() {
			c.Violation("harness.settle-block", fmt.Sprint(settle.ValidateErr, settle.ExecErr))
			return
		}
		b1 := st.Exec(settle, []module.Transaction{pre}, ts, false)
		if !b1.OK() {
			c.Violation("harness.prepare-block", fmt.Sprint(b1.ValidateErr, b1.ExecErr))
			return
		}
		if rs, err := b1.Receipts(); err != nil || rs[0].Status() != module.StatusSuccess {
			c.Violation("harness.prepare-tx", fmt.Sprint(err))
			return
		}
		takeTrace(pre.ID())
		var emptyControl *result
		for pi := 0; pi < 6 && !c.Stopped(); pi++ {
			e.program(c, r, b1, ts+1000, &emptyControl)
		}
	})
}

func (e *env) scoreTx(from module.Wallet, method string, prog []op, value *big.Int, limit *big.Int, ts int64) module.Transaction {
	e.nonce++
	params := map[string]interface{}{}
	if prog != nil {
		bs, _ := json.Marshal(prog)
		params["prog"] = string(bs)
	}
	data := map[string]interface{}{"method": method, "params": params}
	tx, err := feefix.SignedTx(feefix.TxSpec{From: from, To: scoreAddr, Value: value, StepLimit: limit, Timestamp: ts,
		Nonce: big.NewInt(e.nonce), DataType: "call", Data: data})
	if err != nil {
		panic(err)
	}
	return tx
}

type result struct {
	blk       *feefix.Block
	accounts  map[string]*feefix.Account
	ws        state.WorldSnapshot
	valHash   []byte
	btpDigest []byte
}

func (e *env) execute(parent *feefix.Block, txs []module.Transaction, ts int64) (*result, error) {
	blk := e.st.Exec(parent, txs, ts, false)
	if blk.ValidateErr != nil {
		return nil, fmt.Errorf("validation: %v", blk.ValidateErr)
	}
	if blk.ExecErr != nil {
		return &result{blk: blk}, nil
	}
	ws, err := blk.Snapshot()
	if err != nil {
		return nil, err
	}
	acc, err := e.st.Accounts(ws)
	if err != nil {
		return nil, err
	}
	var vh []byte
	if vl := blk.Tr.NextValidators(); vl != nil {
		vh = vl.Hash()
	}
	var dh []byte
	if bsn := blk.Tr.BTPSection(); bsn != nil && bsn.Digest() != nil {
		dh = bsn.Digest().Hash()
	}
	return &result{blk: blk, accounts: acc, ws: ws, valHash: vh, btpDigest: dh}, nil
}

// ptx is one generated test transaction.
type ptx struct {
	tx       module.Transaction
	sender   module.Wallet
	kind     string
	method   string
	prog     []op
	progJSON string
	value    *big.Int
	limit    *big.Int
	feat     map[string]bool
}

// gen makes one test transaction of the given sender. btpBias makes the
// program touch the BTP state of the open network before it fails.
func (e *env) gen(r *rand.Rand, sender module.Wallet, ts int64, onlyFailing, btpBias bool) *ptx {
	g := &genState{r: r, e: e, feat: map[string]bool{}}
	p := &ptx{sender: sender, method: "run", feat: g.feat}
	kind := r.Intn(100)
	if onlyFailing {
		kind = r.Intn(76) // kinds that fail by construction (or are cut / invalid)
		if kind >= 55 && kind < 68 {
			kind = r.Intn(55)
		}
	}
	switch {
	case kind < 55:
		p.kind = "program-fails"
		p.prog = g.seq(1, true, true)
	case kind < 68:
		p.kind = "step-limit-cut"
		p.prog = g.seq(1, false, true)
		for len(p.prog) < 3 {
			p.prog = append(p.prog, g.mutation(1))
		}
	case kind < 76:
		p.kind = "invalid-call"
		p.prog = g.seq(1, false, true)
		switch r.Intn(3) {
		case 0:
			p.method = "noSuchMethod"
		case 1:
			p.method = "plain" // with value below: not payable
			p.value = big.NewInt(int64(1 + r.Intn(1000)))
		default:
			p.prog = nil // missing parameter
		}
	case kind < 90:
		p.kind = "drained-at-fee-time"
		p.sender = e.st.Wallets[4]
		p.prog = append(g.seq(1, false, false), op{Op: "drain", To: p.sender.Address().String(), V: new(big.Int).Lsh(big.NewInt(1), 100).String()})
	default:
		p.kind = "succeeds"
		p.prog = append(g.seq(1, false, false), op{Op: "set", K: "c", V: hex.EncodeToString([]byte{byte(1 + r.Intn(250)), 7})})
	}
	if btpBias && p.prog != nil {
		// send on the open network first (dirties the BTP state), sometimes
		// inside a caught failing sub-call as well
		pre := []op{{Op: "btp", N: 1, V: "b" + fmt.Sprint(r.Intn(100))}}
		if r.Intn(3) == 0 {
			pre = append(pre, op{Op: "call", Catch: true, Prog: []op{{Op: "btp", N: 1, V: "inner"}, {Op: "revert", N: 3}}})
		}
		p.prog = append(pre, p.prog...)
		g.feat["btp"] = true
	}
	if p.kind == "succeeds" || p.kind == "step-limit-cut" {
		// a transaction that completes must not change the validator set in a
		// chain with an open BTP network (no BTP key for the new validator)
		p.prog = replaceOp(p.prog, "addval")
	}
	if p.value == nil && r.Intn(3) == 0 && p.method != "noSuchMethod" {
		p.value = big.NewInt(int64(1 + r.Intn(100000)))
	}
	dataLen, _ := feefix.CompactJSONLen(map[string]interface{}{"method": p.method, "params": progParams(p.prog)})
	min := e.defCost + e.inCost*int64(dataLen)
	p.limit = big.NewInt(min + e.callC*int64(2+countOps(p.prog)) + int64(countOps(p.prog))*opCost + 100000)
	if p.kind == "step-limit-cut" {
		p.limit = big.NewInt(min + e.callC + int64(r.Intn(countOps(p.prog)*opCost+int(e.callC)+1)))
	}
	p.tx = e.scoreTx(p.sender, p.method, p.prog, p.value, p.limit, ts)
	p.progJSON = feefix.JSONString(p.prog)
	return p
}

func replaceOp(prog []op, name string) []op {
	out := make([]op, len(prog))
	for i, o := range prog {
		if o.Op == name {
			o = op{Op: "event", N: 1}
		}
		if len(o.Prog) > 0 {
			o.Prog = replaceOp(o.Prog, name)
		}
		out[i] = o
	}
	return out
}

// program runs one comparison: a block with 1 (or 2-3, multi) test
// transactions, optionally between two succeeding transfers, against the
// same block without them.
func (e *env) program(c *ev.Ctx, r *rand.Rand, parent *feefix.Block, ts int64, emptyControl **result) {
	multi := r.Intn(3) == 0
	var tests []*ptx
	if multi {
		// 2-3 failing transactions of different senders in ONE block; most of
		// them touch the BTP state before failing
		n := 2 + r.Intn(2)
		perm := r.Perm(4)
		for i := 0; i < n; i++ {
			tests = append(tests, e.gen(r, e.st.Wallets[perm[i]], ts, true, r.Intn(4) != 0))
		}
	} else {
		tests = append(tests, e.gen(r, e.st.Wallets[r.Intn(4)], ts, false, r.Intn(4) == 0))
	}

	var n1, n2 module.Transaction
	neighbours := r.Intn(5) < 2
	if neighbours {
		mk := func(a, b int, v int64) module.Transaction {
			e.nonce++
			t, err := feefix.SignedTx(feefix.TxSpec{From: e.st.Wallets[a], To: e.st.Wallets[b].Address(), Value: big.NewInt(v),
				StepLimit: big.NewInt(e.defCost + 1000), Timestamp: ts, Nonce: big.NewInt(e.nonce)})
			if err != nil {
				panic(err)
			}
			return t
		}
		n1, n2 = mk(6, 7, int64(1+r.Intn(1000))), mk(7, 6, int64(1+r.Intn(1000)))
	}
	// a SUCCEEDING transaction after the failing ones that dirties the account
	// they wrote to (the SCORE): value only, or a storage write of its own.
	// It is part of the control block as well.
	var succ module.Transaction
	if r.Intn(3) == 0 {
		sp := []op{}
		if r.Intn(2) == 0 {
			sp = []op{{Op: "set", K: "z", V: hex.EncodeToString([]byte{byte(1 + r.Intn(200))})}}
		}
		succ = e.scoreTx(e.st.Wallets[6], "run", sp, big.NewInt(int64(1+r.Intn(1000))), big.NewInt(e.defCost+e.inCost*400+e.callC*4+100000), ts)
	}
	var wtests []map[string]interface{}
	for _, p := range tests {
		txJSON, _ := p.tx.ToJSON(module.JSONVersionLast)
		wtests = append(wtests, map[string]interface{}{"kind": p.kind, "method": p.method, "program": json.RawMessage(p.progJSON),
			"value": fmt.Sprint(p.value), "step_limit": p.limit.String(), "sender": p.sender.Address().String(), "tx": txJSON})
	}
	c.Note("programs multi=%v neighbours=%v txs=%s", multi, neighbours, feefix.JSONString(wtests))
	c.Eval(len(tests))
	c.Count("programs", len(tests))
	if multi {
		c.Count("multi_blocks", 1)
	}

	// control
	var control *result
	var err error
	if neighbours || succ != nil {
		var ctxs []module.Transaction
		if neighbours {
			ctxs = append(ctxs, n1)
			c.Count("with_neighbours", 1)
		}
		if succ != nil {
			ctxs = append(ctxs, succ)
		}
		if neighbours {
			ctxs = append(ctxs, n2)
		}
		control, err = e.execute(parent, ctxs, ts)
		if succ != nil {
			takeTrace(succ.ID())
		}
	} else {
		if *emptyControl == nil {
			*emptyControl, err = e.execute(parent, nil, ts)
		}
		control = *emptyControl
	}
	if err != nil || control == nil || control.accounts == nil {
		c.Violation("harness.control-block", fmt.Sprint(err))
		return
	}
	// test
	var txs []module.Transaction
	if neighbours {
		txs = append(txs, n1)
	}
	first := len(txs)
	for _, p := range tests {
		txs = append(txs, p.tx)
	}
	succIdx := -1
	if succ != nil {
		succIdx = len(txs)
		txs = append(txs, succ)
	}
	if neighbours {
		txs = append(txs, n2)
	}
	test, err := e.execute(parent, txs, ts)
	if succ != nil {
		takeTrace(succ.ID())
	}
	traces := make([]*txTrace, len(tests))
	for i, p := range tests {
		traces[i] = takeTrace(p.tx.ID())
		wtests[i]["trace"] = traces[i]
	}
	wit := map[string]interface{}{"txs": wtests, "multi": multi, "price": e.price.String(), "default_step": e.defCost,
		"input_step": e.inCost, "call_step": e.callC, "neighbours": neighbours}
	if err != nil {
		c.Count("test_block_refused", 1)
		c.Notef("test block refused: %v", err)
		return
	}
	if test.accounts == nil {
		wit["block_error"] = test.blk.ExecErr.Error()
		c.Violation("failed-tx.block-execution-error", wit)
		return
	}
	rs, err := test.blk.Receipts()
	if err != nil || len(rs) != len(txs) {
		c.Violation("harness.receipts", fmt.Sprint(err))
		return
	}
	allFailed := true
	fees := map[string]*big.Int{} // payer account key -> fee
	total := new(big.Int)
	suffix := ""
	btpFailed := 0
	for i, p := range tests {
		rc := rs[first+i]
		st := rc.Status()
		wtests[i]["status"], wtests[i]["stepUsed"], wtests[i]["stepPrice"] = st.String(), rc.StepUsed().String(), rc.StepPrice().String()
		c.Count("status_"+st.String(), 1)
		if st >= module.StatusReverted {
			c.Count("status_Reverted", 1)
		}
		if st == module.StatusSuccess {
			allFailed = false
			c.Count("tx_succeeded", 1)
			continue
		}
		c.Count("failed_tx_judged", 1)
		fee := new(big.Int).Mul(rc.StepUsed(), rc.StepPrice())
		wtests[i]["fee"] = fee.String()
		k := feefix.AccountKey(p.sender.Address())
		if fees[k] == nil {
			fees[k] = new(big.Int)
		}
		fees[k].Add(fees[k], fee)
		total.Add(total, fee)
		if suffix == "" {
			suffix = "." + st.String()
		}
		// receipt: no event logs, no BTP messages
		if it := rc.EventLogIterator(); it != nil && it.Has() {
			c.Violation("failed-tx.receipt-has-event-logs."+st.String(), wit)
		}
		if l := rc.BTPMessages(); l != nil && l.Len() > 0 {
			c.Violation("failed-tx.receipt-has-btp-messages."+st.String(), wit)
		}
		tr := traces[i]
		if tr.BTPSends > 0 {
			btpFailed++
		}
	}
	if multi {
		suffix = ".multi"
	}
	sk := feefix.AccountKey(scoreAddr)
	if !allFailed {
		// the monitor is not vacuous: a successful program's effects are visible in the same comparison
		if a, b := test.accounts[sk], control.accounts[sk]; a != nil && b != nil && !bytes.Equal(a.Bytes, b.Bytes) {
			c.Count("success_changes_state", 1)
		}
		return
	}
	if succ != nil {
		wit["successor_touching_score"] = true
		if rs[succIdx].Status() != module.StatusSuccess {
			c.Violation("harness.successor-failed", wit)
			return
		}
		c.Count("score_touched_by_later_success_after_failed_tx", 1)
		for i, p := range tests {
			if e.emptyStorage && p.feat["storage"] && traces[i].Mutations > 0 {
				c.Count("storage_less_score_written_by_failed_tx_then_touched", 1)
				break
			}
		}
	}
	if multi {
		c.Count("multi_blocks_all_failed", 1)
		if btpFailed >= 2 {
			c.Count("multi_blocks_two_failed_btp_senders", 1)
		}
	}
	for _, tr := range traces {
		if tr.BTPSends > 0 && tr.Caught > 0 {
			c.Count("failed_tx_with_btp_send_and_caught_failure", 1)
			break
		}
	}

	// state: identical to the control except the fees
	treasK := feefix.AccountKey(e.st.Treasury)
	names := map[string]string{treasK: "treasury", sk: "score"}
	for k := range fees {
		names[k] = "payer"
	}
	for i, t := range e.targets {
		names[feefix.AccountKey(t)] = fmt.Sprintf("transfer-target-%d", i)
	}
	keys := map[string]bool{}
	for k := range test.accounts {
		keys[k] = true
	}
	for k := range control.accounts {
		keys[k] = true
	}
	sorted := make([]string, 0, len(keys))
	for k := range keys {
		sorted = append(sorted, k)
	}
	sort.Strings(sorted)
	balOf := func(m map[string]*feefix.Account, k string) *big.Int {
		if a := m[k]; a != nil {
			return a.Balance
		}
		return new(big.Int)
	}
	for _, k := range sorted {
		c.Count("accounts_compared", 1)
		a, b := test.accounts[k], control.accounts[k]
		switch {
		case fees[k] != nil:
			want := new(big.Int).Sub(balOf(control.accounts, k), fees[k])
			if balOf(test.accounts, k).Cmp(want) != 0 {
				wit["payer_balance"], wit["payer_expected"] = balOf(test.accounts, k).String(), want.String()
				c.Violation("failed-tx.payer-delta-is-not-the-fee"+suffix, wit)
			}
		case k == treasK:
			want := new(big.Int).Add(balOf(control.accounts, k), total)
			if balOf(test.accounts, k).Cmp(want) != 0 {
				wit["treasury_balance"], wit["treasury_expected"] = balOf(test.accounts, k).String(), want.String()
				c.Violation("failed-tx.treasury-delta-is-not-the-fee"+suffix, wit)
			}
		default:
			same := a != nil && b != nil && bytes.Equal(a.Bytes, b.Bytes)
			if !same {
				role := names[k]
				if role == "" {
					role = "other-account"
					if k == feefix.AccountKey(state.SystemAddress) {
						role = "system-account"
					}
				}
				what := "state"
				if a != nil && b != nil && a.Balance.Cmp(b.Balance) != 0 {
					what = "balance"
				} else if a == nil || b == nil {
					what = "existence"
				}
				wit["account"], wit["account_key"] = role, k
				wit["balance_with_tx"], wit["balance_control"] = balOf(test.accounts, k).String(), balOf(control.accounts, k).String()
				c.Violation("failed-tx.state-changed."+role+"."+what+suffix, wit)
			}
		}
	}
	if !bytes.Equal(test.valHash, control.valHash) {
		c.Violation("failed-tx.state-changed.validators"+suffix, wit)
	}
	if !bytes.Equal(test.ws.BTPData(), control.ws.BTPData()) {
		c.Violation("failed-tx.state-changed.btp-data"+suffix, wit)
	}
	if !bytes.Equal(test.btpDigest, control.btpDigest) {
		c.Violation("failed-tx.block-has-btp-section"+suffix, wit)
	}
	if !bytes.Equal(test.ws.ExtensionData(), control.ws.ExtensionData()) {
		c.Violation("failed-tx.state-changed.extension-data"+suffix, wit)
	}

	// what kind of failure did the monitor see
	for i, p := range tests {
		tr := traces[i]
		if tr.Mutations > 0 {
			c.Count("failed_after_mutations", 1)
			c.NonTrivial(p.kind + "|" + p.method + "|" + fmt.Sprint(wtests[i]["status"]) + "|" + p.progJSON)
			for f := range p.feat {
				switch f {
				case "event", "btp", "xfer", "addval", "storage":
					c.Count("failed_after_"+f, 1)
				}
			}
		} else {
			c.Count("failed_before_any_mutation", 1)
		}
		if p.value != nil && p.value.Sign() > 0 {
			c.Count("failed_with_value", 1)
		}
		if tr.MaxDepth >= 3 {
			c.Count("failed_depth_ge_3", 1)
		}
		if tr.Caught > 0 {
			c.Count("failed_with_caught_inner_failure", 1)
		}
		c.Count("failure_kind_"+p.kind, 1)
	}
	if c.WantSample() && traces[0].Mutations > 1 && countOps(tests[0].prog) < 8 {
		c.Sample(wit)
	}
}

func progParams(prog []op) map[string]interface{} {
	params := map[string]interface{}{}
	if prog != nil {
		bs, _ := json.Marshal(prog)
		params["prog"] = string(bs)
	}
	return params
}
