package c16

import (
	"encoding/hex"
	"encoding/json"
	"fmt"
	"math/big"
	"sync"

	"github.com/icon-project/goloop/common"
	"github.com/icon-project/goloop/module"
	"github.com/icon-project/goloop/service/contract"
	"github.com/icon-project/goloop/service/scoreapi"
	"github.com/icon-project/goloop/service/scoreresult"
	"github.com/icon-project/goloop/service/state"
)

// The harness system SCORE "verif": one payable external method run(prog)
// that interprets a small op program against the real call context.

const scoreCID = "verif"

var scoreAddr = common.MustNewAddressFromString("cx00000000000000000000000000000000000c0016")

type op struct {
	Op    string `json:"op"`           // set del xfer event btp call steps revert drain addval burnsteps
	K     string `json:"k,omitempty"`  // storage key
	V     string `json:"v,omitempty"`  // storage value (hex) / amount (decimal)
	To    string `json:"to,omitempty"` // address
	N     int64  `json:"n,omitempty"`  // steps / code / nid
	Prog  []op   `json:"prog,omitempty"`
	Catch bool   `json:"catch,omitempty"`
	M     string `json:"m,omitempty"` // method name for call (default run)
}

// trace of what the SCORE really did, by transaction id (harness-owned
// observability: how many mutations ran before the failure, how deep).
type txTrace struct {
	Mutations int
	MaxDepth  int
	Calls     int
	Caught    int
	FailedAt  string
	BTPSends  int
	cur       int
}

var (
	traceMu sync.Mutex
	traces  = map[string]*txTrace{}
)

func traceOf(id []byte) *txTrace {
	traceMu.Lock()
	defer traceMu.Unlock()
	t := traces[string(id)]
	if t == nil {
		t = &txTrace{}
		traces[string(id)] = t
	}
	return t
}

func takeTrace(id []byte) *txTrace {
	traceMu.Lock()
	defer traceMu.Unlock()
	t := traces[string(id)]
	delete(traces, string(id))
	if t == nil {
		t = &txTrace{}
	}
	return t
}

type verifScore struct {
	cc    contract.CallContext
	from  module.Address
	value *big.Int
}

var registerOnce sync.Once

func registerScore() {
	registerOnce.Do(func() {
		contract.RegisterSystemScore(scoreCID, &contract.SystemScoreModule{
			New: func(cid string, cc contract.CallContext, from module.Address, value *big.Int) (contract.SystemScore, error) {
				return &verifScore{cc: cc, from: from, value: value}, nil
			},
		})
	})
}

func (s *verifScore) Install(param []byte) error { return nil }
func (s *verifScore) Update(param []byte) error  { return nil }
func (s *verifScore) GetAPI() *scoreapi.Info {
	return scoreapi.NewInfo([]*scoreapi.Method{
		{Type: scoreapi.Function, Name: "run", Flags: scoreapi.FlagExternal | scoreapi.FlagPayable, Indexed: 1,
			Inputs: []scoreapi.Parameter{{Name: "prog", Type: scoreapi.String}}},
		{Type: scoreapi.Function, Name: "plain", Flags: scoreapi.FlagExternal, Indexed: 1,
			Inputs: []scoreapi.Parameter{{Name: "prog", Type: scoreapi.String}}},
	})
}

// depth is carried in the program of nested calls through the trace only;
// the SCORE itself is stateless between frames.
func (s *verifScore) Ex_run(prog string) error {
	return s.exec(prog)
}

// Ex_plain is the same but not payable (a value-carrying call to it fails
// after the value was moved).
func (s *verifScore) Ex_plain(prog string) error {
	return s.exec(prog)
}

const opCost = 100

func (s *verifScore) exec(prog string) error {
	cc := s.cc
	tr := traceOf(cc.TransactionID())
	if err := cc.ApplyCallSteps(); err != nil {
		tr.FailedAt = "call-steps"
		return err
	}
	var ops []op
	if err := json.Unmarshal([]byte(prog), &ops); err != nil {
		tr.FailedAt = "bad-program"
		return scoreresult.InvalidParameterError.Wrap(err, "BadProgram")
	}
	tr.cur++
	defer func() { tr.cur-- }()
	if tr.cur > tr.MaxDepth {
		tr.MaxDepth = tr.cur
	}
	as := cc.GetAccountState(scoreAddr.ID())
	for _, o := range ops {
		if !cc.DeductSteps(big.NewInt(opCost)) {
			tr.FailedAt = "out-of-step"
			return scoreresult.ErrOutOfStep
		}
		switch o.Op {
		case "set":
			v, _ := hex.DecodeString(o.V)
			if len(v) == 0 {
				v = []byte{1}
			}
			if _, err := as.SetValue([]byte(o.K), v); err != nil {
				return err
			}
			tr.Mutations++
		case "del":
			if _, err := as.DeleteValue([]byte(o.K)); err != nil {
				return err
			}
			tr.Mutations++
		case "xfer":
			to := common.MustNewAddressFromString(o.To)
			amt, _ := new(big.Int).SetString(o.V, 10)
			h, err := cc.ContractManager().GetHandler(scoreAddr, to, amt, contract.CTypeTransfer, nil)
			if err != nil {
				return err
			}
			st, used, _, _ := cc.Call(h, cc.StepAvailable())
			if !cc.DeductSteps(used) {
				tr.FailedAt = "out-of-step"
				return scoreresult.ErrOutOfStep
			}
			if st != nil {
				if !o.Catch {
					tr.FailedAt = "xfer-failed"
					return st
				}
				tr.Caught++
			} else {
				tr.Mutations++
			}
		case "event":
			cc.OnEvent(scoreAddr, [][]byte{[]byte("Ev(int)"), big.NewInt(o.N).Bytes()}, nil)
			tr.Mutations++
		case "btp":
			// what ChainScore.Ex_sendBTPMessage does: touches the BTP STATE
			// (message serial number of the network) and queues the message
			bs, ok := cc.GetBTPState().(*state.BTPStateImpl)
			if !ok {
				return scoreresult.UnknownFailureError.New("NoBTPState")
			}
			bc := state.NewBTPContext(cc, cc.GetAccountState(state.SystemID))
			if _, err := bs.HandleMessage(bc, scoreAddr, o.N); err != nil {
				tr.FailedAt = "btp-send"
				return err
			}
			cc.OnBTPMessage(o.N, []byte(o.V))
			tr.Mutations++
			tr.BTPSends++
		case "addval":
			v, err := state.ValidatorFromAddress(common.MustNewAddressFromString(o.To))
			if err != nil {
				return err
			}
			if err := cc.GetValidatorState().Add(v); err != nil {
				return err
			}
			tr.Mutations++
		case "drain":
			// a system SCORE may touch balances directly: move funds of the
			// transaction's sender to the SCORE (sum unchanged); lets the fee
			// charge at the end meet an insufficient balance
			from := common.MustNewAddressFromString(o.To)
			amt, _ := new(big.Int).SetString(o.V, 10)
			fa := cc.GetAccountState(from.ID())
			b := fa.GetBalance()
			if b.Cmp(amt) < 0 {
				amt = new(big.Int).Set(b)
			}
			fa.SetBalance(new(big.Int).Sub(b, amt))
			as.SetBalance(new(big.Int).Add(as.GetBalance(), amt))
			tr.Mutations++
		case "call":
			bs, _ := json.Marshal(o.Prog)
			method := o.M
			if method == "" {
				method = "run"
			}
			data, _ := json.Marshal(map[string]interface{}{"method": method, "params": map[string]interface{}{"prog": string(bs)}})
			amt := new(big.Int)
			if o.V != "" {
				amt, _ = new(big.Int).SetString(o.V, 10)
			}
			h, err := cc.ContractManager().GetHandler(scoreAddr, scoreAddr, amt, contract.CTypeCall, data)
			if err != nil {
				return err
			}
			tr.Calls++
			st, used, _, _ := cc.Call(h, cc.StepAvailable())
			if !cc.DeductSteps(used) {
				tr.FailedAt = "out-of-step"
				return scoreresult.ErrOutOfStep
			}
			if st != nil {
				if !o.Catch {
					return st
				}
				tr.Caught++
			}
		case "steps":
			if !cc.DeductSteps(big.NewInt(o.N)) {
				tr.FailedAt = "out-of-step"
				return scoreresult.ErrOutOfStep
			}
		case "burnsteps":
			cc.DeductSteps(new(big.Int).Add(cc.StepAvailable(), big.NewInt(1)))
			tr.FailedAt = "out-of-step"
			return scoreresult.ErrOutOfStep
		case "revert":
			tr.FailedAt = "revert"
			return scoreresult.Errorf(module.StatusReverted+module.Status(o.N%8), "VerifRevert(%d)", o.N)
		default:
			return scoreresult.InvalidParameterError.New(fmt.Sprintf("UnknownOp(%s)", o.Op))
		}
	}
	return nil
}

// install deploys the SCORE at its fixed address, makes val the validator
// with a BTP public key and opens BTP network 1 owned by the SCORE (run
// inside the setup block).
func install(owner module.Address, val module.Wallet) func(cc contract.CallContext, txID []byte) error {
	return func(cc contract.CallContext, txID []byte) error {
		if err := contract.DeployAndInstallSystemSCORE(cc, scoreCID, owner, scoreAddr, nil, txID); err != nil {
			return err
		}
		v, err := state.ValidatorFromAddress(val.Address())
		if err != nil {
			return err
		}
		if err := cc.GetValidatorState().Set([]module.Validator{v}); err != nil {
			return err
		}
		bs, ok := cc.GetBTPState().(*state.BTPStateImpl)
		if !ok {
			return fmt.Errorf("no BTP state")
		}
		bc := state.NewBTPContext(cc, cc.GetAccountState(state.SystemID))
		if err := bs.SetPublicKey(bc, val.Address(), "ecdsa/secp256k1", val.PublicKey()); err != nil {
			return err
		}
		_, nid, err := bs.OpenNetwork(bc, "eth", "verif-net", scoreAddr)
		if err != nil {
			return err
		}
		if nid != 1 {
			return fmt.Errorf("unexpected network id %d", nid)
		}
		return nil
	}
}
