package c16

import (
	"math/big"
	"testing"

	"github.com/icon-project/goloop/common/wallet"
	"github.com/icon-project/goloop/module"
	"github.com/icon-project/goloop/service/contract"

	"verif/lib/feefix"
)

func TestDbg(t *testing.T) {
	registerScore()
	e := &env{price: big.NewInt(1), defCost: 1000, inCost: 10, callC: 300}
	rich := big.NewInt(1000000000000)
	st, err := feefix.New(feefix.Config{StepPrice: e.price, StepCosts: map[string]int64{"default": 1000, "input": 10, "contractCall": 300},
		StepLimits: map[string]int64{"invoke": 2500000000, "query": 50000000}, Balances: []*big.Int{rich},
		ExtraAccounts: map[string]*big.Int{scoreAddr.String(): big.NewInt(100000)}, Setup: func(cc contract.CallContext, id []byte) error { err := install(wallet.New().Address())(cc, id); as := cc.GetAccountState(scoreAddr.ID()); println("SETUP RAN", err == nil, as.IsContract()); return err }})
	if err != nil {
		t.Fatal(err)
	}
	defer st.Close()
	e.st = st
	ws, _ := st.Base.Snapshot()
	as := ws.GetAccountSnapshot(scoreAddr.ID())
	t.Logf("as=%v contract=%v", as != nil, as != nil && as.IsContract())
	if as != nil && as.ActiveContract() != nil {
		c := as.ActiveContract()
		code, err := c.Code()
		info, err2 := as.APIInfo()
		t.Logf("status=%v code=%q err=%v ct=%s ee=%s info=%v err2=%v", c.Status(), code, err, c.ContentType(), c.EEType(), info != nil, err2)
	} else if as != nil {
		t.Logf("no active contract; next=%v", as.NextContract() != nil)
	}
	pre := e.scoreTx(st.Wallets[0], "run", []op{{Op: "set", K: "a", V: "aa"}}, nil, big.NewInt(100000000), 1000000)
	b := st.Exec(st.Base, []module.Transaction{pre}, 1000000, false)
	t.Log(b.ValidateErr, b.ExecErr)
	rs, _ := b.Receipts()
	js, _ := rs[0].ToJSON(module.JSONVersionLast)
	m := js.(map[string]interface{}); delete(m, "logsBloom"); t.Logf("%v", feefix.JSONString(m))
}
