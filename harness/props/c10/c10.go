// Package c10: block execution never silently drops a transaction.
//
// Real service transitions (service.NewInitTransition -> NewTransition ->
// Execute) are run over blocks of scripted transactions whose handlers
// succeed, fail retryably k times, fail retryably forever or fail
// non-retryably, in sequential mode (ConcurrencyLevel 1) and in concurrent
// mode (2, 3, 8, ...), with the failing transaction at every position and
// with harness-side delays so that the failure is reported before, between
// and after the neighbours' completions.
package c10

import (
	"bytes"
	"encoding/json"
	"fmt"
	"math/big"
	"math/rand"
	"runtime"
	"time"

	"github.com/icon-project/goloop/module"
	"github.com/icon-project/goloop/service"

	"verif/lib/ev"
	"verif/lib/svc"
)

type failKind struct {
	name string
	fail svc.Fail
	// ends: how the last attempt the executor may make ends
	blockFails bool
}

var kinds = []failKind{
	{"none", svc.Fail{}, false},
	{"retry1-then-ok", svc.Fail{Retry: 1, RetryCode: "exec"}, false},
	{"retry2-then-ok", svc.Fail{Retry: service.RetryCount, RetryCode: "rerun"}, false},
	{"retry-forever", svc.Fail{Retry: -1, RetryCode: "exec"}, true},
	{"retry-budget-plus-one", svc.Fail{Retry: service.RetryCount + 1, RetryCode: "exec"}, true},
	{"fatal-invalid-state", svc.Fail{Fatal: true, FatalCode: "invalid"}, true},
	{"fatal-critical", svc.Fail{Fatal: true, FatalCode: "critical"}, true},
	{"fatal-plain-error", svc.Fail{Fatal: true, FatalCode: "plain"}, true},
	{"retry1-then-fatal", svc.Fail{Retry: 1, RetryCode: "rerun", Fatal: true, FatalCode: "invalid"}, true},
}

func maxN(t string) int {
	if t == ev.Thorough {
		return 24
	}
	return 8
}

func gridSize(t string) int {
	n := maxN(t)
	return n * (n + 1) / 2 * len(kinds)
}

func randomCases(t string) int {
	if t == ev.Thorough {
		return 1500
	}
	return 60
}

func levels(t string) []int {
	if t == ev.Thorough {
		return []int{1, 2, 3, 4, 8, 16}
	}
	return []int{1, 2, 3, 8}
}

func init() {
	ev.Register(&ev.Prop{
		ID:    "C10",
		Level: "exploration",
		Cases: func(t string) int { return gridSize(t) + randomCases(t) + v3Cases(t) + sysCases(t) },
		Batches: func(t string) int {
			return 16
		},
		Rule: "grid cases = every (block length n, failing position p, failure kind) with n<=8 (thorough 24), kinds none / retryable once / retryable RetryCount times / retryable forever / retryable RetryCount+1 times / non-retryable (3 error codes) / retryable then non-retryable; random cases = blocks with 0..3 failing transactions. Every case is executed by real service transitions at ConcurrencyLevel 1 and at 2,3,8 (thorough +4,16) x 3 delay profiles (failing handler returns early / late / random relative to its neighbours), lock declarations world-write / shared accounts / disjoint accounts / none. Oracle: reported success => receipts == n, every transaction's handler was invoked, its LAST invocation returned a receipt and exactly that receipt sits at slot i (to/stepUsed identify i, cumulative steps are the prefix sums); a last invocation that returned an error (non-retryable, or retryable with the executor giving up) with reported success is a drop; reported failure => Result()==nil. V3 cases = blocks of transactions executed by goloop's regular transaction handler (transaction.NewHandler: balance check, steps, contract call, DoExecute status classification, fee, receipt) in which the CONTRACT handler of the transaction at position p (every p of every n<=5, thorough 10) ends with revert / CriticalIOError / CriticalUnknownError / CriticalFormatError / ExecutionFailError once, RetryCount times, forever, once-then-critical, at levels 1,2,4 (thorough 1,2,3,8); same oracle (a contract call whose last ending was a critical or given-up retryable status + reported success = drop). System-SCORE cases (last in every batch) = blocks of 1..4 regular-handler transactions of which one or two CALL a harness system SCORE (content type 'system') through the real contract manager (CallHandler.Prepare -> PrepareContractStore in the concurrent executor), at level 1 and 2/4; the concurrent Result()/receipts must equal the sequential ones; a transition that does not call back is judged by goroutine stacks, not by time: a goroutine parked in 'chan send' inside contractStoreImpl.Dispose/notify in two polls while no storeContract is in flight is a final state = concurrent.transition-deadlock.contract-store; no callback without that evidence stays inconclusive. Process panics are caught by the child isolation. Non-trivial = distinct (n, positions, kinds, level, lock mode, delay profile) with >=1 failing handler invocation.",
		MinNonTrivial: func(t string) int {
			if t == ev.Thorough {
				return 30000
			}
			return 1500
		},
		Required: []string{"transitions_sequential", "transitions_concurrent",
			"conc_block_failed_fatal", "conc_block_failed_exhausted", "seq_block_failed_fatal", "seq_block_failed_exhausted",
			"conc_block_ok_after_retry", "seq_block_ok_after_retry",
			"conc_failing_tx_finished_last", "conc_failing_tx_finished_first", "conc_failing_tx_in_last_level_positions",
			"conc_overlapping_blocks",
			"v3_seq_block_failed_critical", "v3_conc_block_failed_critical", "v3_seq_block_failed_exhausted", "v3_conc_block_failed_exhausted",
			"v3_seq_block_ok_after_retry", "v3_conc_block_ok_after_retry", "v3_receipts_attributed",
			"system_score_calls_sequential", "system_score_calls_concurrent", "system_score_blocks_concurrent_completed"},
		Assumptions: []string{
			"scripted transaction type (lib/svc) registered through transaction.RegisterFactory stands in for contract handlers; the executor, retry loop, error latch and receipt aggregation are goloop's",
			"basic platform, empty initial world state, MapDB",
			"interleavings are sampled (harness sleeps/Gosched inside handlers, GOMAXPROCS 1/2/4/16 per batch), not enumerated",
			"a transition that never calls back is inconclusive (watchdog), not a violation",
		},
		TimeoutSec: func(t string) int {
			if t == ev.Thorough {
				return 2400
			}
			return 400
		},
		Env: func(tier string, batch int) []string {
			return []string{fmt.Sprintf("GOMAXPROCS=%d", []int{16, 1, 2, 4}[batch%4])}
		},
		Run: run,
	})
}

type blockSpec struct {
	N        int         `json:"n"`
	Fails    map[int]int `json:"fails"` // position -> kind index
	LockMode int         `json:"lockMode"`
}

var lockModes = []string{"world-write", "shared-accounts", "disjoint-accounts", "none", "mixed"}

func (b *blockSpec) scripts(r *rand.Rand, salt string) []*svc.Script {
	out := make([]*svc.Script, b.N)
	for i := 0; i < b.N; i++ {
		s := &svc.Script{Salt: salt, Index: i}
		mode := b.LockMode
		if mode == 4 {
			mode = r.Intn(4)
		}
		switch mode {
		case 0:
			s.Locks = []svc.Lock{{A: svc.World, W: true}}
			s.Ops = []svc.Op{{K: svc.OpRead, A: i % 3}, {K: svc.OpWrite, A: i % 3}}
		case 1:
			a := i % 3
			s.Locks = []svc.Lock{{A: a, W: true}}
			s.Ops = []svc.Op{{K: svc.OpRead, A: a}, {K: svc.OpWrite, A: a}, {K: svc.OpWrite, A: a, Key: 1}}
		case 2:
			s.Locks = []svc.Lock{{A: 10 + i, W: true}}
			s.Ops = []svc.Op{{K: svc.OpWrite, A: 10 + i}, {K: svc.OpRead, A: 10 + i}}
		case 3:
		}
		if k, ok := b.Fails[i]; ok {
			s.Fail = kinds[k].fail
			s.Fail.After = r.Intn(len(s.Ops) + 1)
		}
		out[i] = s
	}
	return out
}

// delay profiles: how long the handlers linger before returning.
const (
	profFailEarly = iota
	profFailLate
	profRandom
	nProfiles
)

var profileNames = []string{"fail-early", "fail-late", "random"}

func delaysFor(r *rand.Rand, b *blockSpec, prof int) []int {
	d := make([]int, b.N) // microseconds, -1 = Gosched only
	for i := range d {
		_, failing := b.Fails[i]
		switch prof {
		case profFailEarly:
			if failing {
				d[i] = 0
			} else {
				d[i] = 200 + r.Intn(900)
			}
		case profFailLate:
			if failing {
				d[i] = 1000 + r.Intn(1500)
			} else {
				d[i] = []int{0, -1, 50}[r.Intn(3)]
			}
		default:
			d[i] = []int{0, -1, 100, 400, 1000, 2000}[r.Intn(6)]
		}
	}
	return d
}

func specOfCase(tier string, i int, r *rand.Rand) *blockSpec {
	b := &blockSpec{Fails: map[int]int{}}
	if i < gridSize(tier) {
		k := i % len(kinds)
		j := i / len(kinds)
		n := 1
		for j >= n {
			j -= n
			n++
		}
		b.N = n
		if kinds[k].name != "none" {
			b.Fails[j] = k
		}
	} else {
		b.N = 1 + r.Intn(maxN(tier))
		nf := r.Intn(4)
		for f := 0; f < nf; f++ {
			b.Fails[r.Intn(b.N)] = 1 + r.Intn(len(kinds)-1)
		}
	}
	b.LockMode = r.Intn(len(lockModes))
	return b
}

func run(c *ev.Ctx) {
	svc.Quiet()
	env, err := svc.NewEnv()
	if err != nil {
		c.Violation("harness.env", err.Error())
		return
	}
	defer env.Close()
	root, err := env.Init()
	if err != nil {
		c.Violation("harness.init-transition", err.Error())
		return
	}
	c.Count(fmt.Sprintf("gomaxprocs_%d_batches", runtime.GOMAXPROCS(0)), 1)
	sub := 0
	var feeRoot module.Transition
	c.Cases(func(ci int, r *rand.Rand) {
		if ci >= gridSize(c.Tier)+randomCases(c.Tier) {
			if feeRoot == nil {
				so := env.Run(root, []module.Transaction{svc.NewSetupTx(fmt.Sprintf("C10/%d/%d", c.Seed, c.Batch), 1)}, 1, 1, 1, true, 120*time.Second)
				if !so.Succeeded() {
					c.Violation("harness.fee-setup-block-failed", fmt.Sprint(so.StartErr, so.ValidateErr, so.ExecuteErr, so.TimedOut))
					return
				}
				feeRoot = so.Tr
			}
			vi := ci - gridSize(c.Tier) - randomCases(c.Tier)
			if vi >= v3Cases(c.Tier) {
				sysCase(c, env, feeRoot, r, ci, vi-v3Cases(c.Tier), &sub)
				return
			}
			v3Case(c, env, feeRoot, r, ci, vi, &sub)
			return
		}
		spec := specOfCase(c.Tier, ci, r)
		for _, level := range levels(c.Tier) {
			for prof := 0; prof < nProfiles; prof++ {
				if c.Stopped() {
					return
				}
				if level == 1 && prof != profRandom {
					continue // handler timing is irrelevant in the sequential loop
				}
				sub++
				c.Eval(1)
				oneTransition(c, env, root, r, ci, sub, spec, level, prof)
			}
		}
	})
}

func oneTransition(c *ev.Ctx, env *svc.Env, root module.Transition, r *rand.Rand, ci, sub int, spec *blockSpec, level, prof int) {
	salt := fmt.Sprintf("C10/%d/%d/%d", c.Seed, ci, sub)
	scripts := spec.scripts(r, salt)
	delays := delaysFor(r, spec, prof)
	if level == 1 {
		for i := range delays {
			delays[i] = 0
		}
	}
	validated := r.Intn(4) != 0
	rec := svc.NewRecorder()
	rec.Sched = func(tx, attempt, op int) {
		if op != len(scripts[tx].Ops) && op != 0 {
			return
		}
		// half of the delay before the first op, half before returning
		switch d := delays[tx]; {
		case d < 0:
			runtime.Gosched()
		case d > 0:
			time.Sleep(time.Duration(d/2) * time.Microsecond)
		}
	}
	const ts = int64(1_700_000_000_000_000)
	txs := make([]module.Transaction, len(scripts))
	for i, s := range scripts {
		txs[i] = svc.NewScriptTx(s, ts, rec)
	}
	sj, _ := json.Marshal(scripts)
	c.Note("transition sub=%d n=%d level=%d profile=%s lockMode=%s validated=%v fails=%v delays_us=%v scripts=%s",
		sub, spec.N, level, profileNames[prof], lockModes[spec.LockMode], validated, failsDesc(spec), delays, sj)

	o := env.Run(root, txs, 1, ts, level, validated, 120*time.Second)

	if o.TimedOut {
		// no callback: liveness is outside the property; make the run inconclusive through the parent's watchdog
		c.Notef("case %d sub %d: transition never called back within 120 s (level=%d); waiting for the batch watchdog", ci, sub, level)
		select {}
	}

	model := svc.Interpret(nil, scripts, service.RetryCount)
	mode := "seq"
	if level > 1 {
		mode = "conc"
		c.Count("transitions_concurrent", 1)
	} else {
		c.Count("transitions_sequential", 1)
	}
	c.Count(fmt.Sprintf("transitions_level_%d", level), 1)
	c.Count("lockmode_"+lockModes[spec.LockMode], 1)

	witness := func(extra map[string]interface{}) map[string]interface{} {
		w := map[string]interface{}{
			"n": spec.N, "level": level, "profile": profileNames[prof], "lock_mode": lockModes[spec.LockMode],
			"validated": validated, "fails": failsDesc(spec), "delays_us": delays, "scripts": scripts,
			"on_validate_err": fmt.Sprint(o.ValidateErr), "on_execute_calls": o.ExecuteCalls, "on_execute_err": fmt.Sprint(o.ExecuteErr),
			"model_block_fails": model.BlockFails, "model_fail_at": model.FailAt,
		}
		var tr []interface{}
		for i := 0; i < spec.N; i++ {
			tr = append(tr, rec.Tx(i))
		}
		w["handler_trace"] = tr
		for k, v := range extra {
			w[k] = v
		}
		return w
	}

	if o.StartErr != nil {
		c.Violation("harness.execute-refused", witness(nil))
		return
	}

	anyFailingInvocation := false
	for i := 0; i < spec.N; i++ {
		if t := rec.Tx(i); t != nil {
			for _, a := range t.Attempts {
				if a.Kind != "ok" {
					anyFailingInvocation = true
				}
			}
		}
	}

	switch {
	case o.Succeeded():
		c.Count(mode+"_block_succeeded", 1)
		if len(o.Receipts) != spec.N || o.ReceiptErr != nil {
			c.Violation(mode+".success.receipt-count", witness(map[string]interface{}{"receipts": len(o.Receipts), "receipt_err": fmt.Sprint(o.ReceiptErr)}))
			return
		}
		cum := new(big.Int)
		for i := 0; i < spec.N; i++ {
			t := rec.Tx(i)
			if t == nil || len(t.Attempts) == 0 {
				c.Violation(mode+".success.tx-never-executed", witness(map[string]interface{}{"tx": i}))
				return
			}
			last := t.Attempts[len(t.Attempts)-1]
			if last.Kind != "ok" {
				what := "nonretryable"
				if last.Kind == "retryable" {
					what = "retry-exhausted"
				}
				c.Violation(mode+".success.failed-tx-dropped."+what, witness(map[string]interface{}{"tx": i, "last_attempt": last}))
				return
			}
			rc := o.Receipts[i]
			if rc == nil {
				c.Violation(mode+".success.nil-receipt", witness(map[string]interface{}{"slot": i}))
				return
			}
			if !rc.To().Equal(svc.TxAddr(i)) || rc.StepUsed().Int64() != svc.StepsOf(i) {
				c.Violation(mode+".success.receipt-out-of-order", witness(map[string]interface{}{"slot": i, "receipt_to": rc.To().String(), "receipt_steps": rc.StepUsed().String()}))
				return
			}
			cum.Add(cum, big.NewInt(svc.StepsOf(i)))
			if rc.CumulativeStepUsed().Cmp(cum) != 0 {
				c.Violation(mode+".success.cumulative-steps", witness(map[string]interface{}{"slot": i, "got": rc.CumulativeStepUsed().String(), "want": cum.String()}))
				return
			}
			if lr := last.Receipt(); lr == nil || !bytes.Equal(lr.Bytes(), rc.Bytes()) {
				c.Violation(mode+".success.receipt-not-of-last-attempt", witness(map[string]interface{}{"slot": i}))
				return
			}
			c.Count("receipts_attributed", 1)
		}
		if len(o.Result) == 0 {
			c.Violation(mode+".success.no-result", witness(nil))
			return
		}
		if model.BlockFails {
			// cannot happen without one of the violations above unless the executor
			// made fewer attempts than the handler script needs to reach its failure
			c.Count(mode+"_succeeded_although_model_fails", 1)
		}
		if anyFailingInvocation {
			c.Count(mode+"_block_ok_after_retry", 1)
		}
	case o.Failed():
		c.Count(mode+"_block_failed", 1)
		if o.Tr.Result() != nil {
			c.Violation(mode+".failed.but-result-present", witness(nil))
			return
		}
		if !model.BlockFails {
			// not demanded by the statement (a spurious failure drops nothing): observed, not judged
			c.Count(mode+"_block_failed_without_failing_tx", 1)
			c.Notef("case %d sub %d: block failed (%v / %v) although every handler would succeed within the retry budget", ci, sub, o.ValidateErr, o.ExecuteErr)
		} else {
			k := kinds[spec.Fails[model.FailAt]]
			if k.fail.Fatal {
				c.Count(mode+"_block_failed_fatal", 1)
			} else {
				c.Count(mode+"_block_failed_exhausted", 1)
			}
			c.Count("failkind_"+k.name+"_"+mode, 1)
		}
	default:
		c.Violation(mode+".no-verdict", witness(nil))
		return
	}

	// what the monitor saw about timing
	if level > 1 {
		if rec.Overlaps() > 0 {
			c.Count("conc_overlapping_blocks", 1)
		}
		order := rec.CompletionOrder()
		c.Distinct("completion_orders", fmt.Sprint(spec.N, order))
		for p := range spec.Fails {
			if len(order) > 1 {
				if order[0] == p {
					c.Count("conc_failing_tx_finished_first", 1)
				} else if order[len(order)-1] == p {
					c.Count("conc_failing_tx_finished_last", 1)
				} else {
					c.Count("conc_failing_tx_finished_between", 1)
				}
			}
			if p >= spec.N-level {
				c.Count("conc_failing_tx_in_last_level_positions", 1)
			} else {
				c.Count("conc_failing_tx_before_last_level_positions", 1)
			}
		}
	}
	if anyFailingInvocation {
		c.NonTrivial(fmt.Sprintf("%d|%v|%d|%d|%d", spec.N, failsDesc(spec), level, spec.LockMode, prof))
	}
	if c.WantSample() && anyFailingInvocation && level > 1 {
		c.Sample(map[string]interface{}{"n": spec.N, "level": level, "fails": failsDesc(spec), "profile": profileNames[prof],
			"lock_mode": lockModes[spec.LockMode], "on_execute_err": fmt.Sprint(o.ExecuteErr), "receipts": len(o.Receipts),
			"completion_order": rec.CompletionOrder()})
	}
}

func failsDesc(b *blockSpec) map[string]string {
	m := map[string]string{}
	for p, k := range b.Fails {
		m[fmt.Sprint(p)] = kinds[k].name
	}
	return m
}

// ---- transactions run by goloop's regular transaction handler, fault inside the contract call

type callKind struct {
	name              string
	kind, retry, then byte
	blockFails        bool
	critical          bool
}

var callKinds = []callKind{
	{"revert", svc.CallRevert, 0, 0, false, false},
	{"critical-io", svc.CallCriticalIO, 0, 0, true, true},
	{"critical-unknown", svc.CallCriticalUnk, 0, 0, true, true},
	{"critical-format", svc.CallCriticalFmt, 0, 0, true, true},
	{"exec-fail-once-then-ok", svc.CallExecFail, 1, svc.CallOK, false, false},
	{"exec-fail-retrycount-then-ok", svc.CallExecFail, service.RetryCount, svc.CallOK, false, false},
	{"exec-fail-forever", svc.CallExecFail, 255, 0, true, false},
	{"exec-fail-once-then-critical-io", svc.CallExecFail, 1, svc.CallCriticalIO, true, true},
}

func v3MaxN(t string) int {
	if t == ev.Thorough {
		return 10
	}
	return 5
}

func v3Cases(t string) int {
	n := v3MaxN(t)
	return n * (n + 1) / 2 * len(callKinds)
}

func v3Levels(t string) []int {
	if t == ev.Thorough {
		return []int{1, 2, 3, 8}
	}
	return []int{1, 2, 4}
}

var v3Run uint32

func v3Case(c *ev.Ctx, env *svc.Env, parent module.Transition, r *rand.Rand, ci, vi int, sub *int) {
	ck := callKinds[vi%len(callKinds)]
	j := vi / len(callKinds)
	n := 1
	for j >= n {
		j -= n
		n++
	}
	pos := j
	const ts = int64(1_700_000_000_000_000)
	for li, level := range v3Levels(c.Tier) {
		if c.Stopped() {
			return
		}
		if li > 0 {
			c.Eval(1)
		}
		*sub++
		v3Run++
		run := v3Run<<8 | uint32(c.Batch)
		salt := fmt.Sprintf("C10/%d/%d/%d/v3", c.Seed, ci, *sub)
		tos := make([]module.Address, n)
		txs := make([]module.Transaction, n)
		senderBase := r.Intn(svc.NSenders)
		sameSender := r.Intn(4) == 0
		for i := 0; i < n; i++ {
			if i == pos {
				tos[i] = svc.FaultAddr(run, i, ck.kind, ck.retry, ck.then)
			} else {
				tos[i] = svc.PlainAddr(run, i)
			}
			from := svc.SenderAddr((senderBase + i) % svc.NSenders)
			if sameSender {
				from = svc.SenderAddr(senderBase)
			}
			txs[i] = svc.NewCallTx(salt, i, ts, from, tos[i])
		}
		c.Note("v3 transition sub=%d n=%d level=%d fault_position=%d contract_call_ending=%s same_sender=%v to=%s",
			*sub, n, level, pos, ck.name, sameSender, tos[pos])
		o := env.Run(parent, txs, 2, ts, level, true, 120*time.Second)
		if o.TimedOut {
			c.Notef("case %d sub %d: v3 transition never called back within 120 s (level=%d); waiting for the batch watchdog", ci, *sub, level)
			select {}
		}
		calls := env.Faults.Calls(tos[pos])
		mode := "seq"
		if level > 1 {
			mode = "conc"
		}
		c.Count("v3_transitions_"+mode, 1)
		wit := func(extra map[string]interface{}) map[string]interface{} {
			w := map[string]interface{}{"stage": "regular transaction handler (transaction.NewHandler), fault inside the contract call",
				"n": n, "level": level, "fault_position": pos, "contract_call_ending": ck.name, "same_sender": sameSender,
				"fault_to": tos[pos].String(), "contract_handler_calls": calls,
				"on_execute_err": fmt.Sprint(o.ExecuteErr), "on_validate_err": fmt.Sprint(o.ValidateErr), "receipts": len(o.Receipts)}
			var st []string
			for _, rc := range o.Receipts {
				st = append(st, rc.Status().String())
			}
			w["receipt_status"] = st
			for k, v := range extra {
				w[k] = v
			}
			return w
		}
		switch {
		case o.StartErr != nil:
			c.Violation("harness.execute-refused", wit(nil))
			return
		case o.Succeeded():
			if len(o.Receipts) != n || o.ReceiptErr != nil {
				c.Violation(mode+".v3.success.receipt-count", wit(nil))
				return
			}
			if calls.Calls == 0 {
				c.Violation(mode+".v3.success.tx-never-executed", wit(nil))
				return
			}
			switch calls.LastKind {
			case svc.CallCriticalIO, svc.CallCriticalUnk, svc.CallCriticalFmt:
				c.Violation(mode+".v3.success.failed-tx-dropped.critical-status", wit(nil))
				continue
			case svc.CallExecFail:
				c.Violation(mode+".v3.success.failed-tx-dropped.retry-exhausted", wit(nil))
				continue
			}
			for i, rc := range o.Receipts {
				if rc == nil || !rc.To().Equal(tos[i]) {
					c.Violation(mode+".v3.success.receipt-out-of-order", wit(map[string]interface{}{"slot": i}))
					return
				}
				wantOK := i != pos || calls.LastKind == svc.CallOK
				if (rc.Status() == module.StatusSuccess) != wantOK {
					c.Violation(mode+".v3.success.receipt-status", wit(map[string]interface{}{"slot": i, "status": rc.Status().String()}))
					return
				}
				c.Count("v3_receipts_attributed", 1)
			}
			if calls.Calls > 1 {
				c.Count("v3_"+mode+"_block_ok_after_retry", 1)
			}
			c.Count("v3_"+mode+"_block_succeeded", 1)
		case o.Failed():
			if o.Tr.Result() != nil {
				c.Violation(mode+".v3.failed.but-result-present", wit(nil))
				return
			}
			switch {
			case calls.LastKind == svc.CallCriticalIO || calls.LastKind == svc.CallCriticalUnk || calls.LastKind == svc.CallCriticalFmt:
				c.Count("v3_"+mode+"_block_failed_critical", 1)
			case calls.LastKind == svc.CallExecFail:
				c.Count("v3_"+mode+"_block_failed_exhausted", 1)
			default:
				c.Count("v3_"+mode+"_block_failed_without_failing_tx", 1)
				c.Notef("case %d sub %d: v3 block failed (%v) although the contract call ended %v", ci, *sub, o.ExecuteErr, calls.Statuses)
			}
		default:
			c.Violation(mode+".v3.no-verdict", wit(nil))
			return
		}
		c.Count("v3_callkind_"+ck.name, 1)
		if ck.kind != svc.CallOK {
			c.NonTrivial(fmt.Sprintf("v3|%d|%d|%s|%d|%v", n, pos, ck.name, level, sameSender))
		}
		if c.WantSample() && ck.critical && level > 1 {
			c.Sample(wit(nil))
		}
	}
}

// ---- blocks with calls to a system SCORE through the real contract manager

func sysCases(t string) int {
	if t == ev.Thorough {
		return 160
	}
	return 32
}

// set once a contract-store deadlock was seen in this process: the leaked
// goroutines keep locks of the contract manager, so no further concurrent
// system SCORE blocks are run in this batch (sequential ones are unaffected).
var sysPoisoned bool

// runWatched runs the transition and, while it has not called back, polls the
// goroutine stacks for the final parked state (no wall-clock verdict).
func runWatched(env *svc.Env, parent module.Transition, txs []module.Transaction, height, ts int64, level int) (o *svc.Outcome, parked map[string]string) {
	done := make(chan *svc.Outcome, 1)
	go func() { done <- env.Run(parent, txs, height, ts, level, true, 120*time.Second) }()
	var prev map[string]string
	for {
		select {
		case o = <-done:
			return o, nil
		case <-time.After(300 * time.Millisecond):
			cur, storing := svc.ContractStoreDeadlock()
			if storing || len(cur) == 0 {
				prev = nil
				continue
			}
			same := map[string]string{}
			for id, st := range cur {
				if _, ok := prev[id]; ok {
					same[id] = st
				}
			}
			if len(same) > 0 {
				return nil, same
			}
			prev = cur
		}
	}
}

func sysCase(c *ev.Ctx, env *svc.Env, parent module.Transition, r *rand.Rand, ci, si int, sub *int) {
	n := 1 + si%4
	nCalls := 1
	if si >= 16 && n > 1 && si%2 == 1 {
		nCalls = 2
	}
	pos := map[int]bool{r.Intn(n): true}
	for len(pos) < nCalls {
		pos[r.Intn(n)] = true
	}
	const ts = int64(1_700_000_000_000_000)
	type res struct {
		o   *svc.Outcome
		tos []module.Address
	}
	var seq *res
	lv := []int{1, 2, 4}
	if c.Tier == ev.Thorough {
		lv = []int{1, 2, 3, 8}
	}
	for li, level := range lv {
		if c.Stopped() {
			return
		}
		if li > 0 {
			c.Eval(1)
		}
		if level > 1 && sysPoisoned {
			c.Count("system_score_concurrent_blocks_skipped_after_deadlock", 1)
			continue
		}
		*sub++
		v3Run++
		run := v3Run<<8 | uint32(c.Batch)
		// the same transactions (same ids) at every level so that results are comparable
		salt := fmt.Sprintf("C10/%d/%d/sys", c.Seed, ci)
		txs := make([]module.Transaction, n)
		tos := make([]module.Address, n)
		for i := 0; i < n; i++ {
			from := svc.SenderAddr((si + i) % svc.NSenders)
			if pos[i] {
				tos[i] = svc.ExecScoreAddr
				txs[i] = svc.NewScoreCallTx(salt, i, ts, from, fmt.Sprintf("v%d.%d", ci, i))
			} else {
				tos[i] = svc.PlainAddr(uint32(ci), i)
				txs[i] = svc.NewCallTx(salt, i, ts, from, tos[i])
			}
		}
		_ = run
		var callPos []int
		for i := 0; i < n; i++ {
			if pos[i] {
				callPos = append(callPos, i)
			}
		}
		c.Note("system-score transition sub=%d n=%d level=%d system_score_call_positions=%v score=%s", *sub, n, level, callPos, svc.ExecScoreAddr)
		mode := "seq"
		if level > 1 {
			mode = "conc"
		}
		o, parked := runWatched(env, parent, txs, 2, ts, level)
		wit := func(extra map[string]interface{}) map[string]interface{} {
			w := map[string]interface{}{"stage": "regular transaction handler calling a system SCORE through the real contract manager",
				"n": n, "level": level, "system_score_call_positions": callPos, "score": svc.ExecScoreAddr.String()}
			if o != nil {
				w["on_execute_err"] = fmt.Sprint(o.ExecuteErr)
				w["on_validate_err"] = fmt.Sprint(o.ValidateErr)
				w["receipts"] = len(o.Receipts)
			}
			for k, v := range extra {
				w[k] = v
			}
			return w
		}
		if parked != nil {
			sysPoisoned = true
			c.Count("system_score_calls_"+map[string]string{"seq": "sequential", "conc": "concurrent"}[mode], len(callPos))
			c.Violation("concurrent.transition-deadlock.contract-store", wit(map[string]interface{}{
				"verdict":           "the transition produced neither a result nor an error: goroutine(s) parked in 'chan send' inside contractStoreImpl.Dispose/notify in two consecutive stack dumps while no storeContract is in flight (the store channel has no other receiver: final state)",
				"parked_goroutines": parked}))
			continue
		}
		if o.TimedOut {
			c.Notef("case %d sub %d: system-score transition never called back within 120 s (level=%d) and no contract-store deadlock evidence; waiting for the batch watchdog", ci, *sub, level)
			select {}
		}
		if mode == "seq" {
			c.Count("system_score_calls_sequential", len(callPos))
		} else {
			c.Count("system_score_calls_concurrent", len(callPos))
		}
		if !o.Succeeded() {
			// every handler of this block succeeds: not a drop, but nothing can be compared either
			c.Count("system_score_"+mode+"_block_failed", 1)
			c.Notef("case %d sub %d: system-score block failed at level %d: %v / %v", ci, *sub, level, o.ValidateErr, o.ExecuteErr)
			continue
		}
		if len(o.Receipts) != n || o.ReceiptErr != nil {
			c.Violation(mode+".sys.success.receipt-count", wit(nil))
			continue
		}
		for i, rc := range o.Receipts {
			if rc == nil || !rc.To().Equal(tos[i]) {
				c.Violation(mode+".sys.success.receipt-out-of-order", wit(map[string]interface{}{"slot": i}))
				return
			}
			if rc.Status() != module.StatusSuccess {
				c.Count("system_score_receipt_status_"+rc.Status().String(), 1)
			}
		}
		if mode == "seq" {
			seq = &res{o, tos}
			continue
		}
		c.Count("system_score_blocks_concurrent_completed", 1)
		if seq != nil {
			if !bytes.Equal(seq.o.Result, o.Result) {
				c.Violation("conc.sys.result-differs-from-sequential", wit(map[string]interface{}{"sequential": fmt.Sprintf("%x", seq.o.Result), "concurrent": fmt.Sprintf("%x", o.Result)}))
				continue
			}
			for i := range o.Receipts {
				if !bytes.Equal(seq.o.Receipts[i].Bytes(), o.Receipts[i].Bytes()) {
					c.Violation("conc.sys.receipt-differs-from-sequential", wit(map[string]interface{}{"slot": i}))
					break
				}
			}
			c.Count("system_score_results_compared_with_sequential", 1)
		}
		c.NonTrivial(fmt.Sprintf("sys|%d|%v|%d", n, callPos, level))
	}
}
