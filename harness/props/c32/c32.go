// Package c32: a peer identity is assigned only for a signature made by that
// identity's key over the secret of this very session.
package c32

import (
	"bytes"
	"crypto/ecdsa"
	"encoding/hex"
	"fmt"
	"math/big"
	"math/rand"
	"sync"

	"github.com/decred/dcrd/dcrec/secp256k1/v4"
	"golang.org/x/crypto/sha3"

	"github.com/icon-project/goloop/common/codec"
	"github.com/icon-project/goloop/module"
	"github.com/icon-project/goloop/network"

	"verif/lib/ev"
	"verif/lib/netgrp"
)

func init() {
	ev.Register(&ev.Prop{
		ID:    "C32",
		Level: "exploration",
		Cases: func(t string) int {
			if t == ev.Thorough {
				return 10000
			}
			return 208
		},
		Batches: func(t string) int { return 16 },
		Rule:    "each case = 2 wallets (PRNG keys) and 2 session secrets taken from two real ECDH set-ups (secureKey.setup/hkdf): (a) the full matrix signer x signed-secret x claimed-public-key(compressed/uncompressed) x signature form (65-byte, 64-byte [R|S]) x verified-secret through Authenticator.Signature/VerifySignature; (b) ~100 mutations of one valid tuple (incl. 16 reference-invalid 64-byte [R|S] signatures: random, other key, other session, other content, bit flips, r/s = 0 or N): single-bit flips in signature and public key, wrong lengths, garbage/hybrid/negated keys, 64-byte and high-s signature forms, altered secrets; every result is compared with an independent decision (decred key parsing + Go crypto/ecdsa.Verify over SHA3-256(secret)); (c) 4 real handshakes: a real listening Authenticator against a scripted dialer and a real dialing Authenticator against a scripted listener, each once honest and once with one attack (signature replayed from the previous real session, other key, bit flip, foreign public key, signature over a traffic key, error field) over suite none or ecdhe. (d) afterwards 101-220 further distinct peer ids are interned (NewPeerID and packet headers read by PacketReader, more than the 100-entry id cache) and every identity assigned before - the authenticated sessions' Peer.ID() and ids returned by VerifySignature - must still be the address of the proven key. Non-trivial = distinct rejected tuple (reference says invalid) or distinct handshake attack.",
		MinNonTrivial: func(t string) int {
			if t == ev.Thorough {
				return 500000
			}
			return 8000
		},
		Required: []string{"matrix_accept", "matrix_reject_other_session", "matrix_reject_other_key", "mut_sig_bitflip_reject", "mut_pub_bitflip_reject",
			"mut_length_reject", "mut_sig64_invalid_reject", "matrix_reject_64_byte_form", "hs_attack_64_byte_signature_rejected", "hs_in_honest_accepted", "hs_out_honest_accepted", "hs_in_attack_rejected", "hs_out_attack_rejected",
			"hs_attack_replay_other_session", "identity_stable_after_cache_churn", "identity_stable_session-in", "identity_stable_session-out", "identity_stable_verify-result", "hs_suite_none", "hs_suite_ecdhe", "responder_signs_this_session"},
		Assumptions: []string{
			"ECDSA/secp256k1 unforgeability and SHA3-256: 'forged' = made by another key, over another secret, or bit-mutated",
			"reference decision = github.com/decred secp256k1.ParsePubKey + Go crypto/ecdsa.Verify on the same curve parameters; signature forms that the reference finds mathematically valid for (key, this secret) (changed recovery byte, 64-byte form, high-s, hybrid key encoding) prove possession and may be accepted or rejected",
			"'assigned an identity' is observed as: the authenticator hands the peer to the next handler (nextOnPeer) - a peer that is closed instead was not assigned one",
			"TLS secure suite is not driven (certificate path); suites none and ecdhe are",
		},
		TimeoutSec: func(t string) int {
			if t == ev.Thorough {
				return 6000
			}
			return 600
		},
		Run: run,
	})
}

// ---------- independent reference ----------

func hashOf(secret []byte) []byte {
	h := sha3.Sum256(secret)
	return h[:]
}

// refPoint parses a public key with decred's parser.
func refPoint(pub []byte) (x, y *big.Int, uncompressed []byte, ok bool) {
	defer func() {
		if recover() != nil {
			ok = false
		}
	}()
	pk, err := secp256k1.ParsePubKey(pub)
	if err != nil {
		return nil, nil, nil, false
	}
	u := pk.SerializeUncompressed()
	return new(big.Int).SetBytes(u[1:33]), new(big.Int).SetBytes(u[33:65]), u, true
}

// refAddr is the 20-byte identity of a public key: last 20 bytes of SHA3-256(X||Y).
func refAddr(uncompressed []byte) []byte {
	h := sha3.Sum256(uncompressed[1:])
	return h[12:]
}

// refValid: does sig (64 or 65 bytes, R|S[|V]) verify for pub over SHA3-256(secret)?
func refValid(pub, sig, secret []byte) bool {
	x, y, _, ok := refPoint(pub)
	if !ok {
		return false
	}
	if len(sig) != 64 && len(sig) != 65 {
		return false
	}
	r := new(big.Int).SetBytes(sig[:32])
	s := new(big.Int).SetBytes(sig[32:64])
	return ecdsa.Verify(&ecdsa.PublicKey{Curve: secp256k1.S256(), X: x, Y: y}, hashOf(secret), r, s)
}

// ---------- helpers ----------

type party struct {
	w    module.Wallet
	priv []byte
	auth *network.Authenticator
	pubC []byte // compressed (wallet form)
	pubU []byte
	addr []byte
}

func newParty(r *rand.Rand) *party {
	w, priv := netgrp.WalletFrom(r)
	p := &party{w: w, priv: priv, auth: network.VerifNewAuthenticator(w, netgrp.QuietLogger())}
	_, _, u, ok := refPoint(w.PublicKey())
	if !ok {
		panic("wallet public key does not parse")
	}
	p.pubU = u
	pk, _ := secp256k1.ParsePubKey(u)
	p.pubC = pk.SerializeCompressed()
	p.addr = refAddr(u)
	return p
}

// sessionSecret runs a real two-sided ECDH set-up and returns the session's extra secret and one traffic key.
func sessionSecret(c *ev.Ctx, sa network.SecureAeadSuite) (extra, traffic []byte, ok bool) {
	a, b := network.VerifNewSecureKey(), network.VerifNewSecureKey()
	if err := a.Setup(sa, b.PublicKey(), false, 2); err != nil {
		c.Violation("setup.error", err.Error())
		return nil, nil, false
	}
	if err := b.Setup(sa, a.PublicKey(), true, 2); err != nil {
		c.Violation("setup.error", err.Error())
		return nil, nil, false
	}
	if !bytes.Equal(a.Extra(), b.Extra()) || len(a.Extra()) == 0 {
		c.Violation("setup.extra-disagree", map[string]string{"a": hex.EncodeToString(a.Extra()), "b": hex.EncodeToString(b.Extra())})
		return nil, nil, false
	}
	return a.Extra(), a.Secrets()[0], true
}

func hx(b []byte) string { return hex.EncodeToString(b) }

func safeVerify(v *network.Authenticator, pub, sig, content []byte) (id module.PeerID, err error, pan string) {
	defer func() {
		if x := recover(); x != nil {
			pan = fmt.Sprint(x)
		}
	}()
	id, err = v.VerifySignature(pub, sig, content)
	return
}

func run(c *ev.Ctx) {
	netgrp.QuietLogger()
	c.Cases(func(ci int, r *rand.Rand) {
		ps := []*party{newParty(r), newParty(r)}
		verifier := newParty(r)
		sa := network.SecureAeadSuite([]int{network.SecureAeadSuiteNone, network.SecureAeadSuiteChaCha20Poly1305, network.SecureAeadSuiteAes128Gcm, network.SecureAeadSuiteAes256Gcm}[r.Intn(4)])
		s1, t1, ok1 := sessionSecret(c, sa)
		s2, _, ok2 := sessionSecret(c, sa)
		if !ok1 || !ok2 {
			return
		}
		if bytes.Equal(s1, s2) {
			c.Violation("setup.sessions-share-secret", map[string]string{"s1": hx(s1), "s2": hx(s2)})
			return
		}
		secrets := [][]byte{s1, s2}
		c.Note("k1=%x k2=%x s1=%x s2=%x", ps[0].priv, ps[1].priv, s1, s2)
		base := func() map[string]interface{} {
			return map[string]interface{}{"priv1": hx(ps[0].priv), "priv2": hx(ps[1].priv), "pub1": hx(ps[0].pubC), "pub2": hx(ps[1].pubC), "secret1": hx(s1), "secret2": hx(s2)}
		}

		var held []heldID
		// ---- (a) matrix
		var sigs [2][2][]byte
		for k := 0; k < 2; k++ {
			for s := 0; s < 2; s++ {
				sigs[k][s] = ps[k].auth.Signature(secrets[s])
			}
		}
		for signer := 0; signer < 2; signer++ {
			for signed := 0; signed < 2; signed++ {
				for claimed := 0; claimed < 2; claimed++ {
					for verified := 0; verified < 2; verified++ {
						for form := 0; form < 3; form++ {
							c.Eval(1)
							pub := ps[claimed].pubC
							if form == 1 {
								pub = ps[claimed].pubU
							}
							sig := sigs[signer][signed]
							if form == 2 {
								sig = sig[:64] // [R|S] without the recovery byte
							}
							want := signer == claimed && signed == verified
							ref := refValid(pub, sig, secrets[verified])
							wit := func() map[string]interface{} {
								m := base()
								m["signer"], m["signed_secret"], m["claimed_key"], m["verified_secret"] = signer+1, signed+1, claimed+1, verified+1
								m["public_key"], m["signature"] = hx(pub), hx(sig)
								return m
							}
							if ref != want {
								// Authenticator.Signature is part of the anchored code: its output must verify
								// (by the independent reference) exactly for its own key and the signed content
								if want {
									c.Violation("signature.honest-signature-invalid-by-reference", wit())
								} else {
									c.Violation("signature.valid-for-other-tuple-by-reference", wit())
								}
								continue
							}
							id, err, pan := safeVerify(verifier.auth, pub, sig, secrets[verified])
							if pan != "" {
								m := wit()
								m["panic"] = pan
								c.Violation("matrix.panic", m)
								continue
							}
							if want {
								if err != nil && form == 2 {
									// a genuine signature without its recovery byte is not the wallet's form: may be refused
									c.Count("valid_variant_rejected_matrix_64_byte", 1)
									continue
								}
								if err != nil {
									m := wit()
									m["err"] = err.Error()
									c.Violation("matrix.honest-rejected", m)
								} else if id == nil || !bytes.Equal(id.Bytes(), ps[claimed].addr) {
									m := wit()
									m["id"], m["want_id"] = fmt.Sprint(id), hx(ps[claimed].addr)
									c.Violation("matrix.wrong-identity", m)
								} else {
									c.Count("matrix_accept", 1)
									if len(held) < 3 {
										heldObj := id
										held = append(held, heldID{"verify-result", func() module.PeerID { return heldObj }, ps[claimed].addr, pub})
									}
								}
								continue
							}
							if err == nil {
								key := "matrix.accepted"
								if signer != claimed {
									key += ".other-key"
								}
								if signed != verified {
									key += ".other-session-secret"
								}
								m := wit()
								m["id"] = fmt.Sprint(id)
								c.Violation(key, m)
								continue
							}
							if signed != verified {
								c.Count("matrix_reject_other_session", 1)
							}
							if signer != claimed {
								c.Count("matrix_reject_other_key", 1)
							}
							if form == 2 {
								c.Count("matrix_reject_64_byte_form", 1)
							}
							c.NonTrivial(fmt.Sprintf("M%x/%x/%x", pub, sig, secrets[verified]))
						}
					}
				}
			}
		}

		// ---- (b) mutations of the valid tuple (key 1, secret 1)
		good := sigs[0][0]
		type mut struct {
			class            string
			pub, sig, secret []byte
			honestForm       bool
		}
		var muts []mut
		flip := func(b []byte, bit int) []byte {
			o := append([]byte(nil), b...)
			o[bit/8] ^= 1 << uint(bit%8)
			return o
		}
		for i := 0; i < 24; i++ {
			muts = append(muts, mut{class: "sig_bitflip", pub: ps[0].pubC, sig: flip(good, r.Intn(64*8)), secret: s1})
		}
		for i := 0; i < 3; i++ {
			muts = append(muts, mut{class: "sig_v_bitflip", pub: ps[0].pubC, sig: flip(good, 64*8+r.Intn(8)), secret: s1})
		}
		for i := 0; i < 14; i++ {
			muts = append(muts, mut{class: "pub_bitflip", pub: flip(ps[0].pubC, r.Intn(33*8)), sig: good, secret: s1})
			muts = append(muts, mut{class: "pub_bitflip", pub: flip(ps[0].pubU, r.Intn(65*8)), sig: good, secret: s1})
		}
		for _, n := range []int{0, 1, 32, 63, 66, 96, 130} {
			b := make([]byte, n)
			copy(b, good)
			muts = append(muts, mut{class: "length", pub: ps[0].pubC, sig: b, secret: s1})
		}
		for _, n := range []int{0, 1, 20, 32, 34, 64, 66} {
			b := make([]byte, n)
			copy(b, ps[0].pubU)
			muts = append(muts, mut{class: "length", pub: b, sig: good, secret: s1})
		}
		muts = append(muts, mut{class: "sig_64_bytes", pub: ps[0].pubC, sig: good[:64], secret: s1})
		{ // 64-byte [R|S] signatures that do NOT verify for (key 1, secret 1)
			rnd := make([]byte, 64)
			r.Read(rnd)
			nb := secp256k1.S256().N.FillBytes(make([]byte, 32))
			zero := make([]byte, 32)
			cat := func(a, b []byte) []byte { return append(append([]byte(nil), a...), b...) }
			for _, v := range [][]byte{
				rnd,
				sigs[1][0][:64], // made by the other key
				sigs[0][1][:64], // made over the other session's secret
				ps[0].auth.Signature(t1)[:64],
				ps[0].auth.Signature(nil)[:64],
				flip(good[:64], r.Intn(64*8)),
				flip(good[:64], r.Intn(32*8)),
				flip(good[:64], 32*8+r.Intn(32*8)),
				cat(zero, good[32:64]), cat(good[:32], zero), cat(zero, zero),
				cat(nb, good[32:64]), cat(good[:32], nb), cat(nb, nb),
			} {
				muts = append(muts, mut{class: "sig64_invalid", pub: ps[0].pubC, sig: v, secret: s1})
			}
			muts = append(muts, mut{class: "sig64_invalid", pub: ps[0].pubU, sig: rnd, secret: s1},
				mut{class: "sig64_invalid", pub: ps[1].pubC, sig: good[:64], secret: s1}) // genuine [R|S] of key 1 claimed for key 2
		}
		{ // high-s twin (r, N-s)
			n := secp256k1.S256().N
			s := new(big.Int).SetBytes(good[32:64])
			hs := new(big.Int).Sub(n, s).FillBytes(make([]byte, 32))
			b := append(append(append([]byte(nil), good[:32]...), hs...), good[64]^1)
			muts = append(muts, mut{class: "sig_negated_s", pub: ps[0].pubC, sig: b, secret: s1})
		}
		{ // negated key (other y parity), hybrid encodings, garbage
			neg := append([]byte(nil), ps[0].pubC...)
			neg[0] ^= 1
			muts = append(muts, mut{class: "pub_negated", pub: neg, sig: good, secret: s1})
			for _, pfx := range []byte{6, 7} {
				h := append([]byte(nil), ps[0].pubU...)
				h[0] = pfx
				muts = append(muts, mut{class: "pub_hybrid", pub: h, sig: good, secret: s1})
			}
			g := make([]byte, []int{33, 65}[r.Intn(2)])
			r.Read(g)
			muts = append(muts, mut{class: "pub_garbage", pub: g, sig: good, secret: s1})
			z := make([]byte, 65)
			z[0] = 4
			muts = append(muts, mut{class: "pub_garbage", pub: z, sig: good, secret: s1})
			muts = append(muts, mut{class: "sig_zero", pub: ps[0].pubC, sig: make([]byte, 65), secret: s1})
			gs := make([]byte, 65)
			r.Read(gs)
			muts = append(muts, mut{class: "sig_garbage", pub: ps[0].pubC, sig: gs, secret: s1})
		}
		// the secret that is verified differs from the one signed
		muts = append(muts,
			mut{class: "secret_bitflip", pub: ps[0].pubC, sig: good, secret: flip(s1, r.Intn(len(s1)*8))},
			mut{class: "secret_truncated", pub: ps[0].pubC, sig: good, secret: s1[:len(s1)-1]},
			mut{class: "secret_extended", pub: ps[0].pubC, sig: good, secret: append(append([]byte(nil), s1...), 0)},
			mut{class: "secret_empty", pub: ps[0].pubC, sig: good, secret: nil},
			mut{class: "secret_is_traffic_key", pub: ps[0].pubC, sig: good, secret: t1},
			mut{class: "secret_is_hash", pub: ps[0].pubC, sig: good, secret: hashOf(s1)},
		)
		// signature made over something else than this session's secret, verified against the secret
		muts = append(muts,
			mut{class: "signed_traffic_key", pub: ps[0].pubC, sig: ps[0].auth.Signature(t1), secret: s1},
			mut{class: "signed_empty", pub: ps[0].pubC, sig: ps[0].auth.Signature(nil), secret: s1},
			mut{class: "signed_pubkey", pub: ps[0].pubC, sig: ps[0].auth.Signature(ps[0].pubC), secret: s1},
		)
		for _, m := range muts {
			if c.Stopped() {
				return
			}
			c.Eval(1)
			ref := refValid(m.pub, m.sig, m.secret)
			wit := func() map[string]interface{} {
				w := base()
				w["class"], w["public_key"], w["signature"], w["verified_secret"], w["reference_valid"] = m.class, hx(m.pub), hx(m.sig), hx(m.secret), ref
				return w
			}
			id, err, pan := safeVerify(verifier.auth, m.pub, m.sig, m.secret)
			if pan != "" {
				w := wit()
				w["panic"] = pan
				c.Violation("mutation.panic."+m.class, w)
				continue
			}
			if !ref {
				if err == nil {
					w := wit()
					w["id"] = fmt.Sprint(id)
					c.Violation("mutation.accepted."+m.class, w)
					continue
				}
				switch m.class {
				case "sig_bitflip":
					c.Count("mut_sig_bitflip_reject", 1)
				case "pub_bitflip":
					c.Count("mut_pub_bitflip_reject", 1)
				case "length":
					c.Count("mut_length_reject", 1)
				default:
					c.Count("mut_"+m.class+"_reject", 1)
				}
				c.NonTrivial(fmt.Sprintf("U%x/%x/%x", m.pub, m.sig, m.secret))
				continue
			}
			// mathematically valid variant: possession is proven; if accepted the identity must be the key's
			if err == nil {
				_, _, u, _ := refPoint(m.pub)
				if id == nil || !bytes.Equal(id.Bytes(), refAddr(u)) {
					w := wit()
					w["id"] = fmt.Sprint(id)
					c.Violation("mutation.wrong-identity."+m.class, w)
					continue
				}
				c.Count("valid_variant_accepted_"+m.class, 1)
			} else {
				c.Count("valid_variant_rejected_"+m.class, 1)
			}
		}
		if ci%16 == 0 && c.WantSample() {
			c.Sample(map[string]interface{}{"kind": "matrix+mutations", "pub1": hx(ps[0].pubC), "secret1": hx(s1), "secret2": hx(s2), "sig_k1_s1": hx(good), "mutations": len(muts)})
		}
		if c.Stopped() {
			return
		}

		// ---- (c) handshakes
		held = append(held, handshakes(c, r, ps)...)
		if !c.Stopped() {
			churnAndCheck(c, r, held)
		}
	})
}

// ---------- identities must stay what was proven ----------

// heldID is an identity object handed out by the code under test for a proven key.
type heldID struct {
	what string
	id   func() module.PeerID
	want []byte
	pub  []byte
}

// churnAndCheck interns more distinct peer ids than the process-wide PeerID cache holds - the way real
// traffic does (every received packet header interns its unauthenticated source id; NewPeerID) - and then
// re-reads every identity that was assigned earlier: it must still be the address of the proven key.
func churnAndCheck(c *ev.Ctx, r *rand.Rand, held []heldID) {
	if len(held) == 0 {
		return
	}
	n := 101 + r.Intn(120)
	var stream []byte
	var last []byte
	for i := 0; i < n; i++ {
		src := make([]byte, 20)
		r.Read(src)
		last = src
		if i%2 == 0 {
			network.NewPeerID(src)
		} else {
			wp := netgrp.WirePacket{Protocol: 0x0300, SubProtocol: 1, Src: src, Dest: 0, TTL: 0, Payload: []byte{byte(i)}}
			stream = append(stream, wp.Bytes()...)
		}
	}
	pr := network.NewPacketReader(bytes.NewReader(stream))
	for {
		if _, err := pr.ReadPacket(); err != nil {
			break
		}
	}
	c.Count("identity_cache_churn_ids", n)
	for _, h := range held {
		c.Eval(1)
		id := h.id()
		if id == nil || !bytes.Equal(id.Bytes(), h.want) {
			c.Violation("identity.changed-after-authentication."+h.what, map[string]interface{}{"what": h.what, "proven_public_key": hx(h.pub),
				"identity_when_assigned": hx(h.want), "identity_now": fmt.Sprint(id), "distinct_ids_interned_since": n, "last_interned": hx(last)})
			continue
		}
		c.Count("identity_stable_after_cache_churn", 1)
		c.Count("identity_stable_"+h.what, 1)
	}
}

// ---------- handshake level ----------

const channel = "c32"

type wire struct {
	pr *network.PacketReader
	pw *network.PacketWriter
}

func (w *wire) send(spi module.ProtocolInfo, src []byte, v interface{}) error {
	b, err := codec.MP.MarshalToBytes(v)
	if err != nil {
		return err
	}
	return w.pw.WritePacket(network.VerifNewPacket(network.VerifProtoAuth.Uint16(), spi.Uint16(), src, network.VerifDestPeer, 1, b, 0, nil))
}

func (w *wire) recv(spi module.ProtocolInfo, v interface{}) error {
	pkt, err := w.pr.ReadPacket()
	if err != nil {
		return err
	}
	f := network.VerifPacketFields(pkt)
	if f.Protocol != network.VerifProtoAuth.Uint16() || f.SubProtocol != spi.Uint16() {
		return fmt.Errorf("unexpected packet %#04x/%#04x, want sub-protocol %#04x", f.Protocol, f.SubProtocol, spi.Uint16())
	}
	_, err = codec.MP.UnmarshalFromBytes(f.Payload, v)
	return err
}

type attack struct {
	name string
	// build returns the (public key, signature, error field) the scripted side presents;
	// cur = this session's secret, prev = material of the previous real session
	build func(r *rand.Rand, me, other *party, cur, curTraffic []byte, prev *prevSession) (pub, sig []byte, errField string)
}

type prevSession struct {
	extra []byte
	pub   []byte
	sig   []byte // the signature the honest party presented in that session
}

var attacks = []attack{
	{"replay_other_session", func(r *rand.Rand, me, other *party, cur, tr []byte, prev *prevSession) ([]byte, []byte, string) {
		return prev.pub, prev.sig, ""
	}},
	{"other_key_signs", func(r *rand.Rand, me, other *party, cur, tr []byte, prev *prevSession) ([]byte, []byte, string) {
		return me.w.PublicKey(), other.auth.Signature(cur), ""
	}},
	{"foreign_public_key", func(r *rand.Rand, me, other *party, cur, tr []byte, prev *prevSession) ([]byte, []byte, string) {
		return other.w.PublicKey(), me.auth.Signature(cur), ""
	}},
	{"sig_bitflip", func(r *rand.Rand, me, other *party, cur, tr []byte, prev *prevSession) ([]byte, []byte, string) {
		s := me.auth.Signature(cur)
		s[r.Intn(64)] ^= 1 << uint(r.Intn(8))
		return me.w.PublicKey(), s, ""
	}},
	{"signed_traffic_key", func(r *rand.Rand, me, other *party, cur, tr []byte, prev *prevSession) ([]byte, []byte, string) {
		return me.w.PublicKey(), me.auth.Signature(tr), ""
	}},
	{"signed_empty", func(r *rand.Rand, me, other *party, cur, tr []byte, prev *prevSession) ([]byte, []byte, string) {
		return me.w.PublicKey(), me.auth.Signature(nil), ""
	}},
	{"garbage_public_key", func(r *rand.Rand, me, other *party, cur, tr []byte, prev *prevSession) ([]byte, []byte, string) {
		g := make([]byte, 33)
		r.Read(g)
		return g, me.auth.Signature(cur), ""
	}},
	{"sig64_random", func(r *rand.Rand, me, other *party, cur, tr []byte, prev *prevSession) ([]byte, []byte, string) {
		g := make([]byte, 64)
		r.Read(g)
		return me.w.PublicKey(), g, ""
	}},
	{"sig64_other_key_signs", func(r *rand.Rand, me, other *party, cur, tr []byte, prev *prevSession) ([]byte, []byte, string) {
		return me.w.PublicKey(), other.auth.Signature(cur)[:64], ""
	}},
	{"sig64_replay_other_session", func(r *rand.Rand, me, other *party, cur, tr []byte, prev *prevSession) ([]byte, []byte, string) {
		return prev.pub, prev.sig[:64], ""
	}},
	{"sig64_bitflip", func(r *rand.Rand, me, other *party, cur, tr []byte, prev *prevSession) ([]byte, []byte, string) {
		s := me.auth.Signature(cur)[:64]
		s[r.Intn(64)] ^= 1 << uint(r.Intn(8))
		return me.w.PublicKey(), s, ""
	}},
	{"sig64_signed_traffic_key", func(r *rand.Rand, me, other *party, cur, tr []byte, prev *prevSession) ([]byte, []byte, string) {
		return me.w.PublicKey(), me.auth.Signature(tr)[:64], ""
	}},
	{"sig64_zero", func(r *rand.Rand, me, other *party, cur, tr []byte, prev *prevSession) ([]byte, []byte, string) {
		return me.w.PublicKey(), make([]byte, 64), ""
	}},
	{"short_signature", func(r *rand.Rand, me, other *party, cur, tr []byte, prev *prevSession) ([]byte, []byte, string) {
		return me.w.PublicKey(), me.auth.Signature(cur)[:r.Intn(64)], ""
	}},
}

type hsOutcome struct {
	peer       *network.Peer // the real side's peer object (session)
	acceptedCh chan struct{}
	accepted   bool   // the real authenticator handed the peer on
	id         []byte // identity it assigned
	closed     bool
	respErr    string // error text in the real side's SignatureResponse (in-side only)
	realPub    []byte // what the real side presented
	realSig    []byte
	realSigOK  bool // real side's signature verifies over THIS session's secret
	realSigOld bool // ... and over the previous session's secret (must not)
	extra      []byte
	traffic    []byte
	scriptErr  string
	suite      string
}

// runHandshake drives one handshake of a real Authenticator (auth of `real`) against a scripted counterpart
// that owns the wallet of `me`. realIn: the real side is the listener.
func runHandshake(c *ev.Ctx, r *rand.Rand, real, me, other *party, realIn bool, ecdhe bool, atk *attack, prev *prevSession) (o *hsOutcome) {
	o = &hsOutcome{}
	l := netgrp.QuietLogger()
	connReal, connScript := netgrp.BufPipe(r.Int63())
	defer connReal.Close()
	defer connScript.Close()

	var mu sync.Mutex
	accepted := make(chan struct{})
	o.acceptedCh = accepted
	var once sync.Once
	var acceptedPeer *network.Peer
	next := &network.VerifNextHandler{OnPeerFn: func(p *network.Peer) {
		mu.Lock()
		acceptedPeer = p
		mu.Unlock()
		once.Do(func() { close(accepted) })
	}}
	realAuth := network.VerifNewAuthenticator(real.w, l) // fresh per session, like a fresh transport
	realAuth.VerifSetNext(next)
	peer := realAuth.VerifDispatch(connReal, realIn, channel, l)

	w := &wire{pr: network.NewPacketReader(connScript), pw: network.NewPacketWriter(connScript)}
	sk := network.VerifNewSecureKey()
	ss := network.SecureSuite(network.SecureSuiteNone)
	o.suite = "none"
	if ecdhe {
		ss = network.SecureSuiteEcdhe
		o.suite = "ecdhe"
	}
	aead := network.SecureAeadSuite([]int{network.SecureAeadSuiteChaCha20Poly1305, network.SecureAeadSuiteAes128Gcm, network.SecureAeadSuiteAes256Gcm}[r.Intn(3)])
	fail := func(format string, a ...interface{}) *hsOutcome {
		o.scriptErr = fmt.Sprintf(format, a...)
		return o
	}
	secure := func(peerParam []byte, used network.SecureAeadSuite) error {
		sa := used
		if ss == network.SecureSuiteNone {
			sa = network.SecureAeadSuiteNone
		}
		// defaultLower mirrors Peer.In() of the scripted side
		if err := sk.Setup(sa, peerParam, realIn == false, 2); err != nil {
			return err
		}
		if ss == network.SecureSuiteEcdhe {
			sc, err := sk.NewConn(connScript, sa)
			if err != nil {
				return err
			}
			w.pr.Reset(sc)
			w.pw.Reset(sc)
		}
		o.extra, o.traffic = sk.Extra(), sk.Secrets()[0]
		return nil
	}
	present := func() (pub, sig []byte, errField string) {
		if atk == nil {
			return me.w.PublicKey(), me.auth.Signature(o.extra), ""
		}
		return atk.build(r, me, other, o.extra, o.traffic, prev)
	}
	checkReal := func(pub, sig []byte) {
		o.realPub, o.realSig = pub, sig
		o.realSigOK = refValid(pub, sig, o.extra)
		if prev != nil {
			o.realSigOld = refValid(pub, sig, prev.extra)
		}
	}

	if realIn {
		// scripted dialer
		if err := w.send(network.VerifProtoAuthSecureReq, me.addr, &network.SecureRequest{Channel: channel, SecureSuites: []network.SecureSuite{ss},
			SecureAeadSuites: []network.SecureAeadSuite{aead}, SecureParam: sk.PublicKey()}); err != nil {
			return fail("send SecureRequest: %v", err)
		}
		var resp network.SecureResponse
		if err := w.recv(network.VerifProtoAuthSecureResp, &resp); err != nil {
			return fail("recv SecureResponse: %v", err)
		}
		if resp.SecureError != "" || resp.SecureSuite != ss {
			return fail("SecureResponse %+v", resp)
		}
		if err := secure(resp.SecureParam, resp.SecureAeadSuite); err != nil {
			return fail("setup: %v", err)
		}
		pub, sig, _ := present()
		if err := w.send(network.VerifProtoAuthSignatureReq, me.addr, &network.SignatureRequest{PublicKey: pub, Signature: sig}); err != nil {
			return fail("send SignatureRequest: %v", err)
		}
		var sresp network.SignatureResponse
		if err := w.recv(network.VerifProtoAuthSignatureRsp, &sresp); err != nil {
			// a real side that closes without answering has rejected as well
			o.respErr = "no response: " + err.Error()
		} else {
			o.respErr = sresp.Error
			if sresp.Error == "" {
				checkReal(sresp.PublicKey, sresp.Signature)
			}
		}
	} else {
		// scripted listener
		var req network.SecureRequest
		if err := w.recv(network.VerifProtoAuthSecureReq, &req); err != nil {
			return fail("recv SecureRequest: %v", err)
		}
		if err := w.send(network.VerifProtoAuthSecureResp, me.addr, &network.SecureResponse{Channel: channel, SecureSuite: ss, SecureAeadSuite: aead,
			SecureParam: sk.PublicKey()}); err != nil {
			return fail("send SecureResponse: %v", err)
		}
		if err := secure(req.SecureParam, aead); err != nil {
			return fail("setup: %v", err)
		}
		var sreq network.SignatureRequest
		if err := w.recv(network.VerifProtoAuthSignatureReq, &sreq); err != nil {
			return fail("recv SignatureRequest: %v", err)
		}
		checkReal(sreq.PublicKey, sreq.Signature)
		pub, sig, ef := present()
		if err := w.send(network.VerifProtoAuthSignatureRsp, me.addr, &network.SignatureResponse{PublicKey: pub, Signature: sig, Error: ef}); err != nil {
			return fail("send SignatureResponse: %v", err)
		}
	}

	// the real side now either hands the peer on or closes it
	closed := make(chan struct{})
	go func() { peer.WaitClose(); close(closed) }()
	select {
	case <-accepted:
		o.accepted = true
	case <-closed:
		o.closed = true
		// a hand-over that raced with the close is still a hand-over
		select {
		case <-accepted:
			o.accepted = true
		default:
		}
	}
	if o.accepted {
		mu.Lock()
		if id := acceptedPeer.ID(); id != nil {
			o.id = append([]byte(nil), id.Bytes()...)
		}
		mu.Unlock()
	}
	if got := network.VerifPeerSessionExtra(peer); !bytes.Equal(got, o.extra) {
		o.scriptErr = fmt.Sprintf("session secrets differ: real %x script %x", got, o.extra)
	}
	o.peer = peer
	peer.Close("verif: case done")
	<-closed
	return o
}

func handshakes(c *ev.Ctx, r *rand.Rand, ps []*party) (held []heldID) {
	realParty := newParty(r)
	type lateCheck struct {
		o          *hsOutcome
		side, name string
	}
	var late []lateCheck
	defer func() {
		// a hand-over that happened after the close was observed is still a hand-over
		for _, lc := range late {
			select {
			case <-lc.o.acceptedCh:
				c.Violation("handshake."+lc.side+".accepted-after-close."+lc.name, map[string]interface{}{"real_side": lc.side, "attack": lc.name, "session_secret": hx(lc.o.extra)})
			default:
			}
		}
	}()
	for _, realIn := range []bool{true, false} {
		side := "out"
		if realIn {
			side = "in"
		}
		ecdhe := r.Intn(2) == 0
		// 1) honest session: must be accepted with the right identity; its material feeds the replay attack
		c.Eval(1)
		c.Note("handshake side=%s ecdhe=%v honest", side, ecdhe)
		h := runHandshake(c, r, realParty, ps[0], ps[1], realIn, ecdhe, nil, nil)
		wit := func(o *hsOutcome, extra map[string]interface{}) map[string]interface{} {
			m := map[string]interface{}{"real_side": side, "suite": o.suite, "session_secret": hx(o.extra), "accepted": o.accepted, "closed": o.closed,
				"assigned_id": hx(o.id), "script_key_addr": hx(ps[0].addr), "script_priv": hx(ps[0].priv), "other_priv": hx(ps[1].priv),
				"real_priv": hx(realParty.priv), "response_error": o.respErr, "script_error": o.scriptErr}
			for k, v := range extra {
				m[k] = v
			}
			return m
		}
		if h.scriptErr != "" {
			c.Violation("handshake."+side+".honest-broken", wit(h, nil))
			continue
		}
		if !h.accepted {
			c.Violation("handshake."+side+".honest-rejected", wit(h, nil))
			continue
		}
		if !bytes.Equal(h.id, ps[0].addr) {
			c.Violation("handshake."+side+".wrong-identity", wit(h, nil))
			continue
		}
		c.Count("hs_"+side+"_honest_accepted", 1)
		sess := h.peer
		held = append(held, heldID{"session-" + side, func() module.PeerID { return sess.ID() }, ps[0].addr, ps[0].w.PublicKey()})
		c.Count("hs_suite_"+h.suite, 1)
		// the real side's own proof is over this session's secret and is its own key
		if h.realPub != nil {
			_, _, u, ok := refPoint(h.realPub)
			if !h.realSigOK || !ok || !bytes.Equal(refAddr(u), realParty.addr) {
				c.Violation("handshake."+side+".real-side-proof-invalid", wit(h, map[string]interface{}{"real_pub": hx(h.realPub), "real_sig": hx(h.realSig)}))
				continue
			}
			c.Count("responder_signs_this_session", 1)
		}
		prev := &prevSession{extra: h.extra, pub: ps[0].w.PublicKey(), sig: ps[0].auth.Signature(h.extra)}

		// 2) one attack in a new session
		atk := &attacks[r.Intn(len(attacks))]
		if r.Intn(3) == 0 {
			atk = &attacks[0]
		}
		if !realIn && r.Intn(8) == 0 {
			atk = &attack{"error_field", func(r *rand.Rand, me, other *party, cur, tr []byte, prev *prevSession) ([]byte, []byte, string) {
				return me.w.PublicKey(), me.auth.Signature(cur), "refused"
			}}
		}
		c.Eval(1)
		c.Note("handshake side=%s ecdhe=%v attack=%s", side, ecdhe, atk.name)
		a := runHandshake(c, r, realParty, ps[0], ps[1], realIn, ecdhe, atk, prev)
		if a.scriptErr != "" {
			c.Violation("handshake."+side+".attack-run-broken", wit(a, map[string]interface{}{"attack": atk.name}))
			continue
		}
		if a.realSigOld {
			c.Violation("handshake."+side+".real-side-signs-old-secret", wit(a, map[string]interface{}{"previous_secret": hx(prev.extra)}))
			continue
		}
		if bytes.Equal(a.extra, prev.extra) {
			c.Violation("handshake.sessions-share-secret", wit(a, nil))
			continue
		}
		if a.accepted {
			c.Violation("handshake."+side+".accepted."+atk.name, wit(a, map[string]interface{}{"attack": atk.name, "previous_session_secret": hx(prev.extra), "replayed_sig": hx(prev.sig)}))
			continue
		}
		late = append(late, lateCheck{a, side, atk.name})
		c.Count("hs_"+side+"_attack_rejected", 1)
		c.Count("hs_attack_"+atk.name, 1)
		if len(atk.name) > 5 && atk.name[:5] == "sig64" {
			c.Count("hs_attack_64_byte_signature_rejected", 1)
		}
		c.NonTrivial(fmt.Sprintf("H%s/%s/%s/%x", side, a.suite, atk.name, a.extra))
		if c.WantSample() {
			c.Sample(map[string]interface{}{"kind": "handshake", "real_side": side, "suite": a.suite, "attack": atk.name, "closed": a.closed, "response_error": a.respErr})
		}
	}
	return held
}
