package c11

import (
	"fmt"
	"math/big"
	"math/rand"
	"strings"

	"github.com/icon-project/goloop/common"
	"github.com/icon-project/goloop/common/errors"
	"github.com/icon-project/goloop/common/txlocator"
	"github.com/icon-project/goloop/module"
	"github.com/icon-project/goloop/service"

	"verif/lib/ev"
	"verif/lib/feefix"
)

type serviceBackend struct {
	c     *ev.Ctx
	st    *feefix.Stack
	lm    module.LocatorManager
	chain *common.Address
}

func newServiceBackend(c *ev.Ctx, thMS int64) (*serviceBackend, error) {
	big1 := new(big.Int).Lsh(big.NewInt(1), 80)
	st, err := feefix.New(feefix.Config{
		ThresholdMS: thMS,
		Balances:    []*big.Int{big1, big1, big1, big1},
	})
	if err != nil {
		return nil, err
	}
	lm := service.VerifLocatorManager(st.Base.Tr)
	if lm == nil {
		st.Close()
		return nil, fmt.Errorf("no locator manager")
	}
	return &serviceBackend{c: c, st: st, lm: lm, chain: common.MustNewAddressFromString("cx0000000000000000000000000000000000000000")}, nil
}

func (b *serviceBackend) level() string { return "service" }

func (b *serviceBackend) newTx(r *rand.Rand, ts int64, serial int) *mtx {
	from := b.st.Wallets[serial%len(b.st.Wallets)]
	to := b.st.Wallets[(serial+1)%len(b.st.Wallets)]
	tx, err := feefix.SignedTx(feefix.TxSpec{From: from, To: to.Address(), Value: big.NewInt(1), StepLimit: big.NewInt(100000),
		Timestamp: ts, Nonce: big.NewInt(int64(serial))})
	if err != nil {
		panic(err)
	}
	return &mtx{id: tx.ID(), ts: ts, g: module.TransactionGroupNormal, serial: serial, real: tx}
}

// a threshold change is a governance call in the parent block; it is an
// ordinary transaction of that block (id, timestamp) as well.
func (b *serviceBackend) extraTxs(s *scen, parent *node, bts, th, thNext int64) []*mtx {
	if thNext == th {
		return nil
	}
	s.serial++
	tx, err := feefix.SignedTx(feefix.TxSpec{From: b.st.Gov, To: b.chain, StepLimit: big.NewInt(10000000), Timestamp: bts,
		Nonce: big.NewInt(int64(s.serial)), DataType: "call",
		Data: map[string]interface{}{"method": "setTimestampThreshold", "params": map[string]interface{}{"threshold": fmt.Sprintf("0x%x", thNext/1000)}}})
	if err != nil {
		panic(err)
	}
	return []*mtx{{id: tx.ID(), ts: bts, g: module.TransactionGroupNormal, serial: s.serial, real: tx, ctl: true}}
}

func (b *serviceBackend) try(parent *node, height, bts, th, thNext int64, txs []*mtx) (bool, string, string, interface{}) {
	pb := parent.real().(*feefix.Block)
	rtx := make([]module.Transaction, len(txs))
	for i, t := range txs {
		rtx[i] = t.real
	}
	blk := b.st.Exec(pb, rtx, bts, false)
	if err := blk.ValidateErr; err != nil {
		cls := "other"
		switch {
		case service.ExpiredTransactionError.Equals(err):
			cls = "expired"
		case service.FutureTransactionError.Equals(err):
			cls = "future"
		case errors.IllegalArgumentError.Equals(err) && strings.Contains(err.Error(), "DuplicateTx"):
			cls = "duplicate"
		}
		return false, cls, err.Error(), nil
	}
	if blk.ExecErr != nil {
		b.c.Violation("service.harness.execution-error", blk.ExecErr.Error())
		return false, "exec-error", blk.ExecErr.Error(), nil
	}
	// the harness relies on the governance call having worked
	if thNext != th {
		rs, err := blk.Receipts()
		if err != nil || len(rs) != len(txs) || rs[len(rs)-1].Status() != module.StatusSuccess {
			b.c.Violation("service.harness.threshold-call-failed", fmt.Sprint(err))
		}
	}
	return true, "", "", blk
}

func (b *serviceBackend) commit(n *node) error {
	// finalize in chain order like the block manager does
	var chain []*node
	for a := n; a != nil && !a.finalized; a = a.parent {
		chain = append([]*node{a}, chain...)
	}
	_, _, m0 := txlocator.VerifCacheInfo(b.lm, module.TransactionGroupNormal)
	for _, a := range chain {
		blk, ok := a.real().(*feefix.Block)
		if !ok {
			continue
		}
		if err := blk.FinalizeTxs(); err != nil {
			return err
		}
	}
	txlocator.VerifWaitFlush(b.lm)
	if _, _, m1 := txlocator.VerifCacheInfo(b.lm, module.TransactionGroupNormal); m1 != m0 {
		b.c.Count("service_cache_evictions_seen", 1)
	}
	return nil
}

func (b *serviceBackend) cacheLabel(x *mtx) string {
	_, _, m := txlocator.VerifCacheInfo(b.lm, module.TransactionGroupNormal)
	if txlocator.VerifCached(b.lm, x.id) {
		return "cached"
	}
	if m != 0 && x.ts == m {
		return "evicted-ts-eq-maxTSInDB"
	}
	return "evicted"
}

func (b *serviceBackend) close() { b.st.Close() }

// serviceCase: the same kind of tree through service.NewTransition with
// validated=false on a real world state; thresholds live in the chain state
// (genesis timestampThreshold, changed by governance calls).
func serviceCase(c *ev.Ctx, r *rand.Rand) {
	// two scales: thresholds of 1..6 ms (many evictions in few blocks) and
	// thresholds of minutes at real microsecond timestamps: the chain value is
	// then LARGER than the constant patch-group threshold (1 min), so a
	// mix-up of the two groups' thresholds narrows what the trackers / the
	// locator cache believe a block can hold; also the default (unset = 5 min)
	minutes := r.Intn(2) == 0
	K := int64(1000)
	th0ms := int64(1 + r.Intn(6))
	th0 := th0ms * K
	if minutes {
		K = 60 * 1000000
		if r.Intn(4) == 0 {
			th0ms, th0 = 0, 5*K // not configured: service default
		} else {
			th0ms = int64(2+r.Intn(4)) * 60000
			th0 = th0ms * 1000
		}
	}
	be, err := newServiceBackend(c, th0ms)
	if err != nil {
		c.Violation("service.setup", err.Error())
		return
	}
	defer be.close()
	s := &scen{c: c, r: r, be: be, K: K, varying: r.Intn(100) < 50, th0: th0}
	// the setup blocks (genesis ...) are the finalized root of the model
	root := &node{height: be.st.Base.Height, bts: be.st.Base.TS, th: th0, ids: map[string]*mtx{}, finalized: true}
	root.impl = &nodeImpl{real: be.st.Base, thNext: th0}
	bts := int64(1000000 + r.Intn(1000000))
	if minutes {
		bts = 1700000000000000 + r.Int63n(1000000000000)
		c.Count("service_trees_minute_thresholds", 1)
	}
	ok, _, et, impl := be.try(root, root.height+1, bts, th0, th0, nil)
	if !ok {
		c.Violation("service.valid.rejected.empty-first-block", et)
		return
	}
	first := &node{parent: root, height: root.height + 1, bts: bts, th: th0, ids: map[string]*mtx{}}
	first.impl = &nodeImpl{real: impl, thNext: th0}
	root.children = []*node{first}
	s.nodes = []*node{root, first}
	s.root = root
	c.Note("service-case varying=%v th0=%d", s.varying, th0)
	s.run(10 + r.Intn(16))
	c.Count("service_trees", 1)
}
