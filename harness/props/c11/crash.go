package c11

import (
	"fmt"
	"math/rand"
	"sync"
	"time"

	"github.com/icon-project/goloop/common/crypto"
	"github.com/icon-project/goloop/common/db"
	"github.com/icon-project/goloop/common/log"
	"github.com/icon-project/goloop/common/txlocator"
	"github.com/icon-project/goloop/module"

	"verif/lib/ev"
)

// gate makes chosen locator writes hang (slow disk) and, at the crash, turns
// every pending and later write into a no-op (the process is gone; only what
// reached the underlying MapDB survives).
type gate struct {
	mu      sync.Mutex
	cond    *sync.Cond
	blocked map[string]bool
	crashed bool
	waiting int
}

func newGate() *gate {
	g := &gate{blocked: map[string]bool{}}
	g.cond = sync.NewCond(&g.mu)
	return g
}

type gatedBucket struct {
	db.Bucket
	g *gate
}

func (b *gatedBucket) Set(key, value []byte) error {
	g := b.g
	g.mu.Lock()
	if g.blocked[string(key)] && !g.crashed {
		g.waiting++
		for !g.crashed {
			g.cond.Wait()
		}
		g.waiting--
	}
	crashed := g.crashed
	g.mu.Unlock()
	if crashed {
		return nil
	}
	return b.Bucket.Set(key, value)
}

type gatedDB struct {
	db.Database
	g *gate
}

func (d *gatedDB) GetBucket(id db.BucketID) (db.Bucket, error) {
	bk, err := d.Database.GetBucket(id)
	if err != nil || id != db.TransactionLocatorByHash {
		return bk, err
	}
	return &gatedBucket{bk, d.g}, nil
}

func (g *gate) waitBlocked(d time.Duration) bool {
	deadline := time.Now().Add(d)
	for time.Now().Before(deadline) {
		g.mu.Lock()
		w := g.waiting
		g.mu.Unlock()
		if w > 0 {
			return true
		}
		time.Sleep(200 * time.Microsecond)
	}
	return false
}

func (g *gate) crash() {
	g.mu.Lock()
	g.crashed = true
	g.cond.Broadcast()
	g.mu.Unlock()
}

type cblock struct {
	height int64
	bts    int64
	txs    []*mtx
	tr     module.LocatorTracker
}

// crashCase: finalize a chain block by block as the block manager does
// (Add, Commit), with the locator flush of one block hanging; finalize as far
// as Commit lets us; crash (pending writes lost); restart exactly as
// block.Manager does at start-up (new manager over the surviving DB, the
// LAST finalized block re-recorded with force and committed); then every
// transaction of every finalized block whose timestamp a next block would
// still accept must be known (Has) and refused (Add).
func crashCase(c *ev.Ctx, r *rand.Rand) {
	logger := log.New()
	logger.SetLevel(log.FatalLevel)
	disk := db.NewMapDB()
	g := newGate()
	lm, err := txlocator.NewManager(&gatedDB{disk, g}, logger)
	if err != nil {
		c.Violation("crash.setup", err.Error())
		return
	}
	group := module.TransactionGroupNormal
	th := int64(1000 + r.Intn(3000))
	n := 3 + r.Intn(5)
	salt := r.Int63()
	var chain []*cblock
	bts := int64(100000 + r.Intn(100000))
	serial := 0
	for i := 0; i < n; i++ {
		bts += int64(20 + r.Intn(150))
		b := &cblock{height: int64(i + 1), bts: bts}
		for k := 0; k < 1+r.Intn(3); k++ {
			serial++
			ts := bts - 100 + int64(r.Intn(200))
			if r.Intn(4) == 0 {
				ts = bts + th
			}
			b.txs = append(b.txs, &mtx{id: crypto.SHA3Sum256([]byte(fmt.Sprintf("crash %d %d", salt, serial))), ts: ts, g: group, serial: serial})
		}
		chain = append(chain, b)
	}
	hang := r.Intn(10) < 7
	victim := -1
	if hang {
		victim = r.Intn(n - 1) // not the last one: somebody must be finalized after it
	}
	c.Note("crash-case th=%d blocks=%d victim=%d", th, n, victim)
	c.Count("crash_runs", 1)

	var prev module.LocatorTracker = lm.NewTracker(group, 0, 0, th)
	last := -1
	returnedDuringHang := 0
	stop := n
	if hang {
		stop = victim + 1 + 1 + r.Intn(2) // try one or two blocks beyond the victim
		if stop > n {
			stop = n
		}
	}
	for i := 0; i < stop; i++ {
		b := chain[i]
		tr := prev.New(b.height, b.bts, th)
		if _, err := tr.Add(&mlist{txs: b.txs}, false); err != nil {
			c.Violation("crash.valid.rejected", err.Error())
			g.crash()
			lm.Term()
			return
		}
		b.tr = tr
		prev = tr
		if i == victim {
			g.mu.Lock()
			for _, x := range b.txs {
				g.blocked[string(x.id)] = true
			}
			g.mu.Unlock()
		}
		if !hang || i <= victim {
			if err := tr.Commit(); err != nil {
				c.Violation("crash.commit.error", err.Error())
				g.crash()
				lm.Term()
				return
			}
			last = i
			if hang && i < victim {
				txlocator.VerifWaitFlush(lm)
			}
			if i == victim {
				if !g.waitBlocked(5 * time.Second) {
					c.Count("crash_flush_did_not_hang", 1)
					g.crash()
					lm.Term()
					return
				}
				c.Count("crash_hung_flush_observed", 1)
			}
			continue
		}
		// beyond the victim: the flush of the victim is still hanging
		done := make(chan error, 1)
		go func() { done <- tr.Commit() }()
		select {
		case err := <-done:
			if err != nil {
				c.Violation("crash.commit.error", err.Error())
			} else {
				// finalized although an older block's locators are not durable yet
				last = i
				returnedDuringHang++
				c.Count("crash_commit_returned_while_older_flush_pending", 1)
			}
		case <-time.After(150 * time.Millisecond):
			// the finalization waits for the older flush: not finalized at the crash
			c.Count("crash_commit_waited_for_older_flush", 1)
			i = stop
		}
	}
	// ---- crash ----
	g.crash()
	lm.Term() // the dead process' goroutines finish without touching the disk

	// ---- restart as block.Manager does ----
	lm2, err := txlocator.NewManager(disk, logger)
	if err != nil {
		c.Violation("crash.restart", err.Error())
		return
	}
	defer lm2.Term()
	lb := chain[last]
	root := lm2.NewTracker(group, 0, 0, th)
	rec := root.New(lb.height, lb.bts, th)
	if _, err := rec.Add(&mlist{txs: lb.txs}, true); err != nil {
		c.Violation("crash.restart.record-last", err.Error())
		return
	}
	if err := rec.Commit(); err != nil {
		c.Violation("crash.restart.commit-last", err.Error())
		return
	}
	txlocator.VerifWaitFlush(lm2)

	// ---- every finalized transaction a next block would accept is known ----
	nbts := lb.bts + int64(1+r.Intn(100))
	for i := 0; i <= last; i++ {
		for _, x := range chain[i].txs {
			if !inWindow(x.ts, nbts, th) {
				continue
			}
			c.Eval(1)
			c.Count("crash_finalized_ids_checked_after_restart", 1)
			if i < last {
				c.Count("crash_ids_of_older_blocks_checked", 1)
			}
			next := rec.New(lb.height+1, nbts, th)
			has, herr := next.Has(x.id, x.ts)
			_, aerr := next.Add(&mlist{txs: []*mtx{x}}, false)
			if herr != nil || !has || aerr == nil {
				where := "last-finalized-block"
				if i < last {
					where = "older-finalized-block"
				}
				c.Violation("crash.replay.accepted.after-restart."+where, map[string]interface{}{
					"threshold": th, "blocks_finalized_before_crash": last + 1, "hung_flush_of_block": victim + 1,
					"commits_that_returned_while_flush_pending": returnedDuringHang,
					"tx": wTx{ID: fmt.Sprintf("%x", x.id[:6]), TS: x.ts}, "tx_block_height": chain[i].height, "tx_block_ts": chain[i].bts,
					"next_block_ts": nbts, "window": fmt.Sprintf("(%d, %d]", nbts-th, nbts+th), "has": has, "has_err": fmt.Sprint(herr), "add_accepted": aerr == nil,
				})
				return
			}
		}
	}
	c.NonTrivial(fmt.Sprintf("crash|n=%d|victim=%d|last=%d|th=%d", n, victim, last, th))
}
