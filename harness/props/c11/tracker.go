package c11

import (
	"fmt"
	"math/rand"
	"sync/atomic"

	"github.com/icon-project/goloop/common/crypto"
	"github.com/icon-project/goloop/common/db"
	"github.com/icon-project/goloop/common/errors"
	"github.com/icon-project/goloop/common/log"
	"github.com/icon-project/goloop/common/txlocator"
	"github.com/icon-project/goloop/module"
	"github.com/icon-project/goloop/service"

	"verif/lib/ev"
)

// countingDB counts lookups in the locator bucket (the "finalized and no
// longer cached" path of manager.Has).
type countingDB struct {
	db.Database
	gets int64
}

type countingBucket struct {
	db.Bucket
	d *countingDB
}

func (d *countingDB) GetBucket(id db.BucketID) (db.Bucket, error) {
	b, err := d.Database.GetBucket(id)
	if err != nil || id != db.TransactionLocatorByHash {
		return b, err
	}
	return &countingBucket{b, d}, nil
}

func (b *countingBucket) Get(key []byte) ([]byte, error) {
	atomic.AddInt64(&b.d.gets, 1)
	return b.Bucket.Get(key)
}

type trackerBackend struct {
	c     *ev.Ctx
	group module.TransactionGroup
	cdb   *countingDB
	lm    module.LocatorManager
	salt  int64
}

func newTrackerBackend(c *ev.Ctx, r *rand.Rand, group module.TransactionGroup) (*trackerBackend, error) {
	logger := log.New()
	logger.SetLevel(log.FatalLevel)
	cdb := &countingDB{Database: db.NewMapDB()}
	lm, err := txlocator.NewManager(cdb, logger)
	if err != nil {
		return nil, err
	}
	lm.Start()
	return &trackerBackend{c: c, group: group, cdb: cdb, lm: lm, salt: r.Int63()}, nil
}

func (b *trackerBackend) level() string { return "tracker" }

func (b *trackerBackend) newTx(r *rand.Rand, ts int64, serial int) *mtx {
	id := crypto.SHA3Sum256([]byte(fmt.Sprintf("verif c11 %d %d", b.salt, serial)))
	return &mtx{id: id, ts: ts, g: b.group, serial: serial}
}

func (b *trackerBackend) extraTxs(s *scen, parent *node, bts, th, thNext int64) []*mtx { return nil }

func (b *trackerBackend) rootTracker(th int64) module.LocatorTracker {
	// as newInitTransition does: tim.NewLogger(group, 0, 0) with the checker's threshold
	return b.lm.NewTracker(b.group, 0, 0, th)
}

// try composes the two mechanisms as transition.doExecute does for a block
// that is not validated yet: record the ids (Add with force=false), then
// check every timestamp against the window of the block.
func (b *trackerBackend) try(parent *node, height, bts, th, thNext int64, txs []*mtx) (bool, string, string, interface{}) {
	pt := parent.real().(module.LocatorTracker)
	tr := pt.New(height, bts, th)
	before := atomic.LoadInt64(&b.cdb.gets)
	_, err := tr.Add(&mlist{txs: txs}, false)
	if n := atomic.LoadInt64(&b.cdb.gets) - before; n > 0 {
		b.c.Count("tracker_db_lookups", int(n))
	}
	if err != nil {
		cls := "add-error"
		if errors.IllegalArgumentError.Equals(err) {
			cls = "duplicate"
		}
		return false, cls, err.Error(), nil
	}
	for _, tx := range txs {
		if err := service.CheckTxTimestamp(bts-th, bts+th, tx); err != nil {
			cls := "timestamp-error"
			if service.ExpiredTransactionError.Equals(err) {
				cls = "expired"
			} else if service.FutureTransactionError.Equals(err) {
				cls = "future"
			}
			return false, cls, err.Error(), nil
		}
	}
	return true, "", "", tr
}

func (b *trackerBackend) commit(n *node) error {
	tr := n.real().(module.LocatorTracker)
	l0, _, m0 := txlocator.VerifCacheInfo(b.lm, b.group)
	if err := tr.Commit(); err != nil {
		return err
	}
	// the normal group flushes asynchronously; wait so that what follows is
	// a function of the history only
	txlocator.VerifWaitFlush(b.lm)
	l1, _, m1 := txlocator.VerifCacheInfo(b.lm, b.group)
	if m1 != m0 {
		b.c.Count("tracker_cache_evictions_seen", 1)
	}
	_ = l0
	_ = l1
	return nil
}

func (b *trackerBackend) cacheLabel(x *mtx) string {
	_, _, m := txlocator.VerifCacheInfo(b.lm, b.group)
	if txlocator.VerifCached(b.lm, x.id) {
		return "cached"
	}
	if m != 0 && x.ts == m {
		return "evicted-ts-eq-maxTSInDB"
	}
	return "evicted"
}

func (b *trackerBackend) close() {
	b.lm.Term()
}

// trackerCase builds one random block tree against a fresh manager.
func trackerCase(c *ev.Ctx, r *rand.Rand) {
	group := module.TransactionGroupNormal
	if r.Intn(4) == 0 {
		group = module.TransactionGroupPatch
	}
	be, err := newTrackerBackend(c, r, group)
	if err != nil {
		c.Violation("tracker.setup", err.Error())
		return
	}
	defer be.close()
	th0 := int64(1 + r.Intn(6))
	s := &scen{c: c, r: r, be: be, K: 1, varying: r.Intn(100) < 45, th0: th0}
	root := &node{height: 0, bts: 0, th: th0, ids: map[string]*mtx{}, finalized: false}
	root.impl = &nodeImpl{real: be.rootTracker(th0), thNext: th0}
	// the first real block is far from time zero
	first := &node{parent: root, height: 1, bts: 1000 + int64(r.Intn(1000)), th: th0, ids: map[string]*mtx{}}
	ok, _, et, impl := be.try(root, 1, first.bts, th0, th0, nil)
	if !ok {
		c.Violation("tracker.valid.rejected.empty-first-block", et)
		return
	}
	first.impl = &nodeImpl{real: impl, thNext: th0}
	root.children = []*node{first}
	s.nodes = []*node{root, first}
	s.root = root
	c.Note("tracker-case group=%d varying=%v th0=%d", group, s.varying, th0)
	s.run(12 + r.Intn(28))
	if s.varying {
		c.Count("tracker_trees_varying_threshold", 1)
	} else {
		c.Count("tracker_trees_constant_threshold", 1)
	}
}
