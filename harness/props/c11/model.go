package c11

import (
	"fmt"
	"sort"
	"strings"

	"github.com/icon-project/goloop/module"
	"github.com/icon-project/goloop/service/transaction"
)

// mtx is a transaction of the model: an id and a timestamp. It also is the
// object handed to the real tracker (tracker level): the embedded interface
// stays nil, only ID/Timestamp/Group/Hash are used by the code under test.
type mtx struct {
	transaction.Transaction
	id     []byte
	ts     int64
	g      module.TransactionGroup
	serial int
	real   module.Transaction // service level: the signed v3 transaction
	ctl    bool               // service level: governance call that changes the threshold (never re-used on other branches)
}

func (t *mtx) ID() []byte                     { return t.id }
func (t *mtx) Hash() []byte                   { return t.id }
func (t *mtx) Timestamp() int64               { return t.ts }
func (t *mtx) Group() module.TransactionGroup { return t.g }
func (t *mtx) Bytes() []byte                  { return t.id }

// mlist is the transaction list handed to LocatorTracker.Add.
type mlist struct {
	module.TransactionList
	txs []*mtx
}

type mlistIter struct {
	l   *mlist
	idx int
}

func (l *mlist) Iterator() module.TransactionIterator { return &mlistIter{l: l} }
func (i *mlistIter) Has() bool                        { return i.idx < len(i.l.txs) }
func (i *mlistIter) Next() error                      { i.idx++; return nil }
func (i *mlistIter) Get() (module.Transaction, int, error) {
	return i.l.txs[i.idx], i.idx, nil
}

// node is one accepted block of the model's block tree.
type node struct {
	parent    *node
	height    int64
	bts, th   int64
	txs       []*mtx
	ids       map[string]*mtx
	finalized bool
	dead      bool
	children  []*node
	impl      interface{} // the real object: LocatorTracker or service block
}

func (n *node) max() int64 { return n.bts + n.th }
func (n *node) min() int64 { return n.bts - n.th }

func (n *node) isAncestorOf(m *node) bool {
	for p := m; p != nil; p = p.parent {
		if p == n {
			return true
		}
	}
	return false
}

// findOnChain returns the nearest ancestor-or-self of n that contains id.
func (n *node) findOnChain(id []byte) (*node, *mtx, int) {
	d := 1
	for p := n; p != nil; p = p.parent {
		if x, ok := p.ids[string(id)]; ok {
			return p, x, d
		}
		d++
	}
	return nil, nil, 0
}

// inWindow is the window predicate of the property statement:
// (block time - threshold, block time + threshold].
func inWindow(ts, bts, th int64) bool {
	return ts > bts-th && ts <= bts+th
}

// verdict of the model on a candidate.
type reason struct {
	Kind   string `json:"kind"` // dup-same-block | dup-ancestor | expired | future
	Tx     int    `json:"tx"`   // index in the candidate
	Detail string `json:"detail,omitempty"`
}

// judge applies the property statement to a candidate block on parent p.
func judge(p *node, bts, th int64, txs []*mtx) []reason {
	var rs []reason
	seen := map[string]bool{}
	for i, tx := range txs {
		if seen[string(tx.id)] {
			rs = append(rs, reason{Kind: "dup-same-block", Tx: i})
		} else if a, _, d := p.findOnChain(tx.id); a != nil {
			rs = append(rs, reason{Kind: "dup-ancestor", Tx: i, Detail: fmt.Sprintf("distance=%d finalized=%v", d, a.finalized)})
		}
		seen[string(tx.id)] = true
		if tx.ts <= bts-th {
			rs = append(rs, reason{Kind: "expired", Tx: i})
		} else if tx.ts > bts+th {
			rs = append(rs, reason{Kind: "future", Tx: i})
		}
	}
	return rs
}

// edgeClass names the position of ts relative to the window of (bts, th).
func edgeClass(ts, bts, th int64) string {
	switch ts {
	case bts - th - 1:
		return "min-1"
	case bts - th:
		return "eq-min"
	case bts - th + 1:
		return "min+1"
	case bts + th - 1:
		return "max-1"
	case bts + th:
		return "eq-max"
	case bts + th + 1:
		return "max+1"
	}
	if ts < bts-th {
		return "below"
	}
	if ts > bts+th {
		return "above"
	}
	return "inside"
}

// dupClass describes where a planted duplicate sits relative to the candidate:
// placement and the relation of its timestamp to the windows on the way.
func dupClass(p *node, x *mtx) (placement, tsClass string) {
	a, _, d := p.findOnChain(x.id)
	if a == nil {
		return "none", ""
	}
	if a.finalized {
		placement = "finalized"
	} else if d == 1 {
		placement = "unfinalized-parent"
	} else {
		placement = "unfinalized-deeper"
	}
	tsClass = "inside-origin-window"
	if x.ts == a.max() {
		tsClass = "ts-eq-origin-max"
	}
	// intermediate unfinalized blocks between the candidate and the origin
	for m := p; m != nil && m != a; m = m.parent {
		if m.finalized {
			break
		}
		if x.ts > m.max() {
			tsClass = "ts-gt-intermediate-max"
			break
		} else if x.ts == m.max() && tsClass != "ts-eq-origin-max" {
			tsClass = "ts-eq-intermediate-max"
		}
	}
	return
}

// describe renders the chain below p and the candidate relative to the
// candidate's block time; used as canonical encoding of a situation.
func describe(p *node, bts, th int64, txs []*mtx, depth int) string {
	var sb strings.Builder
	fmt.Fprintf(&sb, "th=%d;", th)
	for i, tx := range txs {
		a, _, d := p.findOnChain(tx.id)
		o := 0
		if a != nil {
			o = d
			if a.finalized {
				o = -d
			}
		}
		first := -1
		for j := 0; j < i; j++ {
			if string(txs[j].id) == string(tx.id) {
				first = j
				break
			}
		}
		fmt.Fprintf(&sb, "t%d,%d,%d;", tx.ts-bts, o, first)
	}
	k := 0
	for a := p; a != nil && k < depth; a = a.parent {
		f := 0
		if a.finalized {
			f = 1
		}
		fmt.Fprintf(&sb, "a%d,%d,%d;", a.bts-bts, a.th, f)
		k++
	}
	return sb.String()
}

// witness structures (JSON)
type wTx struct {
	ID string `json:"id"`
	TS int64  `json:"ts"`
}
type wBlock struct {
	Height    int64 `json:"height"`
	BTS       int64 `json:"block_ts"`
	TH        int64 `json:"threshold"`
	Finalized bool  `json:"finalized"`
	Txs       []wTx `json:"txs"`
}

func wTxs(txs []*mtx) []wTx {
	r := make([]wTx, len(txs))
	for i, t := range txs {
		r[i] = wTx{ID: fmt.Sprintf("%x", t.id[:6]), TS: t.ts}
	}
	return r
}

func wChain(p *node, limit int) []wBlock {
	var r []wBlock
	for a := p; a != nil && len(r) < limit; a = a.parent {
		r = append(r, wBlock{Height: a.height, BTS: a.bts, TH: a.th, Finalized: a.finalized, Txs: wTxs(a.txs)})
	}
	return r
}

func sortedKeys(m map[string]int) []string {
	ks := make([]string, 0, len(m))
	for k := range m {
		ks = append(ks, k)
	}
	sort.Strings(ks)
	return ks
}
