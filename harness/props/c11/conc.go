package c11

import (
	"fmt"
	"math/rand"
	"runtime"
	"sync"
	"sync/atomic"
	"time"

	"github.com/icon-project/goloop/common/crypto"
	"github.com/icon-project/goloop/common/db"
	"github.com/icon-project/goloop/common/log"
	"github.com/icon-project/goloop/common/txlocator"
	"github.com/icon-project/goloop/module"

	"verif/lib/ev"
)

// concCase: one committer goroutine extends and finalizes a chain while query
// goroutines ask the manager and the current tip tracker about ids.
// Oracle (grow-only set): once Commit returned for the block holding id, every
// later query with the transaction's own timestamp answers "present" as long
// as that timestamp can still be inside the window of a next block (constant
// threshold: ts > time of the newest block whose commit had started when the
// query returned - th); an id that was never added is never reported present.
func concCase(c *ev.Ctx, r *rand.Rand) {
	logger := log.New()
	logger.SetLevel(log.FatalLevel)
	lm, err := txlocator.NewManager(db.NewMapDB(), logger)
	if err != nil {
		c.Violation("conc.setup", err.Error())
		return
	}
	lm.Start()
	defer lm.Term()
	group := module.TransactionGroupNormal
	th := int64(2 + r.Intn(5))
	nBlocks := 40 + r.Intn(60)
	salt := r.Int63()
	c.Note("conc-case th=%d blocks=%d", th, nBlocks)

	type ctx struct {
		id []byte
		ts int64
	}
	// plan the whole chain up front (PRNG only), execute concurrently
	type blk struct {
		bts int64
		txs []*mtx
	}
	var plan []blk
	bts := int64(1000)
	serial := 0
	for i := 0; i < nBlocks; i++ {
		bts += int64(1 + r.Intn(3))
		n := r.Intn(5)
		b := blk{bts: bts}
		for k := 0; k < n; k++ {
			serial++
			var ts int64
			switch r.Intn(4) {
			case 0:
				ts = bts + th
			case 1:
				ts = bts - th + 1
			default:
				ts = bts - th + 1 + r.Int63n(2*th)
			}
			b.txs = append(b.txs, &mtx{id: crypto.SHA3Sum256([]byte(fmt.Sprintf("conc %d %d", salt, serial))), ts: ts, g: group, serial: serial})
		}
		plan = append(plan, b)
	}
	total := serial
	all := make([]*mtx, 0, total)
	for _, b := range plan {
		all = append(all, b.txs...)
	}
	var committed int64 // number of transactions (prefix of all) whose Commit returned
	var started int64   // block time of the newest block whose processing started
	var tip atomic.Value
	var done int32
	nQ := 4 + r.Intn(5)
	qseeds := make([]int64, nQ)
	for i := range qseeds {
		qseeds[i] = r.Int63()
	}
	sleeps := make([]int, nBlocks)
	for i := range sleeps {
		if r.Intn(3) == 0 {
			sleeps[i] = r.Intn(100)
		}
	}

	var wg sync.WaitGroup
	var qTrue, qNeg, qJudged, qTip int64
	for q := 0; q < nQ; q++ {
		wg.Add(1)
		go func(seed int64) {
			defer wg.Done()
			qr := rand.New(rand.NewSource(seed))
			for atomic.LoadInt32(&done) == 0 && !c.Stopped() {
				n := atomic.LoadInt64(&committed)
				switch {
				case qr.Intn(5) == 0:
					// never added
					id := crypto.SHA3Sum256([]byte(fmt.Sprintf("never %d %d", seed, qr.Int63())))
					has, err := lm.Has(group, id, atomic.LoadInt64(&started)+qr.Int63n(2*th)-th)
					atomic.AddInt64(&qNeg, 1)
					if err != nil || has {
						c.Violation("conc.has.true-for-unknown-id", map[string]interface{}{"id": fmt.Sprintf("%x", id), "err": fmt.Sprint(err)})
						return
					}
				case n > 0:
					x := all[qr.Int63n(n)]
					var has bool
					var err error
					viaTip := false
					if t, ok := tip.Load().(module.LocatorTracker); ok && qr.Intn(2) == 0 {
						viaTip = true
						has, err = t.Has(x.id, x.ts)
					} else {
						has, err = lm.Has(group, x.id, x.ts)
					}
					st := atomic.LoadInt64(&started)
					if viaTip {
						atomic.AddInt64(&qTip, 1)
					}
					if err != nil {
						c.Violation("conc.has.error", err.Error())
						return
					}
					if x.ts > st-th {
						atomic.AddInt64(&qJudged, 1)
						if !has {
							c.Violation("conc.has.false-after-commit", map[string]interface{}{"id": fmt.Sprintf("%x", x.id), "ts": x.ts,
								"threshold": th, "newest_started_block_ts": st, "via_tip_tracker": viaTip, "committed_prefix": n})
							return
						}
					}
					if has {
						atomic.AddInt64(&qTrue, 1)
					}
				default:
				}
				runtime.Gosched()
			}
		}(qseeds[q])
	}

	// committer
	var prev module.LocatorTracker = lm.NewTracker(group, 0, 0, th)
	var pending []module.LocatorTracker
	npending := 0
	for i, b := range plan {
		if c.Stopped() {
			break
		}
		atomic.StoreInt64(&started, b.bts)
		tr := prev.New(int64(i+1), b.bts, th)
		if _, err := tr.Add(&mlist{txs: b.txs}, false); err != nil {
			c.Violation("conc.valid.rejected", map[string]interface{}{"err": err.Error(), "block_ts": b.bts, "txs": wTxs(b.txs)})
			break
		}
		tip.Store(tr)
		pending = append(pending, tr)
		npending += len(b.txs)
		prev = tr
		// finalize with a lag of 0..2 blocks (unfinalized ancestors exist)
		if len(pending) > i%3 {
			if err := tr.Commit(); err != nil {
				c.Violation("conc.commit.error", err.Error())
				break
			}
			atomic.AddInt64(&committed, int64(npending))
			pending = pending[:0]
			npending = 0
		}
		if sleeps[i] > 0 {
			time.Sleep(time.Duration(sleeps[i]) * time.Microsecond)
		} else {
			runtime.Gosched()
		}
	}
	// let the readers see the final state for a moment
	time.Sleep(2 * time.Millisecond)
	atomic.StoreInt32(&done, 1)
	wg.Wait()
	c.Count("conc_runs", 1)
	c.Count("conc_goroutine_runs", nQ+1)
	c.Count("conc_blocks_committed", nBlocks)
	c.Count("conc_queries_after_commit_judged", int(atomic.LoadInt64(&qJudged)))
	c.Count("conc_queries_unknown_id", int(atomic.LoadInt64(&qNeg)))
	c.Count("conc_queries_via_tip_tracker", int(atomic.LoadInt64(&qTip)))
	c.Count("conc_queries_present", int(atomic.LoadInt64(&qTrue)))
	c.Eval(int(atomic.LoadInt64(&qJudged) + atomic.LoadInt64(&qNeg)))
}
