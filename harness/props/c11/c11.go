// Package c11: replay protection (a transaction id is accepted at most once
// per chain) and the timestamp window (block time - th, block time + th].
package c11

import (
	"math/rand"

	"github.com/icon-project/goloop/common/log"

	"verif/lib/ev"
)

func init() {
	ev.Register(&ev.Prop{
		ID:    "C11",
		Level: "exploration",
		Cases: func(t string) int {
			if t == ev.Thorough {
				return 100000
			}
			return 3200
		},
		Batches: func(t string) int {
			if t == ev.Thorough {
				return 32
			}
			return 16
		},
		Rule: "each case = (a) 93%: one random block tree grown against the real code (tracker level: txlocator manager+trackers composed with service.CheckTxTimestamp exactly as transition.doExecute does; service level: service.NewTransition(validated=false) on a real world state, thresholds of 1-6 ms or of 2-5 minutes / the unset default of 5 min at real microsecond timestamps, i.e. above the 1-minute patch-group constant): 12-40 steps of extend/fork/commit with block times strictly increasing, thresholds 1..6 units constant or changing between blocks, transaction timestamps biased to the window edges {bts-th, bts-th+1, bts+th-1, bts+th, bts+th+1}, duplicates planted in the same block / unfinalized parent / deeper unfinalized ancestor / finalized ancestor still cached / finalized ancestor evicted to the DB, transactions of sibling branches re-used (must be accepted). Every ancestor is a block the model accepts. Oracle = per-branch id set + window predicate of the statement; real verdict must equal the model's. (c) 2.5%: crash/restart: a chain finalized block by block (Add, Commit) on a DB wrapper that lets the locator flush of one block hang, further finalizations attempted meanwhile, crash = pending writes dropped, restart as block.Manager does (new manager on the surviving DB, last finalized block re-recorded with force and committed), then every transaction of every finalized block that a next block's window accepts must be known (Has) and refused (Add); (b) 2.5%: concurrency run: one committer goroutine extending/finalizing a 40-100 block chain (finalization lag 0-2 blocks) while 4-8 goroutines query manager.Has / tip tracker.Has under the race detector, grow-only-set oracle (present after Commit returned while the timestamp can still be in a next block's window; unknown ids never present). Non-trivial = distinct candidate (structure relative to its block time, 6 ancestors deep) that contains a replay whose timestamp the candidate's window accepts, or a timestamp exactly on a window edge, or a sibling-branch transaction.",
		MinNonTrivial: func(t string) int {
			if t == ev.Thorough {
				return 200000
			}
			return 10000
		},
		Required: []string{
			"tracker_candidates", "tracker_accepted", "tracker_rejected_duplicate", "tracker_rejected_expired", "tracker_rejected_future",
			"tracker_commits", "tracker_cache_evictions_seen", "tracker_db_lookups",
			"tracker_edge_eq-min", "tracker_edge_min+1", "tracker_edge_eq-max", "tracker_edge_max+1",
			"tracker_replay_in_window_unfinalized-parent", "tracker_replay_in_window_unfinalized-deeper", "tracker_replay_in_window_finalized",
			"tracker_replay_in_window_ts-eq-origin-max", "tracker_replay_in_window_ts-gt-intermediate-max",
			"tracker_replay_in_window_finalized_cached", "tracker_replay_in_window_finalized_evicted", "tracker_replay_in_window_finalized_evicted-ts-eq-maxTSInDB",
			"tracker_sibling_branch_tx_accepted", "tracker_threshold_changed",
			"service_candidates", "service_accepted", "service_rejected_duplicate", "service_rejected_expired", "service_rejected_future",
			"service_commits", "service_edge_eq-min", "service_edge_eq-max", "service_edge_max+1", "service_edge_min+1",
			"service_replay_in_window_unfinalized-parent", "service_replay_in_window_unfinalized-deeper", "service_replay_in_window_finalized",
			"service_replay_in_window_ts-eq-origin-max", "service_threshold_changed", "service_sibling_branch_tx_accepted",
			"service_trees_minute_thresholds", "service_replay_in_window_ts_ge_origin_bts_plus_1min_unfinalized-parent", "service_replay_in_window_ts_ge_origin_bts_plus_1min_finalized",
			"crash_runs", "crash_hung_flush_observed", "crash_commit_waited_for_older_flush", "crash_ids_of_older_blocks_checked",
			"conc_runs", "conc_queries_after_commit_judged", "conc_queries_unknown_id", "conc_queries_via_tip_tracker",
		},
		Assumptions: []string{
			"block timestamps strictly increase along a chain (C07) and every ancestor block is valid",
			"a branch whose sibling was finalized is dead and never extended or queried again",
			"hook txlocator.VerifWaitFlush makes the asynchronous locator flush of the normal group complete before the next step; VerifCacheInfo/VerifCached are used for labels and counters only, never by the oracle",
			"MapDB is the durable store; a crash loses exactly the writes that had not reached it; restart follows block/manager.go (only the last finalized block is re-recorded)",
		},
		Env: func(tier string, batch int) []string {
			// schedule perturbation for the concurrency phase
			return []string{"GOMAXPROCS=" + []string{"16", "4", "2", "8"}[batch%4]}
		},
		TimeoutSec: func(t string) int {
			if t == ev.Thorough {
				return 3600
			}
			return 900
		},
		Run: run,
	})
}

func run(c *ev.Ctx) {
	log.GlobalLogger().SetLevel(log.FatalLevel)
	c.Cases(func(i int, r *rand.Rand) {
		switch k := r.Intn(120); {
		case k < 5:
			serviceCase(c, r)
		case k < 8:
			concCase(c, r)
		case k < 11:
			crashCase(c, r)
		default:
			trackerCase(c, r)
		}
	})
}
