package c11

import (
	"fmt"
	"math/rand"

	"verif/lib/ev"
)

// backend drives the real code for one block tree.
type backend interface {
	level() string
	// newTx makes a fresh transaction with the given timestamp.
	newTx(r *rand.Rand, ts int64, serial int) *mtx
	// try composes the real mechanisms for a candidate block (txs on parent)
	// exactly as service/transition does. thNext is the threshold the block
	// establishes for its children (service level: a governance transaction is
	// added by the backend if it differs from th). On acceptance it returns the
	// real object of the new block and the transactions really included.
	try(parent *node, height, bts, th, thNext int64, txs []*mtx) (accepted bool, errClass, errText string, impl interface{})
	// extra transactions the backend needs in a block on parent (service level:
	// the governance call that sets the threshold for the children)
	extraTxs(s *scen, parent *node, bts, th, thNext int64) []*mtx
	// commit finalizes n and all of its ancestors.
	commit(n *node) error
	// labels for witnesses/counters (may peek into the real cache through hooks)
	cacheLabel(x *mtx) string
	close()
}

type scen struct {
	c        *ev.Ctx
	r        *rand.Rand
	be       backend
	K        int64 // ticks per threshold unit
	varying  bool
	root     *node
	nodes    []*node // all non-dead nodes
	serial   int
	steps    int
	sampled  bool
	walk     bool
	changeAt []int64
	changeTo []int64
	th0      int64
}

// thresholds: constant, a random walk, or piecewise constant with a few
// change points (long low regime then a jump up: lets a block reach back
// behind lists that already left the cache; high then low: ancestors that
// accepted more than their descendants do)
func (s *scen) initSchedule() {
	if !s.varying {
		return
	}
	if s.r.Intn(100) < 35 {
		s.walk = true
		return
	}
	// alternate between a low and a high regime
	low := []int64{1, 1, 2, 2, 3}
	high := []int64{6, 6, 5, 4}
	up := s.th0 <= 3*s.K
	n := 1 + s.r.Intn(4)
	h := int64(1)
	for i := 0; i < n; i++ {
		h += int64(2 + s.r.Intn(7))
		s.changeAt = append(s.changeAt, h)
		v := low[s.r.Intn(len(low))]
		if up {
			v = high[s.r.Intn(len(high))]
		}
		if s.r.Intn(6) == 0 {
			v = int64(1 + s.r.Intn(6))
		}
		s.changeTo = append(s.changeTo, v*s.K)
		up = !up
	}
}

func (s *scen) pickTh(prev int64, height int64) int64 {
	if !s.varying {
		return prev
	}
	if !s.walk {
		for i, h := range s.changeAt {
			if h == height {
				return s.changeTo[i]
			}
		}
		return prev
	}
	switch s.r.Intn(10) {
	case 0, 1, 2, 3:
		return prev
	case 4:
		return 6 * s.K
	case 5:
		return 1 * s.K
	default:
		return int64(1+s.r.Intn(6)) * s.K
	}
}

func (s *scen) pickStep(th int64) int64 {
	K := s.K
	switch s.r.Intn(12) {
	case 0, 1, 2, 3, 4:
		return K/2 + int64(s.r.Intn(int(K/2)+1)) + s.minStep()
	case 5, 6, 7:
		return K + int64(s.r.Intn(int(K)+1))
	case 8, 9:
		return 2*K + int64(s.r.Intn(int(K)+1))
	case 10:
		return th // exactly one threshold later
	default:
		return 2*th + int64(s.r.Intn(int(2*K)+1)) // beyond the whole window
	}
}

func (s *scen) minStep() int64 {
	if s.K == 1 {
		return 1
	}
	return 0
}

// live nodes: not dead and on or below the last finalized node
func (s *scen) liveNodes() []*node {
	var l []*node
	for _, n := range s.nodes {
		if !n.dead {
			l = append(l, n)
		}
	}
	return l
}

func (s *scen) lastFinal() *node {
	var f *node
	for _, n := range s.nodes {
		if n.finalized && (f == nil || n.height > f.height) {
			f = n
		}
	}
	return f
}

// extendable nodes: live nodes that are the last finalized one or unfinalized
func (s *scen) tips() (all []*node, leaves []*node) {
	lf := s.lastFinal()
	for _, n := range s.liveNodes() {
		if n.parent == nil || (n.finalized && n != lf) {
			continue
		}
		all = append(all, n)
		leaf := true
		for _, ch := range n.children {
			if !ch.dead {
				leaf = false
			}
		}
		if leaf {
			leaves = append(leaves, n)
		}
	}
	return
}

func (s *scen) freshTS(bts, th int64) int64 {
	switch s.r.Intn(20) {
	case 0, 1, 2, 3, 4, 5, 6:
		return bts + th // upper edge: accepted, and replayable the longest
	case 7, 8:
		return bts + th - 1
	case 9, 10, 11, 12:
		return bts - th + 1 // lower edge, accepted
	case 13, 14:
		return bts
	default:
		return bts - th + 1 + s.r.Int63n(2*th)
	}
}

func (s *scen) outsideTS(bts, th int64) int64 {
	switch s.r.Intn(8) {
	case 0, 1, 2:
		return bts - th // excluded lower edge
	case 3, 4, 5:
		return bts + th + 1
	case 6:
		return bts - th - 1 - s.r.Int63n(3*th)
	default:
		return bts + th + 2 + s.r.Int63n(3*th)
	}
}

func (s *scen) nextTx(ts int64) *mtx {
	s.serial++
	return s.be.newTx(s.r, ts, s.serial)
}

// ancestorTxs collects transactions of the chain below p grouped by class.
func (s *scen) ancestorTxs(p *node, bts, th int64) map[string][]*mtx {
	g := map[string][]*mtx{}
	for a := p; a != nil; a = a.parent {
		for _, x := range a.txs {
			pl, tc := dupClass(p, x)
			in := "out"
			if inWindow(x.ts, bts, th) {
				in = "in"
			}
			k := pl + "/" + tc + "/" + in
			if a.finalized {
				k += "/" + s.be.cacheLabel(x)
			}
			g[k] = append(g[k], x)
		}
	}
	return g
}

// siblingTxs: transactions that only occur on other branches.
func (s *scen) siblingTxs(p *node, bts, th int64) []*mtx {
	var l []*mtx
	for _, n := range s.nodes {
		if n.isAncestorOf(p) || n.finalized {
			continue
		}
		for _, x := range n.txs {
			if a, _, _ := p.findOnChain(x.id); a == nil && !x.ctl && inWindow(x.ts, bts, th) {
				l = append(l, x)
			}
		}
	}
	return l
}

func (s *scen) run(steps int) {
	s.steps = steps
	s.initSchedule()
	for i := 0; i < steps && !s.c.Stopped(); i++ {
		all, leaves := s.tips()
		if len(all) == 0 {
			return
		}
		unf := 0
		for _, n := range all {
			if !n.finalized {
				unf++
			}
		}
		act := s.r.Intn(100)
		switch {
		case act < 28 && unf > 0:
			s.commitStep(all)
		default:
			var p *node
			if s.r.Intn(100) < 75 && len(leaves) > 0 {
				// prefer deep leaves
				p = leaves[s.r.Intn(len(leaves))]
				for k := 0; k < 2; k++ {
					q := leaves[s.r.Intn(len(leaves))]
					if q.height > p.height {
						p = q
					}
				}
			} else {
				p = all[s.r.Intn(len(all))]
			}
			s.extendStep(p)
		}
	}
}

func (s *scen) commitStep(all []*node) {
	var unf []*node
	for _, n := range all {
		if !n.finalized {
			unf = append(unf, n)
		}
	}
	n := unf[s.r.Intn(len(unf))]
	if s.r.Intn(100) < 50 {
		// usual case: the oldest unfinalized ancestor of n
		for n.parent != nil && n.parent.parent != nil && !n.parent.finalized {
			n = n.parent
		}
	}
	s.c.Note("commit height=%d bts=%d", n.height, n.bts)
	if err := s.be.commit(n); err != nil {
		s.c.Violation(s.be.level()+".commit.error", map[string]interface{}{"err": err.Error(), "chain": wChain(n, 12)})
		return
	}
	s.c.Count(s.be.level()+"_commits", 1)
	// finalized: n and its ancestors; dead: everything that is neither an
	// ancestor nor a descendant of n
	for a := n; a != nil; a = a.parent {
		a.finalized = true
	}
	for _, m := range s.nodes {
		if !m.isAncestorOf(n) && !n.isAncestorOf(m) {
			m.dead = true
		}
	}
}

func (s *scen) extendStep(p *node) {
	c, r, lv := s.c, s.r, s.be.level()
	th := p.impl2thNext()
	bts := p.bts + s.pickStep(th)
	height := p.height + 1
	thNext := s.pickTh(th, height)

	var txs []*mtx
	nFresh := r.Intn(4)
	for i := 0; i < nFresh; i++ {
		txs = append(txs, s.nextTx(s.freshTS(bts, th)))
	}
	planted := map[string]int{}
	// transaction seen on another branch only: must be accepted
	if r.Intn(100) < 25 {
		if sib := s.siblingTxs(p, bts, th); len(sib) > 0 {
			x := sib[r.Intn(len(sib))]
			txs = append(txs, x)
			planted["sibling"]++
		}
	}
	if r.Intn(100) < 50 {
		nbad := 1
		if r.Intn(5) == 0 {
			nbad = 2
		}
		for b := 0; b < nbad; b++ {
			switch k := r.Intn(10); {
			case k < 6:
				g := s.ancestorTxs(p, bts, th)
				if len(g) == 0 {
					txs = append(txs, s.nextTx(s.outsideTS(bts, th)))
					planted["outside"]++
					break
				}
				// prefer duplicates whose timestamp the candidate's window accepts
				var inKeys, outKeys []string
				for k := range g {
					if len(k) >= 3 && containsIn(k) {
						inKeys = append(inKeys, k)
					} else {
						outKeys = append(outKeys, k)
					}
				}
				keys := inKeys
				if len(keys) == 0 || r.Intn(8) == 0 {
					keys = append(keys, outKeys...)
				}
				sortStrings(keys)
				kk := keys[r.Intn(len(keys))]
				// replays of transactions that already left the cache are rare: prefer them
				var ev []string
				for _, k := range keys {
					if containsIn(k) && containsStr(k, "evicted") {
						ev = append(ev, k)
					}
				}
				if len(ev) > 0 && r.Intn(2) == 0 {
					kk = ev[r.Intn(len(ev))]
				}
				x := g[kk][r.Intn(len(g[kk]))]
				txs = append(txs, x)
				planted["dup:"+kk]++
			case k < 7:
				if len(txs) == 0 {
					txs = append(txs, s.nextTx(s.freshTS(bts, th)))
				}
				txs = append(txs, txs[r.Intn(len(txs))])
				planted["dup-same-block"]++
			default:
				txs = append(txs, s.nextTx(s.outsideTS(bts, th)))
				planted["outside"]++
			}
		}
		// shuffle so that the offending transaction is at any position
		r.Shuffle(len(txs), func(i, j int) { txs[i], txs[j] = txs[j], txs[i] })
	}

	txs = append(txs, s.be.extraTxs(s, p, bts, th, thNext)...)
	reasons := judge(p, bts, th, txs)
	want := len(reasons) == 0
	c.Note("%s candidate height=%d bts=%d th=%d txs=%v parent-chain=%v", lv, height, bts, th, wTxs(txs), wChain(p, 8))
	c.Eval(1)

	accepted, errClass, errText, impl := s.be.try(p, height, bts, th, thNext, txs)

	// what the monitor saw
	c.Count(lv+"_candidates", 1)
	if th != p.th && p.parent != nil {
		c.Count(lv+"_threshold_changed", 1)
	}
	for k, v := range planted {
		c.Count(lv+"_planted_"+k, v)
	}
	nontrivial := false
	for _, tx := range txs {
		e := edgeClass(tx.ts, bts, th)
		if e != "inside" && e != "below" && e != "above" {
			c.Count(lv+"_edge_"+e, 1)
			nontrivial = true
		}
		if a, _, _ := p.findOnChain(tx.id); a != nil && inWindow(tx.ts, bts, th) {
			nontrivial = true
			pl, tc := dupClass(p, tx)
			c.Count(lv+"_replay_in_window_"+pl, 1)
			c.Count(lv+"_replay_in_window_"+tc, 1)
			if tx.ts >= a.bts+60000000 {
				// beyond what the 1-minute patch-group constant would allow the origin block to hold
				c.Count(lv+"_replay_in_window_ts_ge_origin_bts_plus_1min_"+pl, 1)
			}
			if a.finalized {
				c.Count(lv+"_replay_in_window_finalized_"+s.be.cacheLabel(tx), 1)
			}
		}
	}
	if planted["sibling"] > 0 && want {
		nontrivial = true
		if accepted {
			c.Count(lv+"_sibling_branch_tx_accepted", 1)
		}
	}
	if nontrivial {
		c.NonTrivial(lv + "|" + describe(p, bts, th, txs, 6))
	}
	if accepted {
		c.Count(lv+"_accepted", 1)
	} else {
		c.Count(lv+"_rejected_"+errClass, 1)
	}
	if !s.sampled && nontrivial && c.WantSample() && r.Intn(4) == 0 {
		s.sampled = true
		c.Sample(map[string]interface{}{"level": lv, "candidate": wBlock{Height: height, BTS: bts, TH: th, Txs: wTxs(txs)},
			"chain": wChain(p, 4), "model_reasons": reasons, "real_accepted": accepted, "real_error": errClass})
	}

	if accepted != want {
		wit := map[string]interface{}{
			"level":         lv,
			"candidate":     wBlock{Height: height, BTS: bts, TH: th, Txs: wTxs(txs)},
			"window":        fmt.Sprintf("(%d, %d]", bts-th, bts+th),
			"chain":         wChain(p, 16),
			"model_accepts": want,
			"model_reasons": reasons,
			"real_accepts":  accepted,
			"real_error":    errText,
		}
		c.Violation(s.violationKey(p, bts, th, txs, reasons, accepted, errClass), wit)
		return
	}
	if !want {
		return
	}
	n := &node{parent: p, height: height, bts: bts, th: th, txs: txs, ids: map[string]*mtx{}, impl: &nodeImpl{real: impl, thNext: thNext}}
	for _, x := range txs {
		n.ids[string(x.id)] = x
	}
	p.children = append(p.children, n)
	s.nodes = append(s.nodes, n)
}

type nodeImpl struct {
	real   interface{}
	thNext int64
}

func (n *node) impl2thNext() int64 { return n.impl.(*nodeImpl).thNext }
func (n *node) real() interface{}  { return n.impl.(*nodeImpl).real }

func containsIn(k string) bool {
	for i := 0; i+3 <= len(k); i++ {
		if k[i:i+3] == "/in" {
			return true
		}
	}
	return false
}

func containsStr(k, sub string) bool {
	for i := 0; i+len(sub) <= len(k); i++ {
		if k[i:i+len(sub)] == sub {
			return true
		}
	}
	return false
}

func sortStrings(s []string) {
	for i := 1; i < len(s); i++ {
		for j := i; j > 0 && s[j] < s[j-1]; j-- {
			s[j], s[j-1] = s[j-1], s[j]
		}
	}
}

// KnownBoundaryKey is the key of the known finding (see KNOWN_FINDINGS.txt).
const KnownBoundaryKey = "tracker.has.boundary-ts-eq-bts-plus-th"

// violationKey: stable and specific to the kind of failure.
func (s *scen) violationKey(p *node, bts, th int64, txs []*mtx, reasons []reason, accepted bool, errClass string) string {
	lv := s.be.level()
	if accepted {
		// the real code accepted a block the statement forbids.
		// Known finding (tracker.Has treats ts == bts+th as outside the block,
		// pinned by goloop's own TestTracker_Basic): ONE key, used only when
		// every reason is a replay from an unfinalized ancestor whose block
		// time + threshold equals the transaction's timestamp.
		isBoundary := func(q reason) bool {
			if q.Kind != "dup-ancestor" {
				return false
			}
			a, x, _ := p.findOnChain(txs[q.Tx].id)
			return a != nil && !a.finalized && x.ts == a.max() && inWindow(x.ts, bts, th)
		}
		allBoundary := true
		rs := reasons[0]
		picked := false
		for _, q := range reasons {
			if !isBoundary(q) {
				allBoundary = false
				if !picked || ((q.Kind == "dup-ancestor" || q.Kind == "dup-same-block") && rs.Kind != "dup-ancestor" && rs.Kind != "dup-same-block") {
					rs = q
					picked = true
				}
			}
		}
		if allBoundary {
			return KnownBoundaryKey
		}
		tx := txs[rs.Tx]
		switch rs.Kind {
		case "dup-same-block":
			return lv + ".replay.accepted.same-block"
		case "dup-ancestor":
			pl, tc := dupClass(p, tx)
			k := lv + ".replay.accepted." + pl + "." + tc
			if pl == "finalized" {
				k += "." + s.be.cacheLabel(tx)
			}
			if !inWindow(tx.ts, bts, th) {
				k += ".and-outside-window"
			}
			return k
		default:
			return lv + ".window.accepted." + rs.Kind + ".ts-" + edgeClass(tx.ts, bts, th)
		}
	}
	// rejected although the statement accepts it
	cls := "inside"
	for _, tx := range txs {
		if e := edgeClass(tx.ts, bts, th); e != "inside" {
			cls = e
		}
	}
	sib := ""
	for _, tx := range txs {
		for _, n := range s.nodes {
			if _, ok := n.ids[string(tx.id)]; ok && !n.isAncestorOf(p) {
				sib = ".tx-on-other-branch"
			}
		}
	}
	return lv + ".valid.rejected." + errClass + ".ts-" + cls + sib
}
