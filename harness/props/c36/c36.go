// Package c36: addresses have one canonical text and byte form.
package c36

import (
	"bytes"
	"encoding/hex"
	"fmt"
	"math/rand"
	"regexp"
	"strings"

	"github.com/icon-project/goloop/common"
	"github.com/icon-project/goloop/common/codec"
	"github.com/icon-project/goloop/server/jsonrpc"

	"verif/lib/ev"
)

// independent statement of "canonical": written here, not taken from the code.
var canonical = regexp.MustCompile(`\A(hx|cx)[0-9a-f]{40}\z`)

type rpcEOA struct {
	A string `validate:"t_addr_eoa"`
}
type rpcScore struct {
	A string `validate:"t_addr_score"`
}
type rpcAny struct {
	A string `validate:"t_addr"`
}

func init() {
	ev.Register(&ev.Prop{
		ID:    "C36",
		Level: "exploration",
		Cases: func(t string) int {
			if t == ev.Thorough {
				return 4000
			}
			return 200
		},
		Batches: func(t string) int {
			if t == ev.Thorough {
				return 16
			}
			return 4
		},
		Rule:          "each case = 1000 random 21-byte addresses (String/SetStringStrict/Bytes/SetBytes/RLP/JSON round trips, every decoder also into receivers that held an account or contract address before) + 1000 candidate strings derived from canonical strings by one mutation class (upper/mixed case, 0x/no prefix, length ±1, whitespace, non-hex, unicode look-alike, wrong prefix, embedded newline) or random; strict parser must accept iff the harness regexp \\A(hx|cx)[0-9a-f]{40}\\z matches; jsonrpc validators must agree. Non-trivial = distinct candidate string that is NOT canonical (reject side) or distinct address (accept side).",
		MinNonTrivial: func(t string) int { return 10000 },
		Required:      []string{"strict_accept", "strict_reject", "setbytes_reject", "rpc_checked", "reused_receiver_checks"},
		Assumptions:   []string{"Go regexp and encoding/hex are the reference for 'canonical'"},
		TimeoutSec: func(t string) int {
			if t == ev.Thorough {
				return 3600
			}
			return 600
		},
		Run: run,
	})
}

func mutate(r *rand.Rand, s string) (string, string) {
	b := []byte(s)
	switch r.Intn(16) {
	case 0:
		return strings.ToUpper(s), "upper-all"
	case 1:
		return s[:2] + strings.ToUpper(s[2:]), "upper-body"
	case 2:
		// one hex letter upper-cased (if any)
		idx := []int{}
		for i := 2; i < len(b); i++ {
			if b[i] >= 'a' && b[i] <= 'f' {
				idx = append(idx, i)
			}
		}
		if len(idx) > 0 {
			i := idx[r.Intn(len(idx))]
			b[i] -= 32
		}
		return string(b), "upper-one"
	case 3:
		return "0x" + s[2:], "0x-prefix"
	case 4:
		return s[2:], "no-prefix"
	case 5:
		return s[:len(s)-1], "short"
	case 6:
		return s + string("0123456789abcdef"[r.Intn(16)]), "long"
	case 7:
		return " " + s, "lead-space"
	case 8:
		return s + []string{" ", "\n", "\t", "\x00", "\r\n"}[r.Intn(5)], "trail-ws"
	case 9:
		i := 2 + r.Intn(40)
		b[i] = "ghxyzGXYZ -_+./:"[r.Intn(16)]
		return string(b), "non-hex"
	case 10:
		// replace two ascii chars by a 2-byte unicode rune keeping byte length 42
		i := 2 + r.Intn(39)
		u := []string{"é", "а", "ß", "с"}[r.Intn(4)]
		return s[:i] + u + s[i+2:], "unicode-same-len"
	case 11:
		p := []string{"Hx", "hX", "HX", "Cx", "cX", "CX", "xh", "xc", "hc", "h", "c", "", "hxhx", "bx", "dx"}[r.Intn(15)]
		return p + s[2:], "bad-prefix"
	case 12:
		i := r.Intn(len(s) + 1)
		return s[:i] + "\n" + s[i:], "newline-inside"
	case 13:
		return s[:2] + s[3:] + "\n", "len42-trailing-newline"
	case 14:
		return s + s, "doubled"
	default:
		// fullwidth digits etc.
		i := 2 + r.Intn(38)
		return s[:i] + "０" + s[i+3:], "fullwidth-same-len"
	}
}

func run(c *ev.Ctx) {
	v := jsonrpc.NewValidator()
	c.Cases(func(ci int, r *rand.Rand) {
		for k := 0; k < 1000 && !c.Stopped(); k++ {
			c.Eval(2)
			var raw [21]byte
			r.Read(raw[:])
			raw[0] = byte(r.Intn(2))
			switch r.Intn(20) {
			case 0:
				for i := 1; i < 21; i++ {
					raw[i] = 0
				}
			case 1:
				for i := 1; i < 21; i++ {
					raw[i] = 0xff
				}
			case 2:
				for i := 1; i < 1+r.Intn(20); i++ {
					raw[i] = 0
				}
			}
			var a common.Address
			if err := a.SetBytes(raw[:]); err != nil {
				c.Violation("setbytes.reject-valid", map[string]string{"bytes": hex.EncodeToString(raw[:]), "err": err.Error()})
				continue
			}
			if !bytes.Equal(a.Bytes(), raw[:]) {
				c.Violation("bytes.roundtrip", map[string]string{"bytes": hex.EncodeToString(raw[:]), "got": hex.EncodeToString(a.Bytes())})
			}
			s := a.String()
			if !canonical.MatchString(s) {
				c.Violation("string.not-canonical", map[string]string{"bytes": hex.EncodeToString(raw[:]), "string": s})
			}
			wantPrefix := "hx"
			if raw[0] == 1 {
				wantPrefix = "cx"
			}
			if s != wantPrefix+hex.EncodeToString(raw[1:]) {
				c.Violation("string.value", map[string]string{"bytes": hex.EncodeToString(raw[:]), "string": s})
			}
			var a2 common.Address
			r.Read(a2[:]) // dirty target
			if err := a2.SetStringStrict(s); err != nil || a2 != a {
				c.Violation("strict.roundtrip", map[string]string{"string": s, "err": fmt.Sprint(err), "got": hex.EncodeToString(a2[:])})
			}
			c.Count("strict_accept", 1)
			// second print is the same single string
			if a2.String() != s {
				c.Violation("string.unstable", map[string]string{"string": s, "second": a2.String()})
			}
			// codec byte form
			if eb, err := codec.BC.MarshalToBytes(&a); err != nil {
				c.Violation("rlp.encode", err.Error())
			} else {
				var a3 common.Address
				if _, err := codec.BC.UnmarshalFromBytes(eb, &a3); err != nil || a3 != a {
					c.Violation("rlp.roundtrip", map[string]string{"bytes": hex.EncodeToString(raw[:]), "err": fmt.Sprint(err)})
				}
			}
			// JSON form
			if jb, err := a.MarshalJSON(); err != nil || string(jb) != `"`+s+`"` {
				c.Violation("json.marshal", map[string]string{"string": s, "json": string(jb)})
			}
			// 20-byte form means EOA, also on a receiver that held another address before
			var a4 common.Address
			if err := a4.SetBytes(raw[1:]); err != nil || a4[0] != 0 || !bytes.Equal(a4[1:], raw[1:]) {
				c.Violation("setbytes.20", hex.EncodeToString(raw[:]))
			}
			// every decoder must give the same address whatever the receiver held before
			for _, prevType := range []byte{0, 1} {
				var d common.Address
				r.Read(d[:])
				d[0] = prevType
				want20 := raw
				want20[0] = 0
				if err := d.SetBytes(raw[1:]); err != nil || d != common.Address(want20) {
					c.Violation("setbytes.20.reused-receiver", map[string]string{"id": hex.EncodeToString(raw[1:]), "receiver_held_type": fmt.Sprint(prevType), "got": hex.EncodeToString(d[:])})
				}
				r.Read(d[:])
				d[0] = prevType
				if err := d.SetBytes(raw[:]); err != nil || d != a {
					c.Violation("setbytes.21.reused-receiver", map[string]string{"bytes": hex.EncodeToString(raw[:]), "got": hex.EncodeToString(d[:])})
				}
				r.Read(d[:])
				d[0] = prevType
				if err := d.SetString(s); err != nil || d != a {
					c.Violation("setstring.reused-receiver", map[string]string{"string": s, "got": hex.EncodeToString(d[:])})
				}
				r.Read(d[:])
				d[0] = prevType
				if eb, err := codec.BC.MarshalToBytes(&a); err == nil {
					if _, err := codec.BC.UnmarshalFromBytes(eb, &d); err != nil || d != a {
						c.Violation("rlp.reused-receiver", map[string]string{"bytes": hex.EncodeToString(raw[:]), "got": hex.EncodeToString(d[:])})
					}
				}
				// the 20-byte form through the codec (as written by older encoders)
				if eb, err := codec.BC.MarshalToBytes(raw[1:]); err == nil {
					r.Read(d[:])
					d[0] = prevType
					if _, err := codec.BC.UnmarshalFromBytes(eb, &d); err != nil || d != common.Address(want20) {
						c.Violation("rlp.20.reused-receiver", map[string]string{"id": hex.EncodeToString(raw[1:]), "got": hex.EncodeToString(d[:])})
					}
				}
				c.Count("reused_receiver_checks", 5)
			}
			c.NonTrivial("A" + s)
			if k == 0 && c.WantSample() {
				c.Sample(map[string]string{"bytes": hex.EncodeToString(raw[:]), "string": s})
			}

			// invalid type byte / lengths must be rejected by SetBytes
			bad := append([]byte(nil), raw[:]...)
			switch r.Intn(3) {
			case 0:
				bad[0] = byte(2 + r.Intn(254))
			case 1:
				bad = append(bad, byte(r.Intn(256)))
			default:
				bad = bad[:r.Intn(20)]
			}
			var a5 common.Address
			if err := a5.SetBytes(bad); err == nil {
				c.Violation("setbytes.accept-invalid", hex.EncodeToString(bad))
			} else {
				c.Count("setbytes_reject", 1)
			}

			// candidate string
			var cand, class string
			if r.Intn(12) == 0 {
				n := r.Intn(50)
				bb := make([]byte, n)
				for i := range bb {
					bb[i] = "hxc0123456789abcdefABCDEF \n"[r.Intn(27)]
				}
				cand, class = string(bb), "random"
			} else {
				cand, class = mutate(r, s)
			}
			wantOK := canonical.MatchString(cand)
			var a6 common.Address
			err := a6.SetStringStrict(cand)
			if (err == nil) != wantOK {
				c.Violation("strict.accepts-noncanonical."+class, map[string]interface{}{"candidate": cand, "class": class, "want_accept": wantOK, "err": fmt.Sprint(err)})
			}
			if err == nil {
				if a6.String() != cand {
					c.Violation("strict.accepted-but-prints-differently", map[string]string{"candidate": cand, "prints": a6.String()})
				}
				c.Count("strict_accept", 1)
			} else {
				c.Count("strict_reject", 1)
				c.Count("reject_"+class, 1)
				c.NonTrivial("S" + cand)
			}
			// jsonrpc validators agree with the strict parser / the regexp
			eoa := v.Validate(&rpcEOA{cand}) == nil
			sc := v.Validate(&rpcScore{cand}) == nil
			anyA := v.Validate(&rpcAny{cand}) == nil
			wantEOA := wantOK && strings.HasPrefix(cand, "hx")
			wantSC := wantOK && strings.HasPrefix(cand, "cx")
			if eoa != wantEOA || sc != wantSC || anyA != wantOK {
				c.Violation("rpc.disagree."+class, map[string]interface{}{"candidate": cand, "eoa": eoa, "score": sc, "any": anyA, "canonical": wantOK})
			}
			// and on the canonical string itself
			if (v.Validate(&rpcEOA{s}) == nil) != (raw[0] == 0) || (v.Validate(&rpcScore{s}) == nil) != (raw[0] == 1) {
				c.Violation("rpc.disagree.canonical", s)
			}
			c.Count("rpc_checked", 2)
			if k == 1 && c.WantSample() {
				c.Sample(map[string]interface{}{"candidate": cand, "class": class, "accepted": err == nil})
			}
		}
	})
}
