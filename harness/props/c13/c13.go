// Package c13: only the sender's key can authorize a transaction.
//
// The real transaction.Verify / crypto.Signature code is driven with valid
// signatures and several hundred signature mutants per key; the oracle is a
// reference recovery done with decred's secp256k1 called directly over an
// independently computed transaction id, and an own address derivation.
package c13

import (
	"bytes"
	"encoding/base64"
	"encoding/hex"
	"encoding/json"
	"fmt"
	"math/big"
	"math/rand"

	"github.com/icon-project/goloop/common"
	"github.com/icon-project/goloop/common/codec"
	"github.com/icon-project/goloop/common/crypto"
	"github.com/icon-project/goloop/common/log"
	"github.com/icon-project/goloop/common/wallet"
	"github.com/icon-project/goloop/service/transaction"

	"verif/lib/ev"
	"verif/lib/sig"
)

func init() {
	ev.Register(&ev.Prop{
		ID:    "C13",
		Level: "exploration",
		Cases: func(t string) int {
			if t == ev.Thorough {
				return 9600
			}
			return 192
		},
		Batches: func(t string) int {
			if t == ev.Thorough {
				return 32
			}
			return 16
		},
		Rule: "each case = one fresh key pair (now and then a boundary scalar), one v3 transaction from that key whose id is computed by the harness's own serializer, signed with decred directly; then ~600 signature variants (every single-bit flip of the 65-byte signature, V in a boundary set, 64-byte and other lengths, r/s = 0 / N / N+1 / 2^256-1, malleated twin with and without V flip, other key, other id, id bit-flip, sender replaced, signer == recipient, sender = contract-typed address cx<body> with the signer's own 20-byte body) each submitted through the JSON path and through the RLP binary path; Verify()==nil must hold iff the reference recovery yields the sender address including its type prefix (a key owns only hx<body>); goloop's RecoverPublicKey must agree with the reference on every variant; plus Sign/Recover/serialize round trips through crypto.Signature, common.Signature and wallet for hashes of 1..32 bytes. Non-trivial = distinct (transaction id, signature bytes) pair that is not the untouched valid signature.",
		MinNonTrivial: func(t string) int {
			if t == ev.Thorough {
				return 3000000
			}
			return 60000
		},
		Required: []string{"verify_accept_expected", "verify_reject_expected", "reject_recovery_fails", "reject_recovers_other", "accept_mutant_still_sender", "roundtrip_sign_recover", "binary_path", "json_path", "parse_rejected", "sender_type_mismatch_checked", "noid_tx_checked", "noid_forged_from_public_key", "noid_json_path", "noid_binary_path", "recover_illegal_hash_checked"},
		Assumptions: []string{
			"decred secp256k1 ecdsa.RecoverCompact/SignCompact called directly is the reference for 'who signed'",
			"golang.org/x/crypto/sha3 is SHA3-256",
			"'forged' means wrong key / wrong message / mutated bytes, not a cryptographic forgery",
			"the transaction id of the simple transactions used here is taken from the harness's own ICON v3 serializer (lib/sig)",
		},
		TimeoutSec: func(t string) int {
			if t == ev.Thorough {
				return 3600
			}
			return 600
		},
		Run: run,
	})
}

// mirror of the stored binary layout with the signature as raw bytes, so
// that signatures of any length can be placed in the binary form.
type v3bin struct {
	Version   common.HexUint16
	From      common.Address
	To        common.Address
	Value     *common.HexInt
	StepLimit common.HexInt
	TimeStamp common.HexInt64
	NID       *common.HexInt64
	Nonce     *common.HexInt
	Signature []byte
	DataType  *string
	Data      []byte
}

type simpleTx struct {
	val       *sig.Val
	id        []byte
	from      [20]byte
	fromSCORE bool // sender written as a contract address (cx…): no key owns one
	bin       v3bin
	toIsSCO   bool
}

func hexBig(v *big.Int) string { return "0x" + v.Text(16) }

func randBig(r *rand.Rand) *big.Int {
	switch r.Intn(4) {
	case 0:
		return big.NewInt(int64(r.Intn(3)))
	case 1:
		return new(big.Int).Lsh(big.NewInt(1), uint(r.Intn(200)))
	default:
		b := make([]byte, 1+r.Intn(20))
		r.Read(b)
		return new(big.Int).SetBytes(b)
	}
}

func mkTx(r *rand.Rand, from [20]byte, to [20]byte, toContract bool) *simpleTx {
	t := &simpleTx{from: from}
	v := sig.Dict()
	v.Set("version", sig.Str("0x3"))
	v.Set("from", sig.Str("hx"+hex.EncodeToString(from[:])))
	pfx := "hx"
	if toContract {
		pfx = "cx"
	}
	v.Set("to", sig.Str(pfx+hex.EncodeToString(to[:])))
	t.bin.Version.Value = 3
	t.bin.From.SetTypeAndID(false, from[:])
	t.bin.To.SetTypeAndID(toContract, to[:])
	step := randBig(r)
	v.Set("stepLimit", sig.Str(hexBig(step)))
	t.bin.StepLimit.Set(step)
	ts := r.Int63()
	v.Set("timestamp", sig.Str(fmt.Sprintf("0x%x", ts)))
	t.bin.TimeStamp.Value = ts
	if r.Intn(4) != 0 {
		val := randBig(r)
		v.Set("value", sig.Str(hexBig(val)))
		t.bin.Value = new(common.HexInt)
		t.bin.Value.Set(val)
	}
	if r.Intn(4) != 0 {
		nid := int64(r.Intn(1 << 20))
		v.Set("nid", sig.Str(fmt.Sprintf("0x%x", nid)))
		t.bin.NID = &common.HexInt64{Value: nid}
	}
	if r.Intn(2) == 0 {
		n := randBig(r)
		v.Set("nonce", sig.Str(hexBig(n)))
		t.bin.Nonce = new(common.HexInt)
		t.bin.Nonce.Set(n)
	}
	t.val = v
	t.id = sig.RefTxID(v)
	return t
}

func (t *simpleTx) jsonWith(sigBytes []byte) []byte {
	v := t.val.Clone()
	v.Set("signature", sig.Str(base64.StdEncoding.EncodeToString(sigBytes)))
	return []byte(sig.Plain(v))
}

func (t *simpleTx) binWith(sigBytes []byte) []byte {
	b := t.bin
	b.Signature = sigBytes
	return codec.MustMarshalToBytes(&b)
}

type variant struct {
	class string
	sig   []byte
}

func put32(dst []byte, v *big.Int) {
	var b [32]byte
	v.FillBytes(b[:])
	copy(dst, b[:])
}

func variants(r *rand.Rand, t *simpleTx, k, other *sig.Key) []variant {
	good := k.SignRSV(t.id)
	out := []variant{{"valid", good}}
	for bit := 0; bit < 520; bit++ {
		m := append([]byte(nil), good...)
		m[bit/8] ^= 1 << (bit % 8)
		cl := "bitflip-r"
		if bit >= 512 {
			cl = "bitflip-v"
		} else if bit >= 256 {
			cl = "bitflip-s"
		}
		out = append(out, variant{cl, m})
	}
	for _, v := range []byte{0, 1, 2, 3, 4, 5, 6, 7, 8, 9, 26, 27, 28, 29, 30, 31, 32, 35, 127, 128, 228, 229, 230, 231, 232, 255} {
		m := append([]byte(nil), good...)
		m[64] = v
		out = append(out, variant{fmt.Sprintf("v=%d", v), m})
	}
	out = append(out, variant{"len64-no-v", append([]byte(nil), good[:64]...)})
	out = append(out, variant{"len0", []byte{}})
	out = append(out, variant{"len1", []byte{good[64]}})
	out = append(out, variant{"len63", append([]byte(nil), good[:63]...)})
	out = append(out, variant{"len66", append(append([]byte(nil), good...), 0)})
	out = append(out, variant{"len66-v-first", append([]byte{good[64]}, good...)})
	out = append(out, variant{"len130", append(append([]byte(nil), good...), good...)})
	// V|R|S order instead of R|S|V
	out = append(out, variant{"vrs-order", append([]byte{good[64]}, good[:64]...)})
	one := big.NewInt(1)
	max := new(big.Int).Sub(new(big.Int).Lsh(one, 256), one)
	for _, e := range []struct {
		n string
		v *big.Int
	}{{"0", big.NewInt(0)}, {"1", one}, {"N-1", new(big.Int).Sub(sig.N, one)}, {"N", sig.N}, {"N+1", new(big.Int).Add(sig.N, one)}, {"max", max}} {
		for _, v := range []byte{0, 1} {
			m := append([]byte(nil), good...)
			put32(m[0:], e.v)
			m[64] = v
			out = append(out, variant{"r=" + e.n, m})
			m2 := append([]byte(nil), good...)
			put32(m2[32:], e.v)
			m2[64] = v
			out = append(out, variant{"s=" + e.n, m2})
		}
	}
	// r + N (the overflow form of the same x coordinate) with and without the overflow flag
	{
		rr := new(big.Int).SetBytes(good[:32])
		rn := new(big.Int).Add(rr, sig.N)
		if rn.BitLen() <= 256 {
			for _, v := range []byte{good[64], good[64] | 2} {
				m := append([]byte(nil), good...)
				put32(m[0:], rn)
				m[64] = v
				out = append(out, variant{"r+N", m})
			}
		}
		m := append([]byte(nil), good...)
		m[64] |= 2
		out = append(out, variant{"overflow-flag", m})
	}
	// malleated twin: (r, N-s): with flipped V it is still the sender's signature
	{
		s := new(big.Int).SetBytes(good[32:64])
		ns := new(big.Int).Sub(sig.N, s)
		m := append([]byte(nil), good...)
		put32(m[32:], ns)
		out = append(out, variant{"twin-same-v", m})
		m2 := append([]byte(nil), m...)
		m2[64] ^= 1
		out = append(out, variant{"twin-flipped-v", m2})
	}
	out = append(out, variant{"other-key", other.SignRSV(t.id)})
	// the sender's key over another message
	id2 := append([]byte(nil), t.id...)
	id2[r.Intn(32)] ^= 1 << uint(r.Intn(8))
	out = append(out, variant{"other-id-bitflip", k.SignRSV(id2)})
	out = append(out, variant{"other-id-phrase-hash", k.SignRSV(sig.Sha3(t.id))})
	out = append(out, variant{"other-id-random", k.SignRSV(randBytes(r, 32))})
	out = append(out, variant{"short-hash", k.SignRSV(t.id[:31])})
	out = append(out, variant{"zeros", make([]byte, 65)})
	out = append(out, variant{"ones", bytes.Repeat([]byte{0xff}, 65)})
	out = append(out, variant{"random", randBytes(r, 65)})
	rnd := randBytes(r, 65)
	rnd[64] = byte(r.Intn(2))
	rnd[0] &= 0x7f
	rnd[32] &= 0x7f
	out = append(out, variant{"random-plausible", rnd})
	return out
}

func randBytes(r *rand.Rand, n int) []byte {
	b := make([]byte, n)
	r.Read(b)
	return b
}

type pathFn struct {
	name  string
	build func(t *simpleTx, s []byte) []byte
	parse func(b []byte) (transaction.Transaction, error)
}

var paths = []pathFn{
	{"json", (*simpleTx).jsonWith, transaction.NewTransactionFromJSON},
	{"binary", (*simpleTx).binWith, transaction.NewTransaction},
}

func run(c *ev.Ctx) {
	log.GlobalLogger().SetLevel(log.FatalLevel)
	c.Cases(func(ci int, r *rand.Rand) {
		k := sig.NewKey(r)
		other := sig.NewKey(r)
		for other.Addr == k.Addr {
			other = sig.NewKey(r)
		}
		third := sig.NewKey(r)
		c.Note("key=%x other=%x", k.PrivBytes(), other.PrivBytes())

		// own address derivation against goloop's
		if pk, err := crypto.ParsePublicKey(k.Priv.PubKey().SerializeCompressed()); err != nil {
			c.Violation("pubkey.parse-rejects-valid", map[string]string{"priv": hex.EncodeToString(k.PrivBytes()), "err": err.Error()})
		} else if a := common.NewAccountAddressFromPublicKey(pk); !bytes.Equal(a.ID(), k.Addr[:]) || a.IsContract() {
			c.Violation("address.derivation-differs", map[string]string{"priv": hex.EncodeToString(k.PrivBytes()), "goloop": a.String(), "reference": k.HxString()})
		}

		// transactions: (a) from k to third; (b) from other to k (signer == recipient must not authorize)
		txA := mkTx(r, k.Addr, third.Addr, r.Intn(3) == 0)
		txB := mkTx(r, other.Addr, k.Addr, false)
		checkVariants(c, r, ci, txA, k, other, "")
		// (b): every signature here is by k, who is the recipient, never the sender
		for _, p := range paths {
			s := k.SignRSV(txB.id)
			evalOne(c, p, txB, variant{"signer-is-recipient", s}, other)
		}
		// (c) the sender field replaced after signing: the id changes and the old signature must die
		txC := *txA
		txC.val = txA.val.Clone()
		txC.val.Set("from", sig.Str(other.HxString()))
		txC.from = other.Addr
		txC.bin.From.SetTypeAndID(false, other.Addr[:])
		txC.id = sig.RefTxID(txC.val)
		for _, p := range paths {
			evalOne(c, p, &txC, variant{"sender-replaced-old-sig", k.SignRSV(txA.id)}, other)
			evalOne(c, p, &txC, variant{"sender-replaced-resigned-by-old-key", k.SignRSV(txC.id)}, other)
			evalOne(c, p, &txC, variant{"valid", other.SignRSV(txC.id)}, other)
		}

		// (d) the sender is the CONTRACT-typed address with the signer's own 20-byte body
		// (cx<body> vs the key's hx<body>): same body, other address; nobody can authorize it
		txD := *txA
		txD.val = txA.val.Clone()
		txD.val.Set("from", sig.Str("cx"+hex.EncodeToString(k.Addr[:])))
		txD.fromSCORE = true
		txD.bin.From.SetTypeAndID(true, k.Addr[:])
		txD.id = sig.RefTxID(txD.val)
		// (e) same, and the recipient is the signer's account address
		txE := *txB
		txE.val = txB.val.Clone()
		txE.val.Set("from", sig.Str("cx"+hex.EncodeToString(k.Addr[:])))
		txE.from = k.Addr
		txE.fromSCORE = true
		txE.bin.From.SetTypeAndID(true, k.Addr[:])
		txE.id = sig.RefTxID(txE.val)
		for _, p := range paths {
			for _, t := range []*simpleTx{&txD, &txE} {
				evalOne(c, p, t, variant{"sender-type-contract-same-body", k.SignRSV(t.id)}, k)
				evalOne(c, p, t, variant{"sender-type-contract-old-sig", k.SignRSV(txA.id)}, k)
				c.Count("sender_type_mismatch_checked", 2)
			}
		}

		noID(c, r, k, other, third)
		illegalHashes(c, r, k)
		roundTrips(c, r, k)
	})
}

func checkVariants(c *ev.Ctx, r *rand.Rand, ci int, t *simpleTx, k, other *sig.Key, tag string) {
	vs := variants(r, t, k, other)
	for i, v := range vs {
		if c.Stopped() {
			return
		}
		refAddr, refOK := sig.RefRecoverRSV(v.sig, t.id)
		for _, p := range paths {
			evalRef(c, p, t, v, k, refAddr, refOK, i%16 == 0)
		}
		recoverDiff(c, t.id, v, refAddr, refOK)
		if i == 0 && c.WantSample() {
			c.Sample(map[string]interface{}{"json": string(t.jsonWith(v.sig)), "id": hex.EncodeToString(t.id), "variants": len(vs)})
		}
	}
}

// evalOne submits one (transaction, signature) through one path and compares
// Verify with the reference.
func evalOne(c *ev.Ctx, p pathFn, t *simpleTx, v variant, signer *sig.Key) {
	refAddr, refOK := sig.RefRecoverRSV(v.sig, t.id)
	evalRef(c, p, t, v, signer, refAddr, refOK, true)
}

func evalRef(c *ev.Ctx, p pathFn, t *simpleTx, v variant, signer *sig.Key, refAddr [20]byte, refOK bool, twice bool) {
	c.Eval(1)
	c.Count(p.name+"_path", 1)
	// an account key only ever owns the account-typed (hx) address with its 20-byte body
	want := refOK && refAddr == t.from && !t.fromSCORE
	wit := func(extra string) map[string]string {
		return map[string]string{
			"path": p.name, "class": v.class, "tx_json": string(t.jsonWith(v.sig)), "tx_id": hex.EncodeToString(t.id),
			"signature_rsv": hex.EncodeToString(v.sig), "sender": map[bool]string{false: "hx", true: "cx"}[t.fromSCORE] + hex.EncodeToString(t.from[:]),
			"reference_recovers": fmt.Sprintf("%v hx%x", refOK, refAddr), "sender_priv": hex.EncodeToString(signer.PrivBytes()), "note": extra,
		}
	}
	if v.class != "valid" {
		c.NonTrivial(string(t.id) + string(v.sig))
	}
	raw := p.build(t, v.sig)
	tx, err := p.parse(raw)
	if err != nil {
		// refusing to even build the transaction is a rejection
		c.Count("parse_rejected", 1)
		if want {
			c.Violation("verify.rejects-senders-signature."+p.name+"."+v.class, wit("parse error: "+err.Error()))
		} else {
			c.Count("verify_reject_expected", 1)
		}
		return
	}
	if !bytes.Equal(tx.ID(), t.id) {
		c.Violation("tx.id-differs-from-reference."+p.name, wit("goloop id "+hex.EncodeToString(tx.ID())))
		return
	}
	if !bytes.Equal(tx.From().ID(), t.from[:]) || tx.From().IsContract() != t.fromSCORE {
		c.Violation("tx.from-differs."+p.name, wit("goloop from "+tx.From().String()))
		return
	}
	verr := tx.Verify()
	got := verr == nil
	switch {
	case len(v.sig) == 64:
		// a V-less signature cannot name its signer; the statement only
		// forbids accepting it when it is not the sender's.
		if got && !sig.RefVerifyRS(v.sig, t.id, signer.Priv.PubKey()) {
			c.Violation("verify.accepts-foreign-signature."+p.name+"."+v.class, wit(""))
		}
		if !got {
			c.Count("verify_reject_expected", 1)
			c.Count("reject_no_v", 1)
		}
	case got && !want:
		c.Violation("verify.accepts-foreign-signature."+p.name+"."+v.class, wit("Verify()==nil"))
	case !got && want:
		c.Violation("verify.rejects-senders-signature."+p.name+"."+v.class, wit("Verify(): "+verr.Error()))
	case want:
		c.Count("verify_accept_expected", 1)
		if v.class != "valid" {
			c.Count("accept_mutant_still_sender", 1)
		}
	default:
		c.Count("verify_reject_expected", 1)
		if refOK {
			c.Count("reject_recovers_other", 1)
		} else {
			c.Count("reject_recovery_fails", 1)
		}
	}
	// second call must give the same verdict (cached hash / lazily parsed state)
	if twice && (tx.Verify() == nil) != got {
		c.Violation("verify.unstable."+p.name, wit("second Verify differs"))
	}
}

// recoverDiff: goloop's ParseSignature+RecoverPublicKey against the reference on the same bytes.
func recoverDiff(c *ev.Ctx, id []byte, v variant, refAddr [20]byte, refOK bool) {
	c.Eval(1)
	s, err := crypto.ParseSignature(v.sig)
	if err != nil {
		if refOK {
			c.Violation("recover.parse-rejects-recoverable."+v.class, map[string]string{"sig": hex.EncodeToString(v.sig), "hash": hex.EncodeToString(id), "err": err.Error()})
		}
		c.Count("recover_parse_error", 1)
		return
	}
	pk, err := s.RecoverPublicKey(id)
	if (err == nil) != refOK {
		c.Violation("recover.disagrees-with-reference."+v.class, map[string]string{"sig": hex.EncodeToString(v.sig), "hash": hex.EncodeToString(id), "goloop_err": fmt.Sprint(err), "reference_ok": fmt.Sprint(refOK)})
		return
	}
	if err != nil {
		c.Count("recover_fail_agreed", 1)
		return
	}
	a := common.NewAccountAddressFromPublicKey(pk)
	if !bytes.Equal(a.ID(), refAddr[:]) {
		c.Violation("recover.other-key-than-reference."+v.class, map[string]string{"sig": hex.EncodeToString(v.sig), "hash": hex.EncodeToString(id), "goloop": a.String(), "reference": "hx" + hex.EncodeToString(refAddr[:])})
	}
	c.Count("recover_ok_agreed", 1)
}

// roundTrips: Sign / recover / serialize round trips through goloop's own API.
func roundTrips(c *ev.Ctx, r *rand.Rand, k *sig.Key) {
	priv, err := crypto.ParsePrivateKey(k.PrivBytes())
	if err != nil {
		c.Violation("privkey.parse", err.Error())
		return
	}
	pub := priv.PublicKey()
	if !bytes.Equal(pub.SerializeUncompressed(), k.Priv.PubKey().SerializeUncompressed()) {
		c.Violation("privkey.pubkey-differs", hex.EncodeToString(k.PrivBytes()))
	}
	w, err := wallet.NewFromPrivateKey(priv)
	if err != nil {
		c.Violation("wallet.new", err.Error())
		return
	}
	if !bytes.Equal(w.Address().ID(), k.Addr[:]) {
		c.Violation("wallet.address-differs", map[string]string{"priv": hex.EncodeToString(k.PrivBytes()), "wallet": w.Address().String(), "reference": k.HxString()})
	}
	for n := 0; n < 12; n++ {
		c.Eval(1)
		hl := 32
		if n >= 8 {
			hl = 1 + r.Intn(32)
		}
		h := randBytes(r, hl)
		switch n {
		case 0:
			h = make([]byte, 32)
			h[31] = 1
		case 1:
			h = bytes.Repeat([]byte{0xff}, 32)
		case 2:
			put32(h, sig.N)
		}
		wit := map[string]string{"priv": hex.EncodeToString(k.PrivBytes()), "hash": hex.EncodeToString(h)}
		s, err := crypto.NewSignature(h, priv)
		if err != nil {
			c.Violation("sign.fails", wit)
			continue
		}
		rsv, err := s.SerializeRSV()
		if err != nil || len(rsv) != 65 {
			c.Violation("sign.serialize-rsv", wit)
			continue
		}
		wit["rsv"] = hex.EncodeToString(rsv)
		if a, ok := sig.RefRecoverRSV(rsv, h); !ok || a != k.Addr {
			c.Violation("sign.reference-does-not-recover-signer", wit)
		}
		pk, err := s.RecoverPublicKey(h)
		if err != nil || !pk.Equal(pub) {
			c.Violation("roundtrip.sign-recover", wit)
		}
		if !s.Verify(h, pub) {
			c.Violation("roundtrip.sign-verify", wit)
		}
		// parse the serialized forms back
		if s2, err := crypto.ParseSignature(rsv); err != nil {
			c.Violation("roundtrip.parse-rsv", wit)
		} else if pk2, err := s2.RecoverPublicKey(h); err != nil || !pk2.Equal(pub) {
			c.Violation("roundtrip.parse-rsv-recover", wit)
		}
		if vrs, err := s.SerializeVRS(); err != nil || len(vrs) != 65 || vrs[0] != rsv[64] || !bytes.Equal(vrs[1:], rsv[:64]) {
			c.Violation("roundtrip.serialize-vrs", wit)
		} else if s3, err := crypto.ParseSignatureVRS(vrs); err != nil {
			c.Violation("roundtrip.parse-vrs", wit)
		} else if pk3, err := s3.RecoverPublicKey(h); err != nil || !pk3.Equal(pub) {
			c.Violation("roundtrip.parse-vrs-recover", wit)
		}
		// RLP and JSON forms of the signature
		if eb, err := codec.BC.MarshalToBytes(s); err != nil {
			c.Violation("roundtrip.rlp-encode", wit)
		} else {
			var s4 crypto.Signature
			if _, err := codec.BC.UnmarshalFromBytes(eb, &s4); err != nil {
				c.Violation("roundtrip.rlp-decode", wit)
			} else if pk4, err := s4.RecoverPublicKey(h); err != nil || !pk4.Equal(pub) {
				c.Violation("roundtrip.rlp-recover", wit)
			}
		}
		cs := common.Signature{Signature: s}
		if jb, err := json.Marshal(cs); err != nil {
			c.Violation("roundtrip.json-encode", wit)
		} else {
			var want string
			want = `"` + base64.StdEncoding.EncodeToString(rsv) + `"`
			if string(jb) != want {
				c.Violation("roundtrip.json-form", wit)
			}
			var cs2 common.Signature
			if err := json.Unmarshal(jb, &cs2); err != nil {
				c.Violation("roundtrip.json-decode", wit)
			} else if pk5, err := cs2.RecoverPublicKey(h); err != nil || !pk5.Equal(pub) {
				c.Violation("roundtrip.json-recover", wit)
			}
		}
		// wallet
		if hl == 32 {
			wb, err := w.Sign(h)
			if err != nil {
				c.Violation("wallet.sign", wit)
			} else if a, ok := sig.RefRecoverRSV(wb, h); !ok || a != k.Addr {
				wit["wallet_sig"] = hex.EncodeToString(wb)
				c.Violation("wallet.sign-reference-does-not-recover", wit)
			}
		}
		// and the other direction: a signature made by the reference is recovered by goloop
		hs := k.SignRSV(h)
		if s6, err := crypto.ParseSignature(hs); err != nil {
			c.Violation("roundtrip.parse-reference-signature", wit)
		} else if pk6, err := s6.RecoverPublicKey(h); err != nil || !pk6.Equal(pub) {
			c.Violation("roundtrip.recover-reference-signature", wit)
		}
		c.Count("roundtrip_sign_recover", 1)
		if hl != 32 {
			c.Count("roundtrip_short_hash", 1)
		}
	}
}

// noID: transactions whose id cannot be computed (the serializer has no form
// for a JSON boolean; Verify does not look into the data of these types).
// Without an id there is nothing a signature could be "over": Verify must fail
// whatever the signature is - in particular for the signature anybody can
// build from the sender's PUBLIC key for the zero message.
func noID(c *ev.Ctx, r *rand.Rand, k, other, third *sig.Key) {
	datas := []string{`{"urgent":true}`, `{"a":false}`, `[true]`, `{"k":{"n":[null,false]}}`, `true`, `{"x":"y","z":[{"w":true}]}`}
	for rep := 0; rep < 3; rep++ {
		data := datas[r.Intn(len(datas))]
		dt := []string{"", "message", "deposit"}[r.Intn(3)]
		t := mkTx(r, k.Addr, third.Addr, false)
		val := t.val.Clone()
		val.Set("data", sig.Num(data)) // rendered verbatim
		t.bin.Data = []byte(data)
		if dt != "" {
			val.Set("dataType", sig.Str(dt))
			d := dt
			t.bin.DataType = &d
		}
		pub := k.Priv.PubKey()
		sigs := []variant{
			{"forged-from-public-key", sig.ForgeForZeroMessage(pub, uint32(2+r.Intn(1000)))},
			{"forged-from-public-key-flipped-v", func() []byte { f := sig.ForgeForZeroMessage(pub, 2); f[64] ^= 1; return f }()},
			{"sender-key-over-zero-hash", k.SignRSV(make([]byte, 32))},
			{"sender-key-over-id-of-tx-without-data", k.SignRSV(t.id)},
			{"sender-key-over-sha3-of-nothing", k.SignRSV(sig.Sha3(nil))},
			{"other-key", other.SignRSV(t.id)},
			{"zeros", make([]byte, 65)},
		}
		for _, v := range sigs {
			for _, path := range []string{"json", "binary"} {
				c.Eval(1)
				var raw []byte
				if path == "json" {
					jv := val.Clone()
					jv.Set("signature", sig.Str(base64.StdEncoding.EncodeToString(v.sig)))
					raw = []byte(sig.Plain(jv))
				} else {
					raw = t.binWith(v.sig)
				}
				wit := map[string]string{"path": path, "class": v.class, "data": data, "dataType": dt, "bytes_hex": hex.EncodeToString(raw), "signature_rsv": hex.EncodeToString(v.sig),
					"sender_priv": hex.EncodeToString(k.PrivBytes()), "sender": k.HxString()}
				if path == "json" {
					wit["tx_json"] = string(raw)
				}
				c.Note("noid %s %s %x", path, v.class, raw)
				// stored forms: raw JSON bytes and RLP bytes both enter through NewTransaction
				tx, err := transaction.NewTransaction(raw)
				if err != nil {
					c.Count("noid_parse_rejected", 1)
					continue
				}
				if len(tx.ID()) != 0 {
					// goloop found an id after all: the premise does not hold, nothing to judge
					c.Count("noid_tx_has_id", 1)
					continue
				}
				c.Count("noid_tx_checked", 1)
				c.Count("noid_"+path+"_path", 1)
				if v.class == "forged-from-public-key" {
					c.Count("noid_forged_from_public_key", 1)
				}
				c.NonTrivial("N" + string(raw))
				if tx.Verify() == nil {
					c.Violation("verify.accepts-transaction-without-id."+path+"."+v.class, wit)
				}
			}
		}
	}
}

// illegalHashes: RecoverPublicKey must refuse hashes that are not 1..32 bytes
// (empty non-nil, nil, over-long), whatever the signature.
func illegalHashes(c *ev.Ctx, r *rand.Rand, k *sig.Key) {
	good := k.SignRSV(make([]byte, 32))
	forged := sig.ForgeForZeroMessage(k.Priv.PubKey(), uint32(2+r.Intn(1000)))
	hashes := []struct {
		name string
		h    []byte
	}{{"empty-non-nil", []byte{}}, {"nil", nil}, {"len33", make([]byte, 33)}, {"len64", randBytes(r, 64)}, {"empty-slice-of-array", make([]byte, 32)[:0]}}
	for _, s := range []variant{{"valid-over-zero-hash", good}, {"forged-from-public-key", forged}} {
		gs, err := crypto.ParseSignature(s.sig)
		if err != nil {
			c.Violation("recover.parse-rejects-65-byte-signature", hex.EncodeToString(s.sig))
			continue
		}
		for _, h := range hashes {
			c.Eval(1)
			c.Count("recover_illegal_hash_checked", 1)
			pk, err := gs.RecoverPublicKey(h.h)
			if err == nil {
				w := map[string]string{"hash_class": h.name, "hash_len": fmt.Sprint(len(h.h)), "signature_rsv": hex.EncodeToString(s.sig), "class": s.class, "victim_priv": hex.EncodeToString(k.PrivBytes())}
				if pk != nil {
					w["recovered"] = common.NewAccountAddressFromPublicKey(pk).String()
				}
				c.Violation("recover.accepts-illegal-hash."+h.name+"."+s.class, w)
			}
			// common.Signature wrapper too
			cs := common.Signature{Signature: gs}
			if _, err := cs.RecoverPublicKey(h.h); err == nil {
				c.Violation("recover.accepts-illegal-hash.wrapper."+h.name, hex.EncodeToString(s.sig))
			}
		}
		// sanity: over the 32-byte zero hash the sender's own signature recovers (legal hash)
	}
}
