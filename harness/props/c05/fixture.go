package c05

// Entry points 2 (BlockManager.Import) and 3 (consensus.ReceiveBlockResult):
// the same generated vote lists reach the real import path (through header /
// body surgery on an honest block) and the real fast-sync path of a running
// consensus instance.

import (
	"bytes"
	"fmt"
	"io"
	"math/rand"
	"runtime/debug"
	"sort"
	"strings"
	"sync"

	"github.com/icon-project/goloop/block"
	"github.com/icon-project/goloop/common/codec"
	"github.com/icon-project/goloop/common/crypto"
	"github.com/icon-project/goloop/common/log"
	"github.com/icon-project/goloop/common/wallet"
	"github.com/icon-project/goloop/consensus"
	"github.com/icon-project/goloop/consensus/fastsync"
	"github.com/icon-project/goloop/module"
	"github.com/icon-project/goloop/test"

	"verif/lib/ev"
	"verif/lib/sig"
)

// quietT is the fixture's test.T: failed assertions of the honest set-up steps
// are collected (they make the case a harness error, not a verdict).
type quietT struct {
	mu   sync.Mutex
	errs []string
}

func (t *quietT) Errorf(format string, args ...interface{}) {
	t.mu.Lock()
	if len(t.errs) < 5 {
		t.errs = append(t.errs, fmt.Sprintf(format, args...))
	}
	t.mu.Unlock()
}
func (t *quietT) Logf(format string, args ...interface{}) {}
func (t *quietT) failed() string {
	t.mu.Lock()
	defer t.mu.Unlock()
	return strings.Join(t.errs, " | ")
}

func genesisFor(vals []*sig.Key) string {
	var a []string
	for _, k := range vals {
		a = append(a, `"`+k.HxString()+`"`)
	}
	return fmt.Sprintf(`{
		"accounts": [
			{"name": "treasury", "address": "hx1000000000000000000000000000000000000000", "balance": "0x0"},
			{"name": "god", "address": "hx0000000000000000000000000000000000000000", "balance": "0x0"}
		],
		"message": "",
		"nid": "0x1",
		"chain": {"validatorList": [ %s ]}
	}`, strings.Join(a, ", "))
}

func walletOf(k *sig.Key) module.Wallet {
	p, err := crypto.ParsePrivateKey(k.PrivBytes())
	if err != nil {
		panic(err)
	}
	w, err := wallet.NewFromPrivateKey(p)
	if err != nil {
		panic(err)
	}
	return w
}

func quiet(n *test.Node) {
	n.Chain.Logger().SetLevel(log.FatalLevel)
}

func median(items []item) int64 {
	ts := make([]int64, len(items))
	for i := range items {
		ts[i] = items[i].ts
	}
	sort.Slice(ts, func(i, j int) bool { return ts[i] < ts[j] })
	l := len(ts)
	if l == 0 {
		return 0
	}
	if l%2 == 1 {
		return ts[l/2]
	}
	return (ts[l/2-1] + ts[l/2]) / 2
}

// world is one two-node chain: validators = harness keys, node P (validator 0)
// produces blocks, node I (not a validator) imports / runs consensus.
type world struct {
	t     *quietT
	f     *test.Fixture
	p, i  *test.Node
	vals  []*sig.Key
	blk1  module.Block
	psid1 *psid
}

func newWorld(vals []*sig.Key) (*world, string) {
	t := &quietT{}
	w := &world{t: t, vals: vals}
	gs := genesisFor(vals)
	w.f = test.NewFixture(t, test.AddDefaultNode(false))
	w.p = w.f.AddNode(test.UseGenesis(gs), test.UseWallet(walletOf(vals[0])))
	w.i = w.f.AddNode(test.UseGenesis(gs))
	quiet(w.p)
	quiet(w.i)
	// height 1 (carries the empty vote list for the genesis block)
	w.p.ProposeFinalizeBlock(consensus.NewEmptyCommitVoteList())
	b1, err := w.p.BM.GetBlockByHeight(1)
	if err != nil {
		return w, "block 1: " + err.Error()
	}
	w.blk1 = b1
	// its part set id, computed the way a proposer does
	psb := consensus.NewPartSetBuffer(consensus.ConfigBlockPartSize)
	if err := b1.MarshalHeader(psb); err != nil {
		return w, err.Error()
	}
	if err := b1.MarshalBody(psb); err != nil {
		return w, err.Error()
	}
	id := psb.PartSet().ID()
	w.psid1 = &psid{uint64(id.Count), append([]byte(nil), id.Hash...)}
	return w, t.failed()
}

func (w *world) close() {
	if w.f != nil {
		w.f.Close()
	}
}

// target1 is what a precommit for block 1 must sign.
func (w *world) target1(round int32) target {
	return target{height: 1, round: round, vtype: 1, bid: w.blk1.ID(), ps: w.psid1}
}

// ---------------------------------------------------------------------------
// entry point 2: import

func runImport(c *ev.Ctx, r *rand.Rand, n, trials int) {
	vals, foreign, index := freshKeys(r, n)
	w, setupErr := newWorld(vals)
	defer w.close()
	if setupErr != "" {
		c.Notef("import set-up failed: %s", setupErr)
		c.Count("import_setup_failed", 1)
		return
	}
	// I follows to height 1
	var b1 bytes.Buffer
	if err := w.blk1.Marshal(&b1); err != nil {
		c.Count("import_setup_failed", 1)
		return
	}
	w.i.ImportFinalizeBlockByReader(&b1)
	// an honest block 2 on P with a full valid list, as the template
	t1 := w.target1(0)
	var honest []item
	base := w.blk1.Timestamp()
	for k, key := range vals {
		ts := base + 10 + int64(k)
		honest = append(honest, item{ts, key.SignRSV(voteHash(t1, ts)), "good"})
	}
	cvs := consensus.NewCommitVoteSetFromBytes(encodeList(t1, honest))
	if cvs == nil {
		c.Count("import_setup_failed", 1)
		return
	}
	w.p.ProposeFinalizeBlock(cvs)
	if e := w.t.failed(); e != "" || w.p.LastBlock.Height() != 2 {
		c.Notef("import set-up: honest block 2 failed: %s", e)
		c.Count("import_setup_failed", 1)
		return
	}
	hf, bf, err := block.FormatFromBlock(w.p.LastBlock)
	if err != nil {
		c.Notef("FormatFromBlock: %v", err)
		c.Count("import_setup_failed", 1)
		return
	}
	for k := 0; k < trials && !c.Stopped(); k++ {
		c.Eval(1)
		t := w.target1(int32(r.Intn(3)))
		g := genList(r, n, vals, foreign, index, t, base+1)
		raw := encodeList(t, g.items)
		h2, b2 := *hf, *bf
		b2.Votes = raw
		h2.VotesHash = crypto.SHA3Sum256(raw)
		h2.Timestamp = median(g.items)
		c.Note("import n=%d list=%x", n, raw)
		wit := func(what string) map[string]interface{} {
			m := g.witness(t, raw, index)
			m["what"] = what
			m["entry"] = "import"
			m["validators_priv"] = privHex(vals)
			return m
		}
		var ierr, icb error
		var got module.BlockCandidate
		func() {
			defer func() {
				if p := recover(); p != nil {
					wm := wit(fmt.Sprint("panic: ", p))
					wm["stack"] = string(debug.Stack())
					key := "import.panics"
					if g.reason == "unrecoverable" {
						key = "import.panics.unrecoverable-signature"
					}
					c.Violation(key, wm)
					ierr = fmt.Errorf("panic")
					c.Count("panicked", 1)
				}
			}()
			got, ierr, icb = importQuiet(w.i.BM, block.NewBlockReaderFromFormat(&h2, &b2))
		}()
		accepted := ierr == nil && icb == nil
		if got != nil {
			got.Dispose()
		}
		switch {
		case accepted && !g.want:
			c.Violation("import.accepts."+g.reason+"."+g.kindKey(), wit("imported a block whose certificate the statement rejects"))
		case !accepted && g.want:
			c.Violation("import.rejects-valid-certificate", wit(fmt.Sprint("import failed: ", ierr, " / ", icb)))
		case g.want:
			c.Count("import_accept_agreed", 1)
		default:
			c.Count("import_reject_agreed", 1)
			c.Count("import_reject_"+g.reason, 1)
		}
		if len(g.kinds) > 0 {
			c.NonTrivial("I" + string(raw) + string(t.bid))
		}
	}
}

type cbRes struct {
	bc  module.BlockCandidate
	err error
}

// importQuiet is test.ImportBlockByReader without the assertion on the callback error.
func importQuiet(bm module.BlockManager, r io.Reader) (module.BlockCandidate, error, error) {
	ch := make(chan cbRes, 1)
	_, err := bm.Import(r, 0, func(bc module.BlockCandidate, err error) { ch <- cbRes{bc, err} })
	if err != nil {
		return nil, err, nil
	}
	res := <-ch
	return res.bc, nil, res.err
}

// ---------------------------------------------------------------------------
// entry point 3: fast sync hands a block + vote list to a running consensus

type blockResult struct {
	blk      module.BlockData
	votes    []byte
	consumed bool
	rejected bool
}

func (b *blockResult) Block() module.BlockData { return b.blk }
func (b *blockResult) Votes() []byte           { return b.votes }
func (b *blockResult) Consume()                { b.consumed = true }
func (b *blockResult) Reject()                 { b.rejected = true }

var _ fastsync.BlockResult = (*blockResult)(nil)

type csInternal interface {
	Start() error
	ReceiveBlockResult(br fastsync.BlockResult)
	OnReceive(sp module.ProtocolInfo, bs []byte, id module.PeerID) (bool, error)
}

type peerID []byte

func (p peerID) Bytes() []byte              { return p }
func (p peerID) Equal(o module.PeerID) bool { return bytes.Equal(p, o.Bytes()) }
func (p peerID) String() string             { return fmt.Sprintf("%x", []byte(p)) }

// runBlockResult: one list per world (processBlock adds the votes to the
// height vote set before it decides, so a consensus instance is used once).
func runBlockResult(c *ev.Ctx, r *rand.Rand, mode int) {
	c.Eval(1)
	n := 1 + r.Intn(5)
	if mode >= 2 {
		n = 3 + r.Intn(4) // floor(2n/3) >= 2: room for two distinct signers below the quorum
	}
	vals, foreign, index := freshKeys(r, n)
	w, setupErr := newWorld(vals)
	defer w.close()
	if setupErr != "" {
		c.Notef("block-result set-up failed: %s", setupErr)
		c.Count("blockresult_setup_failed", 1)
		return
	}
	cs, ok := w.i.CS.(csInternal)
	if !ok {
		c.Notef("consensus of the fixture has no ReceiveBlockResult/OnReceive")
		c.Count("blockresult_setup_failed", 1)
		return
	}
	if err := cs.Start(); err != nil {
		c.Notef("cs.Start: %v", err)
		c.Count("blockresult_setup_failed", 1)
		return
	}
	round := int32(r.Intn(3))
	if mode >= 2 {
		round = 0
	}
	t := w.target1(round)
	base := w.blk1.Timestamp() + 1
	floor := 2 * n / 3
	sign := func(vi int, ts int64, kind string) item {
		return item{ts, vals[vi].SignRSV(voteHash(t, ts)), kind}
	}
	var g *gen
	predelivered := map[int]bool{}
	switch mode {
	case 0: // clean certificate (positive control)
		g = &gen{n: n, floor: floor}
		size := floor + 1 + r.Intn(n-floor)
		for _, vi := range r.Perm(n)[:size] {
			g.items = append(g.items, sign(vi, base+r.Int63n(1<<40), "good"))
		}
		g.judge(index, t)
	case 1:
		g = genList(r, n, vals, foreign, index, t, base)
	case 2: // under-quorum set of distinct signers, padded with re-timestamped duplicates
		g = &gen{n: n, floor: floor}
		d := 2 + r.Intn(floor-1) // 2..floor distinct signers
		signers := r.Perm(n)[:d]
		ts0 := base + r.Int63n(1<<40)
		var first, dups []item
		for _, vi := range signers {
			first = append(first, sign(vi, ts0, "good"))
		}
		pads := floor + 1 - d + r.Intn(2)
		for k := 0; k < pads; k++ {
			dups = append(dups, sign(signers[r.Intn(d)], ts0+1+int64(k), "dup-other-ts"))
		}
		order := r.Intn(4)
		if order >= 2 {
			order = 0 // duplicate last is the order that matters most
		}
		switch order {
		case 0:
			g.items = append(first, dups...)
			c.Count("blockresult_dup_last", 1)
		case 1:
			// each duplicate right after the first vote of the list, then the rest
			g.items = append(append([]item{first[0]}, dups...), first[1:]...)
		}
		if r.Intn(4) == 0 {
			r.Shuffle(len(g.items), func(i, j int) { g.items[i], g.items[j] = g.items[j], g.items[i] })
		}
		g.kinds = []string{"dup-other-ts"}
		g.judge(index, t)
		c.Count("blockresult_underquorum_padded_with_duplicates", 1)
	default: // precommits delivered as votes first, then a list of re-timestamped precommits of the same signers
		g = &gen{n: n, floor: floor}
		u := 2 + r.Intn(floor-1)
		union := r.Perm(n)[:u]
		ts0 := base + r.Int63n(1<<40)
		for _, vi := range union {
			vm := consensus.NewVoteMessage(walletOf(vals[vi]), consensus.VoteTypePrecommit, 1, 0, w.blk1.ID(),
				&consensus.PartSetID{Count: uint16(w.psid1.countWord), Hash: w.psid1.hash}, ts0, nil, nil, 0)
			_, _ = cs.OnReceive(consensus.ProtoVote, codec.MustMarshalToBytes(vm), peerID{1, 2, 3, 4})
			predelivered[vi] = true
		}
		k := 1 + r.Intn(u)
		for _, j := range r.Perm(u)[:k] {
			g.items = append(g.items, sign(union[j], ts0+1+int64(r.Intn(5)), "good"))
		}
		if r.Intn(3) == 0 {
			g.items = append(g.items, sign(union[r.Intn(u)], ts0+10, "dup-other-ts"))
		}
		g.kinds = []string{"predelivered-resigned"}
		g.judge(index, t)
		c.Count("blockresult_predelivered_votes", 1)
	}
	raw := encodeList(t, g.items)
	c.Note("blockresult n=%d validators(priv)=%v list=%x", n, privHex(vals), raw)
	wit := func(what string) map[string]interface{} {
		m := g.witness(t, raw, index)
		m["what"] = what
		m["entry"] = "ReceiveBlockResult"
		m["mode"] = []string{"clean", "general", "underquorum-padded-with-duplicates", "predelivered-votes-then-list"}[mode]
		var pre []int
		for vi := 0; vi < n; vi++ {
			if predelivered[vi] {
				pre = append(pre, vi)
			}
		}
		m["predelivered_validator_indices"] = pre
		m["validators_priv"] = privHex(vals)
		return m
	}
	br := &blockResult{blk: w.blk1, votes: raw}
	panicked := false
	func() {
		defer func() {
			if p := recover(); p != nil {
				panicked = true
				wm := wit(fmt.Sprint("panic: ", p))
				wm["stack"] = string(debug.Stack())
				key := "blockresult.panics"
				if g.reason == "unrecoverable" {
					key = "blockresult.panics.unrecoverable-signature"
				}
				c.Violation(key, wm)
				c.Count("panicked", 1)
			}
		}()
		cs.ReceiveBlockResult(br)
	}()
	if panicked {
		return
	}
	// The fast-sync path tallies through the vote set; the statement's core is
	// decided here: consumed only with > 2/3 distinct valid member precommits,
	// and a clean certificate must be consumed. A quorum with additional bad
	// items may go either way (counted).
	union := 0
	for vi := 0; vi < n; vi++ {
		if g.wantVoted[vi] || predelivered[vi] {
			union++
		}
	}
	quorum := 3*union > 2*n
	switch {
	case br.consumed && !quorum:
		c.Violation("blockresult.consumes-without-quorum."+g.reason+"."+g.kindKey(), wit("Consume() without > 2/3 distinct valid precommits"))
	case !br.consumed && !br.rejected:
		c.Violation("blockresult.neither-consumed-nor-rejected", wit("no verdict"))
	case br.rejected && g.want && len(predelivered) == 0:
		c.Violation("blockresult.rejects-valid-certificate", wit("Reject() on a clean certificate"))
	case br.consumed && g.want:
		c.Count("blockresult_consume_agreed", 1)
	case br.consumed:
		c.Count("blockresult_consumed_quorum_plus_bad_items", 1)
	case quorum:
		c.Count("blockresult_rejected_quorum_plus_bad_items", 1)
		c.Count("blockresult_reject_agreed", 1)
	default:
		c.Count("blockresult_reject_agreed", 1)
	}
	if len(g.kinds) > 0 {
		c.NonTrivial("B" + string(raw) + string(t.bid))
	}
}
