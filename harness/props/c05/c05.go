// Package c05: commit certificates are accepted only with > 2/3 distinct
// valid precommit signatures.
//
// Entry point 1 (this file): the bytes of a commit vote list are built by the
// harness's own RLP encoder, decoded by the real
// consensus.NewCommitVoteSetFromBytes and judged by the real
// CommitVoteList.VerifyBlock against a real validator list. The oracle
// recovers every item's signer with decred directly over the harness's own
// re-serialization of the precommit and applies the statement.
package c05

import (
	"encoding/hex"
	"fmt"
	"math/rand"
	"runtime/debug"

	"github.com/icon-project/goloop/common"
	"github.com/icon-project/goloop/common/db"
	"github.com/icon-project/goloop/common/log"
	"github.com/icon-project/goloop/consensus"
	"github.com/icon-project/goloop/module"
	"github.com/icon-project/goloop/service/state"

	"verif/lib/ev"
	"verif/lib/sig"
)

const listsPerCase = 25

// case index layout: [0,e1) VerifyBlock lists, [e1,e1+im) import worlds, rest ReceiveBlockResult worlds
func layout(tier string) (e1, im, br int) {
	if tier == ev.Thorough {
		return 1600, 240, 800
	}
	return 48, 12, 32
}

const importsPerWorld = 10

func init() {
	ev.Register(&ev.Prop{
		ID:    "C05",
		Level: "exploration",
		Cases: func(t string) int {
			e1, im, br := layout(t)
			return e1 + im + br
		},
		Batches: func(t string) int {
			if t == ev.Thorough {
				return 32
			}
			return 16
		},
		Rule: fmt.Sprintf("vote lists: a validator set of n fresh keys (+3 foreign keys); a subset S of validators signs the exact precommit (|S| biased to floor(2n/3), floor(2n/3)+1, n), then 0..2 items are added or substituted from: duplicated signer (same or other timestamp), non-validator, signature over another block id / round / part-set hash / part-set count word / height / prevote type / timestamp, bit-flipped signature, flipped V, V>=8, r=0, 64-byte, empty and 63-byte signature; list bytes encoded by the harness, decoded by goloop. Entry 1 (n in 1..10, %d lists per case): CommitVoteList.VerifyBlock against a real validator snapshot V; in half of the cases validator states are derived from V (state.ValidatorStateFromSnapshot) and mutated between the verifications (Replace / SetAt towards the outsider keys the lists use, Add, Remove, Set; derived states and their snapshots kept alive, also derived from each other): V keeps its membership in the model, and lists generated for a derived snapshot are judged against that snapshot with its own membership. Entry 2 (n in 1..5, %d imports per two-node chain): an honest height-2 block whose body votes, header votes-hash and timestamp are replaced, through BlockManager.Import of a follower node. Entry 3 (one list per chain, four modes in rotation): consensus.ReceiveBlockResult of a started follower with a custom BlockResult (Consume vs Reject): (a) clean certificate, n in 1..5; (b) the general list generator, n in 1..5; (c) n in 3..6, an UNDER-quorum set of distinct signers padded with re-timestamped valid precommits of signers already present (duplicate last / first / interleaved / shuffled) until the item count exceeds 2n/3; (d) n in 3..6, precommits of an under-quorum set delivered through OnReceive first, then a list of re-timestamped precommits of the same signers. Model: accept iff every item recovers (decred, harness-serialized precommit) to a distinct member and 3*items > 2*n; for entry 3 (which tallies through the vote set) only the core is demanded: Consume needs > 2/3 distinct valid member precommits, a clean certificate must be consumed. Non-trivial = distinct list that has at least one bad item or sits on the threshold boundary.", listsPerCase, importsPerWorld),
		MinNonTrivial: func(t string) int {
			if t == ev.Thorough {
				return 20000
			}
			return 700
		},
		Required: []string{"accept_agreed", "reject_agreed", "reject_too_few", "reject_duplicate", "reject_non_member", "reject_unrecoverable", "boundary_at_floor", "boundary_at_floor_plus_1", "threshold_reached_only_by_duplicate", "decode_rejected", "valid_item_reference_recovers_signer",
			"verifications_after_derived_state_mutation", "derived_state_replace_or_setat", "derived_snapshot_verifications", "foreign_signer_lists_after_mutation", "import_accept_agreed", "import_reject_agreed", "blockresult_consume_agreed", "blockresult_reject_agreed", "blockresult_underquorum_padded_with_duplicates", "blockresult_dup_last", "blockresult_predelivered_votes"},
		Assumptions: []string{
			"decred secp256k1 recovery called directly is the reference for an item's signer",
			"a precommit signs sha3-256 of RLP[height, round, type=1, blockID, [countWord, partSetHash] | null, timestamp] (harness encoder lib/sig/rlp.go; validated by the positive cases of all three entry points)",
			"a signature over other content recovers to an unrelated address, which is a non-member",
			"import (block.verifyProofForLastBlock) calls VerifyBlock; ReceiveBlockResult (consensus.processBlock) does NOT: it converts the list with toVoteList and tallies through the height vote set, so a quorum plus extra bad items may be consumed there; only under-quorum Consume, Reject of a clean certificate, no verdict and panics are violations for entry 3",
			"goloop's test fixture (test.NewFixture/AddNode) is the chain around entries 2 and 3; its set-up failures are counted, not judged",
		},
		TimeoutSec: func(t string) int {
			if t == ev.Thorough {
				return 3000
			}
			return 600
		},
		Run: run,
	})
}

type stubBlock struct {
	module.BlockData
	h    int64
	id   []byte
	prev []byte
}

func (b *stubBlock) Height() int64  { return b.h }
func (b *stubBlock) ID() []byte     { return b.id }
func (b *stubBlock) PrevID() []byte { return b.prev }

type psid struct {
	countWord uint64
	hash      []byte
}

type target struct {
	height int64
	round  int32
	vtype  byte
	bid    []byte
	ps     *psid
}

// voteHash is the harness's own serialization of what a vote signs.
func voteHash(t target, ts int64) []byte {
	ps := sig.RNull
	if t.ps != nil {
		ps = sig.RList(sig.RUint(t.ps.countWord), sig.RBytes(t.ps.hash))
	}
	return sig.Sha3(sig.RList(sig.RInt(t.height), sig.RInt(int64(t.round)), sig.RUint(uint64(t.vtype)), sig.RBytes(t.bid), ps, sig.RInt(ts)))
}

type item struct {
	ts   int64
	sig  []byte
	kind string
}

func randBytes(r *rand.Rand, n int) []byte {
	b := make([]byte, n)
	r.Read(b)
	return b
}

func encodeList(t target, items []item) []byte {
	ps := sig.RNull
	if t.ps != nil {
		ps = sig.RList(sig.RUint(t.ps.countWord), sig.RBytes(t.ps.hash))
	}
	var its [][]byte
	for _, it := range items {
		its = append(its, sig.RList(sig.RInt(it.ts), sig.RBytes(it.sig)))
	}
	return sig.RList(sig.RInt(int64(t.round)), ps, sig.RList(its...))
}

var badKinds = []string{"dup-same-ts", "dup-other-ts", "foreign", "other-block-id", "other-round", "other-psid-hash", "other-psid-countword", "psid-nil-vs-set", "other-height", "prevote", "other-timestamp", "bitflip", "flip-v", "v-ge-8", "r-zero", "len64", "len0", "len63", "random65"}

func mkBad(r *rand.Rand, kind string, t target, vals, foreign []*sig.Key, present []item, presentIdx []int, tsBase int64) item {
	ts := tsBase + 1 + r.Int63n(1<<50)
	signer := vals[r.Intn(len(vals))]
	alt := t
	switch kind {
	case "dup-same-ts", "dup-other-ts":
		var cand []int
		for i := range present {
			if presentIdx[i] >= 0 {
				cand = append(cand, i)
			}
		}
		if len(cand) == 0 {
			return mkBad(r, "foreign", t, vals, foreign, present, presentIdx, tsBase)
		}
		j := cand[r.Intn(len(cand))]
		if kind == "dup-same-ts" {
			return item{present[j].ts, present[j].sig, kind}
		}
		k := vals[presentIdx[j]]
		ts = present[j].ts + 1 + r.Int63n(1000)
		return item{ts, k.SignRSV(voteHash(t, ts)), kind}
	case "foreign":
		k := foreign[r.Intn(len(foreign))]
		return item{ts, k.SignRSV(voteHash(t, ts)), kind}
	case "other-block-id":
		alt.bid = append([]byte(nil), t.bid...)
		alt.bid[r.Intn(len(alt.bid))] ^= 1 << uint(r.Intn(8))
	case "other-round":
		alt.round = t.round + 1
		if r.Intn(2) == 0 && t.round > 0 {
			alt.round = t.round - 1
		}
	case "other-psid-hash":
		if t.ps == nil {
			alt.ps = &psid{1, randBytes(r, 32)}
		} else {
			h := append([]byte(nil), t.ps.hash...)
			h[r.Intn(len(h))] ^= 1
			alt.ps = &psid{t.ps.countWord, h}
		}
	case "other-psid-countword":
		if t.ps == nil {
			alt.ps = &psid{0, nil}
		} else {
			alt.ps = &psid{t.ps.countWord ^ (1 << uint(r.Intn(64))), t.ps.hash}
		}
	case "psid-nil-vs-set":
		if t.ps == nil {
			alt.ps = &psid{1, randBytes(r, 32)}
		} else {
			alt.ps = nil
		}
	case "other-height":
		alt.height = t.height + 1
		if r.Intn(2) == 0 && t.height > 1 {
			alt.height = t.height - 1
		}
	case "prevote":
		alt.vtype = 0
	case "other-timestamp":
		return item{ts, signer.SignRSV(voteHash(t, ts+1)), kind}
	case "bitflip":
		s := signer.SignRSV(voteHash(t, ts))
		s[r.Intn(64)] ^= 1 << uint(r.Intn(8))
		return item{ts, s, kind}
	case "flip-v":
		s := signer.SignRSV(voteHash(t, ts))
		s[64] ^= 1
		return item{ts, s, kind}
	case "v-ge-8":
		s := signer.SignRSV(voteHash(t, ts))
		s[64] = byte(8 + r.Intn(248))
		return item{ts, s, kind}
	case "r-zero":
		s := signer.SignRSV(voteHash(t, ts))
		for i := 0; i < 32; i++ {
			s[i] = 0
		}
		return item{ts, s, kind}
	case "len64":
		return item{ts, signer.SignRSV(voteHash(t, ts))[:64], kind}
	case "len0":
		return item{ts, []byte{}, kind}
	case "len63":
		return item{ts, signer.SignRSV(voteHash(t, ts))[:63], kind}
	case "random65":
		s := randBytes(r, 65)
		s[64] = byte(r.Intn(2))
		return item{ts, s, kind}
	}
	return item{ts, signer.SignRSV(voteHash(alt, ts)), kind}
}

func privHex(vals []*sig.Key) []string {
	var out []string
	for _, k := range vals {
		out = append(out, hex.EncodeToString(k.PrivBytes()))
	}
	return out
}

func freshKeys(r *rand.Rand, n int) (vals, foreign []*sig.Key, index map[[20]byte]int) {
	seen := map[[20]byte]bool{}
	fresh := func() *sig.Key {
		for {
			k := sig.NewKey(r)
			if !seen[k.Addr] {
				seen[k.Addr] = true
				return k
			}
		}
	}
	index = map[[20]byte]int{}
	for i := 0; i < n; i++ {
		k := fresh()
		vals = append(vals, k)
		index[k.Addr] = i
	}
	for i := 0; i < 3; i++ {
		foreign = append(foreign, fresh())
	}
	return
}

// gen is one generated list with the model's verdict.
type gen struct {
	items         []item
	kinds         []string
	want          bool
	reason        string
	wantVoted     []bool
	distinctValid int
	onlyByDup     bool
	floor, n      int
}

func (g *gen) kindKey() string {
	if len(g.kinds) > 0 {
		return g.kinds[0]
	}
	return "none"
}

func (g *gen) witness(t target, raw []byte, index map[[20]byte]int) map[string]interface{} {
	var its []map[string]interface{}
	for _, it := range g.items {
		a, ok := sig.RefRecoverRSV(it.sig, voteHash(t, it.ts))
		vi, member := index[a]
		if !member || !ok {
			vi = -1
		}
		its = append(its, map[string]interface{}{"kind": it.kind, "ts": it.ts, "sig": hex.EncodeToString(it.sig), "ref_recovers": ok, "ref_validator_index": vi})
	}
	return map[string]interface{}{"n": g.n, "height": t.height, "round": t.round, "block_id": hex.EncodeToString(t.bid),
		"psid": fmt.Sprintf("%+v", t.ps), "items": its, "list_rlp": hex.EncodeToString(raw), "model_accepts": g.want, "model_reason": g.reason, "distinct_valid": g.distinctValid}
}

// genList builds one list for the target and judges it by the statement.
// tsBase > 0 keeps all timestamps above it (import needs increasing block time).
func genList(r *rand.Rand, n int, vals, foreign []*sig.Key, index map[[20]byte]int, t target, tsBase int64) *gen {
	g := &gen{n: n, floor: 2 * n / 3}
	newTS := func() int64 { return tsBase + 1 + r.Int63n(1<<50) }
	var size int
	switch r.Intn(8) {
	case 0, 1:
		size = g.floor
	case 2, 3, 4:
		size = g.floor + 1
	case 5:
		size = n
	case 6:
		size = r.Intn(n + 1)
	default:
		size = g.floor - 1
	}
	if size < 0 {
		size = 0
	}
	if size > n {
		size = n
	}
	perm := r.Perm(n)[:size]
	var itemVal []int
	for _, vi := range perm {
		ts := newTS()
		g.items = append(g.items, item{ts, vals[vi].SignRSV(voteHash(t, ts)), "good"})
		itemVal = append(itemVal, vi)
	}
	nbad := 0
	switch r.Intn(5) {
	case 2, 3:
		nbad = 1
	case 4:
		nbad = 2
	}
	for b := 0; b < nbad; b++ {
		kind := badKinds[r.Intn(len(badKinds))]
		goodNow := append([]item(nil), g.items[:len(perm)]...)
		bad := mkBad(r, kind, t, vals, foreign, goodNow, itemVal, tsBase)
		g.kinds = append(g.kinds, bad.kind)
		isDup := bad.kind == "dup-same-ts" || bad.kind == "dup-other-ts"
		if r.Intn(3) == 0 && len(perm) > 0 && b == 0 && !isDup {
			j := r.Intn(len(perm))
			g.items[j] = bad
			itemVal[j] = -1
		} else {
			g.items = append(g.items, bad)
		}
		if isDup && size == g.floor && nbad == 1 {
			g.onlyByDup = true
		}
	}
	if r.Intn(2) == 0 {
		r.Shuffle(len(g.items), func(i, j int) { g.items[i], g.items[j] = g.items[j], g.items[i] })
	}
	g.judge(index, t)
	return g
}

// judge applies the statement to the items of g.
func (g *gen) judge(index map[[20]byte]int, t target) {
	n := g.n
	g.wantVoted = make([]bool, n)
	g.reason, g.distinctValid = "", 0
	for _, it := range g.items {
		a, ok := sig.RefRecoverRSV(it.sig, voteHash(t, it.ts))
		if it.kind == "good" {
			if _, m := index[a]; !ok || !m {
				panic("harness: honest item does not recover")
			}
		}
		if !ok {
			if g.reason == "" {
				g.reason = "unrecoverable"
			}
			continue
		}
		vi, member := index[a]
		if !member {
			if g.reason == "" {
				g.reason = "non_member"
			}
			continue
		}
		if g.wantVoted[vi] {
			if g.reason == "" {
				g.reason = "duplicate"
			}
			continue
		}
		g.wantVoted[vi] = true
		g.distinctValid++
	}
	if g.reason == "" && !(3*len(g.items) > 2*n) {
		g.reason = "too_few"
	}
	g.want = g.reason == ""
}

func run(c *ev.Ctx) {
	log.GlobalLogger().SetLevel(log.FatalLevel)
	e1, im, _ := layout(c.Tier)
	c.Cases(func(ci int, r *rand.Rand) {
		switch {
		case ci < e1:
			runVerifyBlock(c, r)
		case ci < e1+im:
			runImport(c, r, 1+r.Intn(5), importsPerWorld)
		default:
			runBlockResult(c, r, (ci-e1-im)%4)
		}
	})
}

// entry point 1
func runVerifyBlock(c *ev.Ctx, r *rand.Rand) {
	n := 1 + r.Intn(10)
	vals, foreign, index := freshKeys(r, n)
	var mv []module.Validator
	for _, k := range vals {
		v, err := state.ValidatorFromAddress(common.NewAccountAddress(k.Addr[:]))
		if err != nil {
			panic(err)
		}
		mv = append(mv, v)
	}
	vl, err := state.ValidatorSnapshotFromSlice(db.NewMapDB(), mv)
	if err != nil {
		panic(err)
	}
	keyHex := privHex(vals)
	c.Note("validators(priv)=%v", keyHex)
	// In half of the cases states are derived from the snapshot vl and mutated
	// between the verifications (what executing the next block does: validator
	// replacement, term change). The snapshot vl is immutable: the model of its
	// membership (vals) never changes.
	mutating := r.Intn(2) == 0
	var deriveds []*derived // kept alive for the whole case
	mutatedBefore := false
	for li := 0; li < listsPerCase && !c.Stopped(); li++ {
		if mutating && (li == 0 || r.Intn(3) == 0) {
			base, baseKeys := state.ValidatorSnapshot(vl), vals
			if len(deriveds) > 0 && r.Intn(3) == 0 {
				d := deriveds[r.Intn(len(deriveds))]
				base, baseKeys = d.snap, d.keys
			}
			if d := derive(c, r, base, baseKeys, foreign); d != nil {
				deriveds = append(deriveds, d)
				mutatedBefore = true
			}
		}
		var t target
		switch r.Intn(5) {
		case 0:
			t.height = 1
		case 1:
			t.height = int64(1) << uint(r.Intn(62))
		default:
			t.height = 1 + r.Int63n(1<<40)
		}
		t.round = int32(r.Intn(4))
		if r.Intn(6) == 0 {
			t.round = int32(r.Int31())
		}
		t.vtype = 1
		t.bid = randBytes(r, 32)
		if r.Intn(8) != 0 {
			t.ps = &psid{uint64(1 + r.Intn(100)), randBytes(r, 32)}
			if r.Intn(3) == 0 {
				t.ps.countWord |= uint64(r.Intn(5)) << 16 // app data (NTS vote count)
			}
		}
		blk := &stubBlock{h: t.height, id: t.bid, prev: randBytes(r, 32)}
		c.Eval(1)
		g := genList(r, n, vals, foreign, index, t, 0)
		for _, it := range g.items {
			if it.kind == "good" {
				c.Count("valid_item_reference_recovers_signer", 1)
			}
		}
		raw := encodeList(t, g.items)
		c.Note("n=%d height=%d bid=%x list=%x", n, t.height, t.bid, raw)
		wit := func(what string) map[string]interface{} {
			m := g.witness(t, raw, index)
			m["what"] = what
			m["entry"] = "VerifyBlock"
			m["validators_priv"] = keyHex
			if mutatedBefore {
				var hist []string
				for _, d := range deriveds {
					hist = append(hist, d.ops...)
				}
				m["mutations_of_states_derived_from_this_snapshot"] = hist
			}
			return m
		}
		if mutatedBefore {
			c.Count("verifications_after_derived_state_mutation", 1)
			if len(g.kinds) > 0 && g.kinds[0] == "foreign" {
				c.Count("foreign_signer_lists_after_mutation", 1)
			}
		}
		if len(deriveds) > 0 && r.Intn(2) == 0 {
			verifyDerived(c, r, deriveds[r.Intn(len(deriveds))], t, blk)
		}
		cvs := consensus.NewCommitVoteSetFromBytes(raw)
		got := false
		var voted []bool
		var verr error
		if cvs == nil {
			c.Count("decode_rejected", 1)
		} else {
			func() {
				defer func() {
					if p := recover(); p != nil {
						w := wit(fmt.Sprint("panic: ", p))
						w["stack"] = string(debug.Stack())
						key := "verifyblock.panics"
						if g.reason == "unrecoverable" {
							key = "verifyblock.panics.unrecoverable-signature"
						}
						c.Violation(key, w)
						verr = fmt.Errorf("panic: %v", p)
						c.Count("panicked", 1)
					}
				}()
				voted, verr = cvs.VerifyBlock(blk, vl)
			}()
			got = verr == nil
		}
		switch {
		case got && !g.want:
			c.Violation("verifyblock.accepts."+g.reason+"."+g.kindKey()+after(mutatedBefore), wit("accepted a list the statement rejects"))
		case !got && g.want:
			c.Violation("verifyblock.rejects-valid-certificate"+after(mutatedBefore), wit(fmt.Sprint("rejected: ", verr, " decoded=", cvs != nil)))
		case g.want:
			c.Count("accept_agreed", 1)
			if len(voted) != n {
				c.Violation("verifyblock.voted-bitmap-length", wit(fmt.Sprint(voted)))
			} else {
				for i := range voted {
					if voted[i] != g.wantVoted[i] {
						c.Violation("verifyblock.voted-bitmap", wit(fmt.Sprint(voted)))
						break
					}
				}
			}
		default:
			c.Count("reject_agreed", 1)
			c.Count("reject_"+g.reason, 1)
		}
		for _, k := range g.kinds {
			c.Count("bad_"+k, 1)
		}
		boundary := false
		if len(g.items) == g.floor {
			c.Count("boundary_at_floor", 1)
			boundary = true
		}
		if len(g.items) == g.floor+1 {
			c.Count("boundary_at_floor_plus_1", 1)
			boundary = true
		}
		if g.onlyByDup && len(g.items) == g.floor+1 {
			c.Count("threshold_reached_only_by_duplicate", 1)
		}
		if len(g.kinds) > 0 || boundary {
			c.NonTrivial(string(raw) + string(t.bid))
		}
		if li == 0 && c.WantSample() {
			c.Sample(wit("sample"))
		}
	}
}

func after(mutated bool) string {
	if mutated {
		return ".after-derived-state-mutation"
	}
	return ""
}

// derived is a validator state derived from a snapshot, mutated, with the
// harness's own model of its membership.
type derived struct {
	st   state.ValidatorState
	snap state.ValidatorSnapshot
	keys []*sig.Key
	ops  []string
}

func validatorOf(k *sig.Key) module.Validator {
	v, err := state.ValidatorFromAddress(common.NewAccountAddress(k.Addr[:]))
	if err != nil {
		panic(err)
	}
	return v
}

func memberIdx(keys []*sig.Key, k *sig.Key) int {
	for i, x := range keys {
		if x.Addr == k.Addr {
			return i
		}
	}
	return -1
}

// derive creates a state from a live snapshot and applies 1..3 mutations.
func derive(c *ev.Ctx, r *rand.Rand, base state.ValidatorSnapshot, baseKeys, foreign []*sig.Key) *derived {
	d := &derived{st: state.ValidatorStateFromSnapshot(base), keys: append([]*sig.Key(nil), baseKeys...)}
	outsider := func() *sig.Key {
		// mostly the outsider keys that the generated lists use
		for try := 0; try < 8; try++ {
			k := foreign[r.Intn(len(foreign))]
			if r.Intn(4) == 0 {
				k = sig.NewKey(r)
			}
			if memberIdx(d.keys, k) < 0 {
				return k
			}
		}
		return sig.NewKey(r)
	}
	nops := 1 + r.Intn(3)
	for o := 0; o < nops; o++ {
		op := r.Intn(8)
		if len(d.keys) == 0 {
			op = 5
		}
		switch {
		case op <= 2: // Replace(member -> outsider)
			i := r.Intn(len(d.keys))
			nk := outsider()
			if err := d.st.Replace(validatorOf(d.keys[i]), validatorOf(nk)); err != nil {
				c.Notef("Replace failed: %v", err)
				return nil
			}
			d.ops = append(d.ops, fmt.Sprintf("Replace(%d: hx%x -> hx%x)", i, d.keys[i].Addr, nk.Addr))
			d.keys[i] = nk
			c.Count("derived_state_replace_or_setat", 1)
		case op <= 4: // SetAt(i, outsider)
			i := r.Intn(len(d.keys))
			nk := outsider()
			if err := d.st.SetAt(i, validatorOf(nk)); err != nil {
				c.Notef("SetAt failed: %v", err)
				return nil
			}
			d.ops = append(d.ops, fmt.Sprintf("SetAt(%d, hx%x)", i, nk.Addr))
			d.keys[i] = nk
			c.Count("derived_state_replace_or_setat", 1)
		case op == 5: // Add(outsider)
			nk := outsider()
			if err := d.st.Add(validatorOf(nk)); err != nil {
				c.Notef("Add failed: %v", err)
				return nil
			}
			d.ops = append(d.ops, fmt.Sprintf("Add(hx%x)", nk.Addr))
			d.keys = append(d.keys, nk)
		case op == 6 && len(d.keys) > 1: // Remove(member)
			i := r.Intn(len(d.keys))
			if !d.st.Remove(validatorOf(d.keys[i])) {
				c.Notef("Remove of a member returned false")
				return nil
			}
			d.ops = append(d.ops, fmt.Sprintf("Remove(%d: hx%x)", i, d.keys[i].Addr))
			d.keys = append(append([]*sig.Key(nil), d.keys[:i]...), d.keys[i+1:]...)
		default: // Set(permutation with one outsider)
			nk := outsider()
			nl := append([]*sig.Key(nil), d.keys...)
			nl = append(nl, nk)
			r.Shuffle(len(nl), func(i, j int) { nl[i], nl[j] = nl[j], nl[i] })
			var mv []module.Validator
			for _, k := range nl {
				mv = append(mv, validatorOf(k))
			}
			if err := d.st.Set(mv); err != nil {
				c.Notef("Set failed: %v", err)
				return nil
			}
			d.ops = append(d.ops, fmt.Sprintf("Set(%d validators)", len(nl)))
			d.keys = nl
		}
		if r.Intn(3) == 0 {
			_ = d.st.GetSnapshot() // an intermediate snapshot freezes the list; the next op clones again
		}
	}
	d.snap = d.st.GetSnapshot()
	// the model of the derived membership must agree with what the snapshot lists (Get is not under test here)
	if d.snap.Len() != len(d.keys) {
		c.Count("derived_model_mismatch", 1)
		return nil
	}
	for i, k := range d.keys {
		v, ok := d.snap.Get(i)
		if !ok || string(v.Address().ID()) != string(k.Addr[:]) {
			c.Count("derived_model_mismatch", 1)
			return nil
		}
	}
	return d
}

// verifyDerived: a fresh list for the derived snapshot, judged against ITS membership.
func verifyDerived(c *ev.Ctx, r *rand.Rand, d *derived, t target, blk module.BlockData) {
	n := len(d.keys)
	if n == 0 {
		return
	}
	c.Eval(1)
	index := map[[20]byte]int{}
	for i, k := range d.keys {
		index[k.Addr] = i
	}
	var outs []*sig.Key
	for len(outs) < 3 {
		if k := sig.NewKey(r); memberIdx(d.keys, k) < 0 {
			outs = append(outs, k)
		}
	}
	g := genList(r, n, d.keys, outs, index, t, 0)
	raw := encodeList(t, g.items)
	c.Note("derived n=%d ops=%v list=%x", n, d.ops, raw)
	wit := func(what string) map[string]interface{} {
		m := g.witness(t, raw, index)
		m["what"] = what
		m["entry"] = "VerifyBlock against a snapshot of a derived, mutated state"
		m["validators_priv"] = privHex(d.keys)
		m["mutations"] = d.ops
		return m
	}
	cvs := consensus.NewCommitVoteSetFromBytes(raw)
	if cvs == nil {
		if g.want {
			c.Violation("verifyblock.derived-snapshot.rejects-valid-certificate", wit("not decoded"))
		}
		return
	}
	var verr error
	func() {
		defer func() {
			if p := recover(); p != nil {
				c.Violation("verifyblock.derived-snapshot.panics", wit(fmt.Sprint("panic: ", p)))
				verr = fmt.Errorf("panic")
			}
		}()
		_, verr = cvs.VerifyBlock(blk, d.snap)
	}()
	c.Count("derived_snapshot_verifications", 1)
	switch got := verr == nil; {
	case got && !g.want:
		c.Violation("verifyblock.derived-snapshot.accepts."+g.reason+"."+g.kindKey(), wit("accepted a list the statement rejects"))
	case !got && g.want:
		c.Violation("verifyblock.derived-snapshot.rejects-valid-certificate", wit(fmt.Sprint(verr)))
	case g.want:
		c.Count("derived_snapshot_accept_agreed", 1)
	default:
		c.Count("derived_snapshot_reject_agreed", 1)
	}
}
