// Package c05: commit certificates are accepted only with > 2/3 distinct
// valid precommit signatures.
//
// Entry point 1 (this file): the bytes of a commit vote list are built by the
// harness's own RLP encoder, decoded by the real
// consensus.NewCommitVoteSetFromBytes and judged by the real
// CommitVoteList.VerifyBlock against a real validator list. The oracle
// recovers every item's signer with decred directly over the harness's own
// re-serialization of the precommit and applies the statement.
package c05

import (
	"encoding/hex"
	"fmt"
	"math/rand"
	"runtime/debug"

	"github.com/icon-project/goloop/common"
	"github.com/icon-project/goloop/common/db"
	"github.com/icon-project/goloop/common/log"
	"github.com/icon-project/goloop/consensus"
	"github.com/icon-project/goloop/module"
	"github.com/icon-project/goloop/service/state"

	"verif/lib/ev"
	"verif/lib/sig"
)

const listsPerCase = 25

func init() {
	ev.Register(&ev.Prop{
		ID:    "C05",
		Level: "exploration",
		Cases: func(t string) int {
			if t == ev.Thorough {
				return 3200
			}
			return 160
		},
		Batches: func(t string) int {
			if t == ev.Thorough {
				return 32
			}
			return 16
		},
		Rule: fmt.Sprintf("each case = one validator set of n in 1..10 fresh keys (+3 foreign keys), one block (height, id), and %d commit vote lists: a subset S of validators signs the exact precommit (|S| biased to floor(2n/3), floor(2n/3)+1, n), then 0..2 items are added or substituted from: duplicated signer (same or other timestamp), non-validator, signature over another block id / round / part-set hash / part-set count word / height / prevote type / timestamp, bit-flipped signature, flipped V, V>=8, r=0, 64-byte, empty and 63-byte signature. The list bytes are encoded by the harness and decoded by goloop. Model: accept iff every item recovers (decred, harness-serialized precommit) to a distinct member and 3*items > 2*n. Non-trivial = distinct list that has at least one bad item or sits on the threshold boundary.", listsPerCase),
		MinNonTrivial: func(t string) int {
			if t == ev.Thorough {
				return 40000
			}
			return 2000
		},
		Required: []string{"accept_agreed", "reject_agreed", "reject_too_few", "reject_duplicate", "reject_non_member", "reject_unrecoverable", "boundary_at_floor", "boundary_at_floor_plus_1", "threshold_reached_only_by_duplicate", "decode_rejected", "valid_item_reference_recovers_signer"},
		Assumptions: []string{
			"decred secp256k1 recovery called directly is the reference for an item's signer",
			"a precommit signs sha3-256 of RLP[height, round, type=1, blockID, [countWord, partSetHash] | null, timestamp] (harness encoder lib/sig/rlp.go; validated by the positive cases)",
			"a signature over other content recovers to an unrelated address, which is a non-member",
			"entry point 1 only (VerifyBlock); import and ReceiveBlockResult call the same function",
		},
		Run: run,
	})
}

type stubBlock struct {
	module.BlockData
	h    int64
	id   []byte
	prev []byte
}

func (b *stubBlock) Height() int64  { return b.h }
func (b *stubBlock) ID() []byte     { return b.id }
func (b *stubBlock) PrevID() []byte { return b.prev }

type psid struct {
	countWord uint64
	hash      []byte
}

type target struct {
	height int64
	round  int32
	vtype  byte
	bid    []byte
	ps     *psid
}

// voteHash is the harness's own serialization of what a vote signs.
func voteHash(t target, ts int64) []byte {
	ps := sig.RNull
	if t.ps != nil {
		ps = sig.RList(sig.RUint(t.ps.countWord), sig.RBytes(t.ps.hash))
	}
	return sig.Sha3(sig.RList(sig.RInt(t.height), sig.RInt(int64(t.round)), sig.RUint(uint64(t.vtype)), sig.RBytes(t.bid), ps, sig.RInt(ts)))
}

type item struct {
	ts   int64
	sig  []byte
	kind string
}

func randBytes(r *rand.Rand, n int) []byte {
	b := make([]byte, n)
	r.Read(b)
	return b
}

func encodeList(t target, items []item) []byte {
	ps := sig.RNull
	if t.ps != nil {
		ps = sig.RList(sig.RUint(t.ps.countWord), sig.RBytes(t.ps.hash))
	}
	var its [][]byte
	for _, it := range items {
		its = append(its, sig.RList(sig.RInt(it.ts), sig.RBytes(it.sig)))
	}
	return sig.RList(sig.RInt(int64(t.round)), ps, sig.RList(its...))
}

var badKinds = []string{"dup-same-ts", "dup-other-ts", "foreign", "other-block-id", "other-round", "other-psid-hash", "other-psid-countword", "psid-nil-vs-set", "other-height", "prevote", "other-timestamp", "bitflip", "flip-v", "v-ge-8", "r-zero", "len64", "len0", "len63", "random65"}

func mkBad(r *rand.Rand, kind string, t target, vals, foreign []*sig.Key, present []item, presentIdx []int) item {
	ts := r.Int63n(1 << 50)
	signer := vals[r.Intn(len(vals))]
	alt := t
	switch kind {
	case "dup-same-ts", "dup-other-ts":
		var cand []int
		for i := range present {
			if presentIdx[i] >= 0 {
				cand = append(cand, i)
			}
		}
		if len(cand) == 0 {
			return mkBad(r, "foreign", t, vals, foreign, present, presentIdx)
		}
		j := cand[r.Intn(len(cand))]
		if kind == "dup-same-ts" {
			return item{present[j].ts, present[j].sig, kind}
		}
		k := vals[presentIdx[j]]
		ts = present[j].ts + 1 + r.Int63n(1000)
		return item{ts, k.SignRSV(voteHash(t, ts)), kind}
	case "foreign":
		k := foreign[r.Intn(len(foreign))]
		return item{ts, k.SignRSV(voteHash(t, ts)), kind}
	case "other-block-id":
		alt.bid = append([]byte(nil), t.bid...)
		alt.bid[r.Intn(len(alt.bid))] ^= 1 << uint(r.Intn(8))
	case "other-round":
		alt.round = t.round + 1
		if r.Intn(2) == 0 && t.round > 0 {
			alt.round = t.round - 1
		}
	case "other-psid-hash":
		if t.ps == nil {
			alt.ps = &psid{1, randBytes(r, 32)}
		} else {
			h := append([]byte(nil), t.ps.hash...)
			h[r.Intn(len(h))] ^= 1
			alt.ps = &psid{t.ps.countWord, h}
		}
	case "other-psid-countword":
		if t.ps == nil {
			alt.ps = &psid{0, nil}
		} else {
			alt.ps = &psid{t.ps.countWord ^ (1 << uint(r.Intn(64))), t.ps.hash}
		}
	case "psid-nil-vs-set":
		if t.ps == nil {
			alt.ps = &psid{1, randBytes(r, 32)}
		} else {
			alt.ps = nil
		}
	case "other-height":
		alt.height = t.height + 1
		if r.Intn(2) == 0 && t.height > 1 {
			alt.height = t.height - 1
		}
	case "prevote":
		alt.vtype = 0
	case "other-timestamp":
		return item{ts, signer.SignRSV(voteHash(t, ts+1)), kind}
	case "bitflip":
		s := signer.SignRSV(voteHash(t, ts))
		s[r.Intn(64)] ^= 1 << uint(r.Intn(8))
		return item{ts, s, kind}
	case "flip-v":
		s := signer.SignRSV(voteHash(t, ts))
		s[64] ^= 1
		return item{ts, s, kind}
	case "v-ge-8":
		s := signer.SignRSV(voteHash(t, ts))
		s[64] = byte(8 + r.Intn(248))
		return item{ts, s, kind}
	case "r-zero":
		s := signer.SignRSV(voteHash(t, ts))
		for i := 0; i < 32; i++ {
			s[i] = 0
		}
		return item{ts, s, kind}
	case "len64":
		return item{ts, signer.SignRSV(voteHash(t, ts))[:64], kind}
	case "len0":
		return item{ts, []byte{}, kind}
	case "len63":
		return item{ts, signer.SignRSV(voteHash(t, ts))[:63], kind}
	case "random65":
		s := randBytes(r, 65)
		s[64] = byte(r.Intn(2))
		return item{ts, s, kind}
	}
	return item{ts, signer.SignRSV(voteHash(alt, ts)), kind}
}

func run(c *ev.Ctx) {
	log.GlobalLogger().SetLevel(log.FatalLevel)
	c.Cases(func(ci int, r *rand.Rand) {
		n := 1 + r.Intn(10)
		var vals, foreign []*sig.Key
		seen := map[[20]byte]bool{}
		fresh := func() *sig.Key {
			for {
				k := sig.NewKey(r)
				if !seen[k.Addr] {
					seen[k.Addr] = true
					return k
				}
			}
		}
		for i := 0; i < n; i++ {
			vals = append(vals, fresh())
		}
		for i := 0; i < 3; i++ {
			foreign = append(foreign, fresh())
		}
		var mv []module.Validator
		index := map[[20]byte]int{}
		for i, k := range vals {
			v, err := state.ValidatorFromAddress(common.NewAccountAddress(k.Addr[:]))
			if err != nil {
				panic(err)
			}
			mv = append(mv, v)
			index[k.Addr] = i
		}
		vl, err := state.ValidatorSnapshotFromSlice(db.NewMapDB(), mv)
		if err != nil {
			panic(err)
		}
		var keyHex []string
		for _, k := range vals {
			keyHex = append(keyHex, hex.EncodeToString(k.PrivBytes()))
		}
		c.Note("validators(priv)=%v", keyHex)
		floor := 2 * n / 3

		for li := 0; li < listsPerCase && !c.Stopped(); li++ {
			var t target
			switch r.Intn(5) {
			case 0:
				t.height = 1
			case 1:
				t.height = int64(1) << uint(r.Intn(62))
			default:
				t.height = 1 + r.Int63n(1<<40)
			}
			t.round = int32(r.Intn(4))
			if r.Intn(6) == 0 {
				t.round = int32(r.Int31())
			}
			t.vtype = 1
			t.bid = randBytes(r, 32)
			if r.Intn(8) != 0 {
				t.ps = &psid{uint64(1 + r.Intn(100)), randBytes(r, 32)}
				if r.Intn(3) == 0 {
					t.ps.countWord |= uint64(r.Intn(5)) << 16 // app data (NTS vote count)
				}
			}
			blk := &stubBlock{h: t.height, id: t.bid, prev: randBytes(r, 32)}

			// the honest part
			var size int
			switch r.Intn(8) {
			case 0, 1:
				size = floor
			case 2, 3, 4:
				size = floor + 1
			case 5:
				size = n
			case 6:
				size = r.Intn(n + 1)
			default:
				size = floor - 1
			}
			if size < 0 {
				size = 0
			}
			if size > n {
				size = n
			}
			perm := r.Perm(n)[:size]
			var items []item
			var itemVal []int
			for _, vi := range perm {
				ts := r.Int63n(1 << 50)
				items = append(items, item{ts, vals[vi].SignRSV(voteHash(t, ts)), "good"})
				itemVal = append(itemVal, vi)
			}
			// the bad part
			nbad := 0
			switch r.Intn(5) {
			case 0, 1:
			case 2, 3:
				nbad = 1
			default:
				nbad = 2
			}
			kinds := []string{}
			onlyByDup := false
			for b := 0; b < nbad; b++ {
				kind := badKinds[r.Intn(len(badKinds))]
				goodNow := append([]item(nil), items[:len(perm)]...)
				bad := mkBad(r, kind, t, vals, foreign, goodNow, itemVal)
				kinds = append(kinds, bad.kind)
				if r.Intn(3) == 0 && len(perm) > 0 && b == 0 {
					// substitute an honest item (count stays)
					j := r.Intn(len(perm))
					if bad.kind == "dup-same-ts" || bad.kind == "dup-other-ts" {
						// keep the duplicated original in the list
						items = append(items, bad)
					} else {
						items[j] = bad
						itemVal[j] = -1
					}
				} else {
					items = append(items, bad)
				}
				if (bad.kind == "dup-same-ts" || bad.kind == "dup-other-ts") && size == floor && nbad == 1 {
					onlyByDup = true
				}
			}
			if r.Intn(2) == 0 {
				// order must not matter
				r.Shuffle(len(items), func(i, j int) { items[i], items[j] = items[j], items[i] })
			}

			// ---- model
			c.Eval(1)
			wantVoted := make([]bool, n)
			reason := ""
			memberItems := 0
			for _, it := range items {
				a, ok := sig.RefRecoverRSV(it.sig, voteHash(t, it.ts))
				if it.kind == "good" {
					if _, m := index[a]; !ok || !m {
						panic("harness: honest item does not recover")
					}
					c.Count("valid_item_reference_recovers_signer", 1)
				}
				if !ok {
					if reason == "" {
						reason = "unrecoverable"
					}
					continue
				}
				vi, member := index[a]
				if !member {
					if reason == "" {
						reason = "non_member"
					}
					continue
				}
				if wantVoted[vi] {
					if reason == "" {
						reason = "duplicate"
					}
					continue
				}
				wantVoted[vi] = true
				memberItems++
			}
			if reason == "" && !(3*len(items) > 2*n) {
				reason = "too_few"
			}
			want := reason == ""

			raw := encodeList(t, items)
			c.Note("n=%d height=%d bid=%x list=%x", n, t.height, t.bid, raw)
			wit := func(what string) map[string]interface{} {
				var its []map[string]interface{}
				for _, it := range items {
					a, ok := sig.RefRecoverRSV(it.sig, voteHash(t, it.ts))
					vi, member := index[a]
					if !member {
						vi = -1
					}
					its = append(its, map[string]interface{}{"kind": it.kind, "ts": it.ts, "sig": hex.EncodeToString(it.sig), "ref_recovers": ok, "ref_validator_index": vi})
				}
				return map[string]interface{}{"what": what, "n": n, "validators_priv": keyHex, "height": t.height, "round": t.round, "block_id": hex.EncodeToString(t.bid),
					"psid": fmt.Sprintf("%+v", t.ps), "items": its, "list_rlp": hex.EncodeToString(raw), "model_accepts": want, "model_reason": reason}
			}

			// ---- real code
			cvs := consensus.NewCommitVoteSetFromBytes(raw)
			got := false
			var voted []bool
			var verr error
			if cvs == nil {
				c.Count("decode_rejected", 1)
			} else {
				func() {
					defer func() {
						if p := recover(); p != nil {
							w := wit(fmt.Sprint("panic: ", p))
							w["stack"] = string(debug.Stack())
							key := "verifyblock.panics"
							if reason == "unrecoverable" {
								key = "verifyblock.panics.unrecoverable-signature"
							}
							c.Violation(key, w)
							verr = fmt.Errorf("panic: %v", p)
							c.Count("panicked", 1)
						}
					}()
					voted, verr = cvs.VerifyBlock(blk, vl)
				}()
				got = verr == nil
			}
			kindKey := "none"
			if len(kinds) > 0 {
				kindKey = kinds[0]
			}
			switch {
			case got && !want:
				c.Violation("verifyblock.accepts."+reason+"."+kindKey, wit("accepted a list the statement rejects"))
			case !got && want:
				c.Violation("verifyblock.rejects-valid-certificate", wit(fmt.Sprint("rejected: ", verr, " decoded=", cvs != nil)))
			case want:
				c.Count("accept_agreed", 1)
				if len(voted) != n {
					c.Violation("verifyblock.voted-bitmap-length", wit(fmt.Sprint(voted)))
				} else {
					for i := range voted {
						if voted[i] != wantVoted[i] {
							c.Violation("verifyblock.voted-bitmap", wit(fmt.Sprint(voted)))
							break
						}
					}
				}
			default:
				c.Count("reject_agreed", 1)
				c.Count("reject_"+reason, 1)
			}
			for _, k := range kinds {
				c.Count("bad_"+k, 1)
			}
			boundary := false
			if len(items) == floor {
				c.Count("boundary_at_floor", 1)
				boundary = true
			}
			if len(items) == floor+1 {
				c.Count("boundary_at_floor_plus_1", 1)
				boundary = true
			}
			if onlyByDup && len(items) == floor+1 {
				c.Count("threshold_reached_only_by_duplicate", 1)
			}
			if len(kinds) > 0 || boundary {
				c.NonTrivial(string(raw) + string(t.bid))
			}
			if li == 0 && c.WantSample() {
				c.Sample(wit("sample"))
			}
		}
	})
}
