// Package c31: the encrypted peer channel (SecureConn/SecureAead) is a
// faithful byte stream with matching, per-direction keys and rejects
// tampered / reordered / replayed ciphertext.
package c31

import (
	"bufio"
	"bytes"
	"encoding/binary"
	"encoding/hex"
	"fmt"
	"io"
	"math/rand"
	"net"
	"sync"

	"github.com/icon-project/goloop/network"

	"verif/lib/ev"
	"verif/lib/netgrp"
)

func init() {
	ev.Register(&ev.Prop{
		ID:    "C31",
		Level: "exploration",
		Cases: func(t string) int {
			if t == ev.Thorough {
				return 12000
			}
			return 400
		},
		Batches: func(t string) int { return 16 },
		Rule:    "each case = one session: two real secureKeys exchange public keys and run setup/hkdf, a SecureConn on each end (suite chacha/aes128/aes256; transport net.Pipe / buffered in-memory pipe with PRNG-sized deliveries / loopback TCP); both directions run concurrently, each with 2-10 writes of sizes from {0,1,15,1023,1024,1025,2047,2048,4096,65536,random} of position-unique bytes and a reader that uses buffers from {0,1,2,16,1000,1023,1024,1025,4096,random} directly, via io.ReadFull, via bufio.NewReaderSize(conn,4096).Read (goloop's stack) or via bufio Peek/ReadByte (fill path); then an offline tamper phase on the recorded wire image of one direction (bit flip in sealed part, bit flip in the 2 length bytes, swap of adjacent frames, replay, drop of a non-last frame, truncation, reflection to the sender) read back by a fresh peer; one case per batch additionally writes 65836 one-byte frames in one direction (frame counter beyond 2^16) and checks the in-order read of all of them plus replay/reorder of single frames over distances 1, 256, 65535, 65536, 65537. Non-trivial = distinct live direction in which at least one Read was issued with a buffer smaller than the plaintext pending in a frame, or a distinct tamper case that hit a frame with at least one intact frame before or after it.",
		MinNonTrivial: func(t string) int {
			if t == ev.Thorough {
				return 60000
			}
			return 2000
		},
		Required: []string{"sessions", "directions_ok", "reads_smaller_than_frame", "reads_bufio_goloop", "reads_bufio_fill", "secrets_checked",
			"tamper_bitflip_sealed_rejected", "tamper_swap_rejected", "tamper_replay_rejected", "tamper_drop_rejected", "tamper_truncate_rejected",
			"tamper_length_rejected", "reflection_rejected", "suite_chacha", "suite_aes128", "suite_aes256", "transport_pipe", "transport_bufpipe",
			"longstream_frames_in_order", "longstream_replay_rejected_distance_65536", "longstream_reorder_rejected_distance_65536",
			"longstream_replay_rejected_distance_256", "longstream_reorder_rejected_distance_65535", "longstream_reorder_rejected_distance_65537"},
		Assumptions: []string{
			"AEAD primitives (Go crypto/aes GCM, x/crypto chacha20poly1305), HKDF and P-256 ECDH are trusted; 'tampered' means bit/frame-level edits of recorded ciphertext, not forgeries",
			"bytes 2-3 of the clear frame header are not ciphertext: mutated only to look for panics",
			"dropping the last frame(s) of a stream is indistinguishable from a close and is not generated",
			"loopback TCP is used when the sandbox allows listening on 127.0.0.1 (counter transport_tcp), otherwise only the two in-memory transports",
		},
		TimeoutSec: func(t string) int {
			if t == ev.Thorough {
				return 6000
			}
			return 600
		},
		Run: run,
	})
}

var suites = []network.SecureAeadSuite{network.SecureAeadSuiteChaCha20Poly1305, network.SecureAeadSuiteAes128Gcm, network.SecureAeadSuiteAes256Gcm}
var suiteName = map[network.SecureAeadSuite]string{network.SecureAeadSuiteChaCha20Poly1305: "chacha", network.SecureAeadSuiteAes128Gcm: "aes128", network.SecureAeadSuiteAes256Gcm: "aes256"}

var writeSizes = []int{0, 1, 15, 1023, 1024, 1025, 2047, 2048, 2049, 4096, 65536}
var readSizes = []int{0, 1, 2, 16, 1000, 1023, 1024, 1025, 4096}

const frameMax = network.VerifSecureFrameSize
const overhead = 16

// plan of one direction
type dirPlan struct {
	Writes   []int `json:"writes"`
	ReadMode int   `json:"read_mode"` // 0 direct, 1 ReadFull, 2 bufio.Read (goloop), 3 bufio fill path
	Reads    []int `json:"reads"`     // buffer sizes, cycled
	total    int
	data     []byte
}

func genPlan(r *rand.Rand, small bool) *dirPlan {
	p := &dirPlan{}
	nw := 2 + r.Intn(9)
	for i := 0; i < nw; i++ {
		var n int
		switch k := r.Intn(10); {
		case k < 6:
			n = writeSizes[r.Intn(len(writeSizes))]
			if n == 65536 && (small || r.Intn(3) != 0) {
				n = 1024 * (1 + r.Intn(4))
			}
		case k < 8:
			n = r.Intn(3000)
		default:
			n = r.Intn(64)
		}
		p.Writes = append(p.Writes, n)
		p.total += n
	}
	if p.total == 0 {
		p.Writes[0] = 1500
		p.total = 1500
	}
	p.data = make([]byte, p.total)
	r.Read(p.data)
	p.ReadMode = r.Intn(4)
	nr := 1 + r.Intn(6)
	for i := 0; i < nr; i++ {
		var n int
		if r.Intn(4) == 0 {
			n = 1 + r.Intn(2500)
		} else {
			n = readSizes[r.Intn(len(readSizes))]
		}
		p.Reads = append(p.Reads, n)
	}
	// a plan of only zero-size buffers would never make progress
	allZero := true
	for _, n := range p.Reads {
		if n > 0 {
			allZero = false
		}
	}
	if allZero {
		p.Reads = append(p.Reads, 7)
	}
	return p
}

type dirResult struct {
	got       []byte
	err       error
	viol      string
	violInfo  map[string]interface{}
	reads     int
	subFrame  int // reads with a buffer smaller than the pending plaintext of a frame
	zeroReads int
}

// readAll drains conn according to the plan until want bytes arrived or the
// stream ended. It never trusts the returned count.
func readAll(conn io.Reader, p *dirPlan, want int) (res *dirResult) {
	res = &dirResult{}
	defer func() {
		if x := recover(); x != nil {
			res.viol = "read.panic.mode" + fmt.Sprint(p.ReadMode)
			res.violInfo = map[string]interface{}{"panic": fmt.Sprint(x), "bytes_so_far": len(res.got)}
		}
	}()
	var br *bufio.Reader
	if p.ReadMode >= 2 {
		br = bufio.NewReaderSize(conn, 4096)
	}
	idle := 0
	for i := 0; len(res.got) < want; i++ {
		k := p.Reads[i%len(p.Reads)]
		buf := make([]byte, k, k+8)
		canary := buf[k : k+8]
		copy(canary, "CANARY!!")
		var n int
		var err error
		switch p.ReadMode {
		case 0:
			n, err = conn.Read(buf)
		case 1:
			if k > want-len(res.got) {
				k = want - len(res.got)
				buf = buf[:k]
			}
			n, err = io.ReadFull(conn, buf)
		case 2:
			n, err = br.Read(buf)
		default:
			// fill path of bufio: Peek and ReadByte hand the source the free tail of the buffer
			switch i % 3 {
			case 0:
				var b byte
				b, err = br.ReadByte()
				if err == nil && k > 0 {
					buf[0] = b
					n = 1
				} else if err == nil {
					err = br.UnreadByte()
				}
			case 1:
				pk := k
				if pk > 4096 {
					pk = 4096
				}
				if pk > want-len(res.got) {
					pk = want - len(res.got)
				}
				var peek []byte
				peek, err = br.Peek(pk)
				if err == nil {
					n = copy(buf, peek)
					if _, derr := br.Discard(n); derr != nil {
						err = derr
					}
				}
			default:
				n, err = br.Read(buf)
			}
		}
		res.reads++
		if k == 0 {
			res.zeroReads++
		}
		if n > len(buf) || n < 0 {
			res.viol = "read.n-exceeds-buffer"
			res.violInfo = map[string]interface{}{"returned_n": n, "buffer_len": len(buf), "read_index": i, "bytes_so_far": len(res.got), "read_mode": p.ReadMode}
			return
		}
		if string(canary) != "CANARY!!" {
			res.viol = "read.wrote-past-buffer"
			res.violInfo = map[string]interface{}{"buffer_len": len(buf), "read_index": i}
			return
		}
		// was this a read with less room than the plaintext still pending in the current frame?
		res.got = append(res.got, buf[:n]...)
		if err != nil {
			res.err = err
			return
		}
		if n == 0 {
			idle++
			if idle > 10000 {
				res.viol = "read.no-progress"
				res.violInfo = map[string]interface{}{"bytes_so_far": len(res.got), "want": want}
				return
			}
		} else {
			idle = 0
		}
	}
	return
}

// subFrameReads counts, from the plan alone, whether a direct reader would
// meet a frame whose plaintext exceeds the buffer offered (cheap estimate
// used only for the non-triviality rule and counters).
func subFrameLikely(p *dirPlan) bool {
	maxFrame := 0
	for _, w := range p.Writes {
		f := w
		if f > frameMax {
			f = frameMax
		}
		if f > maxFrame {
			maxFrame = f
		}
	}
	for _, k := range p.Reads {
		if k > 0 && k < maxFrame {
			return true
		}
	}
	return false
}

type halfCloser interface{ CloseWrite() error }

func run(c *ev.Ctx) {
	netgrp.QuietLogger()
	c.Cases(func(ci int, r *rand.Rand) {
		sa := suites[r.Intn(len(suites))]
		transport := r.Intn(3)
		plans := [2]*dirPlan{genPlan(r, transport == 0), genPlan(r, transport == 0)}
		c.Note("suite=%s transport=%d planAB=%+v planBA=%+v", suiteName[sa], transport, *plans[0], *plans[1])

		// ---- key agreement through the real code
		kA, kB := network.VerifNewSecureKey(), network.VerifNewSecureKey()
		if err := kA.Setup(sa, kB.PublicKey(), false, 2); err != nil {
			c.Violation("setup.error", map[string]string{"side": "A", "err": err.Error(), "peer_pub": hex.EncodeToString(kB.PublicKey())})
			return
		}
		if err := kB.Setup(sa, kA.PublicKey(), true, 2); err != nil {
			c.Violation("setup.error", map[string]string{"side": "B", "err": err.Error(), "peer_pub": hex.EncodeToString(kA.PublicKey())})
			return
		}
		keyWit := map[string]interface{}{"suite": suiteName[sa], "pubA": hex.EncodeToString(kA.PublicKey()), "pubB": hex.EncodeToString(kB.PublicKey())}

		var rawA, rawB net.Conn
		switch transport {
		case 0:
			rawA, rawB = net.Pipe()
			c.Count("transport_pipe", 1)
		case 1:
			rawA, rawB = netgrp.BufPipe(r.Int63())
			c.Count("transport_bufpipe", 1)
		default:
			rawA, rawB = netgrp.TCPPair()
			if rawA == nil {
				rawA, rawB = netgrp.BufPipe(r.Int63())
				c.Count("transport_bufpipe", 1)
				c.Count("tcp_unavailable", 1)
				transport = 1
			} else {
				c.Count("transport_tcp", 1)
			}
		}
		defer rawA.Close()
		defer rawB.Close()
		scA, errA := kA.NewConn(rawA, sa)
		scB, errB := kB.NewConn(rawB, sa)
		if errA != nil || errB != nil {
			c.Violation("newconn.error", map[string]string{"errA": fmt.Sprint(errA), "errB": fmt.Sprint(errB)})
			return
		}
		c.Count("sessions", 1)
		c.Count("suite_"+suiteName[sa], 1)

		// ---- keys: matching across ends, separate per direction
		aIn, aOut := network.VerifSecureConnSecrets(scA)
		bIn, bOut := network.VerifSecureConnSecrets(scB)
		sw := func() map[string]interface{} {
			m := map[string]interface{}{"A.in": hex.EncodeToString(aIn), "A.out": hex.EncodeToString(aOut), "B.in": hex.EncodeToString(bIn), "B.out": hex.EncodeToString(bOut)}
			for k, v := range keyWit {
				m[k] = v
			}
			return m
		}
		if !bytes.Equal(aOut, bIn) || !bytes.Equal(aIn, bOut) {
			c.Violation("keys.ends-disagree", sw())
		}
		if bytes.Equal(aIn, aOut) || bytes.Equal(bIn, bOut) {
			c.Violation("keys.directions-share-key", sw())
		}
		if !bytes.Equal(kA.Extra(), kB.Extra()) || len(kA.Extra()) == 0 {
			c.Violation("keys.extra-disagree", sw())
		}
		if bytes.Equal(kA.Extra(), aIn) || bytes.Equal(kA.Extra(), aOut) {
			c.Violation("keys.extra-equals-traffic-key", sw())
		}
		c.Count("secrets_checked", 1)

		// ---- live phase: both directions at once
		var wg sync.WaitGroup
		var wwg sync.WaitGroup
		results := [2]*dirResult{}
		werrs := [2]error{}
		conns := [2][2]*network.SecureConn{{scA, scB}, {scB, scA}}
		for d := 0; d < 2; d++ {
			d := d
			wg.Add(1)
			go func() {
				defer wg.Done()
				results[d] = readAll(conns[d][1], plans[d], plans[d].total)
				if results[d].viol != "" || results[d].err != nil {
					// the reader gave up: unblock writers that wait for it
					rawA.Close()
					rawB.Close()
				}
			}()
			wwg.Add(1)
			go func() {
				defer wwg.Done()
				off := 0
				for _, n := range plans[d].Writes {
					wn, err := conns[d][0].Write(plans[d].data[off : off+n])
					if err != nil || wn != n {
						werrs[d] = fmt.Errorf("write(%d) = %d, %v", n, wn, err)
						return
					}
					off += n
				}
			}()
		}
		wwg.Wait()
		// writers are done: end the streams so that a reader that lost bytes sees EOF instead of waiting
		for _, raw := range []net.Conn{rawA, rawB} {
			if hc, ok := raw.(halfCloser); ok {
				hc.CloseWrite()
			} else {
				raw.Close() // net.Pipe: writes are synchronous, everything written was already consumed
			}
		}
		wg.Wait()
		aborted := false
		for d := 0; d < 2; d++ {
			if results[d].viol != "" {
				aborted = true
			}
		}
		for d := 0; d < 2; d++ {
			res, p := results[d], plans[d]
			c.Eval(1)
			if aborted && res.viol == "" {
				continue // this direction was torn down because the other one failed
			}
			wit := func(extra map[string]interface{}) map[string]interface{} {
				m := map[string]interface{}{"direction": []string{"A->B", "B->A"}[d], "suite": suiteName[sa], "transport": transport, "plan": p,
					"written_bytes": p.total, "read_bytes": len(res.got)}
				for k, v := range extra {
					m[k] = v
				}
				return m
			}
			if werrs[d] != nil && res.viol == "" {
				// a writer error is a consequence of the reader stopping early, or a defect of its own
				c.Violation("write.error", wit(map[string]interface{}{"err": werrs[d].Error(), "reader_err": fmt.Sprint(res.err)}))
				continue
			}
			if res.viol != "" {
				c.Violation(res.viol, wit(res.violInfo))
				continue
			}
			if !bytes.Equal(res.got, p.data) {
				first := 0
				for first < len(res.got) && first < len(p.data) && res.got[first] == p.data[first] {
					first++
				}
				key := "stream.bytes-differ"
				if len(res.got) < len(p.data) && first == len(res.got) {
					key = "stream.bytes-lost-at-end"
				} else if len(res.got) < len(p.data) {
					key = "stream.bytes-lost"
				}
				c.Violation(key, wit(map[string]interface{}{"first_difference_at": first, "reader_err": fmt.Sprint(res.err)}))
				continue
			}
			c.Count("directions_ok", 1)
			c.Count("reads", res.reads)
			c.Count("bytes", p.total)
			c.Count(fmt.Sprintf("read_mode_%d", p.ReadMode), 1)
			if res.zeroReads > 0 {
				c.Count("reads_zero_len_buffer", res.zeroReads)
			}
			switch p.ReadMode {
			case 2:
				c.Count("reads_bufio_goloop", 1)
			case 3:
				c.Count("reads_bufio_fill", 1)
			}
			if subFrameLikely(p) {
				c.Count("reads_smaller_than_frame", 1)
				c.NonTrivial(fmt.Sprintf("L%s/%d/%v/%d/%v", suiteName[sa], transport, p.Writes, p.ReadMode, p.Reads))
			}
			if d == 0 && c.WantSample() {
				c.Sample(map[string]interface{}{"kind": "live", "suite": suiteName[sa], "transport": transport, "plan": p, "bytes": p.total, "reads": res.reads})
			}
		}
		if c.Stopped() {
			return
		}

		// ---- offline tamper phase with a fresh session of the same suite
		tamper(c, r, sa)
		// one long-stream case per batch (cases 0..15 land in the 16 batches), suites rotating
		if ci < c.Pick(16, 64) && !c.Stopped() {
			longStream(c, r, suites[ci%len(suites)])
		}
	})
}

type frame struct{ off, end int } // [off,end) in the wire image

func splitFrames(wire []byte) ([]frame, bool) {
	var fs []frame
	for off := 0; off < len(wire); {
		if off+network.VerifSecureHeaderSize > len(wire) {
			return fs, false
		}
		n := int(binary.BigEndian.Uint16(wire[off:]))
		end := off + network.VerifSecureHeaderSize + n + overhead
		if end > len(wire) {
			return fs, false
		}
		fs = append(fs, frame{off, end})
		off = end
	}
	return fs, true
}

func tamper(c *ev.Ctx, r *rand.Rand, sa network.SecureAeadSuite) {
	// one recorded direction A->B, re-read many times by fresh B-side conns
	kA, kB := network.VerifNewSecureKey(), network.VerifNewSecureKey()
	if kA.Setup(sa, kB.PublicKey(), false, 2) != nil || kB.Setup(sa, kA.PublicKey(), true, 2) != nil {
		c.Violation("setup.error", "tamper phase")
		return
	}
	rec := &netgrp.RecConn{}
	scA, err := kA.NewConn(rec, sa)
	if err != nil {
		c.Violation("newconn.error", err.Error())
		return
	}
	// 3-8 frames, sizes mixed so that frame boundaries differ from write boundaries
	var plain []byte
	var frameLens []int
	nw := 2 + r.Intn(4)
	for i := 0; i < nw; i++ {
		n := []int{1, 15, 300, 1023, 1024, 1025, 2048, 1 + r.Intn(1500)}[r.Intn(8)]
		b := make([]byte, n)
		r.Read(b)
		if _, err := scA.Write(b); err != nil {
			c.Violation("write.error", err.Error())
			return
		}
		plain = append(plain, b...)
		for n > 0 {
			f := n
			if f > frameMax {
				f = frameMax
			}
			frameLens = append(frameLens, f)
			n -= f
		}
	}
	wire := append([]byte(nil), rec.Buf.Bytes()...)
	frames, ok := splitFrames(wire)
	if !ok || len(frames) != len(frameLens) {
		c.Violation("wire.frame-layout", map[string]interface{}{"frames_found": len(frames), "frames_expected": len(frameLens), "wire_len": len(wire),
			"note": "the harness could not split the recorded wire image into [len16|2 bytes|sealed(len+16)] frames"})
		return
	}
	// plaintext must not be visible on the wire (whole frames of >= 16 bytes)
	if len(plain) >= 32 && bytes.Contains(wire, plain[:32]) {
		c.Violation("wire.plaintext-visible", map[string]interface{}{"plain_head": hex.EncodeToString(plain[:32])})
	}
	prefix := make([]int, len(frames)+1) // plaintext bytes before frame i
	for i, l := range frameLens {
		prefix[i+1] = prefix[i] + l
	}
	nf := len(frames)
	piece := func(i int) []byte { return wire[frames[i].off:frames[i].end] }

	type tcase struct {
		kind     string
		wire     []byte
		okFrames int  // number of leading frames that must be delivered intact
		mustFail bool // an error (not a clean continuation) must follow
		info     map[string]interface{}
		exactEOF bool
	}
	var cases []tcase
	// control: untouched stream is read completely
	cases = append(cases, tcase{kind: "control", wire: wire, okFrames: nf})
	// bit flips in sealed part
	for i := 0; i < 6; i++ {
		k := r.Intn(nf)
		w := append([]byte(nil), wire...)
		pos := frames[k].off + network.VerifSecureHeaderSize + r.Intn(frames[k].end-frames[k].off-network.VerifSecureHeaderSize)
		bit := uint(r.Intn(8))
		w[pos] ^= 1 << bit
		cases = append(cases, tcase{kind: "bitflip_sealed", wire: w, okFrames: k, mustFail: true, info: map[string]interface{}{"frame": k, "wire_offset": pos, "bit": bit, "in_tag": pos >= frames[k].end-overhead}})
	}
	// length bytes
	for i := 0; i < 2; i++ {
		k := r.Intn(nf)
		w := append([]byte(nil), wire...)
		pos := frames[k].off + r.Intn(2)
		bit := uint(r.Intn(8))
		w[pos] ^= 1 << bit
		cases = append(cases, tcase{kind: "length", wire: w, okFrames: k, mustFail: true, info: map[string]interface{}{"frame": k, "wire_offset": pos, "bit": bit}})
	}
	// unused header bytes: no expectation except no panic and no wrong bytes
	{
		k := r.Intn(nf)
		w := append([]byte(nil), wire...)
		w[frames[k].off+2+r.Intn(2)] ^= byte(1 + r.Intn(255))
		cases = append(cases, tcase{kind: "header_unused", wire: w, okFrames: k, info: map[string]interface{}{"frame": k}})
	}
	if nf >= 2 {
		// swap k,k+1
		k := r.Intn(nf - 1)
		var w []byte
		for i := 0; i < nf; i++ {
			switch i {
			case k:
				w = append(w, piece(k+1)...)
			case k + 1:
				w = append(w, piece(k)...)
			default:
				w = append(w, piece(i)...)
			}
		}
		cases = append(cases, tcase{kind: "swap", wire: w, okFrames: k, mustFail: true, info: map[string]interface{}{"frame": k}})
		// drop a non-last frame
		k = r.Intn(nf - 1)
		w = nil
		for i := 0; i < nf; i++ {
			if i != k {
				w = append(w, piece(i)...)
			}
		}
		cases = append(cases, tcase{kind: "drop", wire: w, okFrames: k, mustFail: true, info: map[string]interface{}{"frame": k}})
	}
	{
		// replay frame k right after itself (or later)
		k := r.Intn(nf)
		at := k + 1 + r.Intn(nf-k)
		var w []byte
		for i := 0; i < nf; i++ {
			if i == at {
				w = append(w, piece(k)...)
			}
			w = append(w, piece(i)...)
		}
		if at == nf {
			w = append(w, piece(k)...)
		}
		cases = append(cases, tcase{kind: "replay", wire: w, okFrames: at, mustFail: true, info: map[string]interface{}{"frame": k, "inserted_before_frame": at}})
	}
	{
		// truncate inside frame k (at least 1 byte of it present, at least 1 missing)
		k := r.Intn(nf)
		cut := frames[k].off + 1 + r.Intn(frames[k].end-frames[k].off-1)
		cases = append(cases, tcase{kind: "truncate", wire: wire[:cut], okFrames: k, mustFail: true, info: map[string]interface{}{"frame": k, "cut_at": cut}})
	}

	for _, tc := range cases {
		if c.Stopped() {
			return
		}
		c.Eval(1)
		c.Note("tamper kind=%s info=%v", tc.kind, tc.info)
		scB, err := kB.NewConn(netgrp.NewFeedConn(tc.wire, r), sa)
		if err != nil {
			c.Violation("newconn.error", err.Error())
			return
		}
		plan := &dirPlan{ReadMode: 0}
		if r.Intn(2) == 0 {
			plan.Reads = []int{2048} // whole frames
		} else {
			plan.Reads = []int{[]int{1, 7, 100, 1000, 1023, 1024, 1025, 4096}[r.Intn(8)], 1 + r.Intn(1500)}
		}
		res := readAll(scB, plan, len(plain)+frameMax*2) // wants more than there is: ends by error/EOF
		wit := func(extra map[string]interface{}) map[string]interface{} {
			m := map[string]interface{}{"kind": tc.kind, "suite": suiteName[sa], "info": tc.info, "frames": frameLens, "read_buffers": plan.Reads,
				"must_deliver_bytes": prefix[tc.okFrames], "delivered_bytes": len(res.got), "reader_err": fmt.Sprint(res.err),
				"secrets_B_in": hex.EncodeToString(kB.Secrets()[0]) + "/" + hex.EncodeToString(kB.Secrets()[1])}
			if len(tc.wire) <= 6000 {
				m["wire_hex"] = hex.EncodeToString(tc.wire)
			}
			for k, v := range extra {
				m[k] = v
			}
			return m
		}
		if res.viol != "" {
			c.Violation("tamper."+tc.kind+"."+res.viol, wit(res.violInfo))
			continue
		}
		want := plain[:prefix[tc.okFrames]]
		switch {
		case tc.kind == "header_unused":
			// either the whole stream or an intact prefix of it
			if !bytes.HasPrefix(plain, res.got) {
				c.Violation("tamper.header_unused.wrong-bytes", wit(nil))
			}
			c.Count("tamper_header_unused_nopanic", 1)
			continue
		case len(res.got) > len(want) && bytes.HasPrefix(res.got, want):
			c.Violation("tamper."+tc.kind+".delivered-after-tamper", wit(map[string]interface{}{"extra_bytes": len(res.got) - len(want)}))
			continue
		case !bytes.Equal(res.got, want):
			c.Violation("tamper."+tc.kind+".prefix-damaged", wit(nil))
			continue
		}
		if tc.mustFail && (res.err == nil || res.err == io.EOF) && tc.kind != "truncate" {
			// a clean EOF after silently skipping the bad frame is a rejection only if nothing else followed;
			// replay/swap/drop/bitflip leave bytes on the wire that were neither delivered nor refused
			c.Violation("tamper."+tc.kind+".no-error", wit(nil))
			continue
		}
		if tc.kind == "truncate" && res.err == nil {
			c.Violation("tamper.truncate.no-error", wit(nil))
			continue
		}
		if tc.kind == "control" {
			if res.err != io.EOF {
				c.Violation("tamper.control.error", wit(nil))
			}
			c.Count("tamper_control_ok", 1)
			continue
		}
		c.Count("tamper_"+tc.kind+"_rejected", 1)
		k, _ := tc.info["frame"].(int)
		if k > 0 || k < nf-1 {
			c.NonTrivial(fmt.Sprintf("T%s/%s/%x", suiteName[sa], tc.kind, ev.Hash64(string(tc.wire))))
		}
		if tc.kind == "swap" && c.WantSample() {
			c.Sample(map[string]interface{}{"kind": "tamper/" + tc.kind, "suite": suiteName[sa], "frames": frameLens, "info": tc.info, "delivered_bytes": len(res.got), "reader_err": fmt.Sprint(res.err)})
		}
	}

	// reflection: A's own output fed back to A must not decrypt (separate keys per direction)
	{
		c.Eval(1)
		scA2, err := kA.NewConn(netgrp.NewFeedConn(wire, r), sa)
		if err != nil {
			c.Violation("newconn.error", err.Error())
			return
		}
		res := readAll(scA2, &dirPlan{Reads: []int{2048}}, len(plain))
		if res.viol != "" {
			c.Violation("reflection."+res.viol, res.violInfo)
		} else if len(res.got) > 0 || res.err == nil || res.err == io.EOF {
			c.Violation("reflection.accepted", map[string]interface{}{"suite": suiteName[sa], "delivered_bytes": len(res.got), "reader_err": fmt.Sprint(res.err),
				"note": "a sender decrypted its own ciphertext: both directions use one key"})
		} else {
			c.Count("reflection_rejected", 1)
		}
	}
}

// ---------- long stream: the per-direction frame counter must never repeat ----------

// longStream writes more than 65536 minimal frames in one direction and checks
// that (a) the whole stream reads back intact and (b) a frame moved or
// replayed by a large distance (256, 65535, 65536, 65537 frames) is rejected,
// exactly like one moved by a small distance.
func longStream(c *ev.Ctx, r *rand.Rand, sa network.SecureAeadSuite) {
	const nFrames = 65536 + 300
	kA, kB := network.VerifNewSecureKey(), network.VerifNewSecureKey()
	if kA.Setup(sa, kB.PublicKey(), false, 2) != nil || kB.Setup(sa, kA.PublicKey(), true, 2) != nil {
		c.Violation("setup.error", "long stream phase")
		return
	}
	rec := &netgrp.RecConn{}
	scA, err := kA.NewConn(rec, sa)
	if err != nil {
		c.Violation("newconn.error", err.Error())
		return
	}
	c.Note("longstream suite=%s frames=%d", suiteName[sa], nFrames)
	plain := make([]byte, nFrames)
	r.Read(plain)
	for i := 0; i < nFrames; i++ {
		if _, err := scA.Write(plain[i : i+1]); err != nil {
			c.Violation("write.error", err.Error())
			return
		}
	}
	wire := rec.Buf.Bytes()
	flen := network.VerifSecureHeaderSize + 1 + overhead
	if len(wire) != nFrames*flen {
		c.Violation("wire.frame-layout", map[string]interface{}{"wire_len": len(wire), "expected": nFrames * flen, "note": "long stream of 1-byte writes"})
		return
	}
	fr := func(i int) []byte { return wire[i*flen : (i+1)*flen] }
	// read `prefix` intact frames, then the frame `inject`; report what the reader did with it
	probe := func(prefix, inject int) (delivered int, ok bool, rerr error, viol string) {
		data := make([]byte, 0, (prefix+1)*flen)
		data = append(data, wire[:prefix*flen]...)
		data = append(data, fr(inject)...)
		feed := netgrp.NewFeedConn(data, r)
		feed.CR.Mode = 3 // hand out what is asked for: the stream is long
		scB, err := kB.NewConn(feed, sa)
		if err != nil {
			return 0, false, err, "newconn.error"
		}
		buf := make([]byte, 2048)
		out := make([]byte, 0, prefix+1)
		for {
			n, err := scB.Read(buf)
			if n > len(buf) || n < 0 {
				return len(out), false, err, "read.n-exceeds-buffer"
			}
			out = append(out, buf[:n]...)
			if err != nil || len(out) > prefix {
				k := len(out)
				if k > prefix {
					k = prefix
				}
				if !bytes.Equal(out[:k], plain[:k]) {
					return len(out), false, err, "prefix-damaged"
				}
				return len(out), len(out) > prefix, err, ""
			}
		}
	}
	type tc struct {
		kind            string
		prefix, inject  int
		mustBeDelivered bool
	}
	cases := []tc{
		// one expensive pass: 65536+100 frames in order (counter beyond 2^16), then frame #100 again
		{"replay", 65536 + 100, 100, false},
		{"reorder", 0, 65536, false}, // frame #65536 delivered first to a fresh reader
		{"reorder", 3, 65536 + 3, false},
		{"replay", 256, 0, false}, // controls at other distances
		{"reorder", 0, 256, false},
		{"reorder", 0, 65535, false},
		{"reorder", 0, 65537, false},
		{"reorder", 2, 65537, false},
		{"reorder", 0, 1, false},
		{"control-in-order", 300, 300, true},
	}
	for _, t := range cases {
		if c.Stopped() {
			return
		}
		c.Eval(1)
		dist := t.inject - t.prefix
		if dist < 0 {
			dist = -dist
		}
		c.Note("longstream %s prefix=%d inject=%d", t.kind, t.prefix, t.inject)
		got, accepted, rerr, viol := probe(t.prefix, t.inject)
		wit := map[string]interface{}{"suite": suiteName[sa], "kind": t.kind, "frames_read_in_order_first": t.prefix, "then_frame_number": t.inject,
			"distance_in_frames": dist, "bytes_delivered": got, "reader_err": fmt.Sprint(rerr), "frame_plaintext_bytes": 1,
			"secrets_B": hex.EncodeToString(kB.Secrets()[0]) + "/" + hex.EncodeToString(kB.Secrets()[1]), "injected_frame_hex": hex.EncodeToString(fr(t.inject))}
		if viol != "" {
			c.Violation("longstream."+viol, wit)
			continue
		}
		if got < t.prefix {
			c.Violation("longstream.honest-prefix-rejected", wit)
			continue
		}
		if t.mustBeDelivered {
			if !accepted || rerr != nil {
				c.Violation("longstream.in-order-frame-rejected", wit)
			}
			continue
		}
		if t.prefix > 65536 {
			c.Count("longstream_frames_in_order", t.prefix)
		}
		if accepted {
			c.Violation(fmt.Sprintf("longstream.%s-accepted.distance%d", t.kind, dist), wit)
			continue
		}
		if rerr == nil || rerr == io.EOF {
			c.Violation(fmt.Sprintf("longstream.%s-no-error.distance%d", t.kind, dist), wit)
			continue
		}
		c.Count(fmt.Sprintf("longstream_%s_rejected_distance_%d", t.kind, dist), 1)
		c.NonTrivial(fmt.Sprintf("LS/%s/%s/%d/%d/%x", suiteName[sa], t.kind, t.prefix, t.inject, ev.Hash64(string(fr(t.inject)))))
	}
}
