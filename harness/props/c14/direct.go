package c14

import (
	"math/big"
	"math/rand"

	ss "github.com/icon-project/goloop/service/state"

	sm "verif/lib/state"
)

var zero = big.NewInt(0)

func minKey(m map[string]string) (string, bool) {
	min, first := "", true
	for k := range m {
		if first || k < min {
			min, first = k, false
		}
	}
	return min, !first
}

func maybeSnap(r *rand.Rand, chain []sm.Op) []sm.Op {
	if r.Intn(2) == 0 {
		return append(chain, sm.Op{Kind: sm.OpSnapshot})
	}
	return chain
}

// directOps builds an operation list that reaches the target contents from
// the never-touched world in a PRNG-chosen order, with touch-and-revert
// detours on values that are absent from the target (so that emptied
// accounts and emptied storage are compared with never-touched ones).
func directOps(r *rand.Rand, target *sm.World) []sm.Op {
	var chains [][]sm.Op
	someBal := big.NewInt(12345)
	someVal := []byte("detour-value-longer-than-thirty-two-bytes-to-get-a-hashed-node")
	for i, a := range target.Acc {
		// contract chain: life-cycle recipe, owner, contract-only flags
		var chain []sm.Op
		chain = append(chain, a.Recipe...)
		if a.IsContract {
			chain = append(chain, sm.Op{Kind: sm.OpSetOwner, Acc: i, Owner: sm.OwnerIndex(a.Owner)})
			for _, f := range []struct {
				kind, bit int
			}{{sm.OpSetDisable, ss.ASDisabled}, {sm.OpSetSysDeposit, ss.ASUseSystemDeposit}} {
				if a.State&f.bit != 0 {
					chain = append(chain, sm.Op{Kind: f.kind, Acc: i, B: true})
				} else if r.Intn(3) == 0 {
					chain = append(chain, sm.Op{Kind: f.kind, Acc: i, B: true})
					chain = maybeSnap(r, chain)
					chain = append(chain, sm.Op{Kind: f.kind, Acc: i, B: false})
				}
			}
			// fee-sharing deposit (contract accounts only)
			if a.Deposit != nil {
				switch r.Intn(3) {
				case 0:
					chain = append(chain, sm.Op{Kind: sm.OpAddDeposit, Acc: i, Bal: a.Deposit})
				case 1:
					// more than needed, then consume the surplus by paying steps
					k := int64(1 + r.Intn(30))
					more := new(big.Int).Add(a.Deposit, new(big.Int).Mul(big.NewInt(k), sm.StepPrice))
					chain = append(chain, sm.Op{Kind: sm.OpAddDeposit, Acc: i, Bal: more})
					chain = maybeSnap(r, chain)
					chain = append(chain, sm.Op{Kind: sm.OpPaySteps, Acc: i, Bal: big.NewInt(k)})
				default:
					chain = append(chain, sm.Op{Kind: sm.OpAddDeposit, Acc: i, Bal: someBal})
					chain = maybeSnap(r, chain)
					chain = append(chain, sm.Op{Kind: sm.OpWithdraw, Acc: i, B: true})
					chain = append(chain, sm.Op{Kind: sm.OpAddDeposit, Acc: i, Bal: a.Deposit})
				}
			} else if r.Intn(3) == 0 {
				chain = append(chain, sm.Op{Kind: sm.OpAddDeposit, Acc: i, Bal: someBal})
				chain = maybeSnap(r, chain)
				chain = append(chain, sm.Op{Kind: sm.OpWithdraw, Acc: i, B: true})
			}
		}
		if len(chain) > 0 {
			chains = append(chains, chain)
		}
		// balance
		if a.Balance.Sign() != 0 {
			var ch []sm.Op
			if r.Intn(3) == 0 {
				ch = append(ch, sm.Op{Kind: sm.OpSetBalance, Acc: i, Bal: someBal})
				ch = maybeSnap(r, ch)
			}
			chains = append(chains, append(ch, sm.Op{Kind: sm.OpSetBalance, Acc: i, Bal: a.Balance}))
		} else if r.Intn(3) == 0 {
			ch := []sm.Op{{Kind: sm.OpSetBalance, Acc: i, Bal: someBal}}
			ch = maybeSnap(r, ch)
			chains = append(chains, append(ch, sm.Op{Kind: sm.OpSetBalance, Acc: i, Bal: zero}))
		}
		// block flag
		if a.State&ss.ASBlocked != 0 {
			chains = append(chains, []sm.Op{{Kind: sm.OpSetBlock, Acc: i, B: true}})
		} else if r.Intn(4) == 0 {
			ch := []sm.Op{{Kind: sm.OpSetBlock, Acc: i, B: true}}
			ch = maybeSnap(r, ch)
			chains = append(chains, append(ch, sm.Op{Kind: sm.OpSetBlock, Acc: i, B: false}))
		}
		// storage
		for _, k := range sm.Keys {
			if v, ok := a.Storage[string(k)]; ok {
				var ch []sm.Op
				if r.Intn(4) == 0 {
					ch = append(ch, sm.Op{Kind: sm.OpSetValue, Acc: i, K: k, V: someVal})
					ch = maybeSnap(r, ch)
				}
				chains = append(chains, append(ch, sm.Op{Kind: sm.OpSetValue, Acc: i, K: k, V: []byte(v)}))
			} else if r.Intn(5) == 0 {
				ch := []sm.Op{{Kind: sm.OpSetValue, Acc: i, K: k, V: someVal}}
				ch = maybeSnap(r, ch)
				if r.Intn(2) == 0 {
					ch = append(ch, sm.Op{Kind: sm.OpDeleteValue, Acc: i, K: k})
				} else {
					ch = append(ch, sm.Op{Kind: sm.OpSetValue, Acc: i, K: k, V: nil})
				}
				chains = append(chains, ch)
			}
		}
	}
	// merge the chains in random order, keeping each chain's own order
	var ops []sm.Op
	for len(chains) > 0 {
		j := r.Intn(len(chains))
		ops = append(ops, chains[j][0])
		chains[j] = chains[j][1:]
		if len(chains[j]) == 0 {
			chains[j] = chains[len(chains)-1]
			chains = chains[:len(chains)-1]
		}
		if r.Intn(10) == 0 {
			ops = append(ops, sm.Op{Kind: sm.OpSnapshot})
		}
	}
	return append(ops, sm.Op{Kind: sm.OpSnapshot})
}
