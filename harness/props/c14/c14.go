// Package c14: world state snapshots are isolated and the state hash is
// canonical (service/state worldstate/account/readonlyworldstate).
//
// Reference-model monitor over random histories. The real state.WorldState
// is stepped in lock-step with a map model; every live world snapshot and
// account snapshot is re-observed after later mutations, Reset must restore
// exactly the snapshot's contents, and the state hash must be a function of
// the logical contents alone: the same contents reached through another
// cache/flush/reload regime (run C), through a direct construction in
// another order with touch-and-revert detours (run B), or earlier in the
// same history must hash identically.
package c14

import (
	"bytes"
	"encoding/hex"
	"fmt"
	"math/rand"
	"os"
	"strings"

	"github.com/icon-project/goloop/common/db"
	"github.com/icon-project/goloop/common/log"
	ss "github.com/icon-project/goloop/service/state"

	"verif/lib/ev"
	sm "verif/lib/state"
)

func init() {
	ev.Register(&ev.Prop{
		ID:    "C14",
		Level: "exploration",
		Cases: func(t string) int {
			if t == ev.Thorough {
				return 40000
			}
			return 400
		},
		Batches: func(t string) int {
			if t == ev.Thorough {
				return 32
			}
			return 16
		},
		Rule: "each case = one random history A of 40-70 operations (SetBalance, SetValue/DeleteValue on keys with shared prefixes, contract init/owner/flags/deploy/accept/reject/activate/SetCode, AddDeposit/PaySteps/WithdrawDeposit on contract accounts, GetSnapshot, Reset to a random earlier snapshot) over 6 accounts, executed on the real WorldState in lock-step with a map model and interleaved with PRNG-chosen regime actions (ClearCache, Flush of a snapshot, flush+reload by hash, WorldStateFromSnapshot, observation through GetAccountState/GetAccountSnapshot/read-only state); run C = the same operations under a different regime and DB (MapDB or goleveldb dir); run B = direct construction of A's final contents in another order with touch-and-revert detours. 1 case in 5 adds a concurrent phase: on a MapDB with the node-cache manager attached and EnableNodeCache on every state, 3 world states (random account ops + 42 filler accounts at the same trie positions) are flushed, then 4 goroutines x 30 rounds reload random ones by hash (NewWorldState+EnableNodeCache or NewWorldSnapshot), compare every getter with the contents recorded for that hash and recompute the hash, while a fifth goroutine builds and flushes 6 further states. Non-trivial = distinct run (hash of its full action log) in which a snapshot was re-observed after a later mutation, a Reset happened and at least one of ClearCache/Flush/reload happened.",
		MinNonTrivial: func(t string) int {
			if t == ev.Thorough {
				return 40000
			}
			return 400
		},
		Required: []string{"snapshot_reobservations_after_mutation", "resets", "clearcache", "flushes", "reloads",
			"hash_same_content_pairs", "emptied_account_hash_checks", "acct_snapshot_reobservations", "leveldb_reopens", "direct_builds", "op_AddDeposit", "op_PaySteps", "op_Withdraw",
			"concurrent_reload_rounds", "concurrent_flushes"},
		Assumptions: []string{
			"the 60-line map model in verif/lib/state states the AccountState API semantics (old-value returns, contract life cycle) as read off account.go",
			"'empty' = zero balance, no storage entry, not a contract, no state flag (accountData.IsEmpty)",
			"SHA3-256 collision resistance (equal hash <=> equal trie)",
		},
		TimeoutSec: func(t string) int {
			if t == ev.Thorough {
				return 7200
			}
			return 600
		},
		Run: run,
	})
}

type snapRec struct {
	wss   ss.WorldSnapshot
	model *sm.World
	hash  []byte
	step  int  // action index at which it was taken
	muts  int  // number of mutations applied when it was taken
	extra bool // taken by a regime action (not addressable by Reset ops)
}

type acctSnapRec struct {
	as    ss.AccountSnapshot
	acc   int
	model *sm.Account
	muts  int
}

type hashRec struct {
	hash string
	run  string
	step int
}

// caseState is shared by the runs of one case.
type caseState struct {
	c      *ev.Ctx
	hashes map[string]hashRec // model key -> first hash seen
	logs   map[string][]string
}

type runner struct {
	cs       *caseState
	label    string
	r        *rand.Rand // regime PRNG
	dbase    db.Database
	dir      string // goleveldb directory ("" for MapDB)
	ws       ss.WorldState
	model    *sm.World
	snaps    []snapRec // addressable by Reset (op snapshots)
	all      []*snapRec
	asnaps   []acctSnapRec
	log      []string
	muts     int
	everFull [sm.NAcc]bool // account had contents at some point of this run
	// non-triviality
	reobsAfterMut, didReset, didRegime bool
	failed                             bool
}

func hx(b []byte) string { return hex.EncodeToString(b) }

func (rn *runner) logf(format string, a ...interface{}) {
	rn.log = append(rn.log, fmt.Sprintf(format, a...))
}

func (rn *runner) witness(extra map[string]interface{}) map[string]interface{} {
	w := map[string]interface{}{"run": rn.label, "actions": append([]string(nil), rn.log...), "db": rn.dbKind()}
	for k, v := range extra {
		w[k] = v
	}
	return w
}

func (rn *runner) dbKind() string {
	if rn.dir != "" {
		return "goleveldb"
	}
	return "mapdb"
}

func (rn *runner) violation(key string, extra map[string]interface{}) {
	rn.failed = true
	rn.cs.c.Violation(key, rn.witness(extra))
}

func diffKey(d []sm.Diff) string {
	f := d[0].Field
	if i := strings.IndexByte(f, '.'); i >= 0 && (strings.HasPrefix(f, "cur.") || strings.HasPrefix(f, "next.")) {
		return "contract." + f[i+1:]
	}
	return f
}

// recordHash checks that equal logical contents always hash identically.
func (rn *runner) recordHash(m *sm.World, hash []byte, what string) {
	key := m.Key()
	h := hx(hash)
	c := rn.cs.c
	emptied := false
	for i, a := range m.Acc {
		if a.IsEmpty() && rn.everFull[i] {
			emptied = true
		}
	}
	if prev, ok := rn.cs.hashes[key]; ok {
		c.Count("hash_same_content_pairs", 1)
		if emptied {
			c.Count("emptied_account_hash_checks", 1)
		}
		if prev.hash != h {
			kind := "other-cache-regime"
			switch {
			case prev.run == rn.label:
				kind = "same-history"
			case prev.run == "B" || rn.label == "B":
				kind = "other-order"
			}
			if emptied {
				kind += ".emptied-account"
			}
			rn.violation("hash.noncanonical."+kind, map[string]interface{}{
				"contents": key, "hash": h, "what": what,
				"earlier_hash": prev.hash, "earlier_run": prev.run, "earlier_step": prev.step,
				"earlier_actions": rn.cs.logs[prev.run],
			})
		}
	} else {
		rn.cs.hashes[key] = hashRec{h, rn.label, len(rn.log)}
	}
	if m.NonEmpty() == 0 {
		c.Count("all_empty_world_hashes", 1)
		if len(hash) != 0 {
			rn.violation("hash.empty-world-not-nil", map[string]interface{}{"hash": h, "what": what})
		}
	}
}

func (rn *runner) takeSnapshot(extra bool) *snapRec {
	wss := rn.ws.GetSnapshot()
	rec := &snapRec{wss: wss, model: rn.model.Clone(), hash: append([]byte(nil), wss.StateHash()...), step: len(rn.log), muts: rn.muts, extra: extra}
	rn.all = append(rn.all, rec)
	rn.cs.c.Count("snapshots_taken", 1)
	if d := sm.ObserveWorldSnapshot(wss, rec.model, true); len(d) > 0 {
		rn.violation("snapshot.wrong-at-creation."+diffKey(d), map[string]interface{}{"diffs": d})
	}
	rn.recordHash(rec.model, rec.hash, "GetSnapshot")
	return rec
}

func (rn *runner) observeSnap(rec *snapRec, mode int) {
	c := rn.cs.c
	if !bytes.Equal(rec.wss.StateHash(), rec.hash) {
		rn.violation("snapshot.changed.statehash", map[string]interface{}{"taken_at": rec.step, "hash_then": hx(rec.hash), "hash_now": hx(rec.wss.StateHash())})
	}
	var d []sm.Diff
	if mode == 0 {
		d = sm.ObserveWorldSnapshot(rec.wss, rec.model, true)
	} else {
		// through the read-only world state built on the snapshot
		ro := ss.NewReadOnlyWorldState(rec.wss)
		for i := 0; i < sm.NAcc; i++ {
			d = sm.ObserveState(i, ro.GetAccountState(sm.IDs[i]), rec.model.Acc[i], true, d)
		}
		if ro.GetSnapshot() != rec.wss {
			d = append(d, sm.Diff{Field: "readonly.snapshot-identity"})
		}
		c.Count("readonly_state_observations", 1)
	}
	c.Count("snapshot_reobservations", 1)
	if rn.muts > rec.muts {
		c.Count("snapshot_reobservations_after_mutation", 1)
		rn.reobsAfterMut = true
	}
	if len(d) > 0 {
		rn.violation("snapshot.changed."+diffKey(d), map[string]interface{}{"taken_at": rec.step, "mutations_since": rn.muts - rec.muts, "diffs": d})
	}
}

// observeSnapAccount re-observes, in an earlier snapshot, the account that
// the operation just touched (all accounts after a Reset).
func (rn *runner) observeSnapAccount(rec *snapRec, o sm.Op) {
	if o.Kind == sm.OpReset || o.Kind == sm.OpSnapshot {
		rn.observeSnap(rec, 0)
		return
	}
	c := rn.cs.c
	if !bytes.Equal(rec.wss.StateHash(), rec.hash) {
		rn.violation("snapshot.changed.statehash", map[string]interface{}{"taken_at": rec.step, "hash_then": hx(rec.hash), "hash_now": hx(rec.wss.StateHash())})
	}
	as := rec.wss.GetAccountSnapshot(sm.IDs[o.Acc])
	var d []sm.Diff
	if as != nil && rec.model.Acc[o.Acc].IsEmpty() {
		d = append(d, sm.Diff{Field: "presence", Acc: o.Acc, Want: "absent(empty)", Got: "present"})
	} else {
		d = sm.ObserveSnapshot(o.Acc, as, rec.model.Acc[o.Acc], true, nil)
	}
	c.Count("snapshot_account_reobservations", 1)
	if rn.muts > rec.muts {
		c.Count("snapshot_reobservations_after_mutation", 1)
		rn.reobsAfterMut = true
	}
	if len(d) > 0 {
		rn.violation("snapshot.changed."+diffKey(d), map[string]interface{}{"taken_at": rec.step, "mutations_since": rn.muts - rec.muts, "diffs": d})
	}
}

func (rn *runner) observeAcctSnaps() {
	for _, a := range rn.asnaps {
		d := sm.ObserveSnapshot(a.acc, a.as, a.model, true, nil)
		rn.cs.c.Count("acct_snapshot_reobservations", 1)
		if len(d) > 0 {
			rn.violation("acct-snapshot.changed."+diffKey(d), map[string]interface{}{"mutations_since": rn.muts - a.muts, "diffs": d})
		}
	}
}

// observeLive compares the mutable world state with the model.
func (rn *runner) observeLive(keyPrefix string, mode int) {
	var d []sm.Diff
	order := rn.r.Perm(sm.NAcc)
	for _, i := range order {
		m := mode
		if m == 2 {
			m = rn.r.Intn(2)
		}
		if m == 0 {
			d = sm.ObserveState(i, rn.ws.GetAccountState(sm.IDs[i]), rn.model.Acc[i], true, d)
		} else {
			d = sm.ObserveSnapshot(i, rn.ws.GetAccountSnapshot(sm.IDs[i]), rn.model.Acc[i], true, d)
		}
	}
	rn.cs.c.Count("live_state_observations", 1)
	if len(d) > 0 {
		rn.violation(keyPrefix+"."+diffKey(d), map[string]interface{}{"diffs": d})
	}
}

func (rn *runner) liveSnaps() []*snapRec {
	// bounded window: the first two, and the last eight
	if len(rn.all) <= 10 {
		return rn.all
	}
	out := append([]*snapRec(nil), rn.all[:2]...)
	return append(out, rn.all[len(rn.all)-8:]...)
}

func (rn *runner) regime() {
	c := rn.cs.c
	switch rn.r.Intn(9) {
	case 0, 1:
		rn.logf("~ClearCache")
		rn.ws.ClearCache()
		c.Count("clearcache", 1)
		rn.didRegime = true
	case 2:
		// flush some existing snapshot (or a fresh one)
		var rec *snapRec
		if len(rn.all) > 0 && rn.r.Intn(2) == 0 {
			rec = rn.all[rn.r.Intn(len(rn.all))]
			rn.logf("~Flush(snapshot@%d)", rec.step)
		} else {
			rn.logf("~GetSnapshot+Flush")
			rec = rn.takeSnapshot(true)
		}
		if err := rec.wss.Flush(); err != nil {
			rn.violation("flush.error", map[string]interface{}{"err": err.Error()})
		}
		c.Count("flushes", 1)
		rn.didRegime = true
	case 3:
		rn.logf("~Reload(flush+NewWorldState by hash)")
		rec := rn.takeSnapshot(true)
		if err := rec.wss.Flush(); err != nil {
			rn.violation("flush.error", map[string]interface{}{"err": err.Error()})
		}
		rn.ws = ss.NewWorldState(rn.dbase, rec.hash, nil, nil, nil)
		c.Count("flushes", 1)
		c.Count("reloads", 1)
		rn.didRegime = true
		rn.observeLive("reload.differs", 2)
		if rn.r.Intn(2) == 0 {
			if h := rn.ws.GetSnapshot().StateHash(); !bytes.Equal(h, rec.hash) {
				rn.violation("reload.hash-differs", map[string]interface{}{"flushed": hx(rec.hash), "reloaded": hx(h)})
			}
		}
	case 4:
		rn.logf("~WorldStateFromSnapshot")
		rec := rn.takeSnapshot(true)
		ws, err := ss.WorldStateFromSnapshot(rec.wss)
		if err != nil {
			rn.violation("fromsnapshot.error", map[string]interface{}{"err": err.Error()})
			return
		}
		rn.ws = ws
		c.Count("from_snapshot", 1)
		rn.observeLive("fromsnapshot.differs", 2)
	case 5:
		m := rn.r.Intn(3)
		rn.logf("~ObserveLive(mode=%d)", m)
		rn.observeLive("state.differs-from-model", m)
	case 6:
		i := rn.r.Intn(sm.NAcc)
		rn.logf("~AccountSnapshot(a%d)", i)
		as := rn.ws.GetAccountSnapshot(sm.IDs[i])
		rn.asnaps = append(rn.asnaps, acctSnapRec{as, i, rn.model.Acc[i].Clone(), rn.muts})
		if len(rn.asnaps) > 6 {
			rn.asnaps = rn.asnaps[1:]
		}
		c.Count("acct_snapshots", 1)
	case 7:
		if len(rn.all) > 0 {
			rec := rn.all[rn.r.Intn(len(rn.all))]
			rn.logf("~ObserveSnapshotReadOnly(@%d)", rec.step)
			rn.observeSnap(rec, 1)
		}
	case 8:
		if len(rn.all) > 0 {
			rec := rn.all[rn.r.Intn(len(rn.all))]
			rn.logf("~ClearCacheOfSnapshotAccounts(@%d)", rec.step)
			// clearing the caches of a snapshot's own account objects must not change it
			for i := 0; i < sm.NAcc; i++ {
				if as := rec.wss.GetAccountSnapshot(sm.IDs[i]); as != nil {
					as.ClearCache()
				}
			}
			c.Count("snapshot_account_clearcache", 1)
		}
	}
}

func (rn *runner) noteFull() {
	for i, a := range rn.model.Acc {
		if !a.IsEmpty() {
			rn.everFull[i] = true
		}
	}
}

func (rn *runner) step(o sm.Op) {
	c := rn.cs.c
	switch o.Kind {
	case sm.OpSnapshot:
		rn.logf("%s -> #%d", o, len(rn.snaps))
		rec := rn.takeSnapshot(false)
		rn.snaps = append(rn.snaps, *rec)
	case sm.OpReset:
		rec := rn.snaps[o.Snap]
		rn.logf("%s", o)
		if err := rn.ws.Reset(rec.wss); err != nil {
			rn.violation("reset.error", map[string]interface{}{"err": err.Error()})
			return
		}
		rn.model = rec.model.Clone()
		rn.muts++
		rn.didReset = true
		c.Count("resets", 1)
		rn.observeLive("reset.differs", 2)
		if rn.r.Intn(2) == 0 {
			if h := rn.ws.GetSnapshot().StateHash(); !bytes.Equal(h, rec.hash) {
				rn.violation("reset.hash-differs", map[string]interface{}{"snapshot": hx(rec.hash), "after_reset": hx(h), "reset_to": o.Snap})
			}
		}
	default:
		rn.logf("%s", o)
		want := rn.model.Apply(o)
		got := sm.ApplyReal(rn.ws, o)
		rn.muts++
		rn.noteFull()
		c.Count("ops_applied", 1)
		c.Count("op_"+strings.SplitN(o.String(), "(", 2)[0], 1)
		if !want.Equal(got) {
			rn.violation("state.op-result."+strings.SplitN(o.String(), "(", 2)[0], map[string]interface{}{"op": o.String(), "want": want.String(), "got": got.String()})
		}
		// the touched account, through the mutable state
		if d := sm.ObserveState(o.Acc, rn.ws.GetAccountState(sm.IDs[o.Acc]), rn.model.Acc[o.Acc], false, nil); len(d) > 0 {
			rn.violation("state.differs-from-model."+diffKey(d), map[string]interface{}{"diffs": d})
		}
	}
}

func (rn *runner) execute(ops []sm.Op) {
	c := rn.cs.c
	defer func() { rn.cs.logs[rn.label] = rn.log }()
	// the never-touched world
	rn.takeSnapshot(true)
	for i, o := range ops {
		if rn.failed || c.Stopped() {
			return
		}
		for rn.r.Intn(100) < 30 {
			rn.regime()
			if rn.failed {
				return
			}
		}
		rn.step(o)
		if rn.failed {
			return
		}
		// re-observe snapshots: the touched account in three random live
		// snapshots now, the whole window every 16 ops (and everything at the end)
		live := rn.liveSnaps()
		if i%16 == 15 {
			for _, rec := range live {
				rn.observeSnap(rec, 0)
			}
			rn.observeAcctSnaps()
		} else if len(live) > 0 {
			for k := 0; k < 3; k++ {
				rn.observeSnapAccount(live[rn.r.Intn(len(live))], o)
			}
			if len(rn.asnaps) > 0 && rn.r.Intn(3) == 0 {
				rn.observeAcctSnaps()
			}
		}
	}
	if rn.failed {
		return
	}
	// end of history: everything once more, then flush, and rebuild from the DB alone
	final := rn.takeSnapshot(true)
	for _, rec := range rn.all {
		rn.observeSnap(rec, 0)
	}
	rn.observeAcctSnaps()
	rn.logf("~Flush(final)+NewWorldSnapshot by hash")
	if err := final.wss.Flush(); err != nil {
		rn.violation("flush.error", map[string]interface{}{"err": err.Error()})
		return
	}
	c.Count("flushes", 1)
	rn.checkReload(rn.dbase, final, "reload")
	if rn.dir != "" && !rn.failed {
		// really reopen the directory
		rn.logf("~Close+Reopen(goleveldb)")
		if err := rn.dbase.Close(); err != nil {
			c.Notef("goleveldb close: %v", err)
			return
		}
		d2, err := db.Open(rn.dir, string(db.GoLevelDBBackend), "c14")
		if err != nil {
			c.Notef("goleveldb reopen: %v", err)
			return
		}
		rn.dbase = d2
		c.Count("leveldb_reopens", 1)
		rn.checkReload(d2, final, "reopen")
	}
}

func (rn *runner) checkReload(d db.Database, final *snapRec, what string) {
	wss := ss.NewWorldSnapshot(d, final.hash, nil, nil, nil)
	rn.cs.c.Count("reloads", 1)
	if diffs := sm.ObserveWorldSnapshot(wss, final.model, true); len(diffs) > 0 {
		rn.violation(what+".differs."+diffKey(diffs), map[string]interface{}{"diffs": diffs, "hash": hx(final.hash)})
		return
	}
	// a mutable state loaded by hash, touched on every account and snapshotted again, keeps the hash
	ws := ss.NewWorldState(d, final.hash, nil, nil, nil)
	for _, i := range rn.r.Perm(sm.NAcc) {
		as := ws.GetAccountState(sm.IDs[i])
		as.GetBalance()
		if rn.r.Intn(2) == 0 {
			// write back the same contents
			as.SetBalance(final.model.Acc[i].Balance)
			if k, ok := minKey(final.model.Acc[i].Storage); ok {
				as.SetValue([]byte(k), []byte(final.model.Acc[i].Storage[k]))
			}
		}
	}
	if h := ws.GetSnapshot().StateHash(); !bytes.Equal(h, final.hash) {
		rn.violation(what+".hash-differs", map[string]interface{}{"flushed": hx(final.hash), "reloaded_and_rewritten": hx(h)})
	}
}

// genHistory generates run A's operation list.
func genHistory(r *rand.Rand, n int) []sm.Op {
	model := sm.NewWorld()
	var snaps []*sm.World
	var ops []sm.Op
	for len(ops) < n {
		p := r.Intn(100)
		switch {
		case p < 12:
			ops = append(ops, sm.Op{Kind: sm.OpSnapshot})
			snaps = append(snaps, model.Clone())
		case p < 19 && len(snaps) > 0:
			j := r.Intn(len(snaps))
			if r.Intn(2) == 0 {
				j = len(snaps) - 1
			}
			ops = append(ops, sm.Op{Kind: sm.OpReset, Snap: j})
			model = snaps[j].Clone()
		default:
			o := sm.GenOp(r, model)
			if r.Intn(6) == 0 && len(ops) > 0 {
				// revert bias: undo what some earlier op on this account did
				a := model.Acc[o.Acc]
				switch r.Intn(3) {
				case 0:
					o = sm.Op{Kind: sm.OpSetBalance, Acc: o.Acc, Bal: zero}
				case 1:
					if k, ok := minKey(a.Storage); ok {
						o = sm.Op{Kind: sm.OpDeleteValue, Acc: o.Acc, K: []byte(k)}
					}
				default:
					o = sm.Op{Kind: sm.OpSetBlock, Acc: o.Acc, B: false}
				}
			}
			model.Apply(o)
			ops = append(ops, o)
		}
	}
	return ops
}

func run(c *ev.Ctx) {
	log.GlobalLogger().SetLevel(log.FatalLevel)
	c.Cases(func(ci int, r *rand.Rand) {
		nops := 40 + r.Intn(31)
		ops := genHistory(r, nops)
		seedA, seedB, seedC := r.Int63(), r.Int63(), r.Int63()
		useLevel := r.Intn(20) == 0 // opening a goleveldb allocates MiB-sized buffers: expensive under -race
		c.Note("ops=%d seeds=%d/%d/%d leveldb=%v", len(ops), seedA, seedB, seedC, useLevel)
		cs := &caseState{c: c, hashes: map[string]hashRec{}, logs: map[string][]string{}}

		mk := func(label string, seed int64, level bool) *runner {
			rn := &runner{cs: cs, label: label, r: rand.New(rand.NewSource(seed)), model: sm.NewWorld()}
			if level {
				dir, err := os.MkdirTemp("", "c14-ldb-")
				if err != nil {
					panic(err)
				}
				d, err := db.Open(dir, string(db.GoLevelDBBackend), "c14")
				if err != nil {
					os.RemoveAll(dir)
					panic(err)
				}
				rn.dir, rn.dbase = dir, d
			} else {
				rn.dbase = db.NewMapDB()
			}
			rn.ws = ss.NewWorldState(rn.dbase, nil, nil, nil, nil)
			return rn
		}
		done := func(rn *runner) {
			if rn.dir != "" {
				rn.dbase.Close()
				os.RemoveAll(rn.dir)
			}
			if !rn.failed && rn.reobsAfterMut && rn.didReset && rn.didRegime {
				c.NonTrivial(strings.Join(rn.log, "\n"))
			}
			c.Count("runs", 1)
		}

		a := mk("A", seedA, false)
		a.execute(ops)
		done(a)
		if a.failed || c.Stopped() {
			return
		}
		c.Eval(2)
		cr := mk("C", seedC, useLevel)
		cr.execute(ops)
		done(cr)
		if cr.failed || c.Stopped() {
			return
		}
		if cr.model.Key() != a.model.Key() {
			panic("harness: model is not deterministic")
		}
		// run B: direct construction of A's final contents
		rb := rand.New(rand.NewSource(seedB))
		bops := directOps(rb, a.model)
		b := mk("B", seedB, false)
		b.execute(bops)
		done(b)
		if b.failed {
			return
		}
		if b.model.Key() != a.model.Key() {
			panic(fmt.Sprintf("harness: direct construction does not reach the target contents\nwant %s\ngot  %s", a.model.Key(), b.model.Key()))
		}
		c.Count("direct_builds", 1)
		if r.Intn(5) == 0 {
			c.Eval(1)
			c.Note("concurrent reload phase")
			concurrentReload(c, r)
		}
		if c.WantSample() {
			n := len(a.log)
			if n > 40 {
				n = 40
			}
			c.Sample(map[string]interface{}{"case": ci, "run_A_first_actions": a.log[:n], "final_contents": a.model.Key(),
				"final_hash": hx(a.all[len(a.all)-1].hash), "run_B_ops": len(bops), "snapshots_A": len(a.all)})
		}
	})
}
