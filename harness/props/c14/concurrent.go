package c14

import (
	"bytes"
	"encoding/binary"
	"fmt"
	"math/big"
	"math/rand"
	"sync"

	"github.com/icon-project/goloop/common/db"
	"github.com/icon-project/goloop/common/trie/cache"
	ss "github.com/icon-project/goloop/service/state"

	"verif/lib/ev"
	sm "verif/lib/state"
)

// Concurrent reload phase: the database carries the node-cache manager (as
// chain.prepareDatabase attaches it) and every world state enables the node
// cache (as service transitions do). Several world states that differ at the
// same account-trie positions are flushed; goroutines then reload them by
// hash concurrently and compare what they read with the logical contents
// recorded for that hash, while another goroutine keeps flushing further
// states. What is loaded under a state hash must be exactly what was
// flushed under it, whatever other states of the same database are doing.

const nFill = 42

func fillID(i int) []byte {
	id := make([]byte, 21)
	binary.BigEndian.PutUint32(id[17:], uint32(i))
	return id
}

type flushedState struct {
	hash  []byte
	model *sm.World
	base  int64 // filler account i has balance base+i
	ops   []string
}

func buildFlushed(dbase db.Database, r *rand.Rand, base int64) (*flushedState, error) {
	ws := ss.NewWorldState(dbase, nil, nil, nil, nil)
	ws.EnableNodeCache()
	st := &flushedState{model: sm.NewWorld(), base: base}
	for i, n := 0, 4+r.Intn(20); i < n; i++ {
		o := sm.GenOp(r, st.model)
		st.ops = append(st.ops, o.String())
		want := st.model.Apply(o)
		if got := sm.ApplyReal(ws, o); !want.Equal(got) {
			return nil, fmt.Errorf("op %s: model %s real %s", o, want, got)
		}
	}
	for i := 0; i < nFill; i++ {
		ws.GetAccountState(fillID(i)).SetBalance(big.NewInt(base + int64(i)))
	}
	wss := ws.GetSnapshot()
	if err := wss.Flush(); err != nil {
		return nil, err
	}
	st.hash = wss.StateHash()
	return st, nil
}

// readBack reloads a flushed state by hash and returns the differences.
func readBack(dbase db.Database, st *flushedState, r *rand.Rand) []sm.Diff {
	var d []sm.Diff
	if r.Intn(4) == 0 {
		// immutable snapshot by hash
		wss := ss.NewWorldSnapshot(dbase, st.hash, nil, nil, nil)
		d = sm.ObserveWorldSnapshot(wss, st.model, true)
		for i := 0; i < nFill; i++ {
			as := wss.GetAccountSnapshot(fillID(i))
			if as == nil || as.GetBalance().Int64() != st.base+int64(i) {
				d = append(d, sm.Diff{Field: "filler.balance", Acc: i, Want: fmt.Sprint(st.base + int64(i)), Got: fmt.Sprint(as)})
			}
		}
		return d
	}
	ws := ss.NewWorldState(dbase, st.hash, nil, nil, nil)
	ws.EnableNodeCache()
	for _, i := range r.Perm(nFill) {
		as := ws.GetAccountSnapshot(fillID(i))
		if want := st.base + int64(i); as == nil || !as.GetBalance().IsInt64() || as.GetBalance().Int64() != want {
			got := "<nil>"
			if as != nil {
				got = as.GetBalance().String()
			}
			d = append(d, sm.Diff{Field: "filler.balance", Acc: i, Want: fmt.Sprint(want), Got: got})
		}
	}
	for i := 0; i < sm.NAcc; i++ {
		d = sm.ObserveSnapshot(i, ws.GetAccountSnapshot(sm.IDs[i]), st.model.Acc[i], true, d)
	}
	if len(d) > 0 {
		return d
	}
	// dirty one account and put the same contents back: the recomputed hash is the flushed one
	k := r.Intn(nFill)
	as := ws.GetAccountState(fillID(k))
	as.SetBalance(big.NewInt(st.base + int64(k) + 1))
	if r.Intn(2) == 0 {
		ws.GetSnapshot()
	}
	as.SetBalance(big.NewInt(st.base + int64(k)))
	if h := ws.GetSnapshot().StateHash(); !bytes.Equal(h, st.hash) {
		d = append(d, sm.Diff{Field: "statehash", Want: hx(st.hash), Got: hx(h)})
	}
	return d
}

func concurrentReload(c *ev.Ctx, r *rand.Rand) {
	dbase := cache.AttachManager(db.NewMapDB(), "", 0, 0, 0)
	if cache.WorldNodeCacheOf(dbase) == nil {
		c.Notef("node cache manager could not be attached")
		return
	}
	var mu sync.Mutex
	var states []*flushedState
	fail := func(key string, st *flushedState, d []sm.Diff, who string) {
		c.Violation(key+"."+diffKey(d), map[string]interface{}{"state_hash": hx(st.hash), "filler_base": st.base,
			"state_ops": st.ops, "diffs": d, "reader": who, "flushed_states": len(states)})
	}
	for j := 0; j < 3; j++ {
		st, err := buildFlushed(dbase, r, int64(1000000*(j+1)))
		if err != nil {
			panic("harness: " + err.Error())
		}
		states = append(states, st)
	}
	// sequential sanity: each state reads back
	for _, st := range states {
		if d := readBack(dbase, st, r); len(d) > 0 {
			fail("nodecache-reload.differs", st, d, "sequential")
			return
		}
	}
	const readers, rounds, extraStates = 4, 30, 6
	var wg sync.WaitGroup
	stop := make(chan struct{})
	var once sync.Once
	for g := 0; g < readers; g++ {
		gr := rand.New(rand.NewSource(r.Int63()))
		wg.Add(1)
		go func(g int) {
			defer wg.Done()
			for i := 0; i < rounds; i++ {
				select {
				case <-stop:
					return
				default:
				}
				mu.Lock()
				st := states[gr.Intn(len(states))]
				mu.Unlock()
				d := readBack(dbase, st, gr)
				c.Count("concurrent_reload_rounds", 1)
				if len(d) > 0 {
					mu.Lock()
					fail("concurrent-reload.differs", st, d, fmt.Sprintf("goroutine %d round %d", g, i))
					mu.Unlock()
					once.Do(func() { close(stop) })
					return
				}
			}
		}(g)
	}
	fr := rand.New(rand.NewSource(r.Int63()))
	wg.Add(1)
	go func() {
		defer wg.Done()
		for j := 0; j < extraStates; j++ {
			select {
			case <-stop:
				return
			default:
			}
			st, err := buildFlushed(dbase, fr, int64(1000000*(j+4)))
			if err != nil {
				mu.Lock()
				c.Violation("concurrent-flush.state-differs-from-model", map[string]interface{}{"err": err.Error()})
				mu.Unlock()
				return
			}
			c.Count("concurrent_flushes", 1)
			mu.Lock()
			states = append(states, st)
			mu.Unlock()
		}
	}()
	wg.Wait()
	c.Count("concurrent_reload_phases", 1)
}
