// Package c19: layered database writes are all-or-nothing.
//
// Shape R: random histories of set/delete/get/has over several buckets through
// a stack of real db.LayerDB objects (1..3 layers over a real MapDB), with
// commits and discards at arbitrary points and direct writes to lower levels,
// stepped in lock-step with an overlay model written here. Every read and,
// after every flush, the full content of every level is compared.
package c19

import (
	"bytes"
	"encoding/hex"
	"fmt"
	"math/rand"
	"sort"
	"strings"
	"sync"

	"github.com/icon-project/goloop/common/db"
	"github.com/icon-project/goloop/common/log"

	"verif/lib/ev"
)

func init() {
	ev.Register(&ev.Prop{
		ID:    "C19",
		Level: "exploration",
		Cases: func(t string) int {
			if t == ev.Thorough {
				return 6400
			}
			return 160
		},
		Batches: func(t string) int { return 16 },
		Rule:    "each case = 125 sequential histories + 1 concurrent history. Sequential history: real MapDB seeded with random content over 3 buckets x 8 keys (empty key, keys that are prefixes of each other, same key bytes in different buckets), 1-3 stacked db.NewLayerDB levels, 20-70 random ops (set/delete/get/has on a random level incl. direct writes below an open layer, old and re-fetched bucket handles, caller buffer scribbled after Set, Flush(true)/Flush(false) on a random level, repeated flushes, post-commit pass-through, post-discard reuse); reference = overlay model (per level: map key->value|tombstone over the level below). Every Get/Has compared; after every flush all levels x all buckets x all keys compared. Concurrent history (race build): 4 writer goroutines on disjoint keys of shared buckets through one layer while another goroutine commits. Non-trivial = distinct sequential history in which a flush hit a level whose overlay held at the same time a write of a new value and a tombstone over a key present below.",
		MinNonTrivial: func(t string) int {
			if t == ev.Thorough {
				return 200000
			}
			return 5000
		},
		Required: []string{"flush_commit_nonempty", "flush_discard_nonempty", "reads_overlay_value", "reads_overlay_tombstone",
			"reads_passthrough", "post_commit_writes", "post_discard_writes", "nested_commit_into_open_layer",
			"delete_then_set", "set_then_delete", "full_compares", "concurrent_histories", "flush_discard_after_commit_rejected"},
		Assumptions: []string{"db.NewMapDB is the durable store (its Get/Has/Set/Delete are the meaning of 'underlying store')",
			"a stored empty value may read back as nil or empty (convention not part of the statement); absence is Get==nil && Has==false"},
		TimeoutSec: func(t string) int {
			if t == ev.Thorough {
				return 7200
			}
			return 600
		},
		Run: run,
	})
}

var bucketIDs = []db.BucketID{db.MerkleTrie, db.BytesByHash, "x"}

var keyUniverse = [][]byte{{}, {0}, {0, 0}, []byte("a"), []byte("ab"), []byte("abc"), {0xff}, []byte("S")}

const nB, nK = 3, 8

// ---- reference model -------------------------------------------------------

type cell struct {
	present bool
	val     []byte
}

// level 0 is the plain store; level i>0 is a layer over level i-1.
type mLevel struct {
	store   map[int]cell // level 0: content; level>0: overlay (present=false => tombstone)
	flushed bool         // level>0: committed => pass-through
}

type model struct {
	lv []*mLevel
}

func idx(b, k int) int { return b*nK + k }

func (m *model) view(l, i int) cell {
	for ; l > 0; l-- {
		lv := m.lv[l]
		if !lv.flushed {
			if c, ok := lv.store[i]; ok {
				return c
			}
		}
	}
	return m.lv[0].store[i]
}

func (m *model) write(l, i int, c cell) {
	for ; l > 0; l-- {
		lv := m.lv[l]
		if !lv.flushed {
			lv.store[i] = c
			return
		}
	}
	if c.present {
		m.lv[0].store[i] = c
	} else {
		delete(m.lv[0].store, i)
	}
}

// flush returns whether an error is expected.
func (m *model) flush(l int, write bool) bool {
	lv := m.lv[l]
	if lv.flushed {
		return !write
	}
	if write {
		ov := lv.store
		lv.store = nil
		lv.flushed = true
		for i, c := range ov {
			m.write(l-1, i, c)
		}
	} else {
		lv.store = map[int]cell{}
	}
	return false
}

// ---- real objects ----------------------------------------------------------

type real struct {
	dbs     []db.Database // level 0 = MapDB, others LayerDB
	handles [][]db.Bucket // cached bucket handles per level
}

func (rl *real) bucket(l, b int, fresh bool) (db.Bucket, error) {
	if !fresh && rl.handles[l][b] != nil {
		return rl.handles[l][b], nil
	}
	bk, err := rl.dbs[l].GetBucket(bucketIDs[b])
	if err != nil {
		return nil, err
	}
	rl.handles[l][b] = bk
	return bk, nil
}

type opRec struct {
	Op     string `json:"op"`
	Level  int    `json:"level"`
	Bucket string `json:"bucket,omitempty"`
	Key    string `json:"key,omitempty"`
	Val    string `json:"val,omitempty"`
	Fresh  bool   `json:"fresh_handle,omitempty"`
}

func (o opRec) String() string {
	return fmt.Sprintf("%s/%d/%s/%s/%s/%v", o.Op, o.Level, o.Bucket, o.Key, o.Val, o.Fresh)
}

type witness struct {
	Levels  int               `json:"levels"`
	Initial map[string]string `json:"initial"`
	Ops     []opRec           `json:"ops"`
	At      string            `json:"at"`
	Want    string            `json:"want"`
	Got     string            `json:"got"`
}

func cellStr(c cell) string {
	if !c.present {
		return "absent"
	}
	return "0x" + hex.EncodeToString(c.val)
}

func gotStr(v []byte, has bool) string {
	s := "has=false"
	if has {
		s = "has=true"
	}
	if v == nil {
		return s + " get=nil"
	}
	return s + " get=0x" + hex.EncodeToString(v)
}

func run(c *ev.Ctx) {
	log.GlobalLogger().SetLevel(log.FatalLevel)
	c.Cases(func(ci int, r *rand.Rand) {
		for h := 0; h < 125 && !c.Stopped(); h++ {
			seed := r.Int63()
			c.Note("seq-history %d seed %d", h, seed)
			if h > 0 {
				c.Eval(1)
			}
			seqHistory(c, rand.New(rand.NewSource(seed)), h)
		}
		seed := r.Int63()
		c.Note("concurrent-history seed %d", seed)
		c.Eval(1)
		concHistory(c, rand.New(rand.NewSource(seed)))
	})
}

func randVal(r *rand.Rand) []byte {
	switch r.Intn(8) {
	case 0:
		return nil
	case 1:
		return []byte{}
	case 2:
		return []byte{0}
	default:
		v := make([]byte, 1+r.Intn(5))
		r.Read(v)
		return v
	}
}

func seqHistory(c *ev.Ctx, r *rand.Rand, hno int) {
	nLevels := 2 + r.Intn(3) // incl. level 0
	if r.Intn(3) == 0 {
		nLevels = 2
	}
	m := &model{}
	rl := &real{}
	base := db.NewMapDB()
	m.lv = append(m.lv, &mLevel{store: map[int]cell{}})
	rl.dbs = append(rl.dbs, base)
	w := &witness{Levels: nLevels - 1, Initial: map[string]string{}}
	// seed the store
	for b := 0; b < nB; b++ {
		bk, _ := base.GetBucket(bucketIDs[b])
		for k := 0; k < nK; k++ {
			if r.Intn(2) == 0 {
				v := randVal(r)
				if err := bk.Set(keyUniverse[k], v); err != nil {
					c.Violation("harness.seed-set-error", err.Error())
					return
				}
				m.lv[0].store[idx(b, k)] = cell{true, append([]byte{}, v...)}
				w.Initial[fmt.Sprintf("%q/%x", string(bucketIDs[b]), keyUniverse[k])] = hex.EncodeToString(v)
			}
		}
	}
	for l := 1; l < nLevels; l++ {
		rl.dbs = append(rl.dbs, db.NewLayerDB(rl.dbs[l-1]))
		m.lv = append(m.lv, &mLevel{store: map[int]cell{}})
	}
	rl.handles = make([][]db.Bucket, nLevels)
	for l := range rl.handles {
		rl.handles[l] = make([]db.Bucket, nB)
	}

	viol := func(key, at, want, got string) {
		w.At, w.Want, w.Got = at, want, got
		cp := *w
		cp.Ops = append([]opRec(nil), w.Ops...)
		c.Violation(key, cp)
	}

	// compares the whole content of every level with the model
	fullCompare := func(after string) bool {
		c.Count("full_compares", 1)
		for l := 0; l < nLevels; l++ {
			for b := 0; b < nB; b++ {
				bk, err := rl.bucket(l, b, l == 0 || r.Intn(2) == 0)
				if err != nil {
					viol("getbucket.error", after, "bucket", err.Error())
					return false
				}
				for k := 0; k < nK; k++ {
					want := m.view(l, idx(b, k))
					got, err1 := bk.Get(keyUniverse[k])
					has, err2 := bk.Has(keyUniverse[k])
					if err1 != nil || err2 != nil {
						viol("read.error", after, cellStr(want), fmt.Sprint(err1, err2))
						return false
					}
					if !agree(want, got, has) {
						at := fmt.Sprintf("%s: level %d bucket %q key %x", after, l, string(bucketIDs[b]), keyUniverse[k])
						key := "content." + after
						if l == 0 {
							key += ".underlying"
						} else {
							key += ".layer-view"
						}
						viol(key, at, cellStr(want), gotStr(got, has))
						return false
					}
				}
			}
		}
		return true
	}

	nOps := 20 + r.Intn(51)
	nontrivial := false
	scratch := make([]byte, 8)
	// per-key last op on the open overlay, to count delete-then-set / set-then-delete
	lastOp := map[[2]int]byte{}
	justFlushed := 0 // 1 = after commit, 2 = after discard
	for i := 0; i < nOps; i++ {
		l := r.Intn(nLevels)
		if r.Intn(3) != 0 {
			l = nLevels - 1 // mostly the top layer
		}
		b, k := r.Intn(nB), r.Intn(nK)
		fresh := r.Intn(4) == 0
		ii := idx(b, k)
		x := r.Intn(20)
		if i == nOps-1 {
			x = 19
		}
		switch {
		case x < 7: // set
			v := randVal(r)
			w.Ops = append(w.Ops, opRec{"set", l, string(bucketIDs[b]), hex.EncodeToString(keyUniverse[k]), hex.EncodeToString(v), fresh})
			bk, err := rl.bucket(l, b, fresh)
			if err != nil {
				viol("getbucket.error", "set", "bucket", err.Error())
				return
			}
			var arg []byte
			if v != nil {
				arg = scratch[:len(v)]
				copy(arg, v)
			}
			if err := bk.Set(keyUniverse[k], arg); err != nil {
				viol("set.error", "set", "nil", err.Error())
				return
			}
			for j := range scratch { // the caller's buffer is the caller's again
				scratch[j] ^= 0xa5
			}
			m.write(l, ii, cell{true, append([]byte{}, v...)})
			if l > 0 && !m.lv[l].flushed {
				if lastOp[[2]int{l, ii}] == 'd' {
					c.Count("delete_then_set", 1)
				}
				lastOp[[2]int{l, ii}] = 's'
			}
			countPost(c, m, l, justFlushed)
		case x < 11: // delete
			w.Ops = append(w.Ops, opRec{"delete", l, string(bucketIDs[b]), hex.EncodeToString(keyUniverse[k]), "", fresh})
			bk, err := rl.bucket(l, b, fresh)
			if err != nil {
				viol("getbucket.error", "delete", "bucket", err.Error())
				return
			}
			if err := bk.Delete(keyUniverse[k]); err != nil {
				viol("delete.error", "delete", "nil", err.Error())
				return
			}
			m.write(l, ii, cell{})
			if l > 0 && !m.lv[l].flushed {
				if lastOp[[2]int{l, ii}] == 's' {
					c.Count("set_then_delete", 1)
				}
				lastOp[[2]int{l, ii}] = 'd'
			}
			countPost(c, m, l, justFlushed)
		case x < 19: // get + has
			w.Ops = append(w.Ops, opRec{"get", l, string(bucketIDs[b]), hex.EncodeToString(keyUniverse[k]), "", fresh})
			bk, err := rl.bucket(l, b, fresh)
			if err != nil {
				viol("getbucket.error", "get", "bucket", err.Error())
				return
			}
			got, err1 := bk.Get(keyUniverse[k])
			has, err2 := bk.Has(keyUniverse[k])
			if err1 != nil || err2 != nil {
				viol("read.error", "get", "", fmt.Sprint(err1, err2))
				return
			}
			want := m.view(l, ii)
			// classify what kind of read this was
			kind := "reads_passthrough"
			for ll := l; ll > 0; ll-- {
				if !m.lv[ll].flushed {
					if cc, ok := m.lv[ll].store[ii]; ok {
						if cc.present {
							kind = "reads_overlay_value"
						} else {
							kind = "reads_overlay_tombstone"
						}
						break
					}
				}
			}
			c.Count(kind, 1)
			if !agree(want, got, has) {
				key := "read.layer." + strings.TrimPrefix(kind, "reads_")
				if l == 0 {
					key = "read.underlying-changed-or-stale"
				}
				viol(key, fmt.Sprintf("op %d", i), cellStr(want), gotStr(got, has))
				return
			}
		default: // flush
			if nLevels == 1 {
				continue
			}
			fl := 1 + r.Intn(nLevels-1)
			if r.Intn(2) == 0 {
				fl = nLevels - 1
			}
			if i == nOps-1 { // every history ends with a flush of its highest open level
				for fl = nLevels - 1; fl > 1 && m.lv[fl].flushed; fl-- {
				}
			}
			write := r.Intn(2) == 0
			w.Ops = append(w.Ops, opRec{Op: map[bool]string{true: "commit", false: "discard"}[write], Level: fl})
			lv := m.lv[fl]
			open := !lv.flushed
			if open {
				hasSet, hasTomb := false, false
				for i2, cc := range lv.store {
					below := m.view(fl-1, i2)
					if cc.present && (!below.present || !bytes.Equal(below.val, cc.val)) {
						hasSet = true
					}
					if !cc.present && below.present {
						hasTomb = true
					}
				}
				if len(lv.store) > 0 {
					if write {
						c.Count("flush_commit_nonempty", 1)
						if fl > 1 && !m.lv[fl-1].flushed {
							c.Count("nested_commit_into_open_layer", 1)
						}
					} else {
						c.Count("flush_discard_nonempty", 1)
					}
				}
				if hasSet && hasTomb {
					nontrivial = true
				}
			}
			wantErr := m.flush(fl, write)
			err := rl.dbs[fl].(db.LayerDB).Flush(write)
			if (err != nil) != wantErr {
				viol("flush.error-mismatch", fmt.Sprintf("flush(%v) level %d", write, fl), fmt.Sprint("error expected: ", wantErr), fmt.Sprint(err))
				return
			}
			if wantErr {
				c.Count("flush_discard_after_commit_rejected", 1)
			}
			after := "after-discard"
			if write {
				after = "after-commit"
			}
			if !open {
				after = "after-repeated-flush"
			}
			for kk := range lastOp {
				if kk[0] == fl {
					delete(lastOp, kk)
				}
			}
			if open && fl == nLevels-1 {
				if write {
					justFlushed = 1
				} else {
					justFlushed = 2
				}
			}
			if !fullCompare(after) {
				return
			}
		}
	}
	if !fullCompare("at-end") {
		return
	}
	if nontrivial {
		var sb strings.Builder
		ks := make([]string, 0, len(w.Initial))
		for k2, v := range w.Initial {
			ks = append(ks, k2+"="+v)
		}
		sort.Strings(ks)
		sb.WriteString(strings.Join(ks, ","))
		for _, o := range w.Ops {
			sb.WriteString(o.String())
			sb.WriteByte(';')
		}
		c.NonTrivial(sb.String())
	}
	if hno < 2 && c.WantSample() {
		cp := *w
		c.Sample(cp)
	}
}

func countPost(c *ev.Ctx, m *model, l int, justFlushed int) {
	if l != len(m.lv)-1 {
		return
	}
	switch {
	case m.lv[l].flushed:
		c.Count("post_commit_writes", 1)
	case justFlushed == 2:
		c.Count("post_discard_writes", 1)
	}
}

// agree decides whether a real read (Get value, Has flag) matches the model cell.
func agree(want cell, got []byte, has bool) bool {
	if !want.present {
		return got == nil && !has
	}
	if !has {
		return false
	}
	if len(want.val) == 0 {
		return len(got) == 0 // nil or empty: convention, not part of the statement
	}
	return got != nil && bytes.Equal(got, want.val)
}

// concHistory: 4 writers on disjoint keys of shared buckets through one layer,
// one committer. Each writer's reads of its own keys must always equal its own
// model (a commit does not change the view); after the join the store equals
// the union of the writers' models.
func concHistory(c *ev.Ctx, r *rand.Rand) {
	base := db.NewMapDB()
	init := map[int]cell{}
	for b := 0; b < nB; b++ {
		bk, _ := base.GetBucket(bucketIDs[b])
		for k := 0; k < nK; k++ {
			if r.Intn(2) == 0 {
				v := randVal(r)
				bk.Set(keyUniverse[k], v)
				init[idx(b, k)] = cell{true, append([]byte{}, v...)}
			}
		}
	}
	nested := r.Intn(2) == 0
	var mid db.LayerDB
	var top db.LayerDB
	if nested {
		mid = db.NewLayerDB(base)
		top = db.NewLayerDB(mid)
	} else {
		top = db.NewLayerDB(base)
	}
	const G = 4
	seeds := make([]int64, G)
	for i := range seeds {
		seeds[i] = r.Int63()
	}
	commitAfter := r.Intn(150)
	finals := make([]map[int]cell, G)
	var wg sync.WaitGroup
	var progress sync.WaitGroup
	progress.Add(1)
	var once sync.Once
	for g := 0; g < G; g++ {
		wg.Add(1)
		go func(g int) {
			defer wg.Done()
			defer once.Do(progress.Done)
			rr := rand.New(rand.NewSource(seeds[g]))
			mine := map[int]cell{}
			for i, cc := range init {
				if (i%nK)%G == g {
					mine[i] = cc
				}
			}
			for i := 0; i < 200; i++ {
				if g == 0 && i == commitAfter {
					once.Do(progress.Done)
				}
				b := rr.Intn(nB)
				k := rr.Intn(nK/G)*G + g // keys k with k%G==g belong to g
				ii := idx(b, k)
				bk, err := top.GetBucket(bucketIDs[b])
				if err != nil {
					c.Violation("concurrent.getbucket.error", err.Error())
					return
				}
				switch rr.Intn(4) {
				case 0:
					v := randVal(rr)
					if err := bk.Set(keyUniverse[k], v); err != nil {
						c.Violation("concurrent.set.error", err.Error())
						return
					}
					mine[ii] = cell{true, append([]byte{}, v...)}
				case 1:
					if err := bk.Delete(keyUniverse[k]); err != nil {
						c.Violation("concurrent.delete.error", err.Error())
						return
					}
					delete(mine, ii)
				default:
					got, err1 := bk.Get(keyUniverse[k])
					has, err2 := bk.Has(keyUniverse[k])
					if err1 != nil || err2 != nil {
						c.Violation("concurrent.read.error", fmt.Sprint(err1, err2))
						return
					}
					c.Count("concurrent_reads", 1)
					if !agree(mine[ii], got, has) {
						c.Violation("concurrent.read.own-write-not-reflected", map[string]interface{}{
							"seeds": seeds, "goroutine": g, "op": i, "bucket": string(bucketIDs[b]), "key": hex.EncodeToString(keyUniverse[k]),
							"want": cellStr(mine[ii]), "got": gotStr(got, has), "commit_after": commitAfter, "nested": nested})
						return
					}
				}
			}
			once.Do(progress.Done)
			finals[g] = mine
		}(g)
	}
	wg.Add(1)
	go func() {
		defer wg.Done()
		progress.Wait()
		if err := top.Flush(true); err != nil {
			c.Violation("concurrent.flush.error", err.Error())
		}
	}()
	wg.Wait()
	if c.Stopped() {
		return
	}
	if err := top.Flush(true); err != nil {
		c.Violation("concurrent.flush.error", err.Error())
		return
	}
	check := func(d db.Database, key string) bool {
		for g := 0; g < G; g++ {
			if finals[g] == nil {
				return false
			}
		}
		for b := 0; b < nB; b++ {
			bk, _ := d.GetBucket(bucketIDs[b])
			for k := 0; k < nK; k++ {
				want := finals[k%G][idx(b, k)]
				got, _ := bk.Get(keyUniverse[k])
				has, _ := bk.Has(keyUniverse[k])
				if !agree(want, got, has) {
					c.Violation(key, map[string]interface{}{
						"seeds": seeds, "bucket": string(bucketIDs[b]), "key": hex.EncodeToString(keyUniverse[k]),
						"want": cellStr(want), "got": gotStr(got, has), "commit_after": commitAfter, "nested": nested})
					return false
				}
			}
		}
		return true
	}
	if nested {
		// committed into the middle layer only: the store must still be the initial content
		for b := 0; b < nB; b++ {
			bk, _ := base.GetBucket(bucketIDs[b])
			for k := 0; k < nK; k++ {
				got, _ := bk.Get(keyUniverse[k])
				has, _ := bk.Has(keyUniverse[k])
				if !agree(init[idx(b, k)], got, has) {
					c.Violation("concurrent.nested.store-changed-before-outer-commit", map[string]interface{}{
						"seeds": seeds, "bucket": string(bucketIDs[b]), "key": hex.EncodeToString(keyUniverse[k]),
						"want": cellStr(init[idx(b, k)]), "got": gotStr(got, has)})
					return
				}
			}
		}
		if !check(mid, "concurrent.commit.middle-layer-differs-from-view") {
			return
		}
		if err := mid.Flush(true); err != nil {
			c.Violation("concurrent.flush.error", err.Error())
			return
		}
	}
	if !check(base, "concurrent.commit.underlying-differs-from-view") {
		return
	}
	c.Count("concurrent_histories", 1)
}
