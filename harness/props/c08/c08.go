// Package c08: block encoding round-trips, binds the body to the header, and
// the decoder never panics on hostile bytes.
package c08

import (
	"bufio"
	"bytes"
	"encoding/hex"
	"fmt"
	"io"
	"math/rand"
	"os"
	"runtime"
	"strings"
	"sync"
	"syscall"
	"time"

	"golang.org/x/crypto/sha3"

	gblock "github.com/icon-project/goloop/block"
	"github.com/icon-project/goloop/common/db"
	"github.com/icon-project/goloop/common/wallet"
	"github.com/icon-project/goloop/consensus"
	"github.com/icon-project/goloop/module"
	"github.com/icon-project/goloop/service/platform/basic"
	"github.com/icon-project/goloop/service/transaction"
	"github.com/icon-project/goloop/service/txresult"
	"github.com/icon-project/goloop/test"

	bfix "verif/lib/block"
	"verif/lib/ev"
	"verif/lib/gen"
)

func init() {
	ev.Register(&ev.Prop{
		ID:    "C08",
		Level: "exploration",
		Cases: func(t string) int {
			if t == ev.Thorough {
				return 64
			}
			return 8
		},
		Batches: func(t string) int {
			if t == ev.Thorough {
				return 16
			}
			return 8
		},
		Rule: "each case = one real chain of 6 blocks produced by a goloop node (0-50 test transactions per block with payloads across RLP length boundaries, commit votes, half of the chains with an open BTP network so that blocks carry a BTP digest and NS filter) " +
			"decoded by a second node through BlockManager.NewBlockDataFromReader and BlockDataFactory.NewBlockDataFromReader (seekable and plain readers). " +
			"(1) round trip of every block: id, every header field, transaction bytes/ids in order, votes, digest, re-marshalled bytes; store round trip: every block re-materialized from the producer's database by a restarted node (GetBlock by id, GetBlockByHeight) and by the bare block handler (stored-header decoder) must have the id, fields and marshalled bytes recorded at finalization, and those bytes must decode again; header-level round trip of valid blocks re-issued with ~30 DENSE logs blooms per chain (0x01..0xff, its permutations, all-0xff, random with 0-3 zero bytes) compressed by goloop itself: same bloom, id = sha3(header), same bytes. " +
			"(2) mutants of the valid encodings: bit flips (all header bits, a sample of the rest in the quick tier, every bit of blocks up to 1.5 kB in the thorough tier), byte sets, truncations, inserted/deleted bytes, every RLP length field inflated/deflated (also inside the nested encodings of votes, digest and result), body parts of another block under this header (whole body, transactions, votes, digest), transactions swapped/dropped/duplicated/moved between patch and normal list. " +
			"(3) hostile inputs: structured blocks with self-consistent hashes and hostile parts (BTP digests with boundary network ids, crafted vote lists, foreign/garbled transactions, proposer/bloom/result/filter of odd shapes, wrong item counts, non-canonical integers), RLP-shaped random trees and random bytes. " +
			"Oracle: no panic in decoding or in using the decoded block (ID, Marshal, accessors); an accepted input's decoded transactions/votes/digest hash (recomputed here: sha3, a fresh transaction list on a fresh DB, own RLP splitter) to the fields of the input's header and its filter matches the digest; " +
			"an accepted input whose header bytes are those of a valid block X has exactly X's content. Non-trivial = distinct input that is not a valid encoding and that the harness's own splitter frames as header list + body list (it exercises the stages behind framing), or a body-swap mutant.",
		MinNonTrivial: func(t string) int {
			if t == ev.Thorough {
				return 1000000
			}
			return 30000
		},
		Required: []string{
			"roundtrip_blocks", "roundtrip_blocks_with_txs", "roundtrip_blocks_with_digest", "roundtrip_blocks_with_votes",
			"mutant_bitflip", "mutant_truncate", "mutant_bodyswap", "mutant_txlist", "mutant_length_field",
			"hostile_structured", "hostile_random", "hostile_rlp_tree",
			"accepted_checked", "rejected", "bodyswap_rejected", "accepted_header_mutation",
			"via_manager", "via_factory_plain_reader",
			"roundtrips_with_dense_logs_bloom", "store_reload_checked", "store_reload_with_ns_filter", "store_reload_with_txs",
		},
		Assumptions: []string{
			"golang.org/x/crypto/sha3 and goloop's transaction-list merkle hash (on a fresh DB) as the reference for the committed hashes",
			"goloop test fixtures as the environment (test.ServiceManager parses transactions with the real transaction factories plus the fixture's test transaction)",
			"memory/time exhaustion (decompression bombs) is not judged; only crashes and hash binding",
		},
		TimeoutSec: func(t string) int {
			if t == ev.Thorough {
				return 3000
			}
			return 600
		},
		Run: run,
	})
}

func sum(b []byte) []byte {
	h := sha3.Sum256(b)
	return h[:]
}

// vblock is a valid block with everything the oracles need.
type vblock struct {
	blk    module.Block
	enc    []byte
	hdr    *bfix.Item
	body   *bfix.Item
	txIDs  [][]byte
	ptxIDs [][]byte
}

type env struct {
	c        *ev.Ctx
	r        *rand.Rand
	t        *bfix.QuietT
	ci       int
	A        *test.Node // producer
	D        *test.Node // decoder
	bdf      module.BlockDataFactory
	vbs      []*vblock
	n        int
	curDesc  string
	txn      int
	gs       string
	w        module.Wallet
	decodeNS int64
}

type plainReader struct{ r io.Reader }

func (p *plainReader) Read(b []byte) (int, error) { return p.r.Read(b) }

// goloopFrame finds the innermost goloop function on the panicking stack.
func goloopFrame() string {
	pcs := make([]uintptr, 64)
	n := runtime.Callers(3, pcs)
	fr := runtime.CallersFrames(pcs[:n])
	for {
		f, more := fr.Next()
		// codec and log helpers only relay the failure (MustMarshalToBytes, Panicf): name their caller
		if strings.Contains(f.Function, "github.com/icon-project/goloop/") &&
			!strings.Contains(f.Function, "goloop/common/codec.") && !strings.Contains(f.Function, "goloop/common/log.") {
			fn := f.Function[strings.Index(f.Function, "goloop/")+len("goloop/"):]
			return fn
		}
		if !more {
			return "unknown"
		}
	}
}

type decoded struct {
	bd    module.BlockData
	err   error
	panic string // non-empty: panic value
	where string // goloop frame
	via   string
}

// guard runs f inline. A panic is recovered (value + innermost goloop frame
// that is not a codec/log relay).
func guard(f func()) (pan, where string) {
	defer func() {
		if p := recover(); p != nil {
			pan = fmt.Sprint(p)
			where = goloopFrame()
		}
	}()
	f()
	return
}

// The hang monitor. Every guarded call publishes (sequence number, start
// time, description) in `cur`; one monitor goroutine per child looks at it
// once a second. If the same call is still running after hangAfter AND the
// heap has grown by more than hangHeap since the monitor first saw that call
// (a block decode of a few kB normally returns well within a millisecond and
// may allocate a few MB at most), the call is declared an unbounded
// allocating loop: the monitor samples the stuck goroutine's stack to name the
// looping function, records the violation with the journalled input, writes
// the batch result and ends the child (the stuck goroutine cannot be stopped).
// A slow machine alone never satisfies the heap condition; then the monitor
// keeps waiting and the outer watchdog reports the batch as inconclusive.
const (
	hangAfter = 15 * time.Second
	hangHeap  = 24 << 20
)

type running struct {
	seq   uint64
	start time.Time
	what  string // "decoder" | "decoded-block"
	ci    int
	in    []byte
	via   string
	desc  string
}

var (
	curMu   sync.Mutex
	cur     *running
	curSeq  uint64
	cleanup []string // directories to remove when the monitor ends the child
)

func begin(what string, ci int, in []byte, via, desc string) {
	curMu.Lock()
	curSeq++
	cur = &running{seq: curSeq, start: time.Now(), what: what, ci: ci, in: in, via: via, desc: desc}
	curMu.Unlock()
}

func end() {
	curMu.Lock()
	cur = nil
	curMu.Unlock()
}

var monitorOnce sync.Once

func startMonitor(c *ev.Ctx) {
	monitorOnce.Do(func() {
		go func() {
			var ms runtime.MemStats
			var seenSeq uint64
			var heap0 uint64
			for {
				time.Sleep(time.Second)
				curMu.Lock()
				r := cur
				curMu.Unlock()
				if r == nil || time.Since(r.start) < 3*time.Second {
					continue
				}
				runtime.ReadMemStats(&ms)
				if r.seq != seenSeq {
					seenSeq, heap0 = r.seq, ms.HeapAlloc
					continue
				}
				if time.Since(r.start) < hangAfter || ms.HeapAlloc < heap0 || ms.HeapAlloc-heap0 < hangHeap {
					continue
				}
				where := hungFrame()
				w := map[string]interface{}{"observed": fmt.Sprintf("call did not return after %s and the heap grew by %d MB meanwhile (a block decode normally returns within a millisecond)", time.Since(r.start).Round(time.Second), (ms.HeapAlloc-heap0)>>20)}
				w["case"], w["input"], w["entry_point"], w["mutation"] = r.ci, hexs(r.in), r.via, r.desc
				c.Violation(r.what+".unbounded-loop@"+where, w)
				curMu.Lock()
				dirs := append([]string(nil), cleanup...)
				curMu.Unlock()
				for _, d := range dirs {
					os.RemoveAll(d)
				}
				if err := c.Finish(); err != nil {
					fmt.Fprintln(os.Stderr, err)
					os.Exit(3)
				}
				os.Exit(0)
			}
		}()
	})
}

// goroutineStack returns the goloop functions on the stack of the goroutine
// running guard's f, outermost first.
func goroutineStack() []string {
	buf := make([]byte, 4<<20)
	n := runtime.Stack(buf, true)
	for _, g := range strings.Split(string(buf[:n]), "\n\n") {
		if !strings.Contains(g, "props/c08.guard(") {
			continue
		}
		var fns []string
		for _, ln := range strings.Split(g, "\n") {
			if i := strings.Index(ln, "github.com/icon-project/goloop/"); i >= 0 && !strings.HasPrefix(ln, "\t") {
				fn := ln[i+len("github.com/icon-project/goloop/"):]
				if j := strings.LastIndex(fn, "("); j > 0 {
					fn = fn[:j]
				}
				fns = append([]string{fn}, fns...)
			}
		}
		return fns
	}
	return nil
}

// hungFrame samples the stuck goroutine's stack several times: the deepest
// frame common to all samples is the function that loops (its callees come
// and go), which gives a stable witness key.
func hungFrame() string {
	var common []string
	for i := 0; i < 8; i++ {
		st := goroutineStack()
		if i == 0 {
			common = st
		} else {
			k := 0
			for k < len(common) && k < len(st) && common[k] == st[k] {
				k++
			}
			common = common[:k]
		}
		time.Sleep(30 * time.Millisecond)
	}
	if len(common) == 0 {
		return "unknown"
	}
	return common[len(common)-1]
}

func (e *env) dead() bool { return e.c.Stopped() }

func (e *env) decode(in []byte) (d decoded) {
	e.n++
	which := e.n % 3
	var bd module.BlockData
	var err error
	var f func()
	switch which {
	case 0:
		d.via = "BlockManager.NewBlockDataFromReader(bytes.Reader)"
		e.c.Count("via_manager", 1)
		f = func() { bd, err = e.D.BM.NewBlockDataFromReader(bytes.NewReader(in)) }
	case 1:
		d.via = "BlockDataFactory.NewBlockDataFromReader(plain reader)"
		e.c.Count("via_factory_plain_reader", 1)
		f = func() { bd, err = e.bdf.NewBlockDataFromReader(&plainReader{bytes.NewReader(in)}) }
	default:
		d.via = "BlockDataFactory.NewBlockDataFromReader(bufio.Reader)"
		e.c.Count("via_factory_bufio", 1)
		f = func() { bd, err = e.bdf.NewBlockDataFromReader(bufio.NewReader(bytes.NewReader(in))) }
	}
	begin("decoder", e.ci, in, d.via, e.curDesc)
	t0 := time.Now()
	d.panic, d.where = guard(f)
	e.decodeNS += time.Since(t0).Nanoseconds()
	end()
	d.bd, d.err = bd, err
	return
}

func txIDsOf(l module.TransactionList) (ids [][]byte, raws [][]byte, txs []module.Transaction, err error) {
	for it := l.Iterator(); it.Has(); {
		tx, _, e := it.Get()
		if e != nil {
			return nil, nil, nil, e
		}
		ids = append(ids, tx.ID())
		raws = append(raws, tx.Bytes())
		txs = append(txs, tx)
		if e := it.Next(); e != nil {
			return nil, nil, nil, e
		}
	}
	return
}

func listHash(txs []module.Transaction) []byte {
	return transaction.NewTransactionListFromSlice(db.NewMapDB(), txs).Hash()
}

func eqIDs(a, b [][]byte) bool {
	if len(a) != len(b) {
		return false
	}
	for i := range a {
		if !bytes.Equal(a[i], b[i]) {
			return false
		}
	}
	return true
}

// ownFilter computes the network section filter of a digest from its bytes
// with the harness's splitter: bit id of a 32-byte ring, trimmed to the
// highest touched byte. ok=false when an id is negative (no defined filter).
func ownFilter(digest []byte) (f []byte, ok bool) {
	if digest == nil {
		return nil, true
	}
	it, _, err := bfix.Split(digest)
	if err != nil || !it.List || len(it.Items) < 1 || !it.Items[0].List {
		return nil, false
	}
	buf := make([]byte, 32)
	top := -1
	for _, ntd := range it.Items[0].Items {
		if !ntd.List || len(ntd.Items) < 4 || !ntd.Items[3].List {
			return nil, false
		}
		for _, nd := range ntd.Items[3].Items {
			if !nd.List || len(nd.Items) < 1 {
				return nil, false
			}
			id, iok := nd.Items[0].Int()
			if !iok || id < 0 {
				return nil, false
			}
			i := int(id/8) % 32
			buf[i] |= 1 << uint(id%8)
			if i > top {
				top = i
			}
		}
	}
	if top < 0 {
		return nil, true
	}
	return buf[:top+1], true
}

func hexs(b []byte) string { return hex.EncodeToString(b) }

// use exercises the decoded block the way a node does after decoding.
func (e *env) use(bd module.BlockData, in []byte) (pan, where string) {
	begin("decoded-block", e.ci, in, "", e.curDesc)
	pan, where = guard(func() { useBlock(bd) })
	end()
	return
}

func useBlock(bd module.BlockData) {
	_ = bd.ID()
	_ = bd.Hash()
	_ = bd.Marshal(io.Discard)
	_ = bd.Version()
	if lb := bd.LogsBloom(); lb != nil {
		_ = lb.Bytes()
		_ = lb.CompressedBytes()
	}
	if p := bd.Proposer(); p != nil {
		_ = p.Bytes()
		_ = p.String()
	}
	if v := bd.Votes(); v != nil {
		_ = v.Bytes()
		_ = v.Hash()
		_ = v.Timestamp()
		_ = v.VoteRound()
		for i := 0; i < v.NTSDProofCount(); i++ {
			_ = v.NTSDProofAt(i)
		}
	}
	f := bd.NetworkSectionFilter()
	_ = f.Bytes()
	if dg, err := bd.BTPDigest(); err == nil && dg != nil {
		_ = dg.Bytes()
		_ = dg.Hash()
		_ = dg.NetworkSectionFilter()
		_ = dg.NTSHashEntryListFormat()
		for _, ntd := range dg.NetworkTypeDigests() {
			_ = ntd.NetworkTypeID()
			_ = ntd.NetworkTypeSectionHash()
			for _, nd := range ntd.NetworkDigests() {
				_ = nd.NetworkID()
				_ = nd.NetworkSectionHash()
			}
		}
	}
	if l, err := bd.NTSHashEntryList(); err == nil && l != nil {
		for i := 0; i < l.NTSHashEntryCount(); i++ {
			_ = l.NTSHashEntryAt(i)
		}
	}
	_, _ = bd.ToJSON(module.JSONVersionLast)
}

// feed decodes one non-valid input and applies the oracles. base is the valid
// block whose header bytes the input keeps unchanged (or nil).
func (e *env) feed(kind, desc string, in []byte, base *vblock) {
	c := e.c
	c.Eval(1)
	c.Note("%s %s len=%d", kind, desc, len(in))
	e.curDesc = kind + " " + desc
	c.Count(kind, 1)
	d := e.decode(in)
	wit := func(extra map[string]interface{}) map[string]interface{} {
		w := map[string]interface{}{"case": e.ci, "kind": kind, "mutation": desc, "input": hexs(in), "entry_point": d.via}
		if base != nil {
			w["base_block_height"] = base.blk.Height()
			w["base_block"] = hexs(base.enc)
		}
		for k, v := range extra {
			w[k] = v
		}
		return w
	}
	if d.panic != "" {
		c.Violation("decoder.panic@"+d.where, wit(map[string]interface{}{"panic": d.panic}))
		return
	}
	// framing by the harness's own splitter
	hdr, rest, herr := bfix.Split(in)
	var body *bfix.Item
	var berr error
	if herr == nil {
		body, _, berr = bfix.Split(rest)
	}
	framed := herr == nil && berr == nil && hdr.List && body.List
	if framed || kind == "mutant_bodyswap" {
		c.NonTrivial(string(in))
	}
	if d.err != nil || d.bd == nil {
		c.Count("rejected", 1)
		if base != nil && (kind == "mutant_bodyswap" || kind == "mutant_txlist") {
			c.Count("bodyswap_rejected", 1)
		}
		return
	}
	bd := d.bd
	c.Count("accepted_checked", 1)
	if pan, where := e.use(bd, in); pan != "" {
		c.Violation("decoded-block.panic@"+where, wit(map[string]interface{}{"panic": pan}))
		return
	}
	if !framed || len(hdr.Items) < 11 {
		c.Count("accepted_but_harness_splitter_disagrees", 1)
		c.Notef("case %d: accepted input the harness splitter does not frame (%s %s)", e.ci, kind, desc)
		return
	}
	h := hdr.Items
	// ---- hash binding ----
	_, nraws, ntxs, err1 := txIDsOf(bd.NormalTransactions())
	_, _, ptxs, err2 := txIDsOf(bd.PatchTransactions())
	if err1 != nil || err2 != nil {
		c.Violation("accepted.tx-list-unreadable", wit(map[string]interface{}{"err": fmt.Sprint(err1, err2)}))
		return
	}
	if nh := listHash(ntxs); !bytes.Equal(nh, h[8].Bytes()) {
		c.Violation("accepted.hash-mismatch.normal-transactions", wit(map[string]interface{}{"header": hexs(h[8].Bytes()), "recomputed": hexs(nh)}))
	}
	if ph := listHash(ptxs); !bytes.Equal(ph, h[7].Bytes()) {
		c.Violation("accepted.hash-mismatch.patch-transactions", wit(map[string]interface{}{"header": hexs(h[7].Bytes()), "recomputed": hexs(ph)}))
	}
	if len(body.Items) >= 2 && body.Items[1].List && len(body.Items[1].Items) != len(nraws) {
		c.Violation("accepted.tx-count-differs-from-body", wit(map[string]interface{}{"body_items": len(body.Items[1].Items), "decoded": len(nraws)}))
	}
	if vh := sum(bd.Votes().Bytes()); !bytes.Equal(vh, h[5].Bytes()) {
		c.Violation("accepted.hash-mismatch.votes", wit(map[string]interface{}{"header": hexs(h[5].Bytes()), "recomputed": hexs(vh)}))
	}
	dg, derr := bd.BTPDigest()
	if derr != nil || dg == nil {
		c.Violation("accepted.digest-unavailable", wit(map[string]interface{}{"err": fmt.Sprint(derr)}))
		return
	}
	var dh []byte
	if dg.Bytes() != nil {
		dh = sum(dg.Bytes())
	}
	var committed []byte
	if res := h[10].Bytes(); len(res) > 0 {
		// result = [stateHash, patchReceiptHash, normalReceiptHash, extensionData, exFlags, btpData (if exFlags&1)]
		if ri, _, err := bfix.Split(res); err == nil && ri.List && len(ri.Items) >= 6 {
			if fl, ok := ri.Items[4].Int(); ok && fl&1 != 0 {
				committed = ri.Items[5].Bytes()
			}
		}
	}
	if !bytes.Equal(dh, committed) {
		c.Violation("accepted.hash-mismatch.btp-digest", wit(map[string]interface{}{"header_result_btp_data": hexs(committed), "recomputed": hexs(dh)}))
	}
	var hdrFilter []byte
	if len(h) >= 12 {
		hdrFilter = h[11].Bytes()
	}
	if of, ok := ownFilter(dg.Bytes()); ok && !bytes.Equal(of, hdrFilter) {
		c.Violation("accepted.nsfilter-mismatch", wit(map[string]interface{}{"header": hexs(hdrFilter), "from_digest": hexs(of)}))
	}
	// ---- header fields are the input's ----
	if v, ok := h[1].Int(); ok && v != bd.Height() {
		c.Violation("accepted.field.height", wit(map[string]interface{}{"input": v, "decoded": bd.Height()}))
	}
	if v, ok := h[2].Int(); ok && v != bd.Timestamp() {
		c.Violation("accepted.field.timestamp", wit(map[string]interface{}{"input": v, "decoded": bd.Timestamp()}))
	}
	if !bytes.Equal(h[4].Bytes(), bd.PrevID()) {
		c.Violation("accepted.field.prev-id", wit(nil))
	}
	if !bytes.Equal(h[6].Bytes(), bd.NextValidatorsHash()) {
		c.Violation("accepted.field.next-validators-hash", wit(nil))
	}
	if !bytes.Equal(h[10].Bytes(), bd.Result()) {
		c.Violation("accepted.field.result", wit(nil))
	}
	// ---- body bound to an unchanged valid header ----
	if base != nil && bytes.HasPrefix(in, base.hdr.Raw) {
		ids, _, _, _ := txIDsOf(bd.NormalTransactions())
		pids, _, _, _ := txIDsOf(bd.PatchTransactions())
		same := bytes.Equal(bd.ID(), base.blk.ID()) && eqIDs(ids, base.txIDs) && eqIDs(pids, base.ptxIDs) &&
			bytes.Equal(bd.Votes().Bytes(), base.blk.Votes().Bytes())
		bdg, _ := base.blk.BTPDigest()
		same = same && bytes.Equal(dg.Bytes(), bdg.Bytes())
		if !same {
			c.Violation("body-swap.accepted."+kind, wit(map[string]interface{}{"decoded_id": hexs(bd.ID()), "base_id": hexs(base.blk.ID())}))
		} else {
			c.Count("accepted_same_content_as_base", 1)
		}
	} else if base != nil {
		c.Count("accepted_header_mutation", 1)
	}
}

// ---- producing real chains ----

func genesisFor(w module.Wallet) string {
	return fmt.Sprintf(`{
		"accounts": [
			{"name": "treasury", "address": "hx1000000000000000000000000000000000000000", "balance": "0x0"},
			{"name": "god", "address": "hx0000000000000000000000000000000000000000", "balance": "0x0"}
		],
		"message": "",
		"nid": "0x1",
		"chain": {"validatorList": [ %q ]}
	}`, w.Address().String())
}

var txSizes = []int{0, 1, 10, 40, 54, 55, 56, 57, 100, 200, 254, 255, 256, 257, 1000, 5000}

func (e *env) randomTx() *test.Transaction {
	r := e.r
	n := txSizes[r.Intn(len(txSizes))]
	if r.Intn(4) == 0 {
		n = r.Intn(300)
	}
	b := make([]byte, n)
	for i := range b {
		b[i] = "abcdefghijklmnopqrstuvwxyz0123456789 _-"[r.Intn(39)]
	}
	// unique per chain: a transaction id committed twice makes goloop's txlocator
	// manager race with its own flush goroutine (commitTracker clears loc.id while
	// flushList reads it) - a C11 matter, kept out of this check
	e.txn++
	s := fmt.Sprintf("%d:", e.txn) + string(b)
	return test.NewTx().SetTimestamp(r.Int63n(1000000)).SetVarTest(&s)
}

func (e *env) produce() bool {
	c, r := e.c, e.r
	const dsa = "ecdsa/secp256k1"
	w := wallet.New()
	gs := genesisFor(w)
	e.gs, e.w = gs, w
	e.A = bfix.NewNode(e.t, test.UseGenesis(gs), test.UseWallet(w))
	e.D = bfix.NewNode(e.t, test.UseGenesis(gs))
	var err error
	e.bdf, err = gblock.NewBlockDataFactory(e.D.Chain, nil)
	if err != nil {
		c.Violation("fixture.block-data-factory", err.Error())
		return false
	}
	btpChain := e.ci%2 == 0
	counts := []int{0, 1, 2, 3, 5, 10, 50}
	for h := 1; h <= 6; h++ {
		k := counts[r.Intn(len(counts))]
		if h == 6 && r.Intn(2) == 0 {
			k = 0
		}
		if btpChain && h == 1 {
			tx := test.NewTx().SetTimestamp(1).Call("setRevision", map[string]string{
				"code": fmt.Sprintf("0x%x", basic.MaxRevision),
			}).CallFrom(e.A.CommonAddress(), "setBTPPublicKey", map[string]string{
				"name":   dsa,
				"pubKey": fmt.Sprintf("0x%x", e.A.Chain.WalletFor(dsa).PublicKey()),
			}).Call("openBTPNetwork", map[string]string{
				"networkTypeName": "eth",
				"name":            "eth-test",
				"owner":           e.A.CommonAddress().String(),
			})
			if _, err := e.A.SM.SendTransaction(nil, 0, tx.String()); err != nil {
				c.Violation("fixture.send-tx", err.Error())
				return false
			}
		}
		if btpChain && (h == 3 || h == 4) {
			msg := gen.Bytes(r, 1+r.Intn(80))
			tx := test.NewTx().SetTimestamp(int64(h)).CallFrom(e.A.CommonAddress(), "sendBTPMessage", map[string]string{
				"networkId": "0x1",
				"message":   fmt.Sprintf("0x%x", msg),
			})
			if _, err := e.A.SM.SendTransaction(nil, 0, tx.String()); err != nil {
				c.Violation("fixture.send-tx", err.Error())
				return false
			}
		}
		for i := 0; i < k; i++ {
			if _, err := e.A.SM.SendTransaction(nil, 0, e.randomTx().String()); err != nil {
				// duplicate random tx: ignore
				continue
			}
		}
		var votes module.CommitVoteSet
		if h == 1 {
			votes = consensus.NewEmptyCommitVoteList()
		} else {
			votes = e.A.NewVoteListForLastBlock()
		}
		e.A.ProposeFinalizeBlock(votes)
		bfix.WaitLocators(e.A) // fixture synchronisation, see lib/block
		if errs := e.t.Errors(); len(errs) > 0 {
			c.Violation("fixture.assert.produce", map[string]interface{}{"errors": errs, "height": h, "case": e.ci})
			return false
		}
		blk := e.A.LastBlock
		var buf bytes.Buffer
		if err := blk.Marshal(&buf); err != nil {
			c.Violation("roundtrip.marshal-failed", err.Error())
			return false
		}
		vb := &vblock{blk: blk, enc: buf.Bytes()}
		var rest []byte
		vb.hdr, rest, err = bfix.Split(vb.enc)
		if err == nil {
			vb.body, rest, err = bfix.Split(rest)
		}
		if err != nil || len(rest) != 0 || !vb.hdr.List || !vb.body.List {
			c.Violation("roundtrip.encoding-not-two-rlp-lists", map[string]interface{}{"block": hexs(vb.enc)})
			return false
		}
		vb.txIDs, _, _, _ = txIDsOf(blk.NormalTransactions())
		vb.ptxIDs, _, _, _ = txIDsOf(blk.PatchTransactions())
		e.vbs = append(e.vbs, vb)
	}
	return true
}

// roundTrip checks property part (1) for one valid block.
func (e *env) roundTrip(vb *vblock) {
	c := e.c
	blk := vb.blk
	c.Eval(1)
	c.Note("roundtrip height=%d %x", blk.Height(), vb.enc)
	wit := func(extra map[string]interface{}) map[string]interface{} {
		w := map[string]interface{}{"case": e.ci, "height": blk.Height(), "block": hexs(vb.enc)}
		for k, v := range extra {
			w[k] = v
		}
		return w
	}
	if !bytes.Equal(sum(vb.hdr.Raw), blk.ID()) {
		c.Violation("roundtrip.id-is-not-sha3-of-header", wit(map[string]interface{}{"id": hexs(blk.ID())}))
	}
	for i := 0; i < 3; i++ {
		d := e.decode(vb.enc)
		if d.panic != "" {
			c.Violation("decoder.panic@"+d.where, wit(map[string]interface{}{"panic": d.panic, "entry_point": d.via}))
			return
		}
		if d.err != nil {
			c.Violation("roundtrip.decode-failed", wit(map[string]interface{}{"err": d.err.Error(), "entry_point": d.via}))
			return
		}
		bd := d.bd
		bad := func(f string, a, b interface{}) {
			c.Violation("roundtrip.field."+f, wit(map[string]interface{}{"original": fmt.Sprint(a), "decoded": fmt.Sprint(b), "entry_point": d.via}))
		}
		if !bytes.Equal(bd.ID(), blk.ID()) {
			bad("id", hexs(blk.ID()), hexs(bd.ID()))
		}
		if bd.Version() != blk.Version() {
			bad("version", blk.Version(), bd.Version())
		}
		if bd.Height() != blk.Height() {
			bad("height", blk.Height(), bd.Height())
		}
		if bd.Timestamp() != blk.Timestamp() {
			bad("timestamp", blk.Timestamp(), bd.Timestamp())
		}
		if !bytes.Equal(bd.PrevID(), blk.PrevID()) {
			bad("prev-id", hexs(blk.PrevID()), hexs(bd.PrevID()))
		}
		if (bd.Proposer() == nil) != (blk.Proposer() == nil) || (bd.Proposer() != nil && !bytes.Equal(bd.Proposer().Bytes(), blk.Proposer().Bytes())) {
			bad("proposer", blk.Proposer(), bd.Proposer())
		}
		if !bytes.Equal(bd.NextValidatorsHash(), blk.NextValidatorsHash()) {
			bad("next-validators-hash", hexs(blk.NextValidatorsHash()), hexs(bd.NextValidatorsHash()))
		}
		if !bytes.Equal(bd.Result(), blk.Result()) {
			bad("result", hexs(blk.Result()), hexs(bd.Result()))
		}
		if !bytes.Equal(bd.LogsBloom().Bytes(), blk.LogsBloom().Bytes()) {
			bad("logs-bloom", hexs(blk.LogsBloom().Bytes()), hexs(bd.LogsBloom().Bytes()))
		}
		if !bytes.Equal(bd.Votes().Bytes(), blk.Votes().Bytes()) {
			bad("votes", hexs(blk.Votes().Bytes()), hexs(bd.Votes().Bytes()))
		}
		f1, f2 := bd.NetworkSectionFilter(), blk.NetworkSectionFilter()
		if !bytes.Equal(f1.Bytes(), f2.Bytes()) {
			bad("ns-filter", hexs(f2.Bytes()), hexs(f1.Bytes()))
		}
		dg1, e1 := bd.BTPDigest()
		dg2, e2 := blk.BTPDigest()
		if e1 != nil || e2 != nil || !bytes.Equal(dg1.Bytes(), dg2.Bytes()) {
			bad("btp-digest", fmt.Sprint(e2), fmt.Sprint(e1))
		}
		ids, raws, _, err := txIDsOf(bd.NormalTransactions())
		if err != nil || !eqIDs(ids, vb.txIDs) {
			bad("normal-transactions", len(vb.txIDs), len(ids))
		}
		for j, it := range vb.body.Items[1].Items {
			if j < len(raws) && !bytes.Equal(it.Bytes(), raws[j]) {
				bad("normal-transaction-bytes", hexs(it.Bytes()), hexs(raws[j]))
			}
		}
		pids, _, _, err := txIDsOf(bd.PatchTransactions())
		if err != nil || !eqIDs(pids, vb.ptxIDs) {
			bad("patch-transactions", len(vb.ptxIDs), len(pids))
		}
		var buf bytes.Buffer
		if err := bd.Marshal(&buf); err != nil || !bytes.Equal(buf.Bytes(), vb.enc) {
			c.Violation("roundtrip.remarshal-differs", wit(map[string]interface{}{"remarshalled": hexs(buf.Bytes()), "err": fmt.Sprint(err), "entry_point": d.via}))
		}
	}
	// the producer's own reload from its DB
	if re, err := e.A.BM.GetBlockByHeight(blk.Height()); err != nil {
		c.Violation("roundtrip.reload-failed", wit(map[string]interface{}{"err": err.Error()}))
	} else {
		var buf bytes.Buffer
		if err := re.Marshal(&buf); err != nil || !bytes.Equal(buf.Bytes(), vb.enc) || !bytes.Equal(re.ID(), blk.ID()) {
			c.Violation("roundtrip.reload-differs", wit(map[string]interface{}{"reloaded": hexs(buf.Bytes()), "err": fmt.Sprint(err)}))
		}
	}
	c.Count("roundtrip_blocks", 1)
	if len(vb.txIDs) > 0 {
		c.Count("roundtrip_blocks_with_txs", 1)
	}
	if dg, _ := blk.BTPDigest(); dg != nil && dg.Bytes() != nil {
		c.Count("roundtrip_blocks_with_digest", 1)
	}
	if len(vb.body.Items) > 2 && len(vb.body.Items[2].Bytes()) > 4 {
		c.Count("roundtrip_blocks_with_votes", 1)
	}
	if c.WantSample() {
		dg, _ := blk.BTPDigest()
		c.Sample(map[string]interface{}{"case": e.ci, "height": blk.Height(), "id": hexs(blk.ID()), "encoded_len": len(vb.enc),
			"transactions": len(vb.txIDs), "votes_len": len(blk.Votes().Bytes()), "digest_len": len(dg.Bytes())})
	}
}

// storeRoundTrip: the node also serializes every finalized block into its
// store (header under the block id, votes/transactions/digest by hash) and
// re-materializes it through the stored-header decoder
// (blockV2Handler.NewBlockFromHeaderReader) after a restart or once the block
// has left the manager's cache. A restarted node over the producer's database
// and the bare handler are asked for every block by id and by height: id, all
// fields and the marshalled bytes must be those recorded at finalization, and
// the re-marshalled bytes must decode again on the other node.
func (e *env) storeRoundTrip() {
	c := e.c
	// a second manager over the producer's chain and database = what a restart builds
	// (not a second test.Node: the fixture dereferences a nil manager when NewManager fails)
	var rbm module.BlockManager
	var rerr error
	pan, where := guard(func() { rbm, rerr = gblock.NewManager(e.A.Chain, nil, nil) })
	if pan != "" || rerr != nil || rbm == nil {
		c.Violation("roundtrip.store.restart-failed", map[string]interface{}{"case": e.ci, "err": fmt.Sprint(rerr), "panic": pan, "at": where,
			"last_block": hexs(e.vbs[len(e.vbs)-1].enc)})
		rbm = nil
	} else {
		defer rbm.Term()
	}
	handler := gblock.NewBlockV2Handler(e.A.Chain)
	for _, vb := range e.vbs {
		blk := vb.blk
		c.Note("store-roundtrip height=%d id=%x", blk.Height(), blk.ID())
		type src struct {
			via string
			get func() (module.Block, error)
		}
		srcs := []src{{"handler.GetBlock", func() (module.Block, error) { return handler.GetBlock(blk.ID()) }}}
		if rbm != nil {
			srcs = append(srcs,
				src{"restarted-manager.GetBlock", func() (module.Block, error) { return rbm.GetBlock(blk.ID()) }},
				src{"restarted-manager.GetBlockByHeight", func() (module.Block, error) { return rbm.GetBlockByHeight(blk.Height()) }})
		}
		for _, sc := range srcs {
			c.Eval(1)
			var re module.Block
			var err error
			var enc []byte
			var dgBytes, dgRef []byte
			var ids, pids [][]byte
			pan, where := guard(func() {
				re, err = sc.get()
				if err != nil || re == nil {
					return
				}
				var buf bytes.Buffer
				if merr := re.Marshal(&buf); merr == nil {
					enc = buf.Bytes()
				}
				if dg, derr := re.BTPDigest(); derr == nil && dg != nil {
					dgBytes = dg.Bytes()
				}
				ids, _, _, _ = txIDsOf(re.NormalTransactions())
				pids, _, _, _ = txIDsOf(re.PatchTransactions())
			})
			wit := func(extra map[string]interface{}) map[string]interface{} {
				m := map[string]interface{}{"case": e.ci, "height": blk.Height(), "via": sc.via,
					"finalized_id": hexs(blk.ID()), "finalized_block": hexs(vb.enc)}
				for k, v := range extra {
					m[k] = v
				}
				return m
			}
			if pan != "" {
				c.Violation("roundtrip.store.panic@"+where, wit(map[string]interface{}{"panic": pan}))
				continue
			}
			if err != nil || re == nil {
				c.Violation("roundtrip.store.load-failed", wit(map[string]interface{}{"err": fmt.Sprint(err)}))
				continue
			}
			bad := func(f string, a, b interface{}) {
				c.Violation("roundtrip.store.field."+f, wit(map[string]interface{}{"finalized": fmt.Sprint(a), "reloaded": fmt.Sprint(b)}))
			}
			if !bytes.Equal(re.ID(), blk.ID()) {
				bad("id", hexs(blk.ID()), hexs(re.ID()))
			}
			if re.Version() != blk.Version() || re.Height() != blk.Height() || re.Timestamp() != blk.Timestamp() {
				bad("version-height-timestamp", fmt.Sprint(blk.Version(), blk.Height(), blk.Timestamp()), fmt.Sprint(re.Version(), re.Height(), re.Timestamp()))
			}
			if !bytes.Equal(re.PrevID(), blk.PrevID()) {
				bad("prev-id", hexs(blk.PrevID()), hexs(re.PrevID()))
			}
			if (re.Proposer() == nil) != (blk.Proposer() == nil) || (re.Proposer() != nil && !bytes.Equal(re.Proposer().Bytes(), blk.Proposer().Bytes())) {
				bad("proposer", blk.Proposer(), re.Proposer())
			}
			if !bytes.Equal(re.NextValidatorsHash(), blk.NextValidatorsHash()) {
				bad("next-validators-hash", hexs(blk.NextValidatorsHash()), hexs(re.NextValidatorsHash()))
			}
			if !bytes.Equal(re.Result(), blk.Result()) {
				bad("result", hexs(blk.Result()), hexs(re.Result()))
			}
			if !bytes.Equal(re.LogsBloom().Bytes(), blk.LogsBloom().Bytes()) {
				bad("logs-bloom", hexs(blk.LogsBloom().Bytes()), hexs(re.LogsBloom().Bytes()))
			}
			if !bytes.Equal(re.Votes().Bytes(), blk.Votes().Bytes()) {
				bad("votes", hexs(blk.Votes().Bytes()), hexs(re.Votes().Bytes()))
			}
			f1, f2 := re.NetworkSectionFilter(), blk.NetworkSectionFilter()
			if !bytes.Equal(f1.Bytes(), f2.Bytes()) {
				bad("ns-filter", hexs(f2.Bytes()), hexs(f1.Bytes()))
			}
			if dg, derr := blk.BTPDigest(); derr == nil && dg != nil {
				dgRef = dg.Bytes()
			}
			if !bytes.Equal(dgBytes, dgRef) {
				bad("btp-digest", hexs(dgRef), hexs(dgBytes))
			}
			if !eqIDs(ids, vb.txIDs) || !eqIDs(pids, vb.ptxIDs) {
				bad("transactions", len(vb.txIDs), len(ids))
			}
			if !bytes.Equal(enc, vb.enc) {
				c.Violation("roundtrip.store.marshal-differs", wit(map[string]interface{}{"reloaded_marshal": hexs(enc)}))
				// what a syncing peer would do with it
				if d := e.decode(enc); d.err != nil || d.panic != "" {
					c.Violation("roundtrip.store.remarshal-rejected", wit(map[string]interface{}{"reloaded_marshal": hexs(enc), "err": fmt.Sprint(d.err, d.panic)}))
				}
			} else if d := e.decode(enc); d.err != nil || d.panic != "" || d.bd == nil || !bytes.Equal(d.bd.ID(), blk.ID()) {
				c.Violation("roundtrip.store.remarshal-rejected", wit(map[string]interface{}{"err": fmt.Sprint(d.err, d.panic)}))
			}
			c.Count("store_reload_checked", 1)
			if len(f2.Bytes()) > 0 {
				c.Count("store_reload_with_ns_filter", 1)
			}
			if len(vb.txIDs) > 0 {
				c.Count("store_reload_with_txs", 1)
			}
		}
	}
}

// denseBloomRoundTrip: the header stores the logs bloom LZW-compressed and the
// id is the hash of the re-encoded header, so the round trip depends on
// compress/decompress being exact inverses. Fixture blocks only have sparse
// blooms; here the header of a valid block is re-issued exactly as a node would
// serialize it for a DENSE bloom (goloop's own LogsBloom.CompressedBytes of the
// chosen bloom in the bloom field, everything else unchanged) and must decode
// to a block with that bloom, with id = sha3(header bytes), re-marshalling to
// the same bytes.
func (e *env) denseBloomRoundTrip() {
	c, r := e.c, e.r
	var blooms [][]byte
	seq := make([]byte, 255)
	for i := range seq {
		seq[i] = byte(i + 1)
	}
	blooms = append(blooms, seq, bytes.Repeat([]byte{0xff}, 256))
	for i := 0; i < 4; i++ { // permutations of 1..255: 255 bytes without a repeated pair
		p := append([]byte(nil), seq...)
		r.Shuffle(len(p), func(a, b int) { p[a], p[b] = p[b], p[a] })
		blooms = append(blooms, p)
	}
	for i := 0; i < c.Pick(25, 100); i++ {
		b := gen.Bytes(r, 256)
		if b[0] == 0 {
			b[0] = 1
		}
		for z := r.Intn(4); z > 0; z-- {
			b[1+r.Intn(255)] = 0
		}
		blooms = append(blooms, b)
	}
	for i, bloom := range blooms {
		if e.dead() {
			return
		}
		vb := e.vbs[r.Intn(len(e.vbs))]
		ref := txresult.NewLogsBloom(bloom)
		comp := ref.CompressedBytes()
		h := make([][]byte, len(vb.hdr.Items))
		for j, it := range vb.hdr.Items {
			h[j] = it.Raw
		}
		h[9] = bfix.EncBytes(comp)
		hdr := bfix.EncList(h...)
		in := append(append([]byte(nil), hdr...), vb.body.Raw...)
		c.Eval(1)
		c.Note("dense-bloom #%d bloom=%x", i, bloom)
		e.curDesc = fmt.Sprintf("dense-bloom #%d", i)
		d := e.decode(in)
		wit := func(extra map[string]interface{}) map[string]interface{} {
			m := map[string]interface{}{"case": e.ci, "bloom": hexs(bloom), "compressed_by_goloop": hexs(comp), "input": hexs(in), "entry_point": d.via}
			for k, v := range extra {
				m[k] = v
			}
			return m
		}
		if d.panic != "" {
			c.Violation("decoder.panic@"+d.where, wit(map[string]interface{}{"panic": d.panic}))
			continue
		}
		if d.err != nil || d.bd == nil {
			c.Violation("roundtrip.dense-bloom.decode-failed", wit(map[string]interface{}{"err": fmt.Sprint(d.err)}))
			continue
		}
		if got := d.bd.LogsBloom().Bytes(); !bytes.Equal(got, ref.Bytes()) {
			c.Violation("roundtrip.field.logs-bloom", wit(map[string]interface{}{"decoded_bloom": hexs(got)}))
		}
		if !bytes.Equal(d.bd.ID(), sum(hdr)) {
			c.Violation("roundtrip.field.id", wit(map[string]interface{}{"decoded_id": hexs(d.bd.ID()), "sha3_of_header": hexs(sum(hdr))}))
		}
		var buf bytes.Buffer
		if err := d.bd.Marshal(&buf); err != nil || !bytes.Equal(buf.Bytes(), in) {
			c.Violation("roundtrip.remarshal-differs", wit(map[string]interface{}{"remarshalled": hexs(buf.Bytes()), "err": fmt.Sprint(err)}))
		}
		c.Count("roundtrips_with_dense_logs_bloom", 1)
	}
}

func run(c *ev.Ctx) {
	bfix.Silence()
	startMonitor(c)
	defer func() {
		var ru syscall.Rusage
		if syscall.Getrusage(syscall.RUSAGE_SELF, &ru) == nil {
			c.Count("cpu_ms", int(ru.Utime.Sec*1000+ru.Utime.Usec/1000+ru.Stime.Sec*1000+ru.Stime.Usec/1000))
		}
	}()
	c.Cases(func(ci int, r *rand.Rand) {
		e := &env{c: c, r: r, t: &bfix.QuietT{}, ci: ci}
		c.Note("chain btp=%v", ci%2 == 0)
		ok := e.produce()
		if e.A != nil {
			defer e.A.Close()
		}
		if e.D != nil {
			defer e.D.Close()
		}
		curMu.Lock()
		cleanup = cleanup[:0]
		for _, nd := range []*test.Node{e.A, e.D} {
			if nd != nil {
				cleanup = append(cleanup, nd.Base)
			}
		}
		curMu.Unlock()
		if !ok {
			return
		}
		for _, vb := range e.vbs {
			e.roundTrip(vb)
		}
		e.storeRoundTrip()
		e.denseBloomRoundTrip()
		for bi, vb := range e.vbs {
			if e.dead() {
				return
			}
			e.byteMutants(bi, vb)
			e.bodyMutants(bi, vb)
		}
		if !e.dead() {
			e.hostile()
		}
		if errs := e.t.Errors(); len(errs) > 0 {
			c.Violation("fixture.assert", map[string]interface{}{"errors": errs, "case": ci})
		}
		c.Count("decode_wall_ms", int(e.decodeNS/1e6))
	})
}
