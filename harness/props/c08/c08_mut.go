package c08

import (
	"fmt"
	"math/rand"

	"github.com/icon-project/goloop/module"
	"github.com/icon-project/goloop/service/transaction"

	bfix "verif/lib/block"
	"verif/lib/gen"
)

func clone(b []byte) []byte { return append([]byte(nil), b...) }

// byteMutants: byte-level mutations of a valid encoding.
func (e *env) byteMutants(bi int, vb *vblock) {
	c, r := e.c, e.r
	enc := vb.enc
	nbits := len(enc) * 8
	// bit flips: every bit of small blocks, a sample of large ones
	limit := c.Pick(1200, 12000)
	if nbits <= limit {
		for b := 0; b < nbits && !e.dead(); b++ {
			e.feed("mutant_bitflip", fmt.Sprintf("block=%d bit=%d", bi, b), gen.FlipBit(clone(enc), b), vb)
		}
	} else {
		// all bits of the header and of the framing of the body, sample of the rest
		hb := len(vb.hdr.Raw)*8 + 64
		if hb > limit/2 {
			hb = limit / 2
		}
		for b := 0; b < hb && !e.dead(); b++ {
			e.feed("mutant_bitflip", fmt.Sprintf("block=%d bit=%d", bi, b), gen.FlipBit(clone(enc), b), vb)
		}
		for i := 0; i < limit-hb && !e.dead(); i++ {
			b := hb + r.Intn(nbits-hb)
			e.feed("mutant_bitflip", fmt.Sprintf("block=%d bit=%d", bi, b), gen.FlipBit(clone(enc), b), vb)
		}
	}
	// truncation at every length (sampled for large)
	step := 1
	if len(enc) > c.Pick(300, 6000) {
		step = len(enc)/c.Pick(300, 6000) + 1
	}
	for n := 0; n < len(enc) && !e.dead(); n += step {
		k := n
		if step > 1 {
			k = n + r.Intn(step)
			if k >= len(enc) {
				k = len(enc) - 1
			}
		}
		e.feed("mutant_truncate", fmt.Sprintf("block=%d len=%d", bi, k), clone(enc[:k]), vb)
	}
	// byte set / insert / delete / trailing garbage
	for i := 0; i < c.Pick(100, 1500) && !e.dead(); i++ {
		off := r.Intn(len(enc))
		m := clone(enc)
		var desc string
		switch r.Intn(6) {
		case 0:
			m[off] = 0x00
			desc = "set00"
		case 1:
			m[off] = 0xff
			desc = "setff"
		case 2:
			m[off]++
			desc = "inc"
		case 3:
			m[off]--
			desc = "dec"
		case 4:
			m = append(m[:off], append([]byte{byte(r.Intn(256))}, m[off:]...)...)
			desc = "insert"
		default:
			m = append(m[:off], m[off+1:]...)
			desc = "delete"
		}
		e.feed("mutant_byte", fmt.Sprintf("block=%d %s off=%d", bi, desc, off), m, vb)
	}
	e.feed("mutant_byte", fmt.Sprintf("block=%d trailing-garbage", bi), append(clone(enc), gen.Bytes(r, 1+r.Intn(40))...), vb)

	// RLP length fields: walk the item tree and inflate/deflate each length prefix
	var walk func(it *bfix.Item, off int, depth int)
	n := 0
	walk = func(it *bfix.Item, off int, depth int) {
		if e.dead() || n > c.Pick(300, 3000) {
			return
		}
		tag := it.Raw[0]
		hdrLen := 0
		switch {
		case tag < 0x80:
		case tag <= 0xb7, tag >= 0xc0 && tag <= 0xf7:
			hdrLen = 1
			for _, d := range []int{1, -1, 8} {
				m := clone(enc)
				nt := int(tag) + d
				if (tag <= 0xb7 && (nt < 0x80 || nt > 0xb7)) || (tag >= 0xc0 && (nt < 0xc0 || nt > 0xf7)) {
					continue
				}
				m[off] = byte(nt)
				n++
				e.feed("mutant_length_field", fmt.Sprintf("block=%d off=%d short%+d", bi, off, d), m, vb)
			}
		default:
			if it.Nil {
				return
			}
			var ll int
			if tag < 0xc0 {
				ll = int(tag) - 0xb7
			} else {
				ll = int(tag) - 0xf7
			}
			hdrLen = 1 + ll
			for _, d := range []int{1, -1, 256} {
				m := clone(enc)
				// add d to the big-endian length
				v := 0
				for i := 0; i < ll; i++ {
					v = v<<8 | int(m[off+1+i])
				}
				v += d
				if v < 0 {
					continue
				}
				for i := ll - 1; i >= 0; i-- {
					m[off+1+i] = byte(v)
					v >>= 8
				}
				n++
				e.feed("mutant_length_field", fmt.Sprintf("block=%d off=%d long%+d", bi, off, d), m, vb)
			}
			// length-of-length inflated to 8 bytes of 0xff (huge allocation request)
			m := append(clone(enc[:off]), tag|0x07)
			m = append(m, 0x7f, 0xff, 0xff, 0xff, 0xff, 0xff, 0xff, 0xff)
			m = append(m, enc[off+hdrLen:]...)
			n++
			e.feed("mutant_length_field", fmt.Sprintf("block=%d off=%d huge", bi, off), m, vb)
		}
		if it.List && depth < 6 {
			o := off + hdrLen
			for _, ch := range it.Items {
				walk(ch, o, depth+1)
				o += len(ch.Raw)
			}
		} else if !it.List && !it.Nil && len(it.Str) >= 2 && it.Str[0] >= 0xc0 && depth < 6 {
			// a byte string that itself holds one RLP list (votes, BTP digest, result):
			// mutate the length fields inside it too
			if in, rest, err := bfix.Split(it.Str); err == nil && len(rest) == 0 && in.List {
				walk(in, off+hdrLen, depth+1)
			}
		}
	}
	walk(vb.hdr, 0, 0)
	walk(vb.body, len(vb.hdr.Raw), 0)
}

func rawList(items []*bfix.Item) []byte {
	var raws [][]byte
	for _, it := range items {
		raws = append(raws, it.Raw)
	}
	return bfix.EncList(raws...)
}

// bodyParts returns the four body items' encodings (digest may be absent).
func bodyParts(b *bfix.Item) [][]byte {
	var out [][]byte
	for _, it := range b.Items {
		out = append(out, it.Raw)
	}
	return out
}

func buildBody(parts [][]byte) []byte { return bfix.EncList(parts...) }

// bodyMutants: the header of vb with a body that is not vb's.
func (e *env) bodyMutants(bi int, vb *vblock) {
	r := e.r
	hdr := vb.hdr.Raw
	own := bodyParts(vb.body)
	put := func(kind, desc string, parts [][]byte) {
		in := append(clone(hdr), buildBody(parts)...)
		e.feed(kind, fmt.Sprintf("block=%d %s", bi, desc), in, vb)
	}
	with := func(i int, v []byte) [][]byte {
		p := make([][]byte, len(own))
		copy(p, own)
		for len(p) <= i {
			p = append(p, bfix.EncNil())
		}
		p[i] = v
		return p
	}
	for oi, other := range e.vbs {
		if oi == bi || e.dead() {
			continue
		}
		op := bodyParts(other.body)
		put("mutant_bodyswap", fmt.Sprintf("whole-body-of=%d", oi), op)
		put("mutant_bodyswap", fmt.Sprintf("normal-txs-of=%d", oi), with(1, op[1]))
		put("mutant_bodyswap", fmt.Sprintf("votes-of=%d", oi), with(2, op[2]))
		if len(op) > 3 {
			put("mutant_bodyswap", fmt.Sprintf("digest-of=%d", oi), with(3, op[3]))
		} else if len(own) > 3 {
			put("mutant_bodyswap", fmt.Sprintf("digest-dropped-like=%d", oi), own[:3])
		}
		put("mutant_bodyswap", fmt.Sprintf("patch-txs:=normal-txs-of=%d", oi), with(0, op[1]))
	}
	if len(own) > 3 {
		put("mutant_bodyswap", "digest-dropped", own[:3])
		put("mutant_bodyswap", "digest-nil", with(3, bfix.EncNil()))
		put("mutant_bodyswap", "digest-empty", with(3, bfix.EncStr(nil)))
		if d := vb.body.Items[3].Bytes(); len(d) > 0 {
			for i := 0; i < 8; i++ {
				put("mutant_bodyswap", "digest-bitflip", with(3, bfix.EncStr(gen.FlipBit(clone(d), r.Intn(len(d)*8)))))
			}
		}
	} else {
		put("mutant_bodyswap", "digest-empty-added", with(3, bfix.EncStr(nil)))
		for _, o := range e.vbs {
			if len(o.body.Items) > 3 {
				put("mutant_bodyswap", "digest-added", with(3, o.body.Items[3].Raw))
				break
			}
		}
	}
	put("mutant_bodyswap", "votes-nil", with(2, bfix.EncNil()))
	put("mutant_bodyswap", "votes-empty", with(2, bfix.EncStr(nil)))
	if v := vb.body.Items[2].Bytes(); len(v) > 0 {
		for i := 0; i < 8; i++ {
			put("mutant_bodyswap", "votes-bitflip", with(2, bfix.EncStr(gen.FlipBit(clone(v), r.Intn(len(v)*8)))))
		}
	}
	// transaction list edits
	txs := vb.body.Items[1].Items
	ntx := len(txs)
	edit := func(desc string, items []*bfix.Item) {
		put("mutant_txlist", desc, with(1, rawList(items)))
	}
	foreign := e.randomTx().Bytes()
	fit := &bfix.Item{Str: foreign, Raw: bfix.EncStr(foreign)}
	edit("append-foreign", append(append([]*bfix.Item{}, txs...), fit))
	edit("prepend-foreign", append([]*bfix.Item{fit}, txs...))
	if ntx > 0 {
		edit("drop-last", txs[:ntx-1])
		edit("drop-first", txs[1:])
		edit("duplicate-last", append(append([]*bfix.Item{}, txs...), txs[ntx-1]))
		edit("all-dropped", nil)
		i := r.Intn(ntx)
		rep := append([]*bfix.Item{}, txs...)
		rep[i] = fit
		edit(fmt.Sprintf("replace-%d", i), rep)
		put("mutant_txlist", "normal-moved-to-patch", with(0, rawList(txs))[:len(own)])
		p := with(0, rawList(txs))
		p[1] = bfix.EncList()
		put("mutant_txlist", "normal-moved-to-patch-and-emptied", p)
	}
	if ntx > 1 {
		for k := 0; k < 4; k++ {
			i, j := r.Intn(ntx), r.Intn(ntx)
			if i == j {
				continue
			}
			sw := append([]*bfix.Item{}, txs...)
			sw[i], sw[j] = sw[j], sw[i]
			edit(fmt.Sprintf("swap-%d-%d", i, j), sw)
		}
		rev := make([]*bfix.Item, ntx)
		for i := range txs {
			rev[ntx-1-i] = txs[i]
		}
		edit("reversed", rev)
		i := r.Intn(ntx - 1)
		drop := append(append([]*bfix.Item{}, txs[:i]...), txs[i+1:]...)
		edit(fmt.Sprintf("drop-%d", i), drop)
	}
}

// ---- hostile inputs ----

func (e *env) boundaryInt() int64 {
	r := e.r
	vals := []int64{0, 1, -1, 2, 7, 8, 127, 128, 255, 256, 257, -128, -129, 32767, 32768, 65535, 65536,
		1<<31 - 1, 1 << 31, -(1 << 31), 1 << 32, 1<<63 - 1, -(1 << 63), -(1 << 40), 1 << 40}
	if r.Intn(3) == 0 {
		return gen.Int64(r)
	}
	return vals[r.Intn(len(vals))]
}

func (e *env) hostileDigest() []byte {
	r := e.r
	nNT := r.Intn(3) + 1
	var ntds [][]byte
	for i := 0; i < nNT; i++ {
		nN := r.Intn(3)
		if r.Intn(2) == 0 {
			nN++
		}
		var nds [][]byte
		for j := 0; j < nN; j++ {
			id := e.boundaryInt()
			if r.Intn(2) == 0 {
				id = int64(r.Intn(300))
			}
			nd := bfix.EncList(bfix.EncInt(id), bfix.EncBytes(gen.Bytes(r, 32)), bfix.EncBytes(gen.Pick(r, []byte(nil), gen.Bytes(r, 32))))
			if r.Intn(10) == 0 {
				nd = bfix.EncList(bfix.EncInt(id))
			}
			nds = append(nds, nd)
		}
		ntid := int64(r.Intn(4))
		if r.Intn(4) == 0 {
			ntid = e.boundaryInt()
		}
		uid := gen.Pick(r, "eth", "icon", "", "x", "eth\x00")
		ntds = append(ntds, bfix.EncList(bfix.EncInt(ntid), bfix.EncStr([]byte(uid)), bfix.EncBytes(gen.Bytes(r, 32)), bfix.EncList(nds...)))
	}
	return bfix.EncList(bfix.EncList(ntds...))
}

func (e *env) hostileVotes(valid []byte) []byte {
	r := e.r
	switch r.Intn(6) {
	case 0:
		return nil
	case 1:
		return valid
	case 2:
		if len(valid) > 0 {
			return gen.FlipBit(clone(valid), r.Intn(len(valid)*8))
		}
		return []byte{0xc0}
	case 3:
		return gen.Bytes(r, r.Intn(100))
	default:
		// crafted: [round, [countWord, hash] | nil, [[ts, sig]...], proofs?]
		var items [][]byte
		for i := 0; i < r.Intn(5); i++ {
			items = append(items, bfix.EncList(bfix.EncInt(e.boundaryInt()), bfix.EncStr(gen.Bytes(r, gen.Pick(r, 65, 64, 66, 0, 1)))))
		}
		psid := bfix.EncNil()
		if r.Intn(2) == 0 {
			psid = bfix.EncList(bfix.EncInt(e.boundaryInt()), bfix.EncStr(gen.Bytes(r, gen.Pick(r, 32, 0, 31))))
		}
		parts := [][]byte{bfix.EncInt(e.boundaryInt()), psid, bfix.EncList(items...)}
		if r.Intn(2) == 0 {
			var pf [][]byte
			for i := 0; i < r.Intn(3); i++ {
				pf = append(pf, bfix.EncStr(gen.Bytes(r, r.Intn(80))))
			}
			parts = append(parts, bfix.EncList(pf...))
		}
		return bfix.EncList(parts...)
	}
}

func (e *env) hostileTx() []byte {
	r := e.r
	switch r.Intn(8) {
	case 0:
		return e.randomTx().Bytes()
	case 1:
		b := e.randomTx().Bytes()
		return gen.FlipBit(b, r.Intn(len(b)*8))
	case 2:
		return []byte(fmt.Sprintf(`{"version":"0x3","from":"hx%040x","to":"hx%040x","value":"0x%x","stepLimit":"0x%x","timestamp":"0x%x","nid":"0x1","nonce":"0x1","signature":"%s"}`,
			r.Int63(), r.Int63(), r.Int63(), r.Int63n(1<<30), r.Int63(), "VAia7YZ2Ji6igKWzjR2YsGa2m53nKPrfK7uXYW78QLE+ATehAVZPC40szvAiA6NEU5gCYB4c4qaQzqDh2ugcHgA="))
	case 3:
		return []byte(fmt.Sprintf(`{"from":"hx%040x","to":"hx%040x","value":"0x%x","fee":"0x2386f26fc10000","timestamp":"%d","tx_hash":"%064x","signature":"AA=="}`,
			r.Int63(), r.Int63(), r.Int63(), r.Int63(), r.Int63()))
	case 4:
		return gen.Bytes(r, 1+r.Intn(120))
	case 5:
		return []byte(gen.Pick(r, `{}`, `{"type":"test"}`, `{"type":"test","timestamp":"0x-1"}`, `{"version":"0x3"}`, `{"version":"0x3","from":1}`, `{`, `[]`, `null`, `{"type":"test","validators":[null]}`, `{"type":"test","call":[{"data":null}]}`))
	case 6:
		// binary (RLP) v3-looking
		return bfix.EncList(bfix.EncInt(3), bfix.EncStr(gen.Bytes(r, 21)), bfix.EncStr(gen.Bytes(r, 21)), bfix.EncInt(e.boundaryInt()), bfix.EncInt(e.boundaryInt()), bfix.EncInt(e.boundaryInt()), bfix.EncInt(1), bfix.EncInt(1), bfix.EncStr(gen.Bytes(r, 65)))
	default:
		return []byte{}
	}
}

// consistentTxHash computes the list hash goloop would compute for the raw
// items, when they all parse (generator side only: it lets hostile inputs get
// past the transaction hash comparison into the later stages).
func consistentTxHash(r *rand.Rand, raws [][]byte) []byte {
	var txs []module.Transaction
	for _, b := range raws {
		tx, err := safeParse(b)
		if err != nil {
			return gen.Bytes(r, 32)
		}
		txs = append(txs, tx)
	}
	defer func() { recover() }()
	return listHash(txs)
}

func safeParse(b []byte) (tx module.Transaction, err error) {
	defer func() {
		if p := recover(); p != nil {
			err = fmt.Errorf("panic: %v", p)
		}
	}()
	return transaction.NewTransaction(b)
}

func encTxs(raws [][]byte) []byte {
	var its [][]byte
	for _, b := range raws {
		its = append(its, bfix.EncStr(b))
	}
	return bfix.EncList(its...)
}

func (e *env) structured(i int) (string, []byte) {
	r := e.r
	vb := e.vbs[r.Intn(len(e.vbs))]
	h := make([][]byte, len(vb.hdr.Items))
	for i, it := range vb.hdr.Items {
		h[i] = it.Raw
	}
	for len(h) < 12 {
		h = append(h, bfix.EncNil())
	}
	b := bodyParts(vb.body)
	for len(b) < 4 {
		b = append(b, bfix.EncNil())
	}
	desc := ""
	nops := 1 + r.Intn(3)
	digestSet := false
	counts := 0
	for k := 0; k < nops; k++ {
		op := r.Intn(12)
		if k == 0 && i%3 == 0 {
			op = 0 // a third of the structured inputs carry a hostile digest
		}
		switch op {
		case 0:
			if digestSet {
				continue
			}
			digestSet = true
			d := e.hostileDigest()
			if r.Intn(8) == 0 && len(d) > 0 {
				d = gen.FlipBit(d, r.Intn(len(d)*8))
			}
			b[3] = bfix.EncStr(d)
			// result = [stateHash, patchReceipts, normalReceipts, extension, exFlags=1, sha3(digest)]
			var res [][]byte
			if ri, _, err := bfix.Split(vb.hdr.Items[10].Bytes()); err == nil && ri.List && len(ri.Items) >= 3 {
				for _, it := range ri.Items[:3] {
					res = append(res, it.Raw)
				}
			} else {
				res = [][]byte{bfix.EncStr(gen.Bytes(r, 32)), bfix.EncNil(), bfix.EncNil()}
			}
			res = append(res, bfix.EncNil(), bfix.EncInt(1), bfix.EncStr(sum(d)))
			h[10] = bfix.EncStr(bfix.EncList(res...))
			if f, ok := ownFilter(d); ok && r.Intn(8) != 0 {
				h[11] = bfix.EncBytes(f)
			} else {
				h[11] = bfix.EncBytes(gen.Pick(r, []byte(nil), gen.Bytes(r, r.Intn(34)), []byte{0x02}))
			}
			desc += "+digest"
		case 1:
			v := e.hostileVotes(vb.body.Items[2].Bytes())
			b[2] = bfix.EncBytes(v)
			if r.Intn(6) != 0 {
				h[5] = bfix.EncStr(sum(v))
			}
			desc += "+votes"
		case 2:
			var raws [][]byte
			for j := 0; j < r.Intn(4); j++ {
				raws = append(raws, e.hostileTx())
			}
			b[1] = encTxs(raws)
			h[8] = bfix.EncBytes(consistentTxHash(r, raws))
			desc += "+ntxs"
		case 3:
			var raws [][]byte
			for j := 0; j < 1+r.Intn(2); j++ {
				raws = append(raws, e.hostileTx())
			}
			b[0] = encTxs(raws)
			h[7] = bfix.EncBytes(consistentTxHash(r, raws))
			desc += "+ptxs"
		case 4:
			h[3] = bfix.EncBytes(gen.Pick(r, []byte(nil), []byte{}, gen.Bytes(r, 20), gen.Bytes(r, 21), append([]byte{byte(2 + r.Intn(250))}, gen.Bytes(r, 20)...), gen.Bytes(r, 22), gen.Bytes(r, 1)))
			desc += "+proposer"
		case 5:
			h[9] = bfix.EncBytes(gen.Pick(r, []byte(nil), []byte{}, gen.Bytes(r, r.Intn(300)), gen.Bytes(r, 256), []byte{0x80}, []byte{0xff, 0xff}))
			desc += "+bloom"
		case 6:
			h[1] = bfix.EncInt(e.boundaryInt())
			h[2] = bfix.EncInt(e.boundaryInt())
			if r.Intn(3) == 0 {
				// non-canonical integers
				h[1] = bfix.EncStr(append([]byte{0, 0}, byte(r.Intn(256))))
				h[2] = bfix.EncStr(gen.Bytes(r, 9))
			}
			desc += "+ints"
		case 7:
			h[10] = bfix.EncBytes(gen.Pick(r, []byte(nil), []byte{}, gen.Bytes(r, r.Intn(100)), bfix.EncList(bfix.EncStr(gen.Bytes(r, 32))),
				bfix.EncList(bfix.EncNil(), bfix.EncNil(), bfix.EncNil(), bfix.EncNil(), bfix.EncNil(), bfix.EncNil()), bfix.EncList(bfix.EncList())))
			desc += "+result"
		case 8:
			h[11] = bfix.EncBytes(gen.Pick(r, []byte(nil), []byte{}, gen.Bytes(r, r.Intn(40)), gen.Bytes(r, 32), gen.Bytes(r, 33)))
			desc += "+filter"
		case 9:
			h[0] = bfix.EncInt(gen.Pick(r, int64(2), 2, 2, 1, 3, 0, -1, 1<<40))
			h[4] = bfix.EncBytes(gen.Pick(r, []byte(nil), gen.Bytes(r, 32), gen.Bytes(r, r.Intn(70))))
			h[6] = bfix.EncBytes(gen.Pick(r, []byte(nil), gen.Bytes(r, 32), gen.Bytes(r, r.Intn(70))))
			desc += "+ver/prev/nvh"
		case 10:
			counts = 1 + r.Intn(4)
			desc += "+counts"
		default:
			// a list where a string is expected and vice versa
			j := r.Intn(len(h))
			h[j] = gen.Pick(r, bfix.EncList(), bfix.EncList(bfix.EncInt(1)), bfix.EncNil())
			if r.Intn(2) == 0 {
				j = r.Intn(len(b))
				b[j] = gen.Pick(r, bfix.EncStr(nil), bfix.EncStr(gen.Bytes(r, 5)), bfix.EncNil(), bfix.EncList(bfix.EncList()))
			}
			desc += "+kinds"
		}
	}
	// wrong item counts (applied last so that the edits above can address all items)
	switch counts {
	case 1:
		h = h[:10]
	case 2:
		h = append(h, bfix.EncStr(gen.Bytes(r, 3)))
	case 3:
		b = b[:2]
	case 4:
		b = append(b, bfix.EncStr(gen.Bytes(r, 3)))
	}
	// trailing nil filter / digest are normally omitted
	if len(h) == 12 && string(h[11]) == string(bfix.EncNil()) && r.Intn(2) == 0 {
		h = h[:11]
	}
	if len(b) == 4 && string(b[3]) == string(bfix.EncNil()) && r.Intn(2) == 0 {
		b = b[:3]
	}
	return desc, append(bfix.EncList(h...), bfix.EncList(b...)...)
}

func (e *env) rlpTree(depth int) []byte {
	r := e.r
	if depth > 3 || r.Intn(3) > 0 {
		switch r.Intn(5) {
		case 0:
			return bfix.EncInt(e.boundaryInt())
		case 1:
			return bfix.EncNil()
		case 2:
			return bfix.EncStr(gen.Bytes(r, 32))
		default:
			return bfix.EncStr(gen.BytesBiased(r, 80))
		}
	}
	var items [][]byte
	for i := 0; i < r.Intn(14); i++ {
		items = append(items, e.rlpTree(depth+1))
	}
	return bfix.EncList(items...)
}

func (e *env) hostile() {
	c, r := e.c, e.r
	ns := c.Pick(1500, 12000)
	for i := 0; i < ns && !e.dead(); i++ {
		desc, in := e.structured(i)
		e.feed("hostile_structured", fmt.Sprintf("#%d%s", i, desc), in, nil)
	}
	for i := 0; i < c.Pick(500, 6000) && !e.dead(); i++ {
		// header-shaped: a list starting with version 2
		var items [][]byte
		items = append(items, bfix.EncInt(2))
		for j := 0; j < 10+r.Intn(3); j++ {
			items = append(items, e.rlpTree(2))
		}
		in := append(bfix.EncList(items...), e.rlpTree(0)...)
		if r.Intn(4) == 0 {
			in = append(e.rlpTree(0), e.rlpTree(0)...)
		}
		e.feed("hostile_rlp_tree", fmt.Sprintf("#%d", i), in, nil)
	}
	for i := 0; i < c.Pick(500, 6000) && !e.dead(); i++ {
		in := gen.Bytes(r, r.Intn(gen.Pick(r, 8, 64, 600, 4096)))
		if len(in) > 2 && r.Intn(2) == 0 {
			// make it look like a long list with version 2
			in[0], in[1], in[2] = 0xf8, byte(len(in)-2), 0x02
		}
		e.feed("hostile_random", fmt.Sprintf("#%d", i), in, nil)
	}
}
