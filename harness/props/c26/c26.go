// Package c26: event-log blooms have no false negatives.
//
// Real code driven: txresult.NewReceipt/AddLog/SetResult (receipt blooms of
// all three receipt versions), receipt serialization (Bytes/Reset, v3 carries
// the bloom compressed), NewReceiptListFromSlice/Flush/NewReceiptListFromHash,
// the block-bloom merge loop of service/transition.go (Merge over the receipt
// iterator), LogsBloom Merge/Contain/Bytes/LogBytes/CompressedBytes/
// NewLogsBloomFromCompressed/RLP/JSON, and the query side exactly as
// server/wsevent.go builds it (AddAddressOfLog, AddIndexedOfLog(pos, value)).
package c26

import (
	"bytes"
	"encoding/binary"
	"encoding/hex"
	"encoding/json"
	"fmt"
	"math/big"
	"math/rand"

	"golang.org/x/crypto/sha3"

	"github.com/icon-project/goloop/common"
	"github.com/icon-project/goloop/common/codec"
	"github.com/icon-project/goloop/common/db"
	"github.com/icon-project/goloop/common/log"
	"github.com/icon-project/goloop/module"
	"github.com/icon-project/goloop/service/txresult"

	"verif/lib/ev"
	"verif/lib/gen"
)

func init() {
	ev.Register(&ev.Prop{
		ID:    "C26",
		Level: "exploration",
		Cases: func(t string) int {
			if t == ev.Thorough {
				return 300000
			}
			return 12000
		},
		Batches: func(t string) int {
			if t == ev.Thorough {
				return 16
			}
			return 8
		},
		Rule: "each case = 1..60 event logs (address from a small pool or random, EOA/contract; 1..5 indexed values of length 0..80 including empty and nil entries, values shared between logs and positions) spread over 1..8 real receipts (receipt versions 1, 2, 3; a third of the receipts are re-read from their serialized bytes), receipt blooms merged into a block bloom through a flushed and reloaded real receipt list (the merge loop of transition.go) and, separately, merged in random order and grouping; the block bloom is then passed through CompressedBytes/NewLogsBloomFromCompressed, Bytes/NewLogsBloom, LogBytes, RLP and JSON. Every emitting address and every non-nil (position,value) must be Contain-ed (query bloom built like server/wsevent.go) in its receipt bloom, the block bloom and every re-encoded form. Every 4th case additionally merges 100..400 high-entropy logs (receipts of 10..120 logs, V3 receipts re-read from their bytes) into one bloom and, after every merged receipt, passes the running bloom through CompressedBytes/NewLogsBloomFromCompressed: restored bloom byte-equal and Contain for everything logged so far (dense = >= 200 non-zero bytes). Non-trivial = distinct case with >= 2 logs in >= 2 receipts, or a distinct dense bloom.",
		MinNonTrivial: func(t string) int { return 5000 },
		Required: []string{"items_address", "items_indexed", "contain_checks", "after_compress_checks", "receipts_v1", "receipts_v2", "receipts_v3",
			"receipts_reloaded", "list_merge_blocks", "dense_series", "dense_bloom_compressed_roundtrips", "full_width_bloom_compressed_roundtrips", "dense_v3_receipts_reloaded", "foreign_impl_checks", "nil_entries_skipped", "empty_values", "negative_controls_absent"},
		Assumptions: []string{
			"logs carry at least one indexed value (the event signature): AddLog by design records nothing for a log without indexed values, so such a log carries no expectation",
			"nil indexed entries are 'no value' and carry no expectation (the query side skips them the same way)",
			"MapDB is the store for the receipt list",
		},
		TimeoutSec: func(t string) int {
			if t == ev.Thorough {
				return 5400
			}
			return 900
		},
		Env: func(string, int) []string { return []string{"GOMAXPROCS=2", "GOGC=400"} },
		Run: run,
	})
}

type logRec struct {
	Addr    common.Address
	Indexed [][]byte
	Data    [][]byte
}

type item struct {
	addr *common.Address // address item, or
	pos  int             // (pos, val) item
	val  []byte
	log  int
	q    *txresult.LogsBloom // cached query bloom
}

func (it item) String() string {
	if it.addr != nil {
		return "addr:" + it.addr.String()
	}
	return fmt.Sprintf("idx%d:%x", it.pos, it.val)
}

// query builds the bloom a client filter would use for the item (server/wsevent.go).
func (it item) query() *txresult.LogsBloom {
	if it.q != nil {
		return it.q
	}
	lb := txresult.NewLogsBloom(nil)
	if it.addr != nil {
		lb.AddAddressOfLog(it.addr)
	} else {
		lb.AddIndexedOfLog(it.pos, it.val)
	}
	return lb
}

// independentBits recomputes the three bit positions in the harness.
func (it item) independentBits() [3]int {
	var pre []byte
	if it.addr != nil {
		pre = append([]byte{0xff}, it.addr.Bytes()...)
	} else {
		pre = append([]byte{byte(it.pos)}, it.val...)
	}
	h := sha3.Sum256(pre)
	var o [3]int
	for i := 0; i < 3; i++ {
		o[i] = int(binary.BigEndian.Uint16(h[2*i:2*i+2]) & 2047)
	}
	return o
}

// foreignBloom is another implementation of module.LogsBloom (Contain/Merge
// must cope with it through Bytes()).
type foreignBloom struct{ b []byte }

func (f *foreignBloom) String() string          { return "0x" + hex.EncodeToString(f.b) }
func (f *foreignBloom) Bytes() []byte           { return f.b }
func (f *foreignBloom) CompressedBytes() []byte { return common.Compress(f.b) }
func (f *foreignBloom) LogBytes() []byte {
	o := make([]byte, 256)
	copy(o[256-len(f.b):], f.b)
	return o
}
func (f *foreignBloom) Contain(module.LogsBloom) bool { panic("not used") }
func (f *foreignBloom) Merge(module.LogsBloom)        { panic("not used") }
func (f *foreignBloom) Equal(o module.LogsBloom) bool { return bytes.Equal(f.b, o.Bytes()) }

func genLogs(r *rand.Rand) []logRec {
	n := 1 + r.Intn(60)
	if r.Intn(3) == 0 {
		n = 1 + r.Intn(4)
	}
	pool := make([]common.Address, 1+r.Intn(5))
	for i := range pool {
		r.Read(pool[i][:])
		pool[i][0] = byte(r.Intn(2))
	}
	vals := make([][]byte, 1+r.Intn(8))
	for i := range vals {
		switch r.Intn(6) {
		case 0:
			vals[i] = []byte{}
		case 1:
			vals[i] = []byte(gen.Pick(r, "Transfer(Address,Address,int)", "ICXTransfer(Address,Address,int)", "Ev(int)", "A()"))
		case 2:
			vals[i] = []byte{byte(r.Intn(256))}
		default:
			vals[i] = gen.Bytes(r, r.Intn(81))
		}
	}
	logs := make([]logRec, n)
	for i := range logs {
		l := &logs[i]
		if r.Intn(4) == 0 {
			r.Read(l.Addr[:])
			l.Addr[0] = byte(r.Intn(2))
		} else {
			l.Addr = pool[r.Intn(len(pool))]
		}
		ni := 1 + r.Intn(5)
		l.Indexed = make([][]byte, ni)
		for j := range l.Indexed {
			switch {
			case j > 0 && r.Intn(8) == 0:
				l.Indexed[j] = nil
			case r.Intn(3) == 0:
				l.Indexed[j] = gen.Bytes(r, r.Intn(81))
			default:
				l.Indexed[j] = vals[r.Intn(len(vals))]
			}
		}
		nd := r.Intn(3)
		for j := 0; j < nd; j++ {
			l.Data = append(l.Data, gen.Bytes(r, r.Intn(20)))
		}
	}
	return logs
}

func hx(b []byte) string { return hex.EncodeToString(b) }

type chk struct {
	c     *ev.Ctx
	logs  []logRec
	items []item
}

func (k *chk) witness(stage string, it item, bloom module.LogsBloom) map[string]interface{} {
	type jl struct {
		Addr    string   `json:"addr"`
		Indexed []string `json:"indexed"`
	}
	var ls []jl
	for _, l := range k.logs {
		j := jl{Addr: l.Addr.String()}
		for _, v := range l.Indexed {
			if v == nil {
				j.Indexed = append(j.Indexed, "nil")
			} else {
				j.Indexed = append(j.Indexed, hx(v))
			}
		}
		ls = append(ls, j)
	}
	return map[string]interface{}{"stage": stage, "missing_item": it.String(), "item_of_log": it.log, "query_bloom": hx(it.query().Bytes()),
		"bloom": hx(bloom.Bytes()), "logs": ls}
}

// mustContain checks all items with index in sel against bloom.
func (k *chk) mustContain(stage string, bloom module.LogsBloom, sel func(item) bool) {
	c := k.c
	for _, it := range k.items {
		if sel != nil && !sel(it) {
			continue
		}
		q := it.query()
		c.Count("contain_checks", 1)
		if !bloom.Contain(q) {
			kind := "indexed"
			if it.addr != nil {
				kind = "address"
			}
			c.Violation("false-negative."+stage+"."+kind, k.witness(stage, it, bloom))
			return
		}
	}
}

func run(c *ev.Ctx) {
	log.GlobalLogger().SetLevel(log.FatalLevel)
	c.Cases(func(ci int, r *rand.Rand) {
		logs := genLogs(r)
		k := &chk{c: c, logs: logs}
		if len(logs) <= 4 {
			for i, l := range logs {
				c.Note("log %d addr=%s indexed=%x", i, l.Addr.String(), l.Indexed)
			}
		} else {
			c.Note("logs=%d", len(logs))
		}
		for li := range logs {
			l := &logs[li]
			ai := item{addr: &l.Addr, log: li}
			ai.q = ai.query()
			k.items = append(k.items, ai)
			c.Count("items_address", 1)
			for p, v := range l.Indexed {
				if v == nil {
					c.Count("nil_entries_skipped", 1)
					continue
				}
				if len(v) == 0 {
					c.Count("empty_values", 1)
				}
				vi := item{pos: p, val: v, log: li}
				vi.q = vi.query()
				k.items = append(k.items, vi)
				c.Count("items_indexed", 1)
			}
		}

		// --- receipts ---
		dbase := db.NewMapDB()
		nr := 1 + r.Intn(8)
		if nr > len(logs) {
			nr = len(logs)
		}
		owner := make([]int, len(logs)) // log -> receipt
		for i := range owner {
			if i < nr {
				owner[i] = i
			} else {
				owner[i] = r.Intn(nr)
			}
		}
		rcts := make([]txresult.Receipt, nr)
		for ri := range rcts {
			var rev module.Revision
			ver := r.Intn(3)
			if ver >= 1 {
				rev = module.LatestRevision
			}
			to := &logs[ri].Addr
			rct := txresult.NewReceipt(dbase, rev, to)
			if ver == 2 {
				rct.AddPayment(to, big.NewInt(int64(1+r.Intn(1000))), nil)
			}
			c.Count(fmt.Sprintf("receipts_v%d", ver+1), 1)
			for li, l := range logs {
				if owner[li] == ri {
					rct.AddLog(&l.Addr, l.Indexed, l.Data)
				}
			}
			rct.SetResult(module.StatusSuccess, big.NewInt(int64(r.Intn(100000))), big.NewInt(int64(r.Intn(100))), nil)
			rcts[ri] = rct
			inThis := func(it item) bool { return owner[it.log] == ri }
			k.mustContain("receipt", rct.LogsBloom(), inThis)
			if r.Intn(3) == 0 {
				// serialized and read back (v3: compressed bloom inside)
				if err := rct.Flush(); err != nil {
					c.Violation("receipt.flush", err.Error())
					return
				}
				bs := rct.Bytes()
				r2 := txresult.NewReceipt(dbase, rev, to)
				if err := r2.(interface {
					Reset(db.Database, []byte) error
				}).Reset(dbase, bs); err != nil {
					c.Violation("receipt.reset", map[string]string{"bytes": hx(bs), "err": err.Error()})
					return
				}
				c.Count("receipts_reloaded", 1)
				k.mustContain("receipt-reloaded", r2.LogsBloom(), inThis)
				if r.Intn(2) == 0 {
					rcts[ri] = r2
				}
			}
		}

		// --- block bloom as transition.go builds it: merge over a real receipt list ---
		var block txresult.LogsBloom
		rl := txresult.NewReceiptListFromSlice(dbase, rcts)
		if r.Intn(2) == 0 {
			if err := rl.Flush(); err != nil {
				c.Violation("receiptlist.flush", err.Error())
				return
			}
			rl = txresult.NewReceiptListFromHash(dbase, rl.Hash())
		}
		block.SetInt64(0)
		cnt := 0
		for itr := rl.Iterator(); itr.Has(); itr.Next() {
			rc, err := itr.Get()
			if err != nil {
				c.Violation("receiptlist.get", err.Error())
				return
			}
			block.Merge(rc.LogsBloom())
			cnt++
		}
		if cnt != nr {
			c.Violation("receiptlist.count", map[string]int{"want": nr, "got": cnt})
			return
		}
		c.Count("list_merge_blocks", 1)
		k.mustContain("block", &block, nil)

		// --- random order / grouping of merges (tree of partial merges) ---
		parts := make([]*txresult.LogsBloom, 0, nr)
		for _, rc := range gen.Shuffle(r, rcts) {
			p := txresult.NewLogsBloom(nil)
			p.Merge(rc.LogsBloom())
			parts = append(parts, p)
		}
		for len(parts) > 1 {
			i := r.Intn(len(parts) - 1)
			if r.Intn(2) == 0 {
				parts[i].Merge(parts[i+1])
			} else {
				// through the foreign-implementation path of Merge
				parts[i].Merge(&foreignBloom{parts[i+1].Bytes()})
			}
			parts = append(parts[:i+1], parts[i+2:]...)
		}
		tree := parts[0]
		k.mustContain("block-regrouped", tree, nil)
		if !tree.Equal(&block) {
			c.Violation("merge.order-dependent", map[string]string{"list_order": hx(block.Bytes()), "regrouped": hx(tree.Bytes())})
		}
		// merging nil / empty changes nothing
		tree.Merge(nil)
		tree.Merge(txresult.NewLogsBloom(nil))
		k.mustContain("block-merged-empty", tree, nil)

		// --- re-encoded forms of the block bloom ---
		cb := block.CompressedBytes()
		fromC := txresult.NewLogsBloomFromCompressed(cb)
		if !fromC.Equal(&block) {
			c.Violation("after-compress.bloom-bytes-differ", map[string]string{"bloom": hx(block.LogBytes()), "compressed": hx(cb), "restored": hx(fromC.Bytes())})
		}
		k.mustContain("after-compress", fromC, nil)
		c.Count("after_compress_checks", len(k.items))
		k.mustContain("after-bytes", txresult.NewLogsBloom(block.Bytes()), nil)
		k.mustContain("after-logbytes", txresult.NewLogsBloom(block.LogBytes()), nil)
		if eb, err := codec.BC.MarshalToBytes(&block); err != nil {
			c.Violation("bloom.rlp-encode", err.Error())
		} else {
			var b2 txresult.LogsBloom
			if _, err := codec.BC.UnmarshalFromBytes(eb, &b2); err != nil {
				c.Violation("bloom.rlp-decode", map[string]string{"bytes": hx(eb), "err": err.Error()})
			} else {
				k.mustContain("after-rlp", &b2, nil)
			}
		}
		if jb, err := json.Marshal(&block); err != nil {
			c.Violation("bloom.json-encode", err.Error())
		} else {
			var b3 txresult.LogsBloom
			if err := json.Unmarshal(jb, &b3); err != nil {
				c.Violation("bloom.json-decode", map[string]string{"json": string(jb), "err": err.Error()})
			} else {
				k.mustContain("after-json", &b3, nil)
			}
		}
		// query given as another LogsBloom implementation
		for n := 0; n < 3 && n < len(k.items); n++ {
			it := k.items[r.Intn(len(k.items))]
			c.Count("foreign_impl_checks", 1)
			if !fromC.Contain(&foreignBloom{it.query().Bytes()}) {
				c.Violation("false-negative.foreign-query", k.witness("foreign-query", it, fromC))
			}
		}
		// a query made of several items of ONE log (address + signature + argument) is contained too
		{
			li := r.Intn(len(logs))
			q := txresult.NewLogsBloom(nil)
			q.AddAddressOfLog(&logs[li].Addr)
			for p, v := range logs[li].Indexed {
				if v != nil && r.Intn(2) == 0 {
					q.AddIndexedOfLog(p, v)
				}
			}
			c.Count("contain_checks", 1)
			if !fromC.Contain(q) {
				c.Violation("false-negative.combined-query", map[string]interface{}{"log": li, "query_bloom": hx(q.Bytes()), "bloom": hx(fromC.Bytes())})
			}
		}

		// evidence only: independent recomputation of the bit positions, and
		// negative controls (items never added are usually absent -> Contain is not constant true)
		agree := true
		for n := 0; n < 2; n++ {
			it := k.items[r.Intn(len(k.items))]
			q := it.query()
			for _, b := range it.independentBits() {
				if q.Bit(b) != 1 {
					agree = false
				}
			}
		}
		if agree {
			c.Count("independent_bits_agree", 1)
		} else {
			c.Count("independent_bits_disagree", 1)
			c.Notef("independent sha3 bit positions differ from the code's (not a C26 violation by itself)")
		}
		absent := item{pos: r.Intn(5), val: gen.Bytes(r, 33)}
		if !block.Contain(absent.query()) {
			c.Count("negative_controls_absent", 1)
		} else {
			c.Count("negative_controls_false_positive", 1)
		}

		nrUsed := map[int]bool{}
		for _, o := range owner {
			nrUsed[o] = true
		}
		if len(logs) >= 2 && len(nrUsed) >= 2 {
			var sb bytes.Buffer
			for li, l := range logs {
				fmt.Fprintf(&sb, "%d|%x|%x;", owner[li], l.Addr[:], l.Indexed)
			}
			c.NonTrivial(sb.String())
		}
		if c.WantSample() && len(logs) <= 3 {
			c.Sample(k.witness("sample", k.items[0], &block))
		}
		// every 4th case: a dense bloom built from hundreds of logs
		if ci%4 == 0 && !c.Stopped() {
			dense(c, r)
		}
	})
}
