package c26

import (
	"math/big"
	"math/rand"

	"github.com/icon-project/goloop/common"
	"github.com/icon-project/goloop/common/db"
	"github.com/icon-project/goloop/module"
	"github.com/icon-project/goloop/service/txresult"

	"verif/lib/ev"
	"verif/lib/gen"
)

func setBytes(lb module.LogsBloom) int {
	n := 0
	for _, b := range lb.LogBytes() {
		if b != 0 {
			n++
		}
	}
	return n
}

// dense merges 100..400 high-entropy event logs (one or several series of
// receipts) into one block bloom and passes the running bloom through
// CompressedBytes/NewLogsBloomFromCompressed after every merged receipt: the
// restored bloom must be byte-equal and must Contain every address and
// indexed value logged so far. V3 receipts (bloom stored compressed) are
// re-read from their bytes as well.
func dense(c *ev.Ctx, r *rand.Rand) {
	dbase := db.NewMapDB()
	var block txresult.LogsBloom
	var items []item
	k := &chk{c: c}
	total := 100 + r.Intn(301)
	series := 1 + r.Intn(3)
	c.Note("dense logs=%d series=%d", total, series)
	li := 0
	for li < total && !c.Stopped() {
		n := 10 + r.Intn(31)
		if r.Intn(6) == 0 {
			n = 60 + r.Intn(60) // one receipt that is dense on its own
		}
		var to common.Address
		r.Read(to[:])
		to[0] = 1
		rev := module.LatestRevision
		rct := txresult.NewReceipt(dbase, rev, &to)
		v3 := r.Intn(2) == 0
		if v3 {
			rct.AddPayment(&to, big.NewInt(int64(1+r.Intn(1000))), nil)
		}
		first := len(items)
		for j := 0; j < n; j++ {
			l := logRec{}
			r.Read(l.Addr[:])
			l.Addr[0] = byte(r.Intn(2))
			for p := 1 + r.Intn(4); p > 0; p-- {
				l.Indexed = append(l.Indexed, gen.Bytes(r, 1+r.Intn(40)))
			}
			k.logs = append(k.logs, l)
			lp := &k.logs[len(k.logs)-1]
			rct.AddLog(&lp.Addr, lp.Indexed, nil)
			a := lp.Addr
			ai := item{addr: &a, log: li}
			ai.q = ai.query()
			items = append(items, ai)
			for p, v := range lp.Indexed {
				vi := item{pos: p, val: v, log: li}
				vi.q = vi.query()
				items = append(items, vi)
			}
			li++
		}
		rct.SetResult(module.StatusSuccess, big.NewInt(1), big.NewInt(1), nil)
		var rb module.LogsBloom = rct.LogsBloom()
		if v3 {
			// the serialized V3 receipt carries the bloom compressed
			if err := rct.Flush(); err == nil {
				r2 := txresult.NewReceipt(dbase, rev, &to)
				if err := r2.(interface {
					Reset(db.Database, []byte) error
				}).Reset(dbase, rct.Bytes()); err != nil {
					c.Violation("dense.receipt-reset", err.Error())
					return
				}
				if !r2.LogsBloom().Equal(rb) {
					c.Violation("dense.receipt-v3-reloaded-bloom-differs", map[string]interface{}{"logs_in_receipt": n, "set_bytes": setBytes(rb),
						"bloom": hx(rb.LogBytes()), "reloaded": hx(r2.LogsBloom().Bytes())})
				}
				k.items = items[first:]
				k.mustContain("dense-receipt-v3-reloaded", r2.LogsBloom(), nil)
				c.Count("dense_v3_receipts_reloaded", 1)
				rb = r2.LogsBloom()
			}
		}
		block.Merge(rb)
		// round trip of the running block bloom after this merge
		cb := block.CompressedBytes()
		restored := txresult.NewLogsBloomFromCompressed(cb)
		sb := setBytes(&block)
		c.Count("compressed_roundtrips_during_merging", 1)
		if sb >= 200 {
			c.Count("dense_bloom_compressed_roundtrips", 1)
		}
		if sb == 256 {
			c.Count("full_width_bloom_compressed_roundtrips", 1)
		}
		c.Eval(1)
		if !restored.Equal(&block) {
			c.Violation("dense.compressed-roundtrip.bloom-differs", map[string]interface{}{"logs_merged": li, "set_bytes": sb, "bloom": hx(block.LogBytes()),
				"compressed": hx(cb), "restored": hx(restored.Bytes())})
		}
		k.items = items
		k.mustContain("dense-after-compress", restored, nil)
		c.Count("after_compress_checks", len(items))
	}
	c.Count("dense_series", 1)
	c.NonTrivial("dense" + string(block.Bytes()))
}
