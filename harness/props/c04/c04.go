// Package c04: vote tallies report a +2/3 majority exactly when one exists.
//
// The real consensus.voteSet (through the verif export hook) is driven with
// sequences of real signed VoteMessages; after every add the harness recounts
// the votes the slots currently hold, by the decision label the generator gave
// each vote, and compares with what the vote set reports.
package c04

import (
	"bytes"
	"fmt"
	"math/rand"
	"strings"

	"github.com/icon-project/goloop/common/codec"
	"github.com/icon-project/goloop/consensus"

	"verif/lib/ev"
	"verif/lib/vote"
)

const (
	maxN = 13
	nDec = 5 // 0 nil, 1 A, 2 B, 3 A' (block A, other part set), 4 C
	nTS  = 2
	nVar = 3 // 0 built locally, 1 decoded from goloop's own wire bytes, 2 decoded from wire bytes with the optional NTS list present but empty
)

var decName = [nDec]string{"nil", "A", "B", "A'", "C"}

type pool struct {
	votes     [maxN][nDec][nTS][nVar]*consensus.VoteMessage
	label     map[*consensus.VoteMessage]int
	vari      map[*consensus.VoteMessage]int
	wireEmpty int // votes whose decoded NTS list is non-nil and empty
	bigCounts int // decisions whose part count uses the top bit of the 16-bit field
	psid      [nDec]*consensus.PartSetID
	rdd       [nDec][]byte
}

func newPool(r *rand.Rand) *pool {
	p := &pool{label: map[*consensus.VoteMessage]int{}, vari: map[*consensus.VoteMessage]int{}}
	height := int64(1 + r.Intn(1000000))
	round := int32(r.Intn(5))
	nid := uint32(1 + r.Intn(0xffff))
	vt := consensus.VoteType(r.Intn(2))
	bid := func() []byte { b := make([]byte, 32); r.Read(b); return b }
	bidA, bidB, bidC := bid(), bid(), bid()
	type dec struct {
		bid  []byte
		psid *consensus.PartSetIDAndAppData
		want *consensus.PartSetID // the model's own copy (count, hash), never derived through ID()
	}
	// part counts over the whole 16-bit field (seed C04d: a count mask one bit short is invisible below 32768)
	cntEdges := []uint16{1, 2, 127, 128, 255, 256, 0x3fff, 0x4000, 0x7fff, 0x8000, 0x8001, 0xfffe, 0xffff}
	mk := func(b []byte) dec {
		cnt := uint16(1 + r.Intn(5))
		switch r.Intn(4) {
		case 0:
			cnt = cntEdges[r.Intn(len(cntEdges))]
		case 1:
			cnt = uint16(1 + r.Intn(0xffff))
		}
		h := bid()
		if cnt >= 0x8000 {
			p.bigCounts++
		}
		return dec{b, vote.PSID(cnt, h, nid), &consensus.PartSetID{Count: cnt, Hash: append([]byte(nil), h...)}}
	}
	decs := [nDec]dec{
		{vote.NilVoteBlockID(nid), nil, nil},
		mk(bidA), mk(bidB), mk(bidA), mk(bidC),
	}
	ts := int64(1600000000000000 + r.Intn(1000000))
	for i := 0; i < maxN; i++ {
		w := vote.Wallet(r)
		for d := 0; d < nDec; d++ {
			for t := 0; t < nTS; t++ {
				m, err := consensus.VerifNewVote(w, height, round, vt, decs[d].bid, decs[d].psid, ts+int64(t))
				if err != nil {
					panic(err)
				}
				bs, err := codec.BC.MarshalToBytes(m)
				if err != nil {
					panic(err)
				}
				m1, err := vote.DecodeVote(bs)
				if err != nil {
					panic(err)
				}
				bs2, ok := vote.AppendEmptyListElement(bs)
				if !ok {
					panic("cannot re-encode vote bytes")
				}
				m2, err := vote.DecodeVote(bs2)
				if err != nil {
					panic(fmt.Sprintf("vote with empty NTS list not decoded: %v %x", err, bs2))
				}
				if m2.NTSVoteBases != nil && len(m2.NTSVoteBases) == 0 && m2.Verify(verifyCtx{}) == nil {
					p.wireEmpty++
				}
				for k, mm := range []*consensus.VoteMessage{m, m1, m2} {
					p.votes[i][d][t][k] = mm
					p.label[mm] = d
					p.vari[mm] = k
				}
			}
		}
	}
	for d := 0; d < nDec; d++ {
		p.psid[d] = decs[d].want
		p.rdd[d] = p.votes[0][d][0][0].RoundDecisionDigest()
	}
	return p
}

// verifyCtx accepts every network id (VoteMessage.Verify's context).
type verifyCtx struct{}

func (verifyCtx) ValidNID(uint32) bool { return true }
func (verifyCtx) NID() int             { return 0 }

type op struct {
	Idx   int  `json:"slot"`
	Dec   int  `json:"decision"`
	TS    int  `json:"ts"`
	Var   int  `json:"variant"` // 0 local, 1 wire, 2 wire with empty NTS list
	Check bool `json:"via_checkAndAdd,omitempty"`
}

func opsString(n int, ops []op) string {
	var sb strings.Builder
	fmt.Fprintf(&sb, "n=%d:", n)
	for _, o := range ops {
		ch := ""
		if o.Check {
			ch = "c"
		}
		fmt.Fprintf(&sb, "%d%s%d%s%s,", o.Idx, decName[o.Dec], o.TS, []string{"", "w", "e"}[o.Var], ch)
	}
	return sb.String()
}

type seqStats struct {
	majority     bool
	replacements int
}

type witness struct {
	N        int            `json:"n_validators"`
	Ops      []op           `json:"ops"`
	Step     int            `json:"failing_step"`
	Slots    []string       `json:"slots_after_step"`
	Recount  map[string]int `json:"recount"`
	Reported string         `json:"reported"`
	Expect   string         `json:"expected"`
	Source   string         `json:"source"`
}

// runSeq drives one sequence through a fresh real vote set and checks every prefix.
func runSeq(c *ev.Ctx, p *pool, n int, ops []op, source string) (st seqStats) {
	vs := consensus.VerifNewVoteSet(n)
	prev := make([]*consensus.VoteMessage, n)
	latched := -1
	fail := func(key string, step int, cnt [nDec]int, reported, expect string) {
		w := witness{N: n, Ops: ops, Step: step, Recount: map[string]int{}, Reported: reported, Expect: expect, Source: source}
		for i := 0; i < n; i++ {
			m := vs.Msg(i)
			if m == nil {
				w.Slots = append(w.Slots, "-")
			} else if d, ok := p.label[m]; ok {
				w.Slots = append(w.Slots, fmt.Sprintf("%s@t%d", decName[d], int(m.Timestamp-p.votes[0][0][0][0].Timestamp)))
			} else {
				w.Slots = append(w.Slots, "?")
			}
		}
		for d := 0; d < nDec; d++ {
			if cnt[d] > 0 {
				w.Recount[decName[d]] = cnt[d]
			}
		}
		c.Violation(key, w)
	}
	floor := 2 * n / 3
	for step, o := range ops {
		v := p.votes[o.Idx][o.Dec][o.TS][o.Var]
		var added bool
		if o.Check {
			added = vs.CheckAndAdd(o.Idx, v)
			c.Count("ops_checkAndAdd", 1)
		} else {
			added = vs.Add(o.Idx, v)
			c.Count("ops_add", 1)
		}
		// recount over what the slots hold now
		var cnt [nDec]int
		nonNil := 0
		slotsOK := true
		for i := 0; i < n; i++ {
			m := vs.Msg(i)
			if i == o.Idx {
				if m != prev[i] && m != v {
					fail("slots.holds-vote-never-given", step, cnt, "", "slot holds its old vote or the vote just added")
					slotsOK = false
				}
			} else if m != prev[i] {
				fail("slots.unrelated-slot-changed", step, cnt, fmt.Sprintf("slot %d changed", i), "only the addressed slot may change")
				slotsOK = false
			}
			if m == nil {
				continue
			}
			nonNil++
			d, ok := p.label[m]
			if !ok {
				slotsOK = false
				continue
			}
			cnt[d]++
		}
		if !slotsOK {
			return
		}
		if prev[o.Idx] != nil && vs.Msg(o.Idx) == v && prev[o.Idx] != v {
			st.replacements++
			c.Count("replacements", 1)
			if p.label[prev[o.Idx]] == o.Dec {
				c.Count("replacements_same_decision_other_timestamp", 1)
			}
		} else if prev[o.Idx] != nil && !added {
			if p.label[prev[o.Idx]] == o.Dec && prev[o.Idx].Timestamp == v.Timestamp {
				c.Count("refused_duplicate", 1)
			} else {
				c.Count("refused_conflicting", 1)
			}
		}
		maj := -1
		maxCnt := 0
		for d := 0; d < nDec; d++ {
			if 3*cnt[d] > 2*n {
				maj = d
			}
			if cnt[d] > maxCnt {
				maxCnt = cnt[d]
			}
		}
		rdd, psid, ok := vs.GetOverTwoThirdsRoundDecisionDigest()
		psid2, ok2 := vs.GetOverTwoThirdsPartSetID()
		reported := "none"
		if ok {
			reported = fmt.Sprintf("digest=%x psid=%v", rdd, psid)
			for d := 0; d < nDec; d++ {
				if bytes.Equal(rdd, p.rdd[d]) {
					reported = "decision " + decName[d]
				}
			}
		}
		switch {
		case ok && maj < 0:
			fail("tally.reports-majority-without-two-thirds", step, cnt, reported, fmt.Sprintf("no decision: max count %d, need 3*count > 2*%d", maxCnt, n))
			return
		case !ok && maj >= 0:
			fail("tally.misses-two-thirds-majority", step, cnt, reported, fmt.Sprintf("decision %s with %d of %d", decName[maj], cnt[maj], n))
			return
		case ok && (!bytes.Equal(rdd, p.rdd[maj]) || !psid.Equal(p.psid[maj])):
			fail("tally.reports-wrong-decision", step, cnt, reported, "decision "+decName[maj])
			return
		}
		if ok2 != ok || !psid.Equal(psid2) {
			fail("tally.partsetid-disagrees-with-digest", step, cnt, fmt.Sprintf("%v/%v vs %v/%v", psid2, ok2, psid, ok), "same answer from both getters")
			return
		}
		if any := vs.HasOverTwoThirds(); any != (3*nonNil > 2*n) {
			fail("tally.any-vote-count", step, cnt, fmt.Sprintf("hasOverTwoThirds=%v", any), fmt.Sprintf("%d of %d slots hold a vote", nonNil, n))
			return
		}
		if latched >= 0 && maj != latched {
			fail("sticky.majority-removed", step, cnt, reported, fmt.Sprintf("decision %s had +2/3 at an earlier step and must keep it", decName[latched]))
			return
		}
		if maj >= 0 {
			if latched < 0 {
				latched = maj
				st.majority = true
				c.Count("majority_reached", 1)
				if maj == 0 {
					c.Count("majority_nil", 1)
				} else {
					c.Count("majority_block", 1)
				}
				if cnt[maj] == floor+1 {
					c.Count("boundary_majority_at_floor_plus_1", 1)
				}
				we := 0
				for i := 0; i < n; i++ {
					if m := vs.Msg(i); m != nil && p.label[m] == maj && p.vari[m] == 2 {
						we++
					}
				}
				if we > 0 && cnt[maj]-we <= floor {
					c.Count("quorums_needing_a_wire_decoded_vote_with_empty_nts_list", 1)
				}
			}
			c.Count("states_with_majority", 1)
		} else {
			if maxCnt == floor && n > 1 {
				c.Count("boundary_no_majority_at_floor", 1)
			}
			c.Count("states_without_majority", 1)
		}
		if latched >= 0 && prev[o.Idx] != nil && p.label[prev[o.Idx]] == latched && o.Dec != latched {
			c.Count("conflicting_vote_against_majority_slot", 1)
		}
		prev[o.Idx] = vs.Msg(o.Idx)
	}
	return
}

// ---- exhaustive part -------------------------------------------------------

type exCfg struct{ n, l int }

// symbol alphabet per slot: nil@t0, A@t0, A@t1, B@t0
var exSym = [4][2]int{{0, 0}, {1, 0}, {1, 1}, {2, 0}}

func exConfigs(tier string) []exCfg {
	if tier == ev.Thorough {
		return []exCfg{{1, 7}, {2, 6}, {3, 6}, {4, 5}, {4, 6}, {5, 5}}
	}
	return []exCfg{{1, 6}, {2, 6}, {3, 5}}
}

func pow(a, b int) int {
	x := 1
	for i := 0; i < b; i++ {
		x *= a
	}
	return x
}

func exCases(tier string) int {
	if tier == ev.Thorough {
		return 256
	}
	return 16
}

func randCases(tier string) int {
	if tier == ev.Thorough {
		return 768
	}
	return 48
}

func seqPerRandCase(tier string) int {
	if tier == ev.Thorough {
		return 8000
	}
	return 4000
}

// ---- random part -----------------------------------------------------------

func genSeq(r *rand.Rand) (int, []op, string) {
	n := 1 + r.Intn(maxN)
	if r.Intn(4) == 0 {
		n = 1 + r.Intn(10)
	}
	l := 1 + r.Intn(6*n)
	ops := make([]op, 0, l)
	rndOp := func() op { return op{Idx: r.Intn(n), Dec: r.Intn(nDec), TS: r.Intn(nTS), Var: r.Intn(nVar)} }
	strat := r.Intn(5)
	name := ""
	switch strat {
	case 0:
		name = "uniform"
		for len(ops) < l {
			ops = append(ops, rndOp())
		}
	case 1:
		name = "favourite"
		fav := r.Intn(nDec)
		for len(ops) < l {
			o := rndOp()
			if r.Intn(10) < 7 {
				o.Dec = fav
			}
			ops = append(ops, o)
		}
	case 2, 3:
		name = "threshold-then-conflict"
		d := r.Intn(nDec)
		perm := r.Perm(n)
		k := 2*n/3 + r.Intn(2) // exactly at the boundary, or one over
		if strat == 3 {
			name = "prefilled-threshold-then-conflict"
			// other slots first hold something else
			for _, s := range perm {
				if r.Intn(2) == 0 {
					o := rndOp()
					o.Idx = s
					ops = append(ops, o)
				}
			}
		}
		for i := 0; i < k && i < n; i++ {
			ops = append(ops, op{Idx: perm[i], Dec: d, TS: r.Intn(nTS), Var: r.Intn(nVar)})
			if r.Intn(4) == 0 {
				ops = append(ops, rndOp())
			}
		}
		extra := 1 + r.Intn(3*n)
		for i := 0; i < extra; i++ {
			o := rndOp()
			switch r.Intn(4) {
			case 0: // revote of a holder of d with something else
				o.Idx = perm[r.Intn(n)]
			case 1: // same decision, other timestamp
				o.Dec = d
			case 2:
				o.Check = true
			}
			ops = append(ops, o)
		}
	default:
		name = "two-camps"
		d1, d2 := r.Intn(nDec), r.Intn(nDec)
		for len(ops) < l {
			o := rndOp()
			if r.Intn(2) == 0 {
				o.Dec = d1
			} else {
				o.Dec = d2
			}
			if r.Intn(12) == 0 {
				o.Check = true
			}
			ops = append(ops, o)
		}
	}
	return n, ops, name
}

func init() {
	ev.Register(&ev.Prop{
		ID:    "C04",
		Level: "exploration",
		Cases: func(t string) int { return exCases(t) + randCases(t) },
		Batches: func(t string) int {
			if t == ev.Thorough {
				return 16
			}
			return 8
		},
		Rule: "sequences of real signed VoteMessages added to the real consensus.voteSet; every prefix checked. " +
			"Exhaustive part: all sequences over (slot x {nil,A@t0,A@t1,B}) for (n,len) in quick {(1,6),(2,6),(3,5)}, thorough {(1,7),(2,6),(3,6),(4,5),(4,6),(5,5)}, split over the first cases. " +
			"Random part: n in 1..13, length up to 6n (+conflict tail), decisions {nil,A,B,A' (block A, other part set),C} x 2 timestamps, strategies uniform / favourite / fill to floor(2n/3) or floor(2n/3)+1 then conflicting re-votes / two camps; some adds through the exported VoteSet.Add (checkAndAdd). " +
			"Every vote exists in three equivalent forms with one label: built locally, decoded from goloop's own wire bytes (consensus.UnmarshalMessage), decoded from wire bytes whose optional 8th element (NTS vote list) is present but empty (same signature, Verify accepts it); sequences mix the forms (exhaustive: form = (slot+position) mod 3; random: uniform). " +
			"Oracle after every add: recount of the votes the slots hold now by generator label; report <=> 3*count > 2*n for that label; reported digest/part-set id identify that label; hasOverTwoThirds <=> 3*held > 2*n; a decision that once had +2/3 keeps it; only the addressed slot changes and it holds its old or the new vote. " +
			"Non-trivial = distinct sequence (n + ops) that reached a +2/3 state and had at least one replacement of a slot's vote.",
		MinNonTrivial: func(t string) int {
			if t == ev.Thorough {
				return 1000000
			}
			return 10000
		},
		Required: []string{"ops_add", "ops_checkAndAdd", "replacements", "replacements_same_decision_other_timestamp",
			"refused_duplicate", "refused_conflicting", "majority_nil", "majority_block",
			"boundary_majority_at_floor_plus_1", "boundary_no_majority_at_floor",
			"conflicting_vote_against_majority_slot", "exhaustive_sequences", "random_sequences",
			"wire_decoded_votes_with_empty_nts_list", "quorums_needing_a_wire_decoded_vote_with_empty_nts_list",
			"decisions_with_part_count_ge_32768"},
		Assumptions: []string{
			"a decision is identified by the label the generator gave the vote (block id, part-set id); labels differ in block id or part-set id",
			"slot contents are read through the verif export hook (voteSet.msgs), not recomputed from goloop's counters",
			"signatures are not checked by voteSet.add (they are real anyway)",
			"same decision = same (type, height, round, block id, part-set id, list of NTS votes) with an empty NTS list equal to an absent one, whatever path built the vote",
		},
		TimeoutSec: func(t string) int {
			if t == ev.Thorough {
				return 3600
			}
			return 900
		},
		Run: run,
	})
}

func run(c *ev.Ctx) {
	vote.Quiet()
	// the pool only fixes keys/ids; behaviour of the vote set does not depend on them
	p := newPool(rand.New(rand.NewSource(c.CaseSeed(-1))))
	c.Count("wire_decoded_votes_with_empty_nts_list", p.wireEmpty)
	c.Count("decisions_with_part_count_ge_32768", p.bigCounts)
	nEx := exCases(c.Tier)
	cfgs := exConfigs(c.Tier)
	perRand := seqPerRandCase(c.Tier)
	c.Cases(func(ci int, r *rand.Rand) {
		ntBudget := 60000
		if ci < nEx {
			for _, cfg := range cfgs {
				alpha := 4 * cfg.n
				total := pow(alpha, cfg.l)
				c.Note("exhaustive n=%d len=%d alphabet=%d sequences g=%d mod %d", cfg.n, cfg.l, alpha, ci, nEx)
				ops := make([]op, cfg.l)
				for g := ci; g < total && !c.Stopped(); g += nEx {
					x := g
					for k := 0; k < cfg.l; k++ {
						s := x % alpha
						x /= alpha
						ops[k] = op{Idx: s / 4, Dec: exSym[s%4][0], TS: exSym[s%4][1], Var: (s/4 + k) % nVar}
					}
					c.Eval(1)
					c.Count("exhaustive_sequences", 1)
					st := runSeq(c, p, cfg.n, append([]op(nil), ops...), fmt.Sprintf("exhaustive n=%d len=%d g=%d", cfg.n, cfg.l, g))
					if st.majority && st.replacements > 0 {
						c.Count("nontrivial_sequences", 1)
						if ntBudget > 0 {
							ntBudget--
							c.NonTrivial(fmt.Sprintf("E%d/%d/%d", cfg.n, cfg.l, g))
						}
					}
				}
			}
			return
		}
		for k := 0; k < perRand && !c.Stopped(); k++ {
			n, ops, strat := genSeq(r)
			enc := opsString(n, ops)
			c.Note("seq %d %s %s", k, strat, enc)
			c.Eval(1)
			c.Count("random_sequences", 1)
			c.Count("strategy_"+strat, 1)
			c.Distinct("n_values", fmt.Sprint(n))
			st := runSeq(c, p, n, ops, fmt.Sprintf("random case=%d seq=%d strategy=%s", ci, k, strat))
			if st.majority && st.replacements > 0 {
				c.Count("nontrivial_sequences", 1)
				c.NonTrivial("R" + enc)
				if c.WantSample() && k%97 == 0 {
					c.Sample(map[string]interface{}{"n": n, "ops": enc, "strategy": strat, "replacements": st.replacements})
				}
			}
		}
	})
}
