// Package c35: rewards never exceed the term's reward budget and a voter's
// reward from a P-Rep is its vote-proportional share.
//
// Phase A drives the real reward calculator objects (calculator.PRepInfo,
// calculator.PRep, calculator.Voter) with consistent random voting histories
// and compares with an independent big-integer recomputation.
// Phase B runs whole simulator histories (icon/icsim, real calculator
// goroutine) and bounds the I-Score credited at every term start.
package c35

import (
	"encoding/json"
	"fmt"
	"math/big"
	"math/rand"
	"sort"

	"github.com/icon-project/goloop/common"
	"github.com/icon-project/goloop/common/log"
	"github.com/icon-project/goloop/icon/icmodule"
	"github.com/icon-project/goloop/icon/iiss/calculator"
	"github.com/icon-project/goloop/icon/iiss/icreward"
	"github.com/icon-project/goloop/icon/iiss/icstage"
	"github.com/icon-project/goloop/icon/iiss/icstate"
	"github.com/icon-project/goloop/module"

	"verif/lib/ev"
	"verif/lib/icon"
)

const (
	vtBond     = calculator.VoteType(1) // calculator.vtBond
	vtDelegate = calculator.VoteType(2) // calculator.vtDelegate
)

func nSim(t string) int {
	if t == ev.Thorough {
		return 96
	}
	return 16
}

func init() {
	ev.Register(&ev.Prop{
		ID:    "C35",
		Level: "exploration",
		Cases: func(t string) int {
			if t == ev.Thorough {
				return 300000 + nSim(t)
			}
			return 20000 + nSim(t)
		},
		Batches: func(t string) int { return 16 },
		Rule:    "phase A (most cases): one consistent random voting history of a term: 1-30 P-Reps (statuses, pubkey flags, commission rates 0-100% biased to 0/100%), 1-40 voters with initial delegations and bonds (P-Rep totals = sums over voters), 0-60 vote events (bond/delegation deltas, never taking a voter's vote below zero), enable/jail events, votes to unknown P-Reps; term period 1-50, elected count 0..n+2, bond requirement 0-100%, funds 1..1e27; driven through calculator.NewPRepInfo/Add/Sort/InitAccumulated/SetStatus/ApplyVote/UpdateTotalAccumulatedPower/CalculateReward and NewVoter/ApplyVoting/ApplyEvent/CalculateReward exactly as iiss4Reward does; oracle = big-int recomputation of the period budgets and of floor(accVotes(v,P)*voterReward(P)/sum_u accVotes(u,P)). Non-trivial = distinct history with >= 1 rewarded P-Rep that has >= 2 voters and >= 1 event. Phase B (first 16 cases; thorough 96): simulator history of 7-9 terms with staking operations, commission rates, wage fund and minimum bond set; voters with an existing delegation re-delegate changed non-zero amounts to the same P-Rep (two scripted accounts every term: one raises, one lowers; random users now and then); at every term start the I-Score newly credited to all accounts (claims added back) must be <= Iprep+Iwage period budget of the rewarded term, and every non-P-Rep account's credit must equal its vote-proportional share: accumulated votes per P-Rep are recomputed from the per-block delegation/bond history (base x termPeriod, change at offset o x (termPeriod-1-o)) and bracketed with the reward of an idle voter of the same P-Rep (same factor voterReward/accVoted).",
		MinNonTrivial: func(t string) int {
			if t == ev.Thorough {
				return 100000
			}
			return 2000
		},
		Required: []string{"histories", "preps_rewarded", "voters_rewarded", "voter_shares_checked", "events_applied",
			"budget_checks", "sim_term_credit_checks", "sim_credit_positive", "wage_paid", "commission_full", "commission_zero",
			"elected_lt_preps", "status_not_enabled", "redelegations_same_prep_changed_amount", "redelegations_same_prep_raised",
			"terms_with_such_events_iiss4", "sim_voter_shares_checked"},
		Assumptions: []string{
			"math/big is the arithmetic reference",
			"the harness replays the voting history to P-Rep side and voter side the way iiss4Reward.processEvents/processVoterReward do",
			"phase B sums the credited I-Score over all accounts the harness knows (every staker of the simulated network)",
		},
		TimeoutSec: func(t string) int {
			if t == ev.Thorough {
				return 7200
			}
			return 900
		},
		Run: run,
	})
}

func addr(i int) *common.Address {
	bs := make([]byte, common.AddressBytes)
	bs[1] = byte(i >> 16)
	bs[common.AddressBytes-2] = byte(i >> 8)
	bs[common.AddressBytes-1] = byte(i)
	return common.MustNewAddress(bs)
}

func randAmount(r *rand.Rand) *big.Int {
	switch r.Intn(8) {
	case 0:
		return new(big.Int)
	case 1:
		return big.NewInt(int64(1 + r.Intn(10)))
	case 2:
		return new(big.Int).Mul(big.NewInt(int64(1+r.Intn(100000))), icon.ICX)
	case 3:
		// around 10^24..10^27 loop
		x := new(big.Int).Exp(big.NewInt(10), big.NewInt(int64(24+r.Intn(4))), nil)
		return x.Add(x, big.NewInt(r.Int63()))
	default:
		return new(big.Int).Rand(r, new(big.Int).Exp(big.NewInt(10), big.NewInt(int64(1+r.Intn(26))), nil))
	}
}

type evt struct {
	Offset int      `json:"offset"`
	Kind   string   `json:"kind"` // bond | delegate | status
	From   int      `json:"from,omitempty"`
	To     []int    `json:"to"`
	Amount []string `json:"amount,omitempty"`
	Status int      `json:"status,omitempty"`
	amt    []*big.Int
}

type prepIn struct {
	Status     int    `json:"status"`
	Commission int64  `json:"commission_rate"`
	Pubkey     bool   `json:"pubkey"`
	Delegated  string `json:"delegated"`
	Bonded     string `json:"bonded"`
}

type histIn struct {
	BondRequirement int64               `json:"bond_requirement_rate"`
	Elected         int                 `json:"elected"`
	TermPeriod      int                 `json:"term_period"`
	FundPRep        string              `json:"fund_prep"`
	FundWage        string              `json:"fund_wage"`
	MinBond         string              `json:"min_bond"`
	PReps           []prepIn            `json:"preps"`
	Deleg           []map[string]string `json:"voter_delegations"` // voter -> prep index -> amount
	Bonds           []map[string]string `json:"voter_bonds"`
	Events          []*evt              `json:"events"`
}

func phaseA(c *ev.Ctx, ci int, r *rand.Rand, lg log.Logger) {
	nP := 1 + r.Intn(30)
	if r.Intn(4) == 0 {
		nP = 1 + r.Intn(4)
	}
	nV := 1 + r.Intn(40)
	if r.Intn(4) == 0 {
		nV = 1 + r.Intn(3)
	}
	termPeriod := 1 + r.Intn(50)
	offsetLimit := termPeriod - 1
	elected := r.Intn(nP + 3)
	if r.Intn(3) == 0 {
		elected = nP
	}
	br := []icmodule.Rate{0, 1, 100, 500, 500, 1000, 5000, 10000}[r.Intn(8)]
	fundPRep, fundWage, minBond := randAmount(r), randAmount(r), randAmount(r)
	if r.Intn(3) == 0 {
		minBond = new(big.Int)
	}
	in := &histIn{BondRequirement: int64(br), Elected: elected, TermPeriod: termPeriod,
		FundPRep: fundPRep.String(), FundWage: fundWage.String(), MinBond: minBond.String()}

	// voters' initial votes; cur[v][kind][p] is the running vote
	type vk struct{ v, kind, p int }
	cur := map[vk]*big.Int{}
	get := func(k vk) *big.Int {
		if x := cur[k]; x != nil {
			return x
		}
		return new(big.Int)
	}
	initDeleg := make([]map[int]*big.Int, nV)
	initBond := make([]map[int]*big.Int, nV)
	pDeleg := make([]*big.Int, nP)
	pBond := make([]*big.Int, nP)
	for p := range pDeleg {
		pDeleg[p], pBond[p] = new(big.Int), new(big.Int)
	}
	scale := randAmount(r) // same magnitude for most votes of a history
	voteAmount := func() *big.Int {
		if r.Intn(4) == 0 {
			return randAmount(r)
		}
		return new(big.Int).Rand(r, new(big.Int).Add(scale, big.NewInt(2)))
	}
	for v := 0; v < nV; v++ {
		initDeleg[v], initBond[v] = map[int]*big.Int{}, map[int]*big.Int{}
		for k := r.Intn(4); k > 0; k-- {
			p := r.Intn(nP)
			if _, dup := initDeleg[v][p]; dup {
				continue
			}
			a := voteAmount()
			if a.Sign() == 0 {
				continue
			}
			initDeleg[v][p] = a
			cur[vk{v, 1, p}] = a
			pDeleg[p].Add(pDeleg[p], a)
		}
		for k := r.Intn(3); k > 0; k-- {
			p := r.Intn(nP)
			if _, dup := initBond[v][p]; dup {
				continue
			}
			a := voteAmount()
			if a.Sign() == 0 {
				continue
			}
			initBond[v][p] = a
			cur[vk{v, 0, p}] = a
			pBond[p].Add(pBond[p], a)
		}
	}
	toJSON := func(m map[int]*big.Int) map[string]string {
		o := map[string]string{}
		for k, v := range m {
			o[fmt.Sprint(k)] = v.String()
		}
		return o
	}
	for v := 0; v < nV; v++ {
		in.Deleg = append(in.Deleg, toJSON(initDeleg[v]))
		in.Bonds = append(in.Bonds, toJSON(initBond[v]))
	}

	pi := calculator.NewPRepInfo(br, elected, offsetLimit, lg)
	statuses := []icmodule.EnableStatus{icmodule.ESEnable, icmodule.ESEnable, icmodule.ESEnable, icmodule.ESEnable, icmodule.ESEnable,
		icmodule.ESDisableTemp, icmodule.ESDisablePermanent, icmodule.ESJail, icmodule.ESUnjail, icmodule.ESEnableAtNextTerm}
	for p := 0; p < nP; p++ {
		st := statuses[r.Intn(len(statuses))]
		var cr icmodule.Rate
		switch r.Intn(5) {
		case 0:
			cr = 0
			c.Count("commission_zero", 1)
		case 1:
			cr = 10000
			c.Count("commission_full", 1)
		default:
			cr = icmodule.Rate(r.Intn(10001))
		}
		pub := r.Intn(8) > 0
		in.PReps = append(in.PReps, prepIn{int(st), int64(cr), pub, pDeleg[p].String(), pBond[p].String()})
		pi.Add(addr(p), st, new(big.Int).Set(pDeleg[p]), new(big.Int).Set(pBond[p]), cr, pub)
		if st != icmodule.ESEnable {
			c.Count("status_not_enabled", 1)
		}
	}
	pi.Sort()
	pi.InitAccumulated()

	// events
	nE := r.Intn(61)
	if termPeriod == 1 && r.Intn(2) == 0 {
		nE = r.Intn(3)
	}
	offs := make([]int, nE)
	for i := range offs {
		offs[i] = r.Intn(offsetLimit + 1)
		if r.Intn(6) == 0 {
			offs[i] = []int{0, offsetLimit}[r.Intn(2)]
		}
	}
	sort.Ints(offs)
	nTargets := nP + 2 // two addresses that are no P-Reps at the start of the term
	vEvents := make([][]*evt, nV)
	finalStatus := map[int]icmodule.EnableStatus{}
	for i := 0; i < nE; i++ {
		e := &evt{Offset: offs[i]}
		if r.Intn(7) == 0 {
			e.Kind = "status"
			e.To = []int{r.Intn(nTargets)}
			st := statuses[r.Intn(len(statuses))]
			e.Status = int(st)
			pi.SetStatus(addr(e.To[0]), st)
			finalStatus[e.To[0]] = st
			in.Events = append(in.Events, e)
			continue
		}
		v := r.Intn(nV)
		kind := r.Intn(2)
		e.From = v
		e.Kind = []string{"bond", "delegate"}[kind]
		var votes icstage.VoteList
		seen := map[int]bool{}
		for k := 1 + r.Intn(3); k > 0; k-- {
			p := r.Intn(nTargets)
			if seen[p] {
				continue
			}
			seen[p] = true
			have := get(vk{v, kind, p})
			var d *big.Int
			if have.Sign() > 0 && r.Intn(2) == 0 {
				// decrease: whole, part
				if r.Intn(3) == 0 {
					d = new(big.Int).Neg(have)
				} else {
					d = new(big.Int).Neg(new(big.Int).Rand(r, new(big.Int).Add(have, big.NewInt(1))))
				}
			} else {
				d = voteAmount()
			}
			if d.Sign() == 0 {
				continue
			}
			cur[vk{v, kind, p}] = new(big.Int).Add(have, d)
			e.To = append(e.To, p)
			e.amt = append(e.amt, d)
			e.Amount = append(e.Amount, d.String())
			votes = append(votes, icstage.NewVote(addr(p), new(big.Int).Set(d)))
		}
		if len(votes) == 0 {
			continue
		}
		vt := vtDelegate
		if kind == 0 {
			vt = vtBond
		}
		pi.ApplyVote(vt, votes, e.Offset)
		vEvents[v] = append(vEvents[v], e)
		in.Events = append(in.Events, e)
		c.Count("events_applied", 1)
	}
	pi.UpdateTotalAccumulatedPower()
	inJSON, _ := json.Marshal(in)
	c.Note("A %s", inJSON)
	if err := pi.CalculateReward(fundPRep, fundWage, minBond); err != nil {
		c.Violation("calculate.error", map[string]interface{}{"input": in, "err": err.Error()})
		return
	}
	c.Count("histories", 1)

	// ---- oracle -----------------------------------------------------------
	monthBlock := big.NewInt(icmodule.MonthBlock)
	budget := func(fund *big.Int) *big.Int {
		x := new(big.Int).Mul(fund, big.NewInt(int64(termPeriod)))
		x.Mul(x, big.NewInt(icmodule.IScoreICXRatio))
		return x.Div(x, monthBlock)
	}
	bPRep, bWage := budget(fundPRep), budget(fundWage)

	// model: accumulated votes per (voter, P-Rep); events weigh offsetLimit-offset, initial votes termPeriod
	acc := make([]map[int]*big.Int, nV)
	accTotal := map[int]*big.Int{}
	nVoters := map[int]int{}
	for v := 0; v < nV; v++ {
		acc[v] = map[int]*big.Int{}
		add := func(p int, a *big.Int, w int) {
			x := new(big.Int).Mul(a, big.NewInt(int64(w)))
			if acc[v][p] == nil {
				acc[v][p] = new(big.Int)
			}
			acc[v][p].Add(acc[v][p], x)
		}
		for p, a := range initDeleg[v] {
			add(p, a, termPeriod)
		}
		for p, a := range initBond[v] {
			add(p, a, termPeriod)
		}
		for _, e := range vEvents[v] {
			for i, p := range e.To {
				add(p, e.amt[i], offsetLimit-e.Offset)
			}
		}
		for p, a := range acc[v] {
			if accTotal[p] == nil {
				accTotal[p] = new(big.Int)
			}
			accTotal[p].Add(accTotal[p], a)
			if a.Sign() > 0 {
				nVoters[p]++
			}
		}
	}

	// P-Rep side: budgets
	sumPRepFund, sumWage, sumPRepCredit := new(big.Int), new(big.Int), new(big.Int)
	rewarded := 0
	perWage := new(big.Int)
	if elected > 0 {
		perWage.Div(bWage, big.NewInt(int64(elected)))
	}
	interesting := false
	preps := pi.PReps()
	for p := 0; p < nTargets; p++ {
		pr := preps[string(addr(p).Bytes())]
		if pr == nil {
			continue
		}
		rew, vr := pr.GetReward(), pr.VoterReward()
		if rew.Sign() < 0 || vr.Sign() < 0 {
			c.Violation("prep.negative-reward", map[string]interface{}{"input": in, "prep": p, "reward": rew.String(), "voter_reward": vr.String()})
		}
		sumPRepCredit.Add(sumPRepCredit, rew)
		// wage part of GetReward (commission+wage): final bonded of the model >= minBond
		wage := new(big.Int)
		if rew.Sign() > 0 || vr.Sign() > 0 {
			rewarded++
		}
		if pr.IsRewardable(elected) && pr.ToVoted().Bonded().Cmp(minBond) >= 0 {
			// only P-Reps that went through the reward loop (ranked before the events) can have a wage
			if rew.Cmp(perWage) >= 0 && ranked(p, nP) {
				wage.Set(perWage)
			}
		}
		if wage.Sign() > 0 {
			c.Count("wage_paid", 1)
		}
		sumWage.Add(sumWage, wage)
		sumPRepFund.Add(sumPRepFund, new(big.Int).Sub(rew, wage))
		sumPRepFund.Add(sumPRepFund, vr)
		if vr.Sign() > 0 && nVoters[p] >= 2 && len(in.Events) > 0 {
			interesting = true
		}
	}
	c.Count("preps_rewarded", rewarded)
	if elected < nP {
		c.Count("elected_lt_preps", 1)
	}
	c.Count("budget_checks", 3)
	c.Eval(3)
	if sumPRepFund.Cmp(bPRep) > 0 {
		c.Violation("budget.prep-fund-exceeded", map[string]interface{}{"input": in,
			"sum_commission_plus_voter_reward": sumPRepFund.String(), "period_budget_iprep": bPRep.String()})
	}
	if sumWage.Cmp(bWage) > 0 {
		c.Violation("budget.wage-fund-exceeded", map[string]interface{}{"input": in,
			"sum_wage": sumWage.String(), "period_budget_iwage": bWage.String()})
	}

	// voter side
	sumVoterCredit := new(big.Int)
	fromP := map[int]*big.Int{}
	for v := 0; v < nV; v++ {
		voter := calculator.NewVoter(addr(1000+v), lg)
		if len(initDeleg[v]) > 0 {
			d := icreward.NewDelegating()
			for _, p := range sortedInts(initDeleg[v]) {
				d.Delegations = append(d.Delegations, icstate.NewDelegation(addr(p), new(big.Int).Set(initDeleg[v][p])))
			}
			voter.ApplyVoting(d, int64(termPeriod))
		}
		if len(initBond[v]) > 0 {
			b := icreward.NewBonding()
			for _, p := range sortedInts(initBond[v]) {
				b.Bonds = append(b.Bonds, icstate.NewBond(addr(p), new(big.Int).Set(initBond[v][p])))
			}
			voter.ApplyVoting(b, int64(termPeriod))
		}
		for _, e := range vEvents[v] {
			var votes icstage.VoteList
			for i, p := range e.To {
				votes = append(votes, icstage.NewVote(addr(p), new(big.Int).Set(e.amt[i])))
			}
			vt := vtDelegate
			if e.Kind == "bond" {
				vt = vtBond
			}
			voter.ApplyEvent(calculator.NewVoteEvent(vt, votes, e.Offset), offsetLimit-e.Offset)
		}
		got := voter.CalculateReward(pi)
		// expectation: sum over P-Reps of floor(acc(v,P) * voterReward(P) / sum_u acc(u,P))
		want := new(big.Int)
		detail := map[string]string{}
		for _, p := range sortedInts(acc[v]) {
			a := acc[v][p]
			pr := preps[string(addr(p).Bytes())]
			if pr == nil || a.Sign() == 0 {
				continue
			}
			vr := pr.VoterReward()
			if vr.Sign() == 0 || accTotal[p].Sign() <= 0 {
				continue
			}
			x := new(big.Int).Mul(a, vr)
			x.Div(x, accTotal[p])
			want.Add(want, x)
			detail[fmt.Sprint(p)] = fmt.Sprintf("acc=%s total_acc=%s voter_reward=%s share=%s prep_side_acc_voted=%s", a, accTotal[p], vr, x, pr.AccumulatedVoted())
			if fromP[p] == nil {
				fromP[p] = new(big.Int)
			}
			fromP[p].Add(fromP[p], x)
			c.Count("voter_shares_checked", 1)
		}
		c.Eval(1)
		if got.Cmp(want) != 0 {
			c.Violation("voter.share-not-proportional", map[string]interface{}{"input": in, "voter": v,
				"reward": got.String(), "expected_sum_of_floor_shares": want.String(), "per_prep": detail})
		}
		if got.Sign() > 0 {
			c.Count("voters_rewarded", 1)
		}
		sumVoterCredit.Add(sumVoterCredit, got)
	}
	// total credited (P-Reps + voters) within the term's fund
	total := new(big.Int).Add(sumPRepCredit, sumVoterCredit)
	if fund := new(big.Int).Add(bPRep, bWage); total.Cmp(fund) > 0 {
		c.Violation("budget.total-credited-exceeds-fund", map[string]interface{}{"input": in,
			"credited_to_preps": sumPRepCredit.String(), "credited_to_voters": sumVoterCredit.String(), "term_fund": fund.String()})
	}
	if interesting {
		c.NonTrivial(string(inJSON))
	}
	if c.WantSample() && interesting {
		c.Sample(map[string]interface{}{"phase": "A", "case": ci, "preps": nP, "voters": nV, "events": len(in.Events), "term_period": termPeriod,
			"elected": elected, "budget_iprep": bPRep.String(), "sum_commission_voter_reward": sumPRepFund.String(),
			"credited_preps": sumPRepCredit.String(), "credited_voters": sumVoterCredit.String()})
	}
}

// ranked tells whether P-Rep index p existed when the ranking was made.
func ranked(p, nP int) bool { return p < nP }

func sortedInts(m map[int]*big.Int) []int {
	l := make([]int, 0, len(m))
	for k := range m {
		l = append(l, k)
	}
	sort.Ints(l)
	return l
}

// ---------------------------------------------------------------------------
// phase B

func phaseB(c *ev.Ctx, ci int, r *rand.Rand) {
	p := icon.RandomParams(r)
	p.Penalties = false
	p.TermPeriod = int64(8 + r.Intn(8))
	c.Note("B params %+v", p)
	w, err := icon.NewWorld(p)
	if err != nil {
		c.Notef("case %d: simulator setup failed: %v", ci, err)
		c.Count("setup_failed", 1)
		return
	}
	if err := w.FundTreasury(new(big.Int).Mul(big.NewInt(3000), icon.ICX)); err != nil {
		c.Notef("case %d: %v", ci, err)
		c.Count("setup_failed", 1)
		return
	}
	// wage fund and a reachable minimum bond
	wagePct := int64(r.Intn(40))
	alloc := map[icstate.RFundKey]icmodule.Rate{
		icstate.KeyIprep: icmodule.ToRate(77 - wagePct), icstate.KeyIwage: icmodule.ToRate(wagePct),
		icstate.KeyIcps: icmodule.ToRate(13), icstate.KeyIrelay: icmodule.ToRate(10),
	}
	if err := w.Governance(w.Sim.SetRewardFundAllocation2(w.Gov, alloc)); err != nil {
		c.Notef("case %d: %v", ci, err)
		c.Count("setup_failed", 1)
		return
	}
	if err := w.Governance(w.Sim.SetMinimumBond(w.Gov, new(big.Int).Mul(big.NewInt(int64(r.Intn(3000))), icon.ICX))); err != nil {
		c.Notef("case %d: %v", ci, err)
		c.Count("setup_failed", 1)
		return
	}
	budgets := map[int]*big.Int{}
	funds := map[int]string{}
	note := func() {
		t := w.Sim.TermSnapshot()
		rf := t.RewardFund()
		b := new(big.Int)
		for _, k := range []icstate.RFundKey{icstate.KeyIprep, icstate.KeyIwage} {
			x := new(big.Int).Mul(rf.GetAmount(k), big.NewInt(t.Period()*icmodule.IScoreICXRatio))
			b.Add(b, x.Div(x, big.NewInt(icmodule.MonthBlock)))
		}
		budgets[t.Sequence()] = b
		funds[t.Sequence()] = fmt.Sprintf("%v period=%d", rf, t.Period())
	}
	note()
	prev, err := w.Observe(true)
	if err != nil {
		c.Violation("observe.failed", map[string]interface{}{"case": ci, "err": err.Error()})
		return
	}
	nTerms := 7 + r.Intn(3)
	var tail []map[string]interface{}
	startSeq := prev.TermSeq
	vt := newVoteTracker()
	vt.notePReps(prev)
	blockNo := 0
	for !c.Stopped() {
		var ops []*icon.Op
		for i := r.Intn(4); i > 0; i-- {
			ops = append(ops, w.GenOp(r, prev))
		}
		ops = append(ops, redelegations(w, r, prev, blockNo)...)
		blockNo++
		desc := make([]string, len(ops))
		for i, op := range ops {
			desc[i] = fmt.Sprintf("%s %s(%s)", op.From, op.Kind, op.Arg)
		}
		c.Note("h=%d ops=%v", prev.Height+1, desc)
		blk, err := w.RunBlock(ops, nil)
		tail = append(tail, map[string]interface{}{"height": prev.Height + 1, "ops": ops})
		if len(tail) > 40 {
			tail = tail[1:]
		}
		if err != nil {
			c.Violation("sim.block-execution-error", map[string]interface{}{"case": ci, "params": p, "height": prev.Height + 1,
				"err": fmt.Sprintf("%+v", err), "history_tail": tail})
			return
		}
		// I-Score is read in the last block of a term and in the first block of the next one
		cur, err := w.Observe(false)
		if err == nil && (cur.Height == cur.TermStart-1 || cur.Height == cur.TermStart) {
			cur, err = w.Observe(true)
		}
		if err != nil {
			c.Violation("observe.failed", map[string]interface{}{"case": ci, "err": err.Error()})
			return
		}
		note()
		c.Count("sim_blocks", 1)
		vt.block(c, w, prev, cur)
		if cur.Height != cur.TermStart {
			prev = cur
			continue
		}
		// I-Score newly credited in this block: after - before, where an account that claimed in this
		// block restarts from zero (the claim takes the whole I-Score at this revision)
		credited := new(big.Int)
		per := map[string]string{}
		creditOf := map[string]*big.Int{}
		for k, a := range cur.Accts {
			before := prev.Accts[k].IScore
			claimed := false
			for _, op := range ops {
				if op.Kind == "claimIScore" && op.OK && string(op.FromAddr().Bytes()) == k {
					claimed = true
				}
			}
			d := new(big.Int).Set(a.IScore)
			if !claimed {
				d.Sub(d, before)
			}
			if d.Sign() != 0 {
				per[w.Name(a.Addr)] = d.String()
			}
			credited.Add(credited, d)
			creditOf[k] = d
		}
		_ = blk
		vt.checkTerm(c, w, ci, p, cur, creditOf, tail)
		if cur.Height == cur.TermStart {
			c.Eval(1)
			rewardedSeq := cur.TermSeq - 2
			if b, ok := budgets[rewardedSeq]; ok {
				c.Count("sim_term_credit_checks", 1)
				if credited.Sign() > 0 {
					c.Count("sim_credit_positive", 1)
					c.NonTrivial(fmt.Sprintf("B/%d/%d/%d", c.Seed, ci, cur.Height))
				}
				if credited.Cmp(b) > 0 {
					c.Violation("sim.term-credit-exceeds-fund", map[string]interface{}{"case": ci, "params": p, "height": cur.Height,
						"term_seq": cur.TermSeq, "rewarded_term_seq": rewardedSeq, "credited_iscore": credited.String(),
						"period_budget_iprep_plus_iwage": b.String(), "fund": funds[rewardedSeq], "per_account": per, "history_tail": tail})
				}
				if c.WantSample() && credited.Sign() > 0 {
					c.Sample(map[string]interface{}{"phase": "B", "case": ci, "height": cur.Height, "credited_iscore": credited.String(),
						"budget": b.String(), "fund": funds[rewardedSeq]})
				}
			} else {
				c.Count("sim_term_credit_unchecked", 1)
			}
		}
		prev = cur
		if cur.TermSeq-startSeq >= nTerms {
			break
		}
	}
}

// redelegations adds operations that CHANGE the amount of an existing delegation to the same
// P-Rep to another non-zero amount (raise and lower): two scripted accounts do it in every term
// (script2 raises, script3 lowers), and random driven users do it now and then.
func redelegations(w *icon.World, r *rand.Rand, o *icon.Obs, blockNo int) []*icon.Op {
	var ops []*icon.Op
	up, down := w.Script[2], w.Script[3]
	if blockNo == 0 {
		a := o.Accts[string(up.Bytes())]
		ops = append(ops, w.OpSetStake(up, new(big.Int).Add(a.Stake, new(big.Int).Mul(big.NewInt(3000), icon.ICX)), "script-stake-up"))
	}
	change := func(from module.Address, delta *big.Int, intent string) {
		a := o.Accts[string(from.Bytes())]
		if len(a.Delegations) == 0 {
			return
		}
		j := r.Intn(len(a.Delegations))
		var tl []module.Address
		var am []*big.Int
		for i, d := range a.Delegations {
			v := new(big.Int).Set(d.Value)
			if i == j {
				v.Add(v, delta)
				if v.Sign() <= 0 {
					return
				}
			}
			tl = append(tl, common.MustNewAddress([]byte(d.To)))
			am = append(am, v)
		}
		ops = append(ops, w.OpSetDelegation(from, tl, am, intent))
	}
	off := o.Height + 1 - o.TermStart // offset of the block about to be executed in its term
	spare := func(a *icon.Acct) *big.Int {
		u := new(big.Int).Add(a.Delegated(), a.Bonded())
		u.Add(u, a.Unbonding())
		return u.Sub(a.Stake, u)
	}
	if blockNo > 0 && (off == 2 || off == 5) {
		if a := o.Accts[string(up.Bytes())]; spare(a).Cmp(icon.ICX) > 0 {
			d := new(big.Int).Rand(r, spare(a))
			d.Div(d, big.NewInt(4)).Add(d, big.NewInt(1))
			change(up, d, "script-raise-same-prep")
		}
		if a := o.Accts[string(down.Bytes())]; a.Delegated().Cmp(new(big.Int).Mul(big.NewInt(200), icon.ICX)) > 0 {
			d := new(big.Int).Rand(r, new(big.Int).Mul(big.NewInt(60), icon.ICX))
			change(down, d.Add(d, big.NewInt(1)).Neg(d), "script-lower-same-prep")
		}
	}
	if r.Intn(3) == 0 {
		u := w.Users[r.Intn(len(w.Users))]
		a := o.Accts[string(u.Bytes())]
		if sp := spare(a); sp.Sign() > 0 && r.Intn(2) == 0 {
			d := new(big.Int).Rand(r, sp)
			change(u, d.Add(d, big.NewInt(1)), "raise-same-prep")
		} else if a.Delegated().Sign() > 0 {
			d := new(big.Int).Rand(r, new(big.Int).Div(a.Delegated(), big.NewInt(int64(2*len(a.Delegations)+1))))
			change(u, d.Add(d, big.NewInt(1)).Neg(d), "lower-same-prep")
		}
	}
	return ops
}

// voteTracker recomputes, from the per-block observations of the accounts, the accumulated votes
// of every account for every P-Rep in every term: votes held before the first block of the term
// count termPeriod, a change in the block at offset o counts (termPeriod-1-o) - the weights of
// iiss4Reward. It then checks the I-Score credited for the term against the idle stakers of the
// simulated network (each delegates a constant amount to exactly one of the initial P-Reps):
// a voter's reward from P is floor(acc(v,P)*x_P) with the same x_P = voterReward(P)/accVoted(P) for
// every voter, so the idle voter's reward brackets x_P and therefore every other voter's reward.
type voteTracker struct {
	last     map[string]map[string]*big.Int         // account -> P -> delegation+bond after the previous block
	acc      map[int]map[string]map[string]*big.Int // term seq -> account -> P -> accumulated votes
	period   map[int]int64
	redeleg  map[int]int // term seq -> number of changed-amount re-delegations to the same P-Rep
	iiss4    map[int]bool
	everPRep map[string]bool
}

func newVoteTracker() *voteTracker {
	return &voteTracker{acc: map[int]map[string]map[string]*big.Int{}, period: map[int]int64{}, redeleg: map[int]int{},
		iiss4: map[int]bool{}, everPRep: map[string]bool{}}
}

func (t *voteTracker) notePReps(o *icon.Obs) {
	for k := range o.PReps {
		t.everPRep[k] = true
	}
}

func votesOf(a *icon.Acct) map[string]*big.Int {
	m := map[string]*big.Int{}
	for _, l := range [][]icon.Vote{a.Delegations, a.Bonds} {
		for _, v := range l {
			if m[v.To] == nil {
				m[v.To] = new(big.Int)
			}
			m[v.To].Add(m[v.To], v.Value)
		}
	}
	return m
}

// block accounts the block that led from prev to cur; the block belongs to the term shown by prev.
func (t *voteTracker) block(c *ev.Ctx, w *icon.World, prev, cur *icon.Obs) {
	t.notePReps(cur)
	seq, start, period := prev.TermSeq, prev.TermStart, prev.TermEnd-prev.TermStart+1
	off := cur.Height - start
	if t.last == nil {
		t.last = map[string]map[string]*big.Int{}
		for k, a := range prev.Accts {
			t.last[k] = votesOf(a)
		}
	}
	if off == 0 {
		// first block of a term: what is held now is the base of the term
		t.acc[seq] = map[string]map[string]*big.Int{}
		t.period[seq] = period
		t.iiss4[seq] = w.Sim.TermSnapshot().GetIISSVersion() == icstate.IISSVersion4
		for k, m := range t.last {
			am := map[string]*big.Int{}
			for p, v := range m {
				am[p] = new(big.Int).Mul(v, big.NewInt(period))
			}
			t.acc[seq][k] = am
		}
	}
	for k, a := range cur.Accts {
		now := votesOf(a)
		before := t.last[k]
		if am := t.acc[seq]; am != nil {
			if am[k] == nil {
				am[k] = map[string]*big.Int{}
			}
			weight := big.NewInt(period - 1 - off)
			seen := map[string]bool{}
			for p, v := range now {
				seen[p] = true
				d := new(big.Int).Set(v)
				if b := before[p]; b != nil {
					d.Sub(d, b)
				}
				if d.Sign() != 0 {
					if am[k][p] == nil {
						am[k][p] = new(big.Int)
					}
					am[k][p].Add(am[k][p], d.Mul(d, weight))
				}
			}
			for p, b := range before {
				if !seen[p] && b.Sign() != 0 {
					if am[k][p] == nil {
						am[k][p] = new(big.Int)
					}
					am[k][p].Sub(am[k][p], new(big.Int).Mul(b, weight))
				}
			}
		}
		// a delegation to the same P-Rep whose amount changed from non-zero to another non-zero value
		pd := map[string]*big.Int{}
		for _, d := range prev.Accts[k].Delegations {
			pd[d.To] = d.Value
		}
		for _, d := range a.Delegations {
			if o := pd[d.To]; o != nil && o.Sign() > 0 && d.Value.Sign() > 0 && o.Cmp(d.Value) != 0 {
				c.Count("redelegations_same_prep_changed_amount", 1)
				if d.Value.Cmp(o) > 0 {
					c.Count("redelegations_same_prep_raised", 1)
				}
				t.redeleg[seq]++
			}
		}
		t.last[k] = now
	}
}

// checkTerm runs in the first block of term N on the I-Score credited for term N-2.
func (t *voteTracker) checkTerm(c *ev.Ctx, w *icon.World, ci int, p icon.Params, cur *icon.Obs, credit map[string]*big.Int, tail []map[string]interface{}) {
	seq := cur.TermSeq - 2
	acc := t.acc[seq]
	if acc == nil {
		c.Count("sim_voter_terms_unchecked", 1)
		return
	}
	// reference voters: idle stakers with one constant delegation
	type ref struct {
		acc, reward *big.Int
		name        string
	}
	refs := map[string]*ref{}
	for _, u := range w.Idle {
		k := string(u.Bytes())
		if len(acc[k]) != 1 || t.everPRep[k] {
			continue
		}
		for pk, a := range acc[k] {
			if a.Sign() <= 0 {
				continue
			}
			if r0 := refs[pk]; r0 == nil {
				refs[pk] = &ref{a, credit[k], w.Name(u)}
			} else if r0.acc.Cmp(a) == 0 && r0.reward.Cmp(credit[k]) != 0 {
				c.Violation("sim.equal-votes-unequal-reward", map[string]interface{}{"case": ci, "params": p, "height": cur.Height,
					"rewarded_term_seq": seq, "prep": fmt.Sprintf("%x", pk), "voter_a": r0.name, "reward_a": r0.reward.String(),
					"voter_b": w.Name(u), "reward_b": credit[k].String(), "accumulated_votes": a.String()})
			}
		}
	}
	checked := 0
	for k, am := range acc {
		a := cur.Accts[k]
		if a == nil || t.everPRep[k] {
			continue
		}
		lo, hi := new(big.Int), new(big.Int)
		n := 0
		ok := true
		detail := map[string]string{}
		for pk, v := range am {
			if v.Sign() == 0 || !t.everPRep[pk] {
				continue // votes for an address that never was a P-Rep earn nothing
			}
			if v.Sign() < 0 {
				c.Violation("sim.negative-accumulated-votes", map[string]interface{}{"case": ci, "account": w.Name(a.Addr), "prep": fmt.Sprintf("%x", pk), "acc": v.String()})
				ok = false
				break
			}
			rf := refs[pk]
			if rf == nil {
				ok = false
				break
			}
			// floor(v*x) with rf.reward/rf.acc <= x < (rf.reward+1)/rf.acc
			l := new(big.Int).Mul(v, rf.reward)
			lo.Add(lo, l.Div(l, rf.acc))
			h := new(big.Int).Mul(v, new(big.Int).Add(rf.reward, big.NewInt(1)))
			h.Add(h, new(big.Int).Sub(rf.acc, big.NewInt(1)))
			hi.Add(hi, h.Div(h, rf.acc))
			n++
			detail[fmt.Sprintf("%x", pk)] = fmt.Sprintf("acc_votes=%s reference=%s acc_votes=%s reward=%s", v, rf.name, rf.acc, rf.reward)
		}
		if !ok {
			c.Count("sim_voters_skipped_no_reference", 1)
			continue
		}
		lo.Sub(lo, big.NewInt(int64(n)))
		got := credit[k]
		checked++
		c.Eval(1)
		if got.Cmp(lo) < 0 || got.Cmp(hi) > 0 {
			c.Violation("sim.voter-share-not-proportional", map[string]interface{}{"case": ci, "params": p, "height": cur.Height,
				"rewarded_term_seq": seq, "term_period": t.period[seq], "voter": w.Name(a.Addr), "credited_iscore": got.String(),
				"expected_min": lo.String(), "expected_max": hi.String(), "per_prep": detail,
				"redelegations_same_prep_in_term": t.redeleg[seq], "history_tail": tail,
				"expect": "reward from P = floor(accumulated votes for P * voterReward(P)/accVoted(P)); the idle reference voter of P brackets the factor"})
		}
	}
	c.Count("sim_voter_shares_checked", checked)
	if t.redeleg[seq] > 0 && checked > 0 {
		c.Count("terms_with_redelegation_checked", 1)
		if t.iiss4[seq] {
			c.Count("terms_with_such_events_iiss4", 1)
		}
	}
}

func run(c *ev.Ctx) {
	icon.Quiet()
	lg := log.New()
	lg.SetLevel(log.FatalLevel)
	lg.SetConsoleLevel(log.FatalLevel)
	ns := nSim(c.Tier)
	c.Cases(func(ci int, r *rand.Rand) {
		if ci < ns {
			phaseB(c, ci, r)
			return
		}
		phaseA(c, ci, r, lg)
	})
}

var _ module.Address
