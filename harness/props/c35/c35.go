// Package c35: rewards never exceed the term's reward budget and a voter's
// reward from a P-Rep is its vote-proportional share.
//
// Phase A drives the real reward calculator objects (calculator.PRepInfo,
// calculator.PRep, calculator.Voter) with consistent random voting histories
// and compares with an independent big-integer recomputation.
// Phase B runs whole simulator histories (icon/icsim, real calculator
// goroutine) and bounds the I-Score credited at every term start.
package c35

import (
	"encoding/json"
	"fmt"
	"math/big"
	"math/rand"
	"sort"

	"github.com/icon-project/goloop/common"
	"github.com/icon-project/goloop/common/log"
	"github.com/icon-project/goloop/icon/icmodule"
	"github.com/icon-project/goloop/icon/iiss/calculator"
	"github.com/icon-project/goloop/icon/iiss/icreward"
	"github.com/icon-project/goloop/icon/iiss/icstage"
	"github.com/icon-project/goloop/icon/iiss/icstate"
	"github.com/icon-project/goloop/module"

	"verif/lib/ev"
	"verif/lib/icon"
)

const (
	vtBond     = calculator.VoteType(1) // calculator.vtBond
	vtDelegate = calculator.VoteType(2) // calculator.vtDelegate
)

func nSim(t string) int {
	if t == ev.Thorough {
		return 96
	}
	return 16
}

func init() {
	ev.Register(&ev.Prop{
		ID:    "C35",
		Level: "exploration",
		Cases: func(t string) int {
			if t == ev.Thorough {
				return 300000 + nSim(t)
			}
			return 20000 + nSim(t)
		},
		Batches: func(t string) int { return 16 },
		Rule:    "phase A (most cases): one consistent random voting history of a term: 1-30 P-Reps (statuses, pubkey flags, commission rates 0-100% biased to 0/100%), 1-40 voters with initial delegations and bonds (P-Rep totals = sums over voters), 0-60 vote events (bond/delegation deltas, never taking a voter's vote below zero), enable/jail events, votes to unknown P-Reps; term period 1-50, elected count 0..n+2, bond requirement 0-100%, funds 1..1e27; driven through calculator.NewPRepInfo/Add/Sort/InitAccumulated/SetStatus/ApplyVote/UpdateTotalAccumulatedPower/CalculateReward and NewVoter/ApplyVoting/ApplyEvent/CalculateReward exactly as iiss4Reward does; oracle = big-int recomputation of the period budgets and of floor(accVotes(v,P)*voterReward(P)/sum_u accVotes(u,P)). Non-trivial = distinct history with >= 1 rewarded P-Rep that has >= 2 voters and >= 1 event. Phase B (first 16 cases; thorough 96): simulator history of 7-9 terms with staking operations, commission rates, wage fund and minimum bond set; at every term start the I-Score newly credited to all accounts (claims added back) must be <= Iprep+Iwage period budget of the rewarded term.",
		MinNonTrivial: func(t string) int {
			if t == ev.Thorough {
				return 100000
			}
			return 2000
		},
		Required: []string{"histories", "preps_rewarded", "voters_rewarded", "voter_shares_checked", "events_applied",
			"budget_checks", "sim_term_credit_checks", "sim_credit_positive", "wage_paid", "commission_full", "commission_zero",
			"elected_lt_preps", "status_not_enabled"},
		Assumptions: []string{
			"math/big is the arithmetic reference",
			"the harness replays the voting history to P-Rep side and voter side the way iiss4Reward.processEvents/processVoterReward do",
			"phase B sums the credited I-Score over all accounts the harness knows (every staker of the simulated network)",
		},
		TimeoutSec: func(t string) int {
			if t == ev.Thorough {
				return 7200
			}
			return 900
		},
		Run: run,
	})
}

func addr(i int) *common.Address {
	bs := make([]byte, common.AddressBytes)
	bs[1] = byte(i >> 16)
	bs[common.AddressBytes-2] = byte(i >> 8)
	bs[common.AddressBytes-1] = byte(i)
	return common.MustNewAddress(bs)
}

func randAmount(r *rand.Rand) *big.Int {
	switch r.Intn(8) {
	case 0:
		return new(big.Int)
	case 1:
		return big.NewInt(int64(1 + r.Intn(10)))
	case 2:
		return new(big.Int).Mul(big.NewInt(int64(1+r.Intn(100000))), icon.ICX)
	case 3:
		// around 10^24..10^27 loop
		x := new(big.Int).Exp(big.NewInt(10), big.NewInt(int64(24+r.Intn(4))), nil)
		return x.Add(x, big.NewInt(r.Int63()))
	default:
		return new(big.Int).Rand(r, new(big.Int).Exp(big.NewInt(10), big.NewInt(int64(1+r.Intn(26))), nil))
	}
}

type evt struct {
	Offset int      `json:"offset"`
	Kind   string   `json:"kind"` // bond | delegate | status
	From   int      `json:"from,omitempty"`
	To     []int    `json:"to"`
	Amount []string `json:"amount,omitempty"`
	Status int      `json:"status,omitempty"`
	amt    []*big.Int
}

type prepIn struct {
	Status     int    `json:"status"`
	Commission int64  `json:"commission_rate"`
	Pubkey     bool   `json:"pubkey"`
	Delegated  string `json:"delegated"`
	Bonded     string `json:"bonded"`
}

type histIn struct {
	BondRequirement int64               `json:"bond_requirement_rate"`
	Elected         int                 `json:"elected"`
	TermPeriod      int                 `json:"term_period"`
	FundPRep        string              `json:"fund_prep"`
	FundWage        string              `json:"fund_wage"`
	MinBond         string              `json:"min_bond"`
	PReps           []prepIn            `json:"preps"`
	Deleg           []map[string]string `json:"voter_delegations"` // voter -> prep index -> amount
	Bonds           []map[string]string `json:"voter_bonds"`
	Events          []*evt              `json:"events"`
}

func phaseA(c *ev.Ctx, ci int, r *rand.Rand, lg log.Logger) {
	nP := 1 + r.Intn(30)
	if r.Intn(4) == 0 {
		nP = 1 + r.Intn(4)
	}
	nV := 1 + r.Intn(40)
	if r.Intn(4) == 0 {
		nV = 1 + r.Intn(3)
	}
	termPeriod := 1 + r.Intn(50)
	offsetLimit := termPeriod - 1
	elected := r.Intn(nP + 3)
	if r.Intn(3) == 0 {
		elected = nP
	}
	br := []icmodule.Rate{0, 1, 100, 500, 500, 1000, 5000, 10000}[r.Intn(8)]
	fundPRep, fundWage, minBond := randAmount(r), randAmount(r), randAmount(r)
	if r.Intn(3) == 0 {
		minBond = new(big.Int)
	}
	in := &histIn{BondRequirement: int64(br), Elected: elected, TermPeriod: termPeriod,
		FundPRep: fundPRep.String(), FundWage: fundWage.String(), MinBond: minBond.String()}

	// voters' initial votes; cur[v][kind][p] is the running vote
	type vk struct{ v, kind, p int }
	cur := map[vk]*big.Int{}
	get := func(k vk) *big.Int {
		if x := cur[k]; x != nil {
			return x
		}
		return new(big.Int)
	}
	initDeleg := make([]map[int]*big.Int, nV)
	initBond := make([]map[int]*big.Int, nV)
	pDeleg := make([]*big.Int, nP)
	pBond := make([]*big.Int, nP)
	for p := range pDeleg {
		pDeleg[p], pBond[p] = new(big.Int), new(big.Int)
	}
	scale := randAmount(r) // same magnitude for most votes of a history
	voteAmount := func() *big.Int {
		if r.Intn(4) == 0 {
			return randAmount(r)
		}
		return new(big.Int).Rand(r, new(big.Int).Add(scale, big.NewInt(2)))
	}
	for v := 0; v < nV; v++ {
		initDeleg[v], initBond[v] = map[int]*big.Int{}, map[int]*big.Int{}
		for k := r.Intn(4); k > 0; k-- {
			p := r.Intn(nP)
			if _, dup := initDeleg[v][p]; dup {
				continue
			}
			a := voteAmount()
			if a.Sign() == 0 {
				continue
			}
			initDeleg[v][p] = a
			cur[vk{v, 1, p}] = a
			pDeleg[p].Add(pDeleg[p], a)
		}
		for k := r.Intn(3); k > 0; k-- {
			p := r.Intn(nP)
			if _, dup := initBond[v][p]; dup {
				continue
			}
			a := voteAmount()
			if a.Sign() == 0 {
				continue
			}
			initBond[v][p] = a
			cur[vk{v, 0, p}] = a
			pBond[p].Add(pBond[p], a)
		}
	}
	toJSON := func(m map[int]*big.Int) map[string]string {
		o := map[string]string{}
		for k, v := range m {
			o[fmt.Sprint(k)] = v.String()
		}
		return o
	}
	for v := 0; v < nV; v++ {
		in.Deleg = append(in.Deleg, toJSON(initDeleg[v]))
		in.Bonds = append(in.Bonds, toJSON(initBond[v]))
	}

	pi := calculator.NewPRepInfo(br, elected, offsetLimit, lg)
	statuses := []icmodule.EnableStatus{icmodule.ESEnable, icmodule.ESEnable, icmodule.ESEnable, icmodule.ESEnable, icmodule.ESEnable,
		icmodule.ESDisableTemp, icmodule.ESDisablePermanent, icmodule.ESJail, icmodule.ESUnjail, icmodule.ESEnableAtNextTerm}
	for p := 0; p < nP; p++ {
		st := statuses[r.Intn(len(statuses))]
		var cr icmodule.Rate
		switch r.Intn(5) {
		case 0:
			cr = 0
			c.Count("commission_zero", 1)
		case 1:
			cr = 10000
			c.Count("commission_full", 1)
		default:
			cr = icmodule.Rate(r.Intn(10001))
		}
		pub := r.Intn(8) > 0
		in.PReps = append(in.PReps, prepIn{int(st), int64(cr), pub, pDeleg[p].String(), pBond[p].String()})
		pi.Add(addr(p), st, new(big.Int).Set(pDeleg[p]), new(big.Int).Set(pBond[p]), cr, pub)
		if st != icmodule.ESEnable {
			c.Count("status_not_enabled", 1)
		}
	}
	pi.Sort()
	pi.InitAccumulated()

	// events
	nE := r.Intn(61)
	if termPeriod == 1 && r.Intn(2) == 0 {
		nE = r.Intn(3)
	}
	offs := make([]int, nE)
	for i := range offs {
		offs[i] = r.Intn(offsetLimit + 1)
		if r.Intn(6) == 0 {
			offs[i] = []int{0, offsetLimit}[r.Intn(2)]
		}
	}
	sort.Ints(offs)
	nTargets := nP + 2 // two addresses that are no P-Reps at the start of the term
	vEvents := make([][]*evt, nV)
	finalStatus := map[int]icmodule.EnableStatus{}
	for i := 0; i < nE; i++ {
		e := &evt{Offset: offs[i]}
		if r.Intn(7) == 0 {
			e.Kind = "status"
			e.To = []int{r.Intn(nTargets)}
			st := statuses[r.Intn(len(statuses))]
			e.Status = int(st)
			pi.SetStatus(addr(e.To[0]), st)
			finalStatus[e.To[0]] = st
			in.Events = append(in.Events, e)
			continue
		}
		v := r.Intn(nV)
		kind := r.Intn(2)
		e.From = v
		e.Kind = []string{"bond", "delegate"}[kind]
		var votes icstage.VoteList
		seen := map[int]bool{}
		for k := 1 + r.Intn(3); k > 0; k-- {
			p := r.Intn(nTargets)
			if seen[p] {
				continue
			}
			seen[p] = true
			have := get(vk{v, kind, p})
			var d *big.Int
			if have.Sign() > 0 && r.Intn(2) == 0 {
				// decrease: whole, part
				if r.Intn(3) == 0 {
					d = new(big.Int).Neg(have)
				} else {
					d = new(big.Int).Neg(new(big.Int).Rand(r, new(big.Int).Add(have, big.NewInt(1))))
				}
			} else {
				d = voteAmount()
			}
			if d.Sign() == 0 {
				continue
			}
			cur[vk{v, kind, p}] = new(big.Int).Add(have, d)
			e.To = append(e.To, p)
			e.amt = append(e.amt, d)
			e.Amount = append(e.Amount, d.String())
			votes = append(votes, icstage.NewVote(addr(p), new(big.Int).Set(d)))
		}
		if len(votes) == 0 {
			continue
		}
		vt := vtDelegate
		if kind == 0 {
			vt = vtBond
		}
		pi.ApplyVote(vt, votes, e.Offset)
		vEvents[v] = append(vEvents[v], e)
		in.Events = append(in.Events, e)
		c.Count("events_applied", 1)
	}
	pi.UpdateTotalAccumulatedPower()
	inJSON, _ := json.Marshal(in)
	c.Note("A %s", inJSON)
	if err := pi.CalculateReward(fundPRep, fundWage, minBond); err != nil {
		c.Violation("calculate.error", map[string]interface{}{"input": in, "err": err.Error()})
		return
	}
	c.Count("histories", 1)

	// ---- oracle -----------------------------------------------------------
	monthBlock := big.NewInt(icmodule.MonthBlock)
	budget := func(fund *big.Int) *big.Int {
		x := new(big.Int).Mul(fund, big.NewInt(int64(termPeriod)))
		x.Mul(x, big.NewInt(icmodule.IScoreICXRatio))
		return x.Div(x, monthBlock)
	}
	bPRep, bWage := budget(fundPRep), budget(fundWage)

	// model: accumulated votes per (voter, P-Rep); events weigh offsetLimit-offset, initial votes termPeriod
	acc := make([]map[int]*big.Int, nV)
	accTotal := map[int]*big.Int{}
	nVoters := map[int]int{}
	for v := 0; v < nV; v++ {
		acc[v] = map[int]*big.Int{}
		add := func(p int, a *big.Int, w int) {
			x := new(big.Int).Mul(a, big.NewInt(int64(w)))
			if acc[v][p] == nil {
				acc[v][p] = new(big.Int)
			}
			acc[v][p].Add(acc[v][p], x)
		}
		for p, a := range initDeleg[v] {
			add(p, a, termPeriod)
		}
		for p, a := range initBond[v] {
			add(p, a, termPeriod)
		}
		for _, e := range vEvents[v] {
			for i, p := range e.To {
				add(p, e.amt[i], offsetLimit-e.Offset)
			}
		}
		for p, a := range acc[v] {
			if accTotal[p] == nil {
				accTotal[p] = new(big.Int)
			}
			accTotal[p].Add(accTotal[p], a)
			if a.Sign() > 0 {
				nVoters[p]++
			}
		}
	}

	// P-Rep side: budgets
	sumPRepFund, sumWage, sumPRepCredit := new(big.Int), new(big.Int), new(big.Int)
	rewarded := 0
	perWage := new(big.Int)
	if elected > 0 {
		perWage.Div(bWage, big.NewInt(int64(elected)))
	}
	interesting := false
	preps := pi.PReps()
	for p := 0; p < nTargets; p++ {
		pr := preps[string(addr(p).Bytes())]
		if pr == nil {
			continue
		}
		rew, vr := pr.GetReward(), pr.VoterReward()
		if rew.Sign() < 0 || vr.Sign() < 0 {
			c.Violation("prep.negative-reward", map[string]interface{}{"input": in, "prep": p, "reward": rew.String(), "voter_reward": vr.String()})
		}
		sumPRepCredit.Add(sumPRepCredit, rew)
		// wage part of GetReward (commission+wage): final bonded of the model >= minBond
		wage := new(big.Int)
		if rew.Sign() > 0 || vr.Sign() > 0 {
			rewarded++
		}
		if pr.IsRewardable(elected) && pr.ToVoted().Bonded().Cmp(minBond) >= 0 {
			// only P-Reps that went through the reward loop (ranked before the events) can have a wage
			if rew.Cmp(perWage) >= 0 && ranked(p, nP) {
				wage.Set(perWage)
			}
		}
		if wage.Sign() > 0 {
			c.Count("wage_paid", 1)
		}
		sumWage.Add(sumWage, wage)
		sumPRepFund.Add(sumPRepFund, new(big.Int).Sub(rew, wage))
		sumPRepFund.Add(sumPRepFund, vr)
		if vr.Sign() > 0 && nVoters[p] >= 2 && len(in.Events) > 0 {
			interesting = true
		}
	}
	c.Count("preps_rewarded", rewarded)
	if elected < nP {
		c.Count("elected_lt_preps", 1)
	}
	c.Count("budget_checks", 3)
	c.Eval(3)
	if sumPRepFund.Cmp(bPRep) > 0 {
		c.Violation("budget.prep-fund-exceeded", map[string]interface{}{"input": in,
			"sum_commission_plus_voter_reward": sumPRepFund.String(), "period_budget_iprep": bPRep.String()})
	}
	if sumWage.Cmp(bWage) > 0 {
		c.Violation("budget.wage-fund-exceeded", map[string]interface{}{"input": in,
			"sum_wage": sumWage.String(), "period_budget_iwage": bWage.String()})
	}

	// voter side
	sumVoterCredit := new(big.Int)
	fromP := map[int]*big.Int{}
	for v := 0; v < nV; v++ {
		voter := calculator.NewVoter(addr(1000+v), lg)
		if len(initDeleg[v]) > 0 {
			d := icreward.NewDelegating()
			for _, p := range sortedInts(initDeleg[v]) {
				d.Delegations = append(d.Delegations, icstate.NewDelegation(addr(p), new(big.Int).Set(initDeleg[v][p])))
			}
			voter.ApplyVoting(d, int64(termPeriod))
		}
		if len(initBond[v]) > 0 {
			b := icreward.NewBonding()
			for _, p := range sortedInts(initBond[v]) {
				b.Bonds = append(b.Bonds, icstate.NewBond(addr(p), new(big.Int).Set(initBond[v][p])))
			}
			voter.ApplyVoting(b, int64(termPeriod))
		}
		for _, e := range vEvents[v] {
			var votes icstage.VoteList
			for i, p := range e.To {
				votes = append(votes, icstage.NewVote(addr(p), new(big.Int).Set(e.amt[i])))
			}
			vt := vtDelegate
			if e.Kind == "bond" {
				vt = vtBond
			}
			voter.ApplyEvent(calculator.NewVoteEvent(vt, votes, e.Offset), offsetLimit-e.Offset)
		}
		got := voter.CalculateReward(pi)
		// expectation: sum over P-Reps of floor(acc(v,P) * voterReward(P) / sum_u acc(u,P))
		want := new(big.Int)
		detail := map[string]string{}
		for _, p := range sortedInts(acc[v]) {
			a := acc[v][p]
			pr := preps[string(addr(p).Bytes())]
			if pr == nil || a.Sign() == 0 {
				continue
			}
			vr := pr.VoterReward()
			if vr.Sign() == 0 || accTotal[p].Sign() <= 0 {
				continue
			}
			x := new(big.Int).Mul(a, vr)
			x.Div(x, accTotal[p])
			want.Add(want, x)
			detail[fmt.Sprint(p)] = fmt.Sprintf("acc=%s total_acc=%s voter_reward=%s share=%s prep_side_acc_voted=%s", a, accTotal[p], vr, x, pr.AccumulatedVoted())
			if fromP[p] == nil {
				fromP[p] = new(big.Int)
			}
			fromP[p].Add(fromP[p], x)
			c.Count("voter_shares_checked", 1)
		}
		c.Eval(1)
		if got.Cmp(want) != 0 {
			c.Violation("voter.share-not-proportional", map[string]interface{}{"input": in, "voter": v,
				"reward": got.String(), "expected_sum_of_floor_shares": want.String(), "per_prep": detail})
		}
		if got.Sign() > 0 {
			c.Count("voters_rewarded", 1)
		}
		sumVoterCredit.Add(sumVoterCredit, got)
	}
	// total credited (P-Reps + voters) within the term's fund
	total := new(big.Int).Add(sumPRepCredit, sumVoterCredit)
	if fund := new(big.Int).Add(bPRep, bWage); total.Cmp(fund) > 0 {
		c.Violation("budget.total-credited-exceeds-fund", map[string]interface{}{"input": in,
			"credited_to_preps": sumPRepCredit.String(), "credited_to_voters": sumVoterCredit.String(), "term_fund": fund.String()})
	}
	if interesting {
		c.NonTrivial(string(inJSON))
	}
	if c.WantSample() && interesting {
		c.Sample(map[string]interface{}{"phase": "A", "case": ci, "preps": nP, "voters": nV, "events": len(in.Events), "term_period": termPeriod,
			"elected": elected, "budget_iprep": bPRep.String(), "sum_commission_voter_reward": sumPRepFund.String(),
			"credited_preps": sumPRepCredit.String(), "credited_voters": sumVoterCredit.String()})
	}
}

// ranked tells whether P-Rep index p existed when the ranking was made.
func ranked(p, nP int) bool { return p < nP }

func sortedInts(m map[int]*big.Int) []int {
	l := make([]int, 0, len(m))
	for k := range m {
		l = append(l, k)
	}
	sort.Ints(l)
	return l
}

// ---------------------------------------------------------------------------
// phase B

func phaseB(c *ev.Ctx, ci int, r *rand.Rand) {
	p := icon.RandomParams(r)
	p.Penalties = false
	p.TermPeriod = int64(8 + r.Intn(8))
	c.Note("B params %+v", p)
	w, err := icon.NewWorld(p)
	if err != nil {
		c.Notef("case %d: simulator setup failed: %v", ci, err)
		c.Count("setup_failed", 1)
		return
	}
	if err := w.FundTreasury(new(big.Int).Mul(big.NewInt(3000), icon.ICX)); err != nil {
		c.Notef("case %d: %v", ci, err)
		c.Count("setup_failed", 1)
		return
	}
	// wage fund and a reachable minimum bond
	wagePct := int64(r.Intn(40))
	alloc := map[icstate.RFundKey]icmodule.Rate{
		icstate.KeyIprep: icmodule.ToRate(77 - wagePct), icstate.KeyIwage: icmodule.ToRate(wagePct),
		icstate.KeyIcps: icmodule.ToRate(13), icstate.KeyIrelay: icmodule.ToRate(10),
	}
	if err := w.Governance(w.Sim.SetRewardFundAllocation2(w.Gov, alloc)); err != nil {
		c.Notef("case %d: %v", ci, err)
		c.Count("setup_failed", 1)
		return
	}
	if err := w.Governance(w.Sim.SetMinimumBond(w.Gov, new(big.Int).Mul(big.NewInt(int64(r.Intn(3000))), icon.ICX))); err != nil {
		c.Notef("case %d: %v", ci, err)
		c.Count("setup_failed", 1)
		return
	}
	budgets := map[int]*big.Int{}
	funds := map[int]string{}
	note := func() {
		t := w.Sim.TermSnapshot()
		rf := t.RewardFund()
		b := new(big.Int)
		for _, k := range []icstate.RFundKey{icstate.KeyIprep, icstate.KeyIwage} {
			x := new(big.Int).Mul(rf.GetAmount(k), big.NewInt(t.Period()*icmodule.IScoreICXRatio))
			b.Add(b, x.Div(x, big.NewInt(icmodule.MonthBlock)))
		}
		budgets[t.Sequence()] = b
		funds[t.Sequence()] = fmt.Sprintf("%v period=%d", rf, t.Period())
	}
	note()
	prev, err := w.Observe(true)
	if err != nil {
		c.Violation("observe.failed", map[string]interface{}{"case": ci, "err": err.Error()})
		return
	}
	nTerms := 7 + r.Intn(3)
	var tail []map[string]interface{}
	startSeq := prev.TermSeq
	for !c.Stopped() {
		var ops []*icon.Op
		for i := r.Intn(4); i > 0; i-- {
			ops = append(ops, w.GenOp(r, prev))
		}
		desc := make([]string, len(ops))
		for i, op := range ops {
			desc[i] = fmt.Sprintf("%s %s(%s)", op.From, op.Kind, op.Arg)
		}
		c.Note("h=%d ops=%v", prev.Height+1, desc)
		blk, err := w.RunBlock(ops, nil)
		tail = append(tail, map[string]interface{}{"height": prev.Height + 1, "ops": ops})
		if len(tail) > 40 {
			tail = tail[1:]
		}
		if err != nil {
			c.Violation("sim.block-execution-error", map[string]interface{}{"case": ci, "params": p, "height": prev.Height + 1,
				"err": fmt.Sprintf("%+v", err), "history_tail": tail})
			return
		}
		// I-Score is read in the last block of a term and in the first block of the next one
		cur, err := w.Observe(false)
		if err == nil && (cur.Height == cur.TermStart-1 || cur.Height == cur.TermStart) {
			cur, err = w.Observe(true)
		}
		if err != nil {
			c.Violation("observe.failed", map[string]interface{}{"case": ci, "err": err.Error()})
			return
		}
		note()
		c.Count("sim_blocks", 1)
		if cur.Height != cur.TermStart {
			prev = cur
			continue
		}
		// I-Score newly credited in this block: after - before, where an account that claimed in this
		// block restarts from zero (the claim takes the whole I-Score at this revision)
		credited := new(big.Int)
		per := map[string]string{}
		for k, a := range cur.Accts {
			before := prev.Accts[k].IScore
			claimed := false
			for _, op := range ops {
				if op.Kind == "claimIScore" && op.OK && string(op.FromAddr().Bytes()) == k {
					claimed = true
				}
			}
			d := new(big.Int).Set(a.IScore)
			if !claimed {
				d.Sub(d, before)
			}
			if d.Sign() != 0 {
				per[w.Name(a.Addr)] = d.String()
			}
			credited.Add(credited, d)
		}
		_ = blk
		if cur.Height == cur.TermStart {
			c.Eval(1)
			rewardedSeq := cur.TermSeq - 2
			if b, ok := budgets[rewardedSeq]; ok {
				c.Count("sim_term_credit_checks", 1)
				if credited.Sign() > 0 {
					c.Count("sim_credit_positive", 1)
					c.NonTrivial(fmt.Sprintf("B/%d/%d/%d", c.Seed, ci, cur.Height))
				}
				if credited.Cmp(b) > 0 {
					c.Violation("sim.term-credit-exceeds-fund", map[string]interface{}{"case": ci, "params": p, "height": cur.Height,
						"term_seq": cur.TermSeq, "rewarded_term_seq": rewardedSeq, "credited_iscore": credited.String(),
						"period_budget_iprep_plus_iwage": b.String(), "fund": funds[rewardedSeq], "per_account": per, "history_tail": tail})
				}
				if c.WantSample() && credited.Sign() > 0 {
					c.Sample(map[string]interface{}{"phase": "B", "case": ci, "height": cur.Height, "credited_iscore": credited.String(),
						"budget": b.String(), "fund": funds[rewardedSeq]})
				}
			} else {
				c.Count("sim_term_credit_unchecked", 1)
			}
		}
		prev = cur
		if cur.TermSeq-startSeq >= nTerms {
			break
		}
	}
}

func run(c *ev.Ctx) {
	icon.Quiet()
	lg := log.New()
	lg.SetLevel(log.FatalLevel)
	lg.SetConsoleLevel(log.FatalLevel)
	ns := nSim(c.Tier)
	c.Cases(func(ci int, r *rand.Rand) {
		if ci < ns {
			phaseB(c, ci, r)
			return
		}
		phaseA(c, ci, r, lg)
	})
}

var _ module.Address
