// Package c24: integer and hex encodings are minimal and invertible.
//
// The real code driven: intconv.Int64ToBytes / Uint64ToBytes / SizeToBytes /
// BigIntToBytes and their decoders, intconv.Format*/Parse*, common.HexInt and
// the fixed-width common.HexInt16..HexUint64 (JSON, binary and codec forms).
// The oracle is written here with math/big only: the minimal two's-complement
// byte string of x is the L-byte big-endian form of x mod 2^(8L) for the
// smallest L >= 1 with -2^(8L-1) <= x < 2^(8L-1).
package c24

import (
	"bytes"
	"encoding/hex"
	"encoding/json"
	"fmt"
	"math"
	"math/big"
	"math/rand"
	"regexp"

	"github.com/icon-project/goloop/common"
	"github.com/icon-project/goloop/common/codec"
	"github.com/icon-project/goloop/common/intconv"

	"verif/lib/ev"
	"verif/lib/gen"
)

const perCase = 10000

func init() {
	ev.Register(&ev.Prop{
		ID:    "C24",
		Level: "exploration",
		Cases: func(t string) int {
			if t == ev.Thorough {
				return 6400
			}
			return 160
		},
		Batches: func(t string) int {
			if t == ev.Thorough {
				return 16
			}
			return 8
		},
		Rule: "case 0 = the complete boundary table (0, ±1, ±2^k, ±2^k±1 for k=0..63, int64/uint64 min/max; big 2^k, 2^k±1, both signs, k=0..640). Every other case = 10000 numbers: boundary-biased int64, uint64 and big integers (<= 640 bits, both signs, biased to byte boundaries). For each: encoder output must equal the harness's own minimal two's-complement (or minimal unsigned) byte string computed with math/big, decode back to the number, and no proper suffix (shorter string) may decode to the same number; hex text must match -?0x[0-9a-f]+ , be parsed to the same number by math/big (independent parser) and by the goloop parser; HexInt/HexIntNN JSON, binary and codec forms round-trip. Every number also goes, as each Go integer type the typed any-codec accepts (int, int16/32/64, uint, uint16/32/64, *big.Int, *HexInt), through common.EncodeAny/DecodeAny (payload must be the harness's minimal two's complement, decoded number equal) and, for the whole boundary table, all uint64 >= 2^63 and every 8th value, through MarshalAny/UnmarshalAny over codec.BC and codec.MP. Non-trivial = distinct number that is negative or needs >= 2 bytes.",
		MinNonTrivial: func(t string) int { return 100000 },
		Required: []string{"int64_values", "uint64_values", "big_values", "hex_roundtrips", "boundary_table_values",
			"enc_len_ge2", "negative_values", "top_bit_positive", "json_roundtrips", "codec_roundtrips", "shorter_rejected",
			"typed_any_roundtrips", "typed_any_roundtrips_uint64_ge_2p63", "typed_any_marshal_roundtrips_rlp", "typed_any_marshal_roundtrips_msgpack"},
		Assumptions: []string{"math/big arithmetic and encoding/hex, encoding/json are the reference", "minimal length is taken over L >= 1 (a number occupies at least one byte; the empty string is also tolerated for zero)"},
		// single-goroutine differential check: keep the GC from fanning out over all cores
		TimeoutSec: func(t string) int {
			if t == ev.Thorough {
				return 5400
			}
			return 900
		},
		Env: func(string, int) []string { return []string{"GOMAXPROCS=2", "GOGC=400"} },
		Run: run,
	})
}

// refTwos is the harness's own minimal two's-complement encoder.
func refTwos(x *big.Int) []byte {
	one := big.NewInt(1)
	for l := 1; ; l++ {
		hi := new(big.Int).Lsh(one, uint(8*l-1)) // 2^(8L-1)
		lo := new(big.Int).Neg(hi)
		if x.Cmp(lo) >= 0 && x.Cmp(hi) < 0 {
			y := new(big.Int).Set(x)
			if y.Sign() < 0 {
				y.Add(y, new(big.Int).Lsh(one, uint(8*l)))
			}
			return y.FillBytes(make([]byte, l))
		}
	}
}

// refTwosDecode is the harness's own two's complement decoder.
func refTwosDecode(b []byte) *big.Int {
	v := new(big.Int).SetBytes(b)
	if len(b) > 0 && b[0]&0x80 != 0 {
		v.Sub(v, new(big.Int).Lsh(big.NewInt(1), uint(8*len(b))))
	}
	return v
}

// refUnsigned is the minimal unsigned big-endian form with L >= 1.
func refUnsigned(x *big.Int) []byte {
	b := x.Bytes()
	if len(b) == 0 {
		return []byte{0}
	}
	return b
}

var hexText = regexp.MustCompile(`\A-?0x[0-9a-f]+\z`)

type checker struct {
	c     *ev.Ctx
	n     int
	table bool // inside the exhaustive boundary table
}

func hx(b []byte) string { return hex.EncodeToString(b) }

func (k *checker) seen(x *big.Int, enc []byte) {
	c := k.c
	if x.Sign() < 0 {
		c.Count("negative_values", 1)
	}
	if len(enc) >= 2 {
		c.Count("enc_len_ge2", 1)
	}
	if x.Sign() > 0 && x.BitLen()%8 == 0 {
		c.Count("top_bit_positive", 1)
	}
	if x.Sign() < 0 || len(enc) >= 2 {
		c.NonTrivial(x.Text(16))
	}
}

func zeroOK(x *big.Int, enc []byte) bool { return x.Sign() == 0 && len(enc) == 0 }

func (k *checker) int64(v int64) {
	c := k.c
	c.Eval(1)
	c.Count("int64_values", 1)
	k.n++
	k.anyInt64(v, k.table || k.n%8 == 0)
	x := big.NewInt(v)
	want := refTwos(x)
	enc := intconv.Int64ToBytes(v)
	k.seen(x, want)
	if !bytes.Equal(enc, want) && !zeroOK(x, enc) {
		c.Violation("int64.encode.not-minimal-twos-complement", map[string]interface{}{"value": v, "got": hx(enc), "want": hx(want)})
	}
	if len(enc) > 8 {
		return
	}
	if d, ok := intconv.SafeBytesToInt64(enc); !ok || d != v {
		c.Violation("int64.roundtrip", map[string]interface{}{"value": v, "enc": hx(enc), "decoded": d, "ok": ok})
	}
	if d := intconv.BytesToInt64(enc); d != v {
		c.Violation("int64.roundtrip.BytesToInt64", map[string]interface{}{"value": v, "enc": hx(enc), "decoded": d})
	}
	// no shorter string decodes to the same number (L>=1)
	for l := 1; l < len(enc); l++ {
		if d, ok := intconv.SafeBytesToInt64(enc[len(enc)-l:]); ok && d == v {
			c.Violation("int64.shorter-encoding-exists", map[string]interface{}{"value": v, "enc": hx(enc), "shorter": hx(enc[len(enc)-l:])})
		} else {
			c.Count("shorter_rejected", 1)
		}
	}
	// hex text
	s := intconv.FormatInt(v)
	k.hexText("FormatInt", x, s)
	if p, err := intconv.ParseInt(s, 64); err != nil || p != v {
		c.Violation("hex.int64.parse-back", map[string]interface{}{"value": v, "text": s, "parsed": p, "err": fmt.Sprint(err)})
	}
	c.Count("hex_roundtrips", 1)
	// HexInt64 JSON + codec
	h := common.HexInt64{Value: v}
	if h.String() != s {
		c.Violation("hexint64.string", map[string]interface{}{"value": v, "string": h.String(), "format": s})
	}
	jb, err := json.Marshal(h)
	var h2 common.HexInt64
	h2.Value = ^v
	if err != nil || json.Unmarshal(jb, &h2) != nil || h2.Value != v {
		c.Violation("hexint64.json-roundtrip", map[string]interface{}{"value": v, "json": string(jb), "got": h2.Value})
	}
	c.Count("json_roundtrips", 1)
	cb, err := codec.BC.MarshalToBytes(&h)
	var h3 common.HexInt64
	if err != nil {
		c.Violation("hexint64.codec-encode", fmt.Sprint(err))
	} else if _, err := codec.BC.UnmarshalFromBytes(cb, &h3); err != nil || h3.Value != v {
		c.Violation("hexint64.codec-roundtrip", map[string]interface{}{"value": v, "enc": hx(cb), "got": h3.Value, "err": fmt.Sprint(err)})
	}
	c.Count("codec_roundtrips", 1)
	// narrower types when the value fits
	if v >= math.MinInt32 && v <= math.MaxInt32 {
		k.narrow(v)
	}
}

func (k *checker) narrow(v int64) {
	c := k.c
	want := refTwos(big.NewInt(v))
	type rt struct {
		name string
		in   interface{}
		out  interface{}
		get  func() int64
		bs   func() []byte
	}
	var l []rt
	{
		a := common.HexInt32{Value: int32(v)}
		var b common.HexInt32
		b.Value = ^a.Value
		l = append(l, rt{"hexint32", &a, &b, func() int64 { return int64(b.Value) }, nil})
	}
	if v >= math.MinInt16 && v <= math.MaxInt16 {
		a := common.HexInt16{Value: int16(v)}
		var b common.HexInt16
		b.Value = ^a.Value
		l = append(l, rt{"hexint16", &a, &b, func() int64 { return int64(b.Value) }, a.Bytes})
	}
	if v >= 0 {
		a := common.HexUint32{Value: uint32(v)}
		var b common.HexUint32
		b.Value = ^a.Value
		l = append(l, rt{"hexuint32", &a, &b, func() int64 { return int64(b.Value) }, nil})
		if v <= math.MaxUint16 {
			a := common.HexUint16{Value: uint16(v)}
			var b common.HexUint16
			b.Value = ^a.Value
			l = append(l, rt{"hexuint16", &a, &b, func() int64 { return int64(b.Value) }, a.Bytes})
		}
	}
	for _, t := range l {
		jb, err := json.Marshal(t.in)
		if err != nil || json.Unmarshal(jb, t.out) != nil || t.get() != v {
			c.Violation(t.name+".json-roundtrip", map[string]interface{}{"value": v, "json": string(jb), "got": t.get()})
		}
		c.Count("json_roundtrips", 1)
		var js string
		if json.Unmarshal(jb, &js) == nil {
			k.hexText(t.name+".String", big.NewInt(v), js)
		}
		if t.bs != nil {
			if got := t.bs(); !bytes.Equal(got, want) {
				c.Violation(t.name+".bytes", map[string]interface{}{"value": v, "got": hx(got), "want": hx(want)})
			}
		}
	}
	// codec forms (fresh targets)
	{
		a := common.HexInt32{Value: int32(v)}
		var b common.HexInt32
		if cb, err := codec.BC.MarshalToBytes(&a); err != nil {
			c.Violation("hexint32.codec-encode", fmt.Sprint(err))
		} else if _, err := codec.BC.UnmarshalFromBytes(cb, &b); err != nil || b.Value != a.Value {
			c.Violation("hexint32.codec-roundtrip", map[string]interface{}{"value": v, "enc": hx(cb), "got": b.Value, "err": fmt.Sprint(err)})
		}
		c.Count("codec_roundtrips", 1)
	}
	if v >= math.MinInt16 && v <= math.MaxInt16 {
		a := common.HexInt16{Value: int16(v)}
		var b common.HexInt16
		if cb, err := codec.BC.MarshalToBytes(&a); err != nil {
			c.Violation("hexint16.codec-encode", fmt.Sprint(err))
		} else if _, err := codec.BC.UnmarshalFromBytes(cb, &b); err != nil || b.Value != a.Value {
			c.Violation("hexint16.codec-roundtrip", map[string]interface{}{"value": v, "enc": hx(cb), "got": b.Value, "err": fmt.Sprint(err)})
		}
		c.Count("codec_roundtrips", 1)
	}
	if v >= 0 {
		a := common.HexUint32{Value: uint32(v)}
		var b common.HexUint32
		if cb, err := codec.BC.MarshalToBytes(&a); err != nil {
			c.Violation("hexuint32.codec-encode", fmt.Sprint(err))
		} else if _, err := codec.BC.UnmarshalFromBytes(cb, &b); err != nil || b.Value != a.Value {
			c.Violation("hexuint32.codec-roundtrip", map[string]interface{}{"value": v, "enc": hx(cb), "got": b.Value, "err": fmt.Sprint(err)})
		}
		c.Count("codec_roundtrips", 1)
		if v <= math.MaxUint16 {
			a := common.HexUint16{Value: uint16(v)}
			var b common.HexUint16
			if cb, err := codec.BC.MarshalToBytes(&a); err != nil {
				c.Violation("hexuint16.codec-encode", fmt.Sprint(err))
			} else if _, err := codec.BC.UnmarshalFromBytes(cb, &b); err != nil || b.Value != a.Value {
				c.Violation("hexuint16.codec-roundtrip", map[string]interface{}{"value": v, "enc": hx(cb), "got": b.Value, "err": fmt.Sprint(err)})
			}
			c.Count("codec_roundtrips", 1)
		}
	}
}

func (k *checker) uint64(v uint64) {
	c := k.c
	c.Eval(1)
	c.Count("uint64_values", 1)
	k.n++
	k.anyUint64(v, k.table || k.n%8 == 0 || v >= 1<<63)
	x := new(big.Int).SetUint64(v)
	wantT := refTwos(x)
	wantU := refUnsigned(x)
	k.seen(x, wantT)

	// Uint64ToBytes: minimal two's-complement or minimal unsigned (statement:
	// "(or unsigned)"), and must be read back by its decoder.
	enc := intconv.Uint64ToBytes(v)
	if !bytes.Equal(enc, wantT) && !bytes.Equal(enc, wantU) && !zeroOK(x, enc) {
		c.Violation("uint64.encode.not-minimal", map[string]interface{}{"value": v, "got": hx(enc), "want_twos": hx(wantT), "want_unsigned": hx(wantU)})
	}
	if d, ok := intconv.SafeBytesToUint64(enc); !ok || d != v {
		c.Violation("uint64.roundtrip", map[string]interface{}{"value": v, "enc": hx(enc), "decoded": d, "ok": ok})
	} else if d := intconv.BytesToUint64(enc); d != v {
		c.Violation("uint64.roundtrip.BytesToUint64", map[string]interface{}{"value": v, "enc": hx(enc), "decoded": d})
	}
	for l := 1; l < len(enc); l++ {
		if d, ok := intconv.SafeBytesToUint64(enc[len(enc)-l:]); ok && d == v {
			c.Violation("uint64.shorter-encoding-exists", map[string]interface{}{"value": v, "enc": hx(enc), "shorter": hx(enc[len(enc)-l:])})
		} else {
			c.Count("shorter_rejected", 1)
		}
	}
	// SizeToBytes: unsigned minimal
	se := intconv.SizeToBytes(v)
	if !bytes.Equal(se, wantU) && !zeroOK(x, se) {
		c.Violation("size.encode.not-minimal-unsigned", map[string]interface{}{"value": v, "got": hx(se), "want": hx(wantU)})
	}
	if d, ok := intconv.SafeBytesToSize64(se); !ok || d != v {
		c.Violation("size.roundtrip", map[string]interface{}{"value": v, "enc": hx(se), "decoded": d, "ok": ok})
	}
	if v <= math.MaxInt64 {
		if d, ok := intconv.SafeBytesToSize(se); !ok || uint64(d) != v {
			c.Violation("size.roundtrip.int", map[string]interface{}{"value": v, "enc": hx(se), "decoded": d, "ok": ok})
		}
	}
	for l := 1; l < len(se); l++ {
		if d, ok := intconv.SafeBytesToSize64(se[len(se)-l:]); ok && d == v {
			c.Violation("size.shorter-encoding-exists", map[string]interface{}{"value": v, "enc": hx(se)})
		} else {
			c.Count("shorter_rejected", 1)
		}
	}
	// hex text
	s := intconv.FormatUint(v)
	k.hexText("FormatUint", x, s)
	if p, err := intconv.ParseUint(s, 64); err != nil || p != v {
		c.Violation("hex.uint64.parse-back", map[string]interface{}{"value": v, "text": s, "parsed": p, "err": fmt.Sprint(err)})
	}
	c.Count("hex_roundtrips", 1)
	h := common.HexUint64{Value: v}
	jb, err := json.Marshal(h)
	var h2 common.HexUint64
	h2.Value = ^v
	if err != nil || json.Unmarshal(jb, &h2) != nil || h2.Value != v {
		c.Violation("hexuint64.json-roundtrip", map[string]interface{}{"value": v, "json": string(jb), "got": h2.Value})
	}
	c.Count("json_roundtrips", 1)
	cb, err := codec.BC.MarshalToBytes(&h)
	var h3 common.HexUint64
	if err != nil {
		c.Violation("hexuint64.codec-encode", fmt.Sprint(err))
	} else if _, err := codec.BC.UnmarshalFromBytes(cb, &h3); err != nil || h3.Value != v {
		c.Violation("hexuint64.codec-roundtrip", map[string]interface{}{"value": v, "enc": hx(cb), "got": h3.Value, "err": fmt.Sprint(err)})
	}
	c.Count("codec_roundtrips", 1)
}

// hexText checks a formatted number with an independent parser.
func (k *checker) hexText(who string, x *big.Int, s string) {
	c := k.c
	if !hexText.MatchString(s) {
		c.Violation("hex.format.not-hex-text."+who, map[string]interface{}{"value": x.String(), "text": s})
		return
	}
	p, ok := new(big.Int).SetString(s, 0)
	if !ok || p.Cmp(x) != 0 {
		c.Violation("hex.format.wrong-value."+who, map[string]interface{}{"value": x.String(), "text": s, "independent_parse": fmt.Sprint(p)})
	}
}

func (k *checker) big(x *big.Int) {
	c := k.c
	c.Eval(1)
	c.Count("big_values", 1)
	k.n++
	k.anyBig(x, k.table || k.n%8 == 0)
	want := refTwos(x)
	k.seen(x, want)
	keep := new(big.Int).Set(x)
	enc := intconv.BigIntToBytes(x)
	if x.Cmp(keep) != 0 {
		c.Violation("big.encode.modifies-argument", map[string]interface{}{"value": keep.String(), "after": x.String()})
		x.Set(keep)
	}
	if !bytes.Equal(enc, want) && !zeroOK(x, enc) {
		c.Violation("big.encode.not-minimal-twos-complement", map[string]interface{}{"value": x.String(), "got": hx(enc), "want": hx(want)})
	}
	// decode into a dirty target
	d := big.NewInt(-12345)
	if r := intconv.BigIntSetBytes(d, enc); r == nil || d.Cmp(x) != 0 {
		c.Violation("big.roundtrip", map[string]interface{}{"value": x.String(), "enc": hx(enc), "decoded": d.String()})
	}
	// decoder agrees with the harness's own decoder on the encoder's output
	if ref := refTwosDecode(enc); ref.Cmp(x) != 0 {
		c.Violation("big.encode.reference-decoder-disagrees", map[string]interface{}{"value": x.String(), "enc": hx(enc), "ref_decoded": ref.String()})
	}
	// no shorter string decodes to the same number: by two's complement only
	// suffixes can, so test all of them (L>=1)
	for l := 1; l < len(enc); l++ {
		if l > 3 && l < len(enc)-3 {
			continue
		}
		if d2 := intconv.BigIntSetBytes(new(big.Int), enc[len(enc)-l:]); d2.Cmp(x) == 0 {
			c.Violation("big.shorter-encoding-exists", map[string]interface{}{"value": x.String(), "enc": hx(enc), "shorter": hx(enc[len(enc)-l:])})
		} else {
			c.Count("shorter_rejected", 1)
		}
	}
	// hex text
	s := intconv.FormatBigInt(x)
	k.hexText("FormatBigInt", x, s)
	p := big.NewInt(777)
	if err := intconv.ParseBigInt(p, s); err != nil || p.Cmp(x) != 0 {
		c.Violation("hex.big.parse-back", map[string]interface{}{"value": x.String(), "text": s, "parsed": p.String(), "err": fmt.Sprint(err)})
	}
	c.Count("hex_roundtrips", 1)

	// HexInt: String, JSON, Bytes/SetBytes, binary, codec
	var h common.HexInt
	h.Set(x)
	if h.String() != s {
		c.Violation("hexint.string", map[string]interface{}{"value": x.String(), "string": h.String(), "format": s})
	}
	jb, err := json.Marshal(&h)
	var h2 common.HexInt
	h2.SetInt64(99)
	if err != nil || json.Unmarshal(jb, &h2) != nil || h2.Cmp(x) != 0 {
		c.Violation("hexint.json-roundtrip", map[string]interface{}{"value": x.String(), "json": string(jb), "got": h2.Int.String()})
	}
	c.Count("json_roundtrips", 1)
	if hb := h.Bytes(); !bytes.Equal(hb, enc) {
		c.Violation("hexint.bytes", map[string]interface{}{"value": x.String(), "got": hx(hb), "want": hx(enc)})
	}
	var h3 common.HexInt
	h3.SetInt64(-5)
	h3.SetBytes(enc)
	if h3.Cmp(x) != 0 {
		c.Violation("hexint.setbytes", map[string]interface{}{"value": x.String(), "enc": hx(enc), "got": h3.Int.String()})
	}
	mb, err := h.MarshalBinary()
	var h4 common.HexInt
	h4.SetInt64(-5)
	if err != nil || h4.UnmarshalBinary(mb) != nil || h4.Cmp(x) != 0 {
		c.Violation("hexint.binary-roundtrip", map[string]interface{}{"value": x.String(), "bin": hx(mb), "got": h4.Int.String()})
	}
	cb, err := codec.BC.MarshalToBytes(&h)
	var h5 common.HexInt
	h5.SetInt64(-5)
	if err != nil {
		c.Violation("hexint.codec-encode", fmt.Sprint(err))
	} else if _, err := codec.BC.UnmarshalFromBytes(cb, &h5); err != nil || h5.Cmp(x) != 0 {
		c.Violation("hexint.codec-roundtrip", map[string]interface{}{"value": x.String(), "enc": hx(cb), "got": h5.Int.String(), "err": fmt.Sprint(err)})
	}
	// *big.Int through the codec
	cb2, err := codec.BC.MarshalToBytes(x)
	b6 := big.NewInt(-5)
	if err != nil {
		c.Violation("bigint.codec-encode", fmt.Sprint(err))
	} else if _, err := codec.BC.UnmarshalFromBytes(cb2, b6); err != nil || b6.Cmp(x) != 0 {
		c.Violation("bigint.codec-roundtrip", map[string]interface{}{"value": x.String(), "enc": hx(cb2), "got": b6.String(), "err": fmt.Sprint(err)})
	}
	c.Count("codec_roundtrips", 2)
}

func bigGen(r *rand.Rand) *big.Int {
	switch r.Intn(4) {
	case 0:
		// around a byte boundary: ±(2^(8j-1)) + d, ±(2^(8j)) + d
		j := 1 + r.Intn(80)
		k := uint(8*j - r.Intn(2))
		v := new(big.Int).Lsh(big.NewInt(1), k)
		v.Add(v, big.NewInt(int64(r.Intn(5)-2)))
		if r.Intn(2) == 0 {
			v.Neg(v)
		}
		return v
	case 1:
		// random with forced top byte patterns
		n := 1 + r.Intn(80)
		b := gen.Bytes(r, n)
		b[0] = gen.Pick(r, byte(0x80), byte(0x7f), byte(0xff), byte(0x01), byte(0x00), byte(0x81))
		v := new(big.Int).SetBytes(b)
		if r.Intn(2) == 0 {
			v.Neg(v)
		}
		return v
	default:
		return gen.BigInt(r, 640)
	}
}

func (k *checker) boundaryTable() {
	c := k.c
	k.table = true
	defer func() { k.table = false }()
	n := 0
	for kk := uint(0); kk < 64; kk++ {
		p := uint64(1) << kk
		for _, u := range []uint64{p, p - 1, p + 1} {
			k.uint64(u)
			k.int64(int64(u))
			k.int64(-int64(u))
			k.int64(-int64(u) - 1)
			k.int64(-int64(u) + 1)
			n += 5
		}
	}
	for _, v := range []int64{0, 1, -1, math.MaxInt64, math.MinInt64, math.MaxInt64 - 1, math.MinInt64 + 1, 127, 128, -128, -129, 255, 256, -255, -256, -257} {
		k.int64(v)
		n++
	}
	for _, v := range []uint64{0, 1, math.MaxUint64, math.MaxUint64 - 1, math.MaxInt64, math.MaxInt64 + 1} {
		k.uint64(v)
		n++
	}
	for kk := uint(0); kk <= 640; kk++ {
		for d := int64(-1); d <= 1; d++ {
			v := new(big.Int).Lsh(big.NewInt(1), kk)
			v.Add(v, big.NewInt(d))
			k.big(v)
			k.big(new(big.Int).Neg(v))
			n += 2
		}
	}
	k.big(new(big.Int))
	if enc := intconv.BigIntToBytes(nil); !bytes.Equal(enc, []byte{0}) && len(enc) != 0 {
		c.Violation("big.encode.nil", hx(enc))
	}
	c.Count("boundary_table_values", n+1)
}

func run(c *ev.Ctx) {
	k := &checker{c: c}
	c.Cases(func(ci int, r *rand.Rand) {
		if ci == 0 {
			k.boundaryTable()
			return
		}
		for i := 0; i < perCase && !c.Stopped(); i++ {
			switch i % 4 {
			case 0:
				v := gen.Int64(r)
				if i < 8 && c.WantSample() {
					c.Sample(map[string]interface{}{"int64": v, "bytes": hx(intconv.Int64ToBytes(v)), "hex": intconv.FormatInt(v)})
				}
				k.int64(v)
			case 1:
				k.uint64(gen.Uint64(r))
			default:
				x := bigGen(r)
				if i < 8 && c.WantSample() {
					c.Sample(map[string]interface{}{"big": x.String(), "bytes": hx(intconv.BigIntToBytes(x)), "hex": intconv.FormatBigInt(x)})
				}
				k.big(x)
			}
		}
	})
}
