package c24

import (
	"bytes"
	"fmt"
	"math"
	"math/big"

	"github.com/icon-project/goloop/common"
	"github.com/icon-project/goloop/common/codec"
)

// Typed "any" codec (common.TypeCodec / EncodeAny / MarshalAny): every Go
// integer type it accepts must give the harness's own minimal two's-complement
// payload and decode back to the same number (DecodeAny, and
// MarshalAny/UnmarshalAny over codec.BC and codec.MP).

// anyNumber pushes one Go value holding the number x through the typed codec.
// judged=false: observation only (see uint >= 2^63 below).
func (k *checker) anyNumber(goType string, v interface{}, x *big.Int, full bool, judged bool) {
	c := k.c
	want := refTwos(x)
	fail := func(key string, w map[string]interface{}) {
		w["go_type"], w["number"], w["want_payload"] = goType, x.String(), hx(want)
		if judged {
			c.Violation("typedany."+key+"."+goType, w)
		} else {
			c.Count("typedany_unjudged_mismatch_"+goType, 1)
		}
	}
	to, err := common.EncodeAny(v)
	if err != nil {
		fail("encode-error", map[string]interface{}{"err": err.Error()})
		return
	}
	payload, _ := to.Object.([]byte)
	if to.Type != common.TypeInt || (!bytes.Equal(payload, want) && !zeroOK(x, payload)) {
		fail("payload-not-minimal-twos-complement", map[string]interface{}{"tag": to.Type, "payload": hx(payload)})
	}
	num := func(o interface{}) *big.Int {
		if h, ok := o.(*common.HexInt); ok && h != nil {
			return &h.Int
		}
		return nil
	}
	back, err := common.DecodeAny(to)
	if b := num(back); err != nil || b == nil || b.Cmp(x) != 0 {
		fail("decodeany-differs", map[string]interface{}{"payload": hx(payload), "decoded": fmt.Sprint(back), "err": fmt.Sprint(err)})
		return
	}
	c.Count("typed_any_roundtrips", 1)
	if !full {
		return
	}
	for _, cd := range []codec.Codec{codec.BC, codec.MP} {
		bs, err := common.MarshalAny(cd, v)
		if err != nil {
			fail("marshalany-error-"+cd.Name(), map[string]interface{}{"err": err.Error()})
			continue
		}
		o, err := common.UnmarshalAny(cd, bs)
		if b := num(o); err != nil || b == nil || b.Cmp(x) != 0 {
			fail("marshalany-roundtrip-differs-"+cd.Name(), map[string]interface{}{"bytes": hx(bs), "decoded": fmt.Sprint(o), "err": fmt.Sprint(err)})
			continue
		}
		c.Count("typed_any_marshal_roundtrips_"+cd.Name(), 1)
	}
}

func (k *checker) anyInt64(v int64, full bool) {
	x := big.NewInt(v)
	k.anyNumber("int64", v, x, full, true)
	k.anyNumber("int", int(v), x, full, true)
	k.anyNumber("HexInt", common.NewHexInt(v), x, full, true)
	if v >= math.MinInt32 && v <= math.MaxInt32 {
		k.anyNumber("int32", int32(v), x, false, true)
	}
	if v >= math.MinInt16 && v <= math.MaxInt16 {
		k.anyNumber("int16", int16(v), x, false, true)
	}
}

func (k *checker) anyUint64(v uint64, full bool) {
	c := k.c
	x := new(big.Int).SetUint64(v)
	k.anyNumber("uint64", v, x, full, true)
	if v >= 1<<63 {
		c.Count("typed_any_roundtrips_uint64_ge_2p63", 1)
		// Go `uint` >= 2^63 went through Int64ToBytes(int64(v)) at the pinned commit (fixed in /repo,
		// see KNOWN_FINDINGS.txt); judged like every other type
		k.anyNumber("uint", uint(v), x, full, true)
		c.Count("typed_any_roundtrips_uint_ge_2p63", 1)
	} else {
		k.anyNumber("uint", uint(v), x, full, true)
	}
	if v <= math.MaxUint32 {
		k.anyNumber("uint32", uint32(v), x, false, true)
	}
	if v <= math.MaxUint16 {
		k.anyNumber("uint16", uint16(v), x, false, true)
	}
}

func (k *checker) anyBig(x *big.Int, full bool) {
	k.anyNumber("bigInt", new(big.Int).Set(x), x, full, true)
	h := new(common.HexInt)
	h.Set(x)
	k.anyNumber("HexInt", h, x, full, true)
}
