// Package c06: double-sign evidence is accepted only for genuine conflicts.
//
// A pool of real signed vote/proposal messages is generated over the full
// matrix signer x height x round x type x network id x block x timestamp. Every
// message is serialized and decoded through consensus.DecodeDoubleSignData
// (the decoder the platform installs). Three real entry points are driven:
//
//	(1) DoubleSignData.IsConflictWith for every ordered pair of the pool,
//	(2) dsmLog.LogAndCheckVoteMessage / LogAndCheckProposalMessage on message streams,
//	(3) doubleSignReportTx.PreValidate on report transactions built from pairs
//	    (binary round trip, real world context and real context decoder).
//
// The oracle is one-directional, as the statement is ("only if ... never"):
// whenever goloop treats a pair as evidence, the harness model - computed from
// the generator's own description of the two messages, not from goloop's
// parsing - must say: same signer, height, round, kind/type, compatible network
// ids (equal, or one unspecified), different signed fields. Genuine pairs that
// are refused are counted, not reported.
package c06

import (
	"encoding/hex"
	"fmt"
	"math/rand"
	"strconv"
	"time"

	"github.com/icon-project/goloop/chain/base"
	"github.com/icon-project/goloop/common"
	"github.com/icon-project/goloop/common/codec"
	"github.com/icon-project/goloop/common/db"
	"github.com/icon-project/goloop/consensus"
	"github.com/icon-project/goloop/module"
	"github.com/icon-project/goloop/service/state"
	"github.com/icon-project/goloop/service/transaction"

	"verif/lib/ev"
	"verif/lib/svc"
	"verif/lib/vote"
)

type spec struct {
	Kind    string `json:"kind"` // vote | proposal
	Type    string `json:"type"` // prevote | precommit | proposal
	Signer  int    `json:"signer"`
	Height  int64  `json:"height"`
	Round   int32  `json:"round"`
	NID     uint32 `json:"nid"`     // 0 = unspecified
	NIDEnc  string `json:"nid_enc"` // where the network id sits in the message
	Block   string `json:"block"`
	TS      int64  `json:"timestamp,omitempty"`
	NTS     string `json:"nts,omitempty"`
	Content string `json:"signed_fields"`
	Hex     string `json:"message_hex"`

	bytes []byte
	dsd   module.DoubleSignData
	dsd2  module.DoubleSignData // second, independent decoding of the same bytes
}

// model: is (a,b) genuine double-sign evidence? reason names the first condition that fails.
func model(a, b *spec) (bool, string) {
	switch {
	case a.Kind != b.Kind:
		return false, "different-kind"
	case a.Type != b.Type:
		return false, "different-vote-type"
	case a.Signer != b.Signer:
		return false, "different-signer"
	case a.Height != b.Height:
		return false, "different-height"
	case a.Round != b.Round:
		return false, "different-round"
	case a.NID != 0 && b.NID != 0 && a.NID != b.NID:
		return false, "different-network"
	case a.Content == b.Content:
		return false, "identical-signed-content"
	}
	return true, ""
}

// failing counts how many of the conditions fail (for the non-triviality rule).
func failing(a, b *spec) int {
	n := 0
	if a.Kind != b.Kind {
		n++
	}
	if a.Type != b.Type {
		n++
	}
	if a.Signer != b.Signer {
		n++
	}
	if a.Height != b.Height {
		n++
	}
	if a.Round != b.Round {
		n++
	}
	if a.NID != 0 && b.NID != 0 && a.NID != b.NID {
		n++
	}
	if a.Content == b.Content {
		n++
	}
	return n
}

type world struct {
	wallets [2]module.Wallet
	h       int64
	r       int32
	nids    [3]uint32
	ts      int64
	pool    []*spec
	byBytes map[string]int
}

func pickNIDs(r *rand.Rand) (uint32, uint32) {
	var n, m uint32
	switch r.Intn(5) {
	case 0:
		n = uint32(1 + r.Intn(8))
	case 1:
		n = uint32(1 + r.Intn(0xffff))
	case 2:
		n = []uint32{0x7f, 0x80, 0xff, 0x100, 0xffff, 0x10000, 0xffffff, 0x1000000, 0x7ffffffe}[r.Intn(9)]
	default:
		n = uint32(1 + r.Intn(0x7ffffffe))
	}
	for {
		switch r.Intn(5) {
		case 0:
			m = n + 1
		case 1:
			m = n ^ (1 << uint(r.Intn(31)))
		case 2:
			m = n << 8 & 0x7fffffff
		case 3:
			m = n >> 8
		default:
			m = uint32(1 + r.Intn(0x7ffffffe))
		}
		if m != 0 && m != n && m <= 0x7fffffff {
			return n, m
		}
	}
}

func newWorld(r *rand.Rand) (*world, error) {
	w := &world{byBytes: map[string]int{}}
	w.wallets[0], w.wallets[1] = vote.Wallet(r), vote.Wallet(r)
	w.h = int64(3 + r.Intn(1000000))
	w.r = int32(1 + r.Intn(4))
	n, m := pickNIDs(r)
	w.nids = [3]uint32{0, n, m}
	w.ts = int64(1600000000000000 + r.Intn(1000000000))
	rb := func(n int) []byte { b := make([]byte, n); r.Read(b); return b }
	type blk struct {
		name  string
		bid   []byte
		count uint16
		hash  []byte
	}
	blocks := []blk{
		{"A", rb(32), uint16(1 + r.Intn(4)), rb(32)},
		{"B", rb(32), uint16(1 + r.Intn(4)), rb(32)},
	}
	ntsX, ntsY := rb(32), rb(32)
	add := func(s *spec, msg interface{}) error {
		bs, err := codec.BC.MarshalToBytes(msg)
		if err != nil {
			return err
		}
		s.bytes = bs
		s.Hex = hex.EncodeToString(bs)
		w.byBytes[string(bs)] = len(w.pool)
		w.pool = append(w.pool, s)
		return nil
	}
	for si := 0; si < 2; si++ {
		for _, h := range []int64{w.h, w.h + 1} {
			for _, rd := range []int32{w.r, w.r + 1} {
				// votes
				for vt := 0; vt < 2; vt++ {
					tname := []string{"prevote", "precommit"}[vt]
					for ns := 0; ns < 3; ns++ {
						nid := w.nids[ns]
						for _, ts := range []int64{w.ts, w.ts + 1} {
							for _, b := range blocks {
								psid := (&consensus.PartSetID{Count: b.count, Hash: b.hash}).WithAppData(vote.AppData(nid, 0))
								m, err := consensus.VerifNewVote(w.wallets[si], h, rd, consensus.VoteType(vt), b.bid, psid, ts)
								if err != nil {
									return nil, err
								}
								s := &spec{Kind: "vote", Type: tname, Signer: si, Height: h, Round: rd, NID: nid, NIDEnc: "part-set-id app data", Block: b.name, TS: ts,
									Content: fmt.Sprintf("vote/%d/%d/%s/bid=%x/psid=%d:%x/app=%d/ts=%d", h, rd, tname, b.bid, b.count, b.hash, vote.AppData(nid, 0), ts)}
								if err := add(s, m); err != nil {
									return nil, err
								}
							}
							// nil vote: network id in the block-id field
							bid := vote.NilVoteBlockID(nid)
							m, err := consensus.VerifNewVote(w.wallets[si], h, rd, consensus.VoteType(vt), bid, nil, ts)
							if err != nil {
								return nil, err
							}
							s := &spec{Kind: "vote", Type: tname, Signer: si, Height: h, Round: rd, NID: nid, NIDEnc: "block-id field of nil vote", Block: "nil", TS: ts,
								Content: fmt.Sprintf("vote/%d/%d/%s/bid=%x/psid=nil/ts=%d", h, rd, tname, bid, ts)}
							if err := add(s, m); err != nil {
								return nil, err
							}
						}
						if ns == 0 {
							// legacy nil vote without any network id (empty block id)
							m, err := consensus.VerifNewVote(w.wallets[si], h, rd, consensus.VoteType(vt), nil, nil, w.ts)
							if err != nil {
								return nil, err
							}
							s := &spec{Kind: "vote", Type: tname, Signer: si, Height: h, Round: rd, NID: 0, NIDEnc: "absent (empty block id)", Block: "nil", TS: w.ts,
								Content: fmt.Sprintf("vote/%d/%d/%s/bid=/psid=nil/ts=%d", h, rd, tname, w.ts)}
							if err := add(s, m); err != nil {
								return nil, err
							}
						}
						if vt == 1 && ns != 0 {
							// precommits for block A carrying one NTS vote; the NTS part is not
							// covered by the vote signature: X and Y have identical signed fields.
							b := blocks[0]
							app := vote.AppData(nid, 1)
							for k, nh := range [][]byte{ntsX, ntsY} {
								m := consensus.NewVoteMessage(w.wallets[si], consensus.VoteTypePrecommit, h, rd, b.bid,
									&consensus.PartSetID{Count: b.count, Hash: b.hash}, w.ts,
									[]module.NTSHashEntryFormat{{NetworkTypeID: 1, NetworkTypeSectionHash: nh}},
									[][]byte{append([]byte{byte(k)}, nh[:8]...)}, 1)
								m.BlockPartSetIDAndNTSVoteCount = (&consensus.PartSetID{Count: b.count, Hash: b.hash}).WithAppData(app)
								if err := m.Sign(w.wallets[si]); err != nil {
									return nil, err
								}
								s := &spec{Kind: "vote", Type: tname, Signer: si, Height: h, Round: rd, NID: nid, NIDEnc: "part-set-id app data", Block: "A", TS: w.ts, NTS: []string{"X", "Y"}[k],
									Content: fmt.Sprintf("vote/%d/%d/%s/bid=%x/psid=%d:%x/app=%d/ts=%d", h, rd, tname, b.bid, b.count, b.hash, app, w.ts)}
								if err := add(s, m); err != nil {
									return nil, err
								}
							}
						}
					}
				}
				// proposals
				for ns := 0; ns < 3; ns++ {
					nid := w.nids[ns]
					for v := 0; v < 3; v++ {
						b := blocks[v%2]
						pol := int32(-1)
						name := b.name
						if v == 2 {
							pol = rd - 1
							name = "A,other POL round"
						}
						m := consensus.NewProposalMessage()
						m.Height = h
						m.Round = rd
						m.BlockPartSetID = &consensus.PartSetID{Count: b.count, Hash: b.hash}
						m.POLRound = pol
						m.NID = nid
						if err := m.Sign(w.wallets[si]); err != nil {
							return nil, err
						}
						enc := "NID field"
						if nid == 0 {
							enc = "absent (NID field omitted)"
						}
						s := &spec{Kind: "proposal", Type: "proposal", Signer: si, Height: h, Round: rd, NID: nid, NIDEnc: enc, Block: name,
							Content: fmt.Sprintf("proposal/%d/%d/psid=%d:%x/pol=%d/nid=%d", h, rd, b.count, b.hash, pol, nid)}
						if err := add(s, m); err != nil {
							return nil, err
						}
					}
				}
			}
		}
	}
	return w, nil
}

func dst(s *spec) string {
	if s.Kind == "vote" {
		return module.DSTVote
	}
	return module.DSTProposal
}

type pairWitness struct {
	Entry    string      `json:"entry_point"`
	A        *spec       `json:"a"`
	B        *spec       `json:"b"`
	Real     string      `json:"goloop"`
	Model    string      `json:"model"`
	Extra    interface{} `json:"extra,omitempty"`
	NIDsUsed [3]uint32   `json:"case_network_ids"`
}

// ---- world context for PreValidate ----------------------------------------

type platform struct{}

func (platform) ToRevision(int) module.Revision { return module.AllRevision }
func (platform) DoubleSignDataDecoder() module.DoubleSignDataDecoder {
	return consensus.DecodeDoubleSignData // what icon/platform.go installs
}

type dsContext struct {
	bytes []byte
	vl    module.ValidatorList
}

func (c *dsContext) AddressOf(signer []byte) module.Address {
	a := common.NewAddressWithTypeAndID(false, signer)
	if c.vl.IndexOf(a) < 0 {
		return nil
	}
	return a
}
func (c *dsContext) Hash() []byte  { return c.vl.Hash() }
func (c *dsContext) Bytes() []byte { return c.bytes }

func newContext(dbase db.Database, ws ...module.Wallet) (*dsContext, error) {
	var vals []module.Validator
	for _, w := range ws {
		v, err := state.ValidatorFromAddress(w.Address())
		if err != nil {
			return nil, err
		}
		vals = append(vals, v)
	}
	vss, err := state.ValidatorSnapshotFromSlice(dbase, vals)
	if err != nil {
		return nil, err
	}
	return &dsContext{bytes: codec.BC.MustMarshalToBytes([][]byte{vss.Bytes()}), vl: vss}, nil
}

func sizes(tier string) (cases, logSeqs, preVal, transitions int) {
	if tier == ev.Thorough {
		return 800, 40, 3000, 150
	}
	return 32, 24, 1200, 40
}

func init() {
	ev.Register(&ev.Prop{
		ID:      "C06",
		Level:   "exploration",
		Cases:   func(t string) int { c, _, _, _ := sizes(t); return c },
		Batches: func(t string) int { return 16 },
		Rule: "each case draws two keys, a height h, round r, two different non-zero network ids N,M, two blocks and a timestamp from the PRNG and builds the full message matrix " +
			"signer{k1,k2} x height{h,h+1} x round{r,r+1} x {prevote,precommit,proposal} x nid{unspecified,N,M} x block{A,B,nil | A,B,A-other-POL} x timestamp{t,t+1} " +
			"(+ legacy nil votes with empty block id, + precommits with an NTS part outside the signed fields): 408 real signed messages, each decoded through consensus.DecodeDoubleSignData. " +
			"(1) IsConflictWith on all 408^2 ordered pairs (identical pairs through two independent decodings); (2) dsmLog.LogAndCheck* on random streams of pool messages; (3) doubleSignReportTx.PreValidate on report transactions (binary round trip, real world context) for neighbour pairs (0-2 dimensions changed) and random pairs, in four call orders on one transaction object: fresh; after TryGetDoubleSignReportInfo (the order of transition.doExecute for a received block); a second time; on the locally built object; " +
			"(4) a real service transition (validated=false) over a block holding the report transaction: accepted = OnValidate(nil). " +
			"Oracle (one direction, as stated): goloop treats a pair as evidence => model says same signer, height, round, kind/type, network ids equal or one unspecified, signed fields differ. " +
			"Non-trivial = distinct ordered pair (by message bytes, per entry point) that is genuine evidence by the model, or misses it by exactly one condition.",
		MinNonTrivial: func(t string) int {
			if t == ev.Thorough {
				return 500000
			}
			return 200000
		},
		Required: []string{
			"isconflict_accepted_genuine", "isconflict_rejected.different-network", "isconflict_rejected.different-signer",
			"isconflict_rejected.different-height", "isconflict_rejected.different-round", "isconflict_rejected.different-vote-type",
			"isconflict_rejected.different-kind", "isconflict_rejected.identical-signed-content",
			"isconflict_pairs_two_nonzero_nids_differ_vote", "isconflict_pairs_two_nonzero_nids_differ_proposal",
			"dsmlog_evidence_genuine", "dsmlog_messages_vote", "dsmlog_messages_proposal",
			"prevalidate_accepted_genuine", "prevalidate_rejected", "prevalidate_pairs_two_nonzero_nids_differ",
			"prevalidate_after_lookup_lookup_ok", "prevalidate_after_lookup_accepted_genuine", "prevalidate_after_lookup_rejected_nongenuine",
			"prevalidate_repeated_accepted_genuine", "prevalidate_repeated_rejected",
			"prevalidate_local_object_accepted_genuine", "prevalidate_local_object_rejected",
			"transition_validated_genuine", "transition_rejected_nongenuine",
		},
		Assumptions: []string{
			"ECDSA/SHA3 trusted; messages are signed by harness keys (no forgeries)",
			"a message's network id, signer, height, round, type and signed fields are what the generator put in, not what goloop parses",
			"network id 0 / absent / undecodable means 'unspecified' (consensus.matchNID)",
			"PreValidate runs on a real state.WorldContext over an empty MapDB with a platform stub that enables all revisions and installs consensus.DecodeDoubleSignData as icon/platform.go does",
			"service.dsrManager.Add and contract.DSRHandler call the same IsConflictWith and are not driven separately",
			"transition phase: lib/svc environment (basic platform wrapped to enable all revisions and install consensus.DecodeDoubleSignData); 'accepted' means the transition's validation callback reported no error (execution may still fail for lack of a context history)",
		},
		TimeoutSec: func(t string) int {
			if t == ev.Thorough {
				return 3600
			}
			return 900
		},
		Run: run,
	})
}

func run(c *ev.Ctx) {
	vote.Quiet()
	_, nLogSeq, nPre, nTr := sizes(c.Tier)
	c.Cases(func(ci int, r *rand.Rand) {
		w, err := newWorld(r)
		if err != nil {
			c.Violation("harness.pool", err.Error())
			return
		}
		c.Note("keys=%s,%s h=%d r=%d nids=%d,%d ts=%d pool=%d", w.wallets[0].Address(), w.wallets[1].Address(), w.h, w.r, w.nids[1], w.nids[2], w.ts, len(w.pool))
		// decode through the real decoder
		for _, s := range w.pool {
			d1, err1 := consensus.DecodeDoubleSignData(dst(s), s.bytes)
			d2, err2 := consensus.DecodeDoubleSignData(dst(s), s.bytes)
			if err1 != nil || err2 != nil {
				c.Count("decode_failed", 1)
				c.Notef("decode of a valid message failed: %v %s", err1, s.Hex)
				continue
			}
			s.dsd, s.dsd2 = d1, d2
			c.Count("decoded", 1)
		}
		if c.WantSample() {
			c.Sample(map[string]interface{}{"case": ci, "nids": w.nids, "height": w.h, "round": w.r, "pool": len(w.pool), "message": w.pool[r.Intn(len(w.pool))]})
		}
		phaseMatrix(c, w, ci)
		phaseLog(c, w, r, nLogSeq)
		phaseTransition(c, w, r, nTr)
		phasePreValidate(c, w, r, nPre)
	})
}

func report(c *ev.Ctx, w *world, entry string, a, b *spec, reason string, extra interface{}) {
	c.Violation(entry+".accepts."+a.Kind+"."+reason, pairWitness{
		Entry: entry, A: a, B: b, Real: "treated as double-sign evidence",
		Model: "not evidence: " + reason, Extra: extra, NIDsUsed: w.nids,
	})
}

func phaseMatrix(c *ev.Ctx, w *world, ci int) {
	// counters are accumulated locally (one mutex round trip per kind and case)
	cnt := map[string]int{}
	evals := 0
	for i, a := range w.pool {
		if a.dsd == nil {
			continue
		}
		if c.Stopped() {
			break
		}
		for j, b := range w.pool {
			if b.dsd == nil {
				continue
			}
			bd := b.dsd
			if i == j {
				bd = b.dsd2
			}
			evals++
			real := a.dsd.IsConflictWith(bd)
			want, reason := model(a, b)
			if a.Kind == b.Kind && a.NID != 0 && b.NID != 0 && a.NID != b.NID {
				cnt["isconflict_pairs_two_nonzero_nids_differ_"+a.Kind]++
			}
			if real && !want {
				report(c, w, "isconflict", a, b, reason, nil)
			}
			switch {
			case real && want:
				cnt["isconflict_accepted_genuine"]++
				if a.NID == 0 || b.NID == 0 {
					cnt["isconflict_accepted_genuine_with_unspecified_nid"]++
				}
			case !real && want:
				cnt["isconflict_info_genuine_refused"]++
			case !real && !want:
				cnt["isconflict_rejected."+reason]++
			}
			if want || failing(a, b) == 1 {
				// keys are drawn per case, so (case, i, j) identifies the pair of message bytes
				c.NonTrivial("M" + strconv.Itoa(ci) + "/" + strconv.Itoa(i) + "/" + strconv.Itoa(j))
			}
		}
	}
	c.Eval(evals)
	for k, v := range cnt {
		c.Count(k, v)
	}
	// a pair with itself (same object) is never evidence
	for _, a := range w.pool {
		if a.dsd != nil && a.dsd.IsConflictWith(a.dsd) {
			report(c, w, "isconflict", a, a, "identical-signed-content", "same object")
		}
	}
}

func phaseLog(c *ev.Ctx, w *world, r *rand.Rand, nSeq int) {
	for q := 0; q < nSeq && !c.Stopped(); q++ {
		lg := consensus.VerifMakeDSMLog(1 << 24)
		given := map[int]bool{}
		n := 40 + r.Intn(200)
		// focus on a few (signer,height,round) cells so that messages meet each other
		focusH, focusR, focusS := w.h+int64(r.Intn(2)), w.r+int32(r.Intn(2)), r.Intn(2)
		var seq []int
		for k := 0; k < n; k++ {
			idx := r.Intn(len(w.pool))
			if r.Intn(3) != 0 {
				for t := 0; t < 50; t++ {
					s := w.pool[idx]
					if s.Height == focusH && s.Round == focusR && (s.Signer == focusS || r.Intn(4) == 0) {
						break
					}
					idx = r.Intn(len(w.pool))
				}
			}
			seq = append(seq, idx)
		}
		c.Note("dsmlog stream %d: %v", q, seq)
		for _, idx := range seq {
			s := w.pool[idx]
			// a freshly decoded message object, as the engine would get it from the wire
			sp := uint16(consensus.ProtoVote)
			if s.Kind == "proposal" {
				sp = uint16(consensus.ProtoProposal)
			}
			m, err := consensus.UnmarshalMessage(sp, s.bytes)
			if err != nil {
				c.Count("decode_failed", 1)
				continue
			}
			c.Eval(1)
			var got []module.DoubleSignData
			switch mm := m.(type) {
			case *consensus.VoteMessage:
				c.Count("dsmlog_messages_vote", 1)
				got = lg.LogAndCheckVoteMessage(mm)
			case *consensus.ProposalMessage:
				c.Count("dsmlog_messages_proposal", 1)
				got = lg.LogAndCheckProposalMessage(mm)
			}
			if got != nil {
				c.Count("dsmlog_evidence_reported", 1)
				if len(got) != 2 {
					c.Violation("dsmlog.reports.not-a-pair", map[string]interface{}{"len": len(got), "message": s})
				} else {
					i1, ok1 := w.byBytes[string(got[0].Bytes())]
					i2, ok2 := w.byBytes[string(got[1].Bytes())]
					switch {
					case !ok1 || !ok2:
						c.Violation("dsmlog.reports.unknown-message", map[string]interface{}{"first": hex.EncodeToString(got[0].Bytes()), "second": hex.EncodeToString(got[1].Bytes()), "stream": seq})
					case (i2 != idx || !given[i1]) && (i1 != idx || !given[i2]):
						c.Violation("dsmlog.reports.message-never-logged", map[string]interface{}{"first": w.pool[i1], "second": w.pool[i2], "current": s, "stream": seq})
					default:
						a, b := w.pool[i1], w.pool[i2]
						if want, reason := model(a, b); !want {
							report(c, w, "dsmlog", a, b, reason, map[string]interface{}{"stream": seq})
						} else {
							c.Count("dsmlog_evidence_genuine", 1)
						}
						if want, _ := model(a, b); want || failing(a, b) == 1 {
							c.NonTrivial("L" + string(a.bytes) + "|" + string(b.bytes))
						}
					}
				}
			}
			given[idx] = true
		}
	}
}

// neighbour returns a pool index whose spec differs from a in k randomly chosen dimensions.
func neighbour(w *world, r *rand.Rand, ai int, k int) int {
	a := w.pool[ai]
	dims := r.Perm(7)[:k]
	changed := map[int]bool{}
	for _, d := range dims {
		changed[d] = true
	}
	best := -1
	// scan from a random offset for a message matching a in all unchanged dimensions and differing in the changed ones
	off := r.Intn(len(w.pool))
	for t := 0; t < len(w.pool); t++ {
		j := (off + t) % len(w.pool)
		b := w.pool[j]
		if b.Kind != a.Kind && !changed[0] {
			continue
		}
		eq := []bool{b.Type == a.Type, b.Signer == a.Signer, b.Height == a.Height, b.Round == a.Round, b.NID == a.NID, b.Block == a.Block && b.NTS == a.NTS, b.TS == a.TS}
		ok := true
		for d := 0; d < 7; d++ {
			if changed[d] == eq[d] {
				ok = false
				break
			}
		}
		if ok {
			best = j
			break
		}
	}
	if best < 0 {
		return r.Intn(len(w.pool))
	}
	return best
}

func phasePreValidate(c *ev.Ctx, w *world, r *rand.Rand, n int) {
	dbase := db.NewMapDB()
	ws := state.NewWorldState(dbase, nil, nil, nil, nil)
	wc := state.NewWorldContext(ws, common.NewBlockInfo(w.h+10, w.ts), nil, platform{})
	if !wc.Revision().Has(module.ReportDoubleSign) {
		c.Violation("harness.revision", "world context does not enable ReportDoubleSign")
		return
	}
	ctxBoth, err := newContext(dbase, w.wallets[0], w.wallets[1])
	if err != nil {
		c.Violation("harness.context", err.Error())
		return
	}
	ctxOne, err := newContext(dbase, w.wallets[1])
	if err != nil {
		c.Violation("harness.context", err.Error())
		return
	}
	for q := 0; q < n && !c.Stopped(); q++ {
		ai := r.Intn(len(w.pool))
		var bi int
		switch r.Intn(8) {
		case 0:
			bi = r.Intn(len(w.pool))
		case 1:
			bi = ai
		default:
			bi = neighbour(w, r, ai, 1+r.Intn(2))
		}
		a, b := w.pool[ai], w.pool[bi]
		if a.dsd == nil || b.dsd == nil {
			continue
		}
		dsc := ctxBoth
		if r.Intn(10) == 0 {
			dsc = ctxOne
		}
		txNID := int(w.nids[1])
		if r.Intn(6) == 0 {
			txNID = int(w.nids[2])
		}
		c.Note("prevalidate a=%d b=%d ctx=%d txnid=%d", ai, bi, dsc.vl.Len(), txNID)
		c.Eval(1)
		tx0 := transaction.NewDoubleSignReportTx([]module.DoubleSignData{a.dsd, b.dsd}, dsc, txNID, w.ts+int64(q))
		tx, err := transaction.NewTransaction(tx0.Bytes())
		if err != nil {
			c.Count("prevalidate_tx_not_parsed", 1)
			continue
		}
		if err := tx.Verify(); err != nil {
			c.Count("prevalidate_tx_verify_failed", 1)
			continue
		}
		perr := tx.PreValidate(wc, r.Intn(2) == 0)
		want, reason := model(a, b)
		if a.Kind == b.Kind && a.NID != 0 && b.NID != 0 && a.NID != b.NID {
			c.Count("prevalidate_pairs_two_nonzero_nids_differ", 1)
		}
		if perr == nil {
			if !want {
				report(c, w, "prevalidate", a, b, reason, map[string]interface{}{"tx_hex": hex.EncodeToString(tx0.Bytes()), "tx_nid": txNID})
			} else {
				c.Count("prevalidate_accepted_genuine", 1)
				if (a.NID != 0 && int(a.NID) != txNID) || (b.NID != 0 && int(b.NID) != txNID) {
					c.Count("prevalidate_info_accepted_genuine_of_other_network_than_tx", 1)
				}
			}
		} else {
			c.Count("prevalidate_rejected", 1)
			if want && dsc == ctxBoth {
				c.Count("prevalidate_info_genuine_refused", 1)
			}
		}
		if want || failing(a, b) == 1 {
			c.NonTrivial("P" + string(a.bytes) + "|" + string(b.bytes))
		}

		// Other call orders on ONE transaction object (validation must not depend on
		// what was done to the object before):
		extra := map[string]interface{}{"tx_hex": hex.EncodeToString(tx0.Bytes()), "tx_nid": txNID}
		// (a) the order of a block received from another proposer: transition.doExecute first
		// looks the report up (ensureRecordDoubleSignReports -> TryGetDoubleSignReportInfo ->
		// DoubleSignReport.Decode) and only then validates (validateTxs -> PreValidate(wc,true)).
		if tx2, err := transaction.NewTransaction(tx0.Bytes()); err == nil {
			c.Eval(1)
			if _, _, ok := transaction.TryGetDoubleSignReportInfo(wc, tx2); ok {
				c.Count("prevalidate_after_lookup_lookup_ok", 1)
			}
			if err2 := tx2.PreValidate(wc, true); err2 == nil {
				if !want {
					report(c, w, "prevalidate-after-lookup", a, b, reason, extra)
				} else {
					c.Count("prevalidate_after_lookup_accepted_genuine", 1)
				}
			} else {
				c.Count("prevalidate_after_lookup_rejected", 1)
				if !want {
					c.Count("prevalidate_after_lookup_rejected_nongenuine", 1)
				}
			}
		}
		// (b) validating the same object a second time (propose, then validate again on import)
		if err3 := tx.PreValidate(wc, true); err3 == nil {
			if !want {
				report(c, w, "prevalidate-repeated", a, b, reason, extra)
			} else {
				c.Count("prevalidate_repeated_accepted_genuine", 1)
			}
		} else {
			c.Count("prevalidate_repeated_rejected", 1)
		}
		// (c) the locally built object (NewDoubleSignReportTx keeps the decoded data attached)
		if err4 := tx0.PreValidate(wc, true); err4 == nil {
			if !want {
				report(c, w, "prevalidate-local-object", a, b, reason, extra)
			} else {
				c.Count("prevalidate_local_object_accepted_genuine", 1)
			}
		} else {
			c.Count("prevalidate_local_object_rejected", 1)
		}
	}
}

// ---- transition level -------------------------------------------------------

// dsPlatform is the basic platform with every revision enabled and the consensus
// double-sign decoder installed (as icon/platform.go does).
type dsPlatform struct {
	base.Platform
}

func (dsPlatform) ToRevision(int) module.Revision { return module.AllRevision }
func (dsPlatform) DoubleSignDataDecoder() module.DoubleSignDataDecoder {
	return consensus.DecodeDoubleSignData
}

// phaseTransition puts a doubleSignReport transaction into a block and lets a real
// service transition (validated=false, i.e. a block received from another proposer)
// validate it: transition.doExecute -> ensureRecordDoubleSignReports -> validateTxs.
func phaseTransition(c *ev.Ctx, w *world, r *rand.Rand, n int) {
	env, err := svc.NewEnv()
	if err != nil {
		c.Violation("harness.svc-env", err.Error())
		return
	}
	defer env.Close()
	env.Platform = dsPlatform{env.Platform}
	parent, err := env.Init()
	if err != nil {
		c.Violation("harness.svc-init", err.Error())
		return
	}
	dsc, err := newContext(env.DB, w.wallets[0], w.wallets[1])
	if err != nil {
		c.Violation("harness.context", err.Error())
		return
	}
	nid := env.Chain.NID()
	for q := 0; q < n && !c.Stopped(); q++ {
		ai := r.Intn(len(w.pool))
		var bi int
		switch r.Intn(8) {
		case 0:
			bi = r.Intn(len(w.pool))
		case 1:
			bi = ai
		default:
			bi = neighbour(w, r, ai, r.Intn(3))
		}
		a, b := w.pool[ai], w.pool[bi]
		if a.dsd == nil || b.dsd == nil {
			continue
		}
		want, reason := model(a, b)
		tx0 := transaction.NewDoubleSignReportTx([]module.DoubleSignData{a.dsd, b.dsd}, dsc, nid, w.ts+int64(q))
		tx, err := transaction.NewTransaction(tx0.Bytes())
		if err != nil {
			c.Count("transition_tx_not_parsed", 1)
			continue
		}
		c.Note("transition a=%d b=%d", ai, bi)
		c.Eval(1)
		o := env.Run(parent, []module.Transaction{tx}, w.h+10, w.ts+int64(q), 1, false, 60*time.Second)
		switch {
		case o.StartErr != nil || o.TimedOut || o.ValidateCalls == 0:
			c.Count("transition_no_verdict", 1)
		case o.ValidateErr == nil:
			if !want {
				report(c, w, "transition-validate", a, b, reason, map[string]interface{}{"tx_hex": hex.EncodeToString(tx0.Bytes()), "tx_nid": nid, "execute_err": fmt.Sprint(o.ExecuteErr)})
			} else {
				c.Count("transition_validated_genuine", 1)
			}
		default:
			c.Count("transition_rejected", 1)
			if !want {
				c.Count("transition_rejected_nongenuine", 1)
			} else {
				c.Count("transition_info_genuine_refused", 1)
			}
		}
		if want || failing(a, b) == 1 {
			c.NonTrivial("T" + string(a.bytes) + "|" + string(b.bytes))
		}
	}
}
