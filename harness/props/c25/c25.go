// Package c25: header compression is lossless and format-stable.
//
// Real code driven: common.Compress / common.Decompress (vendored
// common/lzw), txresult.LogsBloom.CompressedBytes / NewLogsBloomFromCompressed.
//
// Oracle 1 (format): the harness's own LZW encoder, written from the format
// description (MSB-first bit packing, 8-bit literals, clear=256, eof=257,
// first dictionary code 258, code width 9 growing to 12 at the moment code
// 2^width is defined, clear code emitted only when the dictionary is full
// (code 4095 would be defined), EOF code, zero padding, NO leading clear
// code) must produce exactly the bytes of common.Compress.
// Oracle 2 (lossless): common.Decompress(Compress(x)) == x, and the Go
// standard library's compress/lzw reader (an independent decoder) also
// decodes Compress(x) to x.
// Calibration of oracle 1: the same reference encoder with a leading clear
// code switched on must be byte-identical to the standard library's current
// compress/lzw writer (which differs from the legacy format by exactly that
// leading clear code); an input on which this self-check fails is not judged.
package c25

import (
	"bytes"
	stdlzw "compress/lzw"
	"encoding/hex"
	"io"
	"math/rand"

	"github.com/icon-project/goloop/common"
	"github.com/icon-project/goloop/service/txresult"

	"verif/lib/ev"
	"verif/lib/gen"
)

func init() {
	ev.Register(&ev.Prop{
		ID:    "C25",
		Level: "exploration",
		Cases: func(t string) int {
			if t == ev.Thorough {
				return 1500000
			}
			return 30000
		},
		Batches: func(t string) int {
			if t == ev.Thorough {
				return 16
			}
			return 8
		},
		Rule: "each case = one base byte string (classes: bloom-like 256-byte string with 1..200 bits set and leading zeros stripped as big.Int.Bytes does; real LogsBloom built with AddLog; all-zero / all-0xff / one repeated byte; uniformly random 0..8192 bytes; small-alphabet low-entropy strings up to 40 kB; periodic strings; 256-byte full-width blooms) plus derived strings: the base truncated exactly where the reference encoder defines code 512, 1024, 2048 (width change at Close) or 4095 (clear code at Close), and those ±1 byte. Three out of four ordinary Decompress calls are immediately preceded by a Decompress of a peer-style stream derived from the same data (padding bits after EOF set to ones, truncation at any byte, bit flip, random bytes). Each string: Compress(x) == reference legacy encoding (byte equality), Decompress(Compress(x)) == x, stdlib compress/lzw reader decodes Compress(x) to x. Non-trivial = distinct string whose encoding contains at least one dictionary code (>= 258).",
		MinNonTrivial: func(t string) int { return 30000 },
		Required: []string{"format_compared", "roundtrip_checked", "stdlib_decoded", "reference_selfcheck_ok", "clear_code_inputs",
			"width_10_inputs", "width_12_inputs", "close_boundary_inputs", "close_clear_inputs", "bloom_inputs", "real_logsbloom_inputs", "empty_inputs",
			"sequences_hostile_then_roundtrip", "hostile_decompress_ones-padding", "hostile_decompress_truncated", "hostile_decompress_bit-flip", "hostile_decompress_random", "hostile_ones_padding_still_valid"},
		Assumptions: []string{
			"the Go standard library compress/lzw reader is a correct independent LZW decoder, and its writer differs from the legacy format only by the leading clear code (used to calibrate the harness encoder, not to judge goloop)",
			"the compressed form of the empty string is the empty string (headers of blocks without event logs were hashed with it)",
			"'legacy LZW encoding' = MSB-first, litWidth 8, 9..12-bit codes, clear only on dictionary overflow, EOF code, no leading clear (format of Go's compress/lzw before the leading clear code was introduced)",
		},
		// single-goroutine differential check: keep the GC from fanning out over all cores
		TimeoutSec: func(t string) int {
			if t == ev.Thorough {
				return 5400
			}
			return 900
		},
		Env: func(string, int) []string { return []string{"GOMAXPROCS=2", "GOGC=400"} },
		Run: run,
	})
}

// ---- reference encoder (independent of common/lzw) ----

type bitSink struct {
	out []byte
	acc uint64
	n   uint
}

func (b *bitSink) put(code uint32, width uint) {
	b.acc = b.acc<<width | uint64(code)
	b.n += width
	for b.n >= 8 {
		b.out = append(b.out, byte(b.acc>>(b.n-8)))
		b.n -= 8
	}
	b.acc &= 1<<b.n - 1
}

func (b *bitSink) finish() []byte {
	if b.n > 0 {
		b.out = append(b.out, byte(b.acc<<(8-b.n)))
		b.n = 0
	}
	return b.out
}

const (
	clearCode = 256
	eofCode   = 257
	firstCode = 258
	lastCode  = 4095
)

// trace of what the reference encoder saw
type refTrace struct {
	clears     int // clear codes emitted
	dictCodes  int // emitted codes >= 258
	maxWidth   uint
	boundaryAt map[int]int // defined code (512,1024,2048,4095) -> input length consumed when it was defined by a mid-stream emission
	closeDef   int         // code defined by the final emission
	padBits    uint        // zero padding bits after the EOF code in the last byte
}

// refDict maps (prefix code, next byte) to the phrase's code: a flat table
// indexed by prefix<<8|byte (0 = absent; real codes are >= 258), shared by
// all calls in this single-goroutine check and wiped through a touched list.
var refTable = make([]uint16, 4096*256)

type refDict struct{ touched []uint32 }

func (d *refDict) get(k uint32) (uint32, bool) { v := refTable[k]; return uint32(v), v != 0 }
func (d *refDict) set(k, c uint32)             { refTable[k] = uint16(c); d.touched = append(d.touched, k) }
func (d *refDict) reset() {
	for _, k := range d.touched {
		refTable[k] = 0
	}
	d.touched = d.touched[:0]
}

// refEncode encodes in (len >= 1).
func refEncode(in []byte, leadingClear bool) ([]byte, *refTrace) {
	tr := &refTrace{boundaryAt: map[int]int{}, maxWidth: 9}
	sink := &bitSink{}
	dict := &refDict{} // prefix code <<8 | byte -> code
	defer dict.reset()
	width := uint(9)
	next := uint32(firstCode)
	emit := func(code uint32) {
		sink.put(code, width)
		if code >= firstCode {
			tr.dictCodes++
		}
	}
	// define is called after every emitted data code: the decoder learns a
	// new phrase then, so the code space advances.
	define := func(key uint32, haveKey bool) uint32 {
		c := next
		if c == 1<<width {
			width++
			if width > tr.maxWidth {
				tr.maxWidth = width
			}
		}
		if c == lastCode {
			// dictionary full: clear, restart
			sink.put(clearCode, width)
			tr.clears++
			dict.reset()
			width = 9
			next = firstCode
			return c
		}
		if haveKey {
			dict.set(key, c)
		}
		next++
		return c
	}
	if leadingClear {
		sink.put(clearCode, width)
	}
	w := uint32(in[0])
	for i := 1; i < len(in); i++ {
		x := in[i]
		key := w<<8 | uint32(x)
		if c, ok := dict.get(key); ok {
			w = c
			continue
		}
		emit(w)
		c := define(key, true)
		if c == 512 || c == 1024 || c == 2048 || c == lastCode {
			if _, seen := tr.boundaryAt[int(c)]; !seen {
				tr.boundaryAt[int(c)] = i // in[:i] ends with this very emission
			}
		}
		w = uint32(x)
	}
	emit(w)
	tr.closeDef = int(define(0, false))
	sink.put(eofCode, width)
	tr.padBits = (8 - sink.n%8) % 8
	return sink.finish(), tr
}

// ---- generators ----

func sparseBloom(r *rand.Rand) []byte {
	b := make([]byte, 256)
	nbits := 1 + r.Intn(200)
	if r.Intn(3) == 0 {
		nbits = 1 + r.Intn(9)
	}
	for i := 0; i < nbits; i++ {
		p := r.Intn(2048)
		b[255-p/8] |= 1 << uint(p%8)
	}
	return b
}

func stripZeros(b []byte) []byte {
	for len(b) > 0 && b[0] == 0 {
		b = b[1:]
	}
	return b
}

func realBloom(r *rand.Rand) *txresult.LogsBloom {
	lb := txresult.NewLogsBloom(nil)
	n := 1 + r.Intn(40)
	for i := 0; i < n; i++ {
		var a common.Address
		r.Read(a[:])
		a[0] &= 1
		idx := make([][]byte, 1+r.Intn(4))
		for j := range idx {
			idx[j] = gen.Bytes(r, 1+r.Intn(40))
		}
		lb.AddLog(&a, idx)
	}
	return lb
}

func genInput(r *rand.Rand) ([]byte, string) {
	switch r.Intn(20) {
	case 0, 1, 2, 3:
		return stripZeros(sparseBloom(r)), "bloom-sparse-stripped"
	case 4:
		return sparseBloom(r), "bloom-sparse-256"
	case 5, 6:
		return realBloom(r).Bytes(), "real-logsbloom"
	case 7:
		n := gen.Len(r, 8192)
		b := make([]byte, n)
		v := gen.Pick(r, byte(0), byte(0xff), byte(r.Intn(256)))
		for i := range b {
			b[i] = v
		}
		return b, "one-byte-repeated"
	case 8, 9, 10:
		return gen.Bytes(r, r.Intn(8193)), "random"
	case 11:
		// enough random bytes to fill the dictionary at least once
		return gen.Bytes(r, 4000+r.Intn(4193)), "random-long"
	case 12, 13:
		k := 1 + r.Intn(6)
		max := 8192
		if r.Intn(4) == 0 {
			max = 40000
		}
		n := r.Intn(max + 1)
		alpha := gen.Bytes(r, k)
		b := make([]byte, n)
		for i := range b {
			b[i] = alpha[r.Intn(k)]
		}
		return b, "small-alphabet"
	case 14:
		p := gen.Bytes(r, 1+r.Intn(300))
		n := r.Intn(8193)
		b := make([]byte, n)
		for i := range b {
			b[i] = p[i%len(p)]
		}
		return b, "periodic"
	case 15:
		// low-entropy but wide alphabet: reaches the clear code within ~8 kB
		k := 20 + r.Intn(60)
		n := 5000 + r.Intn(5000)
		b := make([]byte, n)
		for i := range b {
			b[i] = byte(r.Intn(k))
		}
		return b, "medium-alphabet-long"
	case 16:
		return gen.BytesBiased(r, 1025), "short-biased"
	case 17:
		// blocks of repeated random words (text-like)
		words := make([][]byte, 2+r.Intn(30))
		for i := range words {
			words[i] = gen.Bytes(r, 1+r.Intn(12))
		}
		var b []byte
		n := r.Intn(8193)
		for len(b) < n {
			b = append(b, words[r.Intn(len(words))]...)
		}
		return b, "word-soup"
	case 18:
		return gen.Bytes(r, r.Intn(4)), "tiny"
	default:
		// dense bloom (many bits)
		b := make([]byte, 256)
		r.Read(b)
		for i := range b {
			b[i] |= byte(r.Intn(256))
		}
		return b, "bloom-dense"
	}
}

func hx(b []byte) string {
	if len(b) > 20000 {
		return hex.EncodeToString(b[:20000]) + "...(truncated)"
	}
	return hex.EncodeToString(b)
}

func stdDecode(b []byte) ([]byte, error) {
	rd := stdlzw.NewReader(bytes.NewReader(b), stdlzw.MSB, 8)
	defer rd.Close()
	return io.ReadAll(rd)
}

func stdEncode(b []byte) []byte {
	var buf bytes.Buffer
	w := stdlzw.NewWriter(&buf, stdlzw.MSB, 8)
	w.Write(b)
	w.Close()
	return buf.Bytes()
}

// checkOne judges one input; returns the trace of the reference encoder.
func checkOne(c *ev.Ctx, r *rand.Rand, in []byte, class string) *refTrace {
	c.Eval(1)
	c.Count("inputs_"+class, 1)
	keep := append([]byte(nil), in...)
	got := common.Compress(in)
	if !bytes.Equal(in, keep) {
		c.Violation("compress.modifies-input", map[string]string{"class": class, "input": hx(keep)})
	}
	if len(in) == 0 {
		c.Count("empty_inputs", 1)
		// lossless: the empty string must come back
		if back := common.Decompress(got); len(back) != 0 {
			c.Violation("roundtrip.empty", map[string]string{"compressed": hx(got), "back": hx(back)})
		}
		c.Count("roundtrip_checked", 1)
		// The empty string is not LZW-encoded at all: existing headers carry an
		// empty compressed field for an empty bloom (Compress's documented
		// special case), so format stability means "empty stays empty".
		if len(got) != 0 {
			c.Violation("format.empty-input-not-empty", map[string]string{"compressed": hx(got)})
		}
		c.Count("format_compared", 1)
		return nil
	}
	want, tr := refEncode(in, false)
	// calibration of the reference encoder against stdlib's writer
	withClear, _ := refEncode(in, true)
	if std := stdEncode(in); !bytes.Equal(withClear, std) {
		c.Count("reference_selfcheck_failed", 1)
		c.Notef("harness: reference encoder (leading clear on) differs from stdlib writer for class %s len %d; input not judged", class, len(in))
		return tr
	}
	c.Count("reference_selfcheck_ok", 1)

	c.Count("format_compared", 1)
	if !bytes.Equal(got, want) {
		key := "format.differs-from-legacy"
		if bytes.Equal(got, withClear) {
			key = "format.leading-clear-code"
		} else if len(got) > 1 && got[0] == 0x80 {
			key = "format.differs-from-legacy.starts-with-clear"
		}
		// first differing byte for the witness
		d := 0
		for d < len(got) && d < len(want) && got[d] == want[d] {
			d++
		}
		c.Violation(key, map[string]interface{}{"class": class, "input": hx(in), "compressed": hx(got), "legacy_reference": hx(want),
			"first_diff_byte": d, "len_got": len(got), "len_want": len(want), "clears": tr.clears, "close_defines_code": tr.closeDef})
	}
	// sequences: Decompress of a peer-supplied (non-canonical / damaged) stream
	// right before the ordinary round trip; the ordinary one must not notice
	hk1, hs1 := hostileDecompress(c, r, want, tr)
	back := common.Decompress(got)
	c.Count("roundtrip_checked", 1)
	if !bytes.Equal(back, in) && hk1 != "" {
		retry := common.Decompress(got)
		c.Violation("roundtrip.state-leak.after-hostile-decompress."+hk1, map[string]interface{}{"class": class, "input": hx(in), "compressed": hx(got), "back_len": len(back), "back": hx(back),
			"previous_decompress_input": hx(hs1), "previous_kind": hk1, "same_call_repeated_gives_input": bytes.Equal(retry, in)})
	} else if !bytes.Equal(back, in) {
		c.Violation("roundtrip.decompress-differs", map[string]interface{}{"class": class, "input": hx(in), "compressed": hx(got), "back_len": len(back), "back": hx(back)})
	}
	if d, err := stdDecode(got); err != nil || !bytes.Equal(d, in) {
		c.Violation("roundtrip.stdlib-decoder-differs", map[string]interface{}{"class": class, "input": hx(in), "compressed": hx(got), "err": errStr(err), "decoded_len": len(d)})
	}
	c.Count("stdlib_decoded", 1)
	// goloop's decoder on the reference stream as well (existing blocks hold reference streams)
	hk2, hs2 := hostileDecompress(c, r, want, tr)
	if d := common.Decompress(want); !bytes.Equal(d, in) && hk2 != "" {
		c.Violation("roundtrip.state-leak.after-hostile-decompress."+hk2, map[string]interface{}{"class": class, "input": hx(in), "compressed": hx(want), "back_len": len(d),
			"previous_decompress_input": hx(hs2), "previous_kind": hk2})
	} else if !bytes.Equal(d, in) {
		c.Violation("roundtrip.decompress-of-legacy-stream", map[string]interface{}{"class": class, "input": hx(in), "legacy_reference": hx(want), "back_len": len(d)})
	}

	if tr.clears > 0 {
		c.Count("clear_code_inputs", 1)
	}
	if tr.maxWidth >= 10 {
		c.Count("width_10_inputs", 1)
	}
	if tr.maxWidth >= 12 {
		c.Count("width_12_inputs", 1)
	}
	switch tr.closeDef {
	case 512, 1024, 2048:
		c.Count("close_boundary_inputs", 1)
	case lastCode:
		c.Count("close_clear_inputs", 1)
	}
	if tr.dictCodes > 0 {
		c.NonTrivial(string(in))
	}
	return tr
}

// hostileDecompress feeds Decompress a stream a peer could send (derived from
// the valid stream of the current input): the valid stream with its padding
// bits after the EOF code set to ones, a truncation (any byte position, i.e.
// also in the middle of a code), a bit flip, random bytes, or an ordinary
// stream followed by garbage. Nothing is demanded of its result except that
// it returns; what is judged is the ordinary call that follows.
func hostileDecompress(c *ev.Ctx, r *rand.Rand, valid []byte, tr *refTrace) (kind string, stream []byte) {
	if r.Intn(4) == 0 {
		return "", nil // plain round trip, no predecessor
	}
	switch k := r.Intn(6); {
	case k <= 1 && tr.padBits > 0:
		stream = append([]byte(nil), valid...)
		stream[len(stream)-1] |= byte(1<<tr.padBits - 1)
		kind = "ones-padding"
		if d, err := stdDecode(stream); err == nil && len(d) > 0 {
			c.Count("hostile_ones_padding_still_valid", 1)
		}
	case k <= 3 && len(valid) > 1:
		stream = append([]byte(nil), valid[:1+r.Intn(len(valid)-1)]...)
		kind = "truncated"
	case k == 4:
		stream = append([]byte(nil), valid...)
		stream[r.Intn(len(stream))] ^= 1 << uint(r.Intn(8))
		kind = "bit-flip"
	default:
		stream = gen.Bytes(r, 1+r.Intn(40))
		kind = "random"
	}
	c.Note("hostile-decompress kind=%s stream=%x", kind, stream[:minInt(len(stream), 48)])
	common.Decompress(stream)
	c.Count("hostile_decompress_"+kind, 1)
	c.Count("sequences_hostile_then_roundtrip", 1)
	return
}

func minInt(a, b int) int {
	if a < b {
		return a
	}
	return b
}

func errStr(err error) string {
	if err == nil {
		return ""
	}
	return err.Error()
}

func run(c *ev.Ctx) {
	c.Cases(func(ci int, r *rand.Rand) {
		in, class := genInput(r)
		if len(in) <= 64 {
			c.Note("class=%s input=%x", class, in)
		} else {
			c.Note("class=%s len=%d head=%x", class, len(in), in[:32])
		}
		switch class {
		case "bloom-sparse-stripped", "bloom-sparse-256", "bloom-dense":
			c.Count("bloom_inputs", 1)
		case "real-logsbloom":
			c.Count("real_logsbloom_inputs", 1)
			c.Count("bloom_inputs", 1)
			// the LogsBloom API on top of Compress/Decompress
			lb := txresult.NewLogsBloom(in)
			cb := lb.CompressedBytes()
			lb2 := txresult.NewLogsBloomFromCompressed(cb)
			if !bytes.Equal(lb2.Bytes(), lb.Bytes()) || !lb2.Equal(lb) {
				c.Violation("logsbloom.compressed-roundtrip", map[string]string{"bloom": hx(in), "compressed": hx(cb), "back": hx(lb2.Bytes())})
			}
			if !bytes.Equal(cb, common.Compress(lb.Bytes())) {
				c.Violation("logsbloom.compressed-bytes-not-compress", map[string]string{"bloom": hx(in)})
			}
		}
		tr := checkOne(c, r, in, class)
		if ci%8 == 0 && c.WantSample() && len(in) > 0 && len(in) <= 256 {
			c.Sample(map[string]interface{}{"class": class, "input": hx(in), "compressed": hx(common.Compress(in))})
		}
		if tr == nil {
			return
		}
		// derived inputs: truncate where a width change / the clear code lands on Close
		for _, code := range []int{512, 1024, 2048, lastCode} {
			at, ok := tr.boundaryAt[code]
			if !ok {
				continue
			}
			for _, d := range []int{0, -1, 1} {
				n := at + d
				if n < 1 || n > len(in) {
					continue
				}
				if d != 0 && r.Intn(3) != 0 {
					continue
				}
				checkOne(c, r, in[:n], class+"-cut")
			}
		}
	})
}
