package c21

// Live sibling handles. A key builder / sub-dictionary derived from a parent
// must stay the path it was derived for whatever else is derived from the
// same parent later: (A') Build() of every handle is stable and equal to the
// key of the same path built from scratch, and sibling handles with distinct
// parts never share a key; (D') histories over dictionaries nested 3-4 levels
// (and arrays/vars created from one shared parent builder) that keep many
// sub-handles alive and interleave writes/reads/deletes through old and new
// handles and through the root with the full path, versus a map model.

import (
	"bytes"
	"fmt"
	"math/rand"
	"strings"

	"github.com/icon-project/goloop/common/containerdb"
	"github.com/icon-project/goloop/common/db"
	"github.com/icon-project/goloop/service/scoredb"
	"github.com/icon-project/goloop/service/state"

	"verif/lib/ev"
)

const (
	siblingSetsPerCase     = 30
	nestedHistoriesPerCase = 4
)

type bkind struct {
	name  string
	fresh func(parts []tval) containerdb.KeyBuilder // whole path in one step (fresh allocation)
	root  func(parts []tval) containerdb.KeyBuilder // builder for the first parts
	min   int
}

var bkinds = []bkind{
	{"hash", func(p []tval) containerdb.KeyBuilder { return containerdb.ToKey(containerdb.HashBuilder, vals(p)...) },
		func(p []tval) containerdb.KeyBuilder { return containerdb.ToKey(containerdb.HashBuilder, vals(p)...) }, 0},
	{"newhashkey", func(p []tval) containerdb.KeyBuilder { return containerdb.NewHashKey(nil, vals(p)...) },
		func(p []tval) containerdb.KeyBuilder { return containerdb.NewHashKey(nil, vals(p)...) }, 0},
	{"prefixed-hash", func(p []tval) containerdb.KeyBuilder {
		return containerdb.ToKey(containerdb.PrefixedHashBuilder, vals(p)...)
	},
		func(p []tval) containerdb.KeyBuilder {
			return containerdb.ToKey(containerdb.PrefixedHashBuilder, vals(p)...)
		}, 1},
	{"rlp", func(p []tval) containerdb.KeyBuilder { return containerdb.ToKey(containerdb.RLPBuilder, vals(p)...) },
		func(p []tval) containerdb.KeyBuilder { return containerdb.ToKey(containerdb.RLPBuilder, vals(p)...) }, 0},
}

func smallVal(r *rand.Rand) tval {
	// ordinary values: the break under test needs a sequence, not a special input
	switch r.Intn(4) {
	case 0:
		s := []string{"alice", "bob", "tokenA", "tokenB", "amount", "a", "b", "ab"}[r.Intn(8)]
		return tval{s, []byte(s), fmt.Sprintf("string(%x)", s)}
	case 1:
		i := int64(r.Intn(4))
		return tval{i, twos64(i), fmt.Sprintf("int64(%d)", i)}
	default:
		return genVal(r)
	}
}

func twos64(i int64) []byte { return []byte{byte(i)} } // 0..3 only

type handle struct {
	kb    containerdb.KeyBuilder
	path  []tval
	first []byte // first Build()
	born  int
}

func siblingBuilderChecks(c *ev.Ctx, r *rand.Rand) {
	for s := 0; s < siblingSetsPerCase && !c.Stopped(); s++ {
		c.Eval(1)
		k := bkinds[r.Intn(len(bkinds))]
		// parent: root over the first parts, then 0-2 Append steps
		nRoot := k.min + r.Intn(2)
		var path []tval
		for i := 0; i < nRoot; i++ {
			path = append(path, smallVal(r))
		}
		parent := k.root(path)
		nApp := r.Intn(3)
		if r.Intn(4) != 0 && nApp == 0 {
			nApp = 1
		}
		for i := 0; i < nApp; i++ {
			var step []tval
			for j, n := 0, 1+r.Intn(2); j < n; j++ {
				step = append(step, smallVal(r))
			}
			parent = parent.Append(vals(step)...)
			path = append(path, step...)
		}
		if len(path) == 0 {
			continue
		}
		if nApp > 0 {
			c.Count("sibling_sets_parent_appended", 1)
		}
		c.Count("sibling_sets_"+strings.ReplaceAll(k.name, "-", "_"), 1)
		var hs []*handle
		hs = append(hs, &handle{kb: parent, path: path, first: parent.Build()})
		var log []string
		log = append(log, fmt.Sprintf("parent(%s) path=%v root_parts=%d appends=%d", k.name, descs(path), nRoot, nApp))
		check := func(when string) bool {
			for i, h := range hs {
				got := h.kb.Build()
				c.Count("sibling_builds_after_derivation", 1)
				if !bytes.Equal(got, h.first) {
					c.Violation("builder.key-changes-after-sibling-derived."+k.name, map[string]interface{}{"steps": log, "when": when,
						"handle_path": descs(h.path), "first_build": hx(h.first), "now": hx(got)})
					return false
				}
				fresh := k.fresh(h.path).Build()
				if !bytes.Equal(got, fresh) {
					c.Violation("builder.handle-key-differs-from-fresh-path-key."+k.name, map[string]interface{}{"steps": log, "when": when,
						"handle_path": descs(h.path), "handle_key": hx(got), "fresh_key": hx(fresh)})
					return false
				}
				for j := 0; j < i; j++ {
					if canon(hs[j].path) != canon(h.path) && bytes.Equal(hs[j].kb.Build(), got) {
						c.Violation("builder.sibling-handles-collide."+k.name, map[string]interface{}{"steps": log, "when": when,
							"path_a": descs(hs[j].path), "path_b": descs(h.path), "key": hx(got)})
						return false
					}
				}
			}
			return true
		}
		nSib := 2 + r.Intn(3)
		distinct := map[string]bool{}
		for i := 0; i < nSib+2; i++ {
			// derive from the parent (siblings) or from an earlier sibling (children; they are parents too)
			from := hs[0]
			if i >= 2 && r.Intn(3) == 0 {
				from = hs[1+r.Intn(len(hs)-1)]
			}
			var step []tval
			for j, n := 0, 1+r.Intn(2); j < n; j++ {
				step = append(step, smallVal(r))
			}
			np := append(append([]tval(nil), from.path...), step...)
			nh := &handle{kb: from.kb.Append(vals(step)...), path: np, born: i}
			nh.first = nh.kb.Build()
			hs = append(hs, nh)
			distinct[canon(np)] = true
			log = append(log, fmt.Sprintf("derive %v from %v", descs(step), descs(from.path)))
			if !check(fmt.Sprintf("after derivation %d", i)) {
				return
			}
		}
		if len(distinct) >= 2 {
			c.Count("sibling_sets", 1)
			c.NonTrivial("B" + k.name + strings.Join(log, ";"))
		}
	}
}

// ---- nested dictionaries / arrays / vars with many live sibling handles ------

type dhandle struct {
	d      *containerdb.DictDB
	prefix []tval // keys consumed so far
	parent *dhandle
	kids   int // handles derived from this one
	seq    int // derivation order among the parent's kids
}

func nestedHistory(c *ev.Ctx, r *rand.Rand, hno int) {
	ws := state.NewWorldState(db.NewMapDB(), nil, nil, nil, nil)
	as := ws.GetAccountState([]byte{byte(r.Intn(256)), 9})
	depth := 3 + r.Intn(2)
	var ops []string
	var root *containerdb.DictDB
	var shared containerdb.KeyBuilder // parent builder shared by sibling arrays/vars
	how := r.Intn(4)
	switch how {
	case 0: // scoredb container with extra prefix keys
		var extra []tval
		for i, n := 0, r.Intn(3); i < n; i++ {
			extra = append(extra, smallVal(r))
		}
		root = scoredb.NewDictDB(as, "balances", depth, vals(extra)...)
		shared = containerdb.ToKey(containerdb.HashBuilder, scoredb.ArrayDBPrefix, "lists").Append(vals(extra)...)
		ops = append(ops, fmt.Sprintf("scoredb.NewDictDB(balances, depth %d, extra %v)", depth, descs(extra)))
	case 1:
		root = containerdb.NewDictDB(as, depth, containerdb.ToKey(containerdb.HashBuilder, "balances"))
		shared = containerdb.ToKey(containerdb.HashBuilder, "lists").Append(smallVal(r).v)
		ops = append(ops, fmt.Sprintf("containerdb.NewDictDB(hash builder, depth %d)", depth))
	case 2:
		root = containerdb.NewDictDB(as, depth, containerdb.ToKey(containerdb.PrefixedHashBuilder, []byte{0xee}, "balances"))
		shared = containerdb.ToKey(containerdb.PrefixedHashBuilder, []byte{0xee}, "lists").Append(smallVal(r).v)
		ops = append(ops, fmt.Sprintf("containerdb.NewDictDB(prefixed hash builder, depth %d)", depth))
	default:
		root = containerdb.NewDictDB(as, depth, containerdb.ToKey(containerdb.RLPBuilder, "balances"))
		shared = containerdb.NewHashKey([]byte{0x07}, "lists").Append(smallVal(r).v)
		ops = append(ops, fmt.Sprintf("containerdb.NewDictDB(rlp builder, depth %d)", depth))
	}
	viol := func(key string, d map[string]interface{}) {
		d["ops"] = append([]string(nil), ops...)
		c.Violation(key, d)
	}
	vb := func(v containerdb.Value) []byte {
		if v == nil {
			return nil
		}
		return v.Bytes()
	}
	// a small key pool per level so that siblings and revisits are the rule
	pool := make([][]tval, depth)
	for l := range pool {
		for i, n := 0, 2+r.Intn(2); i < n; i++ {
			v := smallVal(r)
			dup := false
			for _, o := range pool[l] {
				if bytes.Equal(o.b, v.b) {
					dup = true
				}
			}
			if !dup {
				pool[l] = append(pool[l], v)
			}
		}
	}
	model := map[string][]byte{}
	rootH := &dhandle{d: root}
	handles := []*dhandle{rootH}
	olderUsed, rootReads, sibDerived := 0, 0, 0

	// sibling arrays / vars created from ONE shared parent builder
	type sarr struct {
		a    *containerdb.ArrayDB
		v    *containerdb.VarDB
		name tval
		ma   [][]byte
		mv   []byte
	}
	var arrs []*sarr

	fullPath := func(h *dhandle) []tval {
		p := append([]tval(nil), h.prefix...)
		for l := len(p); l < depth; l++ {
			p = append(p, pool[l][r.Intn(len(pool[l]))])
		}
		return p
	}
	nOps := 70 + r.Intn(60)
	for i := 0; i < nOps; i++ {
		switch x := r.Intn(100); {
		case x < 18: // derive a sub-dictionary handle from any live handle and keep both
			var cands []*dhandle
			for _, h := range handles {
				if len(h.prefix) < depth-1 {
					cands = append(cands, h)
				}
			}
			from := cands[r.Intn(len(cands))]
			room := depth - 1 - len(from.prefix)
			n := 1
			if room > 1 && r.Intn(3) == 0 {
				n = 2
			}
			var step []tval
			for j := 0; j < n; j++ {
				l := len(from.prefix) + j
				step = append(step, pool[l][r.Intn(len(pool[l]))])
			}
			sub := from.d.GetDB(vals(step)...)
			if sub == nil {
				viol("nested-dict.getdb-nil", map[string]interface{}{"from": descs(from.prefix), "step": descs(step), "depth": depth})
				return
			}
			if from.kids > 0 {
				sibDerived++
				c.Count("nested_sibling_handles_derived", 1)
			}
			nh := &dhandle{d: sub, prefix: append(append([]tval(nil), from.prefix...), step...), parent: from, seq: from.kids}
			from.kids++
			handles = append(handles, nh)
			ops = append(ops, fmt.Sprintf("h%d = h(%v).GetDB(%v)", len(handles)-1, descs(from.prefix), descs(step)))
		case x < 78: // set / get / delete through a random live handle (old or new)
			hi := r.Intn(len(handles))
			if r.Intn(2) == 0 && len(handles) > 1 { // prefer handles that have younger siblings
				for t := 0; t < 4; t++ {
					j := 1 + r.Intn(len(handles)-1)
					if handles[j].parent.kids > handles[j].seq+1 {
						hi = j
						break
					}
				}
			}
			h := handles[hi]
			older := h.parent != nil && h.parent.kids > h.seq+1
			p := fullPath(h)
			rest := p[len(h.prefix):]
			ck := canon(p)
			tag := "via-handle"
			if older {
				tag = "via-older-sibling-handle"
				olderUsed++
				c.Count("nested_ops_via_older_sibling", 1)
			} else if h.parent == nil {
				tag = "via-root-full-path"
			}
			switch y := r.Intn(10); {
			case y < 4:
				v := nonEmptyVal(r)
				ops = append(ops, fmt.Sprintf("h%d(%v).Set(%v = %s)", hi, descs(h.prefix), descs(rest), v.desc))
				if err := h.d.Set(append(vals(rest), v.v)...); err != nil {
					viol("nested-dict.set-error", map[string]interface{}{"err": err.Error()})
					return
				}
				model[ck] = v.b
				c.Count("nested_dict_set", 1)
			case y < 6:
				ops = append(ops, fmt.Sprintf("h%d(%v).Delete(%v)", hi, descs(h.prefix), descs(rest)))
				if err := h.d.Delete(vals(rest)...); err != nil {
					viol("nested-dict.delete-error", map[string]interface{}{"err": err.Error()})
					return
				}
				if _, ok := model[ck]; ok {
					c.Count("nested_dict_delete", 1)
				}
				delete(model, ck)
			default:
				ops = append(ops, fmt.Sprintf("h%d(%v).Get(%v)", hi, descs(h.prefix), descs(rest)))
				if got := vb(h.d.Get(vals(rest)...)); !bytes.Equal(got, model[ck]) {
					viol("nested-dict.get-not-last-written."+tag, map[string]interface{}{"path": descs(p), "handle_prefix": descs(h.prefix), "want": hx(model[ck]), "got": hx(got)})
					return
				}
			}
			// the same entry through the root with the full path (independent key derivation)
			if r.Intn(2) == 0 {
				rootReads++
				c.Count("nested_root_fullpath_reads", 1)
				if got := vb(root.Get(vals(p)...)); !bytes.Equal(got, model[ck]) {
					viol("nested-dict.entry-written-through-handle-not-at-its-path", map[string]interface{}{"path": descs(p), "handle_prefix": descs(h.prefix), "handle_kind": tag, "want": hx(model[ck]), "got": hx(got)})
					return
				}
			}
		case x < 84: // a new sibling array or var from the shared parent builder
			if len(arrs) >= 5 {
				continue
			}
			name := smallVal(r)
			dup := false
			for _, o := range arrs {
				if bytes.Equal(o.name.b, name.b) {
					dup = true
				}
			}
			if dup {
				continue
			}
			sa := &sarr{name: name}
			if r.Intn(3) == 0 {
				sa.v = containerdb.NewVarDB(as, shared.Append(name.v, "var"))
				ops = append(ops, fmt.Sprintf("var[%s] from shared parent builder", name.desc))
			} else {
				sa.a = containerdb.NewArrayDB(as, shared.Append(name.v))
				ops = append(ops, fmt.Sprintf("array[%s] from shared parent builder", name.desc))
			}
			if len(arrs) > 0 {
				c.Count("sibling_containers_from_shared_builder", 1)
			}
			arrs = append(arrs, sa)
		default: // ops on a sibling array / var (old or new)
			if len(arrs) == 0 {
				continue
			}
			sa := arrs[r.Intn(len(arrs))]
			if sa.v != nil {
				if r.Intn(2) == 0 {
					v := nonEmptyVal(r)
					ops = append(ops, fmt.Sprintf("var[%s].Set(%s)", sa.name.desc, v.desc))
					if err := sa.v.Set(v.v); err != nil {
						viol("sibling-var.set-error", map[string]interface{}{"err": err.Error()})
						return
					}
					sa.mv = v.b
				} else if got := sa.v.Bytes(); !bytes.Equal(got, sa.mv) {
					viol("sibling-var.read-not-last-written", map[string]interface{}{"var": sa.name.desc, "want": hx(sa.mv), "got": hx(got)})
					return
				}
				continue
			}
			c.Count("sibling_array_ops", 1)
			switch y := r.Intn(10); {
			case y < 4:
				v := nonEmptyVal(r)
				ops = append(ops, fmt.Sprintf("array[%s].Put(%s)", sa.name.desc, v.desc))
				if err := sa.a.Put(v.v); err != nil {
					viol("sibling-array.put-error", map[string]interface{}{"err": err.Error()})
					return
				}
				sa.ma = append(sa.ma, v.b)
			case y < 6:
				ops = append(ops, fmt.Sprintf("array[%s].Pop()", sa.name.desc))
				got := sa.a.Pop()
				var want []byte
				if len(sa.ma) > 0 {
					want = sa.ma[len(sa.ma)-1]
					sa.ma = sa.ma[:len(sa.ma)-1]
				}
				if !bytes.Equal(vb(got), want) {
					viol("sibling-array.pop-returns-other-than-last", map[string]interface{}{"array": sa.name.desc, "want": hx(want), "got": hx(vb(got))})
					return
				}
			default:
				if sz := sa.a.Size(); sz != len(sa.ma) {
					viol("sibling-array.size", map[string]interface{}{"array": sa.name.desc, "want": len(sa.ma), "got": sz})
					return
				}
				if len(sa.ma) > 0 {
					j := r.Intn(len(sa.ma))
					if got := vb(sa.a.Get(j)); !bytes.Equal(got, sa.ma[j]) {
						viol("sibling-array.get", map[string]interface{}{"array": sa.name.desc, "index": j, "want": hx(sa.ma[j]), "got": hx(got)})
						return
					}
				}
			}
		}
	}
	// final: every path of the key pool through the root with the full path and through every live handle on it
	var walk func(p []tval) bool
	walk = func(p []tval) bool {
		if len(p) == depth {
			want := model[canon(p)]
			if got := vb(root.Get(vals(p)...)); !bytes.Equal(got, want) {
				viol("nested-dict.final.entry-not-at-its-path", map[string]interface{}{"path": descs(p), "want": hx(want), "got": hx(got)})
				return false
			}
			for _, h := range handles[1:] {
				if len(h.prefix) <= len(p) && canon(h.prefix) == canon(p[:len(h.prefix)]) {
					if got := vb(h.d.Get(vals(p[len(h.prefix):])...)); !bytes.Equal(got, want) {
						viol("nested-dict.final.handle-reads-another-path", map[string]interface{}{"path": descs(p), "handle_prefix": descs(h.prefix), "want": hx(want), "got": hx(got)})
						return false
					}
				}
			}
			return true
		}
		for _, v := range pool[len(p)] {
			if !walk(append(append([]tval(nil), p...), v)) {
				return false
			}
		}
		return true
	}
	if !walk(nil) {
		return
	}
	for _, sa := range arrs {
		if sa.a != nil {
			if sa.a.Size() != len(sa.ma) {
				viol("sibling-array.final.size", map[string]interface{}{"array": sa.name.desc, "want": len(sa.ma), "got": sa.a.Size()})
				return
			}
			for j, want := range sa.ma {
				if got := vb(sa.a.Get(j)); !bytes.Equal(got, want) {
					viol("sibling-array.final.element", map[string]interface{}{"array": sa.name.desc, "index": j, "want": hx(want), "got": hx(got)})
					return
				}
			}
		} else if got := sa.v.Bytes(); !bytes.Equal(got, sa.mv) {
			viol("sibling-var.final", map[string]interface{}{"var": sa.name.desc, "want": hx(sa.mv), "got": hx(got)})
			return
		}
	}
	c.Count("nested_histories", 1)
	if olderUsed > 0 && rootReads > 0 && sibDerived > 0 {
		c.NonTrivial("N" + strings.Join(ops, ";"))
	}
	if hno == 0 && c.WantSample() {
		n := len(ops)
		if n > 16 {
			n = 16
		}
		c.Sample(map[string]interface{}{"nested_first_ops": ops[:n], "ops": len(ops), "depth": depth})
	}
}
