// Package c21: contract storage containers do not collide.
//
// Shape O + R. (A) key tuples with adversarial part boundaries are built with
// every injective key builder (RLP, hash, prefixed hash, scoredb.ToKey, with
// random Append chaining); two tuples whose byte-level part sequences differ
// must get different keys. (B) SplitKeys(AppendKeys(parts)) == parts.
// (C) SplitKeys on hostile bytes never panics and what it accepts re-encodes
// consistently. (D) VarDB/ArrayDB/DictDB (scoredb constructors and direct
// containerdb constructors) living together in one real account store behave
// like variables, arrays and maps.
package c21

import (
	"bytes"
	"encoding/hex"
	"fmt"
	"math/big"
	"math/rand"
	"strings"

	"github.com/icon-project/goloop/common"
	"github.com/icon-project/goloop/common/containerdb"
	"github.com/icon-project/goloop/common/db"
	"github.com/icon-project/goloop/common/log"
	"github.com/icon-project/goloop/service/scoredb"
	"github.com/icon-project/goloop/service/state"

	"verif/lib/ev"
)

const (
	tuplesPerCase    = 200
	hostilePerCase   = 300
	historiesPerCase = 14
)

func init() {
	ev.Register(&ev.Prop{
		ID:    "C21",
		Level: "exploration",
		Cases: func(t string) int {
			if t == ev.Thorough {
				return 8000
			}
			return 320
		},
		Batches: func(t string) int {
			return 16
		},
		Rule: "each case = 200 key tuples + their boundary neighbours (A,B), 300 hostile byte strings for SplitKeys (C), 14 container histories (D). Tuples: depth 1-4 of strings/bytes/ints/bools/addresses/big ints/HexInt/byte from a small adversarial pool ('ab'+'c' vs 'a'+'bc', empty parts, single bytes < 0x80 and >= 0x80, 55/56/255/256-byte parts, parts that look like RLP headers, int 65 vs 'A'); every tuple and its neighbours (boundary moved, two parts merged, one part split, part replaced by its own RLP encoding, empty part inserted, type changed with same bytes) are keyed by RLP/hash/prefixed-hash builders, scoredb.ToKey/AppendKeys with random Append chaining, and entered in a per-case map key->byte-level parts: same key with different parts = collision; the harness' own value->bytes conversion defines the parts. Histories: 2-3 vars, 2-3 arrays, 2-3 dicts (depth 1-3, also through GetDB sub-dictionaries) with prefix-free adversarial names in ONE real account store (state.WorldState account), 60-120 ops vs slice/map models, every op's result compared and all containers re-read at the end. Live sibling handles: 30 sets per case of 4-6 builders derived from one parent builder (parent appended to 0-2 times; hash/NewHashKey/prefixed-hash/rlp) with Build() of every handle re-checked after each derivation against its first Build() and against the same path built from scratch, sibling keys pairwise distinct; 4 nested histories per case: DictDB of depth 3-4 (scoredb with extra prefix keys, or containerdb with hash/prefixed/rlp builders) where sub-dictionary handles derived by GetDB are all kept alive and 70-130 set/get/delete ops go through old and new handles and through the root with the full path, plus sibling ArrayDB/VarDB created from one shared parent builder, vs map/slice models. Handle histories (5 per case): 2 arrays, a dict and a var in one account store, each with 2-4 live handles on the SAME path used alternately for 80-140 ops, with AccountState snapshots and Reset (rollback of the store) while all handles stay alive, vs the one model per container; at the end every old handle and a fresh one must read the same array/map/variable. Non-trivial = distinct tuple pair (tuple, neighbour) with different parts, or distinct history in which an array was popped to empty and refilled or a nested dict entry was overwritten and deleted.",
		MinNonTrivial: func(t string) int {
			if t == ev.Thorough {
				return 1000000
			}
			return 60000
		},
		Required: []string{"tuples", "neighbour_pairs_distinct_parts", "neighbour_pairs_same_parts", "keys_rlp", "keys_hash", "keys_prefixed_hash",
			"keys_scoredb", "split_roundtrips", "split_hostile_rejected", "split_hostile_accepted", "part_len_55", "part_len_56", "part_len_256",
			"part_single_lt_0x80", "part_single_ge_0x80", "part_empty", "array_put", "array_pop", "array_pop_to_empty", "array_set", "array_set_out_of_range",
			"array_get_out_of_range", "dict_set", "dict_overwrite", "dict_delete", "dict_get_absent", "dict_via_subdb", "dict_wrong_arity", "var_set", "var_delete",
			"histories", "final_rereads",
			"sibling_sets", "sibling_sets_parent_appended", "sibling_sets_hash", "sibling_sets_newhashkey", "sibling_sets_prefixed_hash", "sibling_sets_rlp",
			"sibling_builds_after_derivation", "nested_histories", "nested_sibling_handles_derived", "nested_ops_via_older_sibling",
			"nested_root_fullpath_reads", "nested_dict_set", "nested_dict_delete", "sibling_containers_from_shared_builder", "sibling_array_ops",
			"handle_histories", "ops_via_second_live_handle", "ops_on_live_handle_after_rollback", "store_rollbacks_with_live_handles", "handles_array_put"},
		Assumptions: []string{"SHA3-256 collision free on the generated keys",
			"byte-level parts of a typed value: string/bytes as is, bool 01/00, integers minimal big-endian two's complement (0 = 00), address 21 bytes; values with equal bytes are the same path by design",
			"raw builder (plain concatenation by design) excluded; containers whose name tuple is a prefix of another container's name tuple (same type) are the same path family by design and are not generated",
			"stored values are non-empty (the account store treats an empty value as a delete)"},
		TimeoutSec: func(t string) int {
			if t == ev.Thorough {
				return 7200
			}
			return 600
		},
		Run: run,
	})
}

// ---- typed values and the harness' own byte-level conversion ---------------

type tval struct {
	v    interface{} // what is handed to goloop
	b    []byte      // byte-level part by the harness' own rules
	desc string
}

func twos(i *big.Int) []byte {
	if i.Sign() == 0 {
		return []byte{0}
	}
	if i.Sign() > 0 {
		b := i.Bytes()
		if b[0]&0x80 != 0 {
			b = append([]byte{0}, b...)
		}
		return b
	}
	for n := 1; ; n++ {
		lim := new(big.Int).Lsh(big.NewInt(1), uint(8*n-1))
		lim.Neg(lim)
		if i.Cmp(lim) >= 0 {
			m := new(big.Int).Lsh(big.NewInt(1), uint(8*n))
			m.Add(m, i)
			b := m.Bytes()
			for len(b) < n {
				b = append([]byte{0}, b...)
			}
			return b
		}
	}
}

var strPool = []string{"", "a", "b", "c", "ab", "bc", "abc", "A", "\x00", "\x7f", "\x80", "\x81a", "\x82ab", "\xb8\x38", "\xc0", "\x01", "\x00\x00"}
var intPool = []int64{0, 1, 2, 65, 97, 127, 128, 129, 255, 256, 257, -1, -2, -128, -129, -256, 32767, 32768, 1 << 31, -(1 << 31), 1<<63 - 1, -(1 << 63), 24930 /* "ab" */}

func longPart(r *rand.Rand) []byte {
	n := []int{54, 55, 56, 57, 255, 256, 257}[r.Intn(7)]
	b := make([]byte, n)
	c := byte("ab\x00\x80"[r.Intn(4)])
	for i := range b {
		b[i] = c
	}
	if r.Intn(2) == 0 {
		b[r.Intn(n)] ^= 1
	}
	return b
}

func genVal(r *rand.Rand) tval {
	switch x := r.Intn(100); {
	case x < 30:
		s := strPool[r.Intn(len(strPool))]
		return tval{s, []byte(s), fmt.Sprintf("string(%x)", s)}
	case x < 45:
		s := strPool[r.Intn(len(strPool))]
		return tval{[]byte(s), []byte(s), fmt.Sprintf("bytes(%x)", s)}
	case x < 50:
		b := longPart(r)
		if r.Intn(2) == 0 {
			return tval{string(b), b, fmt.Sprintf("string(len %d %x..)", len(b), b[:4])}
		}
		return tval{b, b, fmt.Sprintf("bytes(len %d %x..)", len(b), b[:4])}
	case x < 68:
		i := intPool[r.Intn(len(intPool))]
		b := twos(big.NewInt(i))
		switch r.Intn(5) {
		case 0:
			return tval{i, b, fmt.Sprintf("int64(%d)", i)}
		case 1:
			if int64(int32(i)) == i {
				return tval{int32(i), b, fmt.Sprintf("int32(%d)", i)}
			}
			return tval{i, b, fmt.Sprintf("int64(%d)", i)}
		case 2:
			if int64(int16(i)) == i {
				return tval{int16(i), b, fmt.Sprintf("int16(%d)", i)}
			}
			return tval{int(i), b, fmt.Sprintf("int(%d)", i)}
		case 3:
			return tval{big.NewInt(i), b, fmt.Sprintf("big(%d)", i)}
		default:
			return tval{common.NewHexInt(i), b, fmt.Sprintf("HexInt(%d)", i)}
		}
	case x < 74:
		// big ints beyond int64
		i := new(big.Int).Lsh(big.NewInt(1), uint([]int{63, 64, 71, 72, 127, 128, 255, 256}[r.Intn(8)]))
		switch r.Intn(4) {
		case 0:
			i.Sub(i, big.NewInt(1))
		case 1:
			i.Neg(i)
		case 2:
			i.Neg(i)
			i.Sub(i, big.NewInt(1))
		}
		return tval{i, twos(i), "big(" + i.String() + ")"}
	case x < 80:
		t := r.Intn(2) == 0
		b := []byte{0}
		if t {
			b = []byte{1}
		}
		return tval{t, b, fmt.Sprint("bool(", t, ")")}
	case x < 86:
		bb := byte([]int{0, 1, 0x7f, 0x80, 0x81, 0xff, 'a'}[r.Intn(7)])
		return tval{bb, []byte{bb}, fmt.Sprintf("byte(%02x)", bb)}
	default:
		raw := make([]byte, 21)
		raw[0] = byte(r.Intn(2))
		switch r.Intn(3) {
		case 0:
		case 1:
			for i := 1; i < 21; i++ {
				raw[i] = 'a'
			}
		default:
			raw[20] = byte(r.Intn(3))
		}
		a := new(common.Address)
		if err := a.SetBytes(raw); err != nil {
			panic(err)
		}
		return tval{a, raw, "address(" + a.String() + ")"}
	}
}

func bytesVal(b []byte, r *rand.Rand) tval {
	if r.Intn(2) == 0 {
		return tval{string(b), b, fmt.Sprintf("string(%x)", b)}
	}
	return tval{append([]byte{}, b...), b, fmt.Sprintf("bytes(%x)", b)}
}

func canon(parts []tval) string {
	var sb strings.Builder
	for _, p := range parts {
		fmt.Fprintf(&sb, "%d:%x,", len(p.b), p.b)
	}
	return sb.String()
}

func descs(parts []tval) []string {
	o := make([]string, len(parts))
	for i, p := range parts {
		o[i] = p.desc
	}
	return o
}

func vals(parts []tval) []interface{} {
	o := make([]interface{}, len(parts))
	for i, p := range parts {
		o[i] = p.v
	}
	return o
}

// my own RLP-bytes encoding, to make "looks like its own encoding" neighbours
func rlpOf(b []byte) []byte {
	if len(b) == 1 && b[0] < 0x80 {
		return []byte{b[0]}
	}
	if len(b) <= 55 {
		return append([]byte{0x80 + byte(len(b))}, b...)
	}
	var l []byte
	for n := len(b); n > 0; n >>= 8 {
		l = append([]byte{byte(n)}, l...)
	}
	return append(append([]byte{0xb7 + byte(len(l))}, l...), b...)
}

func neighbours(r *rand.Rand, t []tval) [][]tval {
	var out [][]tval
	cp := func() []tval { return append([]tval(nil), t...) }
	for i := range t {
		// merge i and i+1
		if i+1 < len(t) {
			n := cp()
			m := append(append([]byte{}, t[i].b...), t[i+1].b...)
			n = append(n[:i], append([]tval{bytesVal(m, r)}, n[i+2:]...)...)
			out = append(out, n)
			// move boundary
			if len(t[i+1].b) > 0 {
				n := cp()
				n[i] = bytesVal(append(append([]byte{}, t[i].b...), t[i+1].b[0]), r)
				n[i+1] = bytesVal(t[i+1].b[1:], r)
				out = append(out, n)
			}
			if len(t[i].b) > 0 {
				n := cp()
				l := len(t[i].b)
				n[i] = bytesVal(t[i].b[:l-1], r)
				n[i+1] = bytesVal(append([]byte{t[i].b[l-1]}, t[i+1].b...), r)
				out = append(out, n)
			}
		}
		// split i
		if len(t[i].b) > 0 && len(t) < 6 {
			k := r.Intn(len(t[i].b) + 1)
			n := append([]tval(nil), t[:i]...)
			n = append(n, bytesVal(t[i].b[:k], r), bytesVal(t[i].b[k:], r))
			n = append(n, t[i+1:]...)
			out = append(out, n)
		}
		// part replaced by its own encoding
		{
			n := cp()
			n[i] = bytesVal(rlpOf(t[i].b), r)
			out = append(out, n)
		}
		// empty part inserted
		{
			n := append([]tval(nil), t[:i]...)
			n = append(n, bytesVal(nil, r))
			n = append(n, t[i:]...)
			out = append(out, n)
		}
		// same bytes, other type (same path by design)
		{
			n := cp()
			n[i] = bytesVal(t[i].b, r)
			out = append(out, n)
		}
		// dropped part
		if len(t) > 1 {
			n := append([]tval(nil), t[:i]...)
			n = append(n, t[i+1:]...)
			out = append(out, n)
		}
	}
	return out
}

type builder struct {
	name  string
	count string
	minN  int
	build func(r *rand.Rand, t []tval) []byte
}

func chain(r *rand.Rand, kb containerdb.KeyBuilder, rest []interface{}) []byte {
	for len(rest) > 0 {
		n := 1 + r.Intn(len(rest))
		kb = kb.Append(rest[:n]...)
		rest = rest[n:]
	}
	return kb.Build()
}

func typed(r *rand.Rand, bt containerdb.KeyBuilderType, t []tval, min int) []byte {
	v := vals(t)
	n := min + r.Intn(len(v)-min+1)
	return chain(r, containerdb.ToKey(bt, v[:n]...), v[n:])
}

var builders = []builder{
	{"rlp", "keys_rlp", 0, func(r *rand.Rand, t []tval) []byte { return typed(r, containerdb.RLPBuilder, t, 0) }},
	{"hash", "keys_hash", 0, func(r *rand.Rand, t []tval) []byte { return typed(r, containerdb.HashBuilder, t, 0) }},
	{"prefixed-hash", "keys_prefixed_hash", 1, func(r *rand.Rand, t []tval) []byte { return typed(r, containerdb.PrefixedHashBuilder, t, 1) }},
	{"newhashkey", "keys_hash", 0, func(r *rand.Rand, t []tval) []byte {
		v := vals(t)
		n := r.Intn(len(v) + 1)
		return chain(r, containerdb.NewHashKey(nil, v[:n]...), v[n:])
	}},
	{"scoredb-tokey", "keys_scoredb", 1, func(r *rand.Rand, t []tval) []byte {
		// first part must be one byte for scoredb.ToKey: use the byte-level first part when it is one byte < 0x80
		v := vals(t)
		n := 1 + r.Intn(len(v))
		if len(t[0].b) == 1 && t[0].b[0] < 0x80 {
			return scoredb.AppendKeys(scoredb.ToKey(t[0].b[0], v[1:n]...), v[n:]...)
		}
		return scoredb.AppendKeys(scoredb.AppendKeys(nil, v[:n]...), v[n:]...)
	}},
}

func hx(b []byte) string { return hex.EncodeToString(b) }

func tupleChecks(c *ev.Ctx, r *rand.Rand) {
	maps := make([]map[string]string, len(builders))
	first := make([]map[string][]string, len(builders))
	for i := range maps {
		maps[i] = map[string]string{}
		first[i] = map[string][]string{}
	}
	enter := func(t []tval) bool {
		if len(t) == 0 {
			return true
		}
		cn := canon(t)
		for bi, b := range builders {
			if len(t) < b.minN || len(t) == 0 {
				continue
			}
			key := b.build(r, t)
			c.Count(b.count, 1)
			if prev, ok := maps[bi][string(key)]; ok {
				if prev != cn {
					c.Violation("collision."+b.name, map[string]interface{}{"builder": b.name, "key": hx(key),
						"tuple_a": first[bi][string(key)], "parts_a": prev, "tuple_b": descs(t), "parts_b": cn})
					return false
				}
			} else {
				maps[bi][string(key)] = cn
				first[bi][string(key)] = descs(t)
			}
			// same parts must give the same key whatever the chaining and the value types
			key2 := b.build(r, t)
			if !bytes.Equal(key, key2) {
				c.Violation("key-depends-on-append-chaining."+b.name, map[string]interface{}{"tuple": descs(t), "key_a": hx(key), "key_b": hx(key2)})
				return false
			}
		}
		return true
	}
	for i := 0; i < tuplesPerCase && !c.Stopped(); i++ {
		c.Eval(1)
		depth := 1 + r.Intn(4)
		t := make([]tval, depth)
		for j := range t {
			t[j] = genVal(r)
			switch l := len(t[j].b); {
			case l == 0:
				c.Count("part_empty", 1)
			case l == 1 && t[j].b[0] < 0x80:
				c.Count("part_single_lt_0x80", 1)
			case l == 1:
				c.Count("part_single_ge_0x80", 1)
			case l == 55:
				c.Count("part_len_55", 1)
			case l == 56:
				c.Count("part_len_56", 1)
			case l == 256:
				c.Count("part_len_256", 1)
			}
		}
		c.Count("tuples", 1)
		// the byte-level parts goloop derives must be the ones the harness derives
		for _, p := range t {
			if got := containerdb.ToBytes(p.v); !bytes.Equal(got, p.b) {
				c.Violation("tobytes.unexpected-byte-form", map[string]interface{}{"value": p.desc, "want": hx(p.b), "got": hx(got)})
				return
			}
		}
		if !enter(t) {
			return
		}
		cn := canon(t)
		for _, n := range neighbours(r, t) {
			c.Eval(1)
			if !enter(n) {
				return
			}
			if canon(n) != cn {
				c.Count("neighbour_pairs_distinct_parts", 1)
				c.NonTrivial("T" + cn + "|" + canon(n))
			} else {
				c.Count("neighbour_pairs_same_parts", 1)
			}
		}
		// (B) composite keys decode back to their parts
		for k := 0; k < 2; k++ {
			var key []byte
			var prefixLen int
			if k == 0 {
				key = containerdb.AppendKeys(nil, vals(t)...)
			} else {
				// after a one-byte scoredb type prefix (itself a valid part)
				tp := []byte{scoredb.ArrayDBPrefix, scoredb.DictDBPrefix, scoredb.VarDBPrefix}[r.Intn(3)]
				key = scoredb.ToKey(tp, vals(t)...)
				prefixLen = 1
			}
			parts, err := splitNoPanic(key)
			c.Count("split_roundtrips", 1)
			ok := err == nil && len(parts) == len(t)+prefixLen
			if ok {
				for j := range t {
					if !bytes.Equal(parts[j+prefixLen], t[j].b) {
						ok = false
					}
				}
			}
			if !ok {
				var got []string
				for _, p := range parts {
					got = append(got, hx(p))
				}
				c.Violation("splitkeys.not-inverse-of-appendkeys", map[string]interface{}{"tuple": descs(t), "parts": cn, "key": hx(key), "split": got, "err": fmt.Sprint(err)})
				return
			}
		}
		if i == 0 && c.WantSample() {
			c.Sample(map[string]interface{}{"tuple": descs(t), "parts": cn, "rlp_key": hx(containerdb.AppendKeys(nil, vals(t)...))})
		}
	}
}

func splitNoPanic(key []byte) (parts [][]byte, err error) {
	defer func() {
		if x := recover(); x != nil {
			err = fmt.Errorf("PANIC: %v", x)
		}
	}()
	return containerdb.SplitKeys(key)
}

func hostileChecks(c *ev.Ctx, r *rand.Rand) {
	for i := 0; i < hostilePerCase && !c.Stopped(); i++ {
		c.Eval(1)
		var in []byte
		switch r.Intn(6) {
		case 0:
			in = make([]byte, r.Intn(40))
			r.Read(in)
		case 1: // long-length headers with hostile size fields
			n := 1 + r.Intn(8)
			in = append(in, 0xb7+byte(n))
			sz := make([]byte, n)
			switch r.Intn(4) {
			case 0:
				for j := range sz {
					sz[j] = 0xff
				}
			case 1:
				sz[n-1] = byte(r.Intn(256))
			case 2:
				sz[0] = 0x7f
				for j := 1; j < n; j++ {
					sz[j] = 0xff
				}
			default:
				r.Read(sz)
			}
			in = append(in, sz...)
			tail := make([]byte, r.Intn(70))
			r.Read(tail)
			in = append(in, tail...)
			if r.Intn(3) == 0 {
				in = in[:r.Intn(len(in)+1)]
			}
		case 2: // valid key, truncated / one byte changed / tail appended
			var t []interface{}
			for j, n := 0, 1+r.Intn(4); j < n; j++ {
				t = append(t, genVal(r).v)
			}
			in = containerdb.AppendKeys(nil, t...)
			switch r.Intn(3) {
			case 0:
				in = in[:r.Intn(len(in)+1)]
			case 1:
				if len(in) > 0 {
					in[r.Intn(len(in))] = byte(r.Intn(256))
				}
			default:
				in = append(in, byte(0x80+r.Intn(0x80)))
			}
		case 3: // list tags and short strings cut short
			in = []byte{byte(0xc0 + r.Intn(0x40))}
			in = append(in, make([]byte, r.Intn(4))...)
		case 4:
			in = []byte{byte(0x80 + r.Intn(0x38))}
			in = append(in, make([]byte, r.Intn(0x38))...)
		default: // non-canonical forms
			in = [][]byte{{0x81, 0x05}, {0xb8, 0x01, 0x61}, {0xb8, 0x00}, {0xb9, 0x00, 0x38}, {0xb8, 0x37}, {0x80}, {0x80, 0x80}}[r.Intn(7)]
		}
		c.Note("splitkeys %x", in)
		parts, err := splitNoPanic(append([]byte{}, in...))
		if err != nil && strings.HasPrefix(err.Error(), "PANIC") {
			c.Violation("splitkeys.panic-on-hostile-bytes", map[string]interface{}{"input": hx(in), "panic": err.Error()})
			return
		}
		if err != nil {
			c.Count("split_hostile_rejected", 1)
			continue
		}
		c.Count("split_hostile_accepted", 1)
		// what was accepted is a sequence of byte parts: re-encoding and decoding it gives the same parts
		var iv []interface{}
		total := 0
		for _, p := range parts {
			iv = append(iv, p)
			total += len(p)
		}
		if total > len(in) {
			c.Violation("splitkeys.parts-longer-than-input", map[string]interface{}{"input": hx(in)})
			return
		}
		re, err := splitNoPanic(containerdb.AppendKeys(nil, iv...))
		ok := err == nil && len(re) == len(parts)
		if ok {
			for j := range re {
				ok = ok && bytes.Equal(re[j], parts[j])
			}
		}
		if !ok {
			c.Violation("splitkeys.accepted-parts-do-not-roundtrip", map[string]interface{}{"input": hx(in), "err": fmt.Sprint(err)})
			return
		}
	}
}

// ---- containers over a real account store ----------------------------------

type cont struct {
	kind  byte // 'v','a','d'
	name  []tval
	depth int
	v     *containerdb.VarDB
	a     *containerdb.ArrayDB
	d     *containerdb.DictDB
	mv    []byte            // var model
	ma    [][]byte          // array model
	md    map[string][]byte // dict model: canon(keys) -> value
	mdk   map[string][]tval
	seen  [][]tval // key tuples in first-use order (PRNG-stable choice)
	how   string
}

func isPrefix(a, b []tval) bool {
	if len(a) > len(b) {
		return false
	}
	for i := range a {
		if !bytes.Equal(a[i].b, b[i].b) {
			return false
		}
	}
	return true
}

// pickIdx: mostly in range, otherwise -1 .. n+1
func pickIdx(r *rand.Rand, n int) int {
	if n > 0 && r.Intn(3) != 0 {
		return r.Intn(n)
	}
	return r.Intn(n+3) - 1
}

func nonEmptyVal(r *rand.Rand) tval {
	for {
		v := genVal(r)
		if len(v.b) > 0 {
			return v
		}
	}
}

type histRec struct {
	ops []string
}

func containerHistory(c *ev.Ctx, r *rand.Rand, hno int) {
	ws := state.NewWorldState(db.NewMapDB(), nil, nil, nil, nil)
	as := ws.GetAccountState([]byte{byte(r.Intn(256)), 1, 2})
	direct := r.Intn(3) == 0 // containerdb constructors with another builder type instead of scoredb
	bt := []containerdb.KeyBuilderType{containerdb.HashBuilder, containerdb.PrefixedHashBuilder, containerdb.RLPBuilder}[r.Intn(3)]
	var conts []*cont
	h := &histRec{}
	mk := func(kind byte) {
		for tries := 0; tries < 20; tries++ {
			n := 1 + r.Intn(3)
			name := make([]tval, n)
			for i := range name {
				name[i] = genVal(r)
			}
			if kind == 'd' {
				// scoredb.NewDictDB takes a string name first
				s := strPool[r.Intn(len(strPool))]
				name[0] = tval{s, []byte(s), fmt.Sprintf("string(%x)", s)}
			}
			clash := false
			for _, o := range conts {
				if o.kind == kind && (isPrefix(o.name, name) || isPrefix(name, o.name)) {
					clash = true
				}
			}
			if clash {
				continue
			}
			ct := &cont{kind: kind, name: name}
			tp := map[byte]byte{'a': scoredb.ArrayDBPrefix, 'd': scoredb.DictDBPrefix, 'v': scoredb.VarDBPrefix}[kind]
			var kb containerdb.KeyBuilder
			if direct {
				if bt == containerdb.PrefixedHashBuilder {
					kb = containerdb.ToKey(bt, []byte{0xee, 0x01}, tp).Append(vals(name)...)
				} else {
					kb = containerdb.ToKey(bt, tp).Append(vals(name)...)
				}
				ct.how = fmt.Sprintf("containerdb builder %d", bt)
			} else {
				ct.how = "scoredb"
			}
			switch kind {
			case 'v':
				if direct {
					ct.v = containerdb.NewVarDB(as, kb)
				} else {
					ct.v = scoredb.NewVarDB(as, vals(name)...)
				}
			case 'a':
				if direct {
					ct.a = containerdb.NewArrayDB(as, kb)
				} else {
					ct.a = scoredb.NewArrayDB(as, vals(name)...)
				}
			default:
				ct.depth = 1 + r.Intn(3)
				ct.md = map[string][]byte{}
				ct.mdk = map[string][]tval{}
				if direct {
					ct.d = containerdb.NewDictDB(as, ct.depth, kb)
				} else {
					ct.d = scoredb.NewDictDB(as, name[0].v.(string), ct.depth, vals(name[1:])...)
				}
			}
			conts = append(conts, ct)
			h.ops = append(h.ops, fmt.Sprintf("new %c%v depth=%d via %s", kind, descs(name), ct.depth, ct.how))
			return
		}
	}
	for i, n := 0, 2+r.Intn(2); i < n; i++ {
		mk('v')
		mk('a')
		mk('d')
	}
	viol := func(key string, d map[string]interface{}) {
		d["ops"] = append([]string(nil), h.ops...)
		c.Violation(key, d)
	}
	valBytes := func(v containerdb.Value) []byte {
		if v == nil {
			return nil
		}
		return v.Bytes()
	}
	dictKeys := func(ct *cont) []tval {
		// mostly from a tiny key pool so that entries are revisited
		if len(ct.seen) > 0 && r.Intn(2) == 0 {
			return ct.seen[r.Intn(len(ct.seen))]
		}
		ks := make([]tval, ct.depth)
		for i := range ks {
			if len(ct.seen) > 0 && r.Intn(2) == 0 {
				ks[i] = ct.seen[r.Intn(len(ct.seen))][i]
			} else {
				ks[i] = genVal(r)
			}
		}
		return ks
	}
	refilled, nestedOD := false, false
	emptied := map[*cont]bool{}
	overwritten := map[string]bool{}
	nOps := 60 + r.Intn(61)
	for i := 0; i < nOps; i++ {
		ct := conts[r.Intn(len(conts))]
		switch ct.kind {
		case 'v':
			switch r.Intn(3) {
			case 0:
				v := nonEmptyVal(r)
				h.ops = append(h.ops, fmt.Sprintf("var%v.Set(%s)", descs(ct.name), v.desc))
				if err := ct.v.Set(v.v); err != nil {
					viol("var.set-error", map[string]interface{}{"err": err.Error()})
					return
				}
				ct.mv = v.b
				c.Count("var_set", 1)
			case 1:
				h.ops = append(h.ops, fmt.Sprintf("var%v.Delete()", descs(ct.name)))
				old, err := ct.v.Delete()
				if err != nil || !bytes.Equal(valBytes(old), ct.mv) {
					viol("var.delete-returns-other-value", map[string]interface{}{"want": hx(ct.mv), "got": hx(valBytes(old)), "err": fmt.Sprint(err)})
					return
				}
				ct.mv = nil
				c.Count("var_delete", 1)
			default:
				h.ops = append(h.ops, fmt.Sprintf("var%v.Bytes()", descs(ct.name)))
				if got := ct.v.Bytes(); !bytes.Equal(got, ct.mv) {
					viol("var.read-not-last-written", map[string]interface{}{"var": descs(ct.name), "want": hx(ct.mv), "got": hx(got)})
					return
				}
			}
		case 'a':
			switch x := r.Intn(10); {
			case x < 4:
				v := nonEmptyVal(r)
				h.ops = append(h.ops, fmt.Sprintf("array%v.Put(%s)", descs(ct.name), v.desc))
				if err := ct.a.Put(v.v); err != nil {
					viol("array.put-error", map[string]interface{}{"err": err.Error()})
					return
				}
				if emptied[ct] {
					refilled = true
				}
				ct.ma = append(ct.ma, v.b)
				c.Count("array_put", 1)
			case x < 6:
				if x == 5 && r.Intn(3) != 0 {
					continue
				}
				h.ops = append(h.ops, fmt.Sprintf("array%v.Pop()", descs(ct.name)))
				got := ct.a.Pop()
				c.Count("array_pop", 1)
				if len(ct.ma) == 0 {
					if got != nil {
						viol("array.pop-on-empty-returns-value", map[string]interface{}{"array": descs(ct.name), "got": hx(valBytes(got))})
						return
					}
				} else {
					want := ct.ma[len(ct.ma)-1]
					if !bytes.Equal(valBytes(got), want) {
						viol("array.pop-returns-other-than-last", map[string]interface{}{"array": descs(ct.name), "want": hx(want), "got": hx(valBytes(got))})
						return
					}
					ct.ma = ct.ma[:len(ct.ma)-1]
					if len(ct.ma) == 0 {
						c.Count("array_pop_to_empty", 1)
						emptied[ct] = true
					}
				}
			case x < 7:
				idx := pickIdx(r, len(ct.ma))
				v := nonEmptyVal(r)
				h.ops = append(h.ops, fmt.Sprintf("array%v.Set(%d,%s)", descs(ct.name), idx, v.desc))
				err := ct.a.Set(idx, v.v)
				inRange := idx >= 0 && idx < len(ct.ma)
				if inRange != (err == nil) {
					viol("array.set-range-check", map[string]interface{}{"array": descs(ct.name), "index": idx, "size": len(ct.ma), "err": fmt.Sprint(err)})
					return
				}
				if inRange {
					ct.ma[idx] = v.b
					c.Count("array_set", 1)
				} else {
					c.Count("array_set_out_of_range", 1)
				}
			default:
				idx := pickIdx(r, len(ct.ma))
				h.ops = append(h.ops, fmt.Sprintf("array%v.Get(%d)+Size()", descs(ct.name), idx))
				if sz := ct.a.Size(); sz != len(ct.ma) {
					viol("array.size", map[string]interface{}{"array": descs(ct.name), "want": len(ct.ma), "got": sz})
					return
				}
				var want []byte
				if idx >= 0 && idx < len(ct.ma) {
					want = ct.ma[idx]
				} else {
					c.Count("array_get_out_of_range", 1)
				}
				if got := valBytes(ct.a.Get(idx)); !bytes.Equal(got, want) {
					viol("array.get", map[string]interface{}{"array": descs(ct.name), "index": idx, "size": len(ct.ma), "want": hx(want), "got": hx(got)})
					return
				}
			}
		default:
			ks := dictKeys(ct)
			ck := canon(ks)
			// through a sub-dictionary for a prefix of the keys?
			d, rest := ct.d, ks
			via := ""
			if ct.depth > 1 && r.Intn(2) == 0 {
				n := 1 + r.Intn(ct.depth-1)
				if n == 2 && r.Intn(2) == 0 {
					d = d.GetDB(ks[0].v).GetDB(ks[1].v)
				} else {
					d = d.GetDB(vals(ks[:n])...)
				}
				rest = ks[n:]
				via = fmt.Sprintf(" via GetDB(%d keys)", n)
				c.Count("dict_via_subdb", 1)
				if d == nil {
					viol("dict.getdb-nil", map[string]interface{}{"dict": descs(ct.name), "depth": ct.depth, "n": n})
					return
				}
			}
			switch x := r.Intn(10); {
			case x < 4:
				v := nonEmptyVal(r)
				h.ops = append(h.ops, fmt.Sprintf("dict%v%s.Set(%v = %s)", descs(ct.name), via, descs(ks), v.desc))
				if err := d.Set(append(vals(rest), v.v)...); err != nil {
					viol("dict.set-error", map[string]interface{}{"err": err.Error()})
					return
				}
				if _, had := ct.md[ck]; had {
					c.Count("dict_overwrite", 1)
					if ct.depth > 1 {
						overwritten[ck] = true
					}
				}
				ct.md[ck] = v.b
				if _, ok := ct.mdk[ck]; !ok {
					ct.seen = append(ct.seen, ks)
				}
				ct.mdk[ck] = ks
				c.Count("dict_set", 1)
			case x < 6:
				h.ops = append(h.ops, fmt.Sprintf("dict%v%s.Delete(%v)", descs(ct.name), via, descs(ks)))
				if err := d.Delete(vals(rest)...); err != nil {
					viol("dict.delete-error", map[string]interface{}{"err": err.Error()})
					return
				}
				if _, had := ct.md[ck]; had {
					c.Count("dict_delete", 1)
					if overwritten[ck] {
						nestedOD = true
					}
				}
				delete(ct.md, ck)
			case x < 7: // wrong arity
				c.Count("dict_wrong_arity", 1)
				h.ops = append(h.ops, fmt.Sprintf("dict%v%s wrong arity", descs(ct.name), via))
				extra := append(vals(rest), genVal(r).v)
				if got := d.Get(extra...); got != nil {
					viol("dict.get-with-too-many-keys-yields-value", map[string]interface{}{"dict": descs(ct.name)})
					return
				}
				if err := d.Set(vals(rest)...); err == nil && len(rest) > 0 {
					// Set(k1..kd) without a value is one parameter short
					viol("dict.set-with-missing-value-accepted", map[string]interface{}{"dict": descs(ct.name)})
					return
				}
				if err := d.Delete(extra...); err == nil {
					viol("dict.delete-with-too-many-keys-accepted", map[string]interface{}{"dict": descs(ct.name)})
					return
				}
				if sub := d.GetDB(vals(rest)...); sub != nil {
					viol("dict.getdb-at-full-depth-not-nil", map[string]interface{}{"dict": descs(ct.name)})
					return
				}
			default:
				h.ops = append(h.ops, fmt.Sprintf("dict%v%s.Get(%v)", descs(ct.name), via, descs(ks)))
				want, had := ct.md[ck]
				if !had {
					c.Count("dict_get_absent", 1)
				}
				if got := valBytes(d.Get(vals(rest)...)); !bytes.Equal(got, want) {
					viol("dict.get-not-last-written", map[string]interface{}{"dict": descs(ct.name), "keys": descs(ks), "want": hx(want), "got": hx(got)})
					return
				}
			}
		}
	}
	// final re-read of everything, through fresh container objects over the same store
	c.Count("final_rereads", 1)
	for _, ct := range conts {
		switch ct.kind {
		case 'v':
			if got := ct.v.Bytes(); !bytes.Equal(got, ct.mv) {
				viol("final.var-changed-by-another-container", map[string]interface{}{"var": descs(ct.name), "want": hx(ct.mv), "got": hx(got)})
				return
			}
		case 'a':
			a := ct.a
			if !direct {
				a = scoredb.NewArrayDB(as, vals(ct.name)...)
			}
			if a.Size() != len(ct.ma) {
				viol("final.array-size-changed-by-another-container", map[string]interface{}{"array": descs(ct.name), "want": len(ct.ma), "got": a.Size()})
				return
			}
			for i, want := range ct.ma {
				if got := valBytes(a.Get(i)); !bytes.Equal(got, want) {
					viol("final.array-element-changed-by-another-container", map[string]interface{}{"array": descs(ct.name), "index": i, "want": hx(want), "got": hx(got)})
					return
				}
			}
		default:
			for ck, want := range ct.md {
				if got := valBytes(ct.d.Get(vals(ct.mdk[ck])...)); !bytes.Equal(got, want) {
					viol("final.dict-entry-changed-by-another-container", map[string]interface{}{"dict": descs(ct.name), "keys": descs(ct.mdk[ck]), "want": hx(want), "got": hx(got)})
					return
				}
			}
			for ck, ks := range ct.mdk {
				if _, ok := ct.md[ck]; !ok {
					if got := ct.d.Get(vals(ks)...); got != nil {
						viol("final.deleted-dict-entry-is-back", map[string]interface{}{"dict": descs(ct.name), "keys": descs(ks), "got": hx(valBytes(got))})
						return
					}
				}
			}
		}
	}
	c.Count("histories", 1)
	if refilled || nestedOD {
		c.NonTrivial("H" + strings.Join(h.ops, ";"))
	}
	if hno == 0 && c.WantSample() {
		n := len(h.ops)
		if n > 20 {
			n = 20
		}
		c.Sample(map[string]interface{}{"first_ops": h.ops[:n], "ops": len(h.ops)})
	}
}

func run(c *ev.Ctx) {
	log.GlobalLogger().SetLevel(log.FatalLevel)
	c.Cases(func(ci int, r *rand.Rand) {
		c.Note("tuples")
		tupleChecks(c, r)
		if c.Stopped() {
			return
		}
		hostileChecks(c, r)
		if c.Stopped() {
			return
		}
		for h := 0; h < handleHistoriesPerCase && !c.Stopped(); h++ {
			seed := r.Int63()
			c.Note("handle-history %d seed %d", h, seed)
			c.Eval(1)
			handleHistory(c, rand.New(rand.NewSource(seed)), h)
		}
		c.Note("sibling builders")
		siblingBuilderChecks(c, r)
		for h := 0; h < nestedHistoriesPerCase && !c.Stopped(); h++ {
			seed := r.Int63()
			c.Note("nested-history %d seed %d", h, seed)
			c.Eval(1)
			nestedHistory(c, rand.New(rand.NewSource(seed)), h)
		}
		for h := 0; h < historiesPerCase && !c.Stopped(); h++ {
			seed := r.Int63()
			c.Note("container-history %d seed %d", h, seed)
			c.Eval(1)
			containerHistory(c, rand.New(rand.NewSource(seed)), h)
		}
	})
}
