package c21

// Several live handles on the SAME container path used alternately, and
// rollbacks of the backing account store (AccountState.Reset to an earlier
// snapshot) while handles stay alive. The store is the only state of a
// container: whatever handle is used, and whatever happened to the store,
// the container must behave like the one array / map / variable of the model.

import (
	"bytes"
	"fmt"
	"math/rand"
	"strings"

	"github.com/icon-project/goloop/common/containerdb"
	"github.com/icon-project/goloop/common/db"
	"github.com/icon-project/goloop/service/scoredb"
	"github.com/icon-project/goloop/service/state"

	"verif/lib/ev"
)

const handleHistoriesPerCase = 5

type mhCont struct {
	kind  byte
	name  string
	depth int
	as    []*containerdb.ArrayDB
	ds    []*containerdb.DictDB
	vs    []*containerdb.VarDB
	ma    [][]byte
	md    map[string][]byte
	mk    map[string][]tval
	seen  [][]tval
	mv    []byte
	lastW int // handle index of the last mutation (-1 none)
}

func (ct *mhCont) nHandles() int { return len(ct.as) + len(ct.ds) + len(ct.vs) }

type mhSnap struct {
	ass state.AccountSnapshot
	ma  map[*mhCont][][]byte
	md  map[*mhCont]map[string][]byte
	mv  map[*mhCont][]byte
	at  int
}

func handleHistory(c *ev.Ctx, r *rand.Rand, hno int) {
	ws := state.NewWorldState(db.NewMapDB(), nil, nil, nil, nil)
	as := ws.GetAccountState([]byte{byte(r.Intn(256)), 7})
	var ops []string
	viol := func(key string, d map[string]interface{}) {
		d["ops"] = append([]string(nil), ops...)
		c.Violation(key, d)
	}
	vb := func(v containerdb.Value) []byte {
		if v == nil {
			return nil
		}
		return v.Bytes()
	}
	var conts []*mhCont
	open := func(ct *mhCont) {
		switch ct.kind {
		case 'a':
			ct.as = append(ct.as, scoredb.NewArrayDB(as, ct.name))
		case 'd':
			ct.ds = append(ct.ds, scoredb.NewDictDB(as, ct.name, ct.depth))
		default:
			ct.vs = append(ct.vs, scoredb.NewVarDB(as, ct.name))
		}
		ops = append(ops, fmt.Sprintf("open handle #%d on %c[%s]", ct.nHandles()-1, ct.kind, ct.name))
	}
	for i, k := range []byte{'a', 'a', 'd', 'v'} {
		ct := &mhCont{kind: k, name: fmt.Sprintf("c%d", i), depth: 1 + r.Intn(2), md: map[string][]byte{}, mk: map[string][]tval{}, lastW: -1}
		conts = append(conts, ct)
		for j, n := 0, 2+r.Intn(2); j < n; j++ {
			open(ct)
		}
	}
	var snaps []*mhSnap
	afterRollback := 0
	nSecond, nAfterRb, nRb := 0, 0, 0
	takeSnap := func(at int) {
		s := &mhSnap{ass: as.GetSnapshot(), ma: map[*mhCont][][]byte{}, md: map[*mhCont]map[string][]byte{}, mv: map[*mhCont][]byte{}, at: at}
		for _, ct := range conts {
			s.ma[ct] = append([][]byte(nil), ct.ma...)
			m := map[string][]byte{}
			for k, v := range ct.md {
				m[k] = v
			}
			s.md[ct] = m
			s.mv[ct] = ct.mv
		}
		snaps = append(snaps, s)
		if len(snaps) > 3 {
			snaps = snaps[1:]
		}
		ops = append(ops, fmt.Sprintf("snapshot@%d", at))
	}
	nOps := 80 + r.Intn(60)
	for i := 0; i < nOps; i++ {
		switch x := r.Intn(100); {
		case x < 6:
			takeSnap(i)
			continue
		case x < 11:
			if len(snaps) == 0 {
				continue
			}
			s := snaps[r.Intn(len(snaps))]
			if err := as.Reset(s.ass); err != nil {
				viol("harness.account-reset-error", map[string]interface{}{"err": err.Error()})
				return
			}
			for _, ct := range conts {
				ct.ma = append([][]byte(nil), s.ma[ct]...)
				m := map[string][]byte{}
				for k, v := range s.md[ct] {
					m[k] = v
				}
				ct.md = m
				ct.mv = s.mv[ct]
				ct.lastW = -1
			}
			ops = append(ops, fmt.Sprintf("ROLLBACK store to snapshot@%d (handles stay alive)", s.at))
			afterRollback = 12
			nRb++
			c.Count("store_rollbacks_with_live_handles", 1)
			continue
		case x < 14:
			ct := conts[r.Intn(len(conts))]
			if ct.nHandles() < 4 {
				open(ct)
			}
			continue
		}
		ct := conts[r.Intn(len(conts))]
		hi := r.Intn(ct.nHandles())
		second := ct.lastW >= 0 && ct.lastW != hi
		if second {
			nSecond++
			c.Count("ops_via_second_live_handle", 1)
		}
		tag := "same-handle"
		if second {
			tag = "other-live-handle"
		}
		if afterRollback > 0 {
			afterRollback--
			nAfterRb++
			c.Count("ops_on_live_handle_after_rollback", 1)
			tag = "live-handle-after-rollback"
		}
		switch ct.kind {
		case 'a':
			a := ct.as[hi]
			switch y := r.Intn(10); {
			case y < 4:
				v := nonEmptyVal(r)
				ops = append(ops, fmt.Sprintf("a[%s]#%d.Put(%s)", ct.name, hi, v.desc))
				if err := a.Put(v.v); err != nil {
					viol("handles.array.put-error", map[string]interface{}{"err": err.Error()})
					return
				}
				ct.ma = append(ct.ma, v.b)
				ct.lastW = hi
				c.Count("handles_array_put", 1)
			case y < 6:
				ops = append(ops, fmt.Sprintf("a[%s]#%d.Pop()", ct.name, hi))
				got := vb(a.Pop())
				var want []byte
				if len(ct.ma) > 0 {
					want = ct.ma[len(ct.ma)-1]
					ct.ma = ct.ma[:len(ct.ma)-1]
				}
				ct.lastW = hi
				if !bytes.Equal(got, want) {
					viol("handles.array.pop-returns-other-than-last."+tag, map[string]interface{}{"array": ct.name, "handle": hi, "want": hx(want), "got": hx(got)})
					return
				}
			case y < 8:
				idx := pickIdx(r, len(ct.ma))
				v := nonEmptyVal(r)
				ops = append(ops, fmt.Sprintf("a[%s]#%d.Set(%d,%s)", ct.name, hi, idx, v.desc))
				err := a.Set(idx, v.v)
				in := idx >= 0 && idx < len(ct.ma)
				if in != (err == nil) {
					viol("handles.array.set-range-check."+tag, map[string]interface{}{"array": ct.name, "handle": hi, "index": idx, "size": len(ct.ma), "err": fmt.Sprint(err)})
					return
				}
				if in {
					ct.ma[idx] = v.b
					ct.lastW = hi
				}
			default:
				ops = append(ops, fmt.Sprintf("a[%s]#%d.Size()+Get", ct.name, hi))
				if sz := a.Size(); sz != len(ct.ma) {
					viol("handles.array.size."+tag, map[string]interface{}{"array": ct.name, "handle": hi, "want": len(ct.ma), "got": sz})
					return
				}
				idx := pickIdx(r, len(ct.ma))
				var want []byte
				if idx >= 0 && idx < len(ct.ma) {
					want = ct.ma[idx]
				}
				if got := vb(a.Get(idx)); !bytes.Equal(got, want) {
					viol("handles.array.get."+tag, map[string]interface{}{"array": ct.name, "handle": hi, "index": idx, "size": len(ct.ma), "want": hx(want), "got": hx(got)})
					return
				}
			}
		case 'd':
			d := ct.ds[hi]
			var ks []tval
			if len(ct.seen) > 0 && r.Intn(3) != 0 {
				ks = ct.seen[r.Intn(len(ct.seen))]
			} else {
				for j := 0; j < ct.depth; j++ {
					ks = append(ks, smallVal(r))
				}
			}
			ck := canon(ks)
			switch y := r.Intn(10); {
			case y < 4:
				v := nonEmptyVal(r)
				ops = append(ops, fmt.Sprintf("d[%s]#%d.Set(%v=%s)", ct.name, hi, descs(ks), v.desc))
				if err := d.Set(append(vals(ks), v.v)...); err != nil {
					viol("handles.dict.set-error", map[string]interface{}{"err": err.Error()})
					return
				}
				if _, ok := ct.mk[ck]; !ok {
					ct.seen = append(ct.seen, ks)
					ct.mk[ck] = ks
				}
				ct.md[ck] = v.b
				ct.lastW = hi
			case y < 6:
				ops = append(ops, fmt.Sprintf("d[%s]#%d.Delete(%v)", ct.name, hi, descs(ks)))
				if err := d.Delete(vals(ks)...); err != nil {
					viol("handles.dict.delete-error", map[string]interface{}{"err": err.Error()})
					return
				}
				delete(ct.md, ck)
				ct.lastW = hi
			default:
				ops = append(ops, fmt.Sprintf("d[%s]#%d.Get(%v)", ct.name, hi, descs(ks)))
				if got := vb(d.Get(vals(ks)...)); !bytes.Equal(got, ct.md[ck]) {
					viol("handles.dict.get-not-last-written."+tag, map[string]interface{}{"dict": ct.name, "handle": hi, "keys": descs(ks), "want": hx(ct.md[ck]), "got": hx(got)})
					return
				}
			}
		default:
			v := ct.vs[hi]
			switch r.Intn(4) {
			case 0:
				nv := nonEmptyVal(r)
				ops = append(ops, fmt.Sprintf("v[%s]#%d.Set(%s)", ct.name, hi, nv.desc))
				if err := v.Set(nv.v); err != nil {
					viol("handles.var.set-error", map[string]interface{}{"err": err.Error()})
					return
				}
				ct.mv = nv.b
				ct.lastW = hi
			case 1:
				ops = append(ops, fmt.Sprintf("v[%s]#%d.Delete()", ct.name, hi))
				old, err := v.Delete()
				if err != nil || !bytes.Equal(vb(old), ct.mv) {
					viol("handles.var.delete-returns-other-value."+tag, map[string]interface{}{"want": hx(ct.mv), "got": hx(vb(old)), "err": fmt.Sprint(err)})
					return
				}
				ct.mv = nil
				ct.lastW = hi
			default:
				ops = append(ops, fmt.Sprintf("v[%s]#%d.Bytes()", ct.name, hi))
				if got := v.Bytes(); !bytes.Equal(got, ct.mv) {
					viol("handles.var.read-not-last-written."+tag, map[string]interface{}{"want": hx(ct.mv), "got": hx(got)})
					return
				}
			}
		}
	}
	// final: every handle (old ones and a brand-new one) sees the one array / map / variable
	for _, ct := range conts {
		open(ct)
		switch ct.kind {
		case 'a':
			for hi, a := range ct.as {
				if a.Size() != len(ct.ma) {
					viol("handles.final.array-size", map[string]interface{}{"array": ct.name, "handle": hi, "fresh_handle": hi == len(ct.as)-1, "want": len(ct.ma), "got": a.Size()})
					return
				}
				for j, want := range ct.ma {
					if got := vb(a.Get(j)); !bytes.Equal(got, want) {
						viol("handles.final.array-element", map[string]interface{}{"array": ct.name, "handle": hi, "index": j, "want": hx(want), "got": hx(got)})
						return
					}
				}
				if got := a.Get(len(ct.ma)); got != nil {
					viol("handles.final.array-element-beyond-size", map[string]interface{}{"array": ct.name, "handle": hi, "index": len(ct.ma), "got": hx(vb(got))})
					return
				}
			}
		case 'd':
			for hi, d := range ct.ds {
				for ck, ks := range ct.mk {
					if got := vb(d.Get(vals(ks)...)); !bytes.Equal(got, ct.md[ck]) {
						viol("handles.final.dict-entry", map[string]interface{}{"dict": ct.name, "handle": hi, "keys": descs(ks), "want": hx(ct.md[ck]), "got": hx(got)})
						return
					}
				}
			}
		default:
			for hi, v := range ct.vs {
				if got := v.Bytes(); !bytes.Equal(got, ct.mv) {
					viol("handles.final.var", map[string]interface{}{"handle": hi, "want": hx(ct.mv), "got": hx(got)})
					return
				}
			}
		}
	}
	c.Count("handle_histories", 1)
	if nSecond > 0 && nAfterRb > 0 && nRb > 0 {
		c.NonTrivial("M" + strings.Join(ops, ";"))
	}
	if hno == 0 && c.WantSample() {
		n := len(ops)
		if n > 16 {
			n = 16
		}
		c.Sample(map[string]interface{}{"handles_first_ops": ops[:n], "ops": len(ops)})
	}
}
