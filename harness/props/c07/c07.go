// Package c07: imported blocks extend their parent with consistent height,
// link, version and time.
//
// Real block.Manager instances (goloop's exported test fixtures: a proposer
// node and a follower node on the same genesis with n validators) are driven
// through chains of several heights. For every height the proposer produces a
// candidate over a commit-vote list whose vote timestamps are chosen by the
// PRNG (odd/even counts, equal timestamps, median equal to / one above / below
// the parent's timestamp, floor of an odd sum). The candidate is exported with
// block.FormatFromBlock, mutated field by field, re-encoded and imported into
// the follower. The oracle is a model written here from the property
// statement (own median, the four rules); it never looks at goloop's verdict.
package c07

import (
	"bytes"
	"encoding/hex"
	"fmt"
	"io"
	"math/rand"
	"sort"
	"strings"
	"time"

	gblock "github.com/icon-project/goloop/block"
	"github.com/icon-project/goloop/common/codec"
	"github.com/icon-project/goloop/common/wallet"
	"github.com/icon-project/goloop/consensus"
	"github.com/icon-project/goloop/module"
	"github.com/icon-project/goloop/test"

	bfix "verif/lib/block"
	"verif/lib/ev"
)

const cbWait = 60 * time.Second

func init() {
	ev.Register(&ev.Prop{
		ID:    "C07",
		Level: "exploration",
		Cases: func(t string) int {
			if t == ev.Thorough {
				return 640
			}
			return 48
		},
		Batches: func(t string) int {
			if t == ev.Thorough {
				return 16
			}
			return 8
		},
		Rule: "each case = one chain on two real block managers (proposer, follower) with n in 1..7 validators and 3-6 heights; " +
			"per height: a candidate proposed over PRNG-chosen precommit timestamps (count k with 2n/3 < k <= n, odd and even, median targeted at parent.ts-1 / parent.ts / parent.ts+1 / far above, even counts with odd sums), " +
			"imported unmodified and under ~30 mutations of the exported header/body (height +-1/+-2/0, prev id bit flip/grand-parent/zero/short/sibling, version 0/1/3, timestamp median+-1/parent/parent-1/0, " +
			"re-signed vote lists with another median or another count parity, pairs of these); children imported on top of an imported-but-NOT-finalized candidate (median equal to the unfinalized parent's timestamp, between the last finalized block's and the parent's, and above it; height/prev/timestamp mutants of those); some chains end with a transaction that makes the state require block version 3. " +
			"Oracle = model from the statement (own median by sorting; height = parent+1; prev id = parent id; version = required; above height 1 ts = median and ts > parent.ts): accepted => model-valid; model-valid unmodified candidate => accepted. " +
			"Non-trivial = distinct candidate (by encoded bytes) that the model calls invalid, derived from an otherwise valid block.",
		MinNonTrivial: func(t string) int {
			if t == ev.Thorough {
				return 40000
			}
			return 2500
		},
		Required: []string{
			"base_valid_accepted", "base_invalid_rejected_ts_eq_parent", "base_invalid_rejected_ts_lt_parent",
			"mutant_rejected_height", "mutant_rejected_prev", "mutant_rejected_version", "mutant_rejected_timestamp",
			"mutant_rejected_revote", "mutant_rejected_pair", "revote_same_median_accepted",
			"median_odd_count", "median_even_count", "median_even_odd_sum", "version_required_rejected",
			"import_by_reader", "import_by_blockdata",
			"deep_invalid_rejected_above_finalized_ts", "deep_valid_accepted", "deep_mutant_rejected",
		},
		Assumptions: []string{
			"vote signatures are kept valid (C05 covers forged votes); ECDSA recovery and SHA3 trusted",
			"goloop test fixtures (test.Node, test.ServiceManager, MapDB) as the environment of block.Manager",
			"timestamps non-negative and < 2^60 (no int64 overflow in the median)",
		},
		TimeoutSec: func(t string) int {
			if t == ev.Thorough {
				return 3000
			}
			return 600
		},
		Run: run,
	})
}

// ---- model (from the statement) ----

func median(ts []int64) int64 {
	s := append([]int64(nil), ts...)
	sort.Slice(s, func(i, j int) bool { return s[i] < s[j] })
	l := len(s)
	if l == 0 {
		return 0
	}
	if l%2 == 1 {
		return s[(l-1)/2]
	}
	return (s[l/2-1] + s[l/2]) / 2
}

type known struct {
	id     []byte
	height int64
	ts     int64
}

// cand is what the model sees of a candidate: header fields as submitted and
// the timestamps of the (validly signed) votes in its body and which block
// those votes were signed for.
type cand struct {
	version  int
	height   int64
	prevID   []byte
	ts       int64
	voteTS   []int64
	votesFor []byte
}

// valid returns "" when the model accepts the candidate, else the rule broken.
func valid(c *cand, nmap []known, required int) string {
	var par *known
	for i := range nmap {
		if bytes.Equal(nmap[i].id, c.prevID) {
			par = &nmap[i]
		}
	}
	if par == nil {
		return "prev"
	}
	if c.version != required {
		return "version"
	}
	if c.height != par.height+1 {
		return "height"
	}
	if !bytes.Equal(c.votesFor, par.id) {
		return "votes-for-other-block"
	}
	if c.height > 1 {
		if c.ts != median(c.voteTS) {
			return "ts-not-median"
		}
		if !(c.ts > par.ts) {
			return "ts-not-after-parent"
		}
	}
	return ""
}

// ---- chain driver ----

type chain struct {
	c        *ev.Ctx
	r        *rand.Rand
	t        *bfix.QuietT
	n        int
	wallets  []module.Wallet
	P, F     *test.Node
	ci       int
	nImport  int
	stalled  bool
	deepDone bool
	near     bool // keep the block timestamp within the tx timestamp window of the parent's
}

func genesisFor(ws []module.Wallet) string {
	var vs []string
	for _, w := range ws {
		vs = append(vs, fmt.Sprintf("%q", w.Address().String()))
	}
	return fmt.Sprintf(`{
		"accounts": [
			{"name": "treasury", "address": "hx1000000000000000000000000000000000000000", "balance": "0x0"},
			{"name": "god", "address": "hx0000000000000000000000000000000000000000", "balance": "0x0"}
		],
		"message": "",
		"nid": "0x1",
		"chain": {"validatorList": [ %s ]}
	}`, strings.Join(vs, ", "))
}

type voteSet struct {
	cvl    module.CommitVoteSet
	ts     []int64
	voters []int
	round  int32
}

// votesFor signs precommits of the chosen voters for blk.
func (ch *chain) votesFor(blk module.Block, voters []int, ts []int64, round int32) *voteSet {
	if blk.Height() == 0 {
		return &voteSet{cvl: consensus.NewEmptyCommitVoteList()}
	}
	msgs := make([]*consensus.VoteMessage, len(voters))
	for i, v := range voters {
		msgs[i] = consensus.NewVoteMessage(ch.wallets[v], consensus.VoteTypePrecommit,
			blk.Height(), round, blk.ID(), nil, ts[i], nil, nil, 0)
	}
	return &voteSet{cvl: consensus.NewCommitVoteList(nil, msgs...), ts: ts, voters: voters, round: round}
}

func (ch *chain) pickVoters(k int) []int {
	p := ch.r.Perm(ch.n)
	return p[:k]
}

func (ch *chain) minVotes() int { return ch.n*2/3 + 1 }

// timestamps builds k vote timestamps whose median is exactly m (m >= 0).
func (ch *chain) timestamps(k int, m int64) []int64 {
	r := ch.r
	lowOf := func(hi int64) int64 {
		switch r.Intn(4) {
		case 0:
			return 0
		case 1:
			return hi
		case 2:
			if hi > 0 {
				return hi - 1
			}
			return 0
		default:
			if hi > 0 {
				return r.Int63n(hi + 1)
			}
			return 0
		}
	}
	highOf := func(lo int64) int64 {
		switch r.Intn(4) {
		case 0:
			return lo
		case 1:
			return lo + 1
		case 2:
			return lo + 1 + r.Int63n(1<<40)
		default:
			return 1<<60 - 1 - r.Int63n(1000)
		}
	}
	ts := make([]int64, 0, k)
	var a, b int64
	nlow, nhigh := 0, 0
	if k%2 == 1 {
		a, b = m, m
		ts = append(ts, m)
		nlow, nhigh = k/2, k/2
	} else {
		d := int64(0)
		switch r.Intn(4) {
		case 0:
		case 1:
			d = 1
		default:
			d = r.Int63n(1000)
		}
		if d > m {
			d = m
		}
		a, b = m-d, m+d
		if r.Intn(2) == 0 {
			b++ // odd sum: the median is the floor
		}
		ts = append(ts, a, b)
		nlow, nhigh = k/2-1, k/2-1
	}
	for i := 0; i < nlow; i++ {
		ts = append(ts, lowOf(a))
	}
	for i := 0; i < nhigh; i++ {
		ts = append(ts, highOf(b))
	}
	r.Shuffle(len(ts), func(i, j int) { ts[i], ts[j] = ts[j], ts[i] })
	if median(ts) != m {
		panic(fmt.Sprintf("harness: constructed median %d != target %d (%v)", median(ts), m, ts))
	}
	return ts
}

func (ch *chain) fixtureErrors(where string) bool {
	if errs := ch.t.Errors(); len(errs) > 0 {
		ch.c.Violation("fixture.assert."+where, map[string]interface{}{"errors": errs, "chain": ch.ci})
		return true
	}
	return false
}

// formatOf exports header and body of a candidate (block.FormatFromBlock only
// takes the concrete block type, a candidate wraps it).
func formatOf(blk module.BlockData) (*gblock.V2HeaderFormat, *gblock.V2BodyFormat, error) {
	var buf bytes.Buffer
	if err := blk.Marshal(&buf); err != nil {
		return nil, nil, err
	}
	hf, bf := new(gblock.V2HeaderFormat), new(gblock.V2BodyFormat)
	rest, err := codec.BC.UnmarshalFromBytes(buf.Bytes(), hf)
	if err != nil {
		return nil, nil, err
	}
	if _, err := codec.BC.UnmarshalFromBytes(rest, bf); err != nil {
		return nil, nil, err
	}
	return hf, bf, nil
}

func reader(hf *gblock.V2HeaderFormat, bf *gblock.V2BodyFormat) (io.Reader, []byte) {
	var buf bytes.Buffer
	io.Copy(&buf, gblock.NewBlockReaderFromFormat(hf, bf))
	bs := buf.Bytes()
	return bytes.NewReader(bs), bs
}

// doImport imports the encoded candidate into the follower, alternating the
// two entry points of the manager.
func (ch *chain) doImport(hf *gblock.V2HeaderFormat, bf *gblock.V2BodyFormat) (*bfix.ImportOutcome, []byte, string) {
	rd, bs := reader(hf, bf)
	ch.nImport++
	if ch.nImport%3 != 0 {
		ch.c.Count("import_by_reader", 1)
		return bfix.ImportReader(ch.F.BM, rd, 0, cbWait), bs, "Import"
	}
	bd, err := ch.F.BM.NewBlockDataFromReader(rd)
	if err != nil {
		ch.c.Count("import_by_reader", 1)
		return &bfix.ImportOutcome{SyncErr: err}, bs, "NewBlockDataFromReader"
	}
	ch.c.Count("import_by_blockdata", 1)
	return bfix.ImportData(ch.F.BM, bd, 0, cbWait), bs, "ImportBlock"
}

type mutant struct {
	class string // height | prev | version | timestamp | revote | pair
	name  string
	hf    gblock.V2HeaderFormat
	bf    gblock.V2BodyFormat
	cand  cand
}

func flipBit(b []byte, bit int) []byte {
	o := append([]byte(nil), b...)
	o[bit/8] ^= 1 << uint(bit%8)
	return o
}

func witness(ch *chain, name string, c *cand, nmap []known, required int, enc []byte, out *bfix.ImportOutcome, via string) map[string]interface{} {
	w := map[string]interface{}{
		"chain": ch.ci, "validators": ch.n, "mutation": name, "entry_point": via,
		"candidate": map[string]interface{}{
			"version": c.version, "height": c.height, "prev_id": hex.EncodeToString(c.prevID),
			"timestamp": c.ts, "vote_timestamps": c.voteTS, "model_median": median(c.voteTS),
			"votes_signed_for": hex.EncodeToString(c.votesFor),
		},
		"required_version": required,
		"model_verdict":    valid(c, nmap, required),
		"encoded_block":    hex.EncodeToString(enc),
	}
	var ks []map[string]interface{}
	for _, k := range nmap {
		ks = append(ks, map[string]interface{}{"id": hex.EncodeToString(k.id), "height": k.height, "timestamp": k.ts})
	}
	w["known_blocks_of_importer"] = ks
	if out != nil {
		w["accepted"] = out.Accepted()
		w["error"] = fmt.Sprint(out.Err())
	}
	return w
}

func run(c *ev.Ctx) {
	bfix.Silence()
	c.Cases(func(ci int, r *rand.Rand) {
		ch := &chain{c: c, r: r, t: &bfix.QuietT{}, ci: ci}
		ch.n = 1 + r.Intn(7)
		if ci%8 < 2 {
			ch.n = 4 + 2*(ci%2) // make sure 4 and 6 (even counts possible) always occur
		}
		heights := 3 + r.Intn(4)
		c.Note("chain validators=%d heights=%d", ch.n, heights)
		for i := 0; i < ch.n; i++ {
			ch.wallets = append(ch.wallets, wallet.New())
		}
		gs := genesisFor(ch.wallets)
		ch.P = bfix.NewNode(ch.t, test.UseGenesis(gs), test.UseWallet(ch.wallets[0]))
		ch.F = bfix.NewNode(ch.t, test.UseGenesis(gs))
		defer ch.P.Close()
		defer ch.F.Close()
		if ch.fixtureErrors("new-node") {
			return
		}
		required := module.BlockVersion2
		versionStep := r.Intn(3) == 0 || ci%8 == 2
		var grand module.Block
		for h := 1; h <= heights && !ch.stalled && !c.Stopped(); h++ {
			parent, err := ch.P.BM.GetLastBlock()
			if err != nil {
				c.Violation("fixture.get-last-block", err.Error())
				return
			}
			withTx := versionStep && h == heights
			if withTx {
				v := int32(3)
				tx := test.NewTx().SetTimestamp(parent.Timestamp()).SetNextBlockVersion(&v)
				if _, err := ch.P.SM.SendTransaction(nil, 0, tx.String()); err != nil {
					c.Violation("fixture.send-tx", err.Error())
					return
				}
			}
			ch.near = withTx
			if !ch.height(parent, grand, required, true) {
				return
			}
			ch.near = false
			grand = parent
		}
		if versionStep && !ch.stalled && !c.Stopped() {
			// the transaction of the last height is executed by the next block's
			// parent transition: the block after it carries the state that requires
			// version 3, and the one after that must itself be version 3.
			parent, _ := ch.P.BM.GetLastBlock()
			if !ch.height(parent, grand, required, false) || ch.stalled {
				return
			}
			grand = parent
			parent, _ = ch.P.BM.GetLastBlock()
			ch.versionRequired(parent)
		}
		ch.fixtureErrors("chain")
	})
}

// targetMedian picks the scenario of a height.
func (ch *chain) targetMedian(pts int64) (int64, string) {
	r := ch.r
	x := r.Intn(100)
	switch {
	case x < 20:
		return pts, "eq-parent"
	case x < 32 && pts > 0:
		if r.Intn(2) == 0 {
			return pts - 1, "lt-parent"
		}
		return r.Int63n(pts), "lt-parent"
	case x < 60:
		return pts + 1, "valid"
	case x < 90:
		return pts + 2 + r.Int63n(1000), "valid"
	default:
		if ch.near {
			return pts + 1, "valid"
		}
		return pts + 1 + r.Int63n(1<<44), "valid"
	}
}

func (ch *chain) randomK() int {
	lo := ch.minVotes()
	return lo + ch.r.Intn(ch.n-lo+1)
}

// height runs one height: base candidate (+ possibly an invalid one first),
// mutants, then finalizes a valid block on both nodes. Returns false on a
// harness-level failure that ends the case.
func (ch *chain) height(parent, grand module.Block, required int, mutate bool) bool {
	c, r := ch.c, ch.r
	nmap := []known{{id: parent.ID(), height: parent.Height(), ts: parent.Timestamp()}}
	h := parent.Height() + 1
	pts := parent.Timestamp()

	var proposeOn func(pid []byte, vs *voteSet) (module.BlockCandidate, *gblock.V2HeaderFormat, *gblock.V2BodyFormat, bool)
	propose := func(vs *voteSet) (module.BlockCandidate, *gblock.V2HeaderFormat, *gblock.V2BodyFormat, bool) {
		return proposeOn(parent.ID(), vs)
	}
	proposeOn = func(pid []byte, vs *voteSet) (module.BlockCandidate, *gblock.V2HeaderFormat, *gblock.V2BodyFormat, bool) {
		bc, err, ok := bfix.Propose(ch.P.BM, pid, vs.cvl, cbWait)
		if !ok {
			c.Notef("chain %d: propose callback timed out", ch.ci)
			c.Count("watchdog_propose", 1)
			ch.stalled = true
			return nil, nil, nil, false
		}
		if err != nil {
			c.Violation("propose.failed", map[string]interface{}{"chain": ch.ci, "height": h, "err": err.Error(), "vote_timestamps": vs.ts})
			ch.stalled = true
			return nil, nil, nil, false
		}
		hf, bf, err := formatOf(bc)
		if err != nil {
			c.Violation("fixture.format-from-block", err.Error())
			bc.Dispose()
			ch.stalled = true
			return nil, nil, nil, false
		}
		return bc, hf, bf, true
	}
	candOf := func(hf *gblock.V2HeaderFormat, vs *voteSet) *cand {
		return &cand{version: hf.Version, height: hf.Height, prevID: hf.PrevID, ts: hf.Timestamp, voteTS: vs.ts, votesFor: parent.ID()}
	}
	check := func(name, class string, hf *gblock.V2HeaderFormat, bf *gblock.V2BodyFormat, cd *cand, wantAcceptIfValid bool) (*bfix.ImportOutcome, bool) {
		verdict := valid(cd, nmap, required)
		c.Eval(1)
		_, enc := reader(hf, bf)
		c.Note("import chain=%d h=%d %s ver=%d height=%d prev=%x ts=%d votes=%v", ch.ci, h, name, hf.Version, hf.Height, hf.PrevID, hf.Timestamp, cd.voteTS)
		out, _, via := ch.doImport(hf, bf)
		if out.TimedOut {
			c.Count("watchdog_import", 1)
			c.Notef("chain %d: import callback timed out (%s)", ch.ci, name)
			ch.stalled = true
			return out, false
		}
		if out.Accepted() && verdict != "" {
			c.Violation("accepted-invalid."+class+"."+verdict, witness(ch, name, cd, nmap, required, enc, out, via))
		}
		if !out.Accepted() && verdict == "" && wantAcceptIfValid {
			c.Violation("rejected-valid."+class, witness(ch, name, cd, nmap, required, enc, out, via))
		}
		if verdict != "" && !out.Accepted() {
			c.NonTrivial(string(enc))
		}
		return out, true
	}

	// ---- base candidate ----
	var vs *voteSet
	scenario := "height1"
	if h > 1 {
		var m int64
		m, scenario = ch.targetMedian(pts)
		k := ch.randomK()
		vs = ch.votesFor(parent, ch.pickVoters(k), ch.timestamps(k, m), int32(r.Intn(3)))
		if k%2 == 1 {
			c.Count("median_odd_count", 1)
		} else {
			c.Count("median_even_count", 1)
			s := append([]int64(nil), vs.ts...)
			sort.Slice(s, func(i, j int) bool { return s[i] < s[j] })
			if (s[k/2-1]+s[k/2])%2 == 1 {
				c.Count("median_even_odd_sum", 1)
			}
		}
	} else {
		vs = ch.votesFor(parent, nil, nil, 0)
	}
	bc, hf, bf, ok := propose(vs)
	if !ok {
		return !c.Stopped()
	}
	cd := candOf(hf, vs)
	out, ok := check("unmodified/"+scenario, "base", hf, bf, cd, true)
	if !ok {
		bc.Dispose()
		return true
	}
	baseValid := valid(cd, nmap, required) == ""
	if c.WantSample() && h > 1 {
		c.Sample(map[string]interface{}{"chain": ch.ci, "validators": ch.n, "height": h, "scenario": scenario,
			"parent_ts": pts, "vote_timestamps": vs.ts, "model_median": median(vs.ts), "block_ts": hf.Timestamp,
			"model_verdict": valid(cd, nmap, required), "accepted": out.Accepted()})
	}
	var fbc module.BlockCandidate
	if baseValid {
		if out.Accepted() {
			c.Count("base_valid_accepted", 1)
			fbc = out.BC
		}
	} else {
		if !out.Accepted() {
			switch scenario {
			case "eq-parent":
				c.Count("base_invalid_rejected_ts_eq_parent", 1)
			case "lt-parent":
				c.Count("base_invalid_rejected_ts_lt_parent", 1)
			default:
				c.Count("base_invalid_rejected_other", 1)
			}
		} else {
			out.BC.Dispose()
		}
		// a few mutants of the invalid candidate (multi-field deviations)
		if mutate {
			for _, m := range ch.mutants(hf, bf, vs, parent, grand, nil, pts, true) {
				o, ok := check(m.name+"/on-invalid-base", "multi", &m.hf, &m.bf, &m.cand, false)
				if !ok {
					break
				}
				if o.Accepted() {
					o.BC.Dispose()
				} else {
					c.Count("mutant_rejected_multi", 1)
				}
			}
		}
		bc.Dispose()
		if ch.stalled {
			return true
		}
		// now a valid one to go on with
		k := ch.randomK()
		vs = ch.votesFor(parent, ch.pickVoters(k), ch.timestamps(k, pts+1+r.Int63n(50)), int32(r.Intn(3)))
		bc, hf, bf, ok = propose(vs)
		if !ok {
			return !c.Stopped()
		}
		cd = candOf(hf, vs)
		out, ok = check("unmodified/valid-after-invalid", "base", hf, bf, cd, true)
		if !ok {
			bc.Dispose()
			return true
		}
		if valid(cd, nmap, required) == "" && out.Accepted() {
			c.Count("base_valid_accepted", 1)
			fbc = out.BC
		}
	}
	if fbc == nil {
		// the chain cannot go on (a violation has been reported, or the proposer
		// produced a block the model rejects, which check() reported if accepted)
		if out != nil && out.Accepted() && out.BC != nil {
			out.BC.Dispose()
		}
		bc.Dispose()
		ch.stalled = true
		c.Count("chains_stalled", 1)
		return true
	}

	// ---- mutants of the valid candidate ----
	if mutate {
		// a sibling known to the importer (another valid candidate on the same parent)
		var sib *known
		var sibBC module.BlockCandidate
		if h > 1 && r.Intn(2) == 0 {
			k := ch.randomK()
			svs := ch.votesFor(parent, ch.pickVoters(k), ch.timestamps(k, hf.Timestamp+1+r.Int63n(10)), vs.round)
			sbc, shf, sbf, ok := propose(svs)
			if ok {
				so, ok2 := check("sibling", "base", shf, sbf, candOf(shf, svs), true)
				if ok2 && so.Accepted() {
					sibBC = so.BC
					sib = &known{id: sbc.ID(), height: sbc.Height(), ts: sbc.Timestamp()}
					nmap = append(nmap, *sib)
					c.Count("sibling_imported", 1)
				}
				sbc.Dispose()
			}
		}
		nmap = append(nmap, known{id: fbc.ID(), height: fbc.Height(), ts: fbc.Timestamp()})
		for _, m := range ch.mutants(hf, bf, vs, parent, grand, sib, pts, false) {
			if ch.stalled || c.Stopped() {
				break
			}
			verdict := valid(&m.cand, nmap, required)
			o, ok := check(m.name, m.class, &m.hf, &m.bf, &m.cand, m.class == "revote-same")
			if !ok {
				break
			}
			if o.Accepted() {
				if verdict == "" {
					c.Count("revote_same_median_accepted", 1)
				}
				o.BC.Dispose()
			} else if verdict != "" {
				c.Count("mutant_rejected_"+m.class, 1)
				c.Distinct("rejected_mutation", m.name)
			}
		}
		if sibBC != nil {
			sibBC.Dispose()
		}
	}

	// ---- descendants of the still unfinalized candidate ----
	// The importer's parent is the block named by prev id, which need not be the
	// last finalized block: children (and grand-children) are imported on top of
	// imported-but-not-finalized blocks, with medians between the last finalized
	// block's timestamp and the unfinalized parent's (must be rejected) and above
	// the parent's (must be accepted).
	if mutate && h >= 2 && !ch.near && (!ch.deepDone || r.Intn(2) == 0) {
		ch.deepDone = true
		type lvl struct{ pbc, fbc module.BlockCandidate }
		var open []lvl
		par := known{id: fbc.ID(), height: fbc.Height(), ts: fbc.Timestamp()}
		var parBlk module.Block = bc
		// one level only: goloop resolves a block's voters through the finalized
		// chain (GetVoters -> GetBlockByHeight), so a grand-child of the last
		// finalized block can neither be proposed nor imported ("fail to get validators")
		levels := 1
		for lv := 0; lv < levels && !ch.stalled && !c.Stopped(); lv++ {
			mk := func(m int64) (*voteSet, int) {
				k := ch.randomK()
				return ch.votesFor(parBlk, ch.pickVoters(k), ch.timestamps(k, m), int32(r.Intn(3))), k
			}
			cdOf := func(f *gblock.V2HeaderFormat, v *voteSet) *cand {
				return &cand{version: f.Version, height: f.Height, prevID: f.PrevID, ts: f.Timestamp, voteTS: v.ts, votesFor: par.id}
			}
			targets := []int64{par.ts}
			if par.ts-pts >= 2 {
				targets = append(targets, pts+1+r.Int63n(par.ts-pts-1))
			}
			for _, m := range targets {
				cvs, _ := mk(m)
				cbc, chf, cbf, ok := proposeOn(par.id, cvs)
				if !ok {
					break
				}
				cd := cdOf(chf, cvs)
				name := fmt.Sprintf("deep%d/median=unfinalized-parent.ts", lv+1)
				if m < par.ts {
					name = fmt.Sprintf("deep%d/finalized.ts<median<unfinalized-parent.ts", lv+1)
				}
				if o, ok := check(name, "deep", chf, cbf, cd, true); ok {
					if o.Accepted() {
						o.BC.Dispose()
					} else if valid(cd, nmap, required) != "" {
						c.Count("deep_invalid_rejected", 1)
						if m > pts {
							c.Count("deep_invalid_rejected_above_finalized_ts", 1)
						}
					}
				}
				cbc.Dispose()
			}
			if ch.stalled || c.Stopped() {
				break
			}
			cvs, _ := mk(par.ts + 1 + r.Int63n(20))
			cbc, chf, cbf, ok := proposeOn(par.id, cvs)
			if !ok {
				break
			}
			cd := cdOf(chf, cvs)
			o, ok := check(fmt.Sprintf("deep%d/valid", lv+1), "deep", chf, cbf, cd, true)
			if !ok || !o.Accepted() {
				cbc.Dispose()
				break
			}
			c.Count("deep_valid_accepted", 1)
			open = append(open, lvl{cbc, o.BC})
			// a few mutants of the valid descendant
			type mu struct {
				n string
				f func(f *gblock.V2HeaderFormat)
			}
			for _, x := range []mu{
				{"height+1", func(f *gblock.V2HeaderFormat) { f.Height++ }},
				{"height-1", func(f *gblock.V2HeaderFormat) { f.Height-- }},
				{"prev=finalized", func(f *gblock.V2HeaderFormat) { f.PrevID = parent.ID() }},
				{"prev=finalized,height-1", func(f *gblock.V2HeaderFormat) { f.PrevID = parent.ID(); f.Height = h }},
				{"ts=parent", func(f *gblock.V2HeaderFormat) { f.Timestamp = par.ts }},
				{"ts=median+1", func(f *gblock.V2HeaderFormat) { f.Timestamp++ }},
			} {
				mhf := *chf
				x.f(&mhf)
				mcd := cdOf(&mhf, cvs)
				mo, ok := check(fmt.Sprintf("deep%d/%s", lv+1, x.n), "deep", &mhf, cbf, mcd, false)
				if !ok {
					break
				}
				if mo.Accepted() {
					mo.BC.Dispose()
				} else if valid(mcd, nmap, required) != "" {
					c.Count("deep_mutant_rejected", 1)
				}
			}
			nmap = append(nmap, known{id: cbc.ID(), height: cbc.Height(), ts: cbc.Timestamp()})
			par = known{id: cbc.ID(), height: cbc.Height(), ts: cbc.Timestamp()}
			parBlk = cbc
			if lv == 1 {
				c.Count("deep_level2_reached", 1)
			}
		}
		for i := len(open) - 1; i >= 0; i-- {
			open[i].fbc.Dispose()
			open[i].pbc.Dispose()
		}
	}

	// ---- finalize on both ----
	if err := ch.P.BM.Finalize(bc); err != nil {
		c.Violation("fixture.finalize-proposer", err.Error())
		return false
	}
	if err := ch.F.BM.Finalize(fbc); err != nil {
		c.Violation("fixture.finalize-follower", err.Error())
		return false
	}
	bc.Dispose()
	fbc.Dispose()
	bfix.WaitLocators(ch.P) // fixture synchronisation, see lib/block
	lp, _ := ch.P.BM.GetLastBlock()
	lf, _ := ch.F.BM.GetLastBlock()
	if lp == nil || lf == nil || !bytes.Equal(lp.ID(), lf.ID()) || lp.Height() != h {
		c.Violation("fixture.nodes-diverged", map[string]interface{}{"chain": ch.ci, "height": h})
		return false
	}
	c.Count("heights_finalized", 1)
	return true
}

// versionRequired: parent's result requires block version 3; the proposer
// (which only knows version 2) builds an otherwise valid version-2 block.
func (ch *chain) versionRequired(parent module.Block) {
	c, r := ch.c, ch.r
	required := 3
	got := ch.F.SM.GetNextBlockVersion(parent.Result())
	if got != required {
		// the state does not require version 3: the workload did not reach the scenario
		c.Count("version_scenario_not_reached", 1)
		return
	}
	k := ch.randomK()
	vs := ch.votesFor(parent, ch.pickVoters(k), ch.timestamps(k, parent.Timestamp()+1+r.Int63n(100)), 0)
	bc, err, ok := bfix.Propose(ch.P.BM, parent.ID(), vs.cvl, cbWait)
	if !ok || err != nil {
		c.Count("version_scenario_propose_failed", 1)
		return
	}
	defer bc.Dispose()
	hf, bf, err := formatOf(bc)
	if err != nil {
		return
	}
	nmap := []known{{id: parent.ID(), height: parent.Height(), ts: parent.Timestamp()}}
	cd := &cand{version: hf.Version, height: hf.Height, prevID: hf.PrevID, ts: hf.Timestamp, voteTS: vs.ts, votesFor: parent.ID()}
	_, enc := reader(hf, bf)
	c.Eval(1)
	c.Note("import chain=%d version-required height=%d ts=%d", ch.ci, hf.Height, hf.Timestamp)
	out, _, via := ch.doImport(hf, bf)
	if out.TimedOut {
		c.Count("watchdog_import", 1)
		return
	}
	if out.Accepted() {
		c.Violation("accepted-invalid.version.state-requires-3", witness(ch, "version-2 block where parent state requires 3", cd, nmap, required, enc, out, via))
		out.BC.Dispose()
		return
	}
	c.Count("version_required_rejected", 1)
	c.NonTrivial(string(enc))
}

// mutants derives the mutated candidates of a base.
func (ch *chain) mutants(hf0 *gblock.V2HeaderFormat, bf0 *gblock.V2BodyFormat, vs *voteSet,
	parent, grand module.Block, sib *known, pts int64, short bool) []*mutant {
	r := ch.r
	var out []*mutant
	h := hf0.Height
	base := func(class, name string) *mutant {
		m := &mutant{class: class, name: name, hf: *hf0, bf: *bf0}
		m.cand = cand{version: hf0.Version, height: hf0.Height, prevID: hf0.PrevID, ts: hf0.Timestamp, voteTS: vs.ts, votesFor: parent.ID()}
		return m
	}
	add := func(m *mutant) {
		m.cand.version, m.cand.height, m.cand.prevID, m.cand.ts = m.hf.Version, m.hf.Height, m.hf.PrevID, m.hf.Timestamp
		out = append(out, m)
	}
	setH := func(m *mutant, v int64) { m.hf.Height = v }
	heightVals := []struct {
		n string
		v int64
	}{{"height+1", h + 1}, {"height-1", h - 1}, {"height+2", h + 2}, {"height-2", h - 2}, {"height=0", 0}, {"height=2^40", 1 << 40}}
	prevVals := []struct {
		n string
		v []byte
	}{
		{"prev-bitflip", flipBit(hf0.PrevID, r.Intn(len(hf0.PrevID)*8))},
		{"prev-zero", make([]byte, 32)},
		{"prev-short", hf0.PrevID[:31]},
		{"prev-empty", []byte{}},
	}
	if grand != nil {
		prevVals = append(prevVals, struct {
			n string
			v []byte
		}{"prev-grandparent", grand.ID()})
	}
	if sib != nil {
		prevVals = append(prevVals, struct {
			n string
			v []byte
		}{"prev-sibling", sib.id})
	}
	tsVals := []struct {
		n string
		v int64
	}{{"ts=median+1", hf0.Timestamp + 1}, {"ts=parent", pts}, {"ts=parent+1", pts + 1}, {"ts=0", 0}, {"ts=median+2^30", hf0.Timestamp + 1<<30}}
	if hf0.Timestamp > 0 {
		tsVals = append(tsVals, struct {
			n string
			v int64
		}{"ts=median-1", hf0.Timestamp - 1})
	}
	if pts > 0 {
		tsVals = append(tsVals, struct {
			n string
			v int64
		}{"ts=parent-1", pts - 1})
	}
	// min / max / mean of the votes (a wrong "median")
	if len(vs.ts) > 0 {
		s := append([]int64(nil), vs.ts...)
		sort.Slice(s, func(i, j int) bool { return s[i] < s[j] })
		tsVals = append(tsVals, struct {
			n string
			v int64
		}{"ts=max-vote", s[len(s)-1]}, struct {
			n string
			v int64
		}{"ts=min-vote", s[0]}, struct {
			n string
			v int64
		}{"ts=upper-middle", s[len(s)/2]})
		if len(s) >= 2 {
			tsVals = append(tsVals, struct {
				n string
				v int64
			}{"ts=lower-middle", s[(len(s)-1)/2]})
		}
	}
	if short {
		// two or three mutants on top of an already invalid base
		hv := heightVals[r.Intn(2)]
		m := base("multi", hv.n)
		setH(m, hv.v)
		add(m)
		pv := prevVals[r.Intn(len(prevVals))]
		m = base("multi", pv.n)
		m.hf.PrevID = pv.v
		add(m)
		m = base("multi", "version=3")
		m.hf.Version = 3
		add(m)
		return out
	}
	for _, hv := range heightVals {
		if hv.v < 0 {
			continue
		}
		m := base("height", hv.n)
		setH(m, hv.v)
		add(m)
	}
	for _, pv := range prevVals {
		m := base("prev", pv.n)
		m.hf.PrevID = pv.v
		add(m)
	}
	for _, v := range []int{0, 1, 3} {
		m := base("version", fmt.Sprintf("version=%d", v))
		m.hf.Version = v
		add(m)
	}
	if h > 1 {
		for _, tv := range tsVals {
			if tv.v == hf0.Timestamp {
				continue
			}
			m := base("timestamp", tv.n)
			m.hf.Timestamp = tv.v
			add(m)
		}
		// re-signed vote lists under the unchanged header timestamp
		for i := 0; i < 4; i++ {
			k := ch.randomK()
			var target int64
			name := ""
			class := "revote"
			switch i {
			case 0:
				target, name, class = hf0.Timestamp, "revote-same-median", "revote-same"
			case 1:
				target, name = hf0.Timestamp+1, "revote-median+1"
			case 2:
				if hf0.Timestamp == 0 {
					continue
				}
				target, name = hf0.Timestamp-1, "revote-median-1"
			default:
				// other parity when the validator count allows it
				k2 := len(vs.voters) + 1
				if k2 > ch.n {
					k2 = len(vs.voters) - 1
				}
				if k2 < ch.minVotes() || k2 > ch.n {
					continue
				}
				k = k2
				target, name = hf0.Timestamp+int64(r.Intn(3))-1, "revote-other-parity"
				if target < 0 {
					target = 0
				}
				if target == hf0.Timestamp {
					class = "revote-same"
				}
			}
			nvs := ch.votesFor(parent, ch.pickVoters(k), ch.timestamps(k, target), vs.round)
			m := base(class, name)
			m.hf.VotesHash = nvs.cvl.Hash()
			m.bf.Votes = nvs.cvl.Bytes()
			m.cand.voteTS = nvs.ts
			add(m)
		}
	}
	// pairs
	pair := func(name string, f func(m *mutant)) {
		m := base("pair", name)
		f(m)
		add(m)
	}
	pair("height+1,prev-bitflip", func(m *mutant) { m.hf.Height = h + 1; m.hf.PrevID = prevVals[0].v })
	pair("height-1,version=1", func(m *mutant) { m.hf.Height = h - 1; m.hf.Version = 1 })
	if h > 1 {
		pair("height+1,ts=median+1", func(m *mutant) { m.hf.Height = h + 1; m.hf.Timestamp = hf0.Timestamp + 1 })
		pair("prev-zero,ts=parent", func(m *mutant) { m.hf.PrevID = make([]byte, 32); m.hf.Timestamp = pts })
		if grand != nil {
			pair("prev-grandparent,height-1", func(m *mutant) { m.hf.PrevID = grand.ID(); m.hf.Height = h - 1 })
		}
		if sib != nil {
			pair("prev-sibling,height+1", func(m *mutant) { m.hf.PrevID = sib.id; m.hf.Height = h + 1 })
		}
	}
	return out
}
