// Package c29: BTP network-type proofs need > 2/3 distinct validator
// signatures, each at its own index.
//
// Real proof contexts of the "eth" and "icon" network type modules are built
// from harness keys (some slots without a key). Proofs are assembled through
// the real NewProofPart/Add/Bytes/NewProofFromBytes path and by the harness's
// own RLP encoder (to put signatures at wrong indices, into key-less slots,
// beyond the validator count, ...). The oracle recovers every slot with decred
// directly, derives the module's address itself and applies the statement.
package c29

import (
	"bytes"
	"encoding/hex"
	"fmt"
	"math/rand"
	"runtime/debug"

	"github.com/decred/dcrd/dcrec/secp256k1/v4"
	"golang.org/x/crypto/sha3"

	"github.com/icon-project/goloop/btp/ntm"
	"github.com/icon-project/goloop/common/log"
	"github.com/icon-project/goloop/module"

	"verif/lib/ev"
	"verif/lib/sig"
)

const proofsPerCase = 30

// case index layout: [0,proofCases) single proof contexts, then proof context maps
func proofCases(t string) int {
	if t == ev.Thorough {
		return 6400
	}
	return 192
}

func pcmCases(t string) int {
	if t == ev.Thorough {
		return 3200
	}
	return 96
}

func init() {
	ev.Register(&ev.Prop{
		ID:    "C29",
		Level: "exploration",
		Cases: func(t string) int { return proofCases(t) + pcmCases(t) },
		Batches: func(t string) int {
			if t == ev.Thorough {
				return 32
			}
			return 16
		},
		Rule: fmt.Sprintf("each case = one proof context (module eth or icon, n in 1..10 validator slots, about 1 in 6 without a key; keys given compressed or uncompressed; the context is also taken through Bytes/NewProofContextFromBytes) and %d proofs over a decision hash (random or a real NewDecision hash): a subset S of keyed slots signs (|S| biased to floor(2n/3), floor(2n/3)+1, all), then 0..2 faults from: valid signature moved to another slot, copied to a second slot, foreign key, signature over another hash, bit flip, flipped V, V>=8, r=0, 64-byte signature, signature in a key-less slot, signed or empty extra slots beyond n, fewer slots than n. All-good proofs also go through the real NewProofPart/Add/Bytes path. Model: accept iff every filled slot i < n recovers (decred) to the address the harness derives for slot i's key, and 3*filled > 2*n. Second phase (last cases): a real btp.NewProofContextMap over 2..4 network types with increasing ids of which some have NO proof context (biased to the low ids), %d digests each (real btp.NewDigestFromBytes over harness-encoded bytes) naming a subset of the types, one proof per context-bearing type; at most one of them is faulty (0 / 1 / floor signatures, foreign signers, signed over another ntid / height / round / section hash / source uid, rotated indices, garbage bytes, the proof of the neighbouring type) or the proof count is wrong; ProofContextMap.Verify must accept iff every context-bearing type has a proof with > 2/3 valid own-index signatures over ITS decision. Non-trivial = distinct proof with a fault or on the threshold boundary, distinct digest with a fault or a context-less type.", proofsPerCase, digestsPerMap),
		MinNonTrivial: func(t string) int {
			if t == ev.Thorough {
				return 80000
			}
			return 2500
		},
		Required: []string{"accept_agreed", "reject_agreed", "reject_too_few", "reject_bad_slot", "boundary_at_floor", "boundary_at_floor_plus_1", "real_path_proofs", "decoded_context", "module_eth", "module_icon", "fault_wrong-index-move", "fault_wrong-index-copy", "fault_foreign", "fault_other-hash", "fault_keyless-slot", "verifypart_checked", "pcm_accept_agreed", "pcm_reject_agreed", "pcm_multi_type_digests", "pcm_context_after_hole", "pcm_fault_after_hole"},
		Assumptions: []string{
			"decred secp256k1 recovery called directly is the reference for a slot's signer",
			"eth address = last 20 bytes of keccak-256(uncompressed key without prefix); icon address = 00 | last 20 bytes of sha3-256(same) (derived in the harness with golang.org/x/crypto/sha3)",
			"the denominator is the number of validator slots of the context, key-less slots included (they can never sign)",
			"a proof is RLP[[sig|null, ...]] (harness encoder lib/sig/rlp.go; validated by the positive cases and by the real Bytes() path)",
		},
		TimeoutSec: func(t string) int {
			if t == ev.Thorough {
				return 3600
			}
			return 600
		},
		Run: run,
	})
}

func randBytes(r *rand.Rand, n int) []byte {
	b := make([]byte, n)
	r.Read(b)
	return b
}

// own address derivations
func ethAddrPub(pk *secp256k1.PublicKey) []byte {
	u := pk.SerializeUncompressed()
	h := sha3.NewLegacyKeccak256()
	h.Write(u[1:])
	return h.Sum(nil)[12:]
}

func iconAddrPub(pk *secp256k1.PublicKey) []byte {
	a := sig.AddrOfPub(pk)
	return append([]byte{0}, a[:]...)
}

type wp struct{ k *sig.Key }
type bw struct{ k *sig.Key }

func (w wp) WalletFor(dsa string) module.BaseWallet { return bw{w.k} }
func (w bw) Sign(h []byte) ([]byte, error)          { return w.k.SignRSV(h), nil }
func (w bw) PublicKey() []byte                      { return w.k.Priv.PubKey().SerializeCompressed() }

func encodeProof(slots [][]byte) []byte {
	var its [][]byte
	for _, s := range slots {
		its = append(its, sig.RBytes(s)) // nil -> null
	}
	return sig.RList(sig.RList(its...))
}

var faults = []string{"wrong-index-move", "wrong-index-copy", "foreign", "other-hash", "bitflip", "flip-v", "v-ge-8", "r-zero", "len64", "keyless-slot", "extra-slot-signed", "extra-slot-empty", "fewer-slots"}

func run(c *ev.Ctx) {
	log.GlobalLogger().SetLevel(log.FatalLevel)
	ntm.InitIconModule()
	c.Cases(func(ci int, r *rand.Rand) {
		if ci >= proofCases(c.Tier) {
			runPCM(c, r)
			return
		}
		uid := []string{"eth", "icon"}[r.Intn(2)]
		mod := ntm.ForUID(uid)
		if mod == nil {
			panic("no module " + uid)
		}
		c.Count("module_"+uid, 1)
		addrOfPub := ethAddrPub
		if uid == "icon" {
			addrOfPub = iconAddrPub
		}
		addrOf := func(k *sig.Key) []byte { return addrOfPub(k.Priv.PubKey()) }
		n := 1 + r.Intn(10)
		keys := make([]*sig.Key, n)
		pubs := make([][]byte, n)
		var privHex []string
		keyed := []int{}
		for i := range keys {
			if r.Intn(6) == 0 && n > 1 {
				privHex = append(privHex, "")
				continue
			}
			keys[i] = sig.NewKey(r)
			if r.Intn(2) == 0 {
				pubs[i] = keys[i].Priv.PubKey().SerializeCompressed()
			} else {
				pubs[i] = keys[i].Priv.PubKey().SerializeUncompressed()
			}
			privHex = append(privHex, hex.EncodeToString(keys[i].PrivBytes()))
			keyed = append(keyed, i)
		}
		foreign := sig.NewKey(r)
		c.Note("uid=%s n=%d keys(priv)=%v", uid, n, privHex)
		pc0, err := mod.NewProofContext(pubs)
		if err != nil {
			c.Violation("context.new-fails", map[string]interface{}{"uid": uid, "keys_priv": privHex, "err": err.Error()})
			return
		}
		pcs := []module.BTPProofContext{pc0}
		names := []string{"built"}
		if pcb := pc0.Bytes(); pcb != nil {
			pc1, err := mod.NewProofContextFromBytes(pcb)
			if err != nil {
				c.Violation("context.roundtrip-fails", map[string]interface{}{"uid": uid, "keys_priv": privHex, "bytes": hex.EncodeToString(pcb), "err": err.Error()})
			} else {
				if !bytes.Equal(pc1.Bytes(), pcb) {
					c.Violation("context.roundtrip-bytes-differ", map[string]interface{}{"uid": uid, "bytes": hex.EncodeToString(pcb), "again": hex.EncodeToString(pc1.Bytes())})
				}
				pcs = append(pcs, pc1)
				names = append(names, "decoded")
				c.Count("decoded_context", 1)
			}
		}
		floor := 2 * n / 3

		for pi := 0; pi < proofsPerCase && !c.Stopped(); pi++ {
			c.Eval(1)
			var dHash []byte
			if r.Intn(3) == 0 {
				dHash = pc0.NewDecision(randBytes(r, 8), int64(1+r.Intn(5)), 1+r.Int63n(1<<40), int32(r.Intn(4)), randBytes(r, 32)).Hash()
			} else {
				dHash = randBytes(r, 32)
			}
			// honest part
			var size int
			switch r.Intn(8) {
			case 0, 1:
				size = floor
			case 2, 3, 4:
				size = floor + 1
			case 5:
				size = len(keyed)
			case 6:
				size = r.Intn(len(keyed) + 1)
			default:
				size = floor - 1
			}
			if size < 0 {
				size = 0
			}
			if size > len(keyed) {
				size = len(keyed)
			}
			slots := make([][]byte, n)
			signers := []int{}
			for _, j := range r.Perm(len(keyed))[:size] {
				i := keyed[j]
				slots[i] = keys[i].SignRSV(dHash)
				signers = append(signers, i)
			}
			nf := 0
			switch r.Intn(5) {
			case 2, 3:
				nf = 1
			case 4:
				nf = 2
			}
			var applied []string
			for f := 0; f < nf; f++ {
				name := faults[r.Intn(len(faults))]
				ok := false
				empty := []int{}
				for i := 0; i < n && i < len(slots); i++ {
					if slots[i] == nil {
						empty = append(empty, i)
					}
				}
				pickSigner := func() int {
					if len(signers) == 0 {
						return -1
					}
					return signers[r.Intn(len(signers))]
				}
				anyKeyed := func() int {
					if len(keyed) == 0 {
						return -1
					}
					return keyed[r.Intn(len(keyed))]
				}
				switch name {
				case "wrong-index-move", "wrong-index-copy":
					s := pickSigner()
					if s >= 0 && s < len(slots) && slots[s] != nil && len(empty) > 0 {
						d := empty[r.Intn(len(empty))]
						slots[d] = append([]byte(nil), slots[s]...)
						if name == "wrong-index-move" {
							slots[s] = nil
						}
						ok = true
					}
				case "foreign":
					if i := anyKeyed(); i >= 0 && i < len(slots) {
						slots[i] = foreign.SignRSV(dHash)
						ok = true
					}
				case "other-hash":
					if i := anyKeyed(); i >= 0 && i < len(slots) {
						h2 := append([]byte(nil), dHash...)
						h2[r.Intn(32)] ^= 1 << uint(r.Intn(8))
						slots[i] = keys[i].SignRSV(h2)
						ok = true
					}
				case "bitflip", "flip-v", "v-ge-8", "r-zero", "len64":
					if i := anyKeyed(); i >= 0 && i < len(slots) {
						s := keys[i].SignRSV(dHash)
						switch name {
						case "bitflip":
							s[r.Intn(64)] ^= 1 << uint(r.Intn(8))
						case "flip-v":
							s[64] ^= 1
						case "v-ge-8":
							s[64] = byte(8 + r.Intn(248))
						case "r-zero":
							for k := 0; k < 32; k++ {
								s[k] = 0
							}
						case "len64":
							s = s[:64]
						}
						slots[i] = s
						ok = true
					}
				case "keyless-slot":
					for i := 0; i < n && i < len(slots); i++ {
						if keys[i] == nil {
							k := foreign
							if len(keyed) > 0 && r.Intn(2) == 0 {
								k = keys[anyKeyed()]
							}
							slots[i] = k.SignRSV(dHash)
							ok = true
							break
						}
					}
				case "extra-slot-signed":
					k := foreign
					if len(keyed) > 0 && r.Intn(2) == 0 {
						k = keys[anyKeyed()]
					}
					slots = append(slots, k.SignRSV(dHash))
					ok = true
				case "extra-slot-empty":
					slots = append(slots, nil)
					ok = true
				case "fewer-slots":
					if len(slots) > 0 {
						slots = slots[:len(slots)-1]
						ok = true
					}
				}
				if ok {
					applied = append(applied, name)
					c.Count("fault_"+name, 1)
				}
			}

			// ---- model
			filled, badSlot := 0, ""
			for i, s := range slots {
				if s == nil {
					continue
				}
				filled++
				if badSlot != "" {
					continue
				}
				if i >= n {
					badSlot = "index-beyond-validators"
					continue
				}
				var vrs []byte
				if len(s) == 65 {
					vrs = append([]byte{s[64]}, s[:64]...)
				}
				pkAddr, ok := refRecover(vrs, dHash, addrOfPub)
				switch {
				case !ok:
					badSlot = "unrecoverable"
				case keys[i] == nil:
					badSlot = "keyless-slot"
				case !bytes.Equal(pkAddr, addrOf(keys[i])):
					badSlot = "other-signer"
				}
			}
			reason := ""
			if badSlot != "" {
				reason = "bad_slot"
			} else if !(3*filled > 2*n) {
				reason = "too_few"
			}
			want := reason == ""

			raw := encodeProof(slots)
			c.Note("dHash=%x proof=%x", dHash, raw)
			wit := func(what, ctx string) map[string]interface{} {
				var ss []string
				for _, s := range slots {
					if s == nil {
						ss = append(ss, "")
					} else {
						ss = append(ss, hex.EncodeToString(s))
					}
				}
				return map[string]interface{}{"what": what, "context": ctx, "uid": uid, "n": n, "keys_priv": privHex, "decision_hash": hex.EncodeToString(dHash), "slots_rsv": ss,
					"proof_rlp": hex.EncodeToString(raw), "faults": applied, "model_accepts": want, "model_reason": reason + " " + badSlot, "filled": filled}
			}
			faultKey := "none"
			if len(applied) > 0 {
				faultKey = applied[0]
			}

			for ctxI, pc := range pcs {
				got, decoded := verify(c, pc, dHash, raw, func(what string) map[string]interface{} { return wit(what, names[ctxI]) })
				if !decoded {
					c.Count("decode_rejected", 1)
				}
				switch {
				case got && !want:
					c.Violation("verify.accepts."+reason+"."+badSlotKey(badSlot)+"."+faultKey, wit("accepted a proof the statement rejects", names[ctxI]))
				case !got && want:
					c.Violation("verify.rejects-valid-proof."+names[ctxI], wit("rejected a proof with > 2/3 valid parts at their own indices", names[ctxI]))
				case want:
					c.Count("accept_agreed", 1)
				default:
					c.Count("reject_agreed", 1)
					c.Count("reject_"+reason, 1)
					if badSlot != "" {
						c.Count("reject_slot_"+badSlot, 1)
					}
				}
			}

			// every filled slot alone through VerifyPart (decoded from the harness's part bytes)
			for i, s := range slots {
				if s == nil || len(s) != 65 || i >= 1<<20 {
					continue
				}
				checkPart(c, pc0, dHash, i, s, n, keys, addrOfPub, func(what string) map[string]interface{} { return wit(what, "built") })
			}

			// the real assembly path for all-good proofs
			if len(applied) == 0 {
				p := pc0.NewProof()
				okReal := true
				for _, i := range signers {
					pp, err := pc0.NewProofPart(dHash, wp{keys[i]})
					if err != nil {
						c.Violation("newproofpart.fails", wit("NewProofPart: "+err.Error(), "built"))
						okReal = false
						break
					}
					pp2, err := pc0.NewProofPartFromBytes(pp.Bytes())
					if err != nil {
						c.Violation("proofpart.roundtrip-fails", wit(err.Error(), "built"))
						okReal = false
						break
					}
					p.Add(pp2)
				}
				if okReal {
					rb := p.Bytes()
					if !bytes.Equal(rb, raw) {
						w := wit("the real Bytes() differs from the harness encoding of the same proof", "built")
						w["real_bytes"] = hex.EncodeToString(rb)
						c.Violation("proof.bytes-differ-from-reference-encoding", w)
					}
					got, _ := verify(c, pc0, dHash, rb, func(what string) map[string]interface{} { return wit(what, "real-path") })
					if got != want {
						c.Violation("verify.real-path-disagrees", wit(fmt.Sprint("got accept=", got), "real-path"))
					}
					c.Count("real_path_proofs", 1)
				}
			}

			boundary := false
			if filled == floor {
				c.Count("boundary_at_floor", 1)
				boundary = true
			}
			if filled == floor+1 {
				c.Count("boundary_at_floor_plus_1", 1)
				boundary = true
			}
			if len(applied) > 0 || boundary {
				c.NonTrivial(uid + string(dHash) + string(raw))
			}
			if pi == 0 && c.WantSample() {
				c.Sample(wit("sample", "built"))
			}
		}
	})
}

func badSlotKey(s string) string {
	if s == "" {
		return "count"
	}
	return s
}

func refRecover(vrs, hash []byte, addrOfPub func(*secp256k1.PublicKey) []byte) ([]byte, bool) {
	pk, ok := sig.RefRecoverPubVRS(vrs, hash)
	if !ok {
		return nil, false
	}
	return addrOfPub(pk), true
}

// verify decodes the proof with the real code and calls the real Verify.
func verify(c *ev.Ctx, pc module.BTPProofContext, dHash, raw []byte, wit func(string) map[string]interface{}) (accepted, decoded bool) {
	defer func() {
		if p := recover(); p != nil {
			w := wit(fmt.Sprint("panic: ", p))
			w["stack"] = string(debug.Stack())
			c.Violation("verify.panics", w)
			accepted = false
		}
	}()
	p, err := pc.NewProofFromBytes(raw)
	if err != nil {
		return false, false
	}
	return pc.Verify(dHash, p) == nil, true
}

func checkPart(c *ev.Ctx, pc module.BTPProofContext, dHash []byte, idx int, rsv []byte, n int, keys []*sig.Key, addrOfPub func(*secp256k1.PublicKey) []byte, wit func(string) map[string]interface{}) {
	defer func() {
		if p := recover(); p != nil {
			w := wit(fmt.Sprint("VerifyPart panic: ", p))
			w["stack"] = string(debug.Stack())
			c.Violation("verifypart.panics", w)
		}
	}()
	ppb := sig.RList(sig.RInt(int64(idx)), sig.RBytes(rsv))
	pp, err := pc.NewProofPartFromBytes(ppb)
	if err != nil {
		return
	}
	gotIdx, err := pc.VerifyPart(dHash, pp)
	a, ok := refRecover(append([]byte{rsv[64]}, rsv[:64]...), dHash, addrOfPub)
	want := ok && idx < n && keys[idx] != nil && bytes.Equal(a, addrOfPub(keys[idx].Priv.PubKey()))
	c.Count("verifypart_checked", 1)
	if (err == nil) != want {
		w := wit(fmt.Sprintf("VerifyPart index=%d sig=%x: err=%v, model valid=%v", idx, rsv, err, want))
		if err == nil {
			c.Violation("verifypart.accepts-invalid-part", w)
		} else {
			c.Violation("verifypart.rejects-valid-part", w)
		}
	} else if err == nil && gotIdx != idx {
		c.Violation("verifypart.wrong-index-returned", wit(fmt.Sprintf("index %d returned %d", idx, gotIdx)))
	}
}
