package c29

// Second phase: btp.ProofContextMap.Verify with a digest of several network
// types, some of which have no proof context in the map. Every network type
// digest that has a context must have its own proof verified, wherever it
// stands in the digest.

import (
	"encoding/hex"
	"errors"
	"fmt"
	"math/rand"
	"runtime/debug"

	"github.com/decred/dcrd/dcrec/secp256k1/v4"

	"github.com/icon-project/goloop/btp"
	"github.com/icon-project/goloop/btp/ntm"
	"github.com/icon-project/goloop/module"

	"verif/lib/ev"
	"verif/lib/sig"
)

const digestsPerMap = 12

type ntView struct {
	uid string
	pcb []byte
}

func (v *ntView) UID() string                  { return v.uid }
func (v *ntView) NextProofContextHash() []byte { return nil }
func (v *ntView) NextProofContext() []byte     { return v.pcb }
func (v *ntView) OpenNetworkIDs() []int64      { return nil }

type stateView struct {
	ids []int64
	nts map[int64]*ntView
}

func (s *stateView) GetNetworkTypeIDs() ([]int64, error) { return s.ids, nil }
func (s *stateView) GetNetworkView(nid int64) (btp.NetworkView, error) {
	return nil, errors.New("not used")
}
func (s *stateView) GetNetworkTypeView(ntid int64) (btp.NetworkTypeView, error) {
	v, ok := s.nts[ntid]
	if !ok {
		return nil, errors.New("no such network type")
	}
	return v, nil
}

type proofList [][]byte

func (p proofList) NTSDProofCount() int      { return len(p) }
func (p proofList) NTSDProofAt(i int) []byte { return p[i] }

type netType struct {
	id      int64
	uid     string
	keys    []*sig.Key // nil entries = key-less slots
	hasPC   bool
	pc      module.BTPProofContext // the harness's own context object (for decision hashes)
	addrPub func(*secp256k1.PublicKey) []byte
}

func encodeDigest(nts []*netType, hashes map[int64][]byte, r *rand.Rand) []byte {
	var l [][]byte
	for _, nt := range nts {
		nd := sig.RList(sig.RInt(1+int64(r.Intn(50))), sig.RBytes(randBytes(r, 32)), sig.RBytes(randBytes(r, 32)))
		l = append(l, sig.RList(sig.RInt(nt.id), sig.RBytes([]byte(nt.uid)), sig.RBytes(hashes[nt.id]), sig.RList(nd)))
	}
	return sig.RList(sig.RList(l...))
}

var pcmFaults = []string{"no-signature", "one-signature", "at-floor", "foreign-signers", "other-ntid", "other-height", "other-round", "other-section-hash", "other-src-uid", "wrong-index", "garbage-bytes", "proof-of-neighbour"}

func runPCM(c *ev.Ctx, r *rand.Rand) {
	// network types with increasing ids; the first ones are biased to have no context (the "hole")
	k := 2 + r.Intn(3)
	var all []*netType
	view := &stateView{nts: map[int64]*ntView{}}
	id := int64(0)
	withPC := 0
	for i := 0; i < k; i++ {
		id += 1 + int64(r.Intn(3))
		nt := &netType{id: id, uid: []string{"eth", "icon"}[r.Intn(2)]}
		nt.addrPub = ethAddrPub
		if nt.uid == "icon" {
			nt.addrPub = iconAddrPub
		}
		switch {
		case i == 0:
			nt.hasPC = r.Intn(3) == 0
		case i == k-1 && withPC == 0:
			nt.hasPC = true
		default:
			nt.hasPC = r.Intn(3) != 0
		}
		n := 1 + r.Intn(7)
		pubs := make([][]byte, n)
		nt.keys = make([]*sig.Key, n)
		for j := range nt.keys {
			if r.Intn(8) == 0 && n > 1 {
				continue
			}
			nt.keys[j] = sig.NewKey(r)
			pubs[j] = nt.keys[j].Priv.PubKey().SerializeCompressed()
		}
		pc, err := ntm.ForUID(nt.uid).NewProofContext(pubs)
		if err != nil {
			panic(err)
		}
		nt.pc = pc
		v := &ntView{uid: nt.uid}
		if nt.hasPC {
			v.pcb = pc.Bytes()
			withPC++
		}
		view.ids = append(view.ids, nt.id)
		view.nts[nt.id] = v
		all = append(all, nt)
	}
	pcm, err := btp.NewProofContextMap(view)
	if err != nil {
		c.Violation("pcm.new-fails", err.Error())
		return
	}
	foreign := sig.NewKey(r)

	for di := 0; di < digestsPerMap && !c.Stopped(); di++ {
		c.Eval(1)
		// which network types have a section in this block
		var in []*netType
		for _, nt := range all {
			if r.Intn(4) != 0 {
				in = append(in, nt)
			}
		}
		if len(in) == 0 {
			in = append(in, all[len(all)-1])
		}
		srcUID := randBytes(r, 6)
		height := 1 + r.Int63n(1<<40)
		round := int32(r.Intn(4))
		hashes := map[int64][]byte{}
		for _, nt := range in {
			hashes[nt.id] = randBytes(r, 32)
		}
		dig := encodeDigest(in, hashes, r)
		bd, err := btp.NewDigestFromBytes(dig)
		if err != nil {
			c.Violation("pcm.digest-rejected", map[string]string{"digest": hex.EncodeToString(dig), "err": err.Error()})
			continue
		}
		// one fault at most, in ONE of the context-bearing network types
		var bearing []int
		for i, nt := range in {
			if nt.hasPC {
				bearing = append(bearing, i)
			}
		}
		faultAt, fault := -1, ""
		if len(bearing) > 0 && r.Intn(5) < 3 {
			faultAt = bearing[r.Intn(len(bearing))]
			// the last context-bearing digest after a hole is the interesting place
			if r.Intn(2) == 0 {
				faultAt = bearing[len(bearing)-1]
			}
			fault = pcmFaults[r.Intn(len(pcmFaults))]
		}
		holeBefore := false
		var proofs proofList
		var desc []map[string]interface{}
		want := true
		for i, nt := range in {
			if !nt.hasPC {
				desc = append(desc, map[string]interface{}{"ntid": nt.id, "uid": nt.uid, "context": false})
				continue
			}
			seenHole := false
			for _, p := range in[:i] {
				if !p.hasPC {
					seenHole = true
				}
			}
			n := len(nt.keys)
			dArgs := struct {
				src    []byte
				ntid   int64
				h      int64
				rd     int32
				nsHash []byte
			}{srcUID, nt.id, height, round, hashes[nt.id]}
			f := ""
			if i == faultAt {
				if fault == "proof-of-neighbour" && len(proofs) == 0 {
					fault = "" // no neighbour before it: this digest stays honest
				}
				f = fault
				if seenHole && f != "" {
					holeBefore = true
				}
			}
			switch f {
			case "other-ntid":
				dArgs.ntid++
			case "other-height":
				dArgs.h++
			case "other-round":
				dArgs.rd++
			case "other-section-hash":
				dArgs.nsHash = randBytes(r, 32)
			case "other-src-uid":
				dArgs.src = randBytes(r, 6)
			}
			signedHash := nt.pc.NewDecision(dArgs.src, dArgs.ntid, dArgs.h, dArgs.rd, dArgs.nsHash).Hash()
			trueHash := nt.pc.NewDecision(srcUID, nt.id, height, round, hashes[nt.id]).Hash()
			slots := make([][]byte, n)
			var keyed []int
			for j, kk := range nt.keys {
				if kk != nil {
					keyed = append(keyed, j)
				}
			}
			size := len(keyed) // honest: everybody with a key signs
			switch f {
			case "no-signature":
				size = 0
			case "one-signature":
				size = 1
			case "at-floor":
				size = 2 * n / 3
			}
			if size > len(keyed) {
				size = len(keyed)
			}
			for _, j := range r.Perm(len(keyed))[:size] {
				s := keyed[j]
				signer := nt.keys[s]
				if f == "foreign-signers" {
					signer = foreign
				}
				slots[s] = signer.SignRSV(signedHash)
			}
			if f == "wrong-index" && n >= 2 && size >= 1 {
				// rotate the filled slots by one
				slots = append(slots[1:], slots[0])
			}
			raw := encodeProof(slots)
			if f == "garbage-bytes" {
				raw = randBytes(r, 1+r.Intn(40))
			}
			if f == "proof-of-neighbour" && len(proofs) > 0 {
				raw = proofs[len(proofs)-1]
			}
			// model for this proof (as in phase 1), over the TRUE decision hash
			valid := modelProof(raw, f, slots, nt, trueHash)
			if !valid {
				want = false
			}
			proofs = append(proofs, raw)
			desc = append(desc, map[string]interface{}{"ntid": nt.id, "uid": nt.uid, "context": true, "n": n, "fault": f, "after_hole": seenHole, "proof": hex.EncodeToString(raw), "model_valid": valid})
		}
		// now and then a wrong number of proofs
		countFault := ""
		if r.Intn(12) == 0 {
			if r.Intn(2) == 0 || len(proofs) == 0 {
				proofs = append(proofs, encodeProof([][]byte{nil}))
				countFault = "extra-proof"
			} else {
				proofs = proofs[:len(proofs)-1]
				countFault = "missing-proof"
			}
			want = false
		}
		c.Note("pcm digest=%x proofs=%d", dig, len(proofs))
		wit := func(what string) map[string]interface{} {
			var ps []string
			for _, p := range proofs {
				ps = append(ps, hex.EncodeToString(p))
			}
			return map[string]interface{}{"what": what, "src_uid": hex.EncodeToString(srcUID), "height": height, "round": round, "digest_rlp": hex.EncodeToString(dig),
				"network_types": desc, "proofs": ps, "count_fault": countFault, "model_accepts": want}
		}
		var verr error
		func() {
			defer func() {
				if p := recover(); p != nil {
					w := wit(fmt.Sprint("panic: ", p))
					w["stack"] = string(debug.Stack())
					c.Violation("pcm.verify-panics", w)
					verr = errors.New("panic")
				}
			}()
			verr = pcm.Verify(srcUID, height, round, bd, proofs)
		}()
		got := verr == nil
		fk := fault
		if fk == "" {
			fk = "none"
		}
		if countFault != "" {
			fk = countFault
		}
		switch {
		case got && !want && holeBefore:
			c.Violation("pcm.accepts-invalid-proof.after-network-type-without-context."+fk, wit("accepted"))
		case got && !want:
			c.Violation("pcm.accepts-invalid-proof."+fk, wit("accepted"))
		case !got && want:
			c.Violation("pcm.rejects-valid-proofs", wit(verr.Error()))
		case want:
			c.Count("pcm_accept_agreed", 1)
		default:
			c.Count("pcm_reject_agreed", 1)
			c.Count("pcm_fault_"+fk, 1)
		}
		hole := false
		for _, nt := range in {
			if !nt.hasPC {
				hole = true
			} else if hole {
				c.Count("pcm_context_after_hole", 1)
				if fault != "" && holeBefore {
					c.Count("pcm_fault_after_hole", 1)
				}
				break
			}
		}
		if len(in) >= 2 {
			c.Count("pcm_multi_type_digests", 1)
		}
		if fault != "" || countFault != "" || hole {
			c.NonTrivial("M" + string(dig) + fmt.Sprint(len(proofs), fault))
		}
	}
}

// modelProof: every filled slot recovers to its own slot's address over the
// true decision hash, and 3*filled > 2*n.
func modelProof(raw []byte, fault string, slots [][]byte, nt *netType, trueHash []byte) bool {
	if fault == "garbage-bytes" || fault == "proof-of-neighbour" {
		// these bytes are not the encoding of `slots`; they cannot carry this type's quorum
		// (a neighbour's proof is signed over another decision by other keys)
		return false
	}
	n := len(nt.keys)
	filled := 0
	for i, s := range slots {
		if s == nil {
			continue
		}
		filled++
		if i >= n || nt.keys[i] == nil || len(s) != 65 {
			return false
		}
		pk, ok := sig.RefRecoverPubVRS(append([]byte{s[64]}, s[:64]...), trueHash)
		if !ok || string(nt.addrPub(pk)) != string(nt.addrPub(nt.keys[i].Priv.PubKey())) {
			return false
		}
	}
	return 3*filled > 2*n
}
