// Package c17: the Merkle Patricia trie is a canonical map.
//
// Shape R: random histories over the real ompt trie (bytes API and object
// API) stepped in lock-step with a Go map; snapshots keep their own copy of
// the model and are re-checked after later mutations; the final content is
// rebuilt in other orders/regimes and the roots compared. Concurrency phase:
// reader goroutines on an immutable snapshot compare directly with the
// snapshot's model while the mutable is mutated, snapshotted, flushed and
// cache-cleared (race build).
package c17

import (
	"bytes"
	"encoding/hex"
	"fmt"
	"math/rand"
	"os"
	"path/filepath"
	"strings"
	"sync"
	"sync/atomic"

	"github.com/icon-project/goloop/common/db"
	"github.com/icon-project/goloop/common/log"
	"github.com/icon-project/goloop/common/trie/cache"

	"verif/lib/ev"
	tg "verif/lib/triegen"
)

const seqPerCase = 20

func init() {
	ev.Register(&ev.Prop{
		ID:    "C17",
		Level: "exploration",
		Cases: func(t string) int {
			if t == ev.Thorough {
				return 4800
			}
			return 144
		},
		Batches: func(t string) int { return 16 },
		Rule:    "each case = 20 sequential histories + 1 concurrent scenario. Sequential history: 0-39 prefill sets, then 60-100 ops (set new/overwrite/same value, delete present/absent, get present/absent, snapshot, flush, reload by root hash as immutable or as the continuing mutable, clear-cache on mutable/snapshot, reset to a snapshot, mutable-from-immutable) on keys of 0-40 bytes from an 8-byte alphabet (prefix-of-other-key, extension, sibling nibble, long shared prefix, 32-byte random) and values of 1-100 bytes, bytes API or object API, lock-step with a Go map; each snapshot is compared in full (ordered iteration, Get of stored and near-miss keys, Filter for several prefixes, Hash nil iff empty) when taken, after later mutations and at the end; final content rebuilt 3x in random order with random snapshot/flush/cache/reload regimes and once as superset-then-delete: all roots must be equal. One history in four runs over tries that use a node cache with FILE levels (cache.NewNodeCache(mem 0-2, file 1-3, scratch file); reloads, ClearCache and lookups then go through the file cache) and its root is also compared with a rebuild that uses no cache. Concurrent scenario: 8 reader goroutines (Get/iterate/Filter/Hash/GetProof) on one snapshot vs its model while the mutator sets/deletes/snapshots/flushes/clears cache. Non-trivial = distinct sequential history with >=1 delete of a present key, >=1 overwrite, >=1 snapshot re-checked after a later mutation, >=1 flush+reload and >=2 keys at the end.",
		MinNonTrivial: func(t string) int {
			if t == ev.Thorough {
				return 40000
			}
			return 1200
		},
		Required: []string{"set_new", "set_overwrite", "delete_present", "delete_absent", "get_present", "get_absent",
			"snapshots", "snapshot_rechecks_after_mutation", "flushes", "reload_immutable", "reload_mutable", "clear_cache_mutable",
			"clear_cache_snapshot", "reset_to_snapshot", "mutable_from_immutable", "iterations", "filters_nonempty_prefix", "filter_pairs",
			"canonical_rebuilds", "canonical_superset_delete", "emptied_tries", "object_api_histories", "bytes_api_histories",
			"histories_with_file_cache", "file_cache_reloads", "concurrent_lazy_value_scenarios", "concurrent_deletes_of_undecoded_leaves",
			"concurrent_scenarios", "concurrent_reader_checks", "concurrent_mutations", "concurrent_flushes", "concurrent_clear_cache"},
		Assumptions: []string{"Go map + sort.Strings (byte-lexicographic) is the reference map",
			"values are non-empty byte strings (an empty value is not a storable value in this trie)",
			"db.NewMapDB is the node store; SHA3 is collision free on the generated nodes",
			"concurrency phase: readers use only Get/Hash/Iterator/Filter/GetProof on the shared snapshot (Immutable.Empty() reads the root without a lock and is only used by goloop on unshared snapshots; it is outside the property's observation points)"},
		TimeoutSec: func(t string) int {
			if t == ev.Thorough {
				return 7200
			}
			return 600
		},
		Run: run,
	})
}

type opRec struct {
	Op string `json:"op"`
	K  string `json:"k,omitempty"`
	V  string `json:"v,omitempty"`
}

type hist struct {
	c          *ev.Ctx
	kind       string
	ops        []opRec
	bad        bool
	concurrent bool
}

func (h *hist) add(op string, k, v []byte) {
	h.ops = append(h.ops, opRec{op, hex.EncodeToString(k), hex.EncodeToString(v)})
}

func (h *hist) viol(key string, detail map[string]interface{}) {
	detail["api"] = h.kind
	detail["ops"] = append([]opRec(nil), h.ops...)
	h.c.Violation(key, detail)
	h.bad = true
}

func hx(b []byte) string {
	if b == nil {
		return "nil"
	}
	return hex.EncodeToString(b)
}

// checkSnap compares a snapshot with its model completely.
func (h *hist) checkSnap(r *rand.Rand, s tg.Snap, model map[string][]byte, where string) bool {
	c := h.c
	keys := tg.SortedKeys(model)
	// ordered iteration
	kvs, err := s.Iterate(nil, false)
	c.Count("iterations", 1)
	if err != nil {
		h.viol("iterate.error."+where, map[string]interface{}{"err": err.Error()})
		return false
	}
	if msg := comparePairs(kvs, keys, model); msg != "" {
		h.viol("iterate.not-the-stored-pairs-in-order."+where, map[string]interface{}{"diff": msg, "model_keys": hexKeys(keys)})
		return false
	}
	// hash / empty
	hash := s.Hash()
	// Empty() reads the root pointer without the trie's lock; it is not one of the
	// observation points of the property and goloop only calls it on a snapshot that
	// is not shared yet, so the concurrent readers do not call it.
	empty := len(model) == 0
	if !h.concurrent {
		empty = s.Empty()
	}
	if (len(model) == 0) != (hash == nil) || (len(model) == 0) != empty {
		h.viol("hash.nil-iff-empty."+where, map[string]interface{}{"hash": hx(hash), "model_size": len(model), "empty": empty})
		return false
	}
	// lookups
	for _, k := range keys {
		if len(keys) > 24 && r.Intn(3) != 0 {
			continue
		}
		v, err := s.Get([]byte(k))
		c.Count("get_present", 1)
		if err != nil || !bytes.Equal(v, model[k]) || v == nil {
			h.viol("get.stored-key."+where, map[string]interface{}{"key": hx([]byte(k)), "want": hx(model[k]), "got": hx(v), "err": fmt.Sprint(err)})
			return false
		}
	}
	for _, k := range tg.AbsentKeys(r, model, 6) {
		v, err := s.Get(k)
		c.Count("get_absent", 1)
		if err != nil || v != nil {
			h.viol("get.absent-key-yields-value."+where, map[string]interface{}{"key": hx(k), "got": hx(v), "err": fmt.Sprint(err)})
			return false
		}
	}
	// prefix iteration
	var prefixes [][]byte
	prefixes = append(prefixes, []byte{})
	if len(keys) > 0 {
		for i := 0; i < 3; i++ {
			p := []byte(keys[r.Intn(len(keys))])
			switch r.Intn(3) {
			case 0:
				p = p[:r.Intn(len(p)+1)]
			case 1:
			default:
				if len(p) > 0 {
					p = p[:len(p)-1]
				}
			}
			prefixes = append(prefixes, p)
		}
	}
	prefixes = append(prefixes, tg.AbsentKeys(r, model, 2)...)
	for _, p := range prefixes {
		var want []string
		for _, k := range keys {
			if strings.HasPrefix(k, string(p)) {
				want = append(want, k)
			}
		}
		kvs, err := s.Iterate(p, true)
		if err != nil {
			h.viol("filter.error."+where, map[string]interface{}{"prefix": hx(p), "err": err.Error()})
			return false
		}
		if len(p) > 0 {
			c.Count("filters_nonempty_prefix", 1)
			c.Count("filter_pairs", len(want))
		}
		if msg := comparePairs(kvs, want, model); msg != "" {
			h.viol("filter.not-exactly-the-prefixed-pairs."+where, map[string]interface{}{"prefix": hx(p), "diff": msg, "model_keys": hexKeys(keys)})
			return false
		}
	}
	return true
}

func hexKeys(keys []string) []string {
	o := make([]string, len(keys))
	for i, k := range keys {
		o[i] = hex.EncodeToString([]byte(k))
	}
	return o
}

func comparePairs(kvs []tg.KV, keys []string, model map[string][]byte) string {
	for i := 0; i < len(kvs) || i < len(keys); i++ {
		switch {
		case i >= len(kvs):
			return fmt.Sprintf("position %d: missing key %x (got %d pairs, want %d)", i, keys[i], len(kvs), len(keys))
		case i >= len(keys):
			return fmt.Sprintf("position %d: extra key %x (got %d pairs, want %d)", i, kvs[i].K, len(kvs), len(keys))
		case string(kvs[i].K) != keys[i]:
			return fmt.Sprintf("position %d: key %x, want %x", i, kvs[i].K, keys[i])
		case !bytes.Equal(kvs[i].V, model[keys[i]]):
			return fmt.Sprintf("position %d key %x: value %x, want %x", i, kvs[i].K, kvs[i].V, model[keys[i]])
		}
	}
	return ""
}

type liveSnap struct {
	s        tg.Snap
	model    map[string][]byte
	flushed  bool
	mutAfter bool // the mutable changed after this snapshot was taken
	d        db.Database
}

func run(c *ev.Ctx) {
	log.GlobalLogger().SetLevel(log.FatalLevel)
	c.Cases(func(ci int, r *rand.Rand) {
		for h := 0; h < seqPerCase && !c.Stopped(); h++ {
			seed := r.Int63()
			c.Note("seq-history %d seed %d", h, seed)
			if h > 0 {
				c.Eval(1)
			}
			seqHistory(c, rand.New(rand.NewSource(seed)), h)
		}
		if c.Stopped() {
			return
		}
		seed := r.Int63()
		c.Note("concurrent-scenario seed %d", seed)
		c.Eval(1)
		concScenario(c, rand.New(rand.NewSource(seed)))
	})
}

func seqHistory(c *ev.Ctx, r *rand.Rand, hno int) {
	f := tg.Factories[r.Intn(2)]
	plain := f
	c.Count(f.Kind()+"_api_histories", 1)
	fileCache := r.Intn(4) == 0
	if fileCache {
		// node cache with FILE levels (chain option node_cache "large" has 5 memory + 1 file level);
		// shallow here so that the small tries of the histories reach the file levels
		dir, err := os.MkdirTemp("", "c17-nodecache-")
		if err != nil {
			c.Violation("harness.mkdtemp", err.Error())
			return
		}
		defer os.RemoveAll(dir)
		cfg := [][2]int{{0, 1}, {0, 2}, {1, 1}, {1, 2}, {2, 1}, {0, 3}}[r.Intn(6)]
		f = tg.WithNodeCache(f, cache.NewNodeCache(cfg[0], cfg[1], filepath.Join(dir, "nodes")))
		c.Count("histories_with_file_cache", 1)
		c.Distinct("file_cache_configs", fmt.Sprint(cfg))
	}
	h := &hist{c: c, kind: f.Kind()}
	d := db.NewMapDB()
	kg := tg.NewKeyGen(r)
	mut := f.NewMutable(d, nil)
	model := map[string][]byte{}
	var snaps []*liveSnap
	var nDelPresent, nOverwrite, nRecheck, nReload int

	markMutated := func() {
		for _, s := range snaps {
			s.mutAfter = true
		}
	}
	presentKey := func() []byte {
		if len(model) == 0 {
			return nil
		}
		keys := tg.SortedKeys(model)
		return []byte(keys[r.Intn(len(keys))])
	}
	takeSnap := func() *liveSnap {
		s := &liveSnap{s: mut.Snapshot(), model: tg.CopyModel(model), d: d}
		c.Count("snapshots", 1)
		h.add("snapshot", nil, nil)
		snaps = append(snaps, s)
		if len(snaps) > 4 {
			snaps = snaps[1:]
		}
		return s
	}

	// prefill so that most histories work on a trie with real structure
	for i, n := 0, r.Intn(40); i < n; i++ {
		k, v := kg.Candidate(), tg.Value(r)
		h.add("set", k, v)
		if _, err := mut.Set(append([]byte{}, k...), append([]byte{}, v...)); err != nil {
			h.viol("set.error", map[string]interface{}{"err": err.Error()})
			return
		}
		model[string(k)] = v
	}
	nOps := 60 + r.Intn(41)
	for i := 0; i < nOps && !h.bad; i++ {
		switch x := r.Intn(100); {
		case x < 30: // set (new key mostly)
			var k []byte
			if r.Intn(4) == 0 && len(model) > 0 {
				k = presentKey()
			} else {
				k = kg.Candidate()
			}
			v := tg.Value(r)
			old, had := model[string(k)]
			if had && r.Intn(4) == 0 {
				v = append([]byte{}, old...) // same value again
			}
			h.add("set", k, v)
			got, err := mut.Set(append([]byte{}, k...), append([]byte{}, v...))
			if err != nil {
				h.viol("set.error", map[string]interface{}{"err": err.Error()})
				return
			}
			if !bytes.Equal(got, old) || (had != (got != nil)) {
				h.viol("set.returned-old-value", map[string]interface{}{"key": hx(k), "want": hx(old), "got": hx(got)})
				return
			}
			if had {
				c.Count("set_overwrite", 1)
				nOverwrite++
			} else {
				c.Count("set_new", 1)
			}
			model[string(k)] = v
			markMutated()
		case x < 48: // delete
			var k []byte
			if r.Intn(4) != 0 && len(model) > 0 {
				k = presentKey()
			} else {
				if ab := tg.AbsentKeys(r, model, 1); len(ab) > 0 {
					k = ab[0]
				} else {
					k = kg.Candidate()
				}
			}
			old, had := model[string(k)]
			h.add("delete", k, nil)
			got, err := mut.Delete(append([]byte{}, k...))
			if err != nil {
				h.viol("delete.error", map[string]interface{}{"err": err.Error()})
				return
			}
			if !bytes.Equal(got, old) || (had != (got != nil)) {
				h.viol("delete.returned-old-value", map[string]interface{}{"key": hx(k), "want": hx(old), "got": hx(got)})
				return
			}
			if had {
				c.Count("delete_present", 1)
				nDelPresent++
				delete(model, string(k))
				markMutated()
				if len(model) == 0 {
					c.Count("emptied_tries", 1)
					s := mut.Snapshot()
					if s.Hash() != nil || !s.Empty() {
						h.viol("hash.not-nil-after-deleting-everything", map[string]interface{}{"hash": hx(s.Hash())})
						return
					}
				}
			} else {
				c.Count("delete_absent", 1)
			}
		case x < 62: // get on the mutable
			var k []byte
			if r.Intn(2) == 0 && len(model) > 0 {
				k = presentKey()
			} else if ab := tg.AbsentKeys(r, model, 1); len(ab) > 0 {
				k = ab[0]
			} else {
				k = kg.Candidate()
			}
			want, had := model[string(k)]
			h.add("get", k, nil)
			got, err := mut.Get(k)
			if had {
				c.Count("get_present", 1)
			} else {
				c.Count("get_absent", 1)
			}
			if err != nil || !bytes.Equal(got, want) || (had != (got != nil)) {
				h.viol("get.mutable-not-last-written", map[string]interface{}{"key": hx(k), "want": hx(want), "got": hx(got), "err": fmt.Sprint(err)})
				return
			}
		case x < 72: // snapshot + full check
			s := takeSnap()
			// half of the snapshots are left untouched (nodes only frozen, not hashed)
			// until they are re-checked after later mutations
			if r.Intn(2) == 0 {
				c.Count("snapshots_left_frozen", 1)
			} else if !h.checkSnap(r, s.s, s.model, "fresh-snapshot") {
				return
			}
		case x < 79: // flush a snapshot (a new one or an older one)
			var s *liveSnap
			if len(snaps) > 0 && r.Intn(2) == 0 {
				s = snaps[r.Intn(len(snaps))]
				h.add(fmt.Sprintf("flush-older-snapshot(%d keys)", len(s.model)), nil, nil)
			} else {
				s = takeSnap()
				h.add("flush", nil, nil)
			}
			if err := s.s.Flush(); err != nil {
				h.viol("flush.error", map[string]interface{}{"err": err.Error()})
				return
			}
			s.flushed = true
			c.Count("flushes", 1)
		case x < 86: // reload by hash
			var s *liveSnap
			for _, cand := range snaps {
				if cand.flushed {
					s = cand
				}
			}
			if s == nil {
				s = takeSnap()
				if err := s.s.Flush(); err != nil {
					h.viol("flush.error", map[string]interface{}{"err": err.Error()})
					return
				}
				s.flushed = true
				c.Count("flushes", 1)
			}
			nReload++
			if fileCache {
				c.Count("file_cache_reloads", 1)
			}
			if r.Intn(2) == 0 {
				h.add(fmt.Sprintf("reload-immutable(%d keys)", len(s.model)), s.s.Hash(), nil)
				c.Count("reload_immutable", 1)
				im := f.NewImmutable(d, s.s.Hash())
				if !bytes.Equal(im.Hash(), s.s.Hash()) {
					h.viol("reload.hash-differs", map[string]interface{}{"want": hx(s.s.Hash()), "got": hx(im.Hash())})
					return
				}
				if !h.checkSnap(r, im, s.model, "reloaded-immutable") {
					return
				}
			} else {
				h.add(fmt.Sprintf("reload-mutable(%d keys)", len(s.model)), s.s.Hash(), nil)
				c.Count("reload_mutable", 1)
				mut = f.NewMutable(d, s.s.Hash())
				model = tg.CopyModel(s.model)
				markMutated()
			}
		case x < 91: // clear cache
			if r.Intn(2) == 0 || len(snaps) == 0 {
				h.add("clear-cache-mutable", nil, nil)
				mut.ClearCache()
				c.Count("clear_cache_mutable", 1)
			} else {
				s := snaps[r.Intn(len(snaps))]
				h.add(fmt.Sprintf("clear-cache-snapshot(%d keys)", len(s.model)), nil, nil)
				s.s.ClearCache()
				c.Count("clear_cache_snapshot", 1)
			}
		case x < 95: // reset to a snapshot
			if len(snaps) == 0 {
				continue
			}
			s := snaps[r.Intn(len(snaps))]
			if s.d != d {
				continue
			}
			h.add(fmt.Sprintf("reset-to-snapshot(%d keys)", len(s.model)), nil, nil)
			mut.Reset(s.s)
			model = tg.CopyModel(s.model)
			c.Count("reset_to_snapshot", 1)
			markMutated()
		case x < 97: // new mutable from a snapshot
			if len(snaps) == 0 {
				continue
			}
			s := snaps[r.Intn(len(snaps))]
			h.add(fmt.Sprintf("mutable-from-immutable(%d keys)", len(s.model)), nil, nil)
			mut = f.MutableFrom(s.s)
			model = tg.CopyModel(s.model)
			c.Count("mutable_from_immutable", 1)
			markMutated()
		default: // re-check an older snapshot
			if len(snaps) == 0 {
				continue
			}
			s := snaps[r.Intn(len(snaps))]
			h.add(fmt.Sprintf("recheck-snapshot(%d keys)", len(s.model)), nil, nil)
			if s.mutAfter {
				c.Count("snapshot_rechecks_after_mutation", 1)
				nRecheck++
			}
			if !h.checkSnap(r, s.s, s.model, "older-snapshot") {
				return
			}
		}
	}
	if h.bad {
		return
	}
	// end: all live snapshots still equal their models, the mutable equals its model
	for _, s := range snaps {
		if s.mutAfter {
			c.Count("snapshot_rechecks_after_mutation", 1)
			nRecheck++
		}
		if !h.checkSnap(r, s.s, s.model, "older-snapshot") {
			return
		}
	}
	final := mut.Snapshot()
	h.add("final-snapshot", nil, nil)
	if !h.checkSnap(r, final, model, "final") {
		return
	}
	// canonical root: rebuild the same content differently
	root := final.Hash()
	for i := 0; i < 3; i++ {
		rf := f
		if i == 0 {
			rf = plain // a history over a file node cache must end at the root of the same pairs built without any cache
		}
		got, desc := rebuild(r, rf, model, false)
		c.Count("canonical_rebuilds", 1)
		if !bytes.Equal(got, root) {
			h.viol("root.depends-on-history", map[string]interface{}{"root_of_history": hx(root), "root_of_rebuild": hx(got), "rebuild": desc, "content": modelHex(model)})
			return
		}
	}
	got, desc := rebuild(r, f, model, true)
	c.Count("canonical_superset_delete", 1)
	if !bytes.Equal(got, root) {
		h.viol("root.superset-then-delete-differs", map[string]interface{}{"root_of_history": hx(root), "root_of_rebuild": hx(got), "rebuild": desc, "content": modelHex(model)})
		return
	}
	// the other API kind must give the same root for the same pairs
	if r.Intn(4) == 0 {
		f2 := tg.Factories[0]
		if plain == f2 {
			f2 = tg.Factories[1]
		}
		got, desc := rebuild(r, f2, model, false)
		if !bytes.Equal(got, root) {
			h.viol("root.differs-between-bytes-and-object-api", map[string]interface{}{"root_of_history": hx(root), "root_of_rebuild": hx(got), "rebuild": desc, "content": modelHex(model)})
			return
		}
	}
	if nDelPresent > 0 && nOverwrite > 0 && nRecheck > 0 && nReload > 0 && len(model) >= 2 {
		var sb strings.Builder
		sb.WriteString(h.kind)
		for _, o := range h.ops {
			sb.WriteString(o.Op + ":" + o.K + ":" + o.V + ";")
		}
		c.NonTrivial(sb.String())
	}
	if hno == 0 && c.WantSample() {
		n := len(h.ops)
		if n > 25 {
			n = 25
		}
		c.Sample(map[string]interface{}{"api": h.kind, "first_ops": h.ops[:n], "ops": len(h.ops), "final_keys": len(model), "root": hx(root)})
	}
}

func modelHex(m map[string][]byte) map[string]string {
	o := map[string]string{}
	for k, v := range m {
		o[hex.EncodeToString([]byte(k))] = hex.EncodeToString(v)
	}
	return o
}

// rebuild builds a trie with exactly the model's pairs in a random order
// under a random snapshot/flush/cache/reload regime and returns its root.
// superset: first insert extra keys (and wrong values), then delete/overwrite back.
func rebuild(r *rand.Rand, f tg.Factory, model map[string][]byte, superset bool) ([]byte, string) {
	d := db.NewMapDB()
	mut := f.NewMutable(d, nil)
	keys := tg.SortedKeys(model)
	r.Shuffle(len(keys), func(i, j int) { keys[i], keys[j] = keys[j], keys[i] })
	var desc []string
	type step struct {
		k   string
		v   []byte
		del bool
	}
	var steps []step
	for _, k := range keys {
		steps = append(steps, step{k: k, v: model[k]})
	}
	if superset {
		var pre, post []step
		extra := tg.AbsentKeys(r, model, len(keys)/2+3)
		for _, k := range extra {
			pre = append(pre, step{k: string(k), v: tg.Value(r)})
			post = append(post, step{k: string(k), del: true})
		}
		for _, k := range keys {
			if r.Intn(3) == 0 {
				pre = append(pre, step{k: k, v: tg.Value(r)}) // wrong value first, overwritten later
			}
		}
		r.Shuffle(len(pre), func(i, j int) { pre[i], pre[j] = pre[j], pre[i] })
		// deletions interleaved with the real inserts
		all := append(steps, post...)
		r.Shuffle(len(all), func(i, j int) { all[i], all[j] = all[j], all[i] })
		steps = append(pre, all...)
	}
	regime := r.Intn(4) // 0: none, 1: snapshots, 2: snapshots+flush+cache, 3: + reload
	for _, st := range steps {
		if st.del {
			mut.Delete([]byte(st.k))
			desc = append(desc, "del:"+hex.EncodeToString([]byte(st.k)))
		} else {
			mut.Set([]byte(st.k), append([]byte{}, st.v...))
			desc = append(desc, "set:"+hex.EncodeToString([]byte(st.k)))
		}
		if regime == 0 || r.Intn(4) != 0 {
			continue
		}
		switch x := r.Intn(regime + 1); x {
		case 0:
			mut.Get([]byte(st.k))
		case 1:
			s := mut.Snapshot()
			s.Hash()
			desc = append(desc, "snapshot")
		case 2:
			s := mut.Snapshot()
			s.Flush()
			desc = append(desc, "flush")
			if r.Intn(2) == 0 {
				mut.ClearCache()
				desc = append(desc, "clear-cache")
			}
		default:
			s := mut.Snapshot()
			s.Flush()
			mut = f.NewMutable(d, s.Hash())
			desc = append(desc, "flush+reload")
		}
	}
	return mut.Snapshot().Hash(), f.Kind() + " " + strings.Join(desc, " ")
}

// ---- concurrency phase -----------------------------------------------------

func concScenario(c *ev.Ctx, r *rand.Rand) {
	f := tg.Factories[r.Intn(2)]
	// lazy: object trie reloaded from the database whose nodes are realized but whose
	// leaf values are still undecoded, shared by the snapshot under read and the mutable
	lazy := r.Intn(3) == 0
	if lazy {
		f = tg.ObjectFactory{}
	}
	d := db.NewMapDB()
	kg := tg.NewKeyGen(r)
	mut := f.NewMutable(d, nil)
	model := map[string][]byte{}
	n := 20 + r.Intn(100)
	var earlier tg.Snap
	for i := 0; i < n; i++ {
		k := kg.New()
		v := tg.Value(r)
		mut.Set(k, append([]byte{}, v...))
		model[string(k)] = v
		if i == n/2 && r.Intn(2) == 0 { // part of the nodes flushed, part not
			earlier = mut.Snapshot()
			earlier.Flush()
		}
	}
	// the snapshot under read, in one of several node states
	snap := mut.Snapshot()
	snapModel := tg.CopyModel(model)
	prep := r.Intn(5)
	prepName := []string{"frozen", "hashed", "flushed", "flushed+reloaded-by-hash", "flushed+cache-cleared"}[prep]
	switch prep {
	case 1:
		snap.Hash()
	case 2:
		snap.Flush()
	case 3:
		snap.Flush()
		snap = f.NewImmutable(d, snap.Hash())
		mut = f.MutableFrom(snap)
	case 4:
		snap.Flush()
		snap.ClearCache()
	}
	if lazy {
		prep, prepName = 3, "flushed+reloaded-by-hash+nodes-realized-values-undecoded"
		snap.Flush()
		snap = f.NewImmutable(d, snap.Hash())
		for k := range snapModel {
			snap.GetProof([]byte(k)) // walks and realizes the path; does not decode the value
		}
		mut = f.MutableFrom(snap)
		c.Count("concurrent_lazy_value_scenarios", 1)
	}
	if prep != 3 && r.Intn(3) == 0 {
		mut = f.MutableFrom(snap)
		prepName += "+mutable-from-immutable"
	}
	keys := tg.SortedKeys(snapModel)
	rootBefore := snap.Hash()

	const readers = 8
	var stop, checks int32
	var wg sync.WaitGroup
	var failed int32
	seeds := make([]int64, readers)
	for i := range seeds {
		seeds[i] = r.Int63()
	}
	witness := func(extra map[string]interface{}) map[string]interface{} {
		extra["api"] = f.Kind()
		extra["snapshot_state"] = prepName
		extra["snapshot_content"] = modelHex(snapModel)
		return extra
	}
	for g := 0; g < readers; g++ {
		wg.Add(1)
		go func(g int) {
			defer wg.Done()
			rr := rand.New(rand.NewSource(seeds[g]))
			h := &hist{c: c, kind: f.Kind(), concurrent: true}
			for it := 0; ; it++ {
				if atomic.LoadInt32(&stop) != 0 && it >= 3 {
					return
				}
				c.Count("concurrent_reader_checks", 1)
				atomic.AddInt32(&checks, 1)
				switch rr.Intn(8) {
				case 0: // full check: iteration, lookups, filters
					if !h.checkSnap(rr, snap, snapModel, "concurrent-reader") {
						atomic.StoreInt32(&failed, 1)
						return
					}
				case 1:
					if !bytes.Equal(snap.Hash(), rootBefore) {
						c.Violation("concurrent.snapshot-root-changed", witness(map[string]interface{}{"before": hx(rootBefore), "now": hx(snap.Hash())}))
						atomic.StoreInt32(&failed, 1)
						return
					}
				case 2: // proof of a stored key verifies on the snapshot itself
					if len(keys) == 0 {
						continue
					}
					k := []byte(keys[rr.Intn(len(keys))])
					p := snap.GetProof(k)
					if p == nil {
						c.Violation("concurrent.getproof-nil-for-stored-key", witness(map[string]interface{}{"key": hx(k)}))
						atomic.StoreInt32(&failed, 1)
						return
					}
				default: // burst of lookups
					for j := 0; j < 10; j++ {
						if len(keys) > 0 && rr.Intn(3) != 0 {
							k := keys[rr.Intn(len(keys))]
							v, err := snap.Get([]byte(k))
							if err != nil || v == nil || !bytes.Equal(v, snapModel[k]) {
								c.Violation("concurrent.get.stored-key", witness(map[string]interface{}{"key": hx([]byte(k)), "want": hx(snapModel[k]), "got": hx(v), "err": fmt.Sprint(err)}))
								atomic.StoreInt32(&failed, 1)
								return
							}
						} else if ab := tg.AbsentKeys(rr, snapModel, 1); len(ab) > 0 {
							v, err := snap.Get(ab[0])
							if err != nil || v != nil {
								c.Violation("concurrent.get.absent-key-yields-value", witness(map[string]interface{}{"key": hx(ab[0]), "got": hx(v), "err": fmt.Sprint(err)}))
								atomic.StoreInt32(&failed, 1)
								return
							}
						}
					}
				}
			}
		}(g)
	}
	// the mutator
	nMut := 150 + r.Intn(150)
	var lastSnap tg.Snap
	var lastModel map[string][]byte
	var delOrder []string
	if lazy { // the writer first deletes the snapshot's keys, each once, while the readers decode them
		delOrder = append(delOrder, keys...)
		r.Shuffle(len(delOrder), func(i, j int) { delOrder[i], delOrder[j] = delOrder[j], delOrder[i] })
	}
	for i := 0; (i < nMut || (atomic.LoadInt32(&checks) < 240 && i < 20000)) && atomic.LoadInt32(&failed) == 0; i++ {
		if len(delOrder) > 0 {
			k := delOrder[0]
			delOrder = delOrder[1:]
			mut.Delete([]byte(k))
			delete(model, k)
			c.Count("concurrent_mutations", 1)
			c.Count("concurrent_deletes_of_undecoded_leaves", 1)
			continue
		}
		switch x := r.Intn(100); {
		case x < 45:
			var k []byte
			if r.Intn(2) == 0 && len(keys) > 0 {
				k = []byte(keys[r.Intn(len(keys))])
			} else {
				k = kg.Candidate()
			}
			v := tg.Value(r)
			mut.Set(append([]byte{}, k...), append([]byte{}, v...))
			model[string(k)] = v
			c.Count("concurrent_mutations", 1)
		case x < 75:
			if len(keys) == 0 {
				continue
			}
			k := keys[r.Intn(len(keys))]
			mut.Delete([]byte(k))
			delete(model, k)
			c.Count("concurrent_mutations", 1)
		case x < 83:
			lastSnap = mut.Snapshot()
			lastModel = tg.CopyModel(model)
			c.Count("concurrent_snapshots", 1)
		case x < 90:
			s := mut.Snapshot()
			s.Flush()
			lastSnap, lastModel = s, tg.CopyModel(model)
			c.Count("concurrent_flushes", 1)
		case x < 94:
			snap.Flush() // flushing the snapshot that is being read
			c.Count("concurrent_flushes", 1)
		default:
			mut.ClearCache()
			c.Count("concurrent_clear_cache", 1)
		}
	}
	atomic.StoreInt32(&stop, 1)
	wg.Wait()
	if atomic.LoadInt32(&failed) != 0 || c.Stopped() {
		return
	}
	// afterwards: everything still equals its model
	h := &hist{c: c, kind: f.Kind()}
	h.add("concurrent-scenario snapshot_state="+prepName, nil, nil)
	if !h.checkSnap(r, snap, snapModel, "after-concurrent-phase.read-snapshot") {
		return
	}
	if lastSnap != nil && !h.checkSnap(r, lastSnap, lastModel, "after-concurrent-phase.later-snapshot") {
		return
	}
	if !h.checkSnap(r, mut.Snapshot(), model, "after-concurrent-phase.mutable") {
		return
	}
	_ = earlier
	c.Count("concurrent_scenarios", 1)
	c.Count("concurrent_goroutine_runs_without_race_report", readers+1)
	c.Distinct("concurrent_snapshot_states", prepName+"/"+f.Kind())
}
