package c23

import (
	"math/big"
	"reflect"

	"github.com/icon-project/goloop/common"
	"github.com/icon-project/goloop/common/codec"
)

// The closed family of Go types the check draws values from. Shapes whose
// nil/empty forms the format cannot tell apart are left out on purpose:
// pointer-to-slice/map/pointer (nil pointer and pointer-to-nil are both
// `f8 00`), interface-typed fields (not decodable), custom codecs stored by
// value in maps (map values are not addressable, so pointer-receiver codecs
// are not used for them).

type Inner struct {
	A int
	B string
	C []byte
}

type Emb struct {
	E1 uint16
	E2 string
}

// Custom has its own list codec (field order differs from the reflective one).
type Custom struct {
	X int32
	Y string
	Z []byte
}

func (c *Custom) RLPEncodeSelf(e codec.Encoder) error { return e.EncodeListOf(c.Y, c.X, c.Z) }
func (c *Custom) RLPDecodeSelf(d codec.Decoder) error { return d.DecodeListOf(&c.Y, &c.X, &c.Z) }

// Bin goes through encoding.BinaryMarshaler (V is never nil: a binary
// marshaler returning nil would be written as the null sequence).
type Bin struct {
	V []byte
}

func (b *Bin) MarshalBinary() ([]byte, error) { return append([]byte{}, b.V...), nil }
func (b *Bin) UnmarshalBinary(d []byte) error  { b.V = append([]byte{}, d...); return nil }

// Raw goes through codec.Marshaler/Unmarshaler (WriteRaw/ReadRaw).
type Raw struct {
	N uint32
	S string
}

type rawBody struct {
	N uint32
	S string
}

func (w *Raw) MarshalRLP() ([]byte, error) {
	return codec.BC.MarshalToBytes(&rawBody{w.N, w.S})
}
func (w *Raw) UnmarshalRLP(b []byte) error {
	var body rawBody
	if _, err := codec.BC.UnmarshalFromBytes(b, &body); err != nil {
		return err
	}
	w.N, w.S = body.N, body.S
	return nil
}

type Node struct {
	V    int16
	Next *Node
	Kids []*Node
}

type Ints struct {
	I   int
	I8  int8
	I16 int16
	I32 int32
	I64 int64
	U   uint
	U8  uint8
	U16 uint16
	U32 uint32
	U64 uint64
	B   bool
}

type All struct {
	N    Ints
	S    string
	Bs   []byte
	Big  *big.Int
	H    common.HexInt
	PH   *common.HexInt
	P    *Inner
	PI   *int64
	PS   *string
	PB   *bool
	L    []int64
	LS   []string
	LB   [][]byte
	LP   []*Inner
	LL   [][]uint16
	LC   []Custom
	M    map[string]int64
	MI   map[int32]string
	MU   map[uint16][]byte
	MS   map[string]*Inner
	MM   map[string]map[int8]string
	Arr  [4]byte
	ArrI [3]int16
	In   Inner
	Emb
	hidden int // unexported: not encoded, stays zero
	C      Custom
	PC     *Custom
	Bn     Bin
	PBn    *Bin
	Rw     Raw
	T      *codec.TypedObj
	Last   uint8
}

type WithTyped struct {
	A *codec.TypedObj
	L []*codec.TypedObj
}

func typeOf[T any]() reflect.Type { return reflect.TypeOf((*T)(nil)).Elem() }

var (
	bigIntType   = typeOf[big.Int]()
	hexIntType   = typeOf[common.HexInt]()
	typedObjType = typeOf[codec.TypedObj]()
	binType      = typeOf[Bin]()
)

type famType struct {
	name string
	t    reflect.Type
}

var family = []famType{
	{"int", typeOf[int]()}, {"int8", typeOf[int8]()}, {"int16", typeOf[int16]()}, {"int32", typeOf[int32]()}, {"int64", typeOf[int64]()},
	{"uint", typeOf[uint]()}, {"uint8", typeOf[uint8]()}, {"uint16", typeOf[uint16]()}, {"uint32", typeOf[uint32]()}, {"uint64", typeOf[uint64]()},
	{"bool", typeOf[bool]()}, {"string", typeOf[string]()}, {"bytes", typeOf[[]byte]()},
	{"arr4", typeOf[[4]byte]()}, {"arr20", typeOf[[20]byte]()}, {"arr3i16", typeOf[[3]int16]()},
	{"pbig", typeOf[*big.Int]()}, {"hexint", typeOf[common.HexInt]()},
	{"Inner", typeOf[Inner]()}, {"pInner", typeOf[*Inner]()}, {"Ints", typeOf[Ints]()}, {"Custom", typeOf[Custom]()}, {"pCustom", typeOf[*Custom]()},
	{"Bin", typeOf[Bin]()}, {"Raw", typeOf[Raw]()}, {"Node", typeOf[Node]()}, {"All", typeOf[All]()}, {"WithTyped", typeOf[WithTyped]()},
	{"pint64", typeOf[*int64]()}, {"pstring", typeOf[*string]()},
	{"l_int64", typeOf[[]int64]()}, {"l_string", typeOf[[]string]()}, {"l_bytes", typeOf[[][]byte]()}, {"l_pInner", typeOf[[]*Inner]()},
	{"l_l_uint16", typeOf[[][]uint16]()}, {"l_Custom", typeOf[[]Custom]()}, {"l_pCustom", typeOf[[]*Custom]()}, {"l_bool", typeOf[[]bool]()},
	{"l_l_l_int8", typeOf[[][][]int8]()}, {"l_map", typeOf[[]map[string]int]()},
	{"m_str_int64", typeOf[map[string]int64]()}, {"m_int32_str", typeOf[map[int32]string]()}, {"m_uint16_bytes", typeOf[map[uint16][]byte]()},
	{"m_str_pInner", typeOf[map[string]*Inner]()}, {"m_int64_lint", typeOf[map[int64][]int]()}, {"m_str_m", typeOf[map[string]map[string]int]()},
	{"m_uint64_u8", typeOf[map[uint64]uint8]()}, {"m_int8_bool", typeOf[map[int8]bool]()},
	{"TypedObj", typeOf[codec.TypedObj]()}, {"pTypedObj", typeOf[*codec.TypedObj]()},
}

// mapFamily are the top-level map types (for the ordering checks).
func isMapType(t reflect.Type) bool { return t.Kind() == reflect.Map }
